(* C16/Nicks.v — the nick mutators of IrcUser never leave a state users.conf cannot represent *)
From Coq Require Import List NArith ZArith Bool.
Import ListNotations.
Require Import Base.Wire Base.PyStr C16.Model C16.Lemmas C16.Roundtrip C16.Files.
Require gen.T16.
Open Scope N_scope.

(* statement order pinned from the source *)
Lemma addnick_checks_first : gen.T16.ADDNICK_LIST_BEFORE_CHECK = false. Proof. reflexivity. Qed.
Lemma removenick_drops_empty : gen.T16.REMOVENICK_DROPS_EMPTY = true. Proof. reflexivity. Qed.
Lemma addnick_refuses_ws : gen.T16.ADDNICK_REFUSES_WHITESPACE = true. Proof. reflexivity. Qed.

Definition ne_list (nn : str * list str) : bool := match snd nn with [] => false | _ => true end.

Lemma dict_set_forallb (P : str * list str -> bool) k v d :
  (forall k', P (k', v) = P (k, v)) -> P (k, v) = true -> forallb P d = true -> forallb P (dict_set k v d) = true.
Proof.
  intros Hk Hv. induction d as [|[k' v'] d IH]; cbn [dict_set forallb]; intro H.
  - rewrite Hv. reflexivity.
  - apply andb_true_iff in H as [H1 H2]. destruct (seq_eqb k k').
    + cbn [forallb]. rewrite Hk, Hv, H2. reflexivity.
    + cbn [forallb]. rewrite H1, (IH H2). reflexivity.
Qed.

Lemma dict_del_forallb (P : str * list str -> bool) k d : forallb P d = true -> forallb P (dict_del k d) = true.
Proof.
  induction d as [|[k' v'] d IH]; cbn [dict_del forallb]; intro H; [reflexivity|].
  apply andb_true_iff in H as [H1 H2]. destruct (seq_eqb k k'); [exact H2|].
  cbn [forallb]. rewrite H1, (IH H2). reflexivity.
Qed.

(* a refused claim (assertion, nick already taken) leaves the account exactly as it was *)
Lemma refused_addnick_unchanged db u net nick valid e :
  snd (add_nick db u net nick valid) = Some e -> fst (add_nick db u net nick valid) = u.
Proof.
  unfold add_nick. rewrite addnick_checks_first. destruct valid; cbn [negb]; [|reflexivity].
  destruct (gen.T16.ADDNICK_REFUSES_WHITESPACE && negb (token net && token nick)); [reflexivity|].
  destruct (get_user_from_nick db net nick); cbn [fst snd]; [reflexivity|discriminate].
Qed.

Lemma refused_removenick_unchanged u net nick e :
  snd (remove_nick u net nick) = Some e -> fst (remove_nick u net nick) = u.
Proof.
  unfold remove_nick. destruct (nick_list u net) as [l|]; [|reflexivity].
  destruct (negb (smem nick l)); [reflexivity|]. rewrite removenick_drops_empty.
  destruct (remove_first nick l); cbn [snd]; discriminate.
Qed.

Lemma set_nicks_nonempty x u : nick_lists_nonempty (set_nicks x u) = forallb ne_list x.
Proof. reflexivity. Qed.

Lemma add_nick_keeps_nonempty db u net nick valid :
  nick_lists_nonempty u = true -> nick_lists_nonempty (fst (add_nick db u net nick valid)) = true.
Proof.
  intro H. unfold add_nick. rewrite addnick_checks_first. destruct valid; cbn [negb]; [|exact H].
  destruct (gen.T16.ADDNICK_REFUSES_WHITESPACE && negb (token net && token nick)); [exact H|].
  destruct (get_user_from_nick db net nick); cbn [fst]; [exact H|].
  rewrite set_nicks_nonempty. apply dict_set_forallb; [reflexivity| |exact H].
  unfold ne_list. cbn [snd]. destruct (nick_list u net) as [l|].
  - destruct (smem nick l) eqn:E; [|destruct l; reflexivity].
    destruct l; [discriminate E|reflexivity].
  - reflexivity.
Qed.

Lemma remove_nick_keeps_nonempty u net nick :
  nick_lists_nonempty u = true -> nick_lists_nonempty (fst (remove_nick u net nick)) = true.
Proof.
  intro H. unfold remove_nick. destruct (nick_list u net) as [l|]; [|exact H].
  destruct (negb (smem nick l)); [exact H|]. rewrite removenick_drops_empty.
  destruct (remove_first nick l) as [|x l'] eqn:E; cbn [fst]; rewrite set_nicks_nonempty.
  - apply dict_del_forallb. exact H.
  - apply dict_set_forallb; [reflexivity|reflexivity|exact H].
Qed.

(* ------------------------------------------------------------------ *)
(* every nick dictionary that accepted addNick / removeNick calls can build is one users.conf represents:
   the nick conjuncts of users_dom (Roundtrip.nick_ok on every entry, nicks_stable) hold *)
Definition nicks_inv (u : user) : Prop :=
  forallb nick_ok (u_nicks u) = true /\ NoDup (map fst (u_nicks u)).

Lemma dict_set_forallb' {V} (P : str * V -> bool) k v d :
  P (k, v) = true -> forallb P d = true -> forallb P (dict_set k v d) = true.
Proof.
  intro Hv. induction d as [|[k' v'] d IH]; cbn [dict_set forallb]; intro H.
  - rewrite Hv. reflexivity.
  - apply andb_true_iff in H as [H1 H2]. destruct (seq_eqb k k') eqn:E.
    + apply seq_eqb_eq in E. subst k'. cbn [forallb]. rewrite Hv, H2. reflexivity.
    + cbn [forallb]. rewrite H1, (IH H2). reflexivity.
Qed.

Lemma existsb_key_In k (l : list str) : existsb (seq_eqb k) l = true <-> In k l.
Proof.
  rewrite existsb_exists. split.
  - intros (x & Hx & E). apply seq_eqb_eq in E. subst. exact Hx.
  - intro H. exists k. split; [exact H|apply seq_eqb_refl].
Qed.

Lemma dict_set_keys {V} k (v : V) d :
  map fst (dict_set k v d) = if existsb (seq_eqb k) (map fst d) then map fst d else map fst d ++ [k].
Proof.
  induction d as [|[k' v'] d IH]; [reflexivity|]. cbn [dict_set map fst existsb].
  destruct (seq_eqb k k'); cbn [orb map fst]; [reflexivity|]. rewrite IH.
  destruct (existsb (seq_eqb k) (map fst d)); reflexivity.
Qed.

Lemma nodup_snoc {A} (l : list A) x : NoDup l -> ~ In x l -> NoDup (l ++ [x]).
Proof.
  induction l as [|y l IH]; intros H Hx; [repeat constructor; intros []|].
  inversion H as [|? ? Hn Hd]; subst. cbn [app]. constructor.
  - intro Hin. apply in_app_or in Hin as [Hin|[Hin|[]]]; [contradiction|subst; apply Hx; left; reflexivity].
  - apply IH; [exact Hd|intro Hin; apply Hx; right; exact Hin].
Qed.

Lemma dict_set_nodup {V} k (v : V) d : NoDup (map fst d) -> NoDup (map fst (dict_set k v d)).
Proof.
  intro H. rewrite dict_set_keys. destruct (existsb (seq_eqb k) (map fst d)) eqn:E; [exact H|].
  apply nodup_snoc; [exact H|]. intro Hin. apply existsb_key_In in Hin. congruence.
Qed.

Lemma dict_del_keys_incl {V} k (d : list (str * V)) x : In x (map fst (dict_del k d)) -> In x (map fst d).
Proof.
  induction d as [|[k' v'] d IH]; [intros []|]. cbn [dict_del]. destruct (seq_eqb k k'); cbn [map fst].
  - intro H. right. exact H.
  - intros [H|H]; [left; exact H|right; apply IH; exact H].
Qed.

Lemma dict_del_nodup {V} k (d : list (str * V)) : NoDup (map fst d) -> NoDup (map fst (dict_del k d)).
Proof.
  induction d as [|[k' v'] d IH]; [intro H; exact H|]. cbn [dict_del map fst]. intro H. inversion H as [|? ? Hn Hd]; subst.
  destruct (seq_eqb k k'); [exact Hd|]. cbn [map fst]. constructor; [|apply IH; exact Hd].
  intro Hin. apply Hn. apply (dict_del_keys_incl _ _ _ Hin).
Qed.

Lemma dict_get_forallb {V} (P : str * V -> bool) k d l :
  dict_get k d = Some l -> forallb P d = true -> P (k, l) = true.
Proof.
  induction d as [|[k' v'] d IH]; [discriminate|]. cbn [dict_get forallb]. intros Hg H.
  apply andb_true_iff in H as [H1 H2]. destruct (seq_eqb k k') eqn:E.
  - apply seq_eqb_eq in E. subst k'. inversion Hg; subst. exact H1.
  - apply IH; assumption.
Qed.

Definition nick_str_ok (n : str) : bool := no_nl_tab n && negb (mem SP n).

Lemma token_nick_str_ok n : token n = true -> nick_str_ok n = true.
Proof.
  intro H. pose proof (token_nonws _ H) as Hn. unfold nick_str_ok.
  rewrite (nonws_no_nl_tab _ Hn), (nonws_nomem SP _ ws_SP Hn). reflexivity.
Qed.

Lemma nick_ok_parts nn : nick_ok nn = true ->
  token (fst nn) = true /\ snd nn <> [] /\ forallb nick_str_ok (snd nn) = true.
Proof.
  unfold nick_ok. intro H. apply andb_true_iff in H as [H H3]. apply andb_true_iff in H as [H1 H2].
  repeat split; [exact H1| |exact H3]. destruct (snd nn); [discriminate|discriminate].
Qed.

Lemma nick_ok_intro net l : token net = true -> l <> [] -> forallb nick_str_ok l = true -> nick_ok (net, l) = true.
Proof.
  intros H1 H2 H3. unfold nick_ok. cbn [fst snd]. rewrite H1. destruct l; [congruence|]. exact H3.
Qed.

Lemma remove_first_forallb (P : str -> bool) x l : forallb P l = true -> forallb P (remove_first x l) = true.
Proof.
  induction l as [|y l IH]; [reflexivity|]. cbn [remove_first forallb]. intro H. apply andb_true_iff in H as [H1 H2].
  destruct (seq_eqb x y); [exact H2|]. cbn [forallb]. rewrite H1, (IH H2). reflexivity.
Qed.

Lemma add_nick_inv db u net nick valid : nicks_inv u -> nicks_inv (fst (add_nick db u net nick valid)).
Proof.
  intros [Hok Hnd]. unfold add_nick. rewrite addnick_checks_first, addnick_refuses_ws.
  destruct valid; cbn [negb andb]; [|split; assumption].
  destruct (token net && token nick) eqn:T; cbn [negb]; [|split; assumption].
  apply andb_true_iff in T as [Tn Tk].
  destruct (get_user_from_nick db net nick); cbn [fst]; [split; assumption|].
  unfold nicks_inv. cbn [u_nicks set_nicks]. split; [|apply dict_set_nodup; exact Hnd].
  apply dict_set_forallb'; [|exact Hok]. unfold nick_list.
  destruct (dict_get net (u_nicks u)) as [l|] eqn:G.
  - pose proof (dict_get_forallb _ _ _ _ G Hok) as Hl. destruct (nick_ok_parts _ Hl) as (_ & Hne & Hall). cbn [snd] in *.
    destruct (smem nick l).
    + apply nick_ok_intro; assumption.
    + apply nick_ok_intro; [exact Tn|destruct l; discriminate|].
      rewrite forallb_app, Hall. cbn [forallb]. rewrite (token_nick_str_ok _ Tk). reflexivity.
  - apply nick_ok_intro; [exact Tn|discriminate|]. cbn. rewrite (token_nick_str_ok _ Tk). reflexivity.
Qed.

Lemma remove_nick_inv u net nick : nicks_inv u -> nicks_inv (fst (remove_nick u net nick)).
Proof.
  intros [Hok Hnd]. unfold remove_nick, nick_list.
  destruct (dict_get net (u_nicks u)) as [l|] eqn:G; [|split; assumption].
  destruct (negb (smem nick l)); [split; assumption|]. rewrite removenick_drops_empty.
  pose proof (dict_get_forallb _ _ _ _ G Hok) as Hl. destruct (nick_ok_parts _ Hl) as (Tn & _ & Hall). cbn [fst snd] in *.
  destruct (remove_first nick l) as [|x l'] eqn:E; cbn [fst]; unfold nicks_inv; cbn [u_nicks set_nicks].
  - split; [apply dict_del_forallb; exact Hok|apply dict_del_nodup; exact Hnd].
  - split; [|apply dict_set_nodup; exact Hnd]. apply dict_set_forallb'; [|exact Hok].
    apply nick_ok_intro; [exact Tn|discriminate|]. rewrite <- E. apply remove_first_forallb. exact Hall.
Qed.

Lemma fresh_user_inv : nicks_inv fresh_user.
Proof. split; [reflexivity|constructor]. Qed.

(* the invariant is what users_dom asks of the nick dictionary *)
Lemma fold_dict_set_app (ns : list (str * list str)) : forall acc,
  NoDup (map fst acc ++ map fst ns) ->
  fold_left (fun d nn => dict_set (fst nn) (snd nn) d) ns acc = acc ++ ns.
Proof.
  induction ns as [|[k v] ns IH]; intros acc H; [rewrite app_nil_r; reflexivity|].
  cbn [fold_left fst snd]. rewrite dict_set_new.
  - rewrite IH; [rewrite <- app_assoc; reflexivity|]. rewrite map_app. cbn [map fst]. rewrite <- app_assoc. exact H.
  - destruct (existsb (seq_eqb k) (map fst acc)) eqn:E; [|reflexivity]. apply existsb_key_In in E.
    exfalso. cbn [map fst] in H. apply NoDup_remove_2 in H. apply H. apply in_or_app. left. exact E.
Qed.

Lemma list_eqb_refl {A} (eq : A -> A -> bool) : (forall x, eq x x = true) -> forall l, list_eqb eq l l = true.
Proof. intros He l. induction l as [|x l IH]; [reflexivity|]. cbn. rewrite He, IH. reflexivity. Qed.

Lemma nicks_inv_dom u : nicks_inv u -> forallb nick_ok (u_nicks u) = true /\ nicks_stable (u_nicks u) = true.
Proof.
  intros [Hok Hnd]. split; [exact Hok|]. unfold nicks_stable.
  rewrite (fold_dict_set_app (u_nicks u) [] Hnd). apply list_eqb_refl.
  intros [a b]. cbn [fst snd]. rewrite seq_eqb_refl. apply list_eqb_refl. apply seq_eqb_refl.
Qed.

Lemma accepted_calls_domain :
  nicks_inv fresh_user /\
  (forall db u net nick valid, nicks_inv u -> nicks_inv (fst (add_nick db u net nick valid))) /\
  (forall u net nick, nicks_inv u -> nicks_inv (fst (remove_nick u net nick))) /\
  (forall u, nicks_inv u -> forallb nick_ok (u_nicks u) = true /\ nicks_stable (u_nicks u) = true).
Proof.
  split; [exact fresh_user_inv|]. split; [exact add_nick_inv|]. split; [exact remove_nick_inv|exact nicks_inv_dom].
Qed.

(* non-vacuity: a refused claim by an account without nicks on that network *)
Definition nk_a : user := User (Some 1%Z) [97] false false true [112] [] [] [([110], [[120]])] [].
Definition nk_b : user := User (Some 2%Z) [98] false false true [112] [] [] [] [].
Example refused_claim :
  add_nick [nk_a; nk_b] nk_b [110] [120] true = (nk_b, Some KeyError)
  /\ fst (add_nick [nk_a; nk_b] nk_b [110] [121] true) = set_nicks [([110], [[121]])] nk_b.
Proof. split; vm_compute; reflexivity. Qed.
