(* C16/Roundtrip.v — the reader run on the writer's own output (users database) *)
From Coq Require Import List NArith ZArith Bool Arith Lia ZifyBool.
Import ListNotations.
Require Import Base.Wire Base.PyStr C16.Model C16.Lemmas.
Require gen.T16.
Open Scope N_scope.

(* ------------------------------------------------------------------ *)
(* generic reader facts                                                 *)
Section R.
Variable St : Type.
Variable new_creator : St -> St.
Variable finish : St -> St * option exn.
Variable exec : str -> str -> St -> St * option exn.
Notation rstep' := (rstep St new_creator finish exec).
Notation rlines' := (rlines St new_creator finish exec).

Definition rtext (text : str) (rs : rstate St) : rstate St * option exn := rlines' (split_nl text) rs.

Lemma rstep_empty rs : rstep' rs [] = (rs, None).
Proof. reflexivity. Qed.

Lemma rtext_nil rs : rtext [] rs = (rs, None).
Proof. reflexivity. Qed.

Lemma rtext_blank rest rs : rtext (LF :: rest) rs = rtext rest rs.
Proof. reflexivity. Qed.

Lemma rtext_line s rest rs : mem LF s = false -> mem CR s = false ->
  rtext (s ++ LF :: rest) rs =
  match rstep' rs s with (rs', None) => rtext rest rs' | (rs', Some e) => (rs', Some e) end.
Proof. intros H1 H2. unfold rtext. rewrite (split_nl_line _ _ H1 H2). reflexivity. Qed.

Lemma rstep_seg rs k kw val : token kw = true -> safe_field val = true ->
  rstep' rs (seg k kw val) =
  let '(rs1, e1) :=
    if indent_differs k (r_indent rs) then
      let '(st1, e) := if r_has rs then finish (r_st rs) else (r_st rs, None) in
      match e with
      | Some x => (RState (r_indent rs) (r_has rs) (r_mod rs) st1, Some x)
      | None => (RState (Some k) true false (new_creator st1), None)
      end
    else (rs, None) in
  match e1 with
  | Some x => (rs1, Some x)
  | None => let '(st2, e2) := exec (lower kw) val (r_st rs1) in
            (RState (r_indent rs1) (r_has rs1) true st2, e2)
  end.
Proof.
  intros Hk Hv. unfold rstep. pose proof (seg_no_nl_tab k _ _ Hk Hv) as Hn.
  destruct (no_nl_tab_parts _ Hn) as (H1 & H2 & H3).
  unfold seg at 1. rewrite (is_blank_line k kw val Hk).
  rewrite (rstrip_crlf_id _ H1 H2). unfold expandtabs. rewrite (expandtabs_go_id _ 0%nat Hn).
  unfold seg. rewrite (lstrip_line k kw (SP :: val) Hk).
  replace (length (repeat SP k ++ kw ++ SP :: val) - length (kw ++ SP :: val))%nat with k
    by (rewrite app_length, repeat_length; lia).
  rewrite (split_ws1_kw _ _ Hk Hv). reflexivity.
Qed.
End R.

(* ------------------------------------------------------------------ *)
(* users                                                                *)
Definition urt := rtext ustate user_new user_finish user_exec.
Definition S2 (db : list user) (next : Z) (u : user) : rstate ustate :=
  RState (Some 2%nat) true true (UState (Some u) db next).
Definition S0 (db : list user) (next : Z) (u : user) : rstate ustate :=
  RState (Some 0%nat) true true (UState (Some u) db next).
Definition R0 : rstate ustate := RState None false false (UState None [] 0%Z).

Lemma wline_seg2 kw val rest : wline IND kw val ++ rest = seg 2 kw val ++ LF :: rest.
Proof. unfold wline, seg, IND. cbn [repeat]. repeat (rewrite <- app_assoc; cbn [app]). reflexivity. Qed.
Lemma wline_seg0 kw val rest : wline [] kw val ++ rest = seg 0 kw val ++ LF :: rest.
Proof. unfold wline, seg. cbn [repeat]. repeat (rewrite <- app_assoc; cbn [app]). reflexivity. Qed.

Lemma seg_nl k kw val : token kw = true -> safe_field val = true ->
  mem LF (seg k kw val) = false /\ mem CR (seg k kw val) = false.
Proof. intros Hk Hv. destruct (no_nl_tab_parts _ (seg_no_nl_tab k _ _ Hk Hv)) as (A & B & _). split; assumption. Qed.

(* a field line at the current indentation *)
Lemma uline_same db next u kw val k rest u' :
  token kw = true -> safe_field val = true ->
  dict_get (lower kw) user_cmds = Some k ->
  user_handler k val u = Ok u' ->
  urt (wline IND kw val ++ rest) (S2 db next u) = urt rest (S2 db next u').
Proof.
  intros Hk Hv Hd Hh. unfold urt. rewrite wline_seg2. destruct (seg_nl 2 _ _ Hk Hv) as [A B].
  rewrite (rtext_line _ _ _ _ _ _ _ A B). rewrite (rstep_seg _ _ _ _ _ _ _ _ Hk Hv).
  unfold S2. cbn [r_indent indent_differs Nat.eqb negb r_st r_has]. unfold user_exec. rewrite Hd. cbn [us_u].
  rewrite Hh. reflexivity.
Qed.

(* keyword facts: by computation on the regenerated table *)
Ltac vmc := vm_compute; reflexivity.
Lemma tk_user : token gen.T16.WH_user = true. Proof. vmc. Qed.
Lemma tk_name : token gen.T16.WU_name = true. Proof. vmc. Qed.
Lemma tk_ignore : token gen.T16.WU_ignore = true. Proof. vmc. Qed.
Lemma tk_secure : token gen.T16.WU_secure = true. Proof. vmc. Qed.
Lemma tk_hashed : token gen.T16.WU_hashed = true. Proof. vmc. Qed.
Lemma tk_password : token gen.T16.WU_password = true. Proof. vmc. Qed.
Lemma tk_capability : token gen.T16.WU_capability = true. Proof. vmc. Qed.
Lemma tk_hostmask : token gen.T16.WU_hostmask = true. Proof. vmc. Qed.
Lemma tk_nicks : token gen.T16.WU_nicks = true. Proof. vmc. Qed.
Lemma tk_gpgkey : token gen.T16.WU_gpgkey = true. Proof. vmc. Qed.
Lemma dp_user : dict_get (lower gen.T16.WH_user) user_cmds = Some UUser. Proof. vmc. Qed.
Lemma dp_name : dict_get (lower gen.T16.WU_name) user_cmds = Some UName. Proof. vmc. Qed.
Lemma dp_ignore : dict_get (lower gen.T16.WU_ignore) user_cmds = Some UIgnore. Proof. vmc. Qed.
Lemma dp_secure : dict_get (lower gen.T16.WU_secure) user_cmds = Some USecure. Proof. vmc. Qed.
Lemma dp_hashed : dict_get (lower gen.T16.WU_hashed) user_cmds = Some UHashed. Proof. vmc. Qed.
Lemma dp_password : dict_get (lower gen.T16.WU_password) user_cmds = Some UPassword. Proof. vmc. Qed.
Lemma dp_capability : dict_get (lower gen.T16.WU_capability) user_cmds = Some UCapability. Proof. vmc. Qed.
Lemma dp_hostmask : dict_get (lower gen.T16.WU_hostmask) user_cmds = Some UHostmask. Proof. vmc. Qed.
Lemma dp_nicks : dict_get (lower gen.T16.WU_nicks) user_cmds = Some UNicks. Proof. vmc. Qed.
Lemma dp_gpgkey : dict_get (lower gen.T16.WU_gpgkey) user_cmds = Some UGpgkey. Proof. vmc. Qed.

(* ---- fold_res ---- *)
Lemma fold_res_raise {A B} (f : A -> B -> res A) l e :
  fold_left (fun r b => do x <- r; f x b) l (Raise e) = Raise e.
Proof. induction l; [reflexivity|]. simpl. exact IHl. Qed.

Lemma fold_res_cons {A B} (f : A -> B -> res A) b l a :
  fold_res f (b :: l) a = match f a b with Ok x => fold_res f l x | Raise e => Raise e end.
Proof. unfold fold_res. simpl. destruct (f a b); [reflexivity|apply fold_res_raise]. Qed.

(* ---- the repeated fields ---- *)
Lemma caps_lines caps : forall u N db next rest cs',
  u_id u = Some N -> forallb token caps = true ->
  fold_res ucs_add caps (u_caps u) = Ok cs' ->
  urt (flat_map (fun c => wline IND gen.T16.WU_capability c) caps ++ rest) (S2 db next u)
  = urt rest (S2 db next (set_caps cs' u)).
Proof.
  induction caps as [|c caps IH]; intros u N db next rest cs' Hid Ht Hf.
  - unfold fold_res in Hf. simpl in Hf. inversion Hf; subst. destruct u; reflexivity.
  - cbn [forallb] in Ht. apply andb_true_iff in Ht as [Hc Ht].
    rewrite fold_res_cons in Hf. destruct (ucs_add (u_caps u) c) as [cs1|] eqn:E; [|discriminate].
    cbn [flat_map]. rewrite <- app_assoc.
    rewrite (uline_same db next u _ c UCapability _ (set_caps cs1 u) tk_capability (token_safe _ Hc) dp_capability).
    2:{ unfold user_handler. rewrite Hid, E. reflexivity. }
    rewrite (IH (set_caps cs1 u) N db next rest cs' Hid Ht Hf). destruct u; reflexivity.
Qed.

Lemma hosts_lines hs : forall u N db next rest,
  u_id u = Some N -> forallb token hs = true ->
  urt (flat_map (fun h => wline IND gen.T16.WU_hostmask h) hs ++ rest) (S2 db next u)
  = urt rest (S2 db next (set_hosts (fold_left iset_add hs (u_hosts u)) u)).
Proof.
  induction hs as [|h hs IH]; intros u N db next rest Hid Ht.
  - destruct u; reflexivity.
  - cbn [forallb] in Ht. apply andb_true_iff in Ht as [Hc Ht].
    cbn [flat_map]. rewrite <- app_assoc.
    rewrite (uline_same db next u _ h UHostmask _ (set_hosts (iset_add (u_hosts u) h) u) tk_hostmask (token_safe _ Hc) dp_hostmask).
    2:{ unfold user_handler. rewrite Hid. reflexivity. }
    rewrite (IH (set_hosts (iset_add (u_hosts u) h) u) N db next rest Hid Ht). destruct u; reflexivity.
Qed.

Lemma gpg_lines ks : forall u N db next rest,
  u_id u = Some N -> forallb safe_field ks = true ->
  urt (flat_map (fun k => wline IND gen.T16.WU_gpgkey k) ks ++ rest) (S2 db next u)
  = urt rest (S2 db next (set_gpg (u_gpg u ++ ks) u)).
Proof.
  induction ks as [|k ks IH]; intros u N db next rest Hid Ht.
  - rewrite app_nil_r. destruct u; reflexivity.
  - cbn [forallb] in Ht. apply andb_true_iff in Ht as [Hc Ht].
    cbn [flat_map]. rewrite <- app_assoc.
    rewrite (uline_same db next u _ k UGpgkey _ (set_gpg (u_gpg u ++ [k]) u) tk_gpgkey Hc dp_gpgkey).
    2:{ unfold user_handler. rewrite Hid. reflexivity. }
    rewrite (IH (set_gpg (u_gpg u ++ [k]) u) N db next rest Hid Ht). destruct u; cbn. rewrite <- app_assoc. reflexivity.
Qed.

Definition nick_ok (nn : str * list str) : bool :=
  token (fst nn) && match snd nn with [] => false | _ => true end
  && forallb (fun n => no_nl_tab n && negb (mem SP n)) (snd nn).

Lemma join_sp_no_nl l : forallb (fun n => no_nl_tab n && negb (mem SP n)) l = true -> no_nl_tab (join [SP] l) = true.
Proof.
  induction l as [|x l IH]; intro H; [reflexivity|].
  cbn [forallb] in H. apply andb_true_iff in H as [Hx Hl]. apply andb_true_iff in Hx as [Hx _].
  destruct l as [|y l']; [exact Hx|].
  change (join [SP] (x :: y :: l')) with (x ++ [SP] ++ join [SP] (y :: l')).
  rewrite !no_nl_tab_app, Hx, (IH Hl). reflexivity.
Qed.

Lemma nick_val nn : nick_ok nn = true ->
  safe_field (fst nn ++ [SP] ++ join [SP] (snd nn)) = true /\
  split1 [SP] (fst nn ++ [SP] ++ join [SP] (snd nn)) = Some (fst nn, join [SP] (snd nn)) /\
  split_char SP (join [SP] (snd nn)) = snd nn.
Proof.
  unfold nick_ok. intro H. apply andb_true_iff in H as [H H3]. apply andb_true_iff in H as [H1 H2].
  pose proof (token_nonws _ H1) as Hn. destruct (token_cons _ H1) as (c & t & E & Hc & _).
  repeat split.
  - unfold safe_field. rewrite !no_nl_tab_app, (nonws_no_nl_tab _ Hn), (join_sp_no_nl _ H3).
    rewrite E. cbn [app]. rewrite Hc. reflexivity.
  - change (fst nn ++ [SP] ++ join [SP] (snd nn)) with (fst nn ++ SP :: join [SP] (snd nn)).
    apply split1_char. apply nonws_nomem; [exact ws_SP|exact Hn].
  - apply split_char_join.
    + destruct (snd nn); [discriminate|discriminate].
    + rewrite forallb_forall in H3. apply Forall_forall. intros x Hx. specialize (H3 _ Hx).
      apply andb_true_iff in H3 as [_ H3]. destruct (mem SP x); [discriminate|reflexivity].
Qed.

Lemma nicks_lines ns : forall u N db next rest,
  u_id u = Some N -> forallb nick_ok ns = true ->
  urt (flat_map (fun nn => wline IND gen.T16.WU_nicks (fst nn ++ [SP] ++ join [SP] (snd nn))) ns ++ rest) (S2 db next u)
  = urt rest (S2 db next (set_nicks (fold_left (fun d nn => dict_set (fst nn) (snd nn) d) ns (u_nicks u)) u)).
Proof.
  induction ns as [|nn ns IH]; intros u N db next rest Hid Ht.
  - destruct u; reflexivity.
  - cbn [forallb] in Ht. apply andb_true_iff in Ht as [Hc Ht].
    destruct (nick_val _ Hc) as (V1 & V2 & V3).
    cbn [flat_map]. rewrite <- app_assoc.
    rewrite (uline_same db next u _ _ UNicks _ (set_nicks (dict_set (fst nn) (snd nn) (u_nicks u)) u) tk_nicks V1 dp_nicks).
    2:{ unfold user_handler. rewrite Hid, V2, V3. reflexivity. }
    rewrite (IH (set_nicks (dict_set (fst nn) (snd nn) (u_nicks u)) u) N db next rest Hid Ht). destruct u; reflexivity.
Qed.

(* ---- finish of a complete user ---- *)
Lemma find_none {A} (f : A -> bool) l : existsb f l = false -> find f l = None.
Proof. induction l as [|x l IH]; [reflexivity|]. simpl. destruct (f x); [discriminate|exact IH]. Qed.

Lemma existsb_weaken {A} (f g : A -> bool) l :
  (forall x, g x = true -> f x = true) -> existsb f l = false -> existsb g l = false.
Proof.
  intros H. induction l as [|x l IH]; [reflexivity|]. simpl. intro E.
  apply orb_false_iff in E as [E1 E2]. rewrite (IH E2), orb_false_r.
  destruct (g x) eqn:G; [|reflexivity]. rewrite (H _ G) in E1. discriminate.
Qed.

Lemma db_put_new p db : existsb (fun v => same_id p v) db = false -> db_put p db = db ++ [p].
Proof.
  induction db as [|v db IH]; [reflexivity|]. simpl. intro E. apply orb_false_iff in E as [E1 E2].
  rewrite E1, (IH E2). reflexivity.
Qed.

Definition fresh_ok (p : user) (db : list user) : bool :=
  negb (existsb (fun v => same_id p v) db)
  && negb (existsb (fun v => seq_eqb (lower (u_name p)) (lower (u_name v))) db)
  && negb (existsb (fun v => host_conflict p v) db).

Lemma user_field_dom_parts u : user_field_dom u = true ->
  (exists z, u_id u = Some z /\ (0 <= z)%Z) /\ safe_field (u_name u) = true /\
  is_user_hostmask (u_name u) = false /\
  match u_password u with [] => u_hashed u = false | p => safe_field p = true end /\
  forallb token (u_caps u) = true /\ caps_stable ucs_add [] (u_caps u) = true /\
  forallb token (u_hosts u) = true /\ hosts_stable (u_hosts u) = true /\
  forallb nick_ok (u_nicks u) = true /\ nicks_stable (u_nicks u) = true /\
  forallb safe_field (u_gpg u) = true.
Proof.
  unfold user_field_dom. intro H.
  repeat match type of H with (_ && _ = true) => apply andb_true_iff in H as [H ?] end.
  repeat split; try assumption.
  - destruct (u_id u) as [z|]; [|discriminate]. exists z. split; [reflexivity|lia].
  - apply negb_true_iff. assumption.
  - destruct (u_password u); [apply negb_true_iff|]; assumption.
Qed.

Lemma finish_ok p db next :
  user_field_dom p = true -> fresh_ok p db = true ->
  user_finish (UState (Some p) db next) = (UState None (db ++ [p]) (Z.max next (id_of p)), None).
Proof.
  intros Hd Hf. destruct (user_field_dom_parts _ Hd) as ((uid & Eid & Huid) & Hname & H6 & _).
  unfold fresh_ok in Hf. apply andb_true_iff in Hf as [Hf F3]. apply andb_true_iff in Hf as [F1 F2].
  apply negb_true_iff in F1, F2, F3.
  destruct (safe_cons _ Hname) as (c & t & En & _ & _).
  unfold user_finish. cbn [us_u]. rewrite En. cbv iota. rewrite <- ?En.
  unfold set_user. rewrite Eid. cbn [us_db us_next us_u].
  unfold get_user_id. rewrite H6.
  rewrite (find_none _ _ F2).
  rewrite (existsb_weaken _ (fun v => negb (same_id p v) && host_conflict p v) _
             ltac:(intros x Hx; apply andb_true_iff in Hx as [_ Hx]; exact Hx) F3).
  rewrite (db_put_new _ _ F1). cbn [us_db us_next]. unfold id_of. rewrite Eid. reflexivity.
Qed.

(* ---- the header line of a record ---- *)
Lemma user_line_first N rest : (0 <= N)%Z ->
  urt (wline [] gen.T16.WH_user (dec_Z N) ++ rest) R0 = urt rest (S0 [] 0%Z (set_id N fresh_user)).
Proof.
  intro HN. unfold urt. rewrite wline_seg0.
  pose proof (token_safe _ (dec_Z_token _ HN)) as Hv.
  destruct (seg_nl 0 _ _ tk_user Hv) as [A B].
  rewrite (rtext_line _ _ _ _ _ _ _ A B). rewrite (rstep_seg _ _ _ _ _ _ _ _ tk_user Hv).
  unfold R0. cbn [r_indent indent_differs r_has r_st]. unfold user_new at 1. cbn [us_u us_db us_next].
  unfold user_exec. rewrite dp_user. cbn [us_u]. unfold user_handler. cbn [u_id fresh_user].
  rewrite (parse_int_dec _ HN). reflexivity.
Qed.

Lemma user_line_next N rest p db next : (0 <= N)%Z ->
  user_field_dom p = true -> fresh_ok p db = true ->
  urt (wline [] gen.T16.WH_user (dec_Z N) ++ rest) (S2 db next p)
  = urt rest (S0 (db ++ [p]) (Z.max next (id_of p)) (set_id N fresh_user)).
Proof.
  intros HN Hd Hf. unfold urt. rewrite wline_seg0.
  pose proof (token_safe _ (dec_Z_token _ HN)) as Hv.
  destruct (seg_nl 0 _ _ tk_user Hv) as [A B].
  rewrite (rtext_line _ _ _ _ _ _ _ A B). rewrite (rstep_seg _ _ _ _ _ _ _ _ tk_user Hv).
  unfold S2. cbn [r_indent indent_differs Nat.eqb negb r_has r_st]. rewrite (finish_ok _ _ _ Hd Hf).
  unfold user_new at 1. cbn [us_u us_db us_next r_st r_indent r_has].
  unfold user_exec. rewrite dp_user. cbn [us_u]. unfold user_handler. cbn [u_id fresh_user].
  rewrite (parse_int_dec _ HN). reflexivity.
Qed.

(* the first field line: indentation changes from 0 to 2, finish() of the nameless user is a no-op *)
Lemma name_line N db next name rest :
  safe_field name = true ->
  urt (wline IND gen.T16.WU_name name ++ rest) (S0 db next (set_id N fresh_user))
  = urt rest (S2 db next (set_name name (set_id N fresh_user))).
Proof.
  intro Hv. unfold urt. rewrite wline_seg2. destruct (seg_nl 2 _ _ tk_name Hv) as [A B].
  rewrite (rtext_line _ _ _ _ _ _ _ A B). rewrite (rstep_seg _ _ _ _ _ _ _ _ tk_name Hv).
  unfold S0. cbn [r_indent indent_differs Nat.eqb negb r_has r_st].
  unfold user_finish. cbn [us_u set_id u_name u_id fresh_user].
  unfold user_new. cbn [us_u r_st r_indent r_has].
  unfold user_exec. rewrite dp_name. cbn [us_u]. reflexivity.
Qed.

(* ---- one record ---- *)
Lemma body_read u N db next rest :
  u_id u = Some N -> user_field_dom u = true ->
  urt (write_user_body u ++ rest) (S0 db next (set_id N fresh_user)) = urt rest (S2 db next u).
Proof.
  intros Hid Hd.
  destruct (user_field_dom_parts _ Hd) as (_ & Hname & _ & Hpass & Hcapt & Hcaps0 & Hhostt & Hhosts0 & Hnickt & Hnicks0 & Hgpg).
  unfold write_user_body. rewrite <- !app_assoc.
  rewrite (name_line N db next _ _ Hname).
  set (u1 := set_name (u_name u) (set_id N fresh_user)).
  rewrite (uline_same db next u1 _ _ UIgnore _ (set_ignore (u_ignore u) u1) tk_ignore (py_bool_safe _) dp_ignore)
    by (unfold user_handler; cbn [u_id u1 set_name set_id]; rewrite safe_eval_py_bool; reflexivity).
  set (u2 := set_ignore (u_ignore u) u1).
  rewrite (uline_same db next u2 _ _ USecure _ (set_secure (u_secure u) u2) tk_secure (py_bool_safe _) dp_secure)
    by (unfold user_handler; cbn [u_id u2 u1 set_ignore set_name set_id]; rewrite safe_eval_py_bool; reflexivity).
  set (u3 := set_secure (u_secure u) u2).
  assert (Hpw : exists u4, u_id u4 = Some N /\ u_caps u4 = [] /\ u_hosts u4 = [] /\ u_nicks u4 = [] /\ u_gpg u4 = []
            /\ u_name u4 = u_name u /\ u_ignore u4 = u_ignore u /\ u_secure u4 = u_secure u
            /\ u_hashed u4 = u_hashed u /\ u_password u4 = u_password u /\
            forall rest', urt ((match u_password u with
                                | [] => []
                                | _ => wline IND gen.T16.WU_hashed (py_bool (u_hashed u))
                                       ++ wline IND gen.T16.WU_password (u_password u)
                                end) ++ rest') (S2 db next u3) = urt rest' (S2 db next u4)).
  { destruct (u_password u) as [|pc pt] eqn:Epw.
    - exists u3. rewrite Hpass. repeat split; reflexivity.
    - exists (set_password (pc :: pt) (set_hashed (u_hashed u) u3)). repeat split; try reflexivity.
      intro rest'. rewrite <- app_assoc.
      rewrite (uline_same db next u3 _ _ UHashed _ (set_hashed (u_hashed u) u3) tk_hashed (py_bool_safe _) dp_hashed)
        by (unfold user_handler; cbn [u_id u3 u2 u1 set_secure set_ignore set_name set_id]; rewrite safe_eval_py_bool; reflexivity).
      rewrite (uline_same db next _ _ _ UPassword _ (set_password (pc :: pt) (set_hashed (u_hashed u) u3)) tk_password Hpass dp_password)
        by reflexivity.
      reflexivity. }
  destruct Hpw as (u4 & I4 & C4 & O4 & K4 & G4 & E1 & E2 & E3 & E4 & E5 & Hpw).
  rewrite Hpw.
  assert (Hcaps : fold_res ucs_add (u_caps u) (u_caps u4) = Ok (u_caps u)).
  { rewrite C4. unfold caps_stable in Hcaps0. destruct (fold_res ucs_add (u_caps u) []) as [r|]; [|discriminate].
    apply seq_list_eqb in Hcaps0. subst. reflexivity. }
  rewrite (caps_lines _ u4 N db next _ _ I4 Hcapt Hcaps).
  set (u5 := set_caps (u_caps u) u4).
  rewrite (hosts_lines _ u5 N db next _ I4 Hhostt).
  assert (Hh : fold_left iset_add (u_hosts u) (u_hosts u5) = u_hosts u).
  { unfold u5. cbn [u_hosts set_caps]. rewrite O4. unfold hosts_stable in Hhosts0. apply seq_list_eqb in Hhosts0. exact Hhosts0. }
  rewrite Hh. set (u6 := set_hosts (u_hosts u) u5).
  rewrite (nicks_lines _ u6 N db next _ I4 Hnickt).
  assert (Hn : fold_left (fun d nn => dict_set (fst nn) (snd nn) d) (u_nicks u) (u_nicks u6) = u_nicks u).
  { unfold u6, u5. cbn [u_nicks set_hosts set_caps]. rewrite K4. unfold nicks_stable in Hnicks0.
    apply list_eqb_eq in Hnicks0; [exact Hnicks0|].
    intros [a1 a2] [b1 b2] Hx. cbn [fst snd] in Hx. apply andb_true_iff in Hx as [X1 X2].
    apply seq_eqb_eq in X1. apply seq_list_eqb in X2. subst. reflexivity. }
  rewrite Hn. set (u7 := set_nicks (u_nicks u) u6).
  rewrite (gpg_lines _ u7 N db next _ I4 Hgpg).
  unfold urt. cbn [app]. rewrite rtext_blank.
  f_equal. unfold S2. do 2 f_equal. f_equal.
  unfold u7, u6, u5. destruct u, u4. cbn in *. subst. reflexivity.
Qed.

(* ---- whole file ---- *)
Definition ufin (r : rstate ustate * option exn) : ustate * option exn :=
  match r with
  | (rs, Some e) => (r_st rs, Some e)
  | (rs, None) => if r_mod rs then user_finish (r_st rs) else (r_st rs, None)
  end.

Lemma read_users_unfold text : read_users text = ufin (urt text R0).
Proof. reflexivity. Qed.

Lemma lcf_cons db p todo :
  load_conflict_free db (p :: todo) = fresh_ok p db && load_conflict_free (db ++ [p]) todo.
Proof. reflexivity. Qed.

Lemma record_next u rest p db next :
  user_field_dom u = true -> user_field_dom p = true -> fresh_ok p db = true ->
  urt (write_user u ++ rest) (S2 db next p) = urt rest (S2 (db ++ [p]) (Z.max next (id_of p)) u).
Proof.
  intros Hu Hp Hf. destruct (user_field_dom_parts _ Hu) as ((N & Eid & HN) & _).
  unfold write_user, id_of. rewrite Eid. rewrite <- app_assoc.
  rewrite (user_line_next N _ p db next HN Hp Hf).
  apply (body_read u N _ _ rest Eid Hu).
Qed.

Lemma records_read todo : forall p db next,
  forallb user_field_dom (p :: todo) = true ->
  load_conflict_free db (p :: todo) = true ->
  ufin (urt (flat_map write_user todo) (S2 db next p))
  = (UState None (db ++ p :: todo) (max_id (p :: todo) next), None).
Proof.
  induction todo as [|u todo IH]; intros p db next Hd Hc.
  - cbn [forallb] in Hd. apply andb_true_iff in Hd as [Hp _].
    rewrite lcf_cons in Hc. apply andb_true_iff in Hc as [Hf _].
    cbn [flat_map]. unfold urt. rewrite rtext_nil. unfold ufin, S2. cbn [r_mod r_st].
    rewrite (finish_ok _ _ _ Hp Hf). reflexivity.
  - cbn [forallb] in Hd. apply andb_true_iff in Hd as [Hp Hd].
    rewrite lcf_cons in Hc. apply andb_true_iff in Hc as [Hf Hc].
    assert (Hu : user_field_dom u = true).
    { cbn [forallb] in Hd. apply andb_true_iff in Hd as [Hu _]. exact Hu. }
    cbn [flat_map]. rewrite (record_next u _ p db next Hu Hp Hf).
    rewrite (IH u (db ++ [p]) (Z.max next (id_of p)) Hd Hc).
    rewrite <- app_assoc. reflexivity.
Qed.

Lemma sorted_roundtrip s :
  users_dom_sorted s = true ->
  read_users (write_sorted_users s) = (UState None s (max_id s 0%Z), None).
Proof.
  unfold users_dom_sorted. intro H. apply andb_true_iff in H as [Hd Hc].
  destruct s as [|u s]; [reflexivity|].
  rewrite read_users_unfold. unfold write_sorted_users. cbn [flat_map].
  assert (Hu : user_field_dom u = true).
  { cbn [forallb] in Hd. apply andb_true_iff in Hd as [Hu _]. exact Hu. }
  destruct (user_field_dom_parts _ Hu) as ((N & Eid & HN) & _).
  unfold write_user at 1, id_of. rewrite Eid. rewrite <- app_assoc.
  rewrite (user_line_first N _ HN). rewrite (body_read u N _ _ _ Eid Hu).
  apply (records_read s u [] 0%Z Hd Hc).
Qed.

Lemma users_roundtrip db :
  users_dom db = true ->
  read_users (write_users db) = (UState None (sort_users db) (max_id (sort_users db) 0%Z), None).
Proof. intro H. unfold write_users. apply sorted_roundtrip. exact H. Qed.

Lemma load_total db : users_dom db = true -> snd (read_users (write_users db)) = None.
Proof. intro H. rewrite (users_roundtrip _ H). reflexivity. Qed.

(* sorting neither loses nor adds nor merges a record *)
From Coq Require Import Permutation.
Lemma insert_by_perm {A} (le : A -> A -> bool) x l : Permutation (insert_by le x l) (x :: l).
Proof.
  induction l as [|y l IH]; [apply Permutation_refl|]. simpl. destruct (le x y); [apply Permutation_refl|].
  eapply perm_trans; [apply perm_skip; exact IH|apply perm_swap].
Qed.
Lemma sort_users_perm db : Permutation (sort_users db) db.
Proof.
  unfold sort_users, sort_by. induction db as [|x db IH]; [apply perm_nil|]. simpl.
  eapply perm_trans; [apply insert_by_perm|apply perm_skip; exact IH].
Qed.

(* ---- witnesses ---- *)
Definition s_x : str := [120].                                        (* "x" *)
Definition s_owner : str := [111; 119; 110; 101; 114].                 (* "owner" *)
Definition s_pw : str := [112; 119].                                   (* "pw" *)
Definition s_inject : str := [120; 10; 32; 32; 99; 97; 112; 97; 98; 105; 108; 105; 116; 121; 32; 111; 119; 110; 101; 114].
                                                                       (* "x\n  capability owner" *)
Definition mk (id : Z) (name : str) : user := User (Some id) name false false true s_pw [] [] [] [].

(* F1: a newline in the name injects a capability line *)
Definition w_newline : list user := [mk 1 s_inject].
Lemma newline_injects_owner :
  users_dom w_newline = false /\
  read_users (write_users w_newline)
  = (UState None [User (Some 1%Z) s_x false false true s_pw [s_owner] [] [] []] 1%Z, None).
Proof. split; vm_compute; reflexivity. Qed.

(* F2: an all-blank name stops the load; every later account is lost *)
Definition w_blank : list user := [mk 1 [97]; mk 2 [SP]; mk 3 [99]].
Lemma blank_name_stops_load :
  users_dom w_blank = false /\
  read_users (write_users w_blank)
  = (UState (Some (User (Some 2%Z) [] false false false [] [] [] [] [])) [mk 1 [97]] 1%Z, Some ValueError).
Proof. split; vm_compute; reflexivity. Qed.

Definition rt_holds (db : list user) : Prop :=
  read_users (write_users db) = (UState None (sort_users db) (max_id (sort_users db) 0%Z), None).

Lemma roundtrip_refuted : exists db, users_dom db = false /\ ~ rt_holds db.
Proof.
  exists w_newline. split; [vm_compute; reflexivity|]. unfold rt_holds.
  destruct newline_injects_owner as [_ E]. rewrite E. vm_compute. intro H. discriminate H.
Qed.

Lemma load_total_refuted : exists db, users_dom db = false /\ snd (read_users (write_users db)) = Some ValueError.
Proof. exists w_blank. split; vm_compute; reflexivity. Qed.

(* further witnesses outside the domain: leading blank stripped, TAB expanded, hashed flag without password.
   (w_nonick: an empty nick list is not representable in the file; IrcUser.removeNick no longer leaves one, C16.b repaired) *)
Definition w_lead : list user := [mk 1 [SP; 97]].
Definition w_tab : list user := [mk 1 [97; TAB; 98]].
Definition w_nonick : list user := [User (Some 1%Z) [97] false false true s_pw [] [] [([110], [])] []].
Definition w_hashed : list user := [User (Some 1%Z) [97] false false true [] [] [] [] []].
Lemma more_refuted :
  Forall (fun db => users_dom db = false /\ snd (read_users (write_users db)) = None /\ ~ rt_holds db)
         [w_lead; w_tab; w_hashed].
Proof.
  repeat constructor; try (vm_compute; reflexivity); unfold rt_holds; vm_compute; intro H; discriminate H.
Qed.

(* non-vacuity: a non-trivial database inside the domain *)
Definition ex_db : list user :=
  [ User (Some 7%Z) [66; 111; 98; 32; 233] true false false [112; 32; 119] [[45; 111; 112]; [35; 99; 44; 111; 112]]
         [[42; 33; 42; 64; 104]] [([110; 101; 116], [[98; 111; 98]; [98; 95]])] [[48; 120; 32; 65]];
    User (Some 2%Z) [97; 35; 98] false true true [97; 98; 124; 48; 102] [s_owner] [[97; 33; 98; 64; 99]; [65; 33; 66; 64; 100]] [] [] ].
Example ex_db_in_domain : users_dom ex_db = true.
Proof. vm_compute. reflexivity. Qed.

(* ---- channels / ignores: witnesses ---- *)
Definition c_name : str := [35; 99].                                   (* "#c" *)
Definition anti (s : str) : str := DASH :: s.
Definition c_halfop : str := [104; 97; 108; 102; 111; 112].
Definition c_voice : str := [118; 111; 105; 99; 101].
Definition c_protected : str := [112; 114; 111; 116; 101; 99; 116; 101; 100].
Definition c_op : str := [111; 112].
(* a channel whose default anticapability -op was removed (C16.d) *)
Definition w_chan : list (str * chan) := [(c_name, Chan false true [anti c_halfop; anti c_voice; anti c_protected] [] [])].
(* a channel that kept the four defaults and has a ban and an ignore *)
Definition ok_chan : list (str * chan) :=
  [(c_name, Chan true false [anti c_op; anti c_halfop; anti c_voice; anti c_protected; c_name ++ [COMMA] ++ c_op]
                 [([97; 33; 98; 64; 99], 0%Z); ([113; 33; 119; 64; 101], 1700000000%Z)] [([42; 33; 42; 64; 104], 5%Z)])].

Lemma chan_refuted :
  snd (read_channels (write_channels w_chan)) = None /\
  cs_db (fst (read_channels (write_channels w_chan)))
  = [(c_name, Chan false true [anti c_op; anti c_halfop; anti c_voice; anti c_protected] [] [])].
Proof. split; vm_compute; reflexivity. Qed.

Example chan_ok_roundtrips :
  snd (read_channels (write_channels ok_chan)) = None /\ cs_db (fst (read_channels (write_channels ok_chan))) = ok_chan.
Proof. split; vm_compute; reflexivity. Qed.

Definition h_hash : str := [35; 120; 33; 121; 64; 122].                (* "#x!y@z" *)
Lemma ignore_refuted :
  is_user_hostmask h_hash = true /\
  forall now, read_ignores (write_ignores now [(h_hash, Exp 0%Z None)]) = [].
Proof. split; [vm_compute; reflexivity|]. intro now. unfold write_ignores. cbn [flat_map snd fst].
  replace (exp_zero (Exp 0 None)) with true by reflexivity. rewrite orb_true_r. vm_compute. reflexivity. Qed.

Example ignore_ok_roundtrips :
  read_ignores (write_ignores 100%Z [([97; 33; 98; 64; 99], Exp 0%Z None); ([113; 33; 119; 64; 101], Exp 150%Z (Some [53]))])
  = [([97; 33; 98; 64; 99], 0%Z); ([113; 33; 119; 64; 101], 150%Z)].
Proof. vm_compute. reflexivity. Qed.
