(* C16/Lemmas.v — string-level lemmas about the reader primitives of C16/Model.v *)
From Coq Require Import List NArith ZArith Bool Arith Lia ZifyBool.
Import ListNotations.
Require Import Base.Wire Base.PyStr C16.Model.
Open Scope N_scope.

(* ---- generic ---- *)
Lemma list_eqb_eq {A} (eq : A -> A -> bool) :
  (forall x y, eq x y = true -> x = y) ->
  forall a b, list_eqb eq a b = true -> a = b.
Proof.
  intros Heq a. induction a as [|x a IH]; intros [|y b] H; simpl in H; try discriminate; [reflexivity|].
  apply andb_true_iff in H as [H1 H2]. f_equal; [apply Heq; exact H1|apply IH; exact H2].
Qed.

Lemma seq_list_eqb a b : list_eqb seq_eqb a b = true -> a = b.
Proof. apply list_eqb_eq. intros x y H. apply seq_eqb_eq. exact H. Qed.

(* ---- whitespace facts (table-dependent, by computation) ---- *)
Lemma ws_SP : ws SP = true.   Proof. vm_compute. reflexivity. Qed.
Lemma ws_LF : ws LF = true.   Proof. vm_compute. reflexivity. Qed.
Lemma ws_CR : ws CR = true.   Proof. vm_compute. reflexivity. Qed.
Lemma ws_TAB : ws TAB = true. Proof. vm_compute. reflexivity. Qed.

Definition nonws (s : str) : bool := forallb (fun c => negb (ws c)) s.

Lemma nonws_nomem c s : ws c = true -> nonws s = true -> mem c s = false.
Proof.
  intros Hc. induction s as [|x s IH]; intro H; [reflexivity|].
  simpl in H. apply andb_true_iff in H as [Hx Hs].
  change (mem c (x :: s)) with (N.eqb c x || mem c s).
  rewrite (IH Hs), orb_false_r.
  destruct (N.eqb c x) eqn:E; [|reflexivity].
  apply N.eqb_eq in E. subst x. rewrite Hc in Hx. discriminate.
Qed.

Lemma token_nonws s : token s = true -> nonws s = true.
Proof. unfold token. intro H. apply andb_true_iff in H as [_ H]. exact H. Qed.

Lemma token_cons s : token s = true -> exists c t, s = c :: t /\ ws c = false /\ nonws t = true.
Proof.
  unfold token. intro H. apply andb_true_iff in H as [Hn H].
  destruct s as [|c t]; [discriminate|]. simpl in H. apply andb_true_iff in H as [Hc Ht].
  exists c, t. repeat split; [|exact Ht]. destruct (ws c); [discriminate|reflexivity].
Qed.

Lemma token_safe s : token s = true -> safe_field s = true.
Proof.
  intro H. pose proof (token_nonws _ H) as Hn. destruct (token_cons _ H) as (c & t & -> & Hc & Ht).
  unfold safe_field, no_nl_tab.
  rewrite (nonws_nomem LF _ ws_LF Hn), (nonws_nomem CR _ ws_CR Hn), (nonws_nomem TAB _ ws_TAB Hn), Hc.
  reflexivity.
Qed.

Lemma safe_cons s : safe_field s = true ->
  exists c t, s = c :: t /\ ws c = false /\ no_nl_tab s = true.
Proof.
  unfold safe_field. intro H. apply andb_true_iff in H as [Hn H].
  destruct s as [|c t]; [discriminate|]. exists c, t. repeat split; [|exact Hn].
  destruct (ws c); [discriminate|reflexivity].
Qed.

Lemma no_nl_tab_parts s : no_nl_tab s = true -> mem LF s = false /\ mem CR s = false /\ mem TAB s = false.
Proof.
  unfold no_nl_tab. intro H. apply andb_true_iff in H as [H H3]. apply andb_true_iff in H as [H1 H2].
  repeat split; [destruct (mem LF s)|destruct (mem CR s)|destruct (mem TAB s)]; try discriminate; reflexivity.
Qed.

Lemma no_nl_tab_app a b : no_nl_tab (a ++ b) = no_nl_tab a && no_nl_tab b.
Proof.
  unfold no_nl_tab. rewrite !mem_app.
  destruct (mem LF a), (mem LF b), (mem CR a), (mem CR b), (mem TAB a), (mem TAB b); reflexivity.
Qed.

Lemma nonws_no_nl_tab s : nonws s = true -> no_nl_tab s = true.
Proof.
  intro Hn. unfold no_nl_tab.
  rewrite (nonws_nomem LF _ ws_LF Hn), (nonws_nomem CR _ ws_CR Hn), (nonws_nomem TAB _ ws_TAB Hn). reflexivity.
Qed.

(* ---- skip_ws / take_word / split_ws1 ---- *)
Lemma skip_ws_head c t : ws c = false -> skip_ws (c :: t) = c :: t.
Proof. intro H. simpl. rewrite H. reflexivity. Qed.

Lemma take_word_app w c r : nonws w = true -> ws c = true -> take_word (w ++ c :: r) = w.
Proof.
  intros Hw Hc. induction w as [|x w IH]; simpl.
  - rewrite Hc. reflexivity.
  - simpl in Hw. apply andb_true_iff in Hw as [Hx Hw]. destruct (ws x); [discriminate|].
    rewrite (IH Hw). reflexivity.
Qed.

Lemma skip_word_app w c r : nonws w = true -> ws c = true -> skip_word (w ++ c :: r) = c :: r.
Proof.
  intros Hw Hc. induction w as [|x w IH]; simpl.
  - rewrite Hc. reflexivity.
  - simpl in Hw. apply andb_true_iff in Hw as [Hx Hw]. destruct (ws x); [discriminate|].
    exact (IH Hw).
Qed.

Lemma split_ws1_kw kw val :
  token kw = true -> safe_field val = true -> split_ws1 (kw ++ SP :: val) = [kw; val].
Proof.
  intros Hk Hv. pose proof (token_nonws _ Hk) as Hn.
  destruct (token_cons _ Hk) as (c & t & Ek & Hc & Ht).
  destruct (safe_cons _ Hv) as (d & v & Ev & Hd & _).
  unfold split_ws1.
  assert (E1 : skip_ws (kw ++ SP :: val) = kw ++ SP :: val).
  { rewrite Ek. simpl. rewrite Hc. reflexivity. }
  rewrite E1.
  pose proof (take_word_app _ _ val Hn ws_SP) as T. pose proof (skip_word_app _ _ val Hn ws_SP) as W.
  assert (E2 : skip_ws (SP :: val) = val).
  { change (skip_ws (SP :: val)) with (if ws SP then skip_ws val else SP :: val).
    rewrite ws_SP, Ev. apply skip_ws_head. exact Hd. }
  destruct (kw ++ SP :: val) as [|n l] eqn:E; [rewrite Ek in E; discriminate|].
  rewrite T, W, E2, Ev. reflexivity.
Qed.

(* ---- is_blank, rstrip, expandtabs, lstrip on a written line ---- *)
Lemma is_blank_line k kw val : token kw = true -> is_blank (repeat SP k ++ kw ++ SP :: val) = false.
Proof.
  intro Hk. destruct (token_cons _ Hk) as (c & t & -> & Hc & _).
  unfold is_blank. rewrite forallb_app. simpl. rewrite Hc. simpl. apply andb_false_r.
Qed.

Lemma expandtabs_go_id s : forall col, no_nl_tab s = true -> expandtabs_go col s = s.
Proof.
  induction s as [|c s IH]; intros col H; [reflexivity|].
  destruct (no_nl_tab_parts _ H) as (H1 & H2 & H3).
  change (mem LF (c :: s)) with (N.eqb LF c || mem LF s) in H1.
  change (mem CR (c :: s)) with (N.eqb CR c || mem CR s) in H2.
  change (mem TAB (c :: s)) with (N.eqb TAB c || mem TAB s) in H3.
  apply orb_false_iff in H1 as [A1 B1]. apply orb_false_iff in H2 as [A2 B2]. apply orb_false_iff in H3 as [A3 B3].
  simpl. rewrite (N.eqb_sym c TAB), A3, (N.eqb_sym c LF), A1, (N.eqb_sym c CR), A2. simpl.
  f_equal. apply IH. unfold no_nl_tab. rewrite B1, B2, B3. reflexivity.
Qed.

Lemma no_nl_tab_repeat k : no_nl_tab (repeat SP k) = true.
Proof. induction k; [reflexivity|]. simpl repeat. change (SP :: repeat SP k) with ([SP] ++ repeat SP k).
  rewrite no_nl_tab_app, IHk. reflexivity. Qed.

Lemma lstrip_line k kw r : token kw = true -> lstrip [SP] (repeat SP k ++ kw ++ r) = kw ++ r.
Proof.
  intro Hk. destruct (token_cons _ Hk) as (c & t & -> & Hc & _).
  induction k as [|k IH]; simpl.
  - destruct (N.eqb c SP) eqn:E; [|reflexivity].
    apply N.eqb_eq in E. subst c. rewrite ws_SP in Hc. discriminate.
  - exact IH.
Qed.

Lemma last_char_app_ne a b : b <> [] -> last_char (a ++ b) = last_char b.
Proof.
  intro Hb. unfold last_char. rewrite rev_app_distr.
  destruct (rev b) as [|c r] eqn:E; [|reflexivity].
  apply (f_equal (@rev N)) in E. rewrite rev_involutive in E. contradiction.
Qed.

Lemma last_char_in s c : last_char s = Some c -> In c s.
Proof.
  unfold last_char. destruct (rev s) as [|d r] eqn:E; intro H; [discriminate|].
  inversion H; subst. apply in_rev. rewrite E. left. reflexivity.
Qed.

Lemma rstrip_crlf_id s : mem LF s = false -> mem CR s = false -> rstrip [CR; LF] s = s.
Proof.
  intros H1 H2. apply rstrip_id. destruct (last_char s) as [c|] eqn:E; [|exact Logic.I].
  apply last_char_in in E.
  assert (c <> LF). { intro; subst. apply mem_false in H1. contradiction. }
  assert (c <> CR). { intro; subst. apply mem_false in H2. contradiction. }
  simpl. apply N.eqb_neq in H, H0. rewrite H, H0. reflexivity.
Qed.

(* a written line: indent, keyword, space, value *)
Definition seg (k : nat) (kw val : str) : str := repeat SP k ++ kw ++ SP :: val.

Lemma seg_no_nl_tab k kw val : token kw = true -> safe_field val = true -> no_nl_tab (seg k kw val) = true.
Proof.
  intros Hk Hv. unfold seg. destruct (safe_cons _ Hv) as (_ & _ & _ & _ & Hn).
  rewrite !no_nl_tab_app, no_nl_tab_repeat, (nonws_no_nl_tab _ (token_nonws _ Hk)).
  change (SP :: val) with ([SP] ++ val). rewrite no_nl_tab_app, Hn. reflexivity.
Qed.

(* ---- split_nl ---- *)
Lemma split_nl_line s rest : mem LF s = false -> mem CR s = false ->
  split_nl (s ++ LF :: rest) = s :: split_nl rest.
Proof.
  induction s as [|c s IH]; intros H1 H2.
  - reflexivity.
  - change (mem LF (c :: s)) with (N.eqb LF c || mem LF s) in H1.
    change (mem CR (c :: s)) with (N.eqb CR c || mem CR s) in H2.
    apply orb_false_iff in H1 as [A1 B1]. apply orb_false_iff in H2 as [A2 B2].
    simpl. unfold is_nl. rewrite (N.eqb_sym c LF), A1, (N.eqb_sym c CR), A2. simpl.
    rewrite (IH B1 B2). reflexivity.
Qed.

(* ---- decimal integers ---- *)
Lemma digit_nonws c : is_digit c = true -> ws c = false.
Proof.
  unfold is_digit. intro H.
  assert (In c [48;49;50;51;52;53;54;55;56;57]).
  { simpl. lia. }
  assert (F : forallb (fun x => negb (ws x)) [48;49;50;51;52;53;54;55;56;57] = true) by (vm_compute; reflexivity).
  rewrite forallb_forall in F. specialize (F _ H0). destruct (ws c); [discriminate|reflexivity].
Qed.

Lemma digits_fuel_S f n acc :
  digits_fuel (S f) n acc =
  if n / 10 =? 0 then (48 + n mod 10) :: acc else digits_fuel f (n / 10) ((48 + n mod 10) :: acc).
Proof. reflexivity. Qed.

Lemma digits_fuel_digits f : forall n acc, forallb is_digit acc = true -> forallb is_digit (digits_fuel f n acc) = true.
Proof.
  induction f as [|f IH]; intros n acc H; [exact H|].
  rewrite digits_fuel_S. assert (D : is_digit (48 + n mod 10) = true).
  { unfold is_digit. pose proof (N.mod_upper_bound n 10 ltac:(lia)) as Hm. generalize dependent (n mod 10). intros x Hx. lia. }
  assert (forallb is_digit ((48 + n mod 10) :: acc) = true).
  { cbn [forallb]. rewrite D, H. reflexivity. }
  destruct (n / 10 =? 0); [assumption|]. apply IH. assumption.
Qed.

Lemma digits_fuel_nonnil f n acc : digits_fuel (S f) n acc <> [].
Proof.
  revert n acc. induction f as [|f IH]; intros n acc; rewrite digits_fuel_S.
  - destruct (n / 10 =? 0); discriminate.
  - destruct (n / 10 =? 0); [discriminate|apply IH].
Qed.

Lemma digits_val_app a b : digits_val (a ++ b) = fold_left (fun x c => 10 * x + (c - 48)) b (digits_val a).
Proof. unfold digits_val. apply fold_left_app. Qed.

Lemma digits_fuel_val f : forall n acc, n < 10 ^ N.of_nat f ->
  fold_left (fun x c => 10 * x + (c - 48)) (digits_fuel f n acc) 0 =
  fold_left (fun x c => 10 * x + (c - 48)) acc n.
Proof.
  induction f as [|f IH]; intros n acc Hn.
  - simpl in Hn. assert (n = 0) by lia. subst. reflexivity.
  - assert (Hd : n / 10 < 10 ^ N.of_nat f).
    { rewrite Nat2N.inj_succ, N.pow_succ_r' in Hn. apply N.div_lt_upper_bound; lia. }
    pose proof (N.div_mod n 10 ltac:(lia)) as Hdm.
    pose proof (N.mod_upper_bound n 10 ltac:(lia)) as Hm.
    rewrite digits_fuel_S. destruct (n / 10 =? 0) eqn:E.
    + apply N.eqb_eq in E. cbn [fold_left]. f_equal.
      generalize dependent (n mod 10). generalize dependent (n / 10). intros. lia.
    + rewrite (IH _ _ Hd). cbn [fold_left]. f_equal.
      generalize dependent (n mod 10). generalize dependent (n / 10). intros. lia.
Qed.

Lemma dec_N_val n : digits_val (dec_N n) = n.
Proof.
  unfold digits_val, dec_N. rewrite digits_fuel_val; [reflexivity|].
  destruct n as [|p]; [simpl; lia|].
  pose proof (N.log2_spec (N.pos p) ltac:(lia)) as [_ H].
  eapply N.lt_le_trans; [exact H|].
  rewrite Nat2N.inj_succ, N2Nat.id.
  apply N.pow_le_mono_l. lia.
Qed.

Lemma dec_N_digits n : forallb is_digit (dec_N n) = true.
Proof. apply digits_fuel_digits. reflexivity. Qed.

Lemma dec_N_nonnil n : dec_N n <> [].
Proof. apply digits_fuel_nonnil. Qed.

Lemma digits_nonws s : forallb is_digit s = true -> nonws s = true.
Proof.
  induction s as [|c s IH]; intro H; [reflexivity|].
  simpl in H. apply andb_true_iff in H as [Hc Hs]. simpl. rewrite (digit_nonws _ Hc), (IH Hs). reflexivity.
Qed.

Lemma dec_Z_token z : (0 <= z)%Z -> token (dec_Z z) = true.
Proof.
  intro Hz. destruct z as [|p|p]; [vm_compute; reflexivity| |lia].
  unfold dec_Z, token. rewrite (digits_nonws _ (dec_N_digits _)).
  destruct (dec_N (N.pos p)) eqn:E; [exfalso; exact (dec_N_nonnil _ E)|reflexivity].
Qed.

Lemma skip_ws_nonws s : nonws s = true -> skip_ws s = s.
Proof. destruct s as [|c s]; [reflexivity|]. simpl. intro H. apply andb_true_iff in H as [H _].
  destruct (ws c); [discriminate|reflexivity]. Qed.

Lemma nonws_rev s : nonws s = true -> nonws (rev s) = true.
Proof.
  unfold nonws. rewrite !forallb_forall. intros H x Hx. apply H. apply in_rev. exact Hx.
Qed.

Lemma strip_ws_nonws s : nonws s = true -> strip_ws s = s.
Proof.
  intro H. unfold strip_ws. rewrite (skip_ws_nonws _ H), (skip_ws_nonws _ (nonws_rev _ H)). apply rev_involutive.
Qed.

Lemma parse_int_dec z : (0 <= z)%Z -> parse_int (dec_Z z) = Ok z.
Proof.
  intro Hz. destruct z as [|p|p]; [vm_compute; reflexivity| |lia].
  unfold parse_int, dec_Z.
  rewrite (strip_ws_nonws _ (digits_nonws _ (dec_N_digits _))).
  pose proof (dec_N_digits (N.pos p)) as D. pose proof (dec_N_val (N.pos p)) as V.
  destruct (dec_N (N.pos p)) as [|c t] eqn:E; [exfalso; exact (dec_N_nonnil _ E)|].
  assert (Hc : is_digit c = true). { simpl in D. apply andb_true_iff in D as [D _]. exact D. }
  assert (N.eqb c DASH = false /\ N.eqb c PLUS = false) as [E1 E2].
  { unfold is_digit, DASH, PLUS in *. split; apply N.eqb_neq; lia. }
  rewrite E1, E2, D, V. reflexivity.
Qed.

(* ---- booleans ---- *)
Lemma safe_eval_py_bool b : safe_eval_bool (py_bool b) = Ok b.
Proof. destruct b; vm_compute; reflexivity. Qed.
Lemma py_bool_safe b : safe_field (py_bool b) = true.
Proof. destruct b; vm_compute; reflexivity. Qed.
