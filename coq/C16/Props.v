(* C16/Props.v — the property theorems, nothing else.
   Model: C16/Model.v (mirrors src/ircdb.py writers/readers and src/unpreserve.py).
   Proofs: C16/Lemmas.v (string primitives), C16/Roundtrip.v (reader on the writer's output). *)
From Coq Require Import List NArith ZArith Permutation.
Import ListNotations.
Require Import Base.Wire Base.PyStr C16.Model C16.Lemmas C16.Roundtrip.

(* Full statement (refuted on the pinned tree, findings F1/F2/...):
     forall db, read_users (write_users db) = (UState None (sort_users db) (max_id (sort_users db) 0), None)
   i.e. reloading the flushed users file gives back exactly the saved accounts (in id order), the
   class-level creator variable is clean, nextId is the largest id, and no exception stopped the load.
   Proved on the decidable domain users_dom: free-text fields (name, password, gpg keys) without CR/LF/TAB
   and not starting with whitespace, password empty => not hashed, capabilities/hostmasks/nick entries
   single tokens that are stable under re-adding, names not hostmask-shaped, ids >= 0 and distinct, and no
   name/hostmask collision between accounts (as judged by the model of setUser). *)
Theorem C16_users_roundtrip_on_domain :
  forall db, users_dom db = true ->
  read_users (write_users db) = (UState None (sort_users db) (max_id (sort_users db) 0%Z), None).
Proof. exact users_roundtrip. Qed.
Print Assumptions C16_users_roundtrip_on_domain.

Theorem C16_users_roundtrip_refuted :
  exists db, users_dom db = false /\
  ~ read_users (write_users db) = (UState None (sort_users db) (max_id (sort_users db) 0%Z), None).
Proof. exact roundtrip_refuted. Qed.
Print Assumptions C16_users_roundtrip_refuted.

(* the witness of F1 spelled out: account "x\n  capability owner" without capabilities reloads as owner "x" *)
Theorem C16_newline_injects_owner :
  users_dom w_newline = false /\
  read_users (write_users w_newline)
  = (UState None [User (Some 1%Z) s_x false false true s_pw [s_owner] [] [] []] 1%Z, None).
Proof. exact newline_injects_owner. Qed.
Print Assumptions C16_newline_injects_owner.

(* nothing lost, nothing added, nothing merged: the reloaded list is a permutation of the saved one *)
Theorem C16_no_merge :
  forall db, users_dom db = true ->
  Permutation (us_db (fst (read_users (write_users db)))) db.
Proof. intros db H. rewrite (users_roundtrip _ H). apply sort_users_perm. Qed.
Print Assumptions C16_no_merge.

(* Loading never stops part-way because of a record the bot wrote: on the domain; refuted outside
   (F2: an all-blank name raises ValueError at that record, the accounts after it are not loaded and the
   half-built record stays in the class attribute IrcUserCreator.u). *)
Theorem C16_load_total_on_own_output_on_domain :
  forall db, users_dom db = true -> snd (read_users (write_users db)) = None.
Proof. exact load_total. Qed.
Print Assumptions C16_load_total_on_own_output_on_domain.

Theorem C16_load_total_on_own_output_refuted :
  exists db, users_dom db = false /\ snd (read_users (write_users db)) = Some ValueError.
Proof. exact load_total_refuted. Qed.
Print Assumptions C16_load_total_on_own_output_refuted.

Theorem C16_blank_name_stops_load :
  users_dom w_blank = false /\
  read_users (write_users w_blank)
  = (UState (Some (User (Some 2%Z) [] false false false [] [] [] [] [])) [mk 1 [97]] 1%Z, Some ValueError).
Proof. exact blank_name_stops_load. Qed.
Print Assumptions C16_blank_name_stops_load.

(* further classes outside the domain on which the load completes but the accounts differ:
   leading blank stripped, TAB expanded, empty nick list becomes [""], hashed flag lost without password *)
Theorem C16_users_silent_change_refuted :
  Forall (fun db => users_dom db = false /\ snd (read_users (write_users db)) = None /\
                    ~ read_users (write_users db) = (UState None (sort_users db) (max_id (sort_users db) 0%Z), None))
         [w_lead; w_tab; w_nonick; w_hashed].
Proof. exact more_refuted. Qed.
Print Assumptions C16_users_silent_change_refuted.

(* the line-level core, reusable (C02): a written "indent keyword value" line is read back as
   (lower keyword, value) whenever the keyword is a token and the value is a safe field *)
Theorem C16_line_roundtrip :
  forall kw val, token kw = true -> safe_field val = true -> split_ws1 (kw ++ SP :: val) = [kw; val].
Proof. exact split_ws1_kw. Qed.
Print Assumptions C16_line_roundtrip.

Theorem C16_id_roundtrip : forall z, (0 <= z)%Z -> parse_int (dec_Z z) = Ok z.
Proof. exact parse_int_dec. Qed.
Print Assumptions C16_id_roundtrip.

(* Channels, networks and ignores.  Full statements (channels):
     forall db, chan_dom db -> read_channels (write_channels db) = (.. sorted db .., None)
   The on-domain halves are NOT proved in this development (the models are validated by the differential
   run and the round trip is checked directly on the implementation); proved here are the refuting
   witnesses the pinned tree exhibits even for well-formed tokens. *)

(* a channel whose default anticapability -op was removed gets it back on reload (nothing raised) *)
Theorem C16_channels_roundtrip_refuted :
  snd (read_channels (write_channels w_chan)) = None /\
  cs_db (fst (read_channels (write_channels w_chan)))
  = [(c_name, Chan false true [anti c_op; anti c_halfop; anti c_voice; anti c_protected] [] [])].
Proof. exact chan_refuted. Qed.
Print Assumptions C16_channels_roundtrip_refuted.

(* a permanent ignore on the valid hostmask "#x!y@z" is written, then read back as a comment: lost, at any time *)
Theorem C16_ignores_roundtrip_refuted :
  is_user_hostmask h_hash = true /\
  forall now, read_ignores (write_ignores now [(h_hash, Exp 0%Z None)]) = [].
Proof. exact ignore_refuted. Qed.
Print Assumptions C16_ignores_roundtrip_refuted.
