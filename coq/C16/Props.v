(* C16/Props.v — the property theorems, nothing else.
   Model: C16/Model.v (mirrors src/ircdb.py writers/readers and src/unpreserve.py).
   Proofs: C16/Lemmas.v (string primitives), C16/Roundtrip.v (reader on the writer's output). *)
From Coq Require Import List NArith ZArith Permutation.
Import ListNotations.
Require Import Base.Wire Base.PyStr C16.Model C16.Lemmas C16.Roundtrip C16.Files C16.Config C16.Nicks C16.Bytes C16.NextId.

(* Full statement (refuted on the pinned tree, findings F1/F2/...):
     forall db, read_users (write_users db) = (UState None (sort_users db) (max_id (sort_users db) 0), None)
   i.e. reloading the flushed users file gives back exactly the saved accounts (in id order), the
   class-level creator variable is clean, nextId is the largest id, and no exception stopped the load.
   Proved on the decidable domain users_dom: free-text fields (name, password, gpg keys) without CR/LF/TAB
   and not starting with whitespace, password empty => not hashed, capabilities/hostmasks/nick entries
   single tokens that are stable under re-adding, names not hostmask-shaped, ids >= 0 and distinct, and no
   name/hostmask collision between accounts (as judged by the model of setUser). *)
Theorem C16_users_roundtrip_on_domain :
  forall db, users_dom db = true ->
  read_users (write_users db) = (UState None (sort_users db) (max_id (sort_users db) 0%Z), None).
Proof. exact users_roundtrip. Qed.
Print Assumptions C16_users_roundtrip_on_domain.

Theorem C16_users_roundtrip_refuted :
  exists db, users_dom db = false /\
  ~ read_users (write_users db) = (UState None (sort_users db) (max_id (sort_users db) 0%Z), None).
Proof. exact roundtrip_refuted. Qed.
Print Assumptions C16_users_roundtrip_refuted.

(* the witness of F1 spelled out: account "x\n  capability owner" without capabilities reloads as owner "x" *)
Theorem C16_newline_injects_owner :
  users_dom w_newline = false /\
  read_users (write_users w_newline)
  = (UState None [User (Some 1%Z) s_x false false true s_pw [s_owner] [] [] []] 1%Z, None).
Proof. exact newline_injects_owner. Qed.
Print Assumptions C16_newline_injects_owner.

(* nothing lost, nothing added, nothing merged: the reloaded list is a permutation of the saved one *)
Theorem C16_no_merge :
  forall db, users_dom db = true ->
  Permutation (us_db (fst (read_users (write_users db)))) db.
Proof. intros db H. rewrite (users_roundtrip _ H). apply sort_users_perm. Qed.
Print Assumptions C16_no_merge.

(* Loading never stops part-way because of a record the bot wrote: on the domain; refuted outside
   (F2: an all-blank name raises ValueError at that record, the accounts after it are not loaded and the
   half-built record stays in the class attribute IrcUserCreator.u). *)
Theorem C16_load_total_on_own_output_on_domain :
  forall db, users_dom db = true -> snd (read_users (write_users db)) = None.
Proof. exact load_total. Qed.
Print Assumptions C16_load_total_on_own_output_on_domain.

Theorem C16_load_total_on_own_output_refuted :
  exists db, users_dom db = false /\ snd (read_users (write_users db)) = Some ValueError.
Proof. exact load_total_refuted. Qed.
Print Assumptions C16_load_total_on_own_output_refuted.

Theorem C16_blank_name_stops_load :
  users_dom w_blank = false /\
  read_users (write_users w_blank)
  = (UState (Some (User (Some 2%Z) [] false false false [] [] [] [] [])) [mk 1 [97]] 1%Z, Some ValueError).
Proof. exact blank_name_stops_load. Qed.
Print Assumptions C16_blank_name_stops_load.

(* further classes outside the domain on which the load completes but the accounts differ:
   leading blank stripped, TAB expanded, hashed flag lost without password *)
Theorem C16_users_silent_change_refuted :
  Forall (fun db => users_dom db = false /\ snd (read_users (write_users db)) = None /\
                    ~ read_users (write_users db) = (UState None (sort_users db) (max_id (sort_users db) 0%Z), None))
         [w_lead; w_tab; w_hashed].
Proof. exact more_refuted. Qed.
Print Assumptions C16_users_silent_change_refuted.

(* the line-level core, reusable (C02): a written "indent keyword value" line is read back as
   (lower keyword, value) whenever the keyword is a token and the value is a safe field *)
Theorem C16_line_roundtrip :
  forall kw val, token kw = true -> safe_field val = true -> split_ws1 (kw ++ SP :: val) = [kw; val].
Proof. exact split_ws1_kw. Qed.
Print Assumptions C16_line_roundtrip.

Theorem C16_id_roundtrip : forall z, (0 <= z)%Z -> parse_int (dec_Z z) = Ok z.
Proof. exact parse_int_dec. Qed.
Print Assumptions C16_id_roundtrip.

(* ---------------------------------------------------------------------------------------------
   channels.conf.  Full statement: forall db, the reloaded dictionary is the saved one.  Refuted on the
   pinned tree (C16.d, C16.e); proved on the decidable domain chan_dom:
     - keys (in sorted = file order) are rest-of-line safe, already lower-cased (setChannel stores
       channel.lower()) and distinct under the rfc1459 folding of IrcDict;
     - capabilities are tokens; every capability IrcChannelCreator starts from (IrcChannel()'s default
       anticapabilities -op -halfop -voice -protected, read from the source: table CHAN_CREATOR_DEFAULTS)
       is still in the saved set or its inverse is (defaults_covered), so that re-adding the saved
       capabilities on top of them gives the same set (caps_reload_same).  A channel from which a default
       was removed is outside: C16.d, C16_channels_roundtrip_refuted;
     - ban / ignore masks are distinct tokens (what C16.e violates); any integer expiry.
   The reloaded record is canon_chan c: same flags, the capability set in insertion order of the
   reload, bans / ignores in the (stable) expiry order in which they are written;
   C16_channels_canon_same says this is the same channel (same sets / dictionaries). *)
Theorem C16_channels_roundtrip_on_domain :
  forall db, chan_dom db = true ->
  snd (read_channels (write_channels db)) = None
  /\ cs_name (fst (read_channels (write_channels db))) = None
  /\ cs_db (fst (read_channels (write_channels db)))
     = map (fun kc => (fst kc, canon_chan (snd kc))) (sort_named db).
Proof. exact channels_roundtrip. Qed.
Print Assumptions C16_channels_roundtrip_on_domain.

Theorem C16_channels_canon_same :
  forall c, chan_ok c = true ->
  c_lobo (canon_chan c) = c_lobo c /\ c_default (canon_chan c) = c_default c
  /\ Permutation (c_caps (canon_chan c)) (c_caps c)
  /\ Permutation (c_bans (canon_chan c)) (c_bans c) /\ Permutation (c_ignores (canon_chan c)) (c_ignores c).
Proof. exact canon_chan_same. Qed.
Print Assumptions C16_channels_canon_same.

(* sorted() neither loses nor adds a record (channels, networks; any value type) *)
Theorem C16_sort_named_perm : forall A (db : list (str * A)), Permutation (sort_named db) db.
Proof. intros A db. apply sort_by_perm. Qed.
Print Assumptions C16_sort_named_perm.

Theorem C16_channels_load_total_on_domain :
  forall db, chan_dom db = true -> snd (read_channels (write_channels db)) = None.
Proof. intros db H. exact (proj1 (channels_roundtrip db H)). Qed.
Print Assumptions C16_channels_load_total_on_domain.

(* ---------------------------------------------------------------------------------------------
   networks.conf.  Domain net_dom: keys as for channels; STS servers and policies, and the servers of
   the disconnect times, are tokens, servers distinct (C16.g is outside).  A network without any policy
   or disconnect time has a header line only and is overwritten by the next header (getNetwork() re-creates
   it empty on demand, so no policy is lost): net_expected keeps every non-empty network, and the last
   record of the file whatever it holds.  Dictionaries come back in the server order they are written in. *)
Theorem C16_networks_roundtrip_on_domain :
  forall db, net_dom db = true ->
  snd (read_networks (write_networks db)) = None
  /\ ns_db (fst (read_networks (write_networks db))) = net_expected (sort_named db).
Proof. exact networks_roundtrip. Qed.
Print Assumptions C16_networks_roundtrip_on_domain.

Theorem C16_networks_nothing_dropped :
  forall l : list (str * net), forallb (fun kn => net_nonempty (snd kn)) l = true ->
  net_expected l = map (fun kn => (fst kn, canon_net (snd kn))) l.
Proof. exact net_expected_all. Qed.
Print Assumptions C16_networks_nothing_dropped.

Theorem C16_networks_load_total_on_domain :
  forall db, net_dom db = true -> snd (read_networks (write_networks db)) = None.
Proof. intros db H. exact (proj1 (networks_roundtrip db H)). Qed.
Print Assumptions C16_networks_load_total_on_domain.

(* ---------------------------------------------------------------------------------------------
   ignores.  flush at time now writes the entries that have not expired (ign_kept); domain ign_dom: those
   are distinct tokens that are user hostmasks and do not start with '#' (C16.f is outside), expiry >= 0
   given as an int or a float repr.  Reload gives exactly those entries, expiry truncated to whole seconds
   (the normalisation of DESIGN section 6).  IgnoresDB.open cannot stop part-way (per-line handler): totality
   is "no written line is dropped", i.e. the lengths agree. *)
Theorem C16_ignores_roundtrip_on_domain :
  forall now db, ign_dom now db = true ->
  read_ignores (write_ignores now db)
  = map (fun he => (fst he, e_int (snd he))) (filter (ign_kept now) db).
Proof. exact ignores_roundtrip. Qed.
Print Assumptions C16_ignores_roundtrip_on_domain.

Theorem C16_ignores_load_total_on_domain :
  forall now db, ign_dom now db = true ->
  length (read_ignores (write_ignores now db)) = length (filter (ign_kept now) db).
Proof. intros now db H. rewrite (ignores_roundtrip now db H). unfold ign_expected. apply map_length. Qed.
Print Assumptions C16_ignores_load_total_on_domain.

(* C16.d: a channel whose default anticapability -op was removed gets it back on reload (nothing raised);
   the witness is outside chan_dom because -op is not covered *)
Theorem C16_channels_roundtrip_refuted :
  chan_dom w_chan = false /\
  snd (read_channels (write_channels w_chan)) = None /\
  cs_db (fst (read_channels (write_channels w_chan)))
  = [(c_name, Chan false true [anti c_op; anti c_halfop; anti c_voice; anti c_protected] [] [])].
Proof. split; [exact (proj1 removed_default_outside_domain)|exact chan_refuted]. Qed.
Print Assumptions C16_channels_roundtrip_refuted.

(* a permanent ignore on the valid hostmask "#x!y@z" is written, then read back as a comment: lost, at any time *)
Theorem C16_ignores_roundtrip_refuted :
  is_user_hostmask h_hash = true /\
  forall now, read_ignores (write_ignores now [(h_hash, Exp 0%Z None)]) = [].
Proof. exact ignore_refuted. Qed.
Print Assumptions C16_ignores_roundtrip_refuted.

(* ---------------------------------------------------------------------------------------------
   Configuration.  The records were validated under the configuration in force when they were added; the
   property demands that the reload does not depend on the configuration in force at load time.
   T16.CONF_READ_* is the set of conf.supybot options read by the code reachable (typed call graph over
   ircdb.py and unpreserve.py, regenerated from the source) from each reader and from the writers. *)
Theorem C16_readers_read_no_option :
  gen.T16.CONF_READ_CHAN_READER = [] /\ gen.T16.CONF_READ_NET_READER = [] /\
  gen.T16.CONF_READ_IGN_READER = [] /\ gen.T16.CONF_READ_WRITERS = [].
Proof. exact readers_read_no_option. Qed.
Print Assumptions C16_readers_read_no_option.

(* the channel reader of the model takes the load-time configuration (strictRfc) as an input and follows
   the source (tables CHAN_READER_*_VIA_SETTER); it gives the same result under every configuration *)
Theorem C16_channel_reader_ignores_config :
  forall cfg text, read_channels_cf cfg text = read_channels text.
Proof. exact read_channels_cf_eq. Qed.
Print Assumptions C16_channel_reader_ignores_config.

Theorem C16_channels_roundtrip_any_config :
  forall cfg_save cfg_load db, chan_dom db = true ->
  snd (read_channels_cf cfg_load (write_channels_cf cfg_save db)) = None
  /\ cs_name (fst (read_channels_cf cfg_load (write_channels_cf cfg_save db))) = None
  /\ cs_db (fst (read_channels_cf cfg_load (write_channels_cf cfg_save db)))
     = map (fun kc => (fst kc, canon_chan (snd kc))) (sort_named db).
Proof. exact channels_roundtrip_any_config. Qed.
Print Assumptions C16_channels_roundtrip_any_config.

Theorem C16_ignores_roundtrip_any_config :
  forall (cfg_save cfg_load : config) now db, ign_dom now db = true ->
  read_ignores_cf cfg_load (write_ignores_cf cfg_save now db)
  = map (fun he => (fst he, e_int (snd he))) (filter (ign_kept now) db).
Proof. exact ignores_roundtrip_any_config. Qed.
Print Assumptions C16_ignores_roundtrip_any_config.

(* ---------------------------------------------------------------------------------------------
   The nick mutators (IrcUser.addNick / removeNick, modelled statement by statement with the order pinned
   from the source: tables ADDNICK_LIST_BEFORE_CHECK, REMOVENICK_DROPS_EMPTY).  users.conf cannot
   represent a network with an empty nick list (`nicks net ` reads back as [""], users_dom excludes it);
   the mutators never produce one, and a refused claim changes nothing. *)
Theorem C16_refused_nick_claim_changes_nothing :
  forall db u net nick valid e,
  snd (add_nick db u net nick valid) = Some e -> fst (add_nick db u net nick valid) = u.
Proof. exact refused_addnick_unchanged. Qed.
Print Assumptions C16_refused_nick_claim_changes_nothing.

Theorem C16_nick_mutators_keep_lists_nonempty :
  forall db u net nick valid, nick_lists_nonempty u = true ->
  nick_lists_nonempty (fst (add_nick db u net nick valid)) = true
  /\ nick_lists_nonempty (fst (remove_nick u net nick)) = true.
Proof. intros. split; [apply add_nick_keeps_nonempty|apply remove_nick_keeps_nonempty]; assumption. Qed.
Print Assumptions C16_nick_mutators_keep_lists_nonempty.

(* ---------------------------------------------------------------------------------------------
   Bytes on disk.  The writers encode utf8 (utils.file.AtomicFile, pinned); the readers decode with
   encoding='utf8' (tables READER_DECODES_UTF8 / IGN_READER_DECODES_UTF8, true since the repair C16.i), so
   the text every reader theorem above starts from is exactly the text that was written, for every
   preferred encoding of the locale and every text of Unicode scalar values (no lone surrogates: those
   cannot be encoded, flush itself raises). *)
Theorem C16_disk_roundtrip_any_locale :
  forall locale text, forallb C13.Utf8.scalar text = true ->
  reread locale text = Ok text /\ reread_ign locale text = Ok text.
Proof. intros locale text H. split; [apply reread_ok|apply reread_ign_ok]; exact H. Qed.
Print Assumptions C16_disk_roundtrip_any_locale.

(* what open() without an encoding did before the repair: under a latin-1 locale "é" reloads as "Ã©",
   under an ASCII locale the file cannot be read at all *)
Theorem C16_locale_decoding_refuted :
  forallb C13.Utf8.scalar s_eacute = true /\
  (do b <- file_bytes s_eacute; decode_as (reader_enc false ELatin1) b) = Ok [195; 169] /\
  (do b <- file_bytes s_eacute; decode_as (reader_enc false EAscii) b) = Raise UnicodeError.
Proof. exact locale_decoding_refuted. Qed.
Print Assumptions C16_locale_decoding_refuted.

Theorem C16_users_disk_roundtrip_on_domain :
  forall locale db, users_dom db = true -> forallb C13.Utf8.scalar (write_users db) = true ->
  exists t, reread locale (write_users db) = Ok t /\
            read_users t = (UState None (sort_users db) (max_id (sort_users db) 0%Z), None).
Proof. exact users_disk_roundtrip. Qed.
Print Assumptions C16_users_disk_roundtrip_on_domain.

(* every nick dictionary that a sequence of accepted IrcUser.addNick / removeNick calls builds, starting from
   a new account, satisfies the nick conditions of users_dom (every entry: network a token, list non-empty,
   nicks without CR/LF/TAB/space; networks distinct), i.e. it is written and read back unchanged
   (C16_users_roundtrip_on_domain).  Rests on the pinned statement order and on the whitespace check of
   addNick (table ADDNICK_REFUSES_WHITESPACE, true since the repair C16.j). *)
Theorem C16_accepted_nick_calls_stay_in_domain :
  nicks_inv fresh_user /\
  (forall db u net nick valid, nicks_inv u -> nicks_inv (fst (add_nick db u net nick valid))) /\
  (forall u net nick, nicks_inv u -> nicks_inv (fst (remove_nick u net nick))) /\
  (forall u, nicks_inv u -> forallb nick_ok (u_nicks u) = true /\ nicks_stable (u_nicks u) = true).
Proof. exact accepted_calls_domain. Qed.
Print Assumptions C16_accepted_nick_calls_stay_in_domain.

(* ---------------------------------------------------------------------------------------------
   nextId (finding C16.k).  UsersDictionary.flush writes the accounts only (table FLUSH_WRITES_NEXTID is
   false on this tree; the model write_users_state / user_exec / user_finish is table-driven and would follow a
   `nextid N` trailer).  Full statement: forall next db, reload gives nextId = next.  It holds exactly when next
   is the largest stored id, i.e. when no account with an id above every stored one was deleted before the flush;
   otherwise open() recomputes nextId from the accounts and the id of the deleted account is handed out again. *)
Theorem C16_users_state_roundtrip_on_domain :
  forall db, users_dom db = true ->
  read_users (write_users_state (max_id (sort_users db) 0%Z) db)
  = (UState None (sort_users db) (max_id (sort_users db) 0%Z), None).
Proof. exact users_state_roundtrip. Qed.
Print Assumptions C16_users_state_roundtrip_on_domain.

Theorem C16_nextid_forgotten_without_trailer :
  exists db next, users_dom db = true /\ (max_id (sort_users db) 0%Z < next)%Z
  /\ us_next (fst (read_users (write_users_state next db))) <> next.
Proof. exact nextid_forgotten. Qed.
Print Assumptions C16_nextid_forgotten_without_trailer.
