(* C16/Config.v — the configuration in force at save time and at load time does not matter *)
From Coq Require Import List NArith ZArith Bool Arith.
Import ListNotations.
Require Import Base.Wire Base.PyStr C16.Model C16.Lemmas C16.Roundtrip C16.Files.
Require gen.T16.
Open Scope N_scope.

(* the reader only sees the Creator through exec: extensionally equal Creators read alike *)
Section Ext.
Variable St : Type.
Variable new_creator : St -> St.
Variable finish : St -> St * option exn.
Variables exec1 exec2 : str -> str -> St -> St * option exn.
Hypothesis Hext : forall c r s, exec1 c r s = exec2 c r s.

Lemma rstep_ext rs seg : rstep St new_creator finish exec1 rs seg = rstep St new_creator finish exec2 rs seg.
Proof.
  unfold rstep. destruct (is_blank seg); [reflexivity|].
  destruct (if indent_differs _ (r_indent rs) then _ else _) as [rs1 e1].
  destruct e1; [reflexivity|].
  destruct (split_ws1 _) as [|c [|r [|x l]]]; try reflexivity.
  rewrite Hext. reflexivity.
Qed.

Lemma rlines_ext segs : forall rs,
  rlines St new_creator finish exec1 segs rs = rlines St new_creator finish exec2 segs rs.
Proof.
  induction segs as [|l ls IH]; intro rs; [reflexivity|].
  cbn [rlines]. rewrite rstep_ext. destruct (rstep St new_creator finish exec2 rs l) as [rs' [e|]]; [reflexivity|apply IH].
Qed.

Lemma rread_ext text st0 : rread St new_creator finish exec1 text st0 = rread St new_creator finish exec2 text st0.
Proof. unfold rread. rewrite rlines_ext. reflexivity. Qed.
End Ext.

(* table sanity: no configuration option is reachable from the channels, networks and ignores readers,
   nor from any writer; the channel reader stores bans and ignores directly *)
Lemma readers_read_no_option :
  gen.T16.CONF_READ_CHAN_READER = [] /\ gen.T16.CONF_READ_NET_READER = [] /\
  gen.T16.CONF_READ_IGN_READER = [] /\ gen.T16.CONF_READ_WRITERS = [].
Proof. repeat split; reflexivity. Qed.

Lemma ban_direct : gen.T16.CHAN_READER_BAN_VIA_SETTER = false. Proof. reflexivity. Qed.
Lemma ign_direct : gen.T16.CHAN_READER_IGN_VIA_SETTER = false. Proof. reflexivity. Qed.

Lemma chan_exec_cf_eq cfg cmd rest st : chan_exec_cf cfg cmd rest st = chan_exec cmd rest st.
Proof.
  unfold chan_exec_cf, chan_exec. destruct (dict_get cmd chan_cmds) as [k|]; [|reflexivity].
  destruct (chan_handler k rest st) as [st'|e]; [|reflexivity].
  unfold chan_post_check. rewrite ban_direct, ign_direct. destruct k; reflexivity.
Qed.

Lemma read_channels_cf_eq cfg text : read_channels_cf cfg text = read_channels text.
Proof. apply rread_ext. apply chan_exec_cf_eq. Qed.

Lemma channels_roundtrip_any_config cfg_save cfg_load db :
  chan_dom db = true ->
  snd (read_channels_cf cfg_load (write_channels_cf cfg_save db)) = None
  /\ cs_name (fst (read_channels_cf cfg_load (write_channels_cf cfg_save db))) = None
  /\ cs_db (fst (read_channels_cf cfg_load (write_channels_cf cfg_save db)))
     = map (fun kc => (fst kc, canon_chan (snd kc))) (sort_named db).
Proof. intro H. unfold write_channels_cf. rewrite read_channels_cf_eq. exact (channels_roundtrip db H). Qed.

Lemma ignores_roundtrip_any_config (cfg_save cfg_load : config) now db :
  ign_dom now db = true ->
  read_ignores_cf cfg_load (write_ignores_cf cfg_save now db)
  = map (fun he => (fst he, e_int (snd he))) (filter (ign_kept now) db).
Proof. intro H. exact (ignores_roundtrip now db H). Qed.

(* non-vacuity: a channel with an extban and a mask without '!' / '@' (accepted by addBan only while
   strictRfc is off) is inside the domain *)
Definition ex_extban : list (str * chan) :=
  [(c_name, Chan false true [anti c_op; anti c_halfop; anti c_voice; anti c_protected]
                 [([36; 97; 58; 84; 114; 111; 108; 108], 0%Z); ([110; 111; 109; 97; 115; 107], 1700000000%Z)] [])].
Example ex_extban_in_domain :
  chan_dom ex_extban = true /\ is_user_hostmask [36; 97; 58; 84; 114; 111; 108; 108] = false.
Proof. split; vm_compute; reflexivity. Qed.
