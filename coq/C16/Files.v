(* C16/Files.v — channels.conf, networks.conf and the ignores file: the reader run on the writer's output *)
From Coq Require Import List NArith ZArith Bool Arith Lia ZifyBool Permutation.
Import ListNotations.
Require Import Base.Wire Base.PyStr C16.Model C16.Lemmas C16.Roundtrip.
Require gen.T16.
Open Scope N_scope.

(* ------------------------------------------------------------------ *)
(* generic: one written line through unpreserve.Reader                  *)
Section G.
Variable St : Type.
Variable new_creator : St -> St.
Variable finish : St -> St * option exn.
Variable exec : str -> str -> St -> St * option exn.
Notation rt := (rtext St new_creator finish exec).

Lemma rt_same rs k kw val rest st' :
  r_indent rs = Some k -> token kw = true -> safe_field val = true ->
  exec (lower kw) val (r_st rs) = (st', None) ->
  rt (seg k kw val ++ LF :: rest) rs = rt rest (RState (Some k) (r_has rs) true st').
Proof.
  intros Hi Hk Hv He. destruct (seg_nl k _ _ Hk Hv) as [A B].
  rewrite (rtext_line _ _ _ _ _ _ _ A B), (rstep_seg _ _ _ _ _ _ _ _ Hk Hv).
  rewrite Hi. cbn [indent_differs]. rewrite Nat.eqb_refl. cbn [negb]. rewrite He, Hi. reflexivity.
Qed.

Lemma rt_changed rs k kw val rest st1 st2 :
  indent_differs k (r_indent rs) = true -> r_has rs = true ->
  token kw = true -> safe_field val = true ->
  finish (r_st rs) = (st1, None) -> exec (lower kw) val (new_creator st1) = (st2, None) ->
  rt (seg k kw val ++ LF :: rest) rs = rt rest (RState (Some k) true true st2).
Proof.
  intros Hi Hh Hk Hv Hf He. destruct (seg_nl k _ _ Hk Hv) as [A B].
  rewrite (rtext_line _ _ _ _ _ _ _ A B), (rstep_seg _ _ _ _ _ _ _ _ Hk Hv).
  rewrite Hi, Hh, Hf. cbn [r_st r_indent r_has]. rewrite He. reflexivity.
Qed.

Lemma rt_first st k kw val rest st2 :
  token kw = true -> safe_field val = true ->
  exec (lower kw) val (new_creator st) = (st2, None) ->
  rt (seg k kw val ++ LF :: rest) (RState None false false st) = rt rest (RState (Some k) true true st2).
Proof.
  intros Hk Hv He. destruct (seg_nl k _ _ Hk Hv) as [A B].
  rewrite (rtext_line _ _ _ _ _ _ _ A B), (rstep_seg _ _ _ _ _ _ _ _ Hk Hv).
  cbn [r_indent indent_differs r_has r_st]. rewrite He. reflexivity.
Qed.
End G.

(* ------------------------------------------------------------------ *)
(* more string facts                                                   *)
Lemma take_word_nonws s : nonws s = true -> take_word s = s.
Proof. induction s as [|c s IH]; [reflexivity|]. simpl. intro H. apply andb_true_iff in H as [Hc Hs].
  destruct (ws c); [discriminate|]. rewrite (IH Hs). reflexivity. Qed.
Lemma skip_word_nonws s : nonws s = true -> skip_word s = [].
Proof. induction s as [|c s IH]; [reflexivity|]. simpl. intro H. apply andb_true_iff in H as [Hc Hs].
  destruct (ws c); [discriminate|]. exact (IH Hs). Qed.

Lemma split_ws_pair a b : token a = true -> token b = true -> split_ws (a ++ SP :: b) = [a; b].
Proof.
  intros Ha Hb. pose proof (token_nonws _ Ha) as Na. pose proof (token_nonws _ Hb) as Nb.
  destruct (token_cons _ Ha) as (c & t & Ea & Hc & _). destruct (token_cons _ Hb) as (d & v & Eb & Hd & _).
  unfold split_ws.
  assert (L : exists f, length (a ++ SP :: b) = S (S f)).
  { rewrite Ea, Eb. cbn [app length]. rewrite app_length. cbn [length]. eexists. rewrite Nat.add_succ_r. reflexivity. }
  destruct L as [f ->].
  change (split_ws_fuel (S (S (S f))) (a ++ SP :: b)) with
    (match skip_ws (a ++ SP :: b) with [] => [] | t0 => take_word t0 :: split_ws_fuel (S (S f)) (skip_word t0) end).
  assert (E1 : skip_ws (a ++ SP :: b) = a ++ SP :: b) by (rewrite Ea; cbn [app]; apply skip_ws_head; exact Hc).
  rewrite E1. pose proof (take_word_app _ _ b Na ws_SP) as T. pose proof (skip_word_app _ _ b Na ws_SP) as W.
  destruct (a ++ SP :: b) as [|x y] eqn:E; [rewrite Ea in E; discriminate|]. cbv zeta. rewrite T, W.
  change (split_ws_fuel (S (S f)) (SP :: b)) with
    (match skip_ws (SP :: b) with [] => [] | t0 => take_word t0 :: split_ws_fuel (S f) (skip_word t0) end).
  assert (E2 : skip_ws (SP :: b) = b).
  { change (skip_ws (SP :: b)) with (if ws SP then skip_ws b else SP :: b). rewrite ws_SP. apply skip_ws_nonws. exact Nb. }
  rewrite E2. rewrite Eb at 1. cbv zeta. rewrite <- Eb. rewrite (take_word_nonws _ Nb), (skip_word_nonws _ Nb). reflexivity.
Qed.

Lemma pair_val_safe a b : token a = true -> token b = true -> safe_field (a ++ [SP] ++ b) = true.
Proof.
  intros Ha Hb. destruct (token_cons _ Ha) as (c & t & Ea & Hc & _).
  unfold safe_field. rewrite !no_nl_tab_app, (nonws_no_nl_tab _ (token_nonws _ Ha)), (nonws_no_nl_tab _ (token_nonws _ Hb)).
  rewrite Ea. cbn [app]. rewrite Hc. reflexivity.
Qed.

Lemma dec_Z_token_all z : token (dec_Z z) = true.
Proof.
  destruct z as [|p|p]; [vm_compute; reflexivity|apply dec_Z_token; lia|].
  unfold dec_Z, token. cbn [nonempty forallb]. rewrite (digits_nonws _ (dec_N_digits _)).
  assert (ws DASH = false) by (vm_compute; reflexivity). rewrite H. reflexivity.
Qed.

Lemma digits_no_dot s : forallb is_digit s = true -> mem DOT s = false.
Proof.
  induction s as [|c s IH]; [reflexivity|]. cbn [forallb]. intro H. apply andb_true_iff in H as [Hc Hs].
  change (mem DOT (c :: s)) with (N.eqb DOT c || mem DOT s). rewrite (IH Hs), orb_false_r.
  unfold is_digit, DOT in *. apply N.eqb_neq. lia.
Qed.

Lemma digit_head_plain c : is_digit c = true -> N.eqb c DASH = false /\ N.eqb c PLUS = false.
Proof. unfold is_digit, DASH, PLUS. intro H. split; apply N.eqb_neq; lia. Qed.

Lemma parse_int_float_dec z : parse_int_float (dec_Z z) = Ok z.
Proof.
  unfold parse_int_float. rewrite (strip_ws_nonws _ (token_nonws _ (dec_Z_token_all z))).
  destruct z as [|p|p]; [vm_compute; reflexivity| |].
  - unfold dec_Z. pose proof (dec_N_digits (N.pos p)) as D. pose proof (dec_N_val (N.pos p)) as V.
    destruct (dec_N (N.pos p)) as [|c t] eqn:E; [exfalso; exact (dec_N_nonnil _ E)|].
    assert (Hc : is_digit c = true) by (cbn [forallb] in D; apply andb_true_iff in D as [D _]; exact D).
    destruct (digit_head_plain _ Hc) as [E1 E2]. rewrite E1, E2.
    rewrite (split1_char_none _ _ (digits_no_dot _ D)). rewrite app_nil_r, D, V. reflexivity.
  - unfold dec_Z. pose proof (dec_N_digits (N.pos p)) as D. pose proof (dec_N_val (N.pos p)) as V.
    change (N.eqb DASH DASH) with true. cbv iota.
    rewrite (split1_char_none _ _ (digits_no_dot _ D)). rewrite app_nil_r.
    destruct (dec_N (N.pos p)) as [|c t] eqn:E; [exfalso; exact (dec_N_nonnil _ E)|].
    rewrite D, V. reflexivity.
Qed.

Lemma parse_int_dec_all z : parse_int (dec_Z z) = Ok z.
Proof.
  destruct z as [|p|p]; [vm_compute; reflexivity|apply parse_int_dec; lia|].
  unfold parse_int. rewrite (strip_ws_nonws _ (token_nonws _ (dec_Z_token_all _))).
  unfold dec_Z. change (N.eqb DASH DASH) with true. cbv iota.
  pose proof (dec_N_digits (N.pos p)) as D. pose proof (dec_N_val (N.pos p)) as V.
  destruct (dec_N (N.pos p)) as [|c t] eqn:E; [exfalso; exact (dec_N_nonnil _ E)|].
  rewrite D, V. reflexivity.
Qed.

(* ---- small list facts ---- *)
Lemma flat_map_map {A B C} (f : B -> list C) (g : A -> B) l : flat_map f (map g l) = flat_map (fun x => f (g x)) l.
Proof. induction l; [reflexivity|]. simpl. rewrite IHl. reflexivity. Qed.

Lemma fold_res_app {A B} (f : A -> B -> res A) l1 l2 a :
  fold_res f (l1 ++ l2) a = match fold_res f l1 a with Ok x => fold_res f l2 x | Raise e => Raise e end.
Proof.
  revert a. induction l1 as [|b l1 IH]; intro a; [reflexivity|].
  cbn [app]. rewrite !fold_res_cons. destruct (f a b); [apply IH|reflexivity].
Qed.

Lemma existsb_incl {A} (f : A -> bool) l l' : incl l l' -> existsb f l' = false -> existsb f l = false.
Proof.
  intros Hi H. destruct (existsb f l) eqn:E; [|reflexivity].
  apply existsb_exists in E as (x & Hx & Fx).
  assert (existsb f l' = true) by (apply existsb_exists; exists x; split; [apply Hi; exact Hx|exact Fx]). congruence.
Qed.

Lemma idict_set_new {A} k (v : A) d :
  existsb (fun k' => seq_eqb (fold k) (fold k')) (map fst d) = false -> idict_set k v d = d ++ [(k, v)].
Proof.
  induction d as [|[k' v'] d IH]; [reflexivity|]. cbn [map fst existsb idict_set]. intro H.
  apply orb_false_iff in H as [H1 H2]. rewrite H1, (IH H2). reflexivity.
Qed.

Lemma idict_set_last {A} k (v v0 : A) d :
  existsb (fun k' => seq_eqb (fold k) (fold k')) (map fst d) = false ->
  idict_set k v (d ++ [(k, v0)]) = d ++ [(k, v)].
Proof.
  induction d as [|[k' v'] d IH]; cbn [map fst existsb idict_set app]; intro H.
  - rewrite seq_eqb_refl. reflexivity.
  - apply orb_false_iff in H as [H1 H2]. rewrite H1, (IH H2). reflexivity.
Qed.

Lemma assoc_stable_parts {V} (eqv : V -> V -> bool) (l : list (str * V)) :
  (forall x y, eqv x y = true -> x = y) -> assoc_stable eqv l = true ->
  forallb (fun kv => token (fst kv)) l = true /\ fold_left (fun d kv => dict_set (fst kv) (snd kv) d) l [] = l.
Proof.
  intros He H. unfold assoc_stable in H. apply andb_true_iff in H as [H1 H2]. split; [exact H1|].
  apply list_eqb_eq in H2; [exact H2|]. intros [a1 a2] [b1 b2] Hx. cbn [fst snd] in Hx.
  apply andb_true_iff in Hx as [X1 X2]. apply seq_eqb_eq in X1. apply He in X2. subst. reflexivity.
Qed.

Lemma forallb_map' {A B} (f : B -> bool) (g : A -> B) l : forallb f (map g l) = forallb (fun x => f (g x)) l.
Proof. induction l; [reflexivity|]. simpl. rewrite IHl. reflexivity. Qed.

Lemma Zeqb_eq' x y : Z.eqb x y = true -> x = y.
Proof. apply Z.eqb_eq. Qed.
Lemma seq_eqb_eq' x y : seq_eqb x y = true -> x = y.
Proof. apply seq_eqb_eq. Qed.

(* ------------------------------------------------------------------ *)
(* channels.conf                                                       *)
Definition crt := rtext cstate chan_new chan_finish chan_exec.

Inductive cline := LLobo (b : bool) | LDef (b : bool) | LCap (c : str) | LBan (p : str) (z : Z) | LIgn (p : str) (z : Z).
Definition cl_kw (l : cline) : str :=
  match l with
  | LLobo _ => gen.T16.WC_lobotomized | LDef _ => gen.T16.WC_defaultallow | LCap _ => gen.T16.WC_capability
  | LBan _ _ => gen.T16.WC_ban | LIgn _ _ => gen.T16.WC_ignore
  end.
Definition cl_val (l : cline) : str :=
  match l with
  | LLobo b => py_bool b | LDef b => py_bool b | LCap c => c
  | LBan p z => p ++ [SP] ++ dec_Z z | LIgn p z => p ++ [SP] ++ dec_Z z
  end.
Definition cl_valid (l : cline) : bool :=
  match l with LCap c => token c | LBan p _ => token p | LIgn p _ => token p | _ => true end.
Definition cl_apply (c : chan) (l : cline) : res chan :=
  match l with
  | LLobo b => Ok (Chan b (c_default c) (c_caps c) (c_bans c) (c_ignores c))
  | LDef b => Ok (Chan (c_lobo c) b (c_caps c) (c_bans c) (c_ignores c))
  | LCap x => do cs <- cs_add (c_caps c) x; Ok (Chan (c_lobo c) (c_default c) cs (c_bans c) (c_ignores c))
  | LBan p z => Ok (Chan (c_lobo c) (c_default c) (c_caps c) (dict_set p z (c_bans c)) (c_ignores c))
  | LIgn p z => Ok (Chan (c_lobo c) (c_default c) (c_caps c) (c_bans c) (dict_set p z (c_ignores c)))
  end.
Definition cl_render (l : cline) : str := wline IND (cl_kw l) (cl_val l).
Definition chan_lines (c : chan) : list cline :=
  [LLobo (c_lobo c); LDef (c_default c)] ++ map LCap (c_caps c)
  ++ map (fun be => LBan (fst be) (snd be)) (sort_exp (c_bans c))
  ++ map (fun be => LIgn (fst be) (snd be)) (sort_exp (c_ignores c)).

Lemma write_chan_body_lines c : write_chan_body c = flat_map cl_render (chan_lines c) ++ [LF].
Proof.
  unfold write_chan_body, chan_lines. rewrite !flat_map_app, !flat_map_map.
  cbn [flat_map app]. unfold cl_render. cbn [cl_kw cl_val]. rewrite <- !app_assoc. reflexivity.
Qed.

Lemma ctk l : token (cl_kw l) = true.
Proof. destruct l; vm_compute; reflexivity. Qed.

Lemma cl_val_safe l : cl_valid l = true -> safe_field (cl_val l) = true.
Proof.
  destruct l; cbn [cl_valid cl_val]; intro H; try apply py_bool_safe.
  - apply token_safe; exact H.
  - apply pair_val_safe; [exact H|apply dec_Z_token_all].
  - apply pair_val_safe; [exact H|apply dec_Z_token_all].
Qed.

Lemma cdp_lobo : dict_get (lower gen.T16.WC_lobotomized) chan_cmds = Some CLobo. Proof. vm_compute; reflexivity. Qed.
Lemma cdp_def : dict_get (lower gen.T16.WC_defaultallow) chan_cmds = Some CDefault. Proof. vm_compute; reflexivity. Qed.
Lemma cdp_cap : dict_get (lower gen.T16.WC_capability) chan_cmds = Some CCap. Proof. vm_compute; reflexivity. Qed.
Lemma cdp_ban : dict_get (lower gen.T16.WC_ban) chan_cmds = Some CBan. Proof. vm_compute; reflexivity. Qed.
Lemma cdp_ign : dict_get (lower gen.T16.WC_ignore) chan_cmds = Some CIgnore. Proof. vm_compute; reflexivity. Qed.
Lemma cdp_chan : dict_get (lower gen.T16.WH_channel) chan_cmds = Some CChannel. Proof. vm_compute; reflexivity. Qed.
Lemma ctk_chan : token gen.T16.WH_channel = true. Proof. vm_compute; reflexivity. Qed.

Lemma cl_exec l st n c' :
  cs_name st = Some n -> cl_valid l = true -> cl_apply (cs_c st) l = Ok c' ->
  chan_exec (lower (cl_kw l)) (cl_val l) st = (set_c st c', None).
Proof.
  intros Hn Hv Ha. unfold chan_exec.
  destruct l; cbn [cl_kw cl_val cl_valid cl_apply] in *.
  - rewrite cdp_lobo. unfold chan_handler. rewrite Hn, safe_eval_py_bool. inversion Ha; subst. reflexivity.
  - rewrite cdp_def. unfold chan_handler. rewrite Hn, safe_eval_py_bool. inversion Ha; subst. reflexivity.
  - rewrite cdp_cap. unfold chan_handler. rewrite Hn.
    destruct (cs_add (c_caps (cs_c st)) c) as [cs|]; [|discriminate]. inversion Ha; subst. reflexivity.
  - rewrite cdp_ban. unfold chan_handler. rewrite Hn.
    change (p ++ [SP] ++ dec_Z z) with (p ++ SP :: dec_Z z).
    rewrite (split_ws_pair _ _ Hv (dec_Z_token_all z)), parse_int_float_dec. inversion Ha; subst. reflexivity.
  - rewrite cdp_ign. unfold chan_handler. rewrite Hn.
    change (p ++ [SP] ++ dec_Z z) with (p ++ SP :: dec_Z z).
    rewrite (split_ws_pair _ _ Hv (dec_Z_token_all z)), parse_int_float_dec. inversion Ha; subst. reflexivity.
Qed.

Definition CB (n : str) (c : chan) (db : list (str * chan)) : rstate cstate :=
  RState (Some 2%nat) true true (CState (Some n) c true db).
Definition CH (n : str) (db : list (str * chan)) : rstate cstate :=
  RState (Some 0%nat) true true (CState (Some n) fresh_chan false db).
Definition C0 : rstate cstate := RState None false false (CState None fresh_chan false []).

Lemma clines_read lines : forall n c db rest c',
  forallb cl_valid lines = true -> fold_res cl_apply lines c = Ok c' ->
  crt (flat_map cl_render lines ++ rest) (CB n c db) = crt rest (CB n c' db).
Proof.
  induction lines as [|l lines IH]; intros n c db rest c' Hv Hf.
  - unfold fold_res in Hf. cbn in Hf. inversion Hf; subst. reflexivity.
  - cbn [forallb] in Hv. apply andb_true_iff in Hv as [Hl Hv].
    rewrite fold_res_cons in Hf. destruct (cl_apply c l) as [c1|] eqn:E; [|discriminate].
    cbn [flat_map]. rewrite <- app_assoc. unfold cl_render at 1. rewrite wline_seg2.
    unfold crt, CB. rewrite (rt_same cstate chan_new chan_finish chan_exec (RState (Some 2%nat) true true (CState (Some n) c true db)) 2%nat (cl_kw l) (cl_val l) _ (set_c (CState (Some n) c true db) c1) eq_refl (ctk l) (cl_val_safe _ Hl)).
    2:{ cbn [r_st]. apply (cl_exec l _ n); [reflexivity|exact Hl|exact E]. }
    apply (IH n c1 db rest c' Hv Hf).
Qed.

(* the first body line: indentation 0 -> 2, finish() of the header creator is a no-op (hadChannel is False) *)
Lemma cbody_read c n db rest c' :
  nonempty n = true -> forallb cl_valid (chan_lines c) = true ->
  fold_res cl_apply (chan_lines c) fresh_chan = Ok c' ->
  crt (write_chan_body c ++ rest) (CH n db) = crt rest (CB n c' db).
Proof.
  intros Hn Hv Hf. rewrite write_chan_body_lines, <- app_assoc.
  unfold chan_lines in *. cbn [app] in *. set (tl_lines := LDef (c_default c) :: _) in *.
  cbn [forallb] in Hv. apply andb_true_iff in Hv as [_ Hv].
  rewrite fold_res_cons in Hf. cbn [cl_apply] in Hf.
  cbn [flat_map]. rewrite <- app_assoc. unfold cl_render at 1. rewrite wline_seg2.
  unfold crt, CH.
  rewrite (rt_changed cstate chan_new chan_finish chan_exec (RState (Some 0%nat) true true (CState (Some n) fresh_chan false db))
             2%nat (cl_kw (LLobo (c_lobo c))) (cl_val (LLobo (c_lobo c))) _ (CState (Some n) fresh_chan false db)
             (CState (Some n) (Chan (c_lobo c) (c_default fresh_chan) (c_caps fresh_chan) (c_bans fresh_chan) (c_ignores fresh_chan)) true db)
             eq_refl eq_refl (ctk (LLobo (c_lobo c))) (py_bool_safe _)).
  - apply (clines_read tl_lines n _ db ([LF] ++ rest) c' Hv Hf).
  - reflexivity.
  - cbn [r_st]. unfold chan_new. cbn [cs_name cs_db].
    destruct n as [|x n]; [discriminate|].
    apply (cl_exec (LLobo (c_lobo c)) (CState (Some (x :: n)) fresh_chan true db) (x :: n)); reflexivity.
Qed.

Lemma caps_fold caps : forall ch r,
  fold_res cs_add caps (c_caps ch) = Ok r ->
  fold_res cl_apply (map LCap caps) ch = Ok (Chan (c_lobo ch) (c_default ch) r (c_bans ch) (c_ignores ch)).
Proof.
  induction caps as [|x caps IH]; intros ch r H.
  - unfold fold_res in *. cbn in *. inversion H; subst. destruct ch; reflexivity.
  - cbn [map]. rewrite fold_res_cons. rewrite fold_res_cons in H. cbn [cl_apply].
    destruct (cs_add (c_caps ch) x) as [cs|]; [|discriminate]. cbn [bind].
    rewrite (IH (Chan (c_lobo ch) (c_default ch) cs (c_bans ch) (c_ignores ch)) r H). reflexivity.
Qed.

Lemma bans_fold l : forall ch,
  fold_res cl_apply (map (fun be => LBan (fst be) (snd be)) l) ch
  = Ok (Chan (c_lobo ch) (c_default ch) (c_caps ch) (fold_left (fun d kv => dict_set (fst kv) (snd kv) d) l (c_bans ch)) (c_ignores ch)).
Proof.
  induction l as [|be l IH]; intro ch; [destruct ch; reflexivity|].
  cbn [map fold_left]. rewrite fold_res_cons. cbn [cl_apply]. rewrite IH. reflexivity.
Qed.

Lemma igns_fold l : forall ch,
  fold_res cl_apply (map (fun be => LIgn (fst be) (snd be)) l) ch
  = Ok (Chan (c_lobo ch) (c_default ch) (c_caps ch) (c_bans ch) (fold_left (fun d kv => dict_set (fst kv) (snd kv) d) l (c_ignores ch))).
Proof.
  induction l as [|be l IH]; intro ch; [destruct ch; reflexivity|].
  cbn [map fold_left]. rewrite fold_res_cons. cbn [cl_apply]. rewrite IH. reflexivity.
Qed.

Lemma chan_ok_parts c : chan_ok c = true ->
  forallb token (c_caps c) = true /\
  fold_res cs_add (c_caps c) creator_caps = Ok (reload_caps (c_caps c)) /\
  forallb (fun kv : str * Z => token (fst kv)) (sort_exp (c_bans c)) = true /\
  fold_left (fun d kv => dict_set (fst kv) (snd kv) d) (sort_exp (c_bans c)) [] = sort_exp (c_bans c) /\
  forallb (fun kv : str * Z => token (fst kv)) (sort_exp (c_ignores c)) = true /\
  fold_left (fun d kv => dict_set (fst kv) (snd kv) d) (sort_exp (c_ignores c)) [] = sort_exp (c_ignores c).
Proof.
  unfold chan_ok. intro H. apply andb_true_iff in H as [H H4]. apply andb_true_iff in H as [H H3].
  apply andb_true_iff in H as [H H2]. apply andb_true_iff in H as [H1 _].
  destruct (assoc_stable_parts _ _ Zeqb_eq' H3) as [B1 B2]. destruct (assoc_stable_parts _ _ Zeqb_eq' H4) as [I1 I2].
  repeat split; try assumption.
  unfold caps_reload_same in H2. unfold reload_caps.
  destruct (fold_res cs_add (c_caps c) creator_caps); [reflexivity|discriminate].
Qed.

Lemma chan_lines_ok c : chan_ok c = true ->
  forallb cl_valid (chan_lines c) = true /\ fold_res cl_apply (chan_lines c) fresh_chan = Ok (canon_chan c).
Proof.
  intro H. destruct (chan_ok_parts _ H) as (T & F & B1 & B2 & I1 & I2). split.
  - unfold chan_lines. rewrite !forallb_app. cbn [forallb cl_valid].
    assert (X1 : forallb cl_valid (map LCap (c_caps c)) = true) by (rewrite forallb_map'; exact T).
    assert (X2 : forallb cl_valid (map (fun be : str * Z => LBan (fst be) (snd be)) (sort_exp (c_bans c))) = true)
      by (rewrite forallb_map'; exact B1).
    assert (X3 : forallb cl_valid (map (fun be : str * Z => LIgn (fst be) (snd be)) (sort_exp (c_ignores c))) = true)
      by (rewrite forallb_map'; exact I1).
    rewrite X1, X2, X3. reflexivity.
  - unfold chan_lines. cbn [app]. rewrite fold_res_cons. cbn [cl_apply]. rewrite fold_res_cons. cbn [cl_apply].
    rewrite fold_res_app. unfold fresh_chan. cbn [c_lobo c_default c_caps c_bans c_ignores].
    rewrite (caps_fold (c_caps c) (Chan (c_lobo c) (c_default c) creator_caps [] []) _ F). rewrite fold_res_app. rewrite bans_fold. rewrite igns_fold.
    cbn [c_lobo c_default c_caps c_bans c_ignores]. rewrite B2, I2. reflexivity.
Qed.

(* ---- header lines and finish ---- *)
Lemma chan_header_first n rest : safe_field n = true ->
  crt (wline [] gen.T16.WH_channel n ++ rest) C0 = crt rest (CH n []).
Proof.
  intro Hn. rewrite wline_seg0. unfold crt, C0.
  rewrite (rt_first cstate chan_new chan_finish chan_exec _ 0%nat _ _ _ (CState (Some n) fresh_chan false []) ctk_chan Hn); [reflexivity|].
  unfold chan_exec. rewrite cdp_chan. reflexivity.
Qed.

Lemma chan_finish_B n c db :
  seq_eqb (lower n) n = true -> existsb (fun k' => seq_eqb (fold n) (fold k')) (map fst db) = false ->
  chan_finish (CState (Some n) c true db) = (CState None c true (db ++ [(n, c)]), None).
Proof.
  intros Hl Hnew. unfold chan_finish. cbn [cs_had cs_name cs_c cs_db].
  apply seq_eqb_eq in Hl. rewrite Hl, (idict_set_new _ _ _ Hnew). reflexivity.
Qed.

Lemma chan_header_next n' rest n c db : safe_field n' = true ->
  seq_eqb (lower n) n = true -> existsb (fun k' => seq_eqb (fold n) (fold k')) (map fst db) = false ->
  crt (wline [] gen.T16.WH_channel n' ++ rest) (CB n c db) = crt rest (CH n' (db ++ [(n, c)])).
Proof.
  intros Hn Hl Hnew. rewrite wline_seg0. unfold crt, CB.
  rewrite (rt_changed cstate chan_new chan_finish chan_exec (RState (Some 2%nat) true true (CState (Some n) c true db)) 0%nat _ _ _ _ (CState (Some n') fresh_chan false (db ++ [(n, c)]))
             eq_refl eq_refl ctk_chan Hn (chan_finish_B n c db Hl Hnew)); [reflexivity|].
  unfold chan_exec. rewrite cdp_chan. reflexivity.
Qed.

(* ---- records ---- *)
Definition write_chan_rec (kc : str * chan) : str := wline [] gen.T16.WH_channel (fst kc) ++ write_chan_body (snd kc).
Definition canon_rec (kc : str * chan) : str * chan := (fst kc, canon_chan (snd kc)).

Lemma keys_ok_cons seen k ks : keys_ok seen (k :: ks) = true ->
  safe_field k = true /\ seq_eqb (lower k) k = true /\
  existsb (fun k' => seq_eqb (fold k) (fold k')) seen = false /\ keys_ok (seen ++ [k]) ks = true.
Proof.
  cbn [keys_ok]. intro H. apply andb_true_iff in H as [H H4]. apply andb_true_iff in H as [H H3].
  apply andb_true_iff in H as [H1 H2]. apply negb_true_iff in H3. auto.
Qed.

Definition cfin (r : rstate cstate * option exn) : cstate * option exn :=
  match r with
  | (rs, Some e) => (r_st rs, Some e)
  | (rs, None) => if r_mod rs then chan_finish (r_st rs) else (r_st rs, None)
  end.
Lemma read_channels_unfold text : read_channels text = cfin (crt text C0).
Proof. reflexivity. Qed.

Lemma safe_nonempty s : safe_field s = true -> nonempty s = true.
Proof. intro H. destruct (safe_cons _ H) as (c & t & -> & _). reflexivity. Qed.

Lemma chan_records todo : forall n c db,
  keys_ok (map fst db) (n :: map fst todo) = true ->
  forallb (fun kc => chan_ok (snd kc)) todo = true ->
  cfin (crt (flat_map write_chan_rec todo) (CB n c db))
  = (CState None (match rev todo with [] => c | kc :: _ => canon_chan (snd kc) end) true
            (db ++ (n, c) :: map canon_rec todo), None).
Proof.
  induction todo as [|[n' c'] todo IH]; intros n c db Hk Hc.
  - destruct (keys_ok_cons _ _ _ Hk) as (_ & Hl & Hnew & _).
    cbn [flat_map]. unfold crt. rewrite rtext_nil. unfold cfin, CB. cbn [r_mod r_st].
    rewrite (chan_finish_B n c db Hl Hnew). reflexivity.
  - destruct (keys_ok_cons _ _ _ Hk) as (_ & Hl & Hnew & Hk').
    cbn [forallb snd] in Hc. apply andb_true_iff in Hc as [Hc1 Hc].
    cbn [map fst] in Hk'. destruct (keys_ok_cons _ _ _ Hk') as (Hn' & _).
    destruct (chan_lines_ok _ Hc1) as [V F].
    cbn [flat_map]. unfold write_chan_rec at 1. cbn [fst snd]. rewrite <- !app_assoc.
    rewrite (chan_header_next n' _ n c db Hn' Hl Hnew).
    rewrite (cbody_read c' n' _ _ (canon_chan c') (safe_nonempty _ Hn') V F).
    assert (Hk2 : keys_ok (map fst (db ++ [(n, c)])) (n' :: map fst todo) = true).
    { rewrite map_app. exact Hk'. }
    rewrite (IH n' (canon_chan c') (db ++ [(n, c)]) Hk2 Hc).
    rewrite <- app_assoc. cbn [app map canon_rec fst snd]. f_equal. f_equal.
    cbn [rev]. destruct (rev todo) as [|kc r]; reflexivity.
Qed.

Lemma write_channels_recs db : write_channels db = flat_map write_chan_rec (sort_named db).
Proof. reflexivity. Qed.

Lemma chan_sorted_roundtrip s :
  chan_dom_sorted s = true ->
  cfin (crt (flat_map write_chan_rec s) C0) =
  (CState None (match rev s with [] => fresh_chan | kc :: _ => canon_chan (snd kc) end)
          (match s with [] => false | _ => true end) (map canon_rec s), None).
Proof.
  unfold chan_dom_sorted. intro H. apply andb_true_iff in H as [Hk Hc].
  destruct s as [|[n c] s]; [reflexivity|].
  cbn [map fst] in Hk. destruct (keys_ok_cons _ _ _ Hk) as (Hn & _).
  cbn [forallb snd] in Hc. apply andb_true_iff in Hc as [Hc1 Hc].
  destruct (chan_lines_ok _ Hc1) as [V F].
  cbn [flat_map]. unfold write_chan_rec at 1. cbn [fst snd]. rewrite <- !app_assoc.
  rewrite (chan_header_first n _ Hn).
  rewrite (cbody_read c n _ _ (canon_chan c) (safe_nonempty _ Hn) V F).
  rewrite (chan_records s n (canon_chan c) [] Hk Hc).
  cbn [app map canon_rec fst snd rev]. f_equal. f_equal.
  destruct (rev s) as [|kc r]; reflexivity.
Qed.

Lemma channels_roundtrip db :
  chan_dom db = true ->
  snd (read_channels (write_channels db)) = None
  /\ cs_name (fst (read_channels (write_channels db))) = None
  /\ cs_db (fst (read_channels (write_channels db))) = map canon_rec (sort_named db).
Proof.
  intro H. rewrite read_channels_unfold, write_channels_recs, (chan_sorted_roundtrip _ H). auto.
Qed.

(* the canonical form is the same channel: same flags, same capability set, same ban / ignore dictionaries *)
Lemma sort_by_perm {A} (le : A -> A -> bool) l : Permutation (sort_by le l) l.
Proof.
  unfold sort_by. induction l as [|x l IH]; [apply perm_nil|]. simpl.
  eapply perm_trans; [apply insert_by_perm|apply perm_skip; exact IH].
Qed.

Lemma nodup_b_NoDup l : nodup_b l = true -> NoDup l.
Proof.
  induction l as [|x l IH]; intro H; [constructor|]. cbn [nodup_b] in H. apply andb_true_iff in H as [H1 H2].
  constructor; [|apply IH; exact H2]. intro Hin. apply negb_true_iff in H1.
  assert (smem x l = true); [|congruence].
  unfold smem. apply existsb_exists. exists x. split; [exact Hin|apply seq_eqb_refl].
Qed.

Lemma perm_eqb_perm r l : perm_eqb r l = true -> Permutation r l.
Proof.
  unfold perm_eqb. intro H. apply andb_true_iff in H as [H H3]. apply andb_true_iff in H as [H1 H2].
  apply Nat.eqb_eq in H1. apply NoDup_Permutation_bis; [apply nodup_b_NoDup; exact H2|lia|].
  intros x Hx. rewrite forallb_forall in H3. specialize (H3 _ Hx). unfold smem in H3.
  apply existsb_exists in H3 as (y & Hy & E). apply seq_eqb_eq in E. subst. exact Hy.
Qed.

Definition chan_same (a b : chan) : Prop :=
  c_lobo a = c_lobo b /\ c_default a = c_default b /\ Permutation (c_caps a) (c_caps b)
  /\ Permutation (c_bans a) (c_bans b) /\ Permutation (c_ignores a) (c_ignores b).

Lemma canon_chan_same c : chan_ok c = true -> chan_same (canon_chan c) c.
Proof.
  intro H. unfold chan_same, canon_chan. cbn [c_lobo c_default c_caps c_bans c_ignores].
  repeat split; try apply sort_by_perm.
  unfold chan_ok in H. apply andb_true_iff in H as [H _]. apply andb_true_iff in H as [H _].
  apply andb_true_iff in H as [_ H]. unfold caps_reload_same in H. unfold reload_caps.
  destruct (fold_res cs_add (c_caps c) creator_caps); [apply perm_eqb_perm; exact H|discriminate].
Qed.

(* ------------------------------------------------------------------ *)
(* networks.conf                                                       *)
Definition nrt := rtext nstate net_new net_finish net_exec.

Inductive nline := LSts (s p : str) | LDisc (s : str) (z : Z).
Definition nl_kw (l : nline) : str :=
  match l with LSts _ _ => gen.T16.WN_stspolicy | LDisc _ _ => gen.T16.WN_lastdisconnecttime end.
Definition nl_val (l : nline) : str :=
  match l with LSts s p => s ++ [SP] ++ p | LDisc s z => s ++ [SP] ++ dec_Z z end.
Definition nl_valid (l : nline) : bool :=
  match l with LSts s p => token s && token p | LDisc s _ => token s end.
Definition nl_apply (n : net) (l : nline) : net :=
  match l with
  | LSts s p => Net (dict_set s p (n_sts n)) (n_disc n)
  | LDisc s z => Net (n_sts n) (dict_set s z (n_disc n))
  end.
Definition nl_render (l : nline) : str := wline IND (nl_kw l) (nl_val l).
Definition net_lines (n : net) : list nline :=
  map (fun sp => LSts (fst sp) (snd sp)) (sort_key (n_sts n))
  ++ map (fun sp => LDisc (fst sp) (snd sp)) (sort_key (n_disc n)).

Lemma write_net_body_lines n : write_net_body n = flat_map nl_render (net_lines n) ++ [LF].
Proof.
  unfold write_net_body, net_lines. rewrite !flat_map_app, !flat_map_map. rewrite <- !app_assoc. reflexivity.
Qed.

Lemma ntk l : token (nl_kw l) = true.
Proof. destruct l; vm_compute; reflexivity. Qed.
Lemma nl_val_safe l : nl_valid l = true -> safe_field (nl_val l) = true.
Proof.
  destruct l; cbn [nl_valid nl_val]; intro H.
  - apply andb_true_iff in H as [H1 H2]. apply pair_val_safe; assumption.
  - apply pair_val_safe; [exact H|apply dec_Z_token_all].
Qed.
Lemma ndp_sts : dict_get (lower gen.T16.WN_stspolicy) net_cmds = Some NSts. Proof. vm_compute; reflexivity. Qed.
Lemma ndp_disc : dict_get (lower gen.T16.WN_lastdisconnecttime) net_cmds = Some NDisc. Proof. vm_compute; reflexivity. Qed.
Lemma ndp_net : dict_get (lower gen.T16.WH_network) net_cmds = Some NNetwork. Proof. vm_compute; reflexivity. Qed.
Lemma ntk_net : token gen.T16.WH_network = true. Proof. vm_compute; reflexivity. Qed.

Lemma nl_exec l st : nl_valid l = true ->
  net_exec (lower (nl_kw l)) (nl_val l) st = (NState (ns_name st) (nl_apply (ns_net st) l) (ns_db st), None).
Proof.
  intro Hv. unfold net_exec. destruct l; cbn [nl_kw nl_val nl_valid nl_apply] in *.
  - apply andb_true_iff in Hv as [H1 H2]. rewrite ndp_sts. unfold net_handler.
    change (s ++ [SP] ++ p) with (s ++ SP :: p). rewrite (split_ws_pair _ _ H1 H2). reflexivity.
  - rewrite ndp_disc. unfold net_handler.
    change (s ++ [SP] ++ dec_Z z) with (s ++ SP :: dec_Z z).
    rewrite (split_ws_pair _ _ Hv (dec_Z_token_all z)), parse_int_dec_all. reflexivity.
Qed.

Definition NB (m : str) (n : net) (db : list (str * net)) : rstate nstate :=
  RState (Some 2%nat) true true (NState (Some m) n (db ++ [(m, fresh_net)])).
Definition NH (m : str) (db : list (str * net)) : rstate nstate :=
  RState (Some 0%nat) true true (NState (Some m) fresh_net db).
Definition N0 : rstate nstate := RState None false false (NState None fresh_net []).

Lemma nlines_read lines : forall m n db rest,
  forallb nl_valid lines = true ->
  nrt (flat_map nl_render lines ++ rest) (NB m n db) = nrt rest (NB m (fold_left nl_apply lines n) db).
Proof.
  induction lines as [|l lines IH]; intros m n db rest Hv; [reflexivity|].
  cbn [forallb] in Hv. apply andb_true_iff in Hv as [Hl Hv].
  cbn [flat_map fold_left]. rewrite <- app_assoc. unfold nl_render at 1. rewrite wline_seg2.
  unfold nrt, NB.
  rewrite (rt_same nstate net_new net_finish net_exec (RState (Some 2%nat) true true (NState (Some m) n (db ++ [(m, fresh_net)])))
             2%nat (nl_kw l) (nl_val l) _ _ eq_refl (ntk l) (nl_val_safe _ Hl) (nl_exec l _ Hl)).
  apply (IH m (nl_apply n l) db rest Hv).
Qed.

Lemma net_finish_name m n db : nonempty m = true ->
  net_finish (NState (Some m) n db) = (NState (Some m) fresh_net (idict_set (lower m) n db), None).
Proof. destruct m; [discriminate|reflexivity]. Qed.

Lemma nbody_read n m db rest :
  safe_field m = true -> seq_eqb (lower m) m = true ->
  existsb (fun k' => seq_eqb (fold m) (fold k')) (map fst db) = false ->
  forallb nl_valid (net_lines n) = true ->
  nrt (write_net_body n ++ rest) (NH m db)
  = nrt rest (match net_lines n with [] => NH m db | _ => NB m (fold_left nl_apply (net_lines n) fresh_net) db end).
Proof.
  intros Hm Hl Hnew Hv. rewrite write_net_body_lines, <- app_assoc.
  destruct (net_lines n) as [|l ls]; [reflexivity|].
  cbn [forallb] in Hv. apply andb_true_iff in Hv as [Hl1 Hv].
  cbn [flat_map fold_left]. rewrite <- app_assoc. unfold nl_render at 1. rewrite wline_seg2.
  unfold nrt, NH.
  rewrite (rt_changed nstate net_new net_finish net_exec (RState (Some 0%nat) true true (NState (Some m) fresh_net db))
             2%nat (nl_kw l) (nl_val l) _ _ _ eq_refl eq_refl (ntk l) (nl_val_safe _ Hl1)
             (net_finish_name m fresh_net db (safe_nonempty _ Hm)) (nl_exec l _ Hl1)).
  apply seq_eqb_eq in Hl. rewrite Hl, (idict_set_new _ _ _ Hnew).
  apply (nlines_read ls m (nl_apply fresh_net l) db ([LF] ++ rest) Hv).
Qed.

Lemma net_header_first m rest : safe_field m = true ->
  nrt (wline [] gen.T16.WH_network m ++ rest) N0 = nrt rest (NH m []).
Proof.
  intro Hm. rewrite wline_seg0. unfold nrt, N0.
  rewrite (rt_first nstate net_new net_finish net_exec _ 0%nat _ _ _ (NState (Some m) fresh_net []) ntk_net Hm); [reflexivity|].
  unfold net_exec. rewrite ndp_net. reflexivity.
Qed.

Lemma net_header_H m' rest m db : safe_field m' = true ->
  nrt (wline [] gen.T16.WH_network m' ++ rest) (NH m db) = nrt rest (NH m' db).
Proof.
  intro Hm. rewrite wline_seg0. unfold nrt, NH.
  rewrite (rt_same nstate net_new net_finish net_exec (RState (Some 0%nat) true true (NState (Some m) fresh_net db))
             0%nat _ _ _ (NState (Some m') fresh_net db) eq_refl ntk_net Hm); [reflexivity|].
  unfold net_exec. rewrite ndp_net. reflexivity.
Qed.

Lemma net_header_B m' rest m n db : safe_field m' = true ->
  safe_field m = true -> seq_eqb (lower m) m = true ->
  existsb (fun k' => seq_eqb (fold m) (fold k')) (map fst db) = false ->
  nrt (wline [] gen.T16.WH_network m' ++ rest) (NB m n db) = nrt rest (NH m' (db ++ [(m, n)])).
Proof.
  intros Hm' Hm Hl Hnew. rewrite wline_seg0. unfold nrt, NB.
  rewrite (rt_changed nstate net_new net_finish net_exec (RState (Some 2%nat) true true (NState (Some m) n (db ++ [(m, fresh_net)])))
             0%nat _ _ _ _ (NState (Some m') fresh_net (db ++ [(m, n)])) eq_refl eq_refl ntk_net Hm'
             (net_finish_name m n _ (safe_nonempty _ Hm))); [reflexivity|].
  apply seq_eqb_eq in Hl. rewrite Hl, (idict_set_last _ _ _ _ Hnew).
  unfold net_exec. rewrite ndp_net. reflexivity.
Qed.

(* ---- what the lines of a record build ---- *)
Lemma sts_fold l : forall n,
  fold_left nl_apply (map (fun sp => LSts (fst sp) (snd sp)) l) n
  = Net (fold_left (fun d kv => dict_set (fst kv) (snd kv) d) l (n_sts n)) (n_disc n).
Proof. induction l as [|sp l IH]; intro n; [destruct n; reflexivity|]. cbn [map fold_left]. rewrite IH. reflexivity. Qed.
Lemma disc_fold l : forall n,
  fold_left nl_apply (map (fun sp => LDisc (fst sp) (snd sp)) l) n
  = Net (n_sts n) (fold_left (fun d kv => dict_set (fst kv) (snd kv) d) l (n_disc n)).
Proof. induction l as [|sp l IH]; intro n; [destruct n; reflexivity|]. cbn [map fold_left]. rewrite IH. reflexivity. Qed.

Lemma sort_by_forallb {A} (le : A -> A -> bool) (f : A -> bool) l : forallb f l = true -> forallb f (sort_by le l) = true.
Proof.
  intro H. rewrite forallb_forall in *. intros x Hx. apply H.
  eapply Permutation_in; [apply sort_by_perm|exact Hx].
Qed.

Lemma net_lines_ok n : net_ok n = true ->
  forallb nl_valid (net_lines n) = true /\ fold_left nl_apply (net_lines n) fresh_net = canon_net n.
Proof.
  unfold net_ok. intro H. apply andb_true_iff in H as [H H3]. apply andb_true_iff in H as [H1 H2].
  destruct (assoc_stable_parts _ _ seq_eqb_eq' H1) as [S1 S2]. destruct (assoc_stable_parts _ _ Zeqb_eq' H3) as [D1 D2].
  pose proof (sort_by_forallb (fun a b => str_leb (fst a) (fst b)) _ _ H2) as S3. fold (sort_key (n_sts n)) in S3.
  split.
  - unfold net_lines. rewrite forallb_app, !forallb_map'. cbn [nl_valid].
    assert (X : forallb (fun x : str * str => token (fst x) && token (snd x)) (sort_key (n_sts n)) = true).
    { rewrite forallb_forall in *. intros x Hx. rewrite (S1 _ Hx), (S3 _ Hx). reflexivity. }
    rewrite X. exact D1.
  - unfold net_lines. rewrite fold_left_app, sts_fold, disc_fold. cbn [n_sts n_disc fresh_net].
    rewrite S2, D2. reflexivity.
Qed.

Lemma net_lines_nil n : net_lines n = [] <-> net_nonempty n = false.
Proof.
  unfold net_lines, net_nonempty. split.
  - intro H. apply app_eq_nil in H as [H1 H2]. apply map_eq_nil in H1, H2.
    assert (P1 := sort_by_perm (fun a b : str * str => str_leb (fst a) (fst b)) (n_sts n)).
    assert (P2 := sort_by_perm (fun a b : str * Z => str_leb (fst a) (fst b)) (n_disc n)).
    unfold sort_key in *. rewrite H1 in P1. rewrite H2 in P2.
    apply Permutation_nil in P1, P2. rewrite P1, P2. reflexivity.
  - destruct (n_sts n), (n_disc n); try discriminate. reflexivity.
Qed.

(* ---- records ---- *)
Definition write_net_rec (kn : str * net) : str := wline [] gen.T16.WH_network (fst kn) ++ write_net_body (snd kn).
Definition nafter (kn : str * net) (db : list (str * net)) : rstate nstate :=
  if net_nonempty (snd kn) then NB (fst kn) (canon_net (snd kn)) db else NH (fst kn) db.
Definition nfin (r : rstate nstate * option exn) : nstate * option exn :=
  match r with
  | (rs, Some e) => (r_st rs, Some e)
  | (rs, None) => if r_mod rs then net_finish (r_st rs) else (r_st rs, None)
  end.
Lemma read_networks_unfold text : read_networks text = nfin (nrt text N0).
Proof. reflexivity. Qed.

Lemma nbody_after kn db rest :
  safe_field (fst kn) = true -> seq_eqb (lower (fst kn)) (fst kn) = true ->
  existsb (fun k' => seq_eqb (fold (fst kn)) (fold k')) (map fst db) = false ->
  net_ok (snd kn) = true ->
  nrt (write_net_body (snd kn) ++ rest) (NH (fst kn) db) = nrt rest (nafter kn db).
Proof.
  intros Hm Hl Hnew Hok. destruct (net_lines_ok _ Hok) as [V F].
  rewrite (nbody_read _ _ _ _ Hm Hl Hnew V). unfold nafter.
  destruct (net_lines (snd kn)) as [|l ls] eqn:E.
  - apply net_lines_nil in E. rewrite E. reflexivity.
  - assert (Hne : net_nonempty (snd kn) = true).
    { destruct (net_nonempty (snd kn)) eqn:X; [reflexivity|]. apply net_lines_nil in X. congruence. }
    rewrite Hne, <- F. reflexivity.
Qed.

Lemma nheader_after (kn' : str * net) rest (kn : str * net) db :
  safe_field (fst kn') = true -> safe_field (fst kn) = true -> seq_eqb (lower (fst kn)) (fst kn) = true ->
  existsb (fun k' => seq_eqb (fold (fst kn)) (fold k')) (map fst db) = false ->
  nrt (wline [] gen.T16.WH_network (fst kn') ++ rest) (nafter kn db)
  = nrt rest (NH (fst kn') (if net_nonempty (snd kn) then db ++ [(fst kn, canon_net (snd kn))] else db)).
Proof.
  intros H' Hm Hl Hnew. unfold nafter. destruct (net_nonempty (snd kn)).
  - apply net_header_B; assumption.
  - apply net_header_H; assumption.
Qed.

Lemma nfin_after kn db :
  safe_field (fst kn) = true -> seq_eqb (lower (fst kn)) (fst kn) = true ->
  existsb (fun k' => seq_eqb (fold (fst kn)) (fold k')) (map fst db) = false ->
  nfin (nafter kn db, None) = (NState (Some (fst kn)) fresh_net (db ++ [(fst kn, canon_net (snd kn))]), None).
Proof.
  intros Hm Hl Hnew. unfold nafter, nfin. apply seq_eqb_eq in Hl.
  destruct (net_nonempty (snd kn)) eqn:E; unfold NB, NH; cbn [r_mod r_st];
    rewrite (net_finish_name _ _ _ (safe_nonempty _ Hm)), Hl.
  - rewrite (idict_set_last _ _ _ _ Hnew). reflexivity.
  - rewrite (idict_set_new _ _ _ Hnew). unfold net_nonempty in E. unfold canon_net.
    destruct (n_sts (snd kn)), (n_disc (snd kn)); try discriminate. reflexivity.
Qed.

Lemma net_expected_cons kn kn' todo :
  net_expected (kn :: kn' :: todo)
  = if net_nonempty (snd kn) then (fst kn, canon_net (snd kn)) :: net_expected (kn' :: todo) else net_expected (kn' :: todo).
Proof. reflexivity. Qed.

Lemma last_cons' {A} (l : list A) : forall x d, last (x :: l) d = last l x.
Proof. induction l as [|y l IH]; intros x d; [reflexivity|]. change (last (x :: y :: l) d) with (last (y :: l) d). rewrite !IH. reflexivity. Qed.

Lemma net_records todo : forall kn db seen,
  incl (map fst db) seen ->
  keys_ok seen (fst kn :: map fst todo) = true ->
  forallb (fun kn => net_ok (snd kn)) todo = true ->
  nfin (nrt (flat_map write_net_rec todo) (nafter kn db))
  = (NState (Some (fst (last todo kn))) fresh_net (db ++ net_expected (kn :: todo)), None).
Proof.
  induction todo as [|kn' todo IH]; intros kn db seen Hi Hk Hc.
  - destruct (keys_ok_cons _ _ _ Hk) as (Hm & Hl & Hnew & _).
    cbn [flat_map]. unfold nrt. rewrite rtext_nil.
    apply (nfin_after kn db Hm Hl (existsb_incl _ _ _ Hi Hnew)).
  - destruct (keys_ok_cons _ _ _ Hk) as (Hm & Hl & Hnew & Hk').
    cbn [map] in Hk'. destruct (keys_ok_cons _ _ _ Hk') as (Hm' & Hl' & Hnew' & _).
    cbn [forallb] in Hc. apply andb_true_iff in Hc as [Hc1 Hc].
    pose proof (existsb_incl _ _ _ Hi Hnew) as Hnew_db.
    cbn [flat_map]. unfold write_net_rec at 1. rewrite <- !app_assoc.
    rewrite (nheader_after kn' _ kn db Hm' Hm Hl Hnew_db).
    set (db' := if net_nonempty (snd kn) then db ++ [(fst kn, canon_net (snd kn))] else db).
    assert (Hi' : incl (map fst db') (seen ++ [fst kn])).
    { unfold db'. destruct (net_nonempty (snd kn)).
      - rewrite map_app. cbn [map fst]. apply incl_app; [apply incl_appl; exact Hi|apply incl_appr, incl_refl].
      - apply incl_appl; exact Hi. }
    rewrite (nbody_after kn' db' _ Hm' Hl' (existsb_incl _ _ _ Hi' Hnew') Hc1).
    rewrite (IH kn' db' (seen ++ [fst kn]) Hi' Hk' Hc).
    rewrite net_expected_cons, last_cons'. unfold db'.
    destruct (net_nonempty (snd kn)); [rewrite <- app_assoc|]; reflexivity.
Qed.

Lemma write_networks_recs db : write_networks db = flat_map write_net_rec (sort_named db).
Proof. reflexivity. Qed.

Lemma net_sorted_roundtrip s :
  net_dom_sorted s = true ->
  exists nm, nfin (nrt (flat_map write_net_rec s) N0) = (NState nm fresh_net (net_expected s), None).
Proof.
  unfold net_dom_sorted. intro H. apply andb_true_iff in H as [Hk Hc].
  destruct s as [|kn s]; [exists None; reflexivity|].
  cbn [map] in Hk. destruct (keys_ok_cons _ _ _ Hk) as (Hm & Hl & Hnew & _).
  cbn [forallb] in Hc. apply andb_true_iff in Hc as [Hc1 Hc].
  cbn [flat_map]. unfold write_net_rec at 1. rewrite <- !app_assoc.
  rewrite (net_header_first _ _ Hm).
  rewrite (nbody_after kn [] _ Hm Hl eq_refl Hc1).
  rewrite (net_records s kn [] [] (incl_refl _) Hk Hc). eexists. reflexivity.
Qed.

Lemma networks_roundtrip db :
  net_dom db = true ->
  snd (read_networks (write_networks db)) = None
  /\ ns_db (fst (read_networks (write_networks db))) = net_expected (sort_named db).
Proof. intro H. rewrite read_networks_unfold, write_networks_recs. destruct (net_sorted_roundtrip _ H) as [nm E]. rewrite E. split; reflexivity. Qed.

(* when every network has at least one line, nothing at all is dropped *)
Lemma net_expected_all (l : list (str * net)) : forallb (fun kn => net_nonempty (snd kn)) l = true ->
  net_expected l = map (fun kn => (fst kn, canon_net (snd kn))) l.
Proof.
  induction l as [|kn l IH]; [reflexivity|]. cbn [forallb]. intro H. apply andb_true_iff in H as [H1 H2].
  destruct l as [|kn' l]; [reflexivity|]. rewrite net_expected_cons, H1, (IH H2). reflexivity.
Qed.

(* ------------------------------------------------------------------ *)
(* the ignores file                                                    *)
Definition iline (he : str * expiry) : str := fst he ++ [SP] ++ exp_str (snd he) ++ [LF].

Lemma flat_map_filter {A B} (p : A -> bool) (f : A -> list B) l :
  flat_map (fun x => if p x then f x else []) l = flat_map f (filter p l).
Proof.
  induction l as [|x l IH]; [reflexivity|]. simpl. destruct (p x); simpl; rewrite IH; reflexivity.
Qed.

Lemma write_ignores_kept now db : write_ignores now db = flat_map iline (filter (ign_kept now) db).
Proof. unfold write_ignores. apply (flat_map_filter (ign_kept now) iline db). Qed.

Lemma dec_Z_nonneg z : (0 <= z)%Z ->
  forallb is_digit (dec_Z z) = true /\ dec_Z z <> [] /\ Z.of_N (digits_val (dec_Z z)) = z.
Proof.
  intro Hz. destruct z as [|p|p]; [repeat split; try (vm_compute; reflexivity); discriminate| |lia].
  unfold dec_Z. repeat split; [apply dec_N_digits|apply dec_N_nonnil|rewrite dec_N_val; reflexivity].
Qed.

Lemma ws_DOT : ws DOT = false. Proof. vm_compute. reflexivity. Qed.

Lemma exp_str_ok e : (0 <= e_int e)%Z ->
  match e_frac e with None => true | Some f => forallb is_digit f end = true ->
  token (exp_str e) = true /\ parse_int_float (exp_str e) = Ok (e_int e).
Proof.
  intros Hz Hf. destruct (dec_Z_nonneg _ Hz) as (D & NN & V). unfold exp_str.
  destruct (e_frac e) as [f|].
  - assert (Nw : nonws (dec_Z (e_int e) ++ DOT :: f) = true).
    { unfold nonws. rewrite forallb_app. cbn [forallb]. rewrite ws_DOT.
      fold (nonws (dec_Z (e_int e))). fold (nonws f). rewrite (digits_nonws _ D), (digits_nonws _ Hf). reflexivity. }
    split.
    + unfold token. apply andb_true_iff. split; [|exact Nw]. destruct (dec_Z (e_int e)); [congruence|reflexivity].
    + unfold parse_int_float. rewrite (strip_ws_nonws _ Nw).
      destruct (dec_Z (e_int e)) as [|c t] eqn:E; [congruence|].
      assert (Hc : is_digit c = true) by (cbn [forallb] in D; apply andb_true_iff in D as [D' _]; exact D').
      destruct (digit_head_plain _ Hc) as [E1 E2]. cbn [app]. rewrite E1, E2.
      change (c :: t ++ DOT :: f) with ((c :: t) ++ DOT :: f).
      rewrite (split1_char _ _ _ (digits_no_dot _ D)). cbn [app]. rewrite D, Hf, V. reflexivity.
  - rewrite app_nil_r. split; [apply dec_Z_token_all|apply parse_int_float_dec].
Qed.

Lemma dict_set_new {A} k (v : A) d : existsb (seq_eqb k) (map fst d) = false -> dict_set k v d = d ++ [(k, v)].
Proof.
  induction d as [|[k' v'] d IH]; [reflexivity|]. cbn [map fst existsb dict_set]. intro H.
  apply orb_false_iff in H as [H1 H2]. rewrite H1, (IH H2). reflexivity.
Qed.

Lemma ignore_line_ok acc he :
  token (fst he) = true -> is_user_hostmask (fst he) = true -> hd_is HASH (fst he) = false ->
  (0 <= e_int (snd he))%Z -> match e_frac (snd he) with None => true | Some f => forallb is_digit f end = true ->
  existsb (seq_eqb (fst he)) (map fst acc) = false ->
  ignore_line acc (fst he ++ SP :: exp_str (snd he)) = acc ++ [(fst he, e_int (snd he))].
Proof.
  intros Ht Hu Hh Hz Hf Hnew. destruct (exp_str_ok _ Hz Hf) as [Te Pe].
  destruct (token_cons _ Ht) as (c & t & E & Hc & _).
  pose proof (pair_val_safe _ _ Ht Te) as Sv. change (fst he ++ [SP] ++ exp_str (snd he)) with (fst he ++ SP :: exp_str (snd he)) in Sv.
  destruct (safe_cons _ Sv) as (_ & _ & _ & _ & Nn). destruct (no_nl_tab_parts _ Nn) as (N1 & N2 & _).
  unfold ignore_line.
  assert (H1 : hd_is HASH (fst he ++ SP :: exp_str (snd he)) = false) by (rewrite E in *; exact Hh).
  assert (H2 : is_blank (fst he ++ SP :: exp_str (snd he)) = false).
  { rewrite E. unfold is_blank. cbn [app forallb]. rewrite Hc. reflexivity. }
  rewrite H1, H2, (rstrip_crlf_id _ N1 N2), (split_ws_pair _ _ Ht Te), Pe, Hu.
  apply dict_set_new. exact Hnew.
Qed.

Lemma ign_ok_cons seen he l : ign_ok seen (he :: l) = true ->
  token (fst he) = true /\ is_user_hostmask (fst he) = true /\ hd_is HASH (fst he) = false /\
  (0 <= e_int (snd he))%Z /\ match e_frac (snd he) with None => true | Some f => forallb is_digit f end = true /\
  existsb (seq_eqb (fst he)) seen = false /\ ign_ok (seen ++ [fst he]) l = true.
Proof.
  cbn [ign_ok]. intro H.
  apply andb_true_iff in H as [H H7]. apply andb_true_iff in H as [H H6]. apply andb_true_iff in H as [H H5].
  apply andb_true_iff in H as [H H4]. apply andb_true_iff in H as [H H3]. apply andb_true_iff in H as [H1 H2].
  apply negb_true_iff in H3, H6. repeat split; try assumption. lia.
Qed.

Lemma ignores_lines l : forall acc,
  ign_ok (map fst acc) l = true ->
  fold_left ignore_line (split_nl (flat_map iline l)) acc = acc ++ map (fun he => (fst he, e_int (snd he))) l.
Proof.
  induction l as [|he l IH]; intros acc H.
  - cbn. rewrite app_nil_r. reflexivity.
  - destruct (ign_ok_cons _ _ _ H) as (Ht & Hu & Hh & Hz & Hf & Hnew & Hrest).
    destruct (exp_str_ok _ Hz Hf) as [Te _].
    pose proof (pair_val_safe _ _ Ht Te) as Sv. change (fst he ++ [SP] ++ exp_str (snd he)) with (fst he ++ SP :: exp_str (snd he)) in Sv.
    destruct (safe_cons _ Sv) as (_ & _ & _ & _ & Nn). destruct (no_nl_tab_parts _ Nn) as (N1 & N2 & _).
    cbn [flat_map]. unfold iline at 1.
    replace ((fst he ++ [SP] ++ exp_str (snd he) ++ [LF]) ++ flat_map iline l)
      with ((fst he ++ SP :: exp_str (snd he)) ++ LF :: flat_map iline l)
      by (cbn [app]; rewrite <- !app_assoc; cbn [app]; rewrite <- app_assoc; reflexivity).
    rewrite (split_nl_line _ _ N1 N2). cbn [fold_left].
    rewrite (ignore_line_ok acc he Ht Hu Hh Hz Hf Hnew).
    rewrite IH.
    + rewrite <- app_assoc. reflexivity.
    + rewrite map_app. exact Hrest.
Qed.

Lemma ignores_roundtrip now db :
  ign_dom now db = true -> read_ignores (write_ignores now db) = ign_expected now db.
Proof.
  intro H. unfold read_ignores, ign_expected. rewrite write_ignores_kept.
  apply (ignores_lines _ [] H).
Qed.

(* ---- examples: each domain is inhabited by a non-trivial state ---- *)
Definition ex_chans : list (str * chan) :=
  [ ([35; 122], Chan false true [anti c_op; anti c_halfop; anti c_voice; anti c_protected] [] []);
    (c_name, Chan true false [[120]; anti c_protected; c_op; anti c_voice; anti c_halfop; c_name ++ [COMMA] ++ c_op]
                  [([113; 33; 119; 64; 101], 1700000000%Z); ([97; 33; 98; 64; 99], 0%Z)] [([42; 33; 42; 64; 104], 5%Z)]) ].
Example ex_chans_in_domain : chan_dom ex_chans = true.
Proof. vm_compute. reflexivity. Qed.

(* C16.d: the channel that lost its default -op is outside the domain (its -op is not covered) *)
Example removed_default_outside_domain : chan_dom w_chan = false /\ defaults_covered (c_caps (snd (hd (c_name, fresh_chan) w_chan))) = false.
Proof. split; vm_compute; reflexivity. Qed.

Definition ex_nets : list (str * net) :=
  [ ([111; 102; 116; 99], Net [([97; 46; 98], [112])] []);
    ([101; 109; 112; 116; 121], Net [] []);
    ([108; 105; 98], Net [([105; 114; 99; 46; 120], [100; 61; 51; 44; 112; 61; 54]); ([97; 46; 98], [112; 61; 49])]
                         [([105; 114; 99; 46; 120], 1700000000%Z)]) ].
Example ex_nets_in_domain : net_dom ex_nets = true /\ length (net_expected (sort_named ex_nets)) = 2%nat.
Proof. split; vm_compute; reflexivity. Qed.

Definition ex_ign : list (str * expiry) :=
  [ ([97; 33; 98; 64; 99], Exp 0%Z None); ([113; 33; 119; 64; 101], Exp 150%Z (Some [53]));
    ([65; 33; 66; 64; 67], Exp 90%Z None); ([42; 33; 42; 64; 104], Exp 100%Z (Some [50; 53])) ].
Example ex_ign_in_domain : ign_dom 100%Z ex_ign = true /\ length (ign_expected 100%Z ex_ign) = 3%nat.
Proof. split; vm_compute; reflexivity. Qed.
