(* C16/NextId.v — UsersDictionary.nextId through save and load (file format without a nextid trailer) *)
From Coq Require Import List NArith ZArith Bool Arith Lia ZifyBool.
Import ListNotations.
Require Import Base.Wire Base.PyStr C16.Model C16.Lemmas C16.Roundtrip.
Require gen.T16.
Open Scope N_scope.

(* pinned from the source: flush writes no trailer *)
Lemma flush_writes_no_nextid : gen.T16.FLUSH_WRITES_NEXTID = false. Proof. reflexivity. Qed.

Lemma write_users_state_plain next db : write_users_state next db = write_users db.
Proof. unfold write_users_state. rewrite flush_writes_no_nextid. apply app_nil_r. Qed.

(* nextId survives when it is the largest stored id, i.e. when no account newer than every stored one was deleted *)
Lemma users_state_roundtrip db :
  users_dom db = true ->
  read_users (write_users_state (max_id (sort_users db) 0%Z) db)
  = (UState None (sort_users db) (max_id (sort_users db) 0%Z), None).
Proof. intro H. rewrite write_users_state_plain. apply users_roundtrip. exact H. Qed.

(* ... and is forgotten otherwise: accounts 1 and 2 stored, account 3 deleted, nextId 3 reloads as 2 *)
Lemma nextid_forgotten :
  exists db next, users_dom db = true /\ (max_id (sort_users db) 0%Z < next)%Z
                  /\ us_next (fst (read_users (write_users_state next db))) <> next.
Proof.
  exists [mk 1 [97]; mk 2 [98]], 3%Z. repeat split; try (vm_compute; reflexivity).
  vm_compute. discriminate.
Qed.
