(* C10/Handlers.v — effect of IrcState.doNick on nicksToHostmasks for all states,
   self-leave (PART / KICK / reset), case-insensitivity of KICK, and
   separateModes against a declarative parse. *)
From Coq Require Import List NArith ZArith Bool Lia.
Import ListNotations.
Require Import Base.Wire Base.PyStr C10.Bot C10.Lemmas.
Open Scope N_scope.

(* ---- NICK and nicksToHostmasks (repaired doNick: the old entry is deleted first) ---- *)
Lemma doNick_n2h m b new rest x :
  m_args m = new :: rest -> nonempty (msg_user m) = true -> nonempty (msg_host m) = true -> new <> [] ->
  idict_get x (b_n2h (st_doNick m b)) =
    if feq x new then Some (joinHostmask new (msg_user m) (msg_host m))
    else if feq x (msg_nick m) then None
    else idict_get x (b_n2h b).
Proof.
  intros Ha Hu Hh Hn. unfold st_doNick. rewrite Ha, Hu, Hh. cbn [andb].
  destruct new as [|c new']; [contradiction|].
  cbn [set_chans set_n2h n2h_set b_n2h b_nick b_prefix b_chans].
  rewrite idict_get_set, idict_get_del. reflexivity.
Qed.

(* the clause "each visible nick's hostmask equals the server's", for the nick that changed: the FULL statement,
   case-only changes included *)
Lemma doNick_hostmask m b new rest :
  m_args m = new :: rest -> nonempty (msg_user m) = true -> nonempty (msg_host m) = true -> new <> [] ->
  idict_get new (b_n2h (st_doNick m b)) = Some (joinHostmask new (msg_user m) (msg_host m))
  /\ (feq new (msg_nick m) = false -> idict_get (msg_nick m) (b_n2h (st_doNick m b)) = None).
Proof.
  intros Ha Hu Hh Hn. split.
  - rewrite (doNick_n2h m b new rest new Ha Hu Hh Hn), feq_refl. reflexivity.
  - intro Hf. rewrite (doNick_n2h m b new rest _ Ha Hu Hh Hn), (feq_sym (msg_nick m) new), Hf, feq_refl. reflexivity.
Qed.
(* other nicks keep their entry *)
Lemma doNick_others m b new rest x :
  m_args m = new :: rest -> nonempty (msg_user m) = true -> nonempty (msg_host m) = true -> new <> [] ->
  feq x (msg_nick m) = false -> feq x new = false ->
  idict_get x (b_n2h (st_doNick m b)) = idict_get x (b_n2h b).
Proof. intros Ha Hu Hh Hn H1 H2. rewrite (doNick_n2h m b new rest x Ha Hu Hh Hn), H1, H2. reflexivity. Qed.

Lemma idict_get_map {A} (f : A -> A) k (d : list (str * A)) :
  idict_get k (map (fun kc => (fst kc, f (snd kc))) d) = option_map f (idict_get k d).
Proof.
  induction d as [|[k0 v0] d IH]; [reflexivity|]. cbn [map idict_get fst snd].
  destruct (feq k k0); [reflexivity|exact IH].
Qed.
(* membership after NICK, every channel, every state *)
Lemma doNick_channels m b new rest ch :
  m_args m = new :: rest -> nonempty (msg_user m) = true -> nonempty (msg_host m) = true -> new <> [] ->
  idict_get ch (b_chans (st_doNick m b)) = option_map (replaceUser (msg_nick m) new) (idict_get ch (b_chans b)).
Proof.
  intros Ha Hu Hh Hn. unfold st_doNick. rewrite Ha, Hu, Hh. cbn [andb].
  destruct new as [|c new']; [contradiction|].
  cbn [set_chans set_n2h n2h_set b_n2h b_nick b_prefix b_chans].
  apply (idict_get_map (replaceUser (msg_nick m) (c :: new'))).
Qed.

(* ---- self-leave ---- *)
Definition part_step (nick : str) (b : bot) (ch : str) : bot :=
  if idict_has ch (b_chans b) then
    if feq nick (b_nick b) then set_chans b (idict_del ch (b_chans b))
    else chan_upd ch (removeUser nick) b
  else b.
Lemma part_step_nick nick b ch : b_nick (part_step nick b ch) = b_nick b.
Proof. unfold part_step. destruct (idict_has ch (b_chans b)); [|reflexivity]. destruct (feq nick (b_nick b)); reflexivity. Qed.
Lemma part_loop_self nick l : forall b c,
  feq nick (b_nick b) = true -> (In c l \/ idict_has c (b_chans b) = false) ->
  idict_has c (b_chans (fold_left (part_step nick) l b)) = false.
Proof.
  induction l as [|a l IH]; intros b c Hn H.
  - destruct H as [[]|H]. exact H.
  - cbn [fold_left]. apply IH.
    + rewrite part_step_nick. exact Hn.
    + assert (Hkeep : idict_has c (b_chans b) = false -> idict_has c (b_chans (part_step nick b a)) = false).
      { intro Hc. unfold part_step. destruct (idict_has a (b_chans b)); [|exact Hc]. rewrite Hn.
        cbn [set_chans b_chans]. rewrite idict_has_del, Hc. apply andb_false_r. }
      destruct H as [[Heq|Hin]|Hc]; [|left; exact Hin|right; apply Hkeep; exact Hc].
      subst a. right. unfold part_step. destruct (idict_has c (b_chans b)) eqn:E; [|exact E].
      rewrite Hn. cbn [set_chans b_chans]. rewrite idict_has_del, feq_refl. reflexivity.
Qed.
Lemma self_part m b a0 rest c :
  m_args m = a0 :: rest -> feq (msg_nick m) (b_nick b) = true -> In c (split_char COMMA a0) ->
  idict_has c (b_chans (st_doPart m b)) = false.
Proof.
  intros Ha Hn Hin. unfold st_doPart. rewrite Ha.
  change (idict_has c (b_chans (fold_left (part_step (msg_nick m)) (split_char COMMA a0) b)) = false).
  apply part_loop_self; [exact Hn|left; exact Hin].
Qed.
Lemma self_part_feq m b a0 rest c c' :
  m_args m = a0 :: rest -> feq (msg_nick m) (b_nick b) = true -> In c (split_char COMMA a0) -> feq c' c = true ->
  idict_has c' (b_chans (st_doPart m b)) = false.
Proof.
  intros Ha Hn Hin Hf. unfold idict_has. rewrite (idict_get_feq c' c _ Hf).
  exact (self_part m b a0 rest c Ha Hn Hin).
Qed.

Lemma kick_loop_self ch : forall us b,
  existsb (fun u => feq u (b_nick b)) us = true -> idict_has ch (b_chans (kick_loop ch us b)) = false.
Proof.
  induction us as [|u us IH]; intros b H; [discriminate|].
  cbn [kick_loop existsb] in *. destruct (feq u (b_nick b)) eqn:E.
  - cbn [set_chans b_chans]. rewrite idict_has_del, feq_refl. reflexivity.
  - apply IH. exact H.
Qed.
Lemma self_kick m b ch users rest :
  m_args m = ch :: users :: rest -> existsb (fun u => feq u (b_nick b)) (split_char COMMA users) = true ->
  idict_has ch (b_chans (st_doKick m b)) = false.
Proof.
  intros Ha H. unfold st_doKick. rewrite Ha. destruct (idict_has ch (b_chans b)) eqn:E; [|exact E].
  apply kick_loop_self. exact H.
Qed.

(* ---- case-insensitivity: KICK with case-variant channel and victims is the same state transformer ---- *)
Lemma chans_update_ext k f g d : (forall c, f c = g c) -> chans_update k f d = chans_update k g d.
Proof.
  intro H. induction d as [|[k0 c0] d IH]; [reflexivity|]. cbn [chans_update]. rewrite IH, H. reflexivity.
Qed.
Lemma kick_loop_feq c c' : feq c c' = true -> forall us us' b,
  Forall2 (fun a a' => feq a a' = true) us us' -> kick_loop c us b = kick_loop c' us' b.
Proof.
  intros Hc us us' b H. revert b. induction H as [|u u' us us' Hu H IH]; intro b; [reflexivity|].
  cbn [kick_loop]. rewrite (feq_trans_l u u' _ Hu). destruct (feq u' (b_nick b)).
  - rewrite (idict_del_feq c c' _ Hc). reflexivity.
  - unfold chan_upd at 1 2. rewrite (chans_update_feq c c' _ _ Hc).
    rewrite (chans_update_ext c' (removeUser u) (removeUser u')); [apply IH|].
    intro x. apply removeUser_feq. exact Hu.
Qed.
(* MODE +o/-o/+v/... with a case-variant nick has the same effect on every membership question *)
Lemma mode_arg_feq a a' s x : feq a a' = true ->
  iset_mem x (iset_add a s) = iset_mem x (iset_add a' s) /\ iset_discard a s = iset_discard a' s.
Proof.
  intro H. split; [|apply iset_discard_feq; exact H].
  rewrite !iset_mem_add. rewrite (feq_trans_r a a' x H). reflexivity.
Qed.

(* ---- NAMES with userhost-in-names (repaired do353): an item [prefixes]nick!user@host records nick!user@host under
        the bare nick, in every state ---- *)
Lemma chan_upd_n2h k f b : b_n2h (chan_upd k f b) = b_n2h b.
Proof. reflexivity. Qed.
Lemma names_item_hostmask ch item name user host nick b :
  isUserHostmask item = true -> splitHostmask item = Some (name, user, host) ->
  lstrip gen.T10.SIGILS_353 name = nick -> nick <> [] ->
  idict_get nick (b_n2h (fst (names_loop ch [item] b))) = Some (joinHostmask nick user host).
Proof.
  intros Hh Hs Hl Hn. cbn [names_loop]. rewrite Hh, Hs, Hl.
  destruct nick as [|c nick']; [contradiction|].
  cbn [fst]. rewrite chan_upd_n2h. cbn [n2h_set set_n2h b_n2h].
  rewrite idict_get_set, feq_refl. reflexivity.
Qed.
Lemma sigils_353_same : gen.T10.SIGILS_353 = gen.T10.SIGILS.
Proof. reflexivity. Qed.

(* ---- separateModes against a declarative parse of a mode string ---- *)
Definition is_sign (c : N) : bool := N.eqb c PLUS || N.eqb c MINUS.
Definition takes_arg (last c : N) : bool :=
  mem c (if N.eqb last PLUS then gen.T10.PLUS_REQ else gen.T10.MINUS_REQ).

Inductive parse_modes : str -> N -> list str -> list (N * N * mval) -> Prop :=
| PM_end last args : parse_modes [] last args []
| PM_sign c m last args out :
    is_sign c = true -> parse_modes m c args out -> parse_modes (c :: m) last args out
| PM_param c m last a args out :
    is_sign c = false -> takes_arg last c = true -> parse_modes m last args out ->
    parse_modes (c :: m) last (a :: args) ((last, c, coerce a) :: out)
| PM_param_missing c m last out :
    is_sign c = false -> takes_arg last c = true -> parse_modes m last [] out ->
    parse_modes (c :: m) last [] out
| PM_flag c m last args out :
    is_sign c = false -> takes_arg last c = false -> parse_modes m last args out ->
    parse_modes (c :: m) last args ((last, c, MNone) :: out).

Lemma sepmodes_sound m : forall last args, parse_modes m last args (sepmodes m last args).
Proof.
  induction m as [|c m IH]; intros last args; cbn [sepmodes]; [constructor|].
  fold (is_sign c). destruct (is_sign c) eqn:Es; [apply PM_sign; [exact Es|apply IH]|].
  fold (takes_arg last c). destruct (takes_arg last c) eqn:Et.
  - destruct args as [|a args].
    + apply PM_param_missing; auto.
    + apply PM_param; auto.
  - apply PM_flag; auto.
Qed.
Lemma sepmodes_complete m last args out : parse_modes m last args out -> out = sepmodes m last args.
Proof.
  induction 1; cbn [sepmodes]; try reflexivity.
  - fold (is_sign c). rewrite H. exact IHparse_modes.
  - fold (is_sign c). rewrite H. fold (takes_arg last c). rewrite H0. f_equal. exact IHparse_modes.
  - fold (is_sign c). rewrite H. fold (takes_arg last c). rewrite H0. exact IHparse_modes.
  - fold (is_sign c). rewrite H. fold (takes_arg last c). rewrite H0. f_equal. exact IHparse_modes.
Qed.
Lemma separateModes_spec modes args out :
  parse_modes modes PLUS args out <-> separateModes (modes :: args) = out.
Proof.
  cbn [separateModes]. split.
  - intro H. symmetry. apply sepmodes_complete. exact H.
  - intro H. subst. apply sepmodes_sound.
Qed.
(* non-vacuity: the docstring examples *)
Example separateModes_ex :
  separateModes [[43; 115; 45; 111]; [116; 101; 115; 116]] = [(PLUS, 115, MNone); (MINUS, 111, MStr [116; 101; 115; 116])]
  /\ separateModes [[43; 108]; [49; 48; 48]] = [(PLUS, 108, MInt 100)].
Proof. split; vm_compute; reflexivity. Qed.
