(* C10/Agree.v — the lookup-level relation [Inv] implies the executable agreement predicate [agree]. *)
From Coq Require Import List NArith ZArith Bool Lia.
Import ListNotations.
Require Import Base.Wire Base.PyStr C10.Model C10.Lemmas C10.Handlers C10.SrvLemmas C10.Feed C10.Inv C10.Sim.
Open Scope N_scope.

Lemma iset_mem_self x s : In x s -> iset_mem x s = true.
Proof. intro H. unfold iset_mem. apply existsb_exists. exists x. split; [exact H|apply feq_refl]. Qed.
Lemma iset_mem_ex x s : iset_mem x s = true -> exists k, In k s /\ feq x k = true.
Proof. unfold iset_mem. intro H. apply existsb_exists in H. exact H. Qed.

(* a list L that enumerates (up to case) exactly the names satisfying P, against a bot set answering P *)
Lemma same_f_of (P : str -> bool) (L S : list str) :
  (forall x, In x L -> P x = true) ->
  (forall x, P x = true -> exists k, In k L /\ feq x k = true) ->
  (forall x, iset_mem x S = P x) ->
  same_f L S = true.
Proof.
  intros H1 H2 H3. unfold same_f, incl_f. apply andb_true_iff. split; apply forallb_forall; intros x Hx.
  - rewrite H3. apply H1. exact Hx.
  - assert (Hp : P x = true) by (rewrite <- H3; apply iset_mem_self; exact Hx).
    destruct (H2 x Hp) as [k [Hk Hf]]. unfold iset_mem. apply existsb_exists. exists k. auto.
Qed.

Lemma mflag_feq p a b ch : feq a b = true -> mflag p a ch = mflag p b ch.
Proof. intro H. unfold mflag. rewrite (idict_get_feq a b _ H). reflexivity. Qed.
Lemma mflag_member p x ch : mflag p x ch = true -> is_member x ch = true.
Proof. unfold mflag, is_member, idict_has. destruct (idict_get x (sc_members ch)); [reflexivity|discriminate]. Qed.

Lemma same_f_flag p ch S :
  (forall x, iset_mem x S = mflag p x ch) ->
  same_f (filter (fun x => mflag p x ch) (map fst (sc_members ch))) S = true.
Proof.
  intro H. apply (same_f_of (fun x => mflag p x ch)); [| |exact H].
  - intros x Hx. apply filter_In in Hx. apply Hx.
  - intros x Hx. destruct (has_key _ x (mflag_member p x ch Hx)) as [k [Hk Hf]].
    exists k. split; [|exact Hf]. apply filter_In. split; [exact Hk|]. rewrite <- (mflag_feq p x k ch Hf). exact Hx.
Qed.

Lemma assoc_key f m : In f (map fst m) -> exists v, assoc f m = Some v.
Proof.
  induction m as [|[k v] m IH]; [intros []|]. cbn [map fst In assoc]. intros [E|H].
  - subst. rewrite N.eqb_refl. eauto.
  - destruct (N.eqb f k); eauto.
Qed.
Lemma assoc_some_key f m v : assoc f m = Some v -> In f (map fst m).
Proof.
  induction m as [|[k w] m IH]; [discriminate|]. cbn [map fst In assoc].
  destruct (N.eqb f k) eqn:E; intro H; [left; apply N.eqb_eq in E; auto|right; auto].
Qed.
Lemma cdict_key k v d : In (k, v) d -> exists w, cdict_get k d = Some w.
Proof.
  induction d as [|[k0 v0] d IH]; [intros []|]. cbn [In cdict_get]. intros [E|H].
  - inversion E; subst. rewrite N.eqb_refl. eauto.
  - destruct (N.eqb k k0); eauto.
Qed.

Lemma agree_modes_of ch bm :
  (forall f, cdict_get f bm = option_map conv (assoc f (sc_modes ch))) ->
  (forall f v, assoc f (sc_modes ch) = Some v -> letter_ok f v = true) ->
  agree_modes (map (fun f => (f, mode_value ch f)) (map fst (sc_modes ch))) bm = true.
Proof.
  intros H W. unfold agree_modes. apply andb_true_iff. split; apply forallb_forall.
  - intros [f v] Hin. apply in_map_iff in Hin as [f' [E Hf]]. inversion E; subst f' v. cbn [fst snd].
    destruct (assoc_key f _ Hf) as [v Hv]. rewrite H, Hv. unfold mode_value. rewrite Hv. cbn [option_map].
    destruct v as [a|]; [|reflexivity]. cbn [conv].
    pose proof (W f (Some a) Hv) as Hl. unfold letter_ok in Hl. apply andb_true_iff in Hl as [_ Hc].
    rewrite (canonical_coerce a Hc), seq_eqb_refl. unfold coerce. destruct (py_int a); reflexivity.
  - intros [f w] Hin. cbn [fst]. destruct (cdict_key f w bm Hin) as [w' Hw]. rewrite H in Hw.
    destruct (assoc f (sc_modes ch)) as [v|] eqn:Ev; [|discriminate].
    apply existsb_exists. exists (f, mode_value ch f). split; [|apply N.eqb_refl].
    apply in_map_iff. exists f. split; [reflexivity|]. apply (assoc_some_key f _ v Ev).
Qed.

Lemma agree_chan_of (s : srv) c ch bc :
  chan_rel ch bc -> (forall f v, assoc f (sc_modes ch) = Some v -> letter_ok f v = true) ->
  agree_chan (view_chan c ch) bc = true.
Proof.
  intros R W. destruct R as [cr_users0 cr_ops0 cr_halfops0 cr_voices0 cr_bans0 cr_topic0 cr_modes0 cr_created0]. unfold agree_chan, view_chan. cbn.
  rewrite (same_f_flag f_o ch _ cr_ops0), (same_f_flag f_h ch _ cr_halfops0), (same_f_flag f_v ch _ cr_voices0).
  rewrite cr_topic0, seq_eqb_refl, cr_created0, Z.eqb_refl. rewrite (agree_modes_of ch _ cr_modes0 W).
  assert (Hu : same_f (map fst (sc_members ch)) (c_users bc) = true).
  { apply (same_f_of (fun x => is_member x ch)); [| |exact cr_users0].
    - intros x Hx. apply key_has. exact Hx.
    - intros x Hx. apply has_key. exact Hx. }
  assert (Hb : same_f (sc_bans ch) (c_bans bc) = true).
  { apply (same_f_of (fun x => iset_mem x (sc_bans ch))); [| |exact cr_bans0].
    - intros x Hx. apply iset_mem_self. exact Hx.
    - intros x Hx. apply iset_mem_ex. exact Hx. }
  rewrite Hu, Hb. reflexivity.
Qed.

Lemma forallb_flat_map {A B} (p : B -> bool) (f : A -> list B) l :
  forallb p (flat_map f l) = forallb (fun x => forallb p (f x)) l.
Proof. induction l; [reflexivity|]. cbn. rewrite forallb_app, IHl. reflexivity. Qed.
Lemma in_fst {A} (kv : str * A) d : In kv d -> In (fst kv) (map fst d).
Proof. intro H. apply in_map. exact H. Qed.

Theorem Inv_agree s b : Inv s b -> agree s b = true.
Proof.
  intro I. destruct I as [W N C R H]. unfold agree. repeat (apply andb_true_iff; split).
  - rewrite N. apply seq_eqb_refl.
  - unfold view_chans. rewrite forallb_flat_map. apply forallb_forall. intros [k ch0] Hin. cbn [fst].
    destruct (idict_get k (s_chans s)) as [ch|] eqn:Eg; [|reflexivity].
    destruct (is_member (s_me s) ch) eqn:Em; [|reflexivity]. cbn [forallb]. rewrite andb_true_r.
    change (v_name (view_chan k ch)) with k.
    pose proof (C k) as Hk. unfold mych in Hk. rewrite Eg, Em in Hk. unfold idict_has in Hk.
    destruct (idict_get k (b_chans b)) as [bc|] eqn:Eb; [|discriminate].
    apply (agree_chan_of s). { apply (R k ch bc Eg Eb). } { intros f v. apply (wf_modes s W k ch f v Eg). }
  - apply forallb_forall. intros [k bc] Hin. cbn [fst].
    assert (Hh : idict_has k (b_chans b) = true) by (apply key_has; apply (in_fst (k, bc)); exact Hin).
    rewrite C in Hh. unfold mych in Hh. destruct (idict_get k (s_chans s)) as [ch|] eqn:Eg; [|discriminate].
    assert (Hhas : idict_has k (s_chans s) = true) by (unfold idict_has; rewrite Eg; reflexivity).
    destruct (has_key _ k Hhas) as [k' [Hk' Hf]]. apply in_map_iff in Hk' as [[k2 ch2] [E2 Hin2]]. cbn in E2. subst k2.
    apply existsb_exists. exists (view_chan k' ch). split; [|exact Hf].
    unfold view_chans. apply in_flat_map. exists (k', ch2). split; [exact Hin2|]. cbn [fst].
    rewrite <- (idict_get_feq k k' _ Hf), Eg, Hh. left. reflexivity.
  - unfold view_hosts. rewrite forallb_flat_map. apply forallb_forall. intros [n u0] Hin. cbn [fst].
    destruct (idict_get n (s_users s)) as [u|] eqn:Eu; [|reflexivity].
    destruct (visible s n) eqn:Ev; [|reflexivity]. cbn [forallb fst snd]. rewrite andb_true_r.
    unfold visible in Ev. apply existsb_exists in Ev as [[c chx] [_ Hv]]. cbn [fst] in Hv.
    destruct (wf_users s W n u Eu) as [Hk _].
    rewrite <- (idict_get_feq n (su_nick u) _ Hk), (H n u c Eu Hv). apply seq_eqb_refl.
Qed.
