(* C10/Step2.v — step cases PART, KICK, CHGHOST, MODE. *)
From Coq Require Import List NArith ZArith Bool Lia.
Import ListNotations.
Require Import Base.Wire Base.PyStr C10.Model C10.Lemmas C10.Handlers C10.SrvLemmas C10.Feed C10.Inv C10.Frame C10.Sim C10.Step.
Open Scope N_scope.

(* ---- membership after removals ---- *)
Lemma member_del x v ch : is_member x (del_member v ch) = negb (feq x v) && is_member x ch.
Proof. unfold is_member, del_member. cbn [sc_members set_members]. apply idict_has_del. Qed.
Lemma mflag_del p x v ch : mflag p x (del_member v ch) = negb (feq x v) && mflag p x ch.
Proof.
  unfold mflag, del_member. cbn [sc_members set_members]. rewrite idict_get_del. destruct (feq x v); reflexivity.
Qed.
Lemma rel_del ch bc v : chan_rel ch bc -> chan_rel (del_member v ch) (removeUser v bc).
Proof.
  intros [A B C D E F G H]. constructor; try assumption.
  - intro x. rewrite removeUser_users, member_del, A. reflexivity.
  - intro x. rewrite removeUser_ops, mflag_del, B. reflexivity.
  - intro x. rewrite removeUser_halfops, mflag_del, C. reflexivity.
  - intro x. rewrite removeUser_voices, mflag_del, D. reflexivity.
Qed.
Definition del_all (vs : list str) (ch : schan) : schan := fold_left (fun ch v => del_member v ch) vs ch.
Definition rem_all (vs : list str) (bc : chan) : chan := fold_left (fun bc v => removeUser v bc) vs bc.
Lemma rel_del_all vs : forall ch bc, chan_rel ch bc -> chan_rel (del_all vs ch) (rem_all vs bc).
Proof. induction vs as [|v vs IH]; intros ch bc R; [exact R|]. apply IH. apply rel_del. exact R. Qed.
Lemma member_del_all vs : forall x ch, is_member x (del_all vs ch) = forallb (fun v => negb (feq x v)) vs && is_member x ch.
Proof.
  induction vs as [|v vs IH]; intros x ch; [reflexivity|]. cbn [del_all fold_left forallb].
  change (fold_left (fun ch0 v0 => del_member v0 ch0) vs (del_member v ch)) with (del_all vs (del_member v ch)).
  rewrite IH, member_del. destruct (negb (feq x v)); [reflexivity|]. cbn. apply andb_false_r.
Qed.
Lemma modes_del_all vs : forall ch, sc_modes (del_all vs ch) = sc_modes ch.
Proof. induction vs as [|v vs IH]; intro ch; [reflexivity|]. cbn [del_all fold_left]. apply (IH (del_member v ch)). Qed.

Lemma chans_update_compose k f g d : chans_update k g (chans_update k f d) = chans_update k (fun x => g (f x)) d.
Proof.
  induction d as [|[k0 c0] d IH]; [reflexivity|]. cbn [chans_update].
  destruct (feq k k0) eqn:E; cbn [chans_update]; rewrite E; [reflexivity|]. rewrite IH. reflexivity.
Qed.

Lemma chans_update_id k f d : (forall x, f x = x) -> chans_update k f d = d.
Proof.
  intro H. induction d as [|[k0 c0] d IH]; [reflexivity|]. cbn [chans_update]. rewrite IH, H. destruct (feq k k0); reflexivity.
Qed.
(* the bot's kick loop when it is not among the victims: all of them removed from its record of the channel *)
Lemma kick_loop_others c : forall vs b, forallb (fun v => negb (feq v (b_nick b))) vs = true ->
  kick_loop c vs b = chan_upd c (rem_all vs) b.
Proof.
  induction vs as [|v vs IH]; intros b H.
  - cbn [kick_loop]. unfold chan_upd. rewrite chans_update_id by reflexivity. destruct b; reflexivity.
  - cbn [forallb] in H. apply andb_true_iff in H as [Hv H]. apply negb_true_iff in Hv.
    cbn [kick_loop]. rewrite Hv. rewrite IH by exact H. unfold chan_upd. cbn [set_chans b_chans b_nick b_prefix b_n2h].
    rewrite chans_update_compose. reflexivity.
Qed.
(* ... and when it is: the channel is gone, nothing else changed *)
Lemma kick_loop_me c : forall vs b, existsb (fun v => feq v (b_nick b)) vs = true ->
  b_nick (kick_loop c vs b) = b_nick b /\ b_n2h (kick_loop c vs b) = b_n2h b
  /\ forall c', idict_get c' (b_chans (kick_loop c vs b)) = if feq c' c then None else idict_get c' (b_chans b).
Proof.
  induction vs as [|v vs IH]; intros b H; [discriminate|]. cbn [existsb] in H. cbn [kick_loop].
  destruct (feq v (b_nick b)) eqn:E.
  - repeat split. intro c'. cbn [set_chans b_chans]. apply idict_get_del.
  - cbn [orb] in H. destruct (IH (chan_upd c (removeUser v) b) H) as [A [B C]]. repeat split; [exact A|exact B|].
    intro c'. rewrite C. cbn [chan_upd set_chans b_chans]. rewrite chans_update_get. destruct (feq c' c); reflexivity.
Qed.

Section Leave.
Variables (s : srv) (c : str) (ch : schan) (F : schan -> schan).
Hypothesis Hc : idict_get c (s_chans s) = Some ch.
(* the bot leaves (or is removed from) channel c and forgets it *)
Lemma leave_self b bL :
  Inv s b -> is_member (s_me s) (F ch) = false ->
  (forall x, is_member x (F ch) = true -> is_member x ch = true) ->
  (forall f v, assoc f (sc_modes (F ch)) = Some v -> letter_ok f v = true) ->
  b_nick bL = b_nick b -> (forall x, idict_get x (b_n2h bL) = idict_get x (b_n2h b)) ->
  (forall c', idict_get c' (b_chans bL) = if feq c' c then None else idict_get c' (b_chans b)) ->
  Inv (set_chans_s s (idict_upd c F (s_chans s))) bL.
Proof.
  intros I HmeF Hsub Hmodes Hn Hh Hcs. destruct I as [W N C R H].
  constructor.
  - apply (wf_upd s c ch F Hc W); [|exact Hmodes].
    intros x Hx. apply (wf_members s W c ch x Hc). apply Hsub. exact Hx.
  - rewrite Hn. exact N.
  - intro c'. unfold idict_has. rewrite Hcs. unfold mych. cbn [set_chans_s s_chans s_me]. rewrite idict_upd_get.
    destruct (feq c' c) eqn:E.
    + rewrite (idict_get_feq c' c _ E), Hc. cbn. rewrite HmeF. reflexivity.
    + apply (C c').
  - intros c' ch' bc' Hg Hb. cbn [set_chans_s s_chans] in Hg. rewrite idict_upd_get in Hg. rewrite Hcs in Hb.
    destruct (feq c' c) eqn:E; [discriminate|]. apply (R c' ch' bc' Hg Hb).
  - intros n u c' Hn' Hv. rewrite Hh. unfold vis_in in Hv. cbn [set_chans_s s_chans s_me s_users] in *. rewrite idict_upd_get in Hv.
    destruct (feq c' c) eqn:E.
    + rewrite (idict_get_feq c' c _ E), Hc in Hv. cbn [option_map] in Hv. rewrite HmeF in Hv. discriminate.
    + apply (H n u c' Hn'). unfold vis_in. exact Hv.
Qed.
End Leave.

Lemma forallb_negb_existsb {A} (p : A -> bool) l : forallb (fun x => negb (p x)) l = negb (existsb p l).
Proof. induction l; [reflexivity|]. cbn. rewrite IHl, negb_orb. reflexivity. Qed.

Section Steps2.
Variables (nick0 prefix0 : str) (uh : bool).
Notation fa := (feed_all nick0 prefix0).

(* ---- PART, one channel ---- *)
Lemma step_part s b n c : Inv s b ->
  let '(s', ms) := step nick0 true uh s (APart n [c]) in Inv s' (fa b ms).
Proof.
  intro I. cbn [step]. destruct (idict_get n (s_users s)) as [u|] eqn:En; [|exact I].
  cbn [fold_left part_any]. unfold part_chan.
  destruct (mem COMMA c) eqn:Hcm; [exact I|].
  destruct (idict_get c (s_chans s)) as [ch|] eqn:Ec; [|exact I].
  destruct (is_member n ch) eqn:Emn; [|exact I]. cbn [andb].
  pose proof (inv_wf s b I) as W. destruct (wf_users s W n u En) as [Hk Hgu].
  assert (Hsub : forall x, is_member x (del_member n ch) = true -> is_member x ch = true).
  { intros x Hx. rewrite member_del in Hx. apply andb_true_iff in Hx. apply Hx. }
  assert (Hmodes : forall f v, assoc f (sc_modes (del_member n ch)) = Some v -> letter_ok f v = true).
  { intros f v Hf. apply (wf_modes s W c ch f v Ec Hf). }
  unfold mych. rewrite Ec. destruct (is_member (s_me s) ch) eqn:Eme; cbn [app].
  - rewrite (fa_one nick0 prefix0) by reflexivity. cbn [join].
    destruct (feq n (s_me s)) eqn:Enm.
    + (* the bot itself parts *)
      destruct (feed_user u str_PART [c] b st_doPart Hgu (Inv_valid_nick s b I)) as [b' [Hcore Hfeed]];
        try reflexivity; try (intros; discriminate); try exact addMsg_PART.
      rewrite Hfeed. destruct (Inv_actor s b' n u (Inv_core s b b' Hcore I) En) as [I1 _].
      set (b1 := n2h_set (su_nick u) (hostmask u) b') in *.
      assert (Hst : st_doPart (Msg (hostmask u) str_PART [c]) b1 = set_chans b1 (idict_del c (b_chans b1))).
      { unfold st_doPart. cbn [m_args]. rewrite (split_char_nomem COMMA c Hcm). cbn [fold_left].
        assert (Hh : idict_has c (b_chans b1) = true) by (rewrite (inv_chans s b1 I1); unfold mych; rewrite Ec; exact Eme).
        rewrite Hh. rewrite (msg_nick_user u _ _ Hgu), (inv_nick s b1 I1).
        rewrite <- (feq_trans_l n (su_nick u) (s_me s) Hk), Enm. reflexivity. }
      rewrite Hst. apply (leave_self s c ch (del_member n) Ec b1); try assumption; try reflexivity.
      * rewrite member_del, (feq_sym (s_me s) n), Enm. reflexivity.
      * intro c'. cbn [set_chans b_chans]. apply idict_get_del.
    + apply (cmd_visible s b n u c ch (del_member n) (removeUser n) str_PART [c] st_doPart); try assumption; try reflexivity.
      * intros; discriminate.
      * exact addMsg_PART.
      * intros b1 Hb1 Hn1. unfold st_doPart. cbn [m_args]. rewrite (split_char_nomem COMMA c Hcm). cbn [fold_left].
        assert (Hh : idict_has c (b_chans b1) = true) by (rewrite Hb1, (inv_chans s b I); unfold mych; rewrite Ec; exact Eme).
        rewrite Hh. rewrite (msg_nick_user u _ _ Hgu), Hn1, (inv_nick s b I).
        rewrite <- (feq_trans_l n (su_nick u) (s_me s) Hk), Enm.
        unfold chan_upd. f_equal. apply chans_update_ext. intro bc. apply removeUser_feq. rewrite feq_sym. exact Hk.
      * rewrite member_del, (feq_sym (s_me s) n), Enm. exact Eme.
      * intros x Hx. left. apply Hsub. exact Hx.
      * intros bc. apply rel_del.
  - rewrite (fa_nil nick0 prefix0). apply (upd_invisible s c ch (del_member n) Ec b I Eme).
    + rewrite member_del, Eme. apply andb_false_r.
    + intros x Hx. apply (wf_members s W c ch x Ec). apply Hsub. exact Hx.
    + exact Hmodes.
Qed.

(* ---- KICK, any number of victims ---- *)
Lemma step_kick s b k c victims : Inv s b ->
  let '(s', ms) := step nick0 true uh s (AKick k c victims) in Inv s' (fa b ms).
Proof.
  intro I. cbn [step]. destruct (idict_get k (s_users s)) as [u|] eqn:Ek; [|exact I].
  destruct (idict_get c (s_chans s)) as [ch|] eqn:Ec; [|exact I].
  set (vs := filter (fun v => is_member v ch && negb (mem COMMA v)) victims).
  destruct (is_member k ch && nonempty (join [COMMA] vs)) eqn:Eok; [|exact I].
  apply andb_true_iff in Eok as [Emk Hne].
  pose proof (inv_wf s b I) as W. destruct (wf_users s W k u Ek) as [Hk Hgu].
  change (fun ch0 : schan => fold_left (fun ch1 v => del_member v ch1) vs ch0) with (del_all vs).
  assert (Hvs : vs <> []) by (intro E; rewrite E in Hne; discriminate).
  assert (Hnc : Forall (fun p => mem COMMA p = false) vs).
  { apply Forall_forall. intros v Hv. unfold vs in Hv. apply filter_In in Hv as [_ Hv].
    apply andb_true_iff in Hv as [_ Hv]. apply negb_true_iff. exact Hv. }
  assert (Hsub : forall x, is_member x (del_all vs ch) = true -> is_member x ch = true).
  { intros x Hx. rewrite member_del_all in Hx. apply andb_true_iff in Hx. apply Hx. }
  assert (Hmodes : forall f v, assoc f (sc_modes (del_all vs ch)) = Some v -> letter_ok f v = true).
  { intros f v Hf. rewrite modes_del_all in Hf. apply (wf_modes s W c ch f v Ec Hf). }
  destruct (is_member (s_me s) ch) eqn:Eme.
  - rewrite (fa_one nick0 prefix0) by reflexivity.
    destruct (existsb (fun v => feq v (s_me s)) vs) eqn:Ekme.
    + (* the bot is kicked *)
      destruct (feed_user u str_KICK [c; join [COMMA] vs; [120]] b st_doKick Hgu (Inv_valid_nick s b I)) as [b' [Hcore Hfeed]];
        try reflexivity; try (intros; discriminate); try exact addMsg_KICK.
      rewrite Hfeed. destruct (Inv_actor s b' k u (Inv_core s b b' Hcore I) Ek) as [I1 _].
      set (b1 := n2h_set (su_nick u) (hostmask u) b') in *.
      unfold st_doKick. cbn [m_args].
      assert (Hh : idict_has c (b_chans b1) = true) by (rewrite (inv_chans s b1 I1); unfold mych; rewrite Ec; exact Eme).
      rewrite Hh, (split_char_join COMMA vs Hvs Hnc).
      assert (Hex : existsb (fun v => feq v (b_nick b1)) vs = true) by (rewrite (inv_nick s b1 I1); exact Ekme).
      destruct (kick_loop_me c vs b1 Hex) as [A [B C]].
      apply (leave_self s c ch (del_all vs) Ec b1); try assumption.
      * rewrite member_del_all. rewrite forallb_negb_existsb.
        assert (E2 : existsb (feq (s_me s)) vs = true).
        { apply existsb_exists in Ekme as [v [Hv Hf]]. apply existsb_exists. exists v. split; [exact Hv|]. rewrite feq_sym. exact Hf. }
        rewrite E2. reflexivity.
      * intro x. rewrite B. reflexivity.
    + apply (cmd_visible s b k u c ch (del_all vs) (rem_all vs) str_KICK [c; join [COMMA] vs; [120]] st_doKick);
        try assumption; try reflexivity.
      * intros; discriminate.
      * exact addMsg_KICK.
      * intros b1 Hb1 Hn1. unfold st_doKick. cbn [m_args].
        assert (Hh : idict_has c (b_chans b1) = true) by (rewrite Hb1, (inv_chans s b I); unfold mych; rewrite Ec; exact Eme).
        rewrite Hh, (split_char_join COMMA vs Hvs Hnc). apply kick_loop_others.
        rewrite Hn1, (inv_nick s b I), forallb_negb_existsb, Ekme. reflexivity.
      * rewrite member_del_all, Eme, forallb_negb_existsb.
        assert (E2 : existsb (feq (s_me s)) vs = false).
        { destruct (existsb (feq (s_me s)) vs) eqn:E; [|reflexivity].
          apply existsb_exists in E as [v [Hv Hf]].
          assert (existsb (fun v => feq v (s_me s)) vs = true) by (apply existsb_exists; exists v; split; [exact Hv|rewrite feq_sym; exact Hf]).
          congruence. }
        rewrite E2. reflexivity.
      * intros x Hx. left. apply Hsub. exact Hx.
      * intros bc. apply rel_del_all.
  - rewrite (fa_nil nick0 prefix0). apply (upd_invisible s c ch (del_all vs) Ec b I Eme).
    + rewrite member_del_all, Eme. apply andb_false_r.
    + intros x Hx. apply (wf_members s W c ch x Ec). apply Hsub. exact Hx.
    + exact Hmodes.
Qed.
(* ---- CHGHOST ---- *)
Lemma vis_in_visible s n c : vis_in s n c = true -> visible s n = true.
Proof.
  intro H. unfold vis_in in H. destruct (idict_get c (s_chans s)) as [ch|] eqn:Ec; [|discriminate].
  assert (Hh : idict_has c (s_chans s) = true) by (unfold idict_has; rewrite Ec; reflexivity).
  destruct (has_key _ c Hh) as [k [Hk Hf]]. apply in_map_iff in Hk as [[k2 ch2] [E2 Hin]]. cbn in E2. subst k2.
  unfold visible. apply existsb_exists. exists (k, ch2). split; [exact Hin|]. cbn [fst].
  unfold vis_in. rewrite <- (idict_get_feq c k _ Hf), Ec. exact H.
Qed.

Lemma step_chghost s b n u' h' : Inv s b ->
  let '(s', ms) := step nick0 true uh s (AChghost n u' h') in Inv s' (fa b ms).
Proof.
  intro I. cbn [step]. destruct (idict_get n (s_users s)) as [u|] eqn:En; [|exact I].
  destruct (valid_uh u' && valid_uh h') eqn:V; [|exact I]. apply andb_true_iff in V as [Vu Vh].
  pose proof (inv_wf s b I) as W. destruct (wf_users s W n u En) as [Hk Hgu].
  set (f := fun x : suser => SUser (su_nick x) u' h').
  set (s' := Srv (s_me s) (idict_upd n f (s_users s)) (s_chans s)).
  assert (Wf' : wf s').
  { destruct W as [W1 W2 W3 W4 W5]. constructor; try assumption.
    - destruct W2 as [u0 [H0 E0]]. cbn [s' s_me s_users]. rewrite idict_upd_get, H0.
      destruct (feq (s_me s) n); [exists (f u0)|exists u0]; split; auto.
    - intros x ux Hx. cbn [s' s_users] in Hx. rewrite idict_upd_get in Hx. destruct (feq x n) eqn:E; [|apply (W3 x ux Hx)].
      destruct (idict_get x (s_users s)) as [ux0|] eqn:E0; [|discriminate]. cbn in Hx. inversion Hx; subst ux.
      destruct (W3 x ux0 E0) as [A [B1 [B2 B3]]]. cbn. split; [exact A|]. repeat split; assumption.
    - intros c ch x Hg Hx. cbn [s' s_users s_chans] in *. rewrite idict_has_upd. apply (W4 c ch x Hg Hx). }
  assert (Hfinal : forall bF, b_nick bF = b_nick b -> b_chans bF = b_chans b ->
            (forall x, idict_get x (b_n2h bF) = if feq x (su_nick u) && (feq n (s_me s) || visible s n)
                                                then Some (joinHostmask (su_nick u) u' h') else idict_get x (b_n2h b)) ->
            Inv s' bF).
  { intros bF Hn Hc Hh. destruct I as [W0 N C R H]. constructor; try assumption.
    - rewrite Hn. exact N.
    - intro c. rewrite Hc. apply C.
    - intros c ch bc. rewrite Hc. apply R.
    - intros x ux c Hx Hv. rewrite Hh. cbn [s' s_users] in Hx. rewrite idict_upd_get in Hx.
      assert (Hv0 : vis_in s x c = true) by exact Hv.
      destruct (feq x n) eqn:E.
      + rewrite (idict_get_feq x n _ E), En in Hx. cbn in Hx. inversion Hx; subst ux.
        rewrite (feq_trans_l x n (su_nick u) E), Hk. cbn [andb].
        assert (Hvis : visible s n = true).
        { apply (vis_in_visible s n c). unfold vis_in in *. destruct (idict_get c (s_chans s)); [|discriminate].
          unfold is_member in *. rewrite <- (idict_has_feq x n _ E). exact Hv0. }
        rewrite Hvis, orb_true_r. reflexivity.
      + assert (E2 : feq x (su_nick u) = false) by (rewrite <- (feq_trans_r n (su_nick u) x Hk); exact E).
        rewrite E2. cbn [andb]. apply (H x ux c Hx Hv0). }
  destruct (feq n (s_me s) || visible s n) eqn:Esend.
  - rewrite (fa_one nick0 prefix0) by reflexivity.
    destruct (feed_user u str_CHGHOST [u'; h'] b st_doChghost Hgu (Inv_valid_nick s b I)) as [b' [[Hc1 [Hc2 Hc3]] Hfeed]];
      try reflexivity; try (intros; discriminate); try exact addMsg_CHGHOST.
    rewrite Hfeed. unfold st_doChghost. cbn [m_args]. rewrite (msg_nick_user u _ _ Hgu).
    apply Hfinal; cbn [n2h_set set_n2h b_nick b_chans b_n2h]; try assumption.
    intro x. rewrite !idict_get_set, Hc3. rewrite andb_true_r. destruct (feq x (su_nick u)); reflexivity.
  - rewrite (fa_nil nick0 prefix0). apply Hfinal; try reflexivity. intro x. rewrite andb_false_r. reflexivity.
Qed.
End Steps2.
