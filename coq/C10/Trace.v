(* C10/Trace.v — the dispatcher over proved step cases and the induction over the history. *)
From Coq Require Import List NArith ZArith Bool Lia.
Import ListNotations.
Require Import Base.Wire Base.PyStr C10.Model C10.Lemmas C10.Handlers C10.SrvLemmas C10.Feed C10.Inv C10.Frame C10.Sim C10.Agree C10.Step C10.Step2 C10.StepMode C10.Step3 C10.Step4 C10.Step5 C10.Step6 C10.Step7 C10.Keys C10.Step8 C10.Step9 C10.Step10 C10.StepLate.
Open Scope N_scope.

Section Trace.
Variables (nick0 prefix0 : str) (uh : bool).
Hypothesis Hnick0 : valid_nick nick0 = true.
Notation fa := (feed_all nick0 prefix0).

(* ---- every action of [dom] has its step case ---- *)
Lemma step_proved s b a : Inv s b -> skeys s -> action_dom a = true ->
  let '(s', ms) := step nick0 true uh s a in Inv s' (fa b ms).
Proof.
  intros I K Hp. destruct a; try discriminate.
  - apply step_connect. exact I.
  - destruct (feq n (s_me s)) eqn:E.
    + apply step_join_self_any; assumption.
    + apply step_join_other_multi; assumption.
  - apply step_part_multi. exact I.
  - apply step_kick. exact I.
  - apply step_quit. exact I.
  - apply step_nick. exact I.
  - apply step_mode; assumption.
  - apply step_topic. exact I.
  - apply step_chghost. exact I.
  - cbn [action_dom] in Hp. subst multiprefix. apply step_names; assumption.
  - apply step_who. exact I.
  - apply step_reset; assumption.
  - apply step_isupport. exact I.
  - apply step_late. exact I.
Qed.
Lemma trace_inv : forall acts s b, Inv s b -> skeys s -> dom acts = true ->
  all_agree nick0 prefix0 true uh s b acts = true.
Proof.
  induction acts as [|a r IH]; intros s b I K Hr; [reflexivity|].
  unfold dom in Hr. cbn [forallb] in Hr. apply andb_true_iff in Hr as [Hp Hr].
  cbn [all_agree]. unfold sim_step. cbn [fst snd].
  pose proof (step_proved s b a I K Hp) as Hs.
  pose proof (step_skeys nick0 true uh s a (inv_wf s b I) K) as K'.
  destruct (step nick0 true uh s a) as [s' ms]. cbn [fst] in K'.
  rewrite (Agree.Inv_agree s' _ Hs). cbn [andb]. apply IH; assumption.
Qed.

(* ---- two networks in one process: each bot only sees its own server's messages; the two bot states are separate
        values, so a step on one network leaves the other's agreement untouched ---- *)
Fixpoint all_agree2 (sA : srv) (bA : bot) (sB : srv) (bB : bot) (steps : list (bool * action)) : bool :=
  match steps with
  | [] => true
  | (true, a) :: r => let '(sA', bA') := sim_step nick0 prefix0 true uh (sA, bA) a in
                      agree sA' bA' && agree sB bB && all_agree2 sA' bA' sB bB r
  | (false, a) :: r => let '(sB', bB') := sim_step nick0 prefix0 true uh (sB, bB) a in
                       agree sA bA && agree sB' bB' && all_agree2 sA bA sB' bB' r
  end.
Lemma two_networks : forall steps sA bA sB bB, Inv sA bA -> skeys sA -> Inv sB bB -> skeys sB ->
  forallb (fun wa => action_dom (snd wa)) steps = true ->
  all_agree2 sA bA sB bB steps = true.
Proof.
  induction steps as [|[w a] r IH]; intros sA bA sB bB IA KA IB KB Hd; [reflexivity|].
  cbn [forallb snd] in Hd. apply andb_true_iff in Hd as [Hp Hd]. cbn [all_agree2]. unfold sim_step. cbn [fst snd].
  destruct w.
  - pose proof (step_proved sA bA a IA KA Hp) as Hs. pose proof (step_skeys nick0 true uh sA a (inv_wf sA bA IA) KA) as K'.
    destruct (step nick0 true uh sA a) as [s' ms]. cbn [fst] in K'.
    rewrite (Agree.Inv_agree s' _ Hs), (Agree.Inv_agree sB bB IB). cbn [andb]. apply IH; assumption.
  - pose proof (step_proved sB bB a IB KB Hp) as Hs. pose proof (step_skeys nick0 true uh sB a (inv_wf sB bB IB) KB) as K'.
    destruct (step nick0 true uh sB a) as [s' ms]. cbn [fst] in K'.
    rewrite (Agree.Inv_agree s' _ Hs), (Agree.Inv_agree sA bA IA). cbn [andb]. apply IH; assumption.
Qed.
End Trace.

Lemma skeys_start nick0 u h : skeys (srv0 nick0 u h).
Proof. intros c ch Hg. discriminate. Qed.

Lemma Inv_start nick0 prefix0 u h : valid_nick nick0 = true -> valid_uh u = true -> valid_uh h = true ->
  Inv (srv0 nick0 u h) (reset nick0 prefix0).
Proof.
  intros Hn Hu Hh. constructor.
  - constructor.
    + exact Hn.
    + exists (SUser nick0 u h). unfold srv0. cbn [s_me s_users idict_get]. rewrite feq_refl. split; reflexivity.
    + intros n ux Hg. unfold srv0 in Hg. cbn [s_me s_users idict_get] in Hg. destruct (feq n nick0) eqn:E; [|discriminate]. inversion Hg; subst ux. cbn.
      split; [exact E|]. repeat split; assumption.
    + intros c ch x Hg. discriminate.
    + intros c ch f v Hg. discriminate.
  - reflexivity.
  - intro c. reflexivity.
  - intros c ch bc Hg. discriminate.
  - intros n ux c Hg Hv. discriminate.
Qed.

(* non-vacuity of the trace theorem: an in-domain history in which the bot creates two channels, other users join
   them and set topics -- every step is a proved step, and (by the theorem, and by computation) the bot agrees *)
Definition trace_example : list action :=
  [AConnect n_Foo u_ h_; AConnect n_bar u_ h_; AJoin n_test [c_a]; AJoin n_FOO [c_A]; ATopic n_foo c_a [104; 105];
   AMode n_TEST c_A [(true, 111, Some n_FOO); (true, 118, Some n_foo); (true, 98, Some mask1); (false, 98, Some mask2);
                     (true, 107, Some [107]); (true, 108, Some [49; 48]); (true, 116, None); (false, 111, Some n_test)];
   ANick n_Foo n_FOO; AJoin n_TEST [c_b; [35; 122]; c_A]; AJoin n_bar [c_B; c_a; [35; 122]]; ANick n_bar n_Baz;
   AChghost n_Baz [118] [119]; AWho c_a; ATopic n_Baz c_B [121; 111]; AKick n_foo c_a [n_Baz; n_bar];
   ANick n_test n_Test2; APart n_Baz [c_b; c_a; c_B]; AMode n_Test2 c_b [(false, 108, None); (true, 115, None)];
   AKick n_FOO c_A [n_Test2]; AJoin n_Test2 [c_a; [35; 113]]; ANames c_A true true; AQuit n_foo; AReset; AJoin n_test [c_a]; AJoin n_Baz [c_A]].
Example trace_example_ok :
  dom trace_example = true
  /\ all_agree n_test p_test true true start bot_start trace_example = true
  /\ (let '(s, b) := final n_test p_test true true start bot_start trace_example in
      length (view_chans s) = 1%nat /\ length (view_hosts s) = 2%nat).
Proof. vm_compute. repeat split; reflexivity. Qed.
