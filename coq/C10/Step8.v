(* C10/Step8.v — NAMES replies: the 353 item loop (multi-prefix sigils, with or without userhost-in-names). *)
From Coq Require Import List NArith ZArith Bool Lia.
Import ListNotations.
Require Import Base.Wire Base.PyStr C10.Model C10.Lemmas C10.Handlers C10.SrvLemmas C10.Feed C10.Inv C10.Frame C10.Sim C10.Step C10.Step2 C10.Step3 C10.Keys.
Open Scope N_scope.

(* ---- str.split() of a blank-separated list of tokens ---- *)
Lemma go_tok t : forall rest cur, existsb ws t = false -> split_ws_go (t ++ rest) cur = split_ws_go rest (rev t ++ cur).
Proof.
  induction t as [|x t IH]; intros rest cur H; [reflexivity|]. cbn [existsb] in H. apply orb_false_iff in H as [Hx H].
  cbn [app split_ws_go]. rewrite Hx, IH by exact H. cbn [rev]. rewrite <- app_assoc. reflexivity.
Qed.
Definition tok (t : str) : Prop := t <> [] /\ existsb ws t = false.
Lemma split_ws_join : forall items, Forall tok items -> split_ws (join [32] items) = items.
Proof.
  unfold split_ws. induction items as [|t r IH]; intro H; [reflexivity|]. inversion H as [|? ? [Hne Hw] Hr]; subst.
  destruct r as [|t2 r].
  - cbn [join]. rewrite <- (app_nil_r t) at 1. rewrite go_tok by exact Hw. cbn [split_ws_go]. rewrite app_nil_r.
    destruct (rev t) eqn:E; [apply (f_equal (@rev N)) in E; rewrite rev_involutive in E; contradiction|].
    rewrite <- E, rev_involutive. reflexivity.
  - change (join [32] (t :: t2 :: r)) with (t ++ [32] ++ join [32] (t2 :: r)). rewrite go_tok by exact Hw.
    rewrite app_nil_r. cbn [app split_ws_go]. change (ws 32) with true. cbv iota.
    destruct (rev t) eqn:E; [apply (f_equal (@rev N)) in E; rewrite rev_involutive in E; contradiction|].
    rewrite <- E, rev_involutive. f_equal. apply IH. exact Hr.
Qed.

(* ---- ChannelState.addUser on a multi-prefix item ---- *)
Definition add_fl (fl : flags) (nick : str) (bc : chan) : chan :=
  let bc1 := if f_o fl then set_ops bc (iset_add nick (c_ops bc)) else bc in
  let bc2 := if f_h fl then set_halfops bc1 (iset_add nick (c_halfops bc1)) else bc1 in
  let bc3 := if f_v fl then set_voices bc2 (iset_add nick (c_voices bc2)) else bc2 in
  set_users bc3 (iset_add nick (c_users bc3)).
Lemma am_64 nick rest bc : add_markers nick (64 :: rest) bc = add_markers nick rest (set_ops bc (iset_add nick (c_ops bc))).
Proof. reflexivity. Qed.
Lemma am_37 nick rest bc : add_markers nick (37 :: rest) bc = add_markers nick rest (set_halfops bc (iset_add nick (c_halfops bc))).
Proof. reflexivity. Qed.
Lemma am_43 nick rest bc : add_markers nick (43 :: rest) bc = add_markers nick rest (set_voices bc (iset_add nick (c_voices bc))).
Proof. reflexivity. Qed.
Lemma ls_64 rest : lstrip gen.T10.SIGILS (64 :: rest) = lstrip gen.T10.SIGILS rest. Proof. reflexivity. Qed.
Lemma ls_37 rest : lstrip gen.T10.SIGILS (37 :: rest) = lstrip gen.T10.SIGILS rest. Proof. reflexivity. Qed.
Lemma ls_43 rest : lstrip gen.T10.SIGILS (43 :: rest) = lstrip gen.T10.SIGILS rest. Proof. reflexivity. Qed.
Lemma lstrip_nick nick : nice_nick nick -> lstrip gen.T10.SIGILS nick = nick.
Proof.
  intros [Hne _ _ _ _ _ Hs]. destruct nick as [|x r]; [reflexivity|]. cbn [existsb] in Hs. apply orb_false_iff in Hs as [Hx _].
  cbn [lstrip]. rewrite Hx. reflexivity.
Qed.
Lemma am_nick nick bc : nice_nick nick -> add_markers nick nick bc = bc.
Proof.
  intros [Hne _ _ _ _ _ Hs]. destruct nick as [|x r]; [reflexivity|]. cbn [existsb] in Hs. apply orb_false_iff in Hs as [Hx _].
  cbn [add_markers]. rewrite Hx. reflexivity.
Qed.
Lemma lstrip_sigils fl nick : nice_nick nick -> lstrip gen.T10.SIGILS (sigils true fl ++ nick) = nick.
Proof.
  intro Hn. destruct fl as [[] [] []]; cbn [sigils f_o f_h f_v app]; rewrite ?ls_64, ?ls_37, ?ls_43; apply lstrip_nick; exact Hn.
Qed.
Lemma addUser_sigils fl nick bc : nice_nick nick -> addUser (sigils true fl ++ nick) bc = add_fl fl nick bc.
Proof.
  intro Hn. unfold addUser. rewrite (lstrip_sigils fl nick Hn).
  destruct nick as [|x r] eqn:En; [exfalso; apply (nn_ne _ Hn); reflexivity|]. rewrite <- En in *.
  destruct fl as [[] [] []]; cbn [sigils f_o f_h f_v app]; unfold add_fl; cbn [f_o f_h f_v];
    rewrite ?am_64, ?am_37, ?am_43, (am_nick nick _ Hn); reflexivity.
Qed.
Lemma sigils_ws fl : existsb ws (sigils true fl) = false.
Proof. destruct fl as [[] [] []]; reflexivity. Qed.
Lemma sigils_bang fl : mem BANG (sigils true fl) = false.
Proof. destruct fl as [[] [] []]; reflexivity. Qed.

Lemma add_fl_users fl nick bc y : iset_mem y (c_users (add_fl fl nick bc)) = feq y nick || iset_mem y (c_users bc).
Proof. unfold add_fl. destruct fl as [[] [] []]; cbn; apply iset_mem_add. Qed.
Lemma add_fl_ops fl nick bc y : iset_mem y (c_ops (add_fl fl nick bc)) = (f_o fl && feq y nick) || iset_mem y (c_ops bc).
Proof. unfold add_fl. destruct fl as [[] [] []]; cbn; try apply iset_mem_add; reflexivity. Qed.
Lemma add_fl_halfops fl nick bc y : iset_mem y (c_halfops (add_fl fl nick bc)) = (f_h fl && feq y nick) || iset_mem y (c_halfops bc).
Proof. unfold add_fl. destruct fl as [[] [] []]; cbn; try apply iset_mem_add; reflexivity. Qed.
Lemma add_fl_voices fl nick bc y : iset_mem y (c_voices (add_fl fl nick bc)) = (f_v fl && feq y nick) || iset_mem y (c_voices bc).
Proof. unfold add_fl. destruct fl as [[] [] []]; cbn; try apply iset_mem_add; reflexivity. Qed.
Lemma add_fl_rest fl nick bc : c_bans (add_fl fl nick bc) = c_bans bc /\ c_topic (add_fl fl nick bc) = c_topic bc
  /\ c_modes (add_fl fl nick bc) = c_modes bc /\ c_created (add_fl fl nick bc) = c_created bc.
Proof. unfold add_fl. destruct fl as [[] [] []]; repeat split. Qed.

Lemma mflag_member_flags p x ch : p noflags = false -> mflag p x ch = p (member_flags x ch).
Proof. intro H. unfold mflag, member_flags. destruct (idict_get x (sc_members ch)); [reflexivity|symmetry; exact H]. Qed.

(* a NAMES item about a member changes nothing in a record that already agrees with the server *)
Lemma rel_names_item ch bc x nick : chan_rel ch bc -> is_member x ch = true -> feq nick x = true ->
  chan_rel ch (add_fl (member_flags x ch) nick bc).
Proof.
  intros [A B C D E0 F G H] Hm Hf. destruct (add_fl_rest (member_flags x ch) nick bc) as [R1 [R2 [R3 R4]]].
  assert (Hfl : forall p y, p noflags = false -> (p (member_flags x ch) && feq y nick) || mflag p y ch = mflag p y ch).
  { intros p y Hp. destruct (feq y nick) eqn:E; [|rewrite andb_false_r; reflexivity].
    assert (Eyx : feq y x = true) by (rewrite <- (feq_trans_r nick x y Hf); exact E).
    rewrite (Agree.mflag_feq p y x ch Eyx), (mflag_member_flags p x ch Hp). destruct (p (member_flags x ch)); reflexivity. }
  constructor.
  - intro y. rewrite add_fl_users, A. destruct (feq y nick) eqn:E; [|reflexivity]. cbn.
    assert (Eyx : feq y x = true) by (rewrite <- (feq_trans_r nick x y Hf); exact E).
    rewrite (is_member_feq y x ch Eyx). symmetry. exact Hm.
  - intro y. rewrite add_fl_ops, B. apply Hfl. reflexivity.
  - intro y. rewrite add_fl_halfops, C. apply Hfl. reflexivity.
  - intro y. rewrite add_fl_voices, D. apply Hfl. reflexivity.
  - intro y. rewrite R1. apply E0.
  - rewrite R2. exact F.
  - intro f. rewrite R3. apply G.
  - rewrite R4. exact H.
Qed.

(* the bot updates its record of c only, to something that still agrees with the unchanged server *)
Lemma bot_upd_same s b c ch G : Inv s b -> idict_get c (s_chans s) = Some ch ->
  (forall bc, chan_rel ch bc -> chan_rel ch (G bc)) -> Inv s (chan_upd c G b).
Proof.
  intros [W N C R H] Hc HG. constructor; try assumption.
  - intro c'. cbn [chan_upd set_chans b_chans]. rewrite chans_update_has. apply C.
  - intros c' ch' bc' Hg Hb. cbn [chan_upd set_chans b_chans] in Hb. rewrite chans_update_get in Hb.
    destruct (feq c' c) eqn:E; [|apply (R c' ch' bc' Hg Hb)].
    destruct (idict_get c' (b_chans b)) as [bc|] eqn:Eb; [|discriminate]. cbn in Hb. inversion Hb; subst bc'.
    rewrite (idict_get_feq c' c _ E), Hc in Hg. inversion Hg; subst ch'. apply HG.
    apply (R c' ch bc); [rewrite (idict_get_feq c' c _ E); exact Hc|exact Eb].
Qed.

Lemma chan_upd_ext c f g b : (forall x, f x = g x) -> chan_upd c f b = chan_upd c g b.
Proof. intro H. unfold chan_upd. f_equal. apply chans_update_ext. exact H. Qed.

(* one NAMES item, as the bot reads it *)
Lemma item_plain c fl x rest b : nice_nick x ->
  names_loop c ((sigils true fl ++ x) :: rest) b = names_loop c rest (chan_upd c (add_fl fl x) b).
Proof.
  intro Hn. cbn [names_loop]. rewrite nobang_not_hostmask by (rewrite mem_app, sigils_bang; apply (nn_bang _ Hn)).
  rewrite (chan_upd_ext c (addUser (sigils true fl ++ x)) (add_fl fl x)); [reflexivity|].
  intro bc. apply addUser_sigils. exact Hn.
Qed.
Lemma item_uh c fl u rest b : good_user u ->
  names_loop c ((sigils true fl ++ hostmask u) :: rest) b =
  names_loop c rest (chan_upd c (add_fl fl (su_nick u)) (n2h_set (su_nick u) (hostmask u) b)).
Proof.
  intros [G1 [G2 G3]]. pose proof (valid_nick_nice _ G1) as Hn. apply valid_uh_nice in G2. apply valid_uh_nice in G3.
  destruct G2, G3.
  assert (Hj : sigils true fl ++ hostmask u = joinHostmask (sigils true fl ++ su_nick u) (su_user u) (su_host u)).
  { unfold hostmask, joinHostmask. rewrite <- app_assoc. reflexivity. }
  cbn [names_loop]. rewrite Hj.
  rewrite isUserHostmask_join; try assumption.
  - rewrite splitHostmask_join by assumption.
    change gen.T10.SIGILS_353 with gen.T10.SIGILS. rewrite (lstrip_sigils fl _ Hn).
    destruct (su_nick u) as [|x r] eqn:En; [exfalso; apply (nn_ne _ Hn); reflexivity|]. rewrite <- En in *.
    rewrite (chan_upd_ext c (addUser (sigils true fl ++ su_nick u)) (add_fl fl (su_nick u))); [reflexivity|].
    intro bc. apply addUser_sigils. exact Hn.
  - intro E. apply app_eq_nil in E as [_ E]. apply (nn_ne _ Hn). exact E.
  - rewrite existsb_app, sigils_ws. apply (nn_ws _ Hn).
Qed.

Lemma item_tok s ch uh' x : nice_nick x ->
  (forall u, idict_get x (s_users s) = Some u -> good_user u) -> tok (names_item s ch true uh' x).
Proof.
  intros Hn Hu. unfold names_item, tok.
  assert (Hbody : forall body, body <> [] -> existsb ws body = false ->
            sigils true (member_flags x ch) ++ body <> [] /\ existsb ws (sigils true (member_flags x ch) ++ body) = false).
  { intros body H1 H2. split; [intro E; apply app_eq_nil in E as [_ E]; contradiction|]. rewrite existsb_app, sigils_ws. exact H2. }
  destruct uh'; [|apply Hbody; [apply (nn_ne _ Hn)|apply (nn_ws _ Hn)]].
  destruct (idict_get x (s_users s)) as [u|] eqn:E; [|apply Hbody; [apply (nn_ne _ Hn)|apply (nn_ws _ Hn)]].
  destruct (Hu u eq_refl) as [G1 [G2 G3]]. apply valid_nick_nice in G1. apply valid_uh_nice in G2. apply valid_uh_nice in G3.
  apply Hbody.
  - unfold hostmask, joinHostmask. intro E2. apply app_eq_nil in E2 as [E2 _]. apply (nn_ne _ G1). exact E2.
  - unfold hostmask, joinHostmask. rewrite !existsb_app. cbn [existsb]. rewrite (nn_ws _ G1), (nu_ws _ G2), (nu_ws _ G3). reflexivity.
Qed.

Section Steps8.
Variables (nick0 prefix0 : str) (uh : bool).
Notation fa := (feed_all nick0 prefix0).

(* NAMES about a channel whose record already agrees: every item is a no-op up to what the relation sees *)
Lemma names_refresh s c ch uh' : idict_get c (s_chans s) = Some ch ->
  forall keys, (forall x, In x keys -> valid_nick x = true /\ is_member x ch = true) ->
  forall b, Inv s b ->
  exists bF, names_loop c (map (names_item s ch true uh') keys) b = (bF, true) /\ Inv s bF.
Proof.
  intros Hc. induction keys as [|x keys IH]; intros Hk b I; [exists b; split; [reflexivity|exact I]|].
  destruct (Hk x (or_introl eq_refl)) as [Hv Hm]. pose proof (valid_nick_nice x Hv) as Hn.
  assert (Hk' : forall y, In y keys -> valid_nick y = true /\ is_member y ch = true) by (intros y Hy; apply Hk; right; exact Hy).
  pose proof (inv_wf s b I) as W.
  cbn [map]. unfold names_item at 1. destruct uh'.
  - pose proof (wf_members s W c ch x Hc Hm) as Hh. unfold idict_has in Hh.
    destruct (idict_get x (s_users s)) as [u|] eqn:Eu; [|discriminate].
    destruct (wf_users s W x u Eu) as [Hxu Hgu].
    rewrite (item_uh c _ u _ b Hgu). apply IH; [exact Hk'|].
    destruct (Inv_actor s b x u I Eu) as [I1 _].
    apply (bot_upd_same s _ c ch _ I1 Hc). intros bc Rr. apply rel_names_item; [exact Rr|exact Hm|rewrite feq_sym; exact Hxu].
  - rewrite (item_plain c _ x _ b Hn). apply IH; [exact Hk'|].
    apply (bot_upd_same s b c ch _ I Hc). intros bc Rr. apply rel_names_item; [exact Rr|exact Hm|apply feq_refl].
Qed.

Lemma step_names s b c uh' : Inv s b -> skeys s ->
  let '(s', ms) := step nick0 true uh s (ANames c true uh') in Inv s' (fa b ms).
Proof.
  intros I K. cbn [step]. destruct (idict_get c (s_chans s)) as [ch|] eqn:Ec; [|exact I].
  destruct (is_member (s_me s) ch) eqn:Eme; [|exact I].
  pose proof (inv_wf s b I) as W. destruct (K c ch Ec) as [Kk _].
  assert (Hkeys : forall x, In x (map fst (sc_members ch)) -> valid_nick x = true /\ is_member x ch = true).
  { intros x Hx. split; [apply Kk; exact Hx|apply key_has; exact Hx]. }
  unfold feed_all. cbn [fold_left]. rewrite !(for_cmd nick0 prefix0) by reflexivity.
  unfold msg_names.
  set (ty := if has_mode ch 115 then [ATC] else if has_mode ch 112 then STAR else EQS).
  set (items := map (names_item s ch true uh') (map fst (sc_members ch))).
  rewrite (feed_numeric str_353 _ b st_do353 (Inv_valid_nick s b I)); try reflexivity; try exact addMsg_353;
    [|intros _; exists [ty; c; join [32] items]; rewrite (inv_nick s b I); reflexivity].
  unfold st_do353. cbn [m_args].
  assert (Hh : idict_has c (b_chans b) = true) by (rewrite (inv_chans s b I); unfold mych; rewrite Ec; exact Eme).
  rewrite Hh.
  assert (Htok : Forall tok items).
  { unfold items. apply Forall_forall. intros it Hit. apply in_map_iff in Hit as [x [E Hx]]. subst it.
    apply item_tok; [apply valid_nick_nice; apply Kk; exact Hx|]. intros u Hu. apply (wf_users s W x u Hu). }
  rewrite (split_ws_join items Htok).
  destruct (names_refresh s c ch uh' Ec _ Hkeys b I) as [b2 [Hl I2]]. fold items in Hl. rewrite Hl. cbn [andb].
  assert (I3 : Inv s (if seq_eqb ty [ATC] then chan_upd c (fun c0 => set_modes c0 (cdict_set S_ MNone (c_modes c0))) b2 else b2)).
  { unfold ty, has_mode. destruct (assoc 115 (sc_modes ch)) as [v|] eqn:Es.
    - change (seq_eqb [ATC] [ATC]) with true. cbv iota.
      apply (bot_upd_same s b2 c ch _ I2 Ec). intros bc [A B C D E0 F G H]. constructor; try assumption.
      intro f. cbn [c_modes set_modes]. rewrite cdict_get_set, G. destruct (N.eqb f S_) eqn:Ef; [|reflexivity].
      apply N.eqb_eq in Ef. subst f. change S_ with 115. rewrite Es.
      pose proof (wf_modes s W c ch 115 v Ec Es) as Hl0. unfold letter_ok in Hl0.
      apply andb_true_iff in Hl0 as [Hl0 _]. apply andb_true_iff in Hl0 as [_ Hl0].
      change (takes_arg PLUS 115) with false in Hl0. destruct v; [discriminate|reflexivity].
    - destruct (assoc 112 (sc_modes ch)); exact I2. }
  set (b3 := if seq_eqb ty [ATC] then _ else b2) in *. unfold msg_endnames.
  rewrite (feed_numeric str_366 _ b3 (fun m b => b) (Inv_valid_nick s b3 I3)); try reflexivity; try exact addMsg_366;
    [exact I3|intros _; eexists; rewrite (inv_nick s b3 I3); reflexivity].
Qed.
End Steps8.
