(* C10/Bot.v — executable model of the state tracking in src/irclib.py:
   ChannelState (addUser/replaceUser/removeUser/doMode), IrcState.addMsg and its
   do* handlers, Irc.feedMsg's nick/prefix tracking and Irc.doNick/reset,
   ircutils.separateModes / isUserHostmask / splitHostmask, IrcSet / IrcDict.
   Mirrors the Python statement by statement, defects included.  Handlers are
   "state-then-raise": where Python raises (the exception is swallowed by
   log.firewall / the try in feedMsg) the model returns the state reached so far.
   No proofs in this file.  The reference server lives in C10/Spec.v. *)
From Coq Require Import List NArith ZArith Bool.
Import ListNotations.
Require Import Base.Wire Base.PyStr.
Require C03.Model.
Require gen.T03 gen.T10.
Open Scope N_scope.

Definition BANG : N := 33.  Definition ATC : N := 64.   Definition COMMA : N := 44.
Definition PLUS : N := 43.  Definition MINUS : N := 45. Definition USCORE : N := 95.

(* ---- IRC case folding (ircutils.toLower, rfc1459 table regenerated in T03) ---- *)
Definition fold : str -> str := C03.Model.fold.
Definition feq (a b : str) : bool := seq_eqb (fold a) (fold b).     (* ircutils.strEqual *)

(* ---- IrcSet: a Python set of IrcString (hash/eq on the lowered form).  add of
   an equal element keeps the old spelling; discard removes it. ---- *)
Definition iset := list str.
Definition iset_mem (x : str) (s : iset) : bool := existsb (feq x) s.
Definition iset_add (x : str) (s : iset) : iset := if iset_mem x s then s else s ++ [x].
Definition iset_discard (x : str) (s : iset) : iset := filter (fun y => negb (feq x y)) s.

(* ---- IrcDict: data[toLower k] = (k, v); a write replaces the spelling ---- *)
Fixpoint idict_get {A} (k : str) (d : list (str * A)) : option A :=
  match d with
  | [] => None
  | (k', v) :: d' => if feq k k' then Some v else idict_get k d'
  end.
Fixpoint idict_set {A} (k : str) (v : A) (d : list (str * A)) : list (str * A) :=
  match d with
  | [] => [(k, v)]
  | (k', v') :: d' => if feq k k' then (k, v) :: d' else (k', v') :: idict_set k v d'
  end.
Definition idict_del {A} (k : str) (d : list (str * A)) : list (str * A) :=
  filter (fun kv => negb (feq k (fst kv))) d.
Definition idict_has {A} (k : str) (d : list (str * A)) : bool :=
  match idict_get k d with Some _ => true | None => false end.

(* ---- int(arg) / str(int) as used by separateModes and IrcString(int) ---- *)
Inductive mval := MNone | MStr (s : str) | MInt (z : Z).

Definition is_digit (c : N) : bool := (48 <=? c) && (c <=? 57).
Fixpoint parse_digits (s : str) (acc : N) (prev_digit : bool) : option N :=
  match s with
  | [] => if prev_digit then Some acc else None
  | c :: s' =>
      if is_digit c then parse_digits s' (acc * 10 + (c - 48)) true
      else if N.eqb c USCORE then (if prev_digit then parse_digits s' acc false else None)
      else None
  end.
(* int(s) for ASCII input: whitespace stripped, optional sign, digits with single '_' *)
Definition py_int (s : str) : option Z :=
  match strip gen.T03.WHITESPACE s with
  | c :: r =>
      if N.eqb c PLUS then option_map Z.of_N (parse_digits r 0 false)
      else if N.eqb c MINUS then option_map (fun n => Z.opp (Z.of_N n)) (parse_digits r 0 false)
      else option_map Z.of_N (parse_digits (c :: r) 0 false)
  | [] => None
  end.
Fixpoint dec_digits (fuel : nat) (n : N) (acc : str) : str :=
  match fuel with
  | O => acc
  | S f => let acc' := (48 + N.modulo n 10) :: acc in
           if N.ltb n 10 then acc' else dec_digits f (N.div n 10) acc'
  end.
Definition py_str_Z (z : Z) : str :=
  match z with
  | Z0 => [48]
  | Zpos p => dec_digits (S (N.size_nat (Npos p))) (Npos p) []
  | Zneg p => MINUS :: dec_digits (S (N.size_nat (Npos p))) (Npos p) []
  end.
Definition coerce (a : str) : mval := match py_int a with Some z => MInt z | None => MStr a end.
Definition NONE_STR : str := [78; 111; 110; 101].
(* IrcString(value): str(value) *)
Definition mval_str (v : mval) : str :=
  match v with MNone => NONE_STR | MStr s => s | MInt z => py_str_Z z end.

(* ---- ircutils.separateModes ---- *)
Fixpoint sepmodes (modes : str) (last : N) (args : list str) : list (N * N * mval) :=
  match modes with
  | [] => []
  | c :: m' =>
      if N.eqb c PLUS || N.eqb c MINUS then sepmodes m' c args
      else
        let req := if N.eqb last PLUS then gen.T10.PLUS_REQ else gen.T10.MINUS_REQ in
        if mem c req then
          match args with
          | [] => sepmodes m' last []                      (* "MODE #c +b": continue *)
          | a :: args' => (last, c, coerce a) :: sepmodes m' last args'
          end
        else (last, c, MNone) :: sepmodes m' last args
  end.
Definition separateModes (args : list str) : list (N * N * mval) :=
  match args with [] => [] | m :: rest => sepmodes m PLUS rest end.

(* ---- ircutils.isUserHostmask: ^\S+!\S+@\S+$ ; splitHostmask: rest, host = rsplit('@',1); nick, user = rest.rsplit('!',1) ---- *)
Definition ws (c : N) : bool := mem c gen.T03.WHITESPACE.
(* an '@' with at least one char before and one after *)
Fixpoint at_mid (s : str) : bool :=
  match s with
  | _ :: s' => match s' with c :: (_ :: _) => N.eqb c ATC || at_mid s' | _ => false end
  | [] => false
  end.
(* a '!' at index >= 1 followed by something matching \S+@\S+ *)
Fixpoint bang_then (s : str) : bool :=
  match s with
  | _ :: s' => match s' with c :: r => (N.eqb c BANG && at_mid r) || bang_then s' | [] => false end
  | [] => false
  end.
Definition isUserHostmask (s : str) : bool := negb (existsb ws s) && bang_then s.

(* s.rsplit([c], 1) when c occurs *)
Definition rsplit1 (c : N) (s : str) : option (str * str) :=
  match split1 [c] (rev s) with
  | Some (b, a) => Some (rev a, rev b)
  | None => None
  end.
Definition splitHostmask (s : str) : option (str * str * str) :=
  match rsplit1 ATC s with
  | Some (rest, host) =>
      match rsplit1 BANG rest with
      | Some (nick, user) => Some (nick, user, host)
      | None => None                                        (* ValueError: unpack (unreachable, C05) *)
      end
  | None => None
  end.
Definition joinHostmask (n u h : str) : str := n ++ [BANG] ++ u ++ [ATC] ++ h.

(* ---- messages ---- *)
Record msg := Msg { m_prefix : str; m_command : str; m_args : list str }.
(* IrcMsg.nick/user/host *)
Definition msg_nuh (m : msg) : str * str * str :=
  let p := m_prefix m in
  if isUserHostmask p then
    match splitHostmask p with Some t => t | None => (p, p, p) (* unreachable: C05_split_hostmask_total *) end
  else (p, p, p).
Definition msg_nick (m : msg) : str := fst (fst (msg_nuh m)).
Definition msg_user (m : msg) : str := snd (fst (msg_nuh m)).
Definition msg_host (m : msg) : str := snd (msg_nuh m).

(* ---- ChannelState ---- *)
Record chan := Chan { c_users : iset; c_ops : iset; c_halfops : iset; c_voices : iset; c_bans : iset;
                      c_topic : str; c_modes : list (N * mval); c_created : Z }.
Definition chan0 : chan := Chan [] [] [] [] [] [] [] 0%Z.

Definition set_users c x := Chan x (c_ops c) (c_halfops c) (c_voices c) (c_bans c) (c_topic c) (c_modes c) (c_created c).
Definition set_ops c x := Chan (c_users c) x (c_halfops c) (c_voices c) (c_bans c) (c_topic c) (c_modes c) (c_created c).
Definition set_halfops c x := Chan (c_users c) (c_ops c) x (c_voices c) (c_bans c) (c_topic c) (c_modes c) (c_created c).
Definition set_voices c x := Chan (c_users c) (c_ops c) (c_halfops c) x (c_bans c) (c_topic c) (c_modes c) (c_created c).
Definition set_bans c x := Chan (c_users c) (c_ops c) (c_halfops c) (c_voices c) x (c_topic c) (c_modes c) (c_created c).
Definition set_topic c x := Chan (c_users c) (c_ops c) (c_halfops c) (c_voices c) (c_bans c) x (c_modes c) (c_created c).
Definition set_modes c x := Chan (c_users c) (c_ops c) (c_halfops c) (c_voices c) (c_bans c) (c_topic c) x (c_created c).
Definition set_created c x := Chan (c_users c) (c_ops c) (c_halfops c) (c_voices c) (c_bans c) (c_topic c) (c_modes c) x.

(* addUser: the while loop over the leading markers *)
Fixpoint add_markers (nick : str) (user : str) (c : chan) : chan :=
  match user with
  | mk :: user' =>
      if mem mk gen.T10.SIGILS then
        let c' := if mem mk gen.T10.SIGILS_OP then set_ops c (iset_add nick (c_ops c))
                  else if N.eqb mk gen.T10.SIGIL_HALFOP then set_halfops c (iset_add nick (c_halfops c))
                  else if N.eqb mk gen.T10.SIGIL_VOICE then set_voices c (iset_add nick (c_voices c))
                  else c in
        add_markers nick user' c'
      else c
  | [] => c
  end.
Definition addUser (user : str) (c : chan) : chan :=
  let nick := lstrip gen.T10.SIGILS user in
  match nick with
  | [] => c
  | _ => let c' := add_markers nick user c in set_users c' (iset_add nick (c_users c'))
  end.

Definition repl (o n : str) (s : iset) : iset :=
  if iset_mem o s then iset_add n (iset_discard o s) else s.
Definition replaceUser (o n : str) (c : chan) : chan :=
  set_voices (set_halfops (set_ops (set_users c (repl o n (c_users c))) (repl o n (c_ops c)))
                          (repl o n (c_halfops c))) (repl o n (c_voices c)).
Definition removeUser (u : str) (c : chan) : chan :=
  set_voices (set_halfops (set_ops (set_users c (iset_discard u (c_users c))) (iset_discard u (c_ops c)))
                          (iset_discard u (c_halfops c))) (iset_discard u (c_voices c)).

(* plain dict keyed by one character *)
Fixpoint cdict_set (k : N) (v : mval) (d : list (N * mval)) : list (N * mval) :=
  match d with
  | [] => [(k, v)]
  | (k', v') :: d' => if N.eqb k k' then (k', v) :: d' else (k', v') :: cdict_set k v d'
  end.
Definition cdict_del (k : N) (d : list (N * mval)) : list (N * mval) :=
  filter (fun kv => negb (N.eqb k (fst kv))) d.

Definition O_ : N := 111. Definition V_ : N := 118. Definition H_ : N := 104. Definition B_ : N := 98.
Definition S_ : N := 115.

(* ChannelState.doMode: one (mode, value) pair *)
Definition chan_mode1 (c : chan) (mv : N * N * mval) : chan :=
  let '(action, ch, value) := mv in
  if mem ch gen.T10.SETMODES then
    let upd := fun s => if N.eqb action MINUS then iset_discard (mval_str value) s
                        else if N.eqb action PLUS then iset_add (mval_str value) s else s in
    if N.eqb ch O_ then set_ops c (upd (c_ops c))
    else if N.eqb ch V_ then set_voices c (upd (c_voices c))
    else if N.eqb ch H_ then set_halfops c (upd (c_halfops c))
    else if N.eqb ch B_ then set_bans c (upd (c_bans c))
    else c
  else if N.eqb action PLUS then set_modes c (cdict_set ch value (c_modes c))
  else set_modes c (cdict_del ch (c_modes c)).
Definition chan_doMode (c : chan) (args : list str) : chan :=
  fold_left chan_mode1 (separateModes args) c.

(* do324 loop; stops (AssertionError in setMode/unsetMode) on a letter of SETMODES not in MODES324 *)
Fixpoint chan_324 (c : chan) (l : list (N * N * mval)) : chan :=
  match l with
  | [] => c
  | (action, ch, value) :: l' =>
      if mem ch gen.T10.MODES324 then chan_324 c l'
      else if mem ch gen.T10.SETMODES then c
      else if N.eqb action PLUS then chan_324 (set_modes c (cdict_set ch value (c_modes c))) l'
      else chan_324 (set_modes c (cdict_del ch (c_modes c))) l'
  end.

(* ---- the bot: Irc.nick, Irc.prefix, IrcState.channels, IrcState.nicksToHostmasks ---- *)
Record bot := Bot { b_nick : str; b_prefix : str; b_chans : list (str * chan); b_n2h : list (str * str) }.
Definition set_nick b x := Bot x (b_prefix b) (b_chans b) (b_n2h b).
Definition set_prefix b x := Bot (b_nick b) x (b_chans b) (b_n2h b).
Definition set_chans b x := Bot (b_nick b) (b_prefix b) x (b_n2h b).
Definition set_n2h b x := Bot (b_nick b) (b_prefix b) (b_chans b) x.
Definition n2h_set (k v : str) (b : bot) : bot := set_n2h b (idict_set k v (b_n2h b)).
Definition chan_set (k : str) (c : chan) (b : bot) : bot := set_chans b (idict_set k c (b_chans b)).
(* try: chan = channels[k] except KeyError: chan = ChannelState(); channels[k] = chan *)
Definition chan_get_or_new (k : str) (b : bot) : chan :=
  match idict_get k (b_chans b) with Some c => c | None => chan0 end.
(* update a channel object in place (the dict keeps its key spelling) *)
Fixpoint chans_update (k : str) (f : chan -> chan) (d : list (str * chan)) : list (str * chan) :=
  match d with
  | [] => []
  | (k', c) :: d' => if feq k k' then (k', f c) :: d' else (k', c) :: chans_update k f d'
  end.
Definition chan_upd (k : str) (f : chan -> chan) (b : bot) : bot :=
  set_chans b (chans_update k f (b_chans b)).
(* get-or-create then mutate in place *)
Definition chan_upd_or_new (k : str) (f : chan -> chan) (b : bot) : bot :=
  if idict_has k (b_chans b) then chan_upd k f b else chan_set k (f chan0) b.

(* try: chan = channels[k] except KeyError: return   (replies about a channel the bot has left are ignored) *)
Definition chan_upd_known (k : str) (f : chan -> chan) (b : bot) : bot :=
  if idict_has k (b_chans b) then chan_upd k f b else b.

(* str.split() on whitespace runs *)
Fixpoint split_ws_go (s : str) (cur : str) : list str :=
  match s with
  | [] => match cur with [] => [] | _ => [rev cur] end
  | c :: s' => if ws c then match cur with [] => split_ws_go s' [] | _ => rev cur :: split_ws_go s' [] end
               else split_ws_go s' (c :: cur)
  end.
Definition split_ws (s : str) : list str := split_ws_go s [].

(* do353 item loop; stops where splitHostmask would raise *)
Fixpoint names_loop (ch : str) (items : list str) (b : bot) : bot * bool :=
  match items with
  | [] => (b, true)
  | item :: rest =>
      if isUserHostmask item then
        match splitHostmask item with
        | Some (name, user, host) =>
            (* userhost-in-names: the real hostmask is stored under the bare nick *)
            let nick := lstrip gen.T10.SIGILS_353 name in
            let b' := match nick with
                      | [] => b
                      | _ => n2h_set nick (joinHostmask nick user host) b
                      end in
            names_loop ch rest (chan_upd ch (addUser name) b')
        | None => (b, false)
        end
      else names_loop ch rest (chan_upd ch (addUser item) b)
  end.

Definition str_JOIN : str := [74; 79; 73; 78].     Definition str_PART : str := [80; 65; 82; 84].
Definition str_KICK : str := [75; 73; 67; 75].     Definition str_QUIT : str := [81; 85; 73; 84].
Definition str_NICK : str := [78; 73; 67; 75].     Definition str_MODE : str := [77; 79; 68; 69].
Definition str_TOPIC : str := [84; 79; 80; 73; 67]. Definition str_CHGHOST : str := [67; 72; 71; 72; 79; 83; 84].
Definition str_353 : str := [51; 53; 51]. Definition str_352 : str := [51; 53; 50]. Definition str_354 : str := [51; 53; 52].
Definition str_324 : str := [51; 50; 52]. Definition str_329 : str := [51; 50; 57]. Definition str_332 : str := [51; 51; 50].
Definition str_367 : str := [51; 54; 55]. Definition str_1 : str := [49].

(* command.upper() for ASCII *)
Definition upper (s : str) : str := map (fun c => if (97 <=? c) && (c <=? 122) then c - 32 else c) s.

Definition nth_s (n : nat) (l : list str) : option str := nth_error l n.

(* ---- IrcState handlers ---- *)
Definition st_do352 (m : msg) (b : bot) : bot :=
  match nth_s 5 (m_args m), nth_s 2 (m_args m), nth_s 3 (m_args m) with
  | Some nick, Some user, Some host => n2h_set nick (joinHostmask nick user host) b
  | _, _, _ => b
  end.
Definition st_do354 (m : msg) (b : bot) : bot :=
  match m_args m with
  | [_; t; user; _; host; nick; _; _; _] =>
      if seq_eqb t str_1 then n2h_set nick (joinHostmask nick user host) b else b
  | _ => b
  end.
Definition st_do353 (m : msg) (b : bot) : bot :=
  match m_args m with
  | [_; ty; ch; items] =>
      if idict_has ch (b_chans b) then
        let '(b2, ok) := names_loop ch (split_ws items) b in
        if ok && seq_eqb ty [ATC]
        then chan_upd ch (fun c => set_modes c (cdict_set S_ MNone (c_modes c))) b2 else b2
      else b          (* a channel the bot is not (or no longer) on: the reply is ignored *)
  | _ => b
  end.
Definition st_doChghost (m : msg) (b : bot) : bot :=
  match m_args m with
  | [user; host] => let nick := msg_nick m in n2h_set nick (joinHostmask nick user host) b
  | _ => b
  end.
Definition st_doJoin (m : msg) (b : bot) : bot :=
  match m_args m with
  | [] => b
  | a0 :: _ =>
      fold_left (fun b ch =>
                   if idict_has ch (b_chans b) then chan_upd ch (addUser (msg_nick m)) b
                   else match msg_nick m with
                        | [] => b
                        | _ => chan_set ch (addUser (msg_nick m) chan0) b
                        end)
                (split_char COMMA a0) b
  end.
Definition st_do367 (m : msg) (b : bot) : bot :=
  match nth_s 1 (m_args m) with
  | None => b
  | Some ch =>
      if idict_has ch (b_chans b) then
        match nth_s 2 (m_args m) with
        | Some mask => chan_upd ch (fun c => set_bans c (iset_add mask (c_bans c))) b
        | None => b
        end
      else b
  end.
Definition st_doMode (m : msg) (b : bot) : bot :=
  match m_args m with
  | [] => b
  | ch :: rest =>
      if C03.Model.isChannel ch then chan_upd_or_new ch (fun c => chan_doMode c rest) b else b
  end.
Definition st_do324 (m : msg) (b : bot) : bot :=
  match m_args m with
  | _ :: ch :: rest => chan_upd_known ch (fun c => chan_324 c (separateModes rest)) b
  | _ => b
  end.
Definition st_do329 (m : msg) (b : bot) : bot :=
  match m_args m with
  | _ :: ch :: rest =>
      chan_upd_known ch (fun c => match rest with
                                   | a :: _ => match py_int a with Some z => set_created c z | None => c end
                                   | [] => c
                                   end) b
  | _ => b
  end.
Definition st_doPart (m : msg) (b : bot) : bot :=
  match m_args m with
  | [] => b
  | a0 :: _ =>
      fold_left (fun b ch =>
                   if idict_has ch (b_chans b) then
                     if feq (msg_nick m) (b_nick b) then set_chans b (idict_del ch (b_chans b))
                     else chan_upd ch (removeUser (msg_nick m)) b
                   else b)
                (split_char COMMA a0) b
  end.
Fixpoint kick_loop (ch : str) (users : list str) (b : bot) : bot :=
  match users with
  | [] => b
  | u :: rest =>
      if feq u (b_nick b) then set_chans b (idict_del ch (b_chans b))
      else kick_loop ch rest (chan_upd ch (removeUser u) b)
  end.
Definition st_doKick (m : msg) (b : bot) : bot :=
  match m_args m with
  | ch :: users :: _ =>
      if idict_has ch (b_chans b) then kick_loop ch (split_char COMMA users) b else b
  | _ => b
  end.
Definition st_doQuit (m : msg) (b : bot) : bot :=
  let n := msg_nick m in
  let b1 := set_chans b (map (fun kc => (fst kc, if iset_mem n (c_users (snd kc)) then removeUser n (snd kc)
                                                   else snd kc)) (b_chans b)) in
  if idict_has n (b_n2h b1) then set_n2h b1 (idict_del n (b_n2h b1)) else b1.
Definition st_doTopic (m : msg) (b : bot) : bot :=
  match m_args m with
  | ch :: t :: _ => chan_upd ch (fun c => set_topic c t) b
  | _ => b
  end.
Definition st_do332 (m : msg) (b : bot) : bot :=
  match m_args m with
  | _ :: ch :: t :: _ => chan_upd ch (fun c => set_topic c t) b
  | _ => b
  end.
Definition st_doNick (m : msg) (b : bot) : bot :=
  match m_args m with
  | [] => b
  | newNick :: _ =>
      let oldNick := msg_nick m in
      let b1 := set_n2h b (idict_del oldNick (b_n2h b)) in          (* del first; KeyError: pass *)
      let step2 :=
        if nonempty (msg_user m) && nonempty (msg_host m) then
          match newNick with
          | [] => None                                   (* joinHostmask: AssertionError *)
          | _ => Some (n2h_set newNick (joinHostmask newNick (msg_user m) (msg_host m)) b1)
          end
        else Some b1 in
      match step2 with
      | None => b1
      | Some b2 =>
          set_chans b2 (map (fun kc => (fst kc, replaceUser oldNick newNick (snd kc))) (b_chans b2))
      end
  end.

Definition addMsg (m : msg) (b : bot) : bot :=
  let b1 := if isUserHostmask (m_prefix m) && negb (seq_eqb (m_command m) str_NICK)
            then n2h_set (msg_nick m) (m_prefix m) b else b in
  let c := upper (m_command m) in
  if seq_eqb c str_JOIN then st_doJoin m b1 else if seq_eqb c str_PART then st_doPart m b1
  else if seq_eqb c str_KICK then st_doKick m b1 else if seq_eqb c str_QUIT then st_doQuit m b1
  else if seq_eqb c str_NICK then st_doNick m b1 else if seq_eqb c str_MODE then st_doMode m b1
  else if seq_eqb c str_TOPIC then st_doTopic m b1 else if seq_eqb c str_CHGHOST then st_doChghost m b1
  else if seq_eqb c str_353 then st_do353 m b1 else if seq_eqb c str_352 then st_do352 m b1
  else if seq_eqb c str_354 then st_do354 m b1 else if seq_eqb c str_324 then st_do324 m b1
  else if seq_eqb c str_329 then st_do329 m b1 else if seq_eqb c str_332 then st_do332 m b1
  else if seq_eqb c str_367 then st_do367 m b1 else b1.

(* ---- Irc.feedMsg: nick/prefix tracking, Irc.doNick / Irc.doJoin, then state.addMsg.
   None = an exception escaped before addMsg (feedMsg is firewalled): state so far. ---- *)
Definition irc_pre (m : msg) (b : bot) : bot * option msg :=
  let m := if seq_eqb (m_prefix m) (b_nick b) then Msg (b_prefix b) (m_command m) (m_args m) else m in
  let b := if seq_eqb (msg_nick m) (b_nick b) && negb (seq_eqb (b_prefix b) (m_prefix m))
           then set_prefix b (m_prefix m) else b in
  let r1 : bot * bool :=
    if existsb (seq_eqb (m_command m)) gen.T10.NICKSETTERS then
      match m_args m with
      | [] => (b, false)
      | a0 :: _ => (if seq_eqb a0 (b_nick b) then b else set_nick b a0, true)
      end
    else (b, true) in
  let '(b, ok) := r1 in
  if negb ok then (b, None) else
  let c := upper (m_command m) in
  if seq_eqb c str_NICK then
    if seq_eqb (msg_nick m) (b_nick b) then
      match m_args m with
      | [] => (b, None)
      | newNick :: _ =>
          let b' := set_nick b newNick in
          if isUserHostmask (m_prefix m) then
            match newNick, msg_user m, msg_host m with
            | _ :: _, _ :: _, _ :: _ => (set_prefix b' (joinHostmask newNick (msg_user m) (msg_host m)), Some m)
            | _, _, _ => (b', None)
            end
          else (b', None)
      end
    else (b, Some m)
  else if seq_eqb c str_JOIN then
    if seq_eqb (msg_nick m) (b_nick b) then
      match m_args m with [] => (b, None) | _ => (b, Some m) end
    else (b, Some m)
  else (b, Some m).

Definition feed (b : bot) (m : msg) : bot :=
  match irc_pre m b with
  | (b', Some m') => addMsg m' b'
  | (b', None) => b'
  end.

(* Irc.reset(): nick/prefix back to the configured ones, state.reset() *)
Definition reset (nick0 prefix0 : str) : bot := Bot nick0 prefix0 [] [].
