(* C10/Step9.v — the burst the bot receives when it joins ANY channel (populated or not): 332, the 353 item loop,
   366, the 324 letter loop, 329, the 367 ban loop, the 352 loop; then the bot's own JOIN with any target list. *)
From Coq Require Import List NArith ZArith Bool Lia.
Import ListNotations.
Require Import Base.Wire Base.PyStr C10.Model C10.Lemmas C10.Handlers C10.SrvLemmas C10.Feed C10.Inv C10.Frame C10.Sim C10.Step C10.Step2 C10.StepMode C10.Step3 C10.Step6 C10.Keys C10.Step8.
Open Scope N_scope.

Lemma existsb_ext_in {A} (f g : A -> bool) l : (forall x, In x l -> f x = g x) -> existsb f l = existsb g l.
Proof.
  induction l as [|a l IH]; intro H; [reflexivity|]. cbn [existsb]. rewrite (H a (or_introl eq_refl)), IH; [reflexivity|].
  intros x Hx. apply H. right. exact Hx.
Qed.
Lemma has_existsb {A} y (d : list (str * A)) : idict_has y d = existsb (feq y) (map fst d).
Proof.
  unfold idict_has. induction d as [|[k v] d IH]; [reflexivity|]. cbn [idict_get map fst existsb].
  destruct (feq y k); [reflexivity|exact IH].
Qed.
Lemma member_flags_feq a b ch : feq a b = true -> member_flags a ch = member_flags b ch.
Proof. intro H. unfold member_flags. rewrite (idict_get_feq a b _ H). reflexivity. Qed.
(* the flag question answered by scanning the key list *)
Lemma mflag_scan (p : flags -> bool) y ch : p noflags = false ->
  mflag p y ch = existsb (fun k => p (member_flags k ch) && feq y k) (map fst (sc_members ch)).
Proof.
  intro Hp. rewrite (mflag_member_flags p y ch Hp).
  destruct (existsb (fun k => p (member_flags k ch) && feq y k) (map fst (sc_members ch))) eqn:E.
  - apply existsb_exists in E as [k [_ Hk]]. apply andb_true_iff in Hk as [H1 H2].
    rewrite (member_flags_feq y k ch H2). exact H1.
  - destruct (p (member_flags y ch)) eqn:Ep; [|reflexivity]. exfalso.
    assert (Hm : is_member y ch = true).
    { unfold is_member, idict_has. unfold member_flags in Ep. destruct (idict_get y (sc_members ch)); [reflexivity|congruence]. }
    destruct (has_key _ y Hm) as [k [Hk Hf]].
    assert (existsb (fun k => p (member_flags k ch) && feq y k) (map fst (sc_members ch)) = true).
    { apply existsb_exists. exists k. split; [exact Hk|]. rewrite <- (member_flags_feq y k ch Hf), Ep, Hf. reflexivity. }
    congruence.
Qed.

Section Burst.
Variables (sv : srv) (c : str) (ch : schan) (uh : bool).
(* the nick the bot reads out of the item of key k *)
Definition knick (k : str) : str :=
  if uh then match idict_get k (s_users sv) with Some u => su_nick u | None => k end else k.
Definition item_step (b : bot) (k : str) : bot :=
  chan_upd c (add_fl (member_flags k ch) (knick k))
    (if uh then match idict_get k (s_users sv) with Some u => n2h_set (su_nick u) (hostmask u) b | None => b end else b).
Definition key_ok (k : str) : Prop :=
  valid_nick k = true /\ exists u, idict_get k (s_users sv) = Some u /\ feq k (su_nick u) = true /\ good_user u.

Lemma names_any : forall keys b, (forall k, In k keys -> key_ok k) ->
  names_loop c (map (names_item sv ch true uh) keys) b = (fold_left item_step keys b, true).
Proof.
  induction keys as [|k keys IH]; intros b Hk; [reflexivity|].
  destruct (Hk k (or_introl eq_refl)) as [Hv [u [Eu [Hf Hg]]]].
  cbn [map fold_left]. unfold names_item at 1, item_step at 2, knick. destruct uh.
  - rewrite Eu. rewrite (item_uh c _ u _ b Hg). apply IH. intros k2 H2. apply Hk. right. exact H2.
  - rewrite (item_plain c _ k _ b (valid_nick_nice k Hv)). apply IH. intros k2 H2. apply Hk. right. exact H2.
Qed.
Lemma knick_feq k : key_ok k -> feq (knick k) k = true /\ nice_nick (knick k).
Proof.
  intros [Hv [u [Eu [Hf [Gn _]]]]]. unfold knick. destruct uh.
  - rewrite Eu. split; [rewrite feq_sym; exact Hf|apply valid_nick_nice; exact Gn].
  - split; [apply feq_refl|apply valid_nick_nice; exact Hv].
Qed.

(* effect of the item loop on the bot's tables *)
Definition gfold (keys : list str) (bc : chan) : chan :=
  fold_left (fun bc k => add_fl (member_flags k ch) (knick k) bc) keys bc.
Definition truthy (b0 b : bot) : Prop :=
  forall x, idict_get x (b_n2h b) = idict_get x (b_n2h b0)
            \/ exists ux, idict_get x (s_users sv) = Some ux /\ idict_get x (b_n2h b) = Some (hostmask ux).
Lemma truthy_refl b : truthy b b. Proof. intro x. left. reflexivity. Qed.
Lemma truthy_set b0 b k u : truthy b0 b -> idict_get k (s_users sv) = Some u -> feq k (su_nick u) = true ->
  truthy b0 (n2h_set (su_nick u) (hostmask u) b).
Proof.
  intros T Eu Hf x. cbn [n2h_set set_n2h b_n2h]. rewrite idict_get_set. destruct (feq x (su_nick u)) eqn:E; [|apply T].
  right. exists u. split; [|reflexivity]. rewrite <- Eu. apply idict_get_feq. rewrite (feq_trans_r k (su_nick u) x Hf). exact E.
Qed.
Lemma truthy_chans b0 b G : truthy b0 b -> truthy b0 (chan_upd c G b).
Proof. intros T x. apply T. Qed.

Lemma items_effect : forall keys b b0, (forall k, In k keys -> key_ok k) -> truthy b0 b ->
  b_nick (fold_left item_step keys b) = b_nick b
  /\ (forall c', idict_get c' (b_chans (fold_left item_step keys b)) =
                 if feq c' c then option_map (gfold keys) (idict_get c' (b_chans b)) else idict_get c' (b_chans b))
  /\ truthy b0 (fold_left item_step keys b).
Proof.
  induction keys as [|k keys IH]; intros b b0 Hk T.
  - cbn. repeat split; [|exact T]. intro c'. destruct (feq c' c); [destruct (idict_get c' (b_chans b))|]; reflexivity.
  - destruct (Hk k (or_introl eq_refl)) as [Hv [u [Eu [Hf Hg]]]].
    cbn [fold_left gfold].
    assert (T1 : truthy b0 (item_step b k)).
    { unfold item_step. apply truthy_chans. destruct uh; [|exact T]. rewrite Eu. apply (truthy_set b0 b k u T Eu Hf). }
    destruct (IH (item_step b k) b0) as [A [B C]]; [intros k2 H2; apply Hk; right; exact H2|exact T1|].
    split; [rewrite A; unfold item_step; destruct uh; [rewrite Eu|]; reflexivity|split; [|exact C]].
    intro c'. rewrite B.
    assert (Hget : idict_get c' (b_chans (item_step b k)) =
                   if feq c' c then option_map (add_fl (member_flags k ch) (knick k)) (idict_get c' (b_chans b)) else idict_get c' (b_chans b)).
    { unfold item_step. cbn [chan_upd set_chans b_chans]. rewrite chans_update_get.
      destruct uh; [rewrite Eu|]; reflexivity. }
    rewrite Hget. destruct (feq c' c); [|reflexivity]. destruct (idict_get c' (b_chans b)); reflexivity.
Qed.

(* membership questions after the item loop *)
Lemma gfold_users : forall keys bc y, iset_mem y (c_users (gfold keys bc)) = existsb (fun k => feq y (knick k)) keys || iset_mem y (c_users bc).
Proof.
  induction keys as [|k keys IH]; intros bc y; [reflexivity|]. cbn [gfold fold_left existsb].
  change (fold_left (fun bc0 k0 => add_fl (member_flags k0 ch) (knick k0) bc0) keys (add_fl (member_flags k ch) (knick k) bc))
    with (gfold keys (add_fl (member_flags k ch) (knick k) bc)).
  rewrite IH, add_fl_users. destruct (feq y (knick k)); destruct (existsb (fun k0 => feq y (knick k0)) keys); reflexivity.
Qed.
Lemma gfold_flag (pr : flags -> bool) (sel : chan -> iset) :
  (forall fl nick bc y, iset_mem y (sel (add_fl fl nick bc)) = (pr fl && feq y nick) || iset_mem y (sel bc)) ->
  forall keys bc y, iset_mem y (sel (gfold keys bc)) =
    existsb (fun k => pr (member_flags k ch) && feq y (knick k)) keys || iset_mem y (sel bc).
Proof.
  intro H. induction keys as [|k keys IH]; intros bc y; [reflexivity|]. cbn [gfold fold_left existsb].
  change (fold_left (fun bc0 k0 => add_fl (member_flags k0 ch) (knick k0) bc0) keys (add_fl (member_flags k ch) (knick k) bc))
    with (gfold keys (add_fl (member_flags k ch) (knick k) bc)).
  rewrite IH, H. destruct (pr (member_flags k ch) && feq y (knick k));
    destruct (existsb (fun k0 => pr (member_flags k0 ch) && feq y (knick k0)) keys); reflexivity.
Qed.
Lemma gfold_rest : forall keys bc, c_bans (gfold keys bc) = c_bans bc /\ c_topic (gfold keys bc) = c_topic bc
  /\ c_modes (gfold keys bc) = c_modes bc /\ c_created (gfold keys bc) = c_created bc.
Proof.
  induction keys as [|k keys IH]; intro bc; [repeat split|]. cbn [gfold fold_left].
  change (fold_left (fun bc0 k0 => add_fl (member_flags k0 ch) (knick k0) bc0) keys (add_fl (member_flags k ch) (knick k) bc))
    with (gfold keys (add_fl (member_flags k ch) (knick k) bc)).
  destruct (IH (add_fl (member_flags k ch) (knick k) bc)) as [A [B [C D]]].
  destruct (add_fl_rest (member_flags k ch) (knick k) bc) as [A' [B' [C' D']]].
  rewrite A, B, C, D, A', B', C', D'. repeat split.
Qed.
End Burst.

(* ---- the letter loop of 324 ---- *)
Definition plus_chgs (ch : schan) : list chg := map (fun f => (true, f, mode_value ch f)) (map fst (sc_modes ch)).
Lemma sep_modes_args ch : forallb chg_shape (plus_chgs ch) = true ->
  separateModes (modes_args ch) = map conv_chg (plus_chgs ch).
Proof.
  intro Hs. unfold modes_args, plus_chgs in *. destruct (map fst (sc_modes ch)) as [|f r] eqn:E; [reflexivity|].
  assert (H1 : PLUS :: f :: r = mode_string (map (fun f0 => (true, f0, mode_value ch f0)) (f :: r)) None).
  { cbn [map mode_string app]. f_equal. f_equal. clear. induction r as [|f2 r IH]; [reflexivity|].
    cbn [map mode_string app Bool.eqb]. f_equal. exact IH. }
  assert (H2 : flat_map (fun f0 => match mode_value ch f0 with Some a => [a] | None => [] end) (f :: r)
               = mode_params (map (fun f0 => (true, f0, mode_value ch f0)) (f :: r))).
  { unfold mode_params. generalize (f :: r). intro l. induction l as [|g l IH]; [reflexivity|]. cbn [map flat_map snd]. rewrite IH. reflexivity. }
  rewrite H1, H2. unfold separateModes. apply (sepmodes_mode_string _ None PLUS Hs Logic.I).
Qed.
Lemma mode_value_key ch f : In f (map fst (sc_modes ch)) -> assoc f (sc_modes ch) = Some (mode_value ch f).
Proof. intro H. destruct (Agree.assoc_key f _ H) as [v Hv]. unfold mode_value. rewrite Hv. reflexivity. Qed.
Definition set_letters (ch : schan) (letters : list N) (m : list (N * mval)) : list (N * mval) :=
  fold_left (fun m f => cdict_set f (conv (mode_value ch f)) m) letters m.
Lemma set_letters_get ch : forall letters m f, cdict_get f (set_letters ch letters m) =
  if mem f letters then Some (conv (mode_value ch f)) else cdict_get f m.
Proof.
  induction letters as [|g r IH]; intros m f; [reflexivity|]. cbn [set_letters fold_left mem existsb].
  change (fold_left (fun m0 f0 => cdict_set f0 (conv (mode_value ch f0)) m0) r (cdict_set g (conv (mode_value ch g)) m))
    with (set_letters ch r (cdict_set g (conv (mode_value ch g)) m)).
  rewrite IH. fold (mem f r). destruct (mem f r); [rewrite orb_true_r; reflexivity|]. rewrite orb_false_r.
  rewrite cdict_get_set. destruct (N.eqb f g) eqn:E; [apply N.eqb_eq in E; subst; reflexivity|reflexivity].
Qed.
Lemma modes324_sub : forallb (fun f => mem f gen.T10.SETMODES) gen.T10.MODES324 = true.
Proof. vm_compute. reflexivity. Qed.
Lemma not_setmode_not_324 f : mem f gen.T10.SETMODES = false -> mem f gen.T10.MODES324 = false.
Proof.
  intro H. destruct (mem f gen.T10.MODES324) eqn:E; [|reflexivity]. apply mem_In in E.
  pose proof modes324_sub as S. rewrite forallb_forall in S. rewrite (S f E) in H. discriminate.
Qed.
Lemma chan_324_letters ch : forall letters R, (forall f, In f letters -> mem f gen.T10.SETMODES = false) ->
  chan_324 R (map conv_chg (map (fun f => (true, f, mode_value ch f)) letters)) = set_modes R (set_letters ch letters (c_modes R)).
Proof.
  induction letters as [|f r IH]; intros R H; [destruct R; reflexivity|].
  cbn [map conv_chg chan_324 sign]. rewrite (not_setmode_not_324 f (H f (or_introl eq_refl))), (H f (or_introl eq_refl)).
  change (N.eqb PLUS PLUS) with true. cbv iota. rewrite IH by (intros g Hg; apply H; right; exact Hg). reflexivity.
Qed.

Section Rest.
Variables (nick0 prefix0 : str) (uh : bool).
Notation fa := (feed_all nick0 prefix0).
Variables (sv : srv) (c : str) (ch : schan) (u : suser) (me : str).
Hypothesis Hsm : s_me sv = me.
Hypothesis Hu : idict_get me (s_users sv) = Some u.
Hypothesis He : su_nick u = me.
Hypothesis Hvme : valid_nick me = true.
Hypothesis Hkeys : forall k, In k (map fst (sc_members ch)) -> key_ok sv k.
Hypothesis Hmodes : modes_wf ch.
Hypothesis Hcreated : sc_created ch = CREATED.

Definition cur (b1 b : bot) (R : chan) : Prop :=
  b_nick b = b_nick b1
  /\ (forall c', idict_get c' (b_chans b) = if feq c' c then Some R else idict_get c' (b_chans b1))
  /\ truthy sv b1 b.
Lemma cur_upd b1 b R G : cur b1 b R -> cur b1 (chan_upd c G b) (G R).
Proof.
  intros [A [B T]]. split; [exact A|split; [|apply truthy_chans; exact T]]. intro c'. cbn [chan_upd set_chans b_chans].
  rewrite chans_update_get, B. destruct (feq c' c); reflexivity.
Qed.
Lemma cur_has b1 b R : cur b1 b R -> idict_has c (b_chans b) = true.
Proof. intros [_ [B _]]. unfold idict_has. rewrite B, feq_refl. reflexivity. Qed.
Lemma cur_valid b1 b R : b_nick b1 = me -> cur b1 b R -> valid_nick (b_nick b) = true /\ b_nick b = me.
Proof. intros H [A _]. rewrite A, H. auto. Qed.

(* 367 loop *)
Lemma bans_loop b1 : b_nick b1 = me -> forall bans b R, cur b1 b R ->
  cur b1 (fa b (map (fun x => Msg SERVER str_367 [s_me sv; c; x; SERVER; [49]]) bans))
      (set_bans R (fold_left (fun B x => iset_add x B) bans (c_bans R))).
Proof.
  intro Hn1. induction bans as [|x r IH]; intros b R C; [destruct R; exact C|].
  cbn [map]. unfold feed_all. cbn [fold_left]. rewrite (for_cmd nick0 prefix0) by reflexivity. fold (feed_all nick0 prefix0).
  destruct (cur_valid b1 b R Hn1 C) as [Hv Hb].
  rewrite (feed_numeric str_367 _ b st_do367 Hv); try reflexivity; try exact addMsg_367; [|intros; discriminate].
  unfold st_do367. cbn [m_args nth_s nth_error]. rewrite (cur_has b1 b R C).
  pose proof (IH _ _ (cur_upd b1 b R (fun c0 => set_bans c0 (iset_add x (c_bans c0))) C)) as P.
  destruct R. exact P.
Qed.
Lemma fold_add_mem : forall bans B y, iset_mem y (fold_left (fun B x => iset_add x B) bans B) = existsb (feq y) bans || iset_mem y B.
Proof.
  induction bans as [|x r IH]; intros B y; [reflexivity|]. cbn [fold_left existsb]. rewrite IH, iset_mem_add.
  destruct (feq y x); destruct (existsb (feq y) r); reflexivity.
Qed.

(* 352 loop *)
Definition who_msgs (keys : list str) : list msg :=
  flat_map (fun x => match idict_get x (s_users sv) with
                     | Some u0 => [Msg SERVER str_352 [s_me sv; c; su_user u0; su_host u0; SERVER; su_nick u0; [72]; [48; 32; 114]]]
                     | None => [] end) keys.
Lemma who_any b1 : b_nick b1 = me -> forall keys b R, (forall k, In k keys -> key_ok sv k) -> cur b1 b R ->
  cur b1 (fa b (who_msgs keys)) R
  /\ forall x ux, idict_get x (s_users sv) = Some ux ->
       (existsb (feq x) keys = true \/ idict_get x (b_n2h b) = Some (hostmask ux)) ->
       idict_get x (b_n2h (fa b (who_msgs keys))) = Some (hostmask ux).
Proof.
  intro Hn1. induction keys as [|k r IH]; intros b R Hk C.
  - split; [exact C|]. intros x ux Hx [H|H]; [discriminate|exact H].
  - destruct (Hk k (or_introl eq_refl)) as [Hv [u0 [Eu [Hf Hg]]]].
    unfold who_msgs. cbn [flat_map]. rewrite Eu. fold (who_msgs r). cbn [app].
    unfold feed_all. cbn [fold_left]. rewrite (for_cmd nick0 prefix0) by reflexivity. fold (feed_all nick0 prefix0).
    destruct (cur_valid b1 b R Hn1 C) as [Hvb Hb].
    rewrite (feed_numeric str_352 _ b st_do352 Hvb); try reflexivity; try exact addMsg_352; [|intros; discriminate].
    unfold st_do352. cbn [m_args nth_s nth_error]. change (joinHostmask (su_nick u0) (su_user u0) (su_host u0)) with (hostmask u0).
    set (b' := n2h_set (su_nick u0) (hostmask u0) b).
    assert (C' : cur b1 b' R).
    { destruct C as [A [B T]]. split; [exact A|split; [exact B|apply (truthy_set sv b1 b k u0 T Eu Hf)]]. }
    destruct (IH b' R (fun k2 H2 => Hk k2 (or_intror H2)) C') as [C2 P]. split; [exact C2|].
    intros x ux Hx Hor. apply (P x ux Hx). cbn [existsb] in Hor.
    unfold b'. cbn [n2h_set set_n2h b_n2h]. rewrite idict_get_set.
    destruct (feq x k) eqn:Exk.
    + right. rewrite (idict_get_feq x k _ Exk), Eu in Hx. inversion Hx; subst ux.
      rewrite <- (feq_trans_r k (su_nick u0) x Hf), Exk. reflexivity.
    + destruct Hor as [H|H]; [left; exact H|right].
      destruct (feq x (su_nick u0)) eqn:E2; [|exact H].
      rewrite <- (feq_trans_r k (su_nick u0) x Hf), Exk in E2. discriminate.
Qed.

Lemma letter_facts f : In f (map fst (sc_modes ch)) ->
  letter_ok f (mode_value ch f) = true /\ mem f gen.T10.SETMODES = false.
Proof.
  intro H. pose proof (Hmodes f _ (mode_value_key ch f H)) as L. split; [exact L|].
  unfold letter_ok in L. repeat (apply andb_true_iff in L as [L ?]). apply negb_true_iff. assumption.
Qed.
Lemma plus_shape : forallb chg_shape (plus_chgs ch) = true.
Proof.
  unfold plus_chgs. apply forallb_forall. intros g Hg. apply in_map_iff in Hg as [f [E Hf]]. subst g.
  destruct (letter_facts f Hf) as [L _]. unfold letter_ok in L. repeat (apply andb_true_iff in L as [L ?]).
  unfold chg_shape. cbn [sign]. apply andb_true_iff. split; assumption.
Qed.

(* the whole burst after the JOIN, for any channel the bot has just entered *)
Lemma rest_any b1 b : b_nick b1 = me -> is_member me ch = true ->
  cur b1 b (addUser me chan0) ->
  exists R, cur b1 (fa b (burst_rest sv u c ch true uh)) R /\ chan_rel ch R
    /\ forall x ux, idict_get x (s_users sv) = Some ux -> is_member x ch = true ->
          idict_get x (b_n2h (fa b (burst_rest sv u c ch true uh))) = Some (hostmask ux).
Proof.
  intros Hn1 Hmem C0. pose proof (valid_nick_nice me Hvme) as Hnn.
  rewrite (addUser_plain me chan0 Hnn) in C0.
  set (R0 := set_users chan0 (iset_add me (c_users chan0))) in *.
  unfold burst_rest. rewrite !(fa_app nick0 prefix0).
  (* topic *)
  set (R1 := match sc_topic ch with [] => R0 | t => set_topic R0 t end).
  assert (C1 : cur b1 (fa b (match sc_topic ch with [] => [] | t => [Msg SERVER str_332 [s_me sv; c; t]] end)) R1).
  { unfold R1. destruct (sc_topic ch) as [|t0 tr]; [exact C0|].
    rewrite (fa_one nick0 prefix0) by reflexivity. destruct (cur_valid b1 b R0 Hn1 C0) as [Hv Hb].
    rewrite (feed_numeric str_332 _ b st_do332 Hv); try reflexivity; try exact addMsg_332;
      [|intros _; eexists; rewrite Hsm, Hb; reflexivity].
    unfold st_do332. cbn [m_args]. apply (cur_upd b1 b R0 (fun c0 => set_topic c0 (t0 :: tr)) C0). }
  set (bA := fa b _) in *.
  (* names *)
  set (keys := map fst (sc_members ch)).
  set (R2 := gfold sv ch uh keys R1).
  set (R3 := if has_mode ch 115 then set_modes R2 (cdict_set S_ MNone (c_modes R2)) else R2).
  assert (C3 : cur b1 (fa bA [msg_names sv c ch true uh; msg_endnames sv c]) R3).
  { unfold feed_all. cbn [fold_left]. rewrite !(for_cmd nick0 prefix0) by reflexivity.
    destruct (cur_valid b1 bA R1 Hn1 C1) as [Hv Hb]. unfold msg_names. fold keys.
    set (ty := if has_mode ch 115 then [ATC] else if has_mode ch 112 then STAR else EQS).
    set (items := map (names_item sv ch true uh) keys).
    rewrite (feed_numeric str_353 _ bA st_do353 Hv); try reflexivity; try exact addMsg_353;
      [|intros _; exists [ty; c; join [32] items]; rewrite Hsm, Hb; reflexivity].
    unfold st_do353. cbn [m_args]. rewrite (cur_has b1 bA R1 C1).
    assert (Htok : Forall tok items).
    { unfold items. apply Forall_forall. intros it Hit. apply in_map_iff in Hit as [x [E Hx]]. subst it.
      destruct (Hkeys x Hx) as [Hvx [u0 [Eu [_ Hg]]]]. apply item_tok; [apply valid_nick_nice; exact Hvx|].
      intros u1 Hu1. rewrite Eu in Hu1. inversion Hu1; subst. exact Hg. }
    rewrite (split_ws_join items Htok). unfold items. rewrite (names_any sv c ch uh keys bA Hkeys). cbn [andb].
    destruct C1 as [A1 [B1 T1]].
    destruct (items_effect sv c ch uh keys bA b1 Hkeys T1) as [A2 [B2 T2]].
    set (bN := fold_left (item_step sv c ch uh) keys bA) in *.
    assert (CN : cur b1 bN R2).
    { split; [rewrite A2; exact A1|split; [|exact T2]]. intro c'. rewrite B2, B1. destruct (feq c' c); reflexivity. }
    assert (C3' : cur b1 (if seq_eqb ty [ATC] then chan_upd c (fun c0 => set_modes c0 (cdict_set S_ MNone (c_modes c0))) bN else bN) R3).
    { unfold ty, R3, has_mode. destruct (assoc 115 (sc_modes ch)).
      - change (seq_eqb [ATC] [ATC]) with true. cbv iota.
        apply (cur_upd b1 bN R2 (fun c0 => set_modes c0 (cdict_set S_ MNone (c_modes c0))) CN).
      - destruct (assoc 112 (sc_modes ch)); exact CN. }
    set (b3 := if seq_eqb ty [ATC] then _ else bN) in *. unfold msg_endnames.
    destruct (cur_valid b1 b3 R3 Hn1 C3') as [Hv3 Hb3].
    rewrite (feed_numeric str_366 _ b3 (fun m b => b) Hv3); try reflexivity; try exact addMsg_366;
      [exact C3'|intros _; eexists; rewrite Hsm, Hb3; reflexivity]. }
  set (bB := fa bA _) in *.
  (* 324, 329 *)
  set (letters := map fst (sc_modes ch)).
  set (R4 := set_modes R3 (set_letters ch letters (c_modes R3))).
  set (R5 := set_created R4 1000%Z).
  assert (C5 : cur b1 (fa bB [Msg SERVER str_324 (s_me sv :: c :: modes_args ch);
                              Msg SERVER str_329 [s_me sv; c; py_str_Z (Z.of_N (sc_created ch))]]) R5).
  { unfold feed_all. cbn [fold_left]. rewrite !(for_cmd nick0 prefix0) by reflexivity.
    destruct (cur_valid b1 bB R3 Hn1 C3) as [Hv Hb].
    rewrite (feed_numeric str_324 _ bB st_do324 Hv); try reflexivity; try exact addMsg_324; [|intros; discriminate].
    unfold st_do324 at 1. cbn [m_args]. rewrite chan_upd_known_has by (apply (cur_has b1 bB R3 C3)).
    rewrite (sep_modes_args ch plus_shape).
    pose proof (cur_upd b1 bB R3 (fun c0 => chan_324 c0 (map conv_chg (plus_chgs ch))) C3) as C4.
    cbv beta in C4. unfold plus_chgs in C4 at 2. fold letters in C4.
    rewrite (chan_324_letters ch letters R3) in C4 by (intros f Hf; apply (letter_facts f Hf)).
    fold R4 in C4. set (b4 := chan_upd c _ bB) in *.
    destruct (cur_valid b1 b4 R4 Hn1 C4) as [Hv4 Hb4].
    rewrite (feed_numeric str_329 _ b4 st_do329 Hv4); try reflexivity; try exact addMsg_329; [|intros; discriminate].
    unfold st_do329 at 1. cbn [m_args]. rewrite chan_upd_known_has by (apply (cur_has b1 b4 R4 C4)).
    rewrite Hcreated, (created_rt). apply (cur_upd b1 b4 R4 (fun c0 => set_created c0 1000%Z) C4). }
  set (bC := fa bB _) in *.
  (* bans, who *)
  pose proof (bans_loop b1 Hn1 (sc_bans ch) bC R5 C5) as C6.
  set (R6 := set_bans R5 _) in *. set (bD := fa bC _) in *.
  destruct (who_any b1 Hn1 keys bD R6 Hkeys C6) as [C7 Pw].
  exists R6. split; [exact C7|split].
  - (* the record agrees with the server *)
    assert (Hk1 : forall y k, In k keys -> feq y (knick sv uh k) = feq y k).
    { intros y k Hk. destruct (knick_feq sv uh k (Hkeys k Hk)) as [Hf _]. apply feq_trans_r. exact Hf. }
    assert (Hex : forall (q : str -> bool) y, existsb (fun k => q k && feq y (knick sv uh k)) keys = existsb (fun k => q k && feq y k) keys).
    { intros q y. apply existsb_ext_in. intros k Hk. rewrite (Hk1 y k Hk). reflexivity. }
    destruct (gfold_rest sv ch uh keys R1) as [G1 [G2 [G3 G4]]].
    assert (HR3 : c_users R3 = c_users R2 /\ c_ops R3 = c_ops R2 /\ c_halfops R3 = c_halfops R2 /\ c_voices R3 = c_voices R2).
    { unfold R3. destruct (has_mode ch 115); repeat split. }
    destruct HR3 as [HRu [HRo [HRh HRv]]].
    constructor.
    + intro y. change (c_users R6) with (c_users R3). rewrite HRu. unfold R2. rewrite gfold_users.
      assert (E1 : existsb (fun k => feq y (knick sv uh k)) keys = is_member y ch).
      { unfold is_member. rewrite has_existsb. fold keys. apply existsb_ext_in. intros k Hk. apply Hk1. exact Hk. }
      rewrite E1. assert (E2 : iset_mem y (c_users R1) = feq y me).
      { unfold R1. destruct (sc_topic ch); cbn; rewrite orb_false_r; reflexivity. }
      rewrite E2. destruct (feq y me) eqn:Ey; [|apply orb_false_r]. rewrite (is_member_feq y me ch Ey), Hmem. reflexivity.
    + intro y. change (c_ops R6) with (c_ops R3). rewrite HRo. unfold R2. rewrite (gfold_flag sv ch uh f_o c_ops (add_fl_ops)).
      rewrite (Hex (fun k => f_o (member_flags k ch)) y). unfold keys. rewrite <- (mflag_scan f_o y ch eq_refl).
      assert (E2 : iset_mem y (c_ops R1) = false) by (unfold R1; destruct (sc_topic ch); reflexivity). rewrite E2. apply orb_false_r.
    + intro y. change (c_halfops R6) with (c_halfops R3). rewrite HRh. unfold R2. rewrite (gfold_flag sv ch uh f_h c_halfops (add_fl_halfops)).
      rewrite (Hex (fun k => f_h (member_flags k ch)) y). unfold keys. rewrite <- (mflag_scan f_h y ch eq_refl).
      assert (E2 : iset_mem y (c_halfops R1) = false) by (unfold R1; destruct (sc_topic ch); reflexivity). rewrite E2. apply orb_false_r.
    + intro y. change (c_voices R6) with (c_voices R3). rewrite HRv. unfold R2. rewrite (gfold_flag sv ch uh f_v c_voices (add_fl_voices)).
      rewrite (Hex (fun k => f_v (member_flags k ch)) y). unfold keys. rewrite <- (mflag_scan f_v y ch eq_refl).
      assert (E2 : iset_mem y (c_voices R1) = false) by (unfold R1; destruct (sc_topic ch); reflexivity). rewrite E2. apply orb_false_r.
    + intro y. unfold R6. cbn [c_bans set_bans]. rewrite fold_add_mem.
      assert (E2 : c_bans R5 = []).
      { change (c_bans R5) with (c_bans R3). unfold R3. destruct (has_mode ch 115); cbn [c_bans set_modes]; unfold R2; rewrite G1; unfold R1; destruct (sc_topic ch); reflexivity. }
      rewrite E2. cbn. apply orb_false_r.
    + change (c_topic R6) with (c_topic R3).
      assert (E3 : c_topic R3 = c_topic R2) by (unfold R3; destruct (has_mode ch 115); reflexivity).
      rewrite E3. unfold R2. rewrite G2. unfold R1. destruct (sc_topic ch); reflexivity.
    + intro f. change (c_modes R6) with (set_letters ch letters (c_modes R3)). rewrite set_letters_get.
      destruct (mem f letters) eqn:Ef.
      * apply mem_In in Ef. rewrite (mode_value_key ch f Ef). reflexivity.
      * assert (Ea : assoc f (sc_modes ch) = None).
        { destruct (assoc f (sc_modes ch)) eqn:Ea; [|reflexivity]. apply Agree.assoc_some_key in Ea. apply mem_In in Ea. unfold letters in Ef. congruence. }
        rewrite Ea. cbn [option_map].
        assert (Em2 : c_modes R2 = []) by (unfold R2; rewrite G3; unfold R1; destruct (sc_topic ch); reflexivity).
        unfold R3, has_mode. destruct (assoc 115 (sc_modes ch)) eqn:E115.
        -- cbn [c_modes set_modes]. rewrite Em2. cbn [cdict_set cdict_get].
           destruct (N.eqb f S_) eqn:Efs; [|reflexivity]. apply N.eqb_eq in Efs. subst f. change S_ with 115 in Ea. congruence.
        -- rewrite Em2. reflexivity.
    + change (c_created R6) with 1000%Z. rewrite Hcreated. reflexivity.
  - intros x ux Hx Hm. apply (Pw x ux Hx). left. unfold is_member in Hm. rewrite has_existsb in Hm. exact Hm.
Qed.
End Rest.
