(* C10/Spec.v — the reference IRC server (the specification side).  Executable,
   no proofs.  The server keeps the truth in fold-keyed tables (nick -> user
   record, channel -> members with o/h/v flags, topic, modes, ban list,
   creation time); every question about it is a LOOKUP under IRC case rules.
   [step] applies one action and returns the messages a conformant server
   sends to ONE observer (the bot, [s_me]).  Actions the server would refuse
   (unknown user, nick in use, not on channel, ...) change nothing and emit
   nothing, so every action list is a conformant history.  [view_*] is what
   the bot is entitled to know.  A channel whose member table is empty is dead:
   the next JOIN recreates it. *)
From Coq Require Import List NArith ZArith Bool.
Import ListNotations.
Require Import Base.Wire Base.PyStr C10.Bot.
Open Scope N_scope.

Record suser := SUser { su_nick : str; su_user : str; su_host : str }.
Record flags := Flags { f_o : bool; f_h : bool; f_v : bool }.
Record schan := SChan { sc_members : list (str * flags); sc_topic : str;
                        sc_modes : list (N * option str); sc_bans : iset; sc_created : N }.
Record srv := Srv { s_me : str; s_users : list (str * suser); s_chans : list (str * schan) }.

Inductive action :=
| AConnect (n u h : str)
| AJoin (n : str) (chans : list str)
| APart (n : str) (chans : list str)
| AKick (k c : str) (victims : list str)
| AQuit (n : str)
| ANick (n new : str)
| AMode (k c : str) (changes : list (bool * N * option str))
| ATopic (k c t : str)
| AChghost (n u h : str)
| ANames (c : str) (multiprefix uhnames : bool)
| AWho (c : str)
| AReset
| AIsupport (channellen : N)
| ALate (c : str).                (* replies to the bot's NAMES / MODE / MODE +b / WHO about a channel it is NOT on
                                     (it has parted or been kicked meanwhile, or never was there) *)      (* the server announces ISUPPORT CHANNELLEN=n (numeric 005) *)

Definition SERVER : str := [105; 114; 99; 46; 115; 114; 118].     (* "irc.srv": a server name has a dot, a nick never *)
Definition RESET : str := [82; 69; 83; 69; 84].                    (* pseudo-message: the driver reconnects *)
Definition str_366 : str := [51; 54; 54].
Definition str_005 : str := [48; 48; 53].
Definition CHANNELLEN_EQ : str := [67; 72; 65; 78; 78; 69; 76; 76; 69; 78; 61].   (* "CHANNELLEN=" *)
Definition EQS : str := [61].  Definition STAR : str := [42].
Definition CREATED : N := 1000.

(* ---- fold-keyed tables: update in place (key spelling kept), map over values ---- *)
Fixpoint idict_upd {A} (k : str) (f : A -> A) (d : list (str * A)) : list (str * A) :=
  match d with
  | [] => []
  | (k', v) :: d' => if feq k k' then (k', f v) :: d' else (k', v) :: idict_upd k f d'
  end.
Definition vmap {A} (f : A -> A) (d : list (str * A)) : list (str * A) :=
  map (fun kv => (fst kv, f (snd kv))) d.
(* channel modes: letter -> optional parameter *)
Fixpoint assoc (f : N) (m : list (N * option str)) : option (option str) :=
  match m with [] => None | (k, v) :: r => if N.eqb f k then Some v else assoc f r end.
Definition assoc_del (f : N) (m : list (N * option str)) : list (N * option str) :=
  filter (fun kv => negb (N.eqb f (fst kv))) m.
Definition assoc_set (f : N) (v : option str) (m : list (N * option str)) : list (N * option str) :=
  assoc_del f m ++ [(f, v)].

(* ---- questions ---- *)
Definition noflags : flags := Flags false false false.
Definition is_member (n : str) (ch : schan) : bool := idict_has n (sc_members ch).
Definition mflag (p : flags -> bool) (n : str) (ch : schan) : bool :=
  match idict_get n (sc_members ch) with Some f => p f | None => false end.
Definition hostmask (u : suser) : str := joinHostmask (su_nick u) (su_user u) (su_host u).
(* is the observer on channel c? *)
Definition mych (s : srv) (c : str) : bool :=
  match idict_get c (s_chans s) with Some ch => is_member (s_me s) ch | None => false end.
Definition vis_in (s : srv) (n c : str) : bool :=
  match idict_get c (s_chans s) with Some ch => is_member (s_me s) ch && is_member n ch | None => false end.
(* does the observer share a channel with n? *)
Definition visible (s : srv) (n : str) : bool := existsb (fun kc => vis_in s n (fst kc)) (s_chans s).

Definition set_members ch ms := SChan ms (sc_topic ch) (sc_modes ch) (sc_bans ch) (sc_created ch).
Definition set_topic_s ch t := SChan (sc_members ch) t (sc_modes ch) (sc_bans ch) (sc_created ch).
Definition set_modes_s ch m := SChan (sc_members ch) (sc_topic ch) m (sc_bans ch) (sc_created ch).
Definition set_bans_s ch b := SChan (sc_members ch) (sc_topic ch) (sc_modes ch) b (sc_created ch).
Definition add_member (n : str) (ch : schan) : schan := set_members ch (idict_set n noflags (sc_members ch)).
Definition del_member (n : str) (ch : schan) : schan := set_members ch (idict_del n (sc_members ch)).
Definition ren_member (o n : str) (ch : schan) : schan :=
  match idict_get o (sc_members ch) with
  | Some f => set_members ch (idict_set n f (idict_del o (sc_members ch)))
  | None => ch
  end.
Definition upd_flags (g : flags -> flags) (n : str) (ch : schan) : schan :=
  set_members ch (idict_upd n g (sc_members ch)).
Definition set_chans_s s cs := Srv (s_me s) (s_users s) cs.
Definition fresh_chan (n : str) : schan := SChan [(n, Flags true false false)] [] [] [] CREATED.

(* ---- NAMES / WHO / burst: every item is computed by lookup ---- *)
Definition sigils (multiprefix : bool) (f : flags) : str :=
  let l := (if f_o f then [64] else []) ++ (if f_h f then [37] else []) ++ (if f_v f then [43] else []) in
  if multiprefix then l else firstn 1 l.
Definition member_flags (x : str) (ch : schan) : flags :=
  match idict_get x (sc_members ch) with Some f => f | None => noflags end.
Definition names_item (s : srv) (ch : schan) (mp uh : bool) (x : str) : str :=
  sigils mp (member_flags x ch)
  ++ (if uh then match idict_get x (s_users s) with Some u => hostmask u | None => x end else x).
Definition has_mode (ch : schan) (f : N) : bool := match assoc f (sc_modes ch) with Some _ => true | None => false end.
Definition msg_names (s : srv) (c : str) (ch : schan) (mp uh : bool) : msg :=
  Msg SERVER str_353 [s_me s; (if has_mode ch 115 then [ATC] else if has_mode ch 112 then STAR else EQS);
                      c; join [32] (map (names_item s ch mp uh) (map fst (sc_members ch)))].
Definition msg_endnames (s : srv) (c : str) : msg := Msg SERVER str_366 [s_me s; c; [101; 110; 100]].
Definition msgs_who (s : srv) (c : str) (ch : schan) : list msg :=
  flat_map (fun x => match idict_get x (s_users s) with
                     | Some u => [Msg SERVER str_352 [s_me s; c; su_user u; su_host u; SERVER;
                                                      su_nick u; [72]; [48; 32; 114]]]
                     | None => [] end) (map fst (sc_members ch)).
Definition mode_value (ch : schan) (f : N) : option str :=
  match assoc f (sc_modes ch) with Some v => v | None => None end.
Definition modes_args (ch : schan) : list str :=
  let letters := map fst (sc_modes ch) in
  (PLUS :: letters) :: flat_map (fun f => match mode_value ch f with Some a => [a] | None => [] end) letters.
(* what the bot receives when it joins: JOIN, topic, NAMES, then the replies to
   the MODE / MODE +b / WHO queries that Irc.doJoin sends *)
Definition burst_rest (s : srv) (me : suser) (c : str) (ch : schan) (mp uh : bool) : list msg :=
  (match sc_topic ch with [] => [] | t => [Msg SERVER str_332 [s_me s; c; t]] end)
  ++ [msg_names s c ch mp uh; msg_endnames s c]
  ++ [Msg SERVER str_324 (s_me s :: c :: modes_args ch);
      Msg SERVER str_329 [s_me s; c; py_str_Z (Z.of_N (sc_created ch))]]
  ++ map (fun b => Msg SERVER str_367 [s_me s; c; b; SERVER; [49]]) (sc_bans ch)
  ++ msgs_who s c ch.
Definition burst (s : srv) (me : suser) (c : str) (ch : schan) (mp uh : bool) : list msg :=
  Msg (hostmask me) str_JOIN [c] :: burst_rest s me c ch mp uh.

(* ---- validity of names ---- *)
Definition valid_name (n : str) : bool :=
  nonempty n && negb (existsb (fun c => ws c || mem c [BANG; ATC; COMMA; 58] || mem c gen.T10.SIGILS) n).
Definition valid_nick (n : str) : bool := valid_name n && negb (mem 46 n).
(* ident / host: anything without blanks, '!' and '@' *)
Definition valid_uh (n : str) : bool :=
  nonempty n && negb (existsb (fun c => ws c || mem c [BANG; ATC]) n).
Definition valid_arg (a : str) : bool :=
  nonempty a && negb (existsb ws a) && negb (C03.Model.hd_is 58 a).
Definition valid_chan (c : str) : bool :=
  C03.Model.isChannel c && negb (mem 58 c).

(* ---- JOIN / PART of one channel; the bool says whether something happened ---- *)
Definition join_chan (n c : str) (s : srv) : srv * bool :=
  if negb (valid_chan c) then (s, false) else
  let fresh := (set_chans_s s (idict_set c (fresh_chan n) (s_chans s)), true) in
  match idict_get c (s_chans s) with
  | Some ch =>
      match sc_members ch with
      | [] => fresh
      | _ => if is_member n ch then (s, false)
             else (set_chans_s s (idict_upd c (add_member n) (s_chans s)), true)
      end
  | None => fresh
  end.
Definition part_chan (n c : str) (s : srv) : srv * bool :=
  if mem COMMA c then (s, false) else
  match idict_get c (s_chans s) with
  | Some ch => if is_member n ch then (set_chans_s s (idict_upd c (del_member n) (s_chans s)), true) else (s, false)
  | None => (s, false)
  end.
(* another user's multi-target JOIN/PART: the channels the observer gets to hear about *)
Definition join_other (n : str) (acc : srv * list str) (c : str) : srv * list str :=
  let '(s, vis) := acc in
  let '(s', j) := join_chan n c s in (s', if j && mych s c then vis ++ [c] else vis).
Definition part_any (n : str) (acc : srv * list str) (c : str) : srv * list str :=
  let '(s, vis) := acc in
  let '(s', j) := part_chan n c s in (s', if j && mych s c then vis ++ [c] else vis).
(* the observer's own JOIN: the channels it actually enters; it hears ONE (possibly multi-target) JOIN, then the
   burst of each channel *)
Definition join_mine (acc : srv * list str) (c : str) : srv * list str :=
  let '(s, joined) := acc in
  let '(s', j) := join_chan (s_me s) c s in (s', if j then joined ++ [c] else joined).
Definition bursts (s : srv) (u : suser) (mp uh : bool) (joined : list str) : list msg :=
  flat_map (fun c => match idict_get c (s_chans s) with
                     | Some ch => burst_rest s u c ch mp uh
                     | None => [] end) joined.

Definition set_o (b : bool) (f : flags) := Flags b (f_h f) (f_v f).
Definition set_h (b : bool) (f : flags) := Flags (f_o f) b (f_v f).
Definition set_v (b : bool) (f : flags) := Flags (f_o f) (f_h f) b.

(* list modes other than b: I (invite exceptions), e (ban exceptions), q (quiets) *)
Definition LIST_MODES : list N := [73; 101; 113].
Definition apply_mode (ch : schan) (chg : bool * N * option str) : schan :=
  let '(plus, f, arg) := chg in
  match arg with
  | Some a =>
      if N.eqb f O_ then upd_flags (set_o plus) a ch
      else if N.eqb f H_ then upd_flags (set_h plus) a ch
      else if N.eqb f V_ then upd_flags (set_v plus) a ch
      else if N.eqb f B_ then set_bans_s ch (if plus then iset_add a (sc_bans ch) else iset_discard a (sc_bans ch))
      else if mem f LIST_MODES then ch        (* invite / ban exceptions, quiets: lists the bot does not claim to know *)
      else set_modes_s ch (if plus then assoc_set f (Some a) (sc_modes ch) else assoc_del f (sc_modes ch))
  | None => set_modes_s ch (if plus then assoc_set f None (sc_modes ch) else assoc_del f (sc_modes ch))
  end.
(* a change the server accepts: o/h/v need a member, b/k a parameter, l a parameter when set,
   other letters are parameterless flags *)
Definition FLAGS : list N := [110; 116; 115; 109; 105; 112].
Definition mode_ok (ch : schan) (chg : bool * N * option str) : bool :=
  let '(plus, f, arg) := chg in
  match arg with
  | Some a =>
      valid_arg a &&
      (if mem f [O_; H_; V_] then is_member a ch
       else N.eqb f B_ || mem f LIST_MODES || N.eqb f 107 || (N.eqb f 108 && plus))
  | None => mem f FLAGS || (N.eqb f 108 && negb plus)
  end.
Fixpoint mode_string (chgs : list (bool * N * option str)) (last : option bool) : str :=
  match chgs with
  | [] => []
  | (plus, f, _) :: r =>
      (if match last with Some p => Bool.eqb p plus | None => false end then [] else [if plus then PLUS else MINUS])
      ++ [f] ++ mode_string r (Some plus)
  end.
Definition mode_params (chgs : list (bool * N * option str)) : list str :=
  flat_map (fun g => match snd g with Some a => [a] | None => [] end) chgs.

Definition rename_user (o n : str) (us : list (str * suser)) : list (str * suser) :=
  match idict_get o us with
  | Some u => idict_set n (SUser n (su_user u) (su_host u)) (idict_del o us)
  | None => us
  end.

Definition step (nick0 : str) (mp uh : bool) (s : srv) (a : action) : srv * list msg :=
  match a with
  | AConnect n u h =>
      if valid_nick n && valid_uh u && valid_uh h then
        match idict_get n (s_users s) with
        | Some _ => (s, [])
        | None => (Srv (s_me s) (idict_set n (SUser n u h) (s_users s)) (s_chans s), [])
        end
      else (s, [])
  | AJoin n chans =>
      match idict_get n (s_users s) with
      | None => (s, [])
      | Some u =>
          if feq n (s_me s) then
            let '(s', joined) := fold_left join_mine chans (s, []) in
            match joined with
            | [] => (s', [])
            | _ => (s', Msg (hostmask u) str_JOIN [join [COMMA] joined] :: bursts s' u mp uh joined)
            end
          else
            let '(s', vis) := fold_left (join_other (su_nick u)) chans (s, []) in   (* member keys are canonical nick spellings *)
            match vis with
            | [] => (s', [])
            | _ => (s', [Msg (hostmask u) str_JOIN [join [COMMA] vis]])
            end
      end
  | APart n chans =>
      match idict_get n (s_users s) with
      | None => (s, [])
      | Some u =>
          let '(s', vis) := fold_left (part_any n) chans (s, []) in
          match vis with
          | [] => (s', [])
          | _ => (s', [Msg (hostmask u) str_PART [join [COMMA] vis]])
          end
      end
  | AKick k c victims =>
      match idict_get k (s_users s), idict_get c (s_chans s) with
      | Some u, Some ch =>
          let vs := filter (fun v => is_member v ch && negb (mem COMMA v)) victims in
          if is_member k ch && nonempty (join [COMMA] vs) then
            (set_chans_s s (idict_upd c (fun ch => fold_left (fun ch v => del_member v ch) vs ch) (s_chans s)),
             if is_member (s_me s) ch then [Msg (hostmask u) str_KICK [c; join [COMMA] vs; [120]]] else [])
          else (s, [])
      | _, _ => (s, [])
      end
  | AQuit n =>
      match idict_get n (s_users s) with
      | None => (s, [])
      | Some u =>
          if feq n (s_me s) then (s, []) else
          (Srv (s_me s) (idict_del n (s_users s)) (vmap (del_member n) (s_chans s)),
           if visible s n then [Msg (hostmask u) str_QUIT [[98; 121; 101]]] else [])
      end
  | ANick n new =>
      match idict_get n (s_users s) with
      | None => (s, [])
      | Some u =>
          let free := match idict_get new (s_users s) with Some _ => feq n new | None => true end in
          if valid_nick new && free && negb (seq_eqb (su_nick u) new) then
            (Srv (if feq n (s_me s) then new else s_me s)
                 (rename_user n new (s_users s))
                 (vmap (ren_member n new) (s_chans s)),
             if feq n (s_me s) || visible s n then [Msg (hostmask u) str_NICK [new]] else [])
          else (s, [])
      end
  | AMode k c chgs =>
      match idict_get k (s_users s), idict_get c (s_chans s) with
      | Some u, Some ch =>
          if C03.Model.isChannel c && is_member k ch && nonempty (mode_string chgs None) && forallb (mode_ok ch) chgs then
            (set_chans_s s (idict_upd c (fun ch => fold_left apply_mode chgs ch) (s_chans s)),
             if is_member (s_me s) ch then
               [Msg (hostmask u) str_MODE (c :: mode_string chgs None :: mode_params chgs)]
             else [])
          else (s, [])
      | _, _ => (s, [])
      end
  | ATopic k c t =>
      match idict_get k (s_users s), idict_get c (s_chans s) with
      | Some u, Some ch =>
          if is_member k ch then
            (set_chans_s s (idict_upd c (fun ch => set_topic_s ch t) (s_chans s)),
             if is_member (s_me s) ch then [Msg (hostmask u) str_TOPIC [c; t]] else [])
          else (s, [])
      | _, _ => (s, [])
      end
  | AChghost n u' h' =>
      match idict_get n (s_users s) with
      | None => (s, [])
      | Some u =>
          if valid_uh u' && valid_uh h' then
            (Srv (s_me s) (idict_upd n (fun x => SUser (su_nick x) u' h') (s_users s)) (s_chans s),
             if feq n (s_me s) || visible s n then [Msg (hostmask u) str_CHGHOST [u'; h']] else [])
          else (s, [])
      end
  | ANames c mp' uh' =>
      match idict_get c (s_chans s) with
      | Some ch => (s, if is_member (s_me s) ch then [msg_names s c ch mp' uh'; msg_endnames s c] else [])
      | None => (s, [])
      end
  | AWho c =>
      match idict_get c (s_chans s) with
      | Some ch => (s, if is_member (s_me s) ch then msgs_who s c ch else [])
      | None => (s, [])
      end
  | AReset =>
      (* the bot's connection drops and it reconnects under its configured nick *)
      let free := match idict_get nick0 (s_users s) with Some _ => feq nick0 (s_me s) | None => true end in
      if free then
        (Srv nick0 (rename_user (s_me s) nick0 (s_users s)) (vmap (del_member (s_me s)) (s_chans s)),
         [Msg [] RESET []])
      else (s, [])
  | ALate c =>
      match idict_get c (s_chans s), idict_get (s_me s) (s_users s) with
      | Some ch, Some u => (s, if is_member (s_me s) ch then [] else burst_rest s u c ch mp uh)
      | _, _ => (s, [])
      end
  | AIsupport n =>
      (* nothing changes on the server; the history generator only uses channel names of at most n characters afterwards *)
      (s, [Msg SERVER str_005 [s_me s; CHANNELLEN_EQ ++ py_str_Z (Z.of_N n); [115; 117; 112; 112; 111; 114; 116; 101; 100]]])
  end.

(* ---- what the bot is entitled to know (every entry is the answer of a lookup) ---- *)
Record vchan := VChan { v_name : str; v_users : list str; v_ops : list str; v_halfops : list str;
                        v_voices : list str; v_bans : list str; v_topic : str;
                        v_modes : list (N * option str); v_created : N }.
Definition view_chan (c : str) (ch : schan) : vchan :=
  let keys := map fst (sc_members ch) in
  VChan c keys (filter (fun x => mflag f_o x ch) keys) (filter (fun x => mflag f_h x ch) keys)
        (filter (fun x => mflag f_v x ch) keys)
        (sc_bans ch) (sc_topic ch) (map (fun f => (f, mode_value ch f)) (map fst (sc_modes ch))) (sc_created ch).
Definition view_chans (s : srv) : list vchan :=
  flat_map (fun kc => match idict_get (fst kc) (s_chans s) with
                      | Some ch => if is_member (s_me s) ch then [view_chan (fst kc) ch] else []
                      | None => [] end) (s_chans s).
(* hostmasks of the users the bot can see (itself included once it is on a channel) *)
Definition view_hosts (s : srv) : list (str * str) :=
  flat_map (fun kv => match idict_get (fst kv) (s_users s) with
                      | Some u => if visible s (fst kv) then [(su_nick u, hostmask u)] else []
                      | None => [] end) (s_users s).
