(* C10/Spec.v — the reference IRC server (the specification side).  Executable,
   no proofs.  The server keeps the truth: connected users (nick, user, host)
   with fold-unique nicks, channels with members and their o/h/v flags, topic,
   modes, ban list, creation time.  [step] applies one action and returns the
   messages a conformant server sends to ONE observer (the bot, [s_me]).
   Actions that the server would refuse (unknown user, nick in use, not on
   channel, ...) change nothing and emit nothing, so every action list is a
   conformant history.  [view] is what the bot is entitled to know. *)
From Coq Require Import List NArith ZArith Bool.
Import ListNotations.
Require Import Base.Wire Base.PyStr C10.Bot.
Open Scope N_scope.

Record suser := SUser { su_nick : str; su_user : str; su_host : str }.
Record smember := SMember { sm_nick : str; sm_o : bool; sm_h : bool; sm_v : bool }.
Record schan := SChan { sc_name : str; sc_members : list smember; sc_topic : str;
                        sc_modes : list (N * option str); sc_bans : list str; sc_created : N }.
Record srv := Srv { s_me : str; s_users : list suser; s_chans : list schan }.

Inductive action :=
| AConnect (n u h : str)
| AJoin (n : str) (chans : list str)
| APart (n : str) (chans : list str)
| AKick (k c : str) (victims : list str)
| AQuit (n : str)
| ANick (n new : str)
| AMode (k c : str) (changes : list (bool * N * option str))
| ATopic (k c t : str)
| AChghost (n u h : str)
| ANames (c : str) (multiprefix uhnames : bool)
| AWho (c : str)
| AReset.

Definition SERVER : str := [115; 114; 118].                       (* "srv" *)
Definition RESET : str := [82; 69; 83; 69; 84].                    (* pseudo-message: the driver reconnects *)
Definition str_366 : str := [51; 54; 54].
Definition EQS : str := [61].  Definition STAR : str := [42].

(* ---- lookups ---- *)
Fixpoint find_user (n : str) (us : list suser) : option suser :=
  match us with [] => None | u :: r => if feq n (su_nick u) then Some u else find_user n r end.
Fixpoint find_chan (c : str) (cs : list schan) : option schan :=
  match cs with [] => None | x :: r => if feq c (sc_name x) then Some x else find_chan c r end.
Fixpoint find_member (n : str) (ms : list smember) : option smember :=
  match ms with [] => None | x :: r => if feq n (sm_nick x) then Some x else find_member n r end.
Definition is_member (n : str) (ch : schan) : bool :=
  match find_member n (sc_members ch) with Some _ => true | None => false end.
Definition on_chan (s : srv) (n c : str) : bool :=
  match find_chan c (s_chans s) with Some ch => is_member n ch | None => false end.
Definition hostmask (u : suser) : str := joinHostmask (su_nick u) (su_user u) (su_host u).
(* channels of the observer *)
Definition my_chans (s : srv) : list schan := filter (is_member (s_me s)) (s_chans s).
Definition visible (s : srv) (n : str) : bool := existsb (is_member n) (my_chans s).

(* ---- updates ---- *)
Definition put_chan (ch : schan) (cs : list schan) : list schan :=
  match find_chan (sc_name ch) cs with
  | Some _ => map (fun x => if feq (sc_name ch) (sc_name x) then ch else x) cs
  | None => cs ++ [ch]
  end.
(* an empty channel ceases to exist *)
Definition gc (cs : list schan) : list schan :=
  filter (fun x => match sc_members x with [] => false | _ => true end) cs.
Definition set_members ch ms := SChan (sc_name ch) ms (sc_topic ch) (sc_modes ch) (sc_bans ch) (sc_created ch).
Definition del_member (n : str) (ch : schan) : schan :=
  set_members ch (filter (fun x => negb (feq n (sm_nick x))) (sc_members ch)).
Definition ren_member (o n : str) (ch : schan) : schan :=
  set_members ch (map (fun x => if feq o (sm_nick x) then SMember n (sm_o x) (sm_h x) (sm_v x) else x)
                      (sc_members ch)).
Definition set_chans_s s cs := Srv (s_me s) (s_users s) cs.

(* ---- NAMES / WHO / burst ---- *)
Definition sigils (multiprefix : bool) (m : smember) : str :=
  let l := (if sm_o m then [64] else []) ++ (if sm_h m then [37] else []) ++ (if sm_v m then [43] else []) in
  if multiprefix then l else firstn 1 l.
Definition names_item (s : srv) (mp uh : bool) (m : smember) : str :=
  sigils mp m ++ (if uh then match find_user (sm_nick m) (s_users s) with
                             | Some u => hostmask u | None => sm_nick m end
                  else sm_nick m).
Definition cflag (ch : schan) (f : N) : bool := existsb (fun kv => N.eqb (fst kv) f) (sc_modes ch).
Definition msg_names (s : srv) (ch : schan) (mp uh : bool) : msg :=
  Msg SERVER str_353 [s_me s; (if cflag ch 115 then [ATC] else if cflag ch 112 then STAR else EQS);
                      sc_name ch; join [32] (map (names_item s mp uh) (sc_members ch))].
Definition msgs_who (s : srv) (ch : schan) : list msg :=
  flat_map (fun m => match find_user (sm_nick m) (s_users s) with
                     | Some u => [Msg SERVER str_352 [s_me s; sc_name ch; su_user u; su_host u; SERVER;
                                                      su_nick u; [72]; [48; 32; 114]]]
                     | None => [] end) (sc_members ch).
Definition modes_args (ch : schan) : list str :=
  (PLUS :: map fst (sc_modes ch)) :: flat_map (fun kv => match snd kv with Some a => [a] | None => [] end) (sc_modes ch).
(* what the bot receives when it joins: JOIN, topic, NAMES, then the replies to
   the MODE / MODE +b / WHO queries that Irc.doJoin sends *)
Definition burst (s : srv) (me : suser) (ch : schan) (mp uh : bool) : list msg :=
  [Msg (hostmask me) str_JOIN [sc_name ch]]
  ++ (match sc_topic ch with [] => [] | t => [Msg SERVER str_332 [s_me s; sc_name ch; t]] end)
  ++ [msg_names s ch mp uh; Msg SERVER str_366 [s_me s; sc_name ch; [101; 110; 100]]]
  ++ [Msg SERVER str_324 (s_me s :: sc_name ch :: modes_args ch);
      Msg SERVER str_329 [s_me s; sc_name ch; py_str_Z (Z.of_N (sc_created ch))]]
  ++ map (fun b => Msg SERVER str_367 [s_me s; sc_name ch; b; SERVER; [49]]) (sc_bans ch)
  ++ msgs_who s ch.

(* ---- one action ---- *)
Definition valid_name (n : str) : bool :=
  nonempty n && negb (existsb (fun c => ws c || mem c [BANG; ATC; COMMA; 58] || mem c gen.T10.SIGILS) n).
Definition valid_arg (a : str) : bool :=
  nonempty a && negb (existsb ws a) && negb (C03.Model.hd_is 58 a).
Definition valid_chan (c : str) : bool :=
  C03.Model.isChannel c && negb (mem 58 c).

Definition join1 (n : str) (acc : srv * list str) (c : str) : srv * list str :=
  let '(s, seen) := acc in
  if negb (valid_chan c) then acc else
  match find_chan c (s_chans s) with
  | Some ch =>
      if is_member n ch then acc
      else (set_chans_s s (put_chan (set_members ch (sc_members ch ++ [SMember n false false false])) (s_chans s)),
            seen ++ [sc_name ch])
  | None => (set_chans_s s (s_chans s ++ [SChan c [SMember n true false false] [] [] [] (1000 + N.of_nat (length (s_chans s)))]), seen ++ [c])
  end.

Definition part1 (n : str) (acc : srv * list str) (c : str) : srv * list str :=
  let '(s, seen) := acc in
  match find_chan c (s_chans s) with
  | Some ch =>
      if is_member n ch
      then (set_chans_s s (gc (put_chan (del_member n ch) (s_chans s))),
            if is_member (s_me s) ch then seen ++ [c] else seen)
      else acc
  | None => acc
  end.

Definition apply_mode (ch : schan) (chg : bool * N * option str) : schan :=
  let '(plus, f, arg) := chg in
  let flag := fun (g : smember -> smember) n =>
    set_members ch (map (fun x => if feq n (sm_nick x) then g x else x) (sc_members ch)) in
  match arg with
  | Some a =>
      if N.eqb f O_ then flag (fun x => SMember (sm_nick x) plus (sm_h x) (sm_v x)) a
      else if N.eqb f H_ then flag (fun x => SMember (sm_nick x) (sm_o x) plus (sm_v x)) a
      else if N.eqb f V_ then flag (fun x => SMember (sm_nick x) (sm_o x) (sm_h x) plus) a
      else if N.eqb f B_ then
        SChan (sc_name ch) (sc_members ch) (sc_topic ch) (sc_modes ch)
              (if plus then (if iset_mem a (sc_bans ch) then sc_bans ch else sc_bans ch ++ [a])
               else filter (fun y => negb (feq a y)) (sc_bans ch)) (sc_created ch)
      else
        SChan (sc_name ch) (sc_members ch) (sc_topic ch)
              (if plus then filter (fun kv => negb (N.eqb f (fst kv))) (sc_modes ch) ++ [(f, Some a)]
               else filter (fun kv => negb (N.eqb f (fst kv))) (sc_modes ch)) (sc_bans ch) (sc_created ch)
  | None =>
      SChan (sc_name ch) (sc_members ch) (sc_topic ch)
            (if plus then filter (fun kv => negb (N.eqb f (fst kv))) (sc_modes ch) ++ [(f, None)]
             else filter (fun kv => negb (N.eqb f (fst kv))) (sc_modes ch)) (sc_bans ch) (sc_created ch)
  end.
(* a change the server accepts: o/h/v need a member, b/k a parameter, l a parameter when set,
   other letters are parameterless flags *)
Definition mode_ok (ch : schan) (chg : bool * N * option str) : bool :=
  let '(plus, f, arg) := chg in
  match arg with
  | Some a =>
      valid_arg a &&
      (if mem f [O_; H_; V_] then is_member a ch
       else N.eqb f B_ || N.eqb f 107 || (N.eqb f 108 && plus))
  | None => mem f [110; 116; 115; 109; 105; 112] || (N.eqb f 108 && negb plus)
  end.
Fixpoint mode_string (chgs : list (bool * N * option str)) (last : option bool) : str :=
  match chgs with
  | [] => []
  | (plus, f, _) :: r =>
      (if match last with Some p => Bool.eqb p plus | None => false end then [] else [if plus then PLUS else MINUS])
      ++ [f] ++ mode_string r (Some plus)
  end.

Definition step (nick0 : str) (mp uh : bool) (s : srv) (a : action) : srv * list msg :=
  match a with
  | AConnect n u h =>
      if valid_name n && valid_name u && valid_name h then
        match find_user n (s_users s) with
        | Some _ => (s, [])
        | None => (Srv (s_me s) (s_users s ++ [SUser n u h]) (s_chans s), [])
        end
      else (s, [])
  | AJoin n chans =>
      match find_user n (s_users s) with
      | None => (s, [])
      | Some u =>
          let '(s', seen) := fold_left (join1 n) chans (s, []) in
          if feq n (s_me s) then
            (s', flat_map (fun c => match find_chan c (s_chans s') with
                                    | Some ch => burst s' u ch mp uh | None => [] end) seen)
          else
            match filter (on_chan s' (s_me s)) seen with
            | [] => (s', [])
            | vis => (s', [Msg (hostmask u) str_JOIN [join [COMMA] vis]])
            end
      end
  | APart n chans =>
      match find_user n (s_users s) with
      | None => (s, [])
      | Some u =>
          let '(s', seen) := fold_left (part1 n) chans (s, []) in
          match seen with
          | [] => (s', [])
          | _ => (s', [Msg (hostmask u) str_PART [join [COMMA] seen]])
          end
      end
  | AKick k c victims =>
      match find_user k (s_users s), find_chan c (s_chans s) with
      | Some u, Some ch =>
          let vs := filter (fun v => is_member v ch) victims in
          if is_member k ch && nonempty (join [COMMA] vs) then
            let ch' := fold_left (fun ch v => del_member v ch) vs ch in
            (set_chans_s s (gc (put_chan ch' (s_chans s))),
             if is_member (s_me s) ch then [Msg (hostmask u) str_KICK [c; join [COMMA] vs; [120]]] else [])
          else (s, [])
      | _, _ => (s, [])
      end
  | AQuit n =>
      match find_user n (s_users s) with
      | None => (s, [])
      | Some u =>
          if feq n (s_me s) then (s, []) else
          (Srv (s_me s) (filter (fun x => negb (feq n (su_nick x))) (s_users s))
               (gc (map (del_member n) (s_chans s))),
           if visible s n then [Msg (hostmask u) str_QUIT [[98; 121; 101]]] else [])
      end
  | ANick n new =>
      match find_user n (s_users s) with
      | None => (s, [])
      | Some u =>
          let free := match find_user new (s_users s) with Some _ => feq n new | None => true end in
          if valid_name new && free && negb (seq_eqb (su_nick u) new) then
            (Srv (if feq n (s_me s) then new else s_me s)
                 (map (fun x => if feq n (su_nick x) then SUser new (su_user x) (su_host x) else x) (s_users s))
                 (map (ren_member n new) (s_chans s)),
             if feq n (s_me s) || visible s n then [Msg (hostmask u) str_NICK [new]] else [])
          else (s, [])
      end
  | AMode k c chgs =>
      match find_user k (s_users s), find_chan c (s_chans s) with
      | Some u, Some ch =>
          if is_member k ch && nonempty (mode_string chgs None) && forallb (mode_ok ch) chgs then
            let ch' := fold_left apply_mode chgs ch in
            (set_chans_s s (put_chan ch' (s_chans s)),
             if is_member (s_me s) ch then
               [Msg (hostmask u) str_MODE
                    (c :: mode_string chgs None ::
                       flat_map (fun g => match snd g with Some a => [a] | None => [] end) chgs)]
             else [])
          else (s, [])
      | _, _ => (s, [])
      end
  | ATopic k c t =>
      match find_user k (s_users s), find_chan c (s_chans s) with
      | Some u, Some ch =>
          if is_member k ch then
            (set_chans_s s (put_chan (SChan (sc_name ch) (sc_members ch) t (sc_modes ch) (sc_bans ch) (sc_created ch))
                                     (s_chans s)),
             if is_member (s_me s) ch then [Msg (hostmask u) str_TOPIC [c; t]] else [])
          else (s, [])
      | _, _ => (s, [])
      end
  | AChghost n u' h' =>
      match find_user n (s_users s) with
      | None => (s, [])
      | Some u =>
          if valid_name u' && valid_name h' then
            (Srv (s_me s) (map (fun x => if feq n (su_nick x) then SUser (su_nick x) u' h' else x) (s_users s))
                 (s_chans s),
             if feq n (s_me s) || visible s n then [Msg (hostmask u) str_CHGHOST [u'; h']] else [])
          else (s, [])
      end
  | ANames c mp' uh' =>
      match find_chan c (s_chans s) with
      | Some ch => (s, if is_member (s_me s) ch
                       then [msg_names s ch mp' uh'; Msg SERVER str_366 [s_me s; sc_name ch; [101; 110; 100]]]
                       else [])
      | None => (s, [])
      end
  | AWho c =>
      match find_chan c (s_chans s) with
      | Some ch => (s, if is_member (s_me s) ch then msgs_who s ch else [])
      | None => (s, [])
      end
  | AReset =>
      (* the bot's connection drops and it reconnects under its configured nick *)
      let free := match find_user nick0 (s_users s) with Some _ => feq nick0 (s_me s) | None => true end in
      if free then
        (Srv nick0
             (map (fun x => if feq (s_me s) (su_nick x) then SUser nick0 (su_user x) (su_host x) else x) (s_users s))
             (gc (map (del_member (s_me s)) (s_chans s))),
         [Msg [] RESET []])
      else (s, [])
  end.

(* ---- what the bot is entitled to know ---- *)
Record vchan := VChan { v_name : str; v_users : list str; v_ops : list str; v_halfops : list str;
                        v_voices : list str; v_bans : list str; v_topic : str;
                        v_modes : list (N * option str); v_created : N }.
Definition view_chan (ch : schan) : vchan :=
  let nicks := fun (p : smember -> bool) => map sm_nick (filter p (sc_members ch)) in
  VChan (sc_name ch) (nicks (fun _ => true)) (nicks sm_o) (nicks sm_h) (nicks sm_v)
        (sc_bans ch) (sc_topic ch) (sc_modes ch) (sc_created ch).
Definition view_chans (s : srv) : list vchan := map view_chan (my_chans s).
(* hostmasks of the users the bot can see (itself included once it is on a channel) *)
Definition view_hosts (s : srv) : list (str * str) :=
  map (fun u => (su_nick u, hostmask u)) (filter (fun u => visible s (su_nick u)) (s_users s)).
