(* C10/Model.v — wire dispatcher.  The executable model of the bot is C10/Bot.v
   (src/irclib.py state tracking), the reference server is C10/Spec.v.
   No proofs in this file. *)
From Coq Require Import List NArith ZArith Bool.
Import ListNotations.
Require Import Base.Wire Base.PyStr.
Require Export C10.Bot C10.Spec.
Open Scope N_scope.

(* ---- decoding ---- *)
Definition gMsg (v : value) : msg := Msg (gS (nth_v 0 v)) (gS (nth_v 1 v)) (gLS (nth_v 2 v)).
Definition gChg (v : value) : bool * N * option str :=
  (gB (nth_v 0 v), gN (nth_v 1 v), gO gS (nth_v 2 v)).
Definition gAction (v : value) : action :=
  let a := fun n => nth_v n v in
  match gN (a 0%nat) with
  | 0 => AConnect (gS (a 1%nat)) (gS (a 2%nat)) (gS (a 3%nat))
  | 1 => AJoin (gS (a 1%nat)) (gLS (a 2%nat))
  | 2 => APart (gS (a 1%nat)) (gLS (a 2%nat))
  | 3 => AKick (gS (a 1%nat)) (gS (a 2%nat)) (gLS (a 3%nat))
  | 4 => AQuit (gS (a 1%nat))
  | 5 => ANick (gS (a 1%nat)) (gS (a 2%nat))
  | 6 => AMode (gS (a 1%nat)) (gS (a 2%nat)) (map gChg (gL (a 3%nat)))
  | 7 => ATopic (gS (a 1%nat)) (gS (a 2%nat)) (gS (a 3%nat))
  | 8 => AChghost (gS (a 1%nat)) (gS (a 2%nat)) (gS (a 3%nat))
  | 9 => ANames (gS (a 1%nat)) (gB (a 2%nat)) (gB (a 3%nat))
  | 10 => AWho (gS (a 1%nat))
  | 11 => AReset
  | 12 => AIsupport (gN (a 1%nat))
  | _ => ALate (gS (a 1%nat))
  end.

(* ---- encoding ---- *)
Definition vMsg (m : msg) : value := L [vS (m_prefix m); vS (m_command m); vLS (m_args m)].
Definition vMval (v : mval) : value :=
  match v with MNone => L [] | MStr s => L [I 0%Z; vS s] | MInt z => L [I 1%Z; I z] end.
Definition vChan (kc : str * chan) : value :=
  let c := snd kc in
  L [vS (fst kc); vLS (c_users c); vLS (c_ops c); vLS (c_halfops c); vLS (c_voices c); vLS (c_bans c);
     vS (c_topic c); L (map (fun kv => L [vN (fst kv); vMval (snd kv)]) (c_modes c)); I (c_created c)].
Definition vBot (b : bot) : value :=
  L [vS (b_nick b); vS (b_prefix b); L (map vChan (b_chans b));
     L (map (fun kv => L [vS (fst kv); vS (snd kv)]) (b_n2h b))].
Definition vVChan (c : vchan) : value :=
  L [vS (v_name c); vLS (v_users c); vLS (v_ops c); vLS (v_halfops c); vLS (v_voices c); vLS (v_bans c);
     vS (v_topic c); L (map (fun kv => L [vN (fst kv); vO vS (snd kv)]) (v_modes c)); vN (v_created c)].
Definition vView (s : srv) : value :=
  L [vS (s_me s); L (map vVChan (view_chans s)); L (map (fun kv => L [vS (fst kv); vS (snd kv)]) (view_hosts s))].

(* the pseudo-message RESET stands for Irc.reset() *)
Definition feed_or_reset (nick0 prefix0 : str) (b : bot) (m : msg) : bot :=
  if seq_eqb (m_command m) RESET && match m_prefix m with [] => true | _ => false end
  then reset nick0 prefix0 else feed b m.

(* feed a list of messages, dumping the bot after each *)
Fixpoint feed_dump (nick0 prefix0 : str) (b : bot) (ms : list msg) : bot * list value :=
  match ms with
  | [] => (b, [])
  | m :: r => let b' := feed_or_reset nick0 prefix0 b m in
              let '(b'', d) := feed_dump nick0 prefix0 b' r in (b'', vBot b' :: d)
  end.

(* run the reference server over the actions; per action: messages, bot dumps, view *)
Fixpoint run_actions (nick0 prefix0 : str) (mp uh : bool) (s : srv) (b : bot) (acts : list action) : list value :=
  match acts with
  | [] => []
  | a :: r =>
      let '(s', ms) := step nick0 mp uh s a in
      let '(b', dumps) := feed_dump nick0 prefix0 b ms in
      L [L (map vMsg ms); L dumps; vView s'] :: run_actions nick0 prefix0 mp uh s' b' r
  end.

Definition srv0 (nick0 user0 host0 : str) : srv := Srv nick0 [(nick0, SUser nick0 user0 host0)] [].

(* run: (op payload)
   op 0: (nick0 prefix0 user0 host0 multiprefix uhnames actions) -> per action (msgs dumps view)
   op 1: (nick0 prefix0 msgs) -> bot dump after each message
   op 2: (args) -> separateModes   op 3: str -> (isUserHostmask, splitHostmask)   op 4: str -> coerce *)
Definition run (v : value) : value :=
  let p := nth_v 1 v in
  match gN (nth_v 0 v) with
  | 0 =>
      let nick0 := gS (nth_v 0 p) in let prefix0 := gS (nth_v 1 p) in
      L (run_actions nick0 prefix0 (gB (nth_v 4 p)) (gB (nth_v 5 p))
                     (srv0 nick0 (gS (nth_v 2 p)) (gS (nth_v 3 p))) (reset nick0 prefix0)
                     (map gAction (gL (nth_v 6 p))))
  | 1 =>
      let nick0 := gS (nth_v 0 p) in let prefix0 := gS (nth_v 1 p) in
      L (snd (feed_dump nick0 prefix0 (reset nick0 prefix0) (map gMsg (gL (nth_v 2 p)))))
  | 2 => L (map (fun x => L [vN (fst (fst x)); vN (snd (fst x)); vMval (snd x)]) (separateModes (gLS p)))
  | 3 => L [vB (isUserHostmask (gS p));
            match splitHostmask (gS p) with Some (a, b, c) => L [vS a; vS b; vS c] | None => L [] end]
  | 4 => vMval (coerce (gS p))
  | _ => L []
  end.
