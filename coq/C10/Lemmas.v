(* C10/Lemmas.v — laws of the fold-keyed containers (IrcSet / IrcDict), the
   effect of the ChannelState / IrcState handlers on lookups for ALL states,
   self-leave, separateModes against a declarative parse. *)
From Coq Require Import List NArith ZArith Bool Lia.
Import ListNotations.
Require Import Base.Wire Base.PyStr C10.Bot.
Open Scope N_scope.

(* ---- feq is an equivalence ---- *)
Lemma feq_iff a b : feq a b = true <-> fold a = fold b.
Proof. unfold feq. apply seq_eqb_eq. Qed.
Lemma feq_refl a : feq a a = true.
Proof. apply feq_iff. reflexivity. Qed.
Lemma feq_sym a b : feq a b = feq b a.
Proof.
  destruct (feq a b) eqn:E, (feq b a) eqn:F; try reflexivity.
  - apply feq_iff in E. symmetry in E. apply feq_iff in E. congruence.
  - apply feq_iff in F. symmetry in F. apply feq_iff in F. congruence.
Qed.
Lemma feq_trans_l a b c : feq a b = true -> feq a c = feq b c.
Proof.
  intro H. apply feq_iff in H. unfold feq. rewrite H. reflexivity.
Qed.
Lemma feq_trans_r a b c : feq a b = true -> feq c a = feq c b.
Proof. intro H. rewrite (feq_sym c a), (feq_sym c b). apply feq_trans_l. exact H. Qed.

(* ---- IrcSet ---- *)
Lemma iset_mem_feq a b s : feq a b = true -> iset_mem a s = iset_mem b s.
Proof.
  intro H. unfold iset_mem. induction s as [|x s IH]; [reflexivity|].
  cbn [existsb]. rewrite IH. rewrite (feq_trans_l a b x H). reflexivity.
Qed.
Lemma iset_mem_app y s t : iset_mem y (s ++ t) = iset_mem y s || iset_mem y t.
Proof. unfold iset_mem. apply existsb_app. Qed.
Lemma iset_mem_add x y s : iset_mem y (iset_add x s) = feq y x || iset_mem y s.
Proof.
  unfold iset_add. destruct (iset_mem x s) eqn:E.
  - destruct (feq y x) eqn:F; [|reflexivity]. cbn. rewrite (iset_mem_feq y x s F). exact E.
  - rewrite iset_mem_app. cbn. rewrite orb_false_r. apply orb_comm.
Qed.
Lemma iset_mem_discard x y s : iset_mem y (iset_discard x s) = negb (feq y x) && iset_mem y s.
Proof.
  unfold iset_discard, iset_mem. induction s as [|z s IH]; [now rewrite andb_false_r|].
  cbn [filter existsb]. destruct (feq x z) eqn:E; cbn [negb].
  - rewrite IH. destruct (feq y x) eqn:F; cbn [negb andb]; [reflexivity|].
    rewrite (feq_trans_r x z y E) in F. rewrite F. reflexivity.
  - cbn [existsb]. rewrite IH. destruct (feq y z) eqn:G; cbn [orb].
    + rewrite (feq_trans_l y z x G). rewrite (feq_sym z x), E. reflexivity.
    + reflexivity.
Qed.
Lemma iset_discard_feq a b s : feq a b = true -> iset_discard a s = iset_discard b s.
Proof.
  intro H. unfold iset_discard. apply filter_ext. intro y. rewrite (feq_trans_l a b y H). reflexivity.
Qed.
Lemma iset_mem_repl o n x s :
  iset_mem x (repl o n s) = if iset_mem o s then feq x n || (negb (feq x o) && iset_mem x s) else iset_mem x s.
Proof.
  unfold repl. destruct (iset_mem o s); [|reflexivity].
  rewrite iset_mem_add, iset_mem_discard. reflexivity.
Qed.

(* ---- IrcDict ---- *)
Lemma idict_get_feq {A} a b (d : list (str * A)) : feq a b = true -> idict_get a d = idict_get b d.
Proof.
  intro H. induction d as [|[k v] d IH]; [reflexivity|]. cbn [idict_get].
  rewrite (feq_trans_l a b k H), IH. reflexivity.
Qed.
Lemma idict_get_set {A} k (v : A) k' d :
  idict_get k' (idict_set k v d) = if feq k' k then Some v else idict_get k' d.
Proof.
  induction d as [|[k0 v0] d IH]; cbn [idict_set idict_get].
  - reflexivity.
  - destruct (feq k k0) eqn:E; cbn [idict_get].
    + destruct (feq k' k) eqn:F; [reflexivity|].
      rewrite <- (feq_trans_r k k0 k' E). rewrite F. reflexivity.
    + rewrite IH. destruct (feq k' k0) eqn:G; [|reflexivity].
      destruct (feq k' k) eqn:F; [|reflexivity].
      rewrite (feq_sym k' k) in F. rewrite (feq_trans_l k k' k0 F), G in E. discriminate.
Qed.
Lemma idict_get_del {A} k k' (d : list (str * A)) :
  idict_get k' (idict_del k d) = if feq k' k then None else idict_get k' d.
Proof.
  unfold idict_del. induction d as [|[k0 v0] d IH]; cbn [filter idict_get fst].
  - destruct (feq k' k); reflexivity.
  - destruct (feq k k0) eqn:E; cbn [negb idict_get].
    + rewrite IH. destruct (feq k' k) eqn:F; [reflexivity|].
      rewrite (feq_trans_r k k0 k' E) in F. rewrite F. reflexivity.
    + rewrite IH. destruct (feq k' k0) eqn:G; [|reflexivity].
      destruct (feq k' k) eqn:F; [|reflexivity].
      rewrite (feq_sym k' k) in F. rewrite (feq_trans_l k k' k0 F), G in E. discriminate.
Qed.
Lemma idict_del_feq {A} a b (d : list (str * A)) : feq a b = true -> idict_del a d = idict_del b d.
Proof.
  intro H. unfold idict_del. apply filter_ext. intros [k v]. cbn. rewrite (feq_trans_l a b k H). reflexivity.
Qed.
Lemma idict_has_del {A} k k' (d : list (str * A)) :
  idict_has k' (idict_del k d) = negb (feq k' k) && idict_has k' d.
Proof. unfold idict_has. rewrite idict_get_del. destruct (feq k' k); reflexivity. Qed.
Lemma chans_update_get k f k' d :
  idict_get k' (chans_update k f d) =
  if feq k' k then option_map f (idict_get k' d) else idict_get k' d.
Proof.
  induction d as [|[k0 c0] d IH]; cbn [chans_update idict_get].
  - destruct (feq k' k); reflexivity.
  - destruct (feq k k0) eqn:E; cbn [idict_get].
    + destruct (feq k' k0) eqn:G.
      * rewrite (feq_trans_r k k0 k' E), G. reflexivity.
      * rewrite (feq_trans_r k k0 k' E), G. reflexivity.
    + rewrite IH. destruct (feq k' k0) eqn:G; [|reflexivity].
      destruct (feq k' k) eqn:F; [|reflexivity].
      rewrite (feq_sym k' k) in F. rewrite (feq_trans_l k k' k0 F), G in E. discriminate.
Qed.
Lemma chans_update_has k f k' d : idict_has k' (chans_update k f d) = idict_has k' d.
Proof.
  unfold idict_has. rewrite chans_update_get. destruct (feq k' k); [|reflexivity].
  destruct (idict_get k' d); reflexivity.
Qed.
Lemma chans_update_feq a b f d : feq a b = true -> chans_update a f d = chans_update b f d.
Proof.
  intro H. induction d as [|[k c] d IH]; [reflexivity|]. cbn [chans_update].
  rewrite (feq_trans_l a b k H), IH. reflexivity.
Qed.

(* ---- ChannelState: removeUser / replaceUser for all channel states ---- *)
Lemma removeUser_users u x c : iset_mem x (c_users (removeUser u c)) = negb (feq x u) && iset_mem x (c_users c).
Proof. cbn. apply iset_mem_discard. Qed.
Lemma removeUser_ops u x c : iset_mem x (c_ops (removeUser u c)) = negb (feq x u) && iset_mem x (c_ops c).
Proof. cbn. apply iset_mem_discard. Qed.
Lemma removeUser_halfops u x c : iset_mem x (c_halfops (removeUser u c)) = negb (feq x u) && iset_mem x (c_halfops c).
Proof. cbn. apply iset_mem_discard. Qed.
Lemma removeUser_voices u x c : iset_mem x (c_voices (removeUser u c)) = negb (feq x u) && iset_mem x (c_voices c).
Proof. cbn. apply iset_mem_discard. Qed.
Lemma removeUser_feq a b c : feq a b = true -> removeUser a c = removeUser b c.
Proof. intro H. unfold removeUser. rewrite !(iset_discard_feq a b _ H). reflexivity. Qed.

(* the set-level meaning of a nick change o -> n on one of the four sets *)
Definition renamed (o n x : str) (was_o was_x : bool) : bool :=
  if was_o then feq x n || (negb (feq x o) && was_x) else was_x.
Lemma replaceUser_users o n x c :
  iset_mem x (c_users (replaceUser o n c)) = renamed o n x (iset_mem o (c_users c)) (iset_mem x (c_users c)).
Proof. cbn. apply iset_mem_repl. Qed.
Lemma replaceUser_ops o n x c :
  iset_mem x (c_ops (replaceUser o n c)) = renamed o n x (iset_mem o (c_ops c)) (iset_mem x (c_ops c)).
Proof. cbn. apply iset_mem_repl. Qed.
Lemma replaceUser_halfops o n x c :
  iset_mem x (c_halfops (replaceUser o n c)) = renamed o n x (iset_mem o (c_halfops c)) (iset_mem x (c_halfops c)).
Proof. cbn. apply iset_mem_repl. Qed.
Lemma replaceUser_voices o n x c :
  iset_mem x (c_voices (replaceUser o n c)) = renamed o n x (iset_mem o (c_voices c)) (iset_mem x (c_voices c)).
Proof. cbn. apply iset_mem_repl. Qed.
(* a case-only rename leaves every membership question unchanged *)
Lemma renamed_caseonly o n x s : feq o n = true -> renamed o n x (iset_mem o s) (iset_mem x s) = iset_mem x s.
Proof.
  intro H. unfold renamed. destruct (iset_mem o s) eqn:E; [|reflexivity].
  rewrite <- (feq_trans_r o n x H). destruct (feq x o) eqn:F; cbn; [|reflexivity].
  rewrite (iset_mem_feq x o s F). symmetry. exact E.
Qed.

(* ChannelState.replaceUser with a case-only rename keeps every membership / status answer (remove-then-add order).
   With the two statements swapped (add, then remove) the user would vanish: see [swapped_order_loses]. *)
Lemma replaceUser_caseonly o n c x : feq o n = true ->
  iset_mem x (c_users (replaceUser o n c)) = iset_mem x (c_users c)
  /\ iset_mem x (c_ops (replaceUser o n c)) = iset_mem x (c_ops c)
  /\ iset_mem x (c_halfops (replaceUser o n c)) = iset_mem x (c_halfops c)
  /\ iset_mem x (c_voices (replaceUser o n c)) = iset_mem x (c_voices c).
Proof.
  intro H. rewrite replaceUser_users, replaceUser_ops, replaceUser_halfops, replaceUser_voices.
  rewrite !(renamed_caseonly o n x _ H). repeat split.
Qed.
Lemma swapped_order_loses o n s : iset_mem o (iset_discard o (iset_add n s)) = false.
Proof. rewrite iset_mem_discard, feq_refl. reflexivity. Qed.
