(* C10/Sim.v — the executable agreement predicate between the reference server's
   view and the bot model, the decidable domain, and the refutation witnesses. *)
From Coq Require Import List NArith ZArith Bool.
Import ListNotations.
Require Import Base.Wire Base.PyStr C10.Model C10.Lemmas C10.Handlers C10.SrvLemmas C10.Feed C10.Inv.
Open Scope N_scope.

Definition incl_f (a b : list str) : bool := forallb (fun x => iset_mem x b) a.
Definition same_f (a b : list str) : bool := incl_f a b && incl_f b a.
Definition agree_modes (vm : list (N * option str)) (bm : list (N * mval)) : bool :=
  forallb (fun kv => match cdict_get (fst kv) bm, snd kv with
                     | Some MNone, None => true
                     | Some MNone, Some _ => false
                     | Some mv, Some a => seq_eqb (mval_str mv) a
                     | _, _ => false end) vm
  && forallb (fun kv => existsb (fun kv' => N.eqb (fst kv) (fst kv')) vm) bm.
Definition agree_chan (v : vchan) (c : chan) : bool :=
  same_f (v_users v) (c_users c) && same_f (v_ops v) (c_ops c) && same_f (v_halfops v) (c_halfops c)
  && same_f (v_voices v) (c_voices c) && same_f (v_bans v) (c_bans c) && seq_eqb (v_topic v) (c_topic c)
  && agree_modes (v_modes v) (c_modes c) && Z.eqb (Z.of_N (v_created v)) (c_created c).
(* the property text: same channels, same members / ops / halfops / voices / bans / topic / modes,
   and the hostmask of every visible nick, names under IRC case rules *)
Definition agree (s : srv) (b : bot) : bool :=
  seq_eqb (s_me s) (b_nick b)
  && forallb (fun v => match idict_get (v_name v) (b_chans b) with Some c => agree_chan v c | None => false end)
             (view_chans s)
  && forallb (fun kc => existsb (fun v => feq (fst kc) (v_name v)) (view_chans s)) (b_chans b)
  && forallb (fun kv => match idict_get (fst kv) (b_n2h b) with Some hm => seq_eqb hm (snd kv) | None => false end)
             (view_hosts s).

Section Run.
Variables (nick0 prefix0 : str) (mp uh : bool).
Definition feed_all (b : bot) (ms : list msg) : bot := fold_left (feed_or_reset nick0 prefix0) ms b.
Definition sim_step (sb : srv * bot) (a : action) : srv * bot :=
  let '(s', ms) := step nick0 mp uh (fst sb) a in (s', feed_all (snd sb) ms).
Definition final (s : srv) (b : bot) (acts : list action) : srv * bot := fold_left sim_step acts (s, b).
Fixpoint all_agree (s : srv) (b : bot) (acts : list action) : bool :=
  match acts with
  | [] => true
  | a :: r => let '(s', b') := sim_step (s, b) a in agree s' b' && all_agree s' b' r
  end.
End Run.

(* ---- the decidable domain: histories without the remaining defect trigger (int() coercion of mode parameters,
        finding F10c); NAMES must be multi-prefix (otherwise lower flags are not disclosed).  Case-only nick changes and
        userhost-in-names NAMES are inside the domain since the repairs of F10 and F10b. ---- *)
Definition action_dom (a : action) : bool :=
  match a with
  | ANames _ mp' _ => mp'
  | AMode _ _ chgs => forallb (fun g => match snd g with Some a => canonical_arg a | None => true end) chgs
  | _ => true
  end.
Definition dom (acts : list action) : bool := forallb action_dom acts.

Definition s2 (l : list N) : str := l.
Definition n_test : str := [116; 101; 115; 116].
Definition p_test : str := n_test ++ [33; 117; 64; 120].
Definition n_Foo : str := [70; 111; 111].   Definition n_foo : str := [102; 111; 111].
Definition c_a : str := [35; 97].            Definition u_ : str := [117].  Definition h_ : str := [104].
Definition start : srv := srv0 n_test [98; 111; 116] [98; 46; 104].
Definition bot_start : bot := reset n_test p_test.
Definition pre : list action := [AConnect n_Foo u_ h_; AJoin n_test [c_a]; AJoin n_Foo [c_a]].

Definition witness_casenick : list action := pre ++ [ANick n_Foo n_foo].
Definition witness_uhnames : list action := pre ++ [ANames c_a true true].
Definition witness_intarg : list action := pre ++ [AMode n_test c_a [(true, 107, Some [48; 48; 55])]].

Definition ends_agreeing (acts : list action) : bool :=
  let '(s, b) := final n_test p_test true false start bot_start acts in agree s b.

Lemma pre_agrees : dom pre = true /\ ends_agreeing pre = true.
Proof. split; vm_compute; reflexivity. Qed.
(* the two former refutation witnesses (findings F10, F10b, repaired) are now inside the domain and agree *)
Lemma fixed_casenick : dom witness_casenick = true /\ ends_agreeing witness_casenick = true.
Proof. split; vm_compute; reflexivity. Qed.
Lemma fixed_uhnames : dom witness_uhnames = true /\ ends_agreeing witness_uhnames = true.
Proof. split; vm_compute; reflexivity. Qed.
Lemma refuted_intarg : dom witness_intarg = false /\ ends_agreeing witness_intarg = false.
Proof. split; vm_compute; reflexivity. Qed.

(* non-vacuity of the domain: a history inside it that exercises multi-target JOIN/PART/KICK, case-variant
   names, mixed mode strings, a real nick change of a user and of the bot, QUIT, reconnect -- the model bot agrees
   with the server after every action.  (An example, not the general claim.) *)
Definition n_bar : str := [98; 97; 114].  Definition n_BAR : str := [66; 65; 82].
Definition n_Baz : str := [66; 97; 122].  Definition n_FOO : str := [70; 79; 79].
Definition c_b : str := [35; 98].         Definition c_A : str := [35; 65].   Definition c_B : str := [35; 66].
Definition n_TEST : str := [84; 69; 83; 84]. Definition n_Test2 : str := [84; 101; 115; 116; 50].
Definition mask1 : str := [42; 33; 42; 64; 88].  Definition mask2 : str := [42; 33; 42; 64; 120].
Definition example_history : list action :=
  [AConnect n_Foo u_ h_; AConnect n_bar u_ h_; AJoin n_Foo [c_a; c_b]; AJoin n_test [c_A; c_B];
   AMode n_foo c_a [(true, 111, Some n_TEST); (true, 118, Some n_FOO)];
   ANick n_Foo n_Baz; AKick n_test c_a [n_foo; n_Baz]; AJoin n_bar [c_b; c_a];
   AMode n_TEST c_A [(true, 111, Some n_BAR); (false, 111, Some n_bar); (true, 98, Some mask1); (false, 98, Some mask2);
                     (true, 107, Some [107]); (true, 108, Some [49; 48]); (true, 116, None)];
   ATopic n_bar c_a [104; 105]; AChghost n_bar [118] [119]; AWho c_a; ANames c_A true false;
   ANick n_bar n_BAR; ANames c_a true true; ANick n_Baz [98; 65; 90];
   AQuit n_BAR; ANick n_test n_Test2; APart n_Test2 [c_a]; AReset; AJoin n_test [c_b]; AKick n_Baz c_b [n_TEST]].
Example example_in_domain_agrees :
  dom example_history = true /\ all_agree n_test p_test true false start bot_start example_history = true.
Proof. split; vm_compute; reflexivity. Qed.

(* ---- self-leave at the level of Irc.feedMsg ---- *)
Lemma nicksetters_part : existsb (seq_eqb str_PART) gen.T10.NICKSETTERS = false.
Proof. vm_compute. reflexivity. Qed.
Lemma nicksetters_kick : existsb (seq_eqb str_KICK) gen.T10.NICKSETTERS = false.
Proof. vm_compute. reflexivity. Qed.

Lemma irc_pre_plain m b :
  seq_eqb (m_prefix m) (b_nick b) = false ->
  existsb (seq_eqb (m_command m)) gen.T10.NICKSETTERS = false ->
  seq_eqb (upper (m_command m)) str_NICK = false -> seq_eqb (upper (m_command m)) str_JOIN = false ->
  irc_pre m b = (if seq_eqb (msg_nick m) (b_nick b) && negb (seq_eqb (b_prefix b) (m_prefix m))
                 then set_prefix b (m_prefix m) else b, Some m).
Proof.
  intros Hp Hns Hn Hj. unfold irc_pre. rewrite Hp. cbv zeta. rewrite Hns. cbn [negb]. rewrite Hn, Hj. reflexivity.
Qed.

Lemma feed_self_part b p a0 rest c :
  seq_eqb p (b_nick b) = false ->
  feq (msg_nick (Msg p str_PART (a0 :: rest))) (b_nick b) = true ->
  In c (split_char COMMA a0) ->
  idict_has c (b_chans (feed b (Msg p str_PART (a0 :: rest)))) = false.
Proof.
  intros Hp Hn Hin. unfold feed.
  set (m := Msg p str_PART (a0 :: rest)) in *.
  rewrite (irc_pre_plain m b Hp nicksetters_part eq_refl eq_refl).
  set (b' := if seq_eqb (msg_nick m) (b_nick b) && negb (seq_eqb (b_prefix b) (m_prefix m)) then set_prefix b (m_prefix m) else b).
  assert (Hb' : b_nick b' = b_nick b).
  { unfold b'. destruct (seq_eqb (msg_nick m) (b_nick b) && negb (seq_eqb (b_prefix b) (m_prefix m))); reflexivity. }
  unfold addMsg.
  set (b1 := if isUserHostmask (m_prefix m) && negb (seq_eqb (m_command m) str_NICK) then n2h_set (msg_nick m) (m_prefix m) b' else b').
  assert (Hb1 : b_nick b1 = b_nick b).
  { unfold b1. destruct (isUserHostmask (m_prefix m) && negb (seq_eqb (m_command m) str_NICK)); cbn; exact Hb'. }
  change (upper (m_command m)) with str_PART.
  change (seq_eqb str_PART str_JOIN) with false. change (seq_eqb str_PART str_PART) with true.
  cbv iota.
  apply (self_part m b1 a0 rest c); [reflexivity| |exact Hin].
  rewrite Hb1. exact Hn.
Qed.

Lemma feed_self_kick b p ch users rest :
  seq_eqb p (b_nick b) = false ->
  existsb (fun u => feq u (b_nick b)) (split_char COMMA users) = true ->
  idict_has ch (b_chans (feed b (Msg p str_KICK (ch :: users :: rest)))) = false.
Proof.
  intros Hp Hk. unfold feed.
  set (m := Msg p str_KICK (ch :: users :: rest)) in *.
  rewrite (irc_pre_plain m b Hp nicksetters_kick eq_refl eq_refl).
  set (b' := if seq_eqb (msg_nick m) (b_nick b) && negb (seq_eqb (b_prefix b) (m_prefix m)) then set_prefix b (m_prefix m) else b).
  assert (Hb' : b_nick b' = b_nick b).
  { unfold b'. destruct (seq_eqb (msg_nick m) (b_nick b) && negb (seq_eqb (b_prefix b) (m_prefix m))); reflexivity. }
  unfold addMsg.
  set (b1 := if isUserHostmask (m_prefix m) && negb (seq_eqb (m_command m) str_NICK) then n2h_set (msg_nick m) (m_prefix m) b' else b').
  assert (Hb1 : b_nick b1 = b_nick b).
  { unfold b1. destruct (isUserHostmask (m_prefix m) && negb (seq_eqb (m_command m) str_NICK)); cbn; exact Hb'. }
  change (upper (m_command m)) with str_KICK.
  change (seq_eqb str_KICK str_JOIN) with false. change (seq_eqb str_KICK str_PART) with false.
  change (seq_eqb str_KICK str_KICK) with true.
  cbv iota.
  apply (self_kick m b1 ch users rest); [reflexivity|].
  rewrite Hb1. exact Hk.
Qed.

Lemma reset_clears n p : b_chans (reset n p) = [] /\ b_n2h (reset n p) = [] /\ b_nick (reset n p) = n.
Proof. repeat split. Qed.
Lemma feed_reset n0 p0 b : feed_or_reset n0 p0 b (Msg [] RESET []) = reset n0 p0.
Proof. reflexivity. Qed.

(* non-vacuity of feed_self_part / feed_self_kick: a state where the bot is on #a *)
Definition on_a : bot := feed bot_start (Msg p_test str_JOIN [c_a]).
Example self_leave_nonvacuous :
  idict_has c_a (b_chans on_a) = true
  /\ seq_eqb p_test (b_nick on_a) = false
  /\ feq (msg_nick (Msg p_test str_PART [c_A])) (b_nick on_a) = true
  /\ existsb (fun u => feq u (b_nick on_a)) (split_char COMMA (n_foo ++ [COMMA] ++ n_TEST)) = true.
Proof. vm_compute. repeat split; reflexivity. Qed.
