(* C10/Step10.v — the bot's own JOIN with ANY list of targets (channels nobody is on, or channels with members). *)
From Coq Require Import List NArith ZArith Bool Lia.
Import ListNotations.
Require Import Base.Wire Base.PyStr C10.Model C10.Lemmas C10.Handlers C10.SrvLemmas C10.Feed C10.Inv C10.Frame C10.Sim C10.Step C10.Step2 C10.StepMode C10.Step3 C10.Step6 C10.Step7 C10.Keys C10.Step8 C10.Step9.
Open Scope N_scope.

(* ---- one target the bot really enters, on the server ---- *)
Lemma join_me_true s c s1 : wf s -> join_chan (s_me s) c s = (s1, true) ->
  s_me s1 = s_me s /\ s_users s1 = s_users s /\ mych s c = false /\ valid_chan c = true
  /\ (exists chJ, idict_get c (s_chans s1) = Some chJ /\ is_member (s_me s) chJ = true)
  /\ (forall c', feq c' c = false -> idict_get c' (s_chans s1) = idict_get c' (s_chans s))
  /\ wf s1.
Proof.
  intros W Hj. unfold join_chan in Hj. destruct (valid_chan c) eqn:Vc; cbn [negb] in Hj; [|discriminate].
  assert (Hmeu : idict_has (s_me s) (s_users s) = true).
  { destruct (wf_meuser s W) as [u0 [H0 _]]. unfold idict_has. rewrite H0. reflexivity. }
  assert (Hfresh : mych s c = false ->
            let s2 := set_chans_s s (idict_set c (fresh_chan (s_me s)) (s_chans s)) in
            s_me s2 = s_me s /\ s_users s2 = s_users s /\ mych s c = false /\ true = true
            /\ (exists chJ, idict_get c (s_chans s2) = Some chJ /\ is_member (s_me s) chJ = true)
            /\ (forall c', feq c' c = false -> idict_get c' (s_chans s2) = idict_get c' (s_chans s)) /\ wf s2).
  { intro Hmy. cbn zeta. split; [reflexivity|split; [reflexivity|split; [exact Hmy|split; [reflexivity|split; [|split]]]]].
    - exists (fresh_chan (s_me s)). cbn [set_chans_s s_chans]. rewrite idict_get_set, feq_refl. split; [reflexivity|].
      unfold is_member, idict_has, fresh_chan. cbn. rewrite feq_refl. reflexivity.
    - intros c' Hc'. cbn [set_chans_s s_chans]. rewrite idict_get_set, Hc'. reflexivity.
    - destruct W as [W1 W2 W3 W4 W5]. constructor; try assumption.
      + intros c' ch' x Hg Hx. cbn [set_chans_s s_chans s_users] in *. rewrite idict_get_set in Hg.
        destruct (feq c' c); [|apply (W4 c' ch' x Hg Hx)]. inversion Hg; subst ch'.
        unfold is_member, idict_has, fresh_chan in Hx. cbn in Hx. destruct (feq x (s_me s)) eqn:E; [|discriminate].
        rewrite (idict_has_feq x (s_me s) _ E). exact Hmeu.
      + intros c' ch' f v Hg Hf. cbn [set_chans_s s_chans] in Hg. rewrite idict_get_set in Hg.
        destruct (feq c' c); [inversion Hg; subst ch'; discriminate|apply (W5 c' ch' f v Hg Hf)]. }
  destruct (idict_get c (s_chans s)) as [ch|] eqn:Ec.
  - destruct (sc_members ch) as [|m0 ms0] eqn:Em.
    + inversion Hj; subst s1. apply Hfresh. unfold mych. rewrite Ec. unfold is_member, idict_has. rewrite Em. reflexivity.
    + destruct (is_member (s_me s) ch) eqn:Eme; [discriminate|]. inversion Hj; subst s1.
      split; [reflexivity|split; [reflexivity|split; [|split; [reflexivity|split; [|split]]]]].
      * unfold mych. rewrite Ec. exact Eme.
      * exists (add_member (s_me s) ch). cbn [set_chans_s s_chans]. rewrite (get_upd_same c c _ _ ch (feq_refl c) Ec). split; [reflexivity|].
        unfold is_member, add_member. cbn [sc_members set_members]. rewrite idict_has_set, feq_refl. reflexivity.
      * intros c' Hc'. cbn [set_chans_s s_chans]. apply get_upd_other. exact Hc'.
      * apply (wf_upd s c ch (add_member (s_me s)) Ec W).
        -- intros x Hx. unfold is_member, add_member in Hx. cbn [sc_members set_members] in Hx. rewrite idict_has_set in Hx.
           apply orb_true_iff in Hx as [Hx|Hx]; [rewrite (idict_has_feq x (s_me s) _ Hx); exact Hmeu|apply (wf_members s W c ch x Ec Hx)].
        -- intros f v Hf. apply (wf_modes s W c ch f v Ec Hf).
  - inversion Hj; subst s1. apply Hfresh. unfold mych. rewrite Ec. reflexivity.
Qed.

Fixpoint chainJ (s : srv) (jn : list str) (s' : srv) : Prop :=
  match jn with
  | [] => s' = s
  | c :: r => exists s1, join_chan (s_me s) c s = (s1, true) /\ chainJ s1 r s'
  end.
Lemma mine_loopJ : forall chans s joined0,
  let '(s', joined) := fold_left join_mine chans (s, joined0) in
  exists jn, joined = joined0 ++ jn /\ chainJ s jn s'.
Proof.
  induction chans as [|c chans IH]; intros s joined0.
  - cbn [fold_left]. exists []. rewrite app_nil_r. split; reflexivity.
  - cbn [fold_left]. unfold join_mine at 2. destruct (join_chan (s_me s) c s) as [s1 j] eqn:Ej. destruct j.
    + specialize (IH s1 (joined0 ++ [c])). destruct (fold_left join_mine chans (s1, joined0 ++ [c])) as [s' joined].
      destruct IH as [jn [Hj Hc]]. exists (c :: jn). split; [rewrite Hj, <- app_assoc; reflexivity|].
      cbn [chainJ]. exists s1. split; [exact Ej|exact Hc].
    + pose proof (join_chan_false _ _ _ _ Ej) as E. subst s1. specialize (IH s joined0).
      destruct (fold_left join_mine chans (s, joined0)) as [s' joined]. exact IH.
Qed.

Lemma mych_join s c s1 : wf s -> join_chan (s_me s) c s = (s1, true) -> forall c', mych s1 c' = feq c' c || mych s c'.
Proof.
  intros W Hj c'. destruct (join_me_true s c s1 W Hj) as [Hme [_ [_ [_ [[chJ [Hg Hm]] [Hoth _]]]]]].
  unfold mych. rewrite Hme. destruct (feq c' c) eqn:E.
  - rewrite (idict_get_feq c' c _ E), Hg. exact Hm.
  - rewrite (Hoth c' E). reflexivity.
Qed.
Lemma chainJ_keeps s' : forall r s c, wf s -> chainJ s r s' -> mych s c = true -> existsb (feq c) r = false /\ mych s' c = true.
Proof.
  induction r as [|c2 r IH]; intros s c W Hc Hm.
  - cbn in Hc. subst s'. split; [reflexivity|exact Hm].
  - destruct Hc as [s1 [Hj Hc]]. destruct (join_me_true s c2 s1 W Hj) as [_ [_ [Hm2 [_ [_ [_ W1]]]]]].
    cbn [existsb]. destruct (feq c c2) eqn:E; [rewrite (mych_feq s c c2 E), Hm2 in Hm; discriminate|]. cbn [orb].
    apply (IH s1 c W1 Hc). rewrite (mych_join s c2 s1 W Hj), E. exact Hm.
Qed.
Lemma chainJ_facts s' : forall jn s, wf s -> skeys s -> chainJ s jn s' ->
  s_me s' = s_me s /\ s_users s' = s_users s /\ wf s' /\ skeys s' /\ distinct jn /\ Forall (fun p => mem COMMA p = false) jn
  /\ (forall c, In c jn -> exists chJ, idict_get c (s_chans s') = Some chJ /\ is_member (s_me s) chJ = true)
  /\ (forall c', existsb (feq c') jn = false -> idict_get c' (s_chans s') = idict_get c' (s_chans s)).
Proof.
  induction jn as [|c r IH]; intros s W K Hc.
  - cbn in Hc. subst s'.
    split; [reflexivity|split; [reflexivity|split; [exact W|split; [exact K|split; [exact Logic.I|split; [apply Forall_nil|split; [intros c []|intros; reflexivity]]]]]]].
  - destruct Hc as [s1 [Hj Hc]].
    destruct (join_me_true s c s1 W Hj) as [Hme [Hus [Hmy [Hv [[chJ [Hg Hm]] [Hoth W1]]]]]].
    pose proof (join_chan_skeys (s_me s) c s (wf_me s W) K) as K1. rewrite Hj in K1. cbn [fst] in K1.
    destruct (IH s1 W1 K1 Hc) as [A1 [A2 [A3 [A4 [A5 [A6 [A7 A8]]]]]]].
    assert (Hmy1 : mych s1 c = true) by (rewrite (mych_join s c s1 W Hj), feq_refl; reflexivity).
    destruct (chainJ_keeps s' r s1 c W1 Hc Hmy1) as [Hnot _].
    split; [rewrite A1; exact Hme|]. split; [rewrite A2; exact Hus|]. split; [exact A3|]. split; [exact A4|].
    split; [split; assumption|]. split.
    { constructor; [apply andb_true_iff in Hv as [Hv _]; apply isChannel_nocomma; exact Hv|exact A6]. }
    split.
    + intros c2 [E|Hin].
      * subst c2. exists chJ. rewrite (A8 c Hnot), Hg. auto.
      * rewrite <- Hme. apply A7. exact Hin.
    + intros c' Hn. cbn [existsb] in Hn. apply orb_false_iff in Hn as [Hn1 Hn2]. rewrite (A8 c' Hn2). apply Hoth. exact Hn1.
Qed.

Lemma join_foldJ me : me <> [] -> forall jn s s' b, s_me s = me -> wf s -> chainJ s jn s' ->
  (forall c, idict_has c (b_chans b) = mych s c) ->
  fold_left (join_step me) jn b = set_all (addUser me chan0) jn b.
Proof.
  intros Hne. induction jn as [|c r IH]; intros s s' b Hme W Hc Hh; [reflexivity|].
  destruct Hc as [s1 [Hj Hc]]. rewrite Hme in Hj.
  assert (Hj' : join_chan (s_me s) c s = (s1, true)) by (rewrite Hme; exact Hj).
  destruct (join_me_true s c s1 W Hj') as [Hme1 [_ [Hm [_ [_ [_ W1]]]]]].
  cbn [fold_left set_all].
  assert (E : join_step me b c = chan_set c (addUser me chan0) b).
  { unfold join_step. rewrite Hh, Hm. destruct me; [contradiction|reflexivity]. }
  rewrite E. apply (IH s1 s' _ (eq_trans Hme1 Hme) W1 Hc).
  intro c'. cbn [chan_set set_chans b_chans]. rewrite idict_has_set, (mych_join s c s1 W Hj'), Hh. reflexivity.
Qed.

Lemma truthy_trans sv b0 b1 b2 : truthy sv b0 b1 -> truthy sv b1 b2 -> truthy sv b0 b2.
Proof.
  intros T1 T2 x. destruct (T2 x) as [E|[ux [Hx E]]]; [|right; exists ux; auto].
  rewrite E. apply T1.
Qed.

Section Steps10.
Variables (nick0 prefix0 : str) (uh : bool).
Notation fa := (feed_all nick0 prefix0).

Section Bursts.
Variables (sv : srv) (u : suser) (me : str).
Hypothesis Hsm : s_me sv = me.
Hypothesis Hu : idict_get me (s_users sv) = Some u.
Hypothesis He : su_nick u = me.
Hypothesis W' : wf sv.
Hypothesis K' : skeys sv.

Lemma keys_ok_of c ch : idict_get c (s_chans sv) = Some ch -> forall k, In k (map fst (sc_members ch)) -> key_ok sv k.
Proof.
  intros Hc k Hk. destruct (K' c ch Hc) as [Kk _]. split; [apply Kk; exact Hk|].
  pose proof (wf_members sv W' c ch k Hc (key_has _ k Hk)) as Hh. unfold idict_has in Hh.
  destruct (idict_get k (s_users sv)) as [u0|] eqn:E; [|discriminate]. exists u0.
  destruct (wf_users sv W' k u0 E) as [A B]. auto.
Qed.

Lemma burstsJ : forall todo b, b_nick b = me -> distinct todo ->
  (forall c, In c todo -> idict_get c (b_chans b) = Some (addUser me chan0)) ->
  (forall c, In c todo -> exists ch, idict_get c (s_chans sv) = Some ch /\ is_member me ch = true) ->
  b_nick (fa b (bursts sv u true uh todo)) = me
  /\ (forall c', existsb (feq c') todo = false -> idict_get c' (b_chans (fa b (bursts sv u true uh todo))) = idict_get c' (b_chans b))
  /\ (forall c, In c todo -> exists ch R, idict_get c (s_chans sv) = Some ch
         /\ idict_get c (b_chans (fa b (bursts sv u true uh todo))) = Some R /\ chan_rel ch R)
  /\ truthy sv b (fa b (bursts sv u true uh todo))
  /\ (forall c ch x ux, In c todo -> idict_get c (s_chans sv) = Some ch -> idict_get x (s_users sv) = Some ux ->
         is_member x ch = true -> idict_get x (b_n2h (fa b (bursts sv u true uh todo))) = Some (hostmask ux)).
Proof.
  assert (Hvme : valid_nick me = true) by (rewrite <- Hsm; apply (wf_me sv W')).
  induction todo as [|c r IH]; intros b Hn Hd Hb Hs.
  - cbn. split; [exact Hn|split; [reflexivity|split; [intros c []|split; [apply truthy_refl|intros c ch x ux []]]]].
  - destruct Hd as [Hnot Hd]. destruct (Hs c (or_introl eq_refl)) as [ch [Hc Hm]].
    unfold bursts. cbn [flat_map]. rewrite Hc. fold (bursts sv u true uh r). rewrite (fa_app nick0 prefix0).
    assert (C0 : cur sv c b b (addUser me chan0)).
    { split; [reflexivity|split; [|apply truthy_refl]]. intro c'. destruct (feq c' c) eqn:E; [|reflexivity].
      rewrite (idict_get_feq c' c _ E). apply Hb. left. reflexivity. }
    destruct (rest_any nick0 prefix0 uh sv c ch u me Hsm Hu He Hvme (keys_ok_of c ch Hc)
                (fun f v Hf => wf_modes sv W' c ch f v Hc Hf) (proj2 (K' c ch Hc)) b b Hn Hm C0) as [R [[A1 [A2 A3]] [Rr Pm]]].
    set (b2 := fa b (burst_rest sv u c ch true uh)) in *.
    assert (Hnr : forall c2, In c2 r -> feq c2 c = false).
    { intros c2 Hin. destruct (feq c2 c) eqn:E; [|reflexivity].
      assert (existsb (feq c) r = true) by (apply existsb_exists; exists c2; split; [exact Hin|rewrite feq_sym; exact E]). congruence. }
    destruct (IH b2) as [B1 [B2 [B3 [B4 B5]]]].
    + rewrite A1. exact Hn.
    + exact Hd.
    + intros c2 Hin. rewrite A2, (Hnr c2 Hin). apply Hb. right. exact Hin.
    + intros c2 Hin. apply Hs. right. exact Hin.
    + split; [exact B1|split; [|split; [|split]]].
      * intros c' Hn'. cbn [existsb] in Hn'. apply orb_false_iff in Hn' as [H1 H2]. rewrite (B2 c' H2), A2, H1. reflexivity.
      * intros c2 [E|Hin]; [|apply B3; exact Hin]. subst c2. exists ch, R. split; [exact Hc|split; [|exact Rr]].
        rewrite (B2 c Hnot), A2, feq_refl. reflexivity.
      * apply (truthy_trans sv b b2 _ A3 B4).
      * intros c2 ch2 x ux [E|Hin] Hc2 Hx Hmx; [|apply (B5 c2 ch2 x ux Hin Hc2 Hx Hmx)]. subst c2.
        rewrite Hc in Hc2. inversion Hc2; subst ch2. pose proof (Pm x ux Hx Hmx) as Ht.
        destruct (B4 x) as [E|[ux' [Hx' E]]]; [rewrite E; exact Ht|]. rewrite Hx in Hx'. inversion Hx'; subst ux'. exact E.
Qed.
End Bursts.

Lemma step_join_self_any s b n chans : Inv s b -> skeys s -> feq n (s_me s) = true ->
  let '(s', ms) := step nick0 true uh s (AJoin n chans) in Inv s' (fa b ms).
Proof.
  intros I K Hf. cbn [step]. destruct (idict_get n (s_users s)) as [u|] eqn:En; [|exact I]. rewrite Hf.
  pose proof (inv_wf s b I) as W. destruct (wf_users s W n u En) as [Hk Hgu].
  assert (Hu : idict_get (s_me s) (s_users s) = Some u) by (rewrite <- (idict_get_feq n (s_me s) _ Hf); exact En).
  pose proof (wf_me_user s u n W En Hf) as He.
  pose proof (mine_loopJ chans s []) as P.
  destruct (fold_left join_mine chans (s, [])) as [s' joined]. destruct P as [jn [Hj Hc]]. cbn [app] in Hj. subst joined.
  destruct jn as [|j0 jr].
  - cbn in Hc. subst s'. exact I.
  - set (jn := j0 :: jr) in *.
    destruct (chainJ_facts s' jn s W K Hc) as [Hme' [Hus' [W' [K' [Hd [Hnc [Hin Hout]]]]]]].
    unfold feed_all. cbn [fold_left]. rewrite (for_cmd nick0 prefix0) by reflexivity. fold (feed_all nick0 prefix0).
    destruct (feed_user u str_JOIN [join [COMMA] jn] b st_doJoin Hgu (Inv_valid_nick s b I)) as [b' [Hcore Hfeed]];
      try reflexivity; try (intros; discriminate); try exact addMsg_JOIN.
    rewrite Hfeed. destruct (Inv_actor s b' n u (Inv_core s b b' Hcore I) En) as [I1 _].
    set (b1 := n2h_set (su_nick u) (hostmask u) b') in *.
    rewrite (st_doJoin_fold (Msg (hostmask u) str_JOIN [join [COMMA] jn]) b1 (join [COMMA] jn) [] eq_refl).
    rewrite (split_char_join COMMA jn); [|discriminate|exact Hnc].
    rewrite (msg_nick_user u _ _ Hgu), He.
    assert (Hne : s_me s <> []) by (apply (nn_ne _ (valid_nick_nice _ (wf_me s W)))).
    rewrite (join_foldJ (s_me s) Hne jn s s' b1 eq_refl W Hc (inv_chans s b1 I1)).
    set (bJ := set_all (addUser (s_me s) chan0) jn b1).
    destruct (set_all_other (addUser (s_me s) chan0) jn b1) as [HJn HJh]. fold bJ in HJn, HJh.
    change (fold_left (feed_or_reset nick0 prefix0) (bursts s' u true uh jn) bJ) with (fa bJ (bursts s' u true uh jn)).
    assert (Hu' : idict_get (s_me s) (s_users s') = Some u) by (rewrite Hus'; exact Hu).
    destruct (burstsJ s' u (s_me s) Hme' Hu' He W' K' jn bJ) as [B1 [B2 [B3 [B4 B5]]]].
    + rewrite HJn. apply (inv_nick s b1 I1).
    + exact Hd.
    + intros c Hc0. unfold bJ. rewrite set_all_get, (in_existsb c jn Hc0). reflexivity.
    + exact Hin.
    + set (bF := fa bJ (bursts s' u true uh jn)) in *.
      assert (Hcase : forall c', existsb (feq c') jn = true -> exists k, In k jn /\ feq c' k = true).
      { intros c' H. apply existsb_exists in H. exact H. }
      destruct I1 as [W1 N1 C1 R1 H1].
      constructor.
      * exact W'.
      * rewrite B1. symmetry. exact Hme'.
      * intro c'. unfold idict_has, mych. rewrite Hme'. destruct (existsb (feq c') jn) eqn:E.
        -- destruct (Hcase c' E) as [k [Hkj Hfk]]. destruct (B3 k Hkj) as [ch [R [Hg [Hb _]]]].
           rewrite (idict_get_feq c' k _ Hfk), Hb, (idict_get_feq c' k _ Hfk), Hg.
           destruct (Hin k Hkj) as [ch2 [Hg2 Hm2]]. rewrite Hg in Hg2. inversion Hg2; subst ch2. symmetry. exact Hm2.
        -- rewrite (B2 c' E). unfold bJ. rewrite set_all_get, E, (Hout c' E). apply (C1 c').
      * intros c' ch' bc' Hg Hb. destruct (existsb (feq c') jn) eqn:E.
        -- destruct (Hcase c' E) as [k [Hkj Hfk]]. destruct (B3 k Hkj) as [ch [R [Hg2 [Hb2 Rr]]]].
           rewrite (idict_get_feq c' k _ Hfk), Hg2 in Hg. rewrite (idict_get_feq c' k _ Hfk), Hb2 in Hb.
           inversion Hg; inversion Hb; subst. exact Rr.
        -- rewrite (Hout c' E) in Hg. rewrite (B2 c' E) in Hb. unfold bJ in Hb. rewrite set_all_get, E in Hb. apply (R1 c' ch' bc' Hg Hb).
      * intros x ux c'' Hx Hv. rewrite Hus' in Hx. unfold vis_in in Hv. rewrite Hme' in Hv.
        destruct (idict_get c'' (s_chans s')) as [ch''|] eqn:Eg; [|discriminate]. apply andb_true_iff in Hv as [Hv1 Hv2].
        destruct (existsb (feq c'') jn) eqn:E.
        -- destruct (Hcase c'' E) as [k [Hkj Hfk]]. apply (B5 k ch'' x ux Hkj); [rewrite <- (idict_get_feq c'' k _ Hfk); exact Eg|rewrite Hus'; exact Hx|exact Hv2].
        -- rewrite (Hout c'' E) in Eg.
           assert (Hold : idict_get x (b_n2h b1) = Some (hostmask ux)).
           { apply (H1 x ux c'' Hx). unfold vis_in. rewrite Eg, Hv1, Hv2. reflexivity. }
           destruct (B4 x) as [E2|[ux' [Hx' E2]]].
           ++ rewrite E2, HJh. exact Hold.
           ++ rewrite Hus', Hx in Hx'. inversion Hx'; subst ux'. exact E2.
Qed.
End Steps10.
