(* C10/Step3.v — step cases QUIT and NICK: every channel is rewritten on both sides. *)
From Coq Require Import List NArith ZArith Bool Lia.
Import ListNotations.
Require Import Base.Wire Base.PyStr C10.Model C10.Lemmas C10.Handlers C10.SrvLemmas C10.Feed C10.Inv C10.Frame C10.Sim C10.Step C10.Step2.
Open Scope N_scope.

Lemma rel_del_nonmember ch bc n : is_member n ch = false -> chan_rel ch bc -> chan_rel (del_member n ch) bc.
Proof.
  intros Hn [A B C D E0 F G H].
  assert (Hg : forall x, feq x n = true -> idict_get x (sc_members ch) = None).
  { intros x Hx. rewrite (idict_get_feq x n _ Hx). unfold is_member, idict_has in Hn.
    destruct (idict_get n (sc_members ch)); [discriminate|reflexivity]. }
  assert (Hm : forall x, is_member x (del_member n ch) = is_member x ch).
  { intro x. rewrite member_del. destruct (feq x n) eqn:E; [|reflexivity]. cbn. unfold is_member, idict_has. rewrite (Hg x E). reflexivity. }
  assert (Hf : forall p x, mflag p x (del_member n ch) = mflag p x ch).
  { intros p x. rewrite mflag_del. destruct (feq x n) eqn:E; [|reflexivity]. cbn. unfold mflag. rewrite (Hg x E). reflexivity. }
  constructor; try assumption; intro x; rewrite ?Hm, ?Hf; auto.
Qed.

(* ---- a rename inside one channel ---- *)
Lemma member_ren o n x ch : is_member x (ren_member o n ch) = renamed o n x (is_member o ch) (is_member x ch).
Proof.
  unfold ren_member, is_member at 2, idict_has, renamed. destruct (idict_get o (sc_members ch)) as [f|]; [|reflexivity].
  unfold is_member. cbn [sc_members set_members]. rewrite idict_has_set, idict_has_del. reflexivity.
Qed.
Lemma mflag_ren p o n x ch :
  mflag p x (ren_member o n ch) =
  match idict_get o (sc_members ch) with
  | Some f => if feq x n then p f else if feq x o then false else mflag p x ch
  | None => mflag p x ch
  end.
Proof.
  unfold ren_member. destruct (idict_get o (sc_members ch)) as [f|]; [|reflexivity].
  unfold mflag. cbn [sc_members set_members]. rewrite idict_get_set, idict_get_del.
  destruct (feq x n); [reflexivity|]. destruct (feq x o); reflexivity.
Qed.
Lemma is_member_feq a b ch : feq a b = true -> is_member a ch = is_member b ch.
Proof. intro H. unfold is_member. apply idict_has_feq. exact H. Qed.
Lemma mflag_nonmember p x ch : is_member x ch = false -> mflag p x ch = false.
Proof. unfold is_member, idict_has, mflag. destruct (idict_get x (sc_members ch)); [discriminate|reflexivity]. Qed.

Lemma flag_ren (p : flags -> bool) o o' n ch S :
  feq o o' = true -> (is_member n ch = true -> feq o n = true) ->
  (forall x, iset_mem x S = mflag p x ch) ->
  forall x, renamed o' n x (iset_mem o' S) (iset_mem x S) = mflag p x (ren_member o n ch).
Proof.
  intros Hoo Hfresh HS x. rewrite mflag_ren, !HS. unfold renamed.
  rewrite <- (Agree.mflag_feq p o o' ch Hoo). rewrite <- (feq_trans_r o o' x Hoo).
  destruct (idict_get o (sc_members ch)) as [f|] eqn:Eo.
  - assert (Hpo : mflag p o ch = p f) by (unfold mflag; rewrite Eo; reflexivity). rewrite Hpo.
    destruct (p f) eqn:Epf.
    + destruct (feq x n); [reflexivity|]. destruct (feq x o); reflexivity.
    + destruct (feq x n) eqn:Exn.
      * destruct (is_member n ch) eqn:Emn.
        -- pose proof (Hfresh eq_refl) as Hon. assert (Hxo : feq x o = true) by (rewrite (feq_trans_r o n x Hon); exact Exn).
           rewrite (Agree.mflag_feq p x o ch Hxo). exact Hpo.
        -- rewrite (Agree.mflag_feq p x n ch Exn). apply mflag_nonmember. exact Emn.
      * destruct (feq x o) eqn:Exo; [|reflexivity]. rewrite (Agree.mflag_feq p x o ch Exo). exact Hpo.
  - assert (Hpo : mflag p o ch = false) by (unfold mflag; rewrite Eo; reflexivity). rewrite Hpo. reflexivity.
Qed.
Lemma rel_ren ch bc o o' n : chan_rel ch bc -> feq o o' = true -> (is_member n ch = true -> feq o n = true) ->
  chan_rel (ren_member o n ch) (replaceUser o' n bc).
Proof.
  intros [A B C D E F G H] Hoo Hfresh.
  assert (Hkeep : sc_bans (ren_member o n ch) = sc_bans ch /\ sc_topic (ren_member o n ch) = sc_topic ch
                  /\ sc_modes (ren_member o n ch) = sc_modes ch /\ sc_created (ren_member o n ch) = sc_created ch).
  { unfold ren_member. destruct (idict_get o (sc_members ch)); repeat split. }
  destruct Hkeep as [K1 [K2 [K3 K4]]].
  constructor.
  - intro x. rewrite replaceUser_users, member_ren, !A. unfold renamed.
    rewrite <- (is_member_feq o o' ch Hoo), <- (feq_trans_r o o' x Hoo). reflexivity.
  - intro x. rewrite replaceUser_ops. apply (flag_ren f_o); assumption.
  - intro x. rewrite replaceUser_halfops. apply (flag_ren f_h); assumption.
  - intro x. rewrite replaceUser_voices. apply (flag_ren f_v); assumption.
  - intro x. rewrite K1. apply E.
  - rewrite K2. exact F.
  - intro f. rewrite K3. apply G.
  - rewrite K4. exact H.
Qed.
Lemma st_doNick_nick m b : b_nick (st_doNick m b) = b_nick b.
Proof.
  unfold st_doNick. destruct (m_args m) as [|new r]; [reflexivity|].
  destruct (nonempty (msg_user m) && nonempty (msg_host m)); [destruct new|]; reflexivity.
Qed.

Section Steps3.
Variables (nick0 prefix0 : str) (uh : bool).
Notation fa := (feed_all nick0 prefix0).

(* ---- QUIT ---- *)
Lemma quit_inv s b bF n u :
  Inv s b -> idict_get n (s_users s) = Some u -> feq n (s_me s) = false ->
  b_nick bF = b_nick b ->
  (forall c, idict_has c (b_chans bF) = idict_has c (b_chans b)) ->
  (forall c ch bc', idict_get c (s_chans s) = Some ch -> idict_get c (b_chans bF) = Some bc' ->
     exists bc, idict_get c (b_chans b) = Some bc /\ (chan_rel ch bc -> chan_rel (del_member n ch) bc')) ->
  (forall x, feq x n = false -> idict_get x (b_n2h bF) = idict_get x (b_n2h b)) ->
  Inv (Srv (s_me s) (idict_del n (s_users s)) (vmap (del_member n) (s_chans s))) bF.
Proof.
  intros I En Hnm Hn Hhas Hrel Hh. destruct I as [W N C R H]. pose proof W as W0. destruct W as [W1 W2 W3 W4 W5].
  assert (Hmn : feq (s_me s) n = false) by (rewrite feq_sym; exact Hnm).
  constructor.
  - constructor.
    + exact W1.
    + destruct W2 as [u0 [H0 E0]]. exists u0. cbn [s_me s_users]. rewrite idict_get_del, Hmn. auto.
    + intros x ux Hx. cbn [s_users] in Hx. rewrite idict_get_del in Hx. destruct (feq x n); [discriminate|]. apply (W3 x ux Hx).
    + intros c ch' x Hg Hx. cbn [s_users s_chans] in *. rewrite vmap_get in Hg.
      destruct (idict_get c (s_chans s)) as [ch|] eqn:Ec; [|discriminate]. cbn in Hg. inversion Hg; subst ch'.
      rewrite member_del in Hx. apply andb_true_iff in Hx as [Hx1 Hx2]. rewrite idict_has_del, Hx1. cbn. apply (W4 c ch x Ec Hx2).
    + intros c ch' f v Hg Hf. cbn [s_chans] in Hg. rewrite vmap_get in Hg.
      destruct (idict_get c (s_chans s)) as [ch|] eqn:Ec; [|discriminate]. cbn in Hg. inversion Hg; subst ch'. apply (W5 c ch f v Ec Hf).
  - rewrite Hn. exact N.
  - intro c. rewrite Hhas, C. unfold mych. cbn [s_chans s_me]. rewrite vmap_get.
    destruct (idict_get c (s_chans s)) as [ch|]; [|reflexivity]. cbn. rewrite member_del, Hmn. reflexivity.
  - intros c ch' bc' Hg Hb. cbn [s_chans] in Hg. rewrite vmap_get in Hg.
    destruct (idict_get c (s_chans s)) as [ch|] eqn:Ec; [|discriminate]. cbn in Hg. inversion Hg; subst ch'.
    destruct (Hrel c ch bc' Ec Hb) as [bc [Hbc Himp]]. apply Himp. apply (R c ch bc Ec Hbc).
  - intros x ux c Hx Hv. cbn [s_users] in Hx. rewrite idict_get_del in Hx. destruct (feq x n) eqn:E; [discriminate|].
    rewrite (Hh x E). apply (H x ux c Hx). unfold vis_in in *. cbn [s_chans s_me] in Hv. rewrite vmap_get in Hv.
    destruct (idict_get c (s_chans s)) as [ch|]; [|discriminate]. cbn in Hv. rewrite !member_del in Hv.
    apply andb_true_iff in Hv as [Hv1 Hv2]. apply andb_true_iff in Hv1 as [_ Hv1]. apply andb_true_iff in Hv2 as [_ Hv2].
    rewrite Hv1, Hv2. reflexivity.
Qed.

Lemma step_quit s b n : Inv s b ->
  let '(s', ms) := step nick0 true uh s (AQuit n) in Inv s' (fa b ms).
Proof.
  intro I. cbn [step]. destruct (idict_get n (s_users s)) as [u|] eqn:En; [|exact I].
  destruct (feq n (s_me s)) eqn:Enm; [exact I|].
  pose proof (inv_wf s b I) as W. destruct (wf_users s W n u En) as [Hk Hgu].
  destruct (visible s n) eqn:Evis.
  - rewrite (fa_one nick0 prefix0) by reflexivity.
    destruct (feed_user u str_QUIT [[98; 121; 101]] b st_doQuit Hgu (Inv_valid_nick s b I)) as [b' [[Hc1 [Hc2 Hc3]] Hfeed]];
      try reflexivity; try (intros; discriminate); try exact addMsg_QUIT.
    rewrite Hfeed. unfold st_doQuit. rewrite (msg_nick_user u _ _ Hgu).
    set (nick := su_nick u) in *.
    set (g := fun bc : chan => if iset_mem nick (c_users bc) then removeUser nick bc else bc).
    cbn [n2h_set set_n2h set_chans b_chans b_n2h b_nick b_prefix].
    assert (Hhasn : idict_has nick (idict_set nick (hostmask u) (b_n2h b')) = true) by (rewrite idict_has_set, feq_refl; reflexivity).
    rewrite Hhasn.
    apply (quit_inv s b _ n u I En Enm); cbn [set_n2h set_chans b_nick b_chans b_n2h].
    + exact Hc1.
    + intro c. unfold idict_has. rewrite Hc2.
      change (map (fun kc => (fst kc, if iset_mem nick (c_users (snd kc)) then removeUser nick (snd kc) else snd kc)) (b_chans b))
        with (map (fun kc => (fst kc, g (snd kc))) (b_chans b)).
      rewrite idict_get_map. destruct (idict_get c (b_chans b)); reflexivity.
    + intros c ch bc' Ec Hb. rewrite Hc2 in Hb.
      change (map (fun kc => (fst kc, if iset_mem nick (c_users (snd kc)) then removeUser nick (snd kc) else snd kc)) (b_chans b))
        with (map (fun kc => (fst kc, g (snd kc))) (b_chans b)) in Hb.
      rewrite idict_get_map in Hb. destruct (idict_get c (b_chans b)) as [bc|] eqn:Eb; [|discriminate].
      cbn in Hb. inversion Hb; subst bc'. exists bc. split; [reflexivity|]. intro Rr. unfold g.
      assert (Hmem : iset_mem nick (c_users bc) = is_member n ch).
      { rewrite (cr_users ch bc Rr). unfold is_member. apply idict_has_feq. rewrite feq_sym. exact Hk. }
      rewrite Hmem. destruct (is_member n ch) eqn:Emn.
      * rewrite (removeUser_feq nick n bc) by (rewrite feq_sym; exact Hk). apply rel_del. exact Rr.
      * apply rel_del_nonmember; assumption.
    + intros x Hx. rewrite idict_get_del, idict_get_set, Hc3.
      assert (E : feq x nick = false) by (rewrite <- (feq_trans_r n nick x Hk); exact Hx). rewrite E. reflexivity.
  - rewrite (fa_nil nick0 prefix0). apply (quit_inv s b b n u I En Enm); try reflexivity.
    intros c ch bc' Ec Hb. exists bc'. split; [exact Hb|]. intro Rr.
    apply rel_del_nonmember; [|exact Rr].
    destruct (is_member n ch) eqn:Emn; [|reflexivity]. exfalso.
    assert (Hmy : mych s c = true) by (rewrite <- (inv_chans s b I); unfold idict_has; rewrite Hb; reflexivity).
    unfold mych in Hmy. rewrite Ec in Hmy.
    assert (Hv : vis_in s n c = true) by (unfold vis_in; rewrite Ec, Hmy, Emn; reflexivity).
    rewrite (vis_in_visible s n c Hv) in Evis. discriminate.
Qed.
(* ---- NICK ---- *)
Lemma nick_inv s b bF n new u :
  Inv s b -> idict_get n (s_users s) = Some u -> valid_nick new = true ->
  (forall x, feq x new = true -> idict_has x (s_users s) = true -> feq n new = true) ->
  b_nick bF = (if feq n (s_me s) then new else s_me s) ->
  (forall c, idict_has c (b_chans bF) = idict_has c (b_chans b)) ->
  (forall c ch bc', idict_get c (s_chans s) = Some ch -> idict_get c (b_chans bF) = Some bc' ->
     exists bc, idict_get c (b_chans b) = Some bc /\ (chan_rel ch bc -> chan_rel (ren_member n new ch) bc')) ->
  (feq n (s_me s) = true \/ visible s n = true ->
     forall x, feq x new = true -> idict_get x (b_n2h bF) = Some (joinHostmask new (su_user u) (su_host u))) ->
  (forall x, feq x new = false -> feq x n = false -> idict_get x (b_n2h bF) = idict_get x (b_n2h b)) ->
  Inv (Srv (if feq n (s_me s) then new else s_me s) (rename_user n new (s_users s)) (vmap (ren_member n new) (s_chans s))) bF.
Proof.
  intros I En Vnew Hfree Hn Hhas Hrel Hhnew Hhold. destruct I as [W N C R H]. pose proof W as W0. destruct W as [W1 W2 W3 W4 W5].
  destruct (W3 n u En) as [Hk [_ [Gu Gh]]].
  set (me' := if feq n (s_me s) then new else s_me s).
  assert (Hmeuser : idict_has (s_me s) (s_users s) = true).
  { destruct W2 as [u0 [H0 _]]. unfold idict_has. rewrite H0. reflexivity. }
  assert (Hmenew : feq n (s_me s) = false -> feq (s_me s) new = false).
  { intro E. destruct (feq (s_me s) new) eqn:E2; [|reflexivity].
    pose proof (Hfree _ E2 Hmeuser) as E3. rewrite (feq_trans_l n new (s_me s) E3), (feq_sym new), E2 in E. discriminate. }
  assert (Hus : forall x, idict_get x (rename_user n new (s_users s)) =
                 if feq x new then Some (SUser new (su_user u) (su_host u)) else if feq x n then None else idict_get x (s_users s)).
  { intro x. unfold rename_user. rewrite En, idict_get_set, idict_get_del. reflexivity. }
  assert (Hfresh : forall c ch, idict_get c (s_chans s) = Some ch -> is_member new ch = true -> feq n new = true).
  { intros c ch Ec Hm. apply (Hfree new (feq_refl new)). apply (W4 c ch new Ec Hm). }
  assert (Hme_ren : forall c ch, idict_get c (s_chans s) = Some ch -> is_member me' (ren_member n new ch) = is_member (s_me s) ch).
  { intros c ch Ec. rewrite member_ren. unfold renamed, me'. destruct (feq n (s_me s)) eqn:Enm.
    - rewrite <- (is_member_feq n (s_me s) ch Enm). rewrite feq_refl. destruct (is_member n ch) eqn:Emn; [reflexivity|].
      destruct (is_member new ch) eqn:Emw; [|reflexivity].
      pose proof (Hfresh c ch Ec Emw) as E. rewrite (is_member_feq n new ch E), Emw in Emn. discriminate.
    - rewrite (Hmenew eq_refl). rewrite (feq_sym (s_me s) n), Enm. cbn. destruct (is_member n ch); reflexivity. }
  constructor.
  - constructor; cbn [s_me s_users s_chans].
    + unfold me'. destruct (feq n (s_me s)); assumption.
    + unfold me'. destruct (feq n (s_me s)) eqn:Enm.
      * exists (SUser new (su_user u) (su_host u)). rewrite Hus, feq_refl. split; reflexivity.
      * destruct W2 as [u0 [H0 E0]]. exists u0. rewrite Hus, (Hmenew eq_refl), (feq_sym (s_me s) n), Enm. auto.
    + intros x ux Hx. rewrite Hus in Hx. destruct (feq x new) eqn:E.
      * inversion Hx; subst ux. cbn. split; [exact E|]. repeat split; assumption.
      * destruct (feq x n); [discriminate|]. apply (W3 x ux Hx).
    + intros c ch' x Hg Hx. rewrite vmap_get in Hg.
      destruct (idict_get c (s_chans s)) as [ch|] eqn:Ec; [|discriminate]. cbn in Hg. inversion Hg; subst ch'.
      unfold idict_has. rewrite Hus. destruct (feq x new) eqn:E; [reflexivity|].
      rewrite member_ren in Hx. unfold renamed in Hx. rewrite E in Hx.
      destruct (feq x n) eqn:E2.
      * destruct (is_member n ch) eqn:Emn; [cbn in Hx; discriminate|].
        rewrite (is_member_feq x n ch E2), Emn in Hx. discriminate.
      * assert (Hxm : is_member x ch = true) by (destruct (is_member n ch); [cbn in Hx; exact Hx|exact Hx]).
        pose proof (W4 c ch x Ec Hxm) as Hh. unfold idict_has in Hh. exact Hh.
    + intros c ch' f v Hg Hf. rewrite vmap_get in Hg.
      destruct (idict_get c (s_chans s)) as [ch|] eqn:Ec; [|discriminate]. cbn in Hg. inversion Hg; subst ch'.
      apply (W5 c ch f v Ec). unfold ren_member in Hf. destruct (idict_get n (sc_members ch)); exact Hf.
  - exact Hn.
  - intro c. rewrite Hhas, C. unfold mych. cbn [s_chans s_me]. rewrite vmap_get.
    destruct (idict_get c (s_chans s)) as [ch|] eqn:Ec; [|reflexivity]. cbn. symmetry. apply (Hme_ren c ch Ec).
  - intros c ch' bc' Hg Hb. cbn [s_chans] in Hg. rewrite vmap_get in Hg.
    destruct (idict_get c (s_chans s)) as [ch|] eqn:Ec; [|discriminate]. cbn in Hg. inversion Hg; subst ch'.
    destruct (Hrel c ch bc' Ec Hb) as [bc [Hbc Himp]]. apply Himp. apply (R c ch bc Ec Hbc).
  - intros x ux c Hx Hv. cbn [s_users] in Hx. rewrite Hus in Hx.
    unfold vis_in in Hv. cbn [s_chans s_me] in Hv. rewrite vmap_get in Hv.
    destruct (idict_get c (s_chans s)) as [ch|] eqn:Ec; [|discriminate]. cbn in Hv.
    fold me' in Hv. rewrite (Hme_ren c ch Ec) in Hv. apply andb_true_iff in Hv as [Hvme Hvx].
    rewrite member_ren in Hvx. unfold renamed in Hvx.
    destruct (feq x new) eqn:E.
    + inversion Hx; subst ux. unfold hostmask. cbn [su_nick su_user su_host]. apply Hhnew; [|exact E].
      assert (Emn : is_member n ch = true).
      { destruct (is_member n ch) eqn:Emn; [reflexivity|]. rewrite (is_member_feq x new ch E) in Hvx.
        pose proof (Hfresh c ch Ec Hvx) as E3. rewrite (is_member_feq n new ch E3), Hvx in Emn. discriminate. }
      right. apply (vis_in_visible s n c). unfold vis_in. rewrite Ec, Hvme, Emn. reflexivity.
    + destruct (feq x n) eqn:E2; [discriminate|]. rewrite (Hhold x E E2). apply (H x ux c Hx).
      unfold vis_in. rewrite Ec, Hvme. destruct (is_member n ch); cbn in Hvx; rewrite Hvx; reflexivity.
Qed.
Lemma ren_nonmember n new ch : is_member n ch = false -> ren_member n new ch = ch.
Proof. unfold is_member, idict_has, ren_member. destruct (idict_get n (sc_members ch)); [discriminate|reflexivity]. Qed.

Lemma nick_sent s b b' n new u :
  Inv s b -> idict_get n (s_users s) = Some u -> valid_nick new = true ->
  (forall x, feq x new = true -> idict_has x (s_users s) = true -> feq n new = true) ->
  b_nick b' = (if feq n (s_me s) then new else s_me s) -> b_chans b' = b_chans b -> b_n2h b' = b_n2h b ->
  Inv (Srv (if feq n (s_me s) then new else s_me s) (rename_user n new (s_users s)) (vmap (ren_member n new) (s_chans s)))
      (st_doNick (Msg (hostmask u) str_NICK [new]) b').
Proof.
  intros I En Vnew Hfree Hn Hc Hh.
  pose proof (inv_wf s b I) as W. destruct (wf_users s W n u En) as [Hk Hgu].
  set (m := Msg (hostmask u) str_NICK [new]).
  assert (Hnew : new <> []) by (apply (nn_ne _ (valid_nick_nice new Vnew))).
  assert (Hmu : msg_user m = su_user u) by (apply msg_user_user; exact Hgu).
  assert (Hmh : msg_host m = su_host u) by (apply msg_host_user; exact Hgu).
  assert (Hmn : msg_nick m = su_nick u) by (apply msg_nick_user; exact Hgu).
  assert (Hne : nonempty (msg_user m) = true /\ nonempty (msg_host m) = true).
  { rewrite Hmu, Hmh. destruct Hgu as [_ [A B]]. apply valid_uh_nice in A. apply valid_uh_nice in B.
    destruct (su_user u); [exfalso; apply (nu_ne _ A); reflexivity|]. destruct (su_host u); [exfalso; apply (nu_ne _ B); reflexivity|]. auto. }
  destruct Hne as [Hne1 Hne2].
  apply (nick_inv s b _ n new u I En Vnew Hfree).
  - rewrite st_doNick_nick. exact Hn.
  - intro c. unfold idict_has. rewrite (doNick_channels m b' new [] c eq_refl Hne1 Hne2 Hnew), Hc.
    destruct (idict_get c (b_chans b)); reflexivity.
  - intros c ch bc' Ec Hb. rewrite (doNick_channels m b' new [] c eq_refl Hne1 Hne2 Hnew), Hc in Hb.
    destruct (idict_get c (b_chans b)) as [bc|] eqn:Eb; [|discriminate]. cbn in Hb. inversion Hb; subst bc'.
    exists bc. split; [reflexivity|]. intro Rr. rewrite Hmn. apply rel_ren; [exact Rr|exact Hk|].
    intro Hm. apply (Hfree new (feq_refl new)). apply (wf_members s W c ch new Ec Hm).
  - intros _ x Hx. rewrite (doNick_n2h m b' new [] x eq_refl Hne1 Hne2 Hnew), Hx, Hmu, Hmh. reflexivity.
  - intros x Hx1 Hx2. rewrite (doNick_n2h m b' new [] x eq_refl Hne1 Hne2 Hnew), Hx1, Hmn.
    rewrite <- (feq_trans_r n (su_nick u) x Hk), Hx2, Hh. reflexivity.
Qed.

Lemma step_nick s b n new : Inv s b ->
  let '(s', ms) := step nick0 true uh s (ANick n new) in Inv s' (fa b ms).
Proof.
  intro I. cbn [step]. destruct (idict_get n (s_users s)) as [u|] eqn:En; [|exact I].
  destruct (valid_nick new && match idict_get new (s_users s) with Some _ => feq n new | None => true end
            && negb (seq_eqb (su_nick u) new)) eqn:Eok; [|exact I].
  apply andb_true_iff in Eok as [Eok _]. apply andb_true_iff in Eok as [Vnew Hfr].
  pose proof (inv_wf s b I) as W. destruct (wf_users s W n u En) as [Hk Hgu].
  assert (Hfree : forall x, feq x new = true -> idict_has x (s_users s) = true -> feq n new = true).
  { intros x Hx Hh. unfold idict_has in Hh. rewrite (idict_get_feq x new _ Hx) in Hh.
    destruct (idict_get new (s_users s)); [exact Hfr|discriminate]. }
  destruct (feq n (s_me s) || visible s n) eqn:Esend.
  - rewrite (fa_one nick0 prefix0) by reflexivity.
    destruct (feq n (s_me s)) eqn:Enm.
    + pose proof (wf_me_user s u n W En Enm) as He.
      assert (Hsame : su_nick u = b_nick b) by (rewrite He; symmetry; apply (inv_nick s b I)).
      assert (Hnn : new <> []) by (apply (nn_ne _ (valid_nick_nice new Vnew))).
      destruct (feed_nick_self u new b Hgu (Inv_valid_nick s b I) Hsame Hnn) as [b' [H1 [H2 [H3 Hfeed]]]].
      match goal with |- Inv ?S _ => cut (Inv S (st_doNick (Msg (hostmask u) str_NICK [new]) b')) end;
        [intro Hx; exact (eq_ind_r (fun z => Inv _ z) Hx Hfeed)|].
      pose proof (nick_sent s b b' n new u I En Vnew Hfree) as P. rewrite Enm in P. apply P; assumption.
    + assert (Hdiff : seq_eqb (su_nick u) (b_nick b) = false).
      { rewrite (inv_nick s b I). apply (wf_other_user s u n W En Enm). }
      destruct (feed_nick_other u new b Hgu (Inv_valid_nick s b I) Hdiff) as [b' [[H1 [H2 H3]] Hfeed]].
      match goal with |- Inv ?S _ => cut (Inv S (st_doNick (Msg (hostmask u) str_NICK [new]) b')) end;
        [intro Hx; exact (eq_ind_r (fun z => Inv _ z) Hx Hfeed)|].
      pose proof (nick_sent s b b' n new u I En Vnew Hfree) as P. rewrite Enm in P. apply P; try assumption.
      rewrite H1. apply (inv_nick s b I).
  - rewrite (fa_nil nick0 prefix0). apply orb_false_iff in Esend as [Enm Evis]. rewrite Enm.
    pose proof (nick_inv s b b n new u I En Vnew Hfree) as P. rewrite Enm in P. apply P; try reflexivity.
    + apply (inv_nick s b I).
    + intros c ch bc' Ec Hb. exists bc'. split; [exact Hb|]. intro Rr.
      rewrite ren_nonmember; [exact Rr|].
      destruct (is_member n ch) eqn:Emn; [|reflexivity]. exfalso.
      assert (Hmy : mych s c = true) by (rewrite <- (inv_chans s b I); unfold idict_has; rewrite Hb; reflexivity).
      unfold mych in Hmy. rewrite Ec in Hmy.
      assert (Hv : vis_in s n c = true) by (unfold vis_in; rewrite Ec, Hmy, Emn; reflexivity).
      rewrite (vis_in_visible s n c Hv) in Evis. discriminate.
    + intros [Hc|Hc]; [discriminate|rewrite Hc in Evis; discriminate].
Qed.
End Steps3.
