(* C10/Step.v — every action of the reference server preserves the simulation relation (step case of the trace
   induction), one lemma per action. *)
From Coq Require Import List NArith ZArith Bool Lia.
Import ListNotations.
Require Import Base.Wire Base.PyStr C10.Model C10.Lemmas C10.Handlers C10.SrvLemmas C10.Feed C10.Inv C10.Frame C10.Sim C10.Agree.
Open Scope N_scope.

Section Steps.
Variables (nick0 prefix0 : str) (uh : bool).
Hypothesis Hnick0 : valid_nick nick0 = true.
Notation fa := (feed_all nick0 prefix0).

Lemma fa_nil b : fa b [] = b. Proof. reflexivity. Qed.
Lemma fa_one b m : seq_eqb (m_command m) RESET = false -> fa b [m] = feed b m.
Proof. intro H. unfold feed_all, feed_or_reset. cbn [fold_left]. rewrite H. reflexivity. Qed.
Lemma fa_app b l1 l2 : fa b (l1 ++ l2) = fa (fa b l1) l2.
Proof. unfold feed_all. apply fold_left_app. Qed.

Lemma Inv_valid_nick s b : Inv s b -> valid_nick (b_nick b) = true.
Proof. intro I. rewrite (inv_nick s b I). apply (wf_me s (inv_wf s b I)). Qed.

(* a user's command about one channel the bot is on: both sides update that channel *)
Lemma cmd_visible s b k u c ch F G cmd args (H : msg -> bot -> bot) :
  Inv s b -> idict_get k (s_users s) = Some u -> idict_get c (s_chans s) = Some ch ->
  is_member (s_me s) ch = true ->
  existsb (seq_eqb cmd) gen.T10.NICKSETTERS = false -> seq_eqb cmd str_NICK = false ->
  seq_eqb (upper cmd) str_NICK = false -> (seq_eqb (upper cmd) str_JOIN = true -> args <> []) ->
  (forall m b, m_command m = cmd -> addMsg m b = H m (pre_n2h m b)) ->
  (forall b1, b_chans b1 = b_chans b -> b_nick b1 = b_nick b -> H (Msg (hostmask u) cmd args) b1 = chan_upd c G b1) ->
  is_member (s_me s) (F ch) = true ->
  (forall x, is_member x (F ch) = true -> is_member x ch = true \/ feq x k = true) ->
  (forall f v, assoc f (sc_modes (F ch)) = Some v -> letter_ok f v = true) ->
  (forall bc, chan_rel ch bc -> chan_rel (F ch) (G bc)) ->
  Inv (set_chans_s s (idict_upd c F (s_chans s))) (feed b (Msg (hostmask u) cmd args)).
Proof.
  intros I Hk Hc Hme C1 C2 C3 C4 Hd HH HmeF Hnew Hmodes Hrel.
  destruct (wf_users s (inv_wf s b I) k u Hk) as [_ Hgu].
  destruct (feed_user u cmd args b H Hgu (Inv_valid_nick s b I) C1 C2 C3 C4 Hd) as [b' [Hcore Hfeed]].
  rewrite Hfeed. rewrite (HH (n2h_set (su_nick u) (hostmask u) b') (proj1 (proj2 Hcore)) (proj1 Hcore)).
  destruct (Inv_actor s b' k u (Inv_core s b b' Hcore I) Hk) as [I1 Hn2h].
  apply (upd_visible s c ch F Hc _ G k u I1 Hme Hk Hn2h HmeF Hnew Hmodes Hrel).
Qed.

(* ---- CONNECT ---- *)
Lemma step_connect s b n u h : Inv s b ->
  let '(s', ms) := step nick0 true uh s (AConnect n u h) in Inv s' (fa b ms).
Proof.
  intro I. cbn [step]. destruct (valid_nick n && valid_uh u && valid_uh h) eqn:V; [|exact I].
  destruct (idict_get n (s_users s)) eqn:En; [exact I|]. rewrite fa_nil.
  apply andb_true_iff in V as [V Vh]. apply andb_true_iff in V as [Vn Vu].
  destruct I as [W N C R H]. destruct W as [W1 W2 W3 W4 W5].
  assert (Hnot : forall x, feq x n = true -> idict_get x (s_users s) = None).
  { intros x Hx. rewrite (idict_get_feq x n _ Hx). exact En. }
  constructor; [constructor| | | |]; try assumption.
  - destruct W2 as [u0 [H0 E0]]. exists u0. split; [|exact E0]. cbn [s_users s_me]. rewrite idict_get_set.
    destruct (feq (s_me s) n) eqn:E; [|exact H0]. rewrite (Hnot _ E) in H0. discriminate.
  - intros x ux Hx. cbn [s_users] in Hx. rewrite idict_get_set in Hx. destruct (feq x n) eqn:E; [|apply (W3 x ux Hx)].
    inversion Hx; subst ux. cbn. split; [exact E|]. repeat split; assumption.
  - intros c ch x Hg Hx. cbn [s_users s_chans] in *. rewrite idict_has_set. rewrite (W4 c ch x Hg Hx). apply orb_true_r.
  - intros x ux c Hx Hv. cbn [s_users] in Hx. rewrite idict_get_set in Hx. destruct (feq x n) eqn:E; [|apply (H x ux c Hx Hv)].
    exfalso. unfold vis_in in Hv. cbn [s_chans s_me] in Hv. destruct (idict_get c (s_chans s)) as [ch|] eqn:Ec; [|discriminate].
    apply andb_true_iff in Hv as [_ Hm]. pose proof (W4 c ch x Ec Hm) as Hh. unfold idict_has in Hh. rewrite (Hnot _ E) in Hh. discriminate.
Qed.

(* ---- TOPIC ---- *)
Lemma rel_topic ch bc t : chan_rel ch bc -> chan_rel (set_topic_s ch t) (set_topic bc t).
Proof. intros [A B C D E F G H]. constructor; cbn; auto. Qed.
Lemma step_topic s b k c t : Inv s b ->
  let '(s', ms) := step nick0 true uh s (ATopic k c t) in Inv s' (fa b ms).
Proof.
  intro I. cbn [step]. destruct (idict_get k (s_users s)) as [u|] eqn:Ek; [|exact I].
  destruct (idict_get c (s_chans s)) as [ch|] eqn:Ec; [|exact I].
  destruct (is_member k ch) eqn:Emk; [|exact I].
  destruct (is_member (s_me s) ch) eqn:Eme.
  - rewrite fa_one by reflexivity.
    apply (cmd_visible s b k u c ch (fun ch => set_topic_s ch t) (fun bc => set_topic bc t) str_TOPIC [c; t] st_doTopic);
      try assumption; try reflexivity.
    + intros; discriminate.
    + exact addMsg_TOPIC.
    + intros x Hx. left. exact Hx.
    + intros f v Hf. apply (wf_modes s (inv_wf s b I) c ch f v Ec Hf).
    + intros bc. apply rel_topic.
  - rewrite fa_nil. apply (upd_invisible s c ch (fun ch => set_topic_s ch t) Ec b I Eme Eme).
    + intros x Hx. apply (wf_members s (inv_wf s b I) c ch x Ec Hx).
    + intros f v Hf. apply (wf_modes s (inv_wf s b I) c ch f v Ec Hf).
Qed.
(* ---- JOIN of another user, one channel ---- *)
Lemma isChannel_nocomma c : C03.Model.isChannel c = true -> mem COMMA c = false.
Proof.
  unfold C03.Model.isChannel. intro H. repeat (apply andb_true_iff in H as [H ?]).
  apply negb_true_iff. assumption.
Qed.
Lemma addUser_plain nick bc : nice_nick nick -> addUser nick bc = set_users bc (iset_add nick (c_users bc)).
Proof.
  intros [Hne _ _ _ _ _ Hs]. destruct nick as [|x r]; [contradiction|].
  cbn [existsb] in Hs. apply orb_false_iff in Hs as [Hx _].
  unfold addUser. cbn [lstrip]. rewrite Hx. cbn [add_markers]. rewrite Hx. reflexivity.
Qed.
Lemma rel_join ch bc n nick : chan_rel ch bc -> is_member n ch = false -> feq n nick = true ->
  chan_rel (add_member n ch) (set_users bc (iset_add nick (c_users bc))).
Proof.
  intros [A B C D E F G H] Hn Hf.
  assert (Hget : forall x, feq x n = true -> idict_get x (sc_members ch) = None).
  { intros x Hx. rewrite (idict_get_feq x n _ Hx). unfold is_member, idict_has in Hn.
    destruct (idict_get n (sc_members ch)); [discriminate|reflexivity]. }
  assert (Hfl : forall p x, p noflags = false -> mflag p x (add_member n ch) = mflag p x ch).
  { intros p x Hp. unfold mflag, add_member. cbn [sc_members set_members]. rewrite idict_get_set.
    destruct (feq x n) eqn:Ex; [|reflexivity]. rewrite (Hget x Ex). exact Hp. }
  constructor; cbn [c_users c_ops c_halfops c_voices c_bans c_topic c_modes c_created set_users]; try assumption.
  - intro x. rewrite iset_mem_add, A. unfold is_member, add_member. cbn [sc_members set_members]. rewrite idict_has_set.
    rewrite (feq_trans_r n nick x Hf). reflexivity.
  - intro x. rewrite Hfl by reflexivity. apply B.
  - intro x. rewrite Hfl by reflexivity. apply C.
  - intro x. rewrite Hfl by reflexivity. apply D.
Qed.

(* ---- the bot joins a channel nobody is on: JOIN, NAMES (@me), end of names, 324 "+", 329, WHO reply ---- *)
Definition at_chan (b0 b1 : bot) (c : str) (bc : chan) (hm me : str) : Prop :=
  b_nick b1 = b_nick b0
  /\ (forall c', idict_get c' (b_chans b1) = if feq c' c then Some bc else idict_get c' (b_chans b0))
  /\ (forall x, idict_get x (b_n2h b1) = if feq x me then Some hm else idict_get x (b_n2h b0)).
Lemma at_upd b0 b1 c bc hm me G : at_chan b0 b1 c bc hm me -> at_chan b0 (chan_upd c G b1) c (G bc) hm me.
Proof.
  intros [A [B C]]. split; [exact A|split; [|exact C]]. intro c'. cbn [chan_upd set_chans b_chans].
  rewrite chans_update_get, B. destruct (feq c' c); reflexivity.
Qed.
Lemma at_n2h b0 b1 c bc hm me k : at_chan b0 b1 c bc hm me -> feq k me = true -> at_chan b0 (n2h_set k hm b1) c bc hm me.
Proof.
  intros [A [B C]] Hk. split; [exact A|split; [exact B|]]. intro x. cbn [n2h_set set_n2h b_n2h].
  rewrite idict_get_set, C, (feq_trans_r k me x Hk). destruct (feq x me); reflexivity.
Qed.
Lemma at_has b0 b1 c bc hm me : at_chan b0 b1 c bc hm me -> idict_has c (b_chans b1) = true.
Proof. intros [_ [B _]]. unfold idict_has. rewrite B, feq_refl. reflexivity. Qed.

Lemma chan_upd_or_new_has k f b : idict_has k (b_chans b) = true -> chan_upd_or_new k f b = chan_upd k f b.
Proof. intro H. unfold chan_upd_or_new. rewrite H. reflexivity. Qed.
Lemma chan_upd_known_has k f b : idict_has k (b_chans b) = true -> chan_upd_known k f b = chan_upd k f b.
Proof. intro H. unfold chan_upd_known. rewrite H. reflexivity. Qed.
Lemma nobang_not_hostmask s : mem BANG s = false -> isUserHostmask s = false.
Proof.
  intro H. unfold isUserHostmask.
  assert (Hb : bang_then s = false).
  { induction s as [|x s IH]; [reflexivity|]. cbn [mem existsb] in H. apply orb_false_iff in H as [_ H].
    destruct s as [|y r]; [reflexivity|]. cbn [bang_then].
    pose proof H as H'. cbn [mem existsb] in H'. apply orb_false_iff in H' as [Hy _].
    rewrite N.eqb_sym in Hy. rewrite Hy. cbn [andb orb]. apply IH. exact H. }
  rewrite Hb. apply andb_false_r.
Qed.
Lemma split_ws_token t : t <> [] -> existsb ws t = false -> split_ws t = [t].
Proof.
  intros Hne Hw. unfold split_ws.
  assert (G : forall s cur, existsb ws s = false -> (cur <> [] \/ s <> []) -> split_ws_go s cur = [rev cur ++ s]).
  { induction s as [|x s IH]; intros cur Hs Hor.
    - cbn. destruct cur; [destruct Hor as [H|H]; contradiction|]. rewrite app_nil_r. reflexivity.
    - cbn [existsb] in Hs. apply orb_false_iff in Hs as [Hx Hs]. cbn [split_ws_go]. rewrite Hx.
      rewrite IH; [|exact Hs|left; discriminate]. cbn [rev]. rewrite <- app_assoc. reflexivity. }
  rewrite G; [reflexivity|exact Hw|right; exact Hne].
Qed.
Lemma addUser_op nick bc : nice_nick nick ->
  addUser (64 :: nick) bc = set_users (set_ops bc (iset_add nick (c_ops bc))) (iset_add nick (c_users bc)).
Proof.
  intros [Hne _ _ _ _ _ Hs]. destruct nick as [|x r]; [contradiction|].
  cbn [existsb] in Hs. apply orb_false_iff in Hs as [Hx _].
  unfold addUser. change (lstrip gen.T10.SIGILS (64 :: x :: r)) with (lstrip gen.T10.SIGILS (x :: r)).
  cbn [lstrip]. rewrite Hx. change (add_markers (x :: r) (64 :: x :: r) bc)
    with (add_markers (x :: r) (x :: r) (set_ops bc (iset_add (x :: r) (c_ops bc)))).
  cbn [add_markers]. rewrite Hx. reflexivity.
Qed.
Lemma for_cmd b m : seq_eqb (m_command m) RESET = false -> feed_or_reset nick0 prefix0 b m = feed b m.
Proof. intro H. unfold feed_or_reset. rewrite H. reflexivity. Qed.
Lemma created_rt : py_int (py_str_Z (Z.of_N CREATED)) = Some 1000%Z.
Proof. vm_compute. reflexivity. Qed.

Definition bc_fresh (me : str) : chan :=
  set_created (chan_324 (addUser (64 :: me) (addUser me chan0)) []) 1000%Z.

Lemma rel_fresh me : nice_nick me -> chan_rel (fresh_chan me) (bc_fresh me).
Proof.
  intro Hn. unfold bc_fresh. rewrite (addUser_op me _ Hn), (addUser_plain me chan0 Hn).
  assert (Hm : forall x, is_member x (fresh_chan me) = feq x me).
  { intro x. unfold is_member, idict_has, fresh_chan. cbn. destruct (feq x me); reflexivity. }
  assert (Hf : forall p x, mflag p x (fresh_chan me) = feq x me && p (Flags true false false)).
  { intros p x. unfold mflag, fresh_chan. cbn. destruct (feq x me); reflexivity. }
  constructor; cbn; intros; try reflexivity.
  - change (iset_mem x (iset_add me [me]) = is_member x (fresh_chan me)).
    rewrite iset_mem_add, Hm. cbn. destruct (feq x me); reflexivity.
  - rewrite Hf. cbn. destruct (feq x me); reflexivity.
  - rewrite Hf. cbn. rewrite andb_false_r. reflexivity.
  - rewrite Hf. cbn. rewrite andb_false_r. reflexivity.
Qed.

Lemma Inv_fresh s b bF c u :
  Inv s b -> idict_get (s_me s) (s_users s) = Some u -> su_nick u = s_me s -> mych s c = false ->
  at_chan b bF c (bc_fresh (s_me s)) (hostmask u) (s_me s) ->
  Inv (set_chans_s s (idict_set c (fresh_chan (s_me s)) (s_chans s))) bF.
Proof.
  intros I Hu He Hmy [A [B C]]. destruct I as [W N Cc R H].
  assert (Hnn : nice_nick (s_me s)) by (apply valid_nick_nice; apply (wf_me s W)).
  assert (Hm : forall x, is_member x (fresh_chan (s_me s)) = feq x (s_me s)).
  { intro x. unfold is_member, idict_has, fresh_chan. cbn. destruct (feq x (s_me s)); reflexivity. }
  constructor.
  - destruct W as [W1 W2 W3 W4 W5]. constructor; try assumption.
    + intros c' ch' x Hg Hx. cbn [set_chans_s s_chans s_users] in *. rewrite idict_get_set in Hg.
      destruct (feq c' c) eqn:E; [|apply (W4 c' ch' x Hg Hx)].
      inversion Hg; subst ch'. rewrite Hm in Hx. rewrite (idict_has_feq x (s_me s) _ Hx). unfold idict_has. rewrite Hu. reflexivity.
    + intros c' ch' f v Hg Hf. cbn [set_chans_s s_chans] in *. rewrite idict_get_set in Hg.
      destruct (feq c' c) eqn:E; [|apply (W5 c' ch' f v Hg Hf)]. inversion Hg; subst ch'. discriminate.
  - rewrite A. exact N.
  - intro c'. unfold idict_has. rewrite B. unfold mych. cbn [set_chans_s s_chans s_me]. rewrite idict_get_set.
    destruct (feq c' c) eqn:E.
    + rewrite Hm, feq_refl. reflexivity.
    + apply (Cc c').
  - intros c' ch' bc' Hg Hb. cbn [set_chans_s s_chans] in Hg. rewrite idict_get_set in Hg. rewrite B in Hb.
    destruct (feq c' c) eqn:E; [|apply (R c' ch' bc' Hg Hb)].
    inversion Hg; subst ch'. inversion Hb; subst bc'. apply rel_fresh. exact Hnn.
  - intros x ux c' Hx Hv. rewrite C. cbn [set_chans_s s_users] in Hx.
    destruct (feq x (s_me s)) eqn:Ex.
    + rewrite (idict_get_feq x (s_me s) _ Ex) in Hx. congruence.
    + unfold vis_in in Hv. cbn [set_chans_s s_chans s_me] in Hv. rewrite idict_get_set in Hv.
      destruct (feq c' c) eqn:E.
      * rewrite !Hm, Ex, andb_false_r in Hv. discriminate.
      * apply (H x ux c' Hx). unfold vis_in. exact Hv.
Qed.
Lemma burst_fresh s b c u :
  Inv s b -> idict_get (s_me s) (s_users s) = Some u -> su_nick u = s_me s -> mych s c = false ->
  mem COMMA c = false ->
  at_chan b (fa b (burst (set_chans_s s (idict_set c (fresh_chan (s_me s)) (s_chans s))) u c (fresh_chan (s_me s)) true uh))
          c (bc_fresh (s_me s)) (hostmask u) (s_me s).
Proof.
  intros I Hu He Hmy Hcomma.
  pose proof (inv_nick s b I) as Hnick. pose proof (wf_me s (inv_wf s b I)) as Hvme.
  destruct (wf_users s (inv_wf s b I) _ u Hu) as [_ Hgu].
  assert (Hnn : nice_nick (s_me s)) by (apply valid_nick_nice; exact Hvme).
  set (me := s_me s) in *. set (hm := hostmask u).
  unfold burst, burst_rest. cbn [fresh_chan sc_topic sc_bans sc_created sc_members sc_modes map app].
  unfold msgs_who, msg_names, msg_endnames, modes_args, has_mode. cbn [fresh_chan sc_members sc_modes map fst flat_map assoc app set_chans_s s_users s_me].
  fold me. rewrite Hu. cbn [app].
  unfold feed_all. cbn [fold_left]. rewrite !for_cmd by reflexivity.
  (* 1. JOIN *)
  set (m1 := Msg (hostmask u) str_JOIN [c]).
  destruct (feed_user u str_JOIN [c] b st_doJoin Hgu) as [b' [[Hc1 [Hc2 Hc3]] Hf1]];
    try reflexivity; try (rewrite Hnick; exact Hvme); try (intros; discriminate); try exact addMsg_JOIN.
  fold m1 in Hf1. rewrite He in Hf1. fold me hm in Hf1.
  assert (A1 : at_chan b (feed b m1) c (addUser me chan0) hm me).
  { rewrite Hf1. unfold st_doJoin. cbn [m_args m1]. rewrite (split_char_nomem COMMA c Hcomma). cbn [fold_left].
    cbn [n2h_set set_n2h b_chans]. rewrite Hc2.
    assert (Hh : idict_has c (b_chans b) = false) by (rewrite (inv_chans s b I); exact Hmy). rewrite Hh.
    unfold m1. rewrite (msg_nick_user u _ _ Hgu), He. fold me.
    destruct me as [|x r] eqn:Eme; [exfalso; apply (nn_ne _ Hnn); reflexivity|]. rewrite <- Eme.
    split; [cbn; exact Hc1|split].
    - intro c'. cbn [chan_set set_chans b_chans set_n2h n2h_set]. rewrite idict_get_set, Hc2. reflexivity.
    - intro x'. cbn [chan_set set_chans b_n2h set_n2h n2h_set]. rewrite idict_get_set, Hc3. reflexivity. }
  set (b1 := feed b m1) in *.
  assert (Hn1 : valid_nick (b_nick b1) = true) by (destruct A1 as [E _]; rewrite E, Hnick; exact Hvme).
  assert (Hb1 : b_nick b1 = me) by (destruct A1 as [E _]; rewrite E; exact Hnick).
  (* 2. NAMES *)
  assert (Hni : join [32] [names_item (set_chans_s s (idict_set c (fresh_chan me) (s_chans s))) (fresh_chan me) true uh me]
                = 64 :: (if uh then hostmask u else me)).
  { cbn [join]. unfold names_item, member_flags. cbn [fresh_chan sc_members idict_get set_chans_s s_users].
    rewrite feq_refl. fold me. rewrite Hu. destruct uh; reflexivity. }
  rewrite Hni.
  set (item := 64 :: (if uh then hostmask u else me)).
  assert (Hitem : item = 64 :: (if uh then hostmask u else me)) by reflexivity.
  set (m2 := Msg SERVER str_353 [me; EQS; c; item]).
  assert (A2 : at_chan b (feed b1 m2) c (addUser (64 :: me) (addUser me chan0)) hm me).
  { unfold m2. rewrite (feed_numeric str_353 _ b1 st_do353 Hn1); try reflexivity; try exact addMsg_353;
      [|intros _; exists [EQS; c; item]; rewrite Hb1; reflexivity].
    unfold st_do353. cbn [m_args]. rewrite (at_has _ _ _ _ _ _ A1).
    assert (Hws : existsb ws item = false).
    { rewrite Hitem. cbn [existsb]. change (ws 64) with false. cbn [orb]. destruct uh.
      - unfold hostmask, joinHostmask. rewrite !existsb_app. cbn [existsb].
        destruct Hgu as [G1 [G2 G3]]. apply valid_nick_nice in G1. apply valid_uh_nice in G2. apply valid_uh_nice in G3.
        rewrite (nn_ws _ G1), (nu_ws _ G2), (nu_ws _ G3). reflexivity.
      - apply (nn_ws _ Hnn). }
    rewrite split_ws_token; [|rewrite Hitem; discriminate|exact Hws]. cbn [names_loop].
    change (seq_eqb EQS [ATC]) with false. rewrite Hitem.
    destruct uh.
    - assert (Hj : 64 :: hostmask u = joinHostmask (64 :: me) (su_user u) (su_host u)).
      { unfold hostmask. rewrite He. reflexivity. }
      rewrite Hj.
      destruct Hgu as [G1 [G2 G3]]. apply valid_uh_nice in G2. apply valid_uh_nice in G3. destruct G2, G3.
      rewrite isUserHostmask_join; try assumption; try discriminate;
        [|cbn [existsb]; change (ws 64) with false; cbn [orb]; apply (nn_ws _ Hnn)].
      rewrite splitHostmask_join by assumption.
      assert (Hl : lstrip gen.T10.SIGILS_353 (64 :: me) = me).
      { change (lstrip gen.T10.SIGILS_353 (64 :: me)) with (lstrip gen.T10.SIGILS me).
        destruct me as [|x r] eqn:Eme; [reflexivity|]. cbn [lstrip].
        pose proof (nn_sig _ Hnn) as Hs. cbn [existsb] in Hs. apply orb_false_iff in Hs as [Hx _]. rewrite Hx. reflexivity. }
      assert (Hhm : joinHostmask me (su_user u) (su_host u) = hm) by (unfold hm, hostmask; rewrite He; reflexivity).
      rewrite Hl. destruct me as [|x r] eqn:Eme; [exfalso; apply (nn_ne _ Hnn); reflexivity|].
      cbn [andb]. rewrite Hhm. apply at_upd. apply at_n2h; [exact A1|apply feq_refl].
    - rewrite nobang_not_hostmask; [|cbn [mem existsb]; change (N.eqb BANG 64) with false; cbn [orb]; apply (nn_bang _ Hnn)].
      cbn [andb]. apply at_upd. exact A1. }
  set (b2 := feed b1 m2) in *.
  assert (Hb2 : b_nick b2 = me) by (destruct A2 as [E _]; rewrite E; exact Hnick).
  assert (Hn2 : valid_nick (b_nick b2) = true) by (rewrite Hb2; exact Hvme).
  (* 3. end of NAMES *)
  rewrite (feed_numeric str_366 _ b2 (fun m b => b) Hn2); try reflexivity; try exact addMsg_366;
    [|intros _; eexists; rewrite Hb2; reflexivity].
  (* 4. 324 *)
  rewrite (feed_numeric str_324 _ b2 st_do324 Hn2); try reflexivity; try exact addMsg_324; [|intros; discriminate].
  unfold st_do324 at 1. cbn [m_args]. rewrite chan_upd_known_has by (apply (at_has _ _ _ _ _ _ A2)).
  change (separateModes [[PLUS]]) with (@nil (N * N * mval)).
  pose proof (at_upd _ _ _ _ _ _ (fun c0 => chan_324 c0 []) A2) as A4.
  set (b4 := chan_upd c (fun c0 => chan_324 c0 []) b2) in *.
  assert (Hb4 : b_nick b4 = me) by (destruct A4 as [E _]; rewrite E; exact Hnick).
  assert (Hn4 : valid_nick (b_nick b4) = true) by (rewrite Hb4; exact Hvme).
  (* 5. 329 *)
  rewrite (feed_numeric str_329 _ b4 st_do329 Hn4); try reflexivity; try exact addMsg_329; [|intros; discriminate].
  unfold st_do329 at 1. cbn [m_args]. rewrite chan_upd_known_has by (apply (at_has _ _ _ _ _ _ A4)).
  rewrite created_rt.
  pose proof (at_upd _ _ _ _ _ _ (fun c0 => set_created c0 1000%Z) A4) as A5.
  set (b5 := chan_upd c (fun c0 => set_created c0 1000%Z) b4) in *.
  assert (Hb5 : b_nick b5 = me) by (destruct A5 as [E _]; rewrite E; exact Hnick).
  assert (Hn5 : valid_nick (b_nick b5) = true) by (rewrite Hb5; exact Hvme).
  (* 6. WHO reply *)
  rewrite (feed_numeric str_352 _ b5 st_do352 Hn5); try reflexivity; try exact addMsg_352; [|intros; discriminate].
  unfold st_do352. cbn [m_args nth_s nth_error].
  replace (joinHostmask (su_nick u) (su_user u) (su_host u)) with hm by reflexivity.
  rewrite He. apply at_n2h; [exact A5|apply feq_refl].
Qed.
Definition dead_or_absent (s : srv) (c : str) : bool :=
  match idict_get c (s_chans s) with
  | Some ch => match sc_members ch with [] => true | _ => false end
  | None => true
  end.
Lemma step_join_self_fresh s b n c : Inv s b -> feq n (s_me s) = true -> dead_or_absent s c = true ->
  let '(s', ms) := step nick0 true uh s (AJoin n [c]) in Inv s' (fa b ms).
Proof.
  intros I Hf Hd. cbn [step]. destruct (idict_get n (s_users s)) as [u|] eqn:En; [|exact I].
  rewrite Hf. cbn [fold_left join_mine]. unfold join_chan.
  destruct (valid_chan c) eqn:Vc; cbn [negb]; [|exact I].
  assert (Hu : idict_get (s_me s) (s_users s) = Some u) by (rewrite <- (idict_get_feq n (s_me s) _ Hf); exact En).
  pose proof (wf_me_user s u n (inv_wf s b I) En Hf) as He.
  assert (Hmy : mych s c = false).
  { unfold mych. unfold dead_or_absent in Hd. destruct (idict_get c (s_chans s)) as [ch|]; [|reflexivity].
    unfold is_member, idict_has. destruct (sc_members ch); [reflexivity|discriminate]. }
  assert (Hcomma : mem COMMA c = false).
  { apply andb_true_iff in Vc as [Vc _]. apply isChannel_nocomma. exact Vc. }
  assert (Hgoal : Inv (set_chans_s s (idict_set c (fresh_chan (s_me s)) (s_chans s)))
                      (fa b (Msg (hostmask u) str_JOIN [join [COMMA] ([] ++ [c])]
                             :: bursts (set_chans_s s (idict_set c (fresh_chan (s_me s)) (s_chans s))) u true uh ([] ++ [c])))).
  { cbn [app join]. unfold bursts. cbn [flat_map set_chans_s s_chans]. rewrite idict_get_set, feq_refl, app_nil_r.
    apply (Inv_fresh s b _ c u I Hu He Hmy). apply burst_fresh; assumption. }
  unfold dead_or_absent in Hd.
  destruct (idict_get c (s_chans s)) as [ch|] eqn:Ec.
  - destruct (sc_members ch) eqn:Em; [|discriminate]. exact Hgoal.
  - exact Hgoal.
Qed.

End Steps.
