(* C10/Inv.v — the simulation relation between the reference server and the bot, stated through lookups. *)
From Coq Require Import List NArith ZArith Bool Lia.
Import ListNotations.
Require Import Base.Wire Base.PyStr C10.Bot C10.Spec C10.Lemmas C10.Handlers C10.SrvLemmas C10.Feed.
Open Scope N_scope.

Definition canonical_arg (a : str) : bool :=
  match py_int a with Some z => seq_eqb (py_str_Z z) a | None => true end.
Lemma canonical_coerce a : canonical_arg a = true -> mval_str (coerce a) = a.
Proof.
  unfold canonical_arg, coerce. destruct (py_int a) as [z|]; [|reflexivity].
  intro H. apply seq_eqb_eq in H. exact H.
Qed.
Definition conv (v : option str) : mval := match v with None => MNone | Some a => coerce a end.
Definition isSome {A} (o : option A) : bool := match o with Some _ => true | None => false end.
(* a stored channel mode: a letter the bot files under modes, with a parameter iff the + table says so *)
Definition letter_ok (f : N) (v : option str) : bool :=
  negb (is_sign f) && negb (mem f gen.T10.SETMODES) && Bool.eqb (takes_arg PLUS f) (isSome v)
  && match v with Some a => canonical_arg a | None => true end.

Record chan_rel (ch : schan) (bc : chan) : Prop := {
  cr_users : forall x, iset_mem x (c_users bc) = is_member x ch;
  cr_ops : forall x, iset_mem x (c_ops bc) = mflag f_o x ch;
  cr_halfops : forall x, iset_mem x (c_halfops bc) = mflag f_h x ch;
  cr_voices : forall x, iset_mem x (c_voices bc) = mflag f_v x ch;
  cr_bans : forall x, iset_mem x (c_bans bc) = iset_mem x (sc_bans ch);
  cr_topic : c_topic bc = sc_topic ch;
  cr_modes : forall f, cdict_get f (c_modes bc) = option_map conv (assoc f (sc_modes ch));
  cr_created : c_created bc = Z.of_N (sc_created ch) }.

Record wf (s : srv) : Prop := {
  wf_me : valid_nick (s_me s) = true;
  wf_meuser : exists u, idict_get (s_me s) (s_users s) = Some u /\ su_nick u = s_me s;
  wf_users : forall n u, idict_get n (s_users s) = Some u -> feq n (su_nick u) = true /\ good_user u;
  wf_members : forall c ch x, idict_get c (s_chans s) = Some ch -> is_member x ch = true -> idict_has x (s_users s) = true;
  wf_modes : forall c ch f v, idict_get c (s_chans s) = Some ch -> assoc f (sc_modes ch) = Some v -> letter_ok f v = true }.

Record Inv (s : srv) (b : bot) : Prop := {
  inv_wf : wf s;
  inv_nick : b_nick b = s_me s;
  inv_chans : forall c, idict_has c (b_chans b) = mych s c;
  inv_rel : forall c ch bc, idict_get c (s_chans s) = Some ch -> idict_get c (b_chans b) = Some bc -> chan_rel ch bc;
  inv_hosts : forall n u c, idict_get n (s_users s) = Some u -> vis_in s n c = true ->
              idict_get n (b_n2h b) = Some (hostmask u) }.

Lemma Inv_core s b b' : same_core b b' -> Inv s b -> Inv s b'.
Proof.
  intros [H1 [H2 H3]] [A B C D E]. constructor; try assumption.
  - rewrite H1. exact B.
  - intro c. rewrite H2. apply C.
  - intros c ch bc. rewrite H2. apply D.
  - intros n u c. rewrite H3. apply E.
Qed.

(* the bot's record of me *)
Lemma wf_me_user s u n : wf s -> idict_get n (s_users s) = Some u -> feq n (s_me s) = true -> su_nick u = s_me s.
Proof.
  intros W Hu Hf. destruct (wf_meuser s W) as [u0 [H0 E0]].
  rewrite (idict_get_feq n (s_me s) _ Hf) in Hu. congruence.
Qed.
Lemma wf_other_user s u n : wf s -> idict_get n (s_users s) = Some u -> feq n (s_me s) = false ->
  seq_eqb (su_nick u) (s_me s) = false.
Proof.
  intros W Hu Hf. destruct (wf_users s W n u Hu) as [Hk _].
  apply seq_eqb_false_of_feq. rewrite <- (feq_trans_l n (su_nick u) (s_me s) Hk). exact Hf.
Qed.
