(* C10/Feed.v — what Irc.feedMsg (the model [feed]) does with each message shape the reference server emits:
   the nick/prefix bookkeeping reduces to nothing (or to the bot's own rename) and the IrcState handler runs. *)
From Coq Require Import List NArith ZArith Bool Lia.
Import ListNotations.
Require Import Base.Wire Base.PyStr C10.Bot C10.Spec C10.Lemmas C10.Handlers C10.SrvLemmas.
Open Scope N_scope.

(* equal up to Irc.prefix, which no handler of IrcState reads *)
Definition same_core (b b' : bot) : Prop :=
  b_nick b' = b_nick b /\ b_chans b' = b_chans b /\ b_n2h b' = b_n2h b.
Lemma same_core_refl b : same_core b b. Proof. repeat split. Qed.

Definition pre_n2h (m : msg) (b : bot) : bot :=
  if isUserHostmask (m_prefix m) && negb (seq_eqb (m_command m) str_NICK)
  then n2h_set (msg_nick m) (m_prefix m) b else b.

Lemma irc_pre_gen m b :
  seq_eqb (m_prefix m) (b_nick b) = false ->
  existsb (seq_eqb (m_command m)) gen.T10.NICKSETTERS = false ->
  seq_eqb (upper (m_command m)) str_NICK = false ->
  (seq_eqb (upper (m_command m)) str_JOIN = true -> m_args m <> []) ->
  exists b', same_core b b' /\ irc_pre m b = (b', Some m).
Proof.
  intros Hp Hns Hn Hj. unfold irc_pre. rewrite Hp. cbv zeta. rewrite Hns. cbn [negb]. rewrite Hn.
  set (b' := if seq_eqb (msg_nick m) (b_nick b) && negb (seq_eqb (b_prefix b) (m_prefix m))
             then set_prefix b (m_prefix m) else b).
  assert (Hc : same_core b b').
  { unfold b'. destruct (seq_eqb (msg_nick m) (b_nick b) && negb (seq_eqb (b_prefix b) (m_prefix m))); repeat split. }
  exists b'. split; [exact Hc|].
  destruct (seq_eqb (upper (m_command m)) str_JOIN) eqn:E; [|reflexivity].
  destruct (seq_eqb (msg_nick m) (b_nick b')); [|reflexivity].
  destruct (m_args m) eqn:Ea; [exfalso; apply Hj; reflexivity|reflexivity].
Qed.

(* a numeric from the server whose first parameter is the bot's nick (353, 366, 332 are "nick setters") *)
Lemma irc_pre_numeric c args b :
  seq_eqb SERVER (b_nick b) = false ->
  (existsb (seq_eqb c) gen.T10.NICKSETTERS = true -> exists r, args = b_nick b :: r) ->
  seq_eqb (upper c) str_NICK = false -> seq_eqb (upper c) str_JOIN = false ->
  irc_pre (Msg SERVER c args) b = (b, Some (Msg SERVER c args)).
Proof.
  intros Hp Hns Hn Hj. unfold irc_pre. cbn [m_prefix m_command m_args]. rewrite Hp. cbv zeta.
  change (msg_nick (Msg SERVER c args)) with SERVER. rewrite Hp. cbn [andb m_prefix m_command m_args].
  rewrite Hn, Hj.
  destruct (existsb (seq_eqb c) gen.T10.NICKSETTERS) eqn:E.
  - destruct (Hns eq_refl) as [r Hr]. subst args. rewrite seq_eqb_refl. reflexivity.
  - reflexivity.
Qed.

Lemma feed_of_pre m b b' : irc_pre m b = (b', Some m) -> feed b m = addMsg m b'.
Proof. intro H. unfold feed. rewrite H. reflexivity. Qed.

(* addMsg = prefix bookkeeping, then the handler *)
Ltac disp := intros m b E; unfold addMsg, pre_n2h; rewrite E; reflexivity.
Lemma addMsg_JOIN : forall m b, m_command m = str_JOIN -> addMsg m b = st_doJoin m (pre_n2h m b). Proof. disp. Qed.
Lemma addMsg_PART : forall m b, m_command m = str_PART -> addMsg m b = st_doPart m (pre_n2h m b). Proof. disp. Qed.
Lemma addMsg_KICK : forall m b, m_command m = str_KICK -> addMsg m b = st_doKick m (pre_n2h m b). Proof. disp. Qed.
Lemma addMsg_QUIT : forall m b, m_command m = str_QUIT -> addMsg m b = st_doQuit m (pre_n2h m b). Proof. disp. Qed.
Lemma addMsg_NICK : forall m b, m_command m = str_NICK -> addMsg m b = st_doNick m (pre_n2h m b). Proof. disp. Qed.
Lemma addMsg_MODE : forall m b, m_command m = str_MODE -> addMsg m b = st_doMode m (pre_n2h m b). Proof. disp. Qed.
Lemma addMsg_TOPIC : forall m b, m_command m = str_TOPIC -> addMsg m b = st_doTopic m (pre_n2h m b). Proof. disp. Qed.
Lemma addMsg_CHGHOST : forall m b, m_command m = str_CHGHOST -> addMsg m b = st_doChghost m (pre_n2h m b). Proof. disp. Qed.
Lemma addMsg_353 : forall m b, m_command m = str_353 -> addMsg m b = st_do353 m (pre_n2h m b). Proof. disp. Qed.
Lemma addMsg_352 : forall m b, m_command m = str_352 -> addMsg m b = st_do352 m (pre_n2h m b). Proof. disp. Qed.
Lemma addMsg_324 : forall m b, m_command m = str_324 -> addMsg m b = st_do324 m (pre_n2h m b). Proof. disp. Qed.
Lemma addMsg_329 : forall m b, m_command m = str_329 -> addMsg m b = st_do329 m (pre_n2h m b). Proof. disp. Qed.
Lemma addMsg_332 : forall m b, m_command m = str_332 -> addMsg m b = st_do332 m (pre_n2h m b). Proof. disp. Qed.
Lemma addMsg_367 : forall m b, m_command m = str_367 -> addMsg m b = st_do367 m (pre_n2h m b). Proof. disp. Qed.
Lemma addMsg_005 : forall m b, m_command m = str_005 -> addMsg m b = pre_n2h m b. Proof. disp. Qed.
Lemma addMsg_366 : forall m b, m_command m = str_366 -> addMsg m b = pre_n2h m b. Proof. disp. Qed.

Lemma pre_n2h_server c args b : pre_n2h (Msg SERVER c args) b = b.
Proof. reflexivity. Qed.
Lemma pre_n2h_user u c args b : good_user u -> seq_eqb c str_NICK = false ->
  pre_n2h (Msg (hostmask u) c args) b = n2h_set (su_nick u) (hostmask u) b.
Proof.
  intros Hu Hc. unfold pre_n2h. destruct (hostmask_nuh u (Msg (hostmask u) c args) Hu eq_refl) as [H1 H2].
  rewrite H1. cbn [m_command]. rewrite Hc. cbn [negb andb]. unfold msg_nick. rewrite H2. reflexivity.
Qed.
Lemma msg_nick_user u c args : good_user u -> msg_nick (Msg (hostmask u) c args) = su_nick u.
Proof. intro Hu. unfold msg_nick. rewrite (proj2 (hostmask_nuh u (Msg (hostmask u) c args) Hu eq_refl)). reflexivity. Qed.
Lemma msg_user_user u c args : good_user u -> msg_user (Msg (hostmask u) c args) = su_user u.
Proof. intro Hu. unfold msg_user. rewrite (proj2 (hostmask_nuh u (Msg (hostmask u) c args) Hu eq_refl)). reflexivity. Qed.
Lemma msg_host_user u c args : good_user u -> msg_host (Msg (hostmask u) c args) = su_host u.
Proof. intro Hu. unfold msg_host. rewrite (proj2 (hostmask_nuh u (Msg (hostmask u) c args) Hu eq_refl)). reflexivity. Qed.

(* the server's numerics *)
Lemma feed_numeric c args b (H : msg -> bot -> bot) :
  valid_nick (b_nick b) = true ->
  (existsb (seq_eqb c) gen.T10.NICKSETTERS = true -> exists r, args = b_nick b :: r) ->
  seq_eqb (upper c) str_NICK = false -> seq_eqb (upper c) str_JOIN = false ->
  (forall m b, m_command m = c -> addMsg m b = H m (pre_n2h m b)) ->
  feed b (Msg SERVER c args) = H (Msg SERVER c args) b.
Proof.
  intros Hv Hns Hn Hj Hd. rewrite (feed_of_pre _ b b).
  - rewrite Hd by reflexivity. reflexivity.
  - apply irc_pre_numeric; auto. apply server_not_nick. exact Hv.
Qed.

(* a command from a user *)
Lemma feed_user u c args b (H : msg -> bot -> bot) :
  good_user u -> valid_nick (b_nick b) = true ->
  existsb (seq_eqb c) gen.T10.NICKSETTERS = false ->
  seq_eqb c str_NICK = false -> seq_eqb (upper c) str_NICK = false ->
  (seq_eqb (upper c) str_JOIN = true -> args <> []) ->
  (forall m b, m_command m = c -> addMsg m b = H m (pre_n2h m b)) ->
  exists b', same_core b b' /\
    feed b (Msg (hostmask u) c args) = H (Msg (hostmask u) c args) (n2h_set (su_nick u) (hostmask u) b').
Proof.
  intros Hu Hv Hns Hc Hn Hj Hd.
  destruct (irc_pre_gen (Msg (hostmask u) c args) b) as [b' [Hc' Hpre]]; auto.
  { apply hostmask_not_nick. exact Hv. }
  exists b'. split; [exact Hc'|]. rewrite (feed_of_pre _ _ _ Hpre). rewrite Hd by reflexivity.
  rewrite pre_n2h_user by assumption. reflexivity.
Qed.

(* NICK *)
Lemma pre_n2h_nick m b : m_command m = str_NICK -> pre_n2h m b = b.
Proof. intro E. unfold pre_n2h. rewrite E. change (negb (seq_eqb str_NICK str_NICK)) with false. rewrite andb_false_r. reflexivity. Qed.
Definition pfx_upd (m : msg) (b : bot) : bot :=
  if seq_eqb (msg_nick m) (b_nick b) && negb (seq_eqb (b_prefix b) (m_prefix m)) then set_prefix b (m_prefix m) else b.
Lemma pfx_upd_core m b : same_core b (pfx_upd m b).
Proof. unfold pfx_upd. destruct (seq_eqb (msg_nick m) (b_nick b) && negb (seq_eqb (b_prefix b) (m_prefix m))); repeat split. Qed.
Lemma irc_pre_NICK m b :
  seq_eqb (m_prefix m) (b_nick b) = false -> m_command m = str_NICK ->
  irc_pre m b =
    let b1 := pfx_upd m b in
    if seq_eqb (msg_nick m) (b_nick b1) then
      match m_args m with
      | [] => (b1, None)
      | newNick :: _ =>
          let b' := set_nick b1 newNick in
          if isUserHostmask (m_prefix m) then
            match newNick, msg_user m, msg_host m with
            | _ :: _, _ :: _, _ :: _ => (set_prefix b' (joinHostmask newNick (msg_user m) (msg_host m)), Some m)
            | _, _, _ => (b', None)
            end
          else (b', None)
      end
    else (b1, Some m).
Proof.
  intros Hp Hc. unfold irc_pre, pfx_upd. rewrite Hp. cbv zeta. rewrite Hc.
  change (existsb (seq_eqb str_NICK) gen.T10.NICKSETTERS) with false. cbn [negb].
  change (upper str_NICK) with str_NICK. change (seq_eqb str_NICK str_NICK) with true. cbv iota.
  reflexivity.
Qed.
Lemma feed_nick_other u new b :
  good_user u -> valid_nick (b_nick b) = true -> seq_eqb (su_nick u) (b_nick b) = false ->
  exists b', same_core b b' /\ feed b (Msg (hostmask u) str_NICK [new]) = st_doNick (Msg (hostmask u) str_NICK [new]) b'.
Proof.
  intros Hu Hv Hne. set (m := Msg (hostmask u) str_NICK [new]).
  assert (Hpre : irc_pre m b = (pfx_upd m b, Some m)).
  { rewrite irc_pre_NICK; [|apply hostmask_not_nick; exact Hv|reflexivity]. cbv zeta.
    destruct (pfx_upd_core m b) as [H1 _]. rewrite H1. unfold m at 1. rewrite (msg_nick_user u _ _ Hu), Hne. reflexivity. }
  exists (pfx_upd m b). split; [apply pfx_upd_core|]. rewrite (feed_of_pre _ _ _ Hpre).
  rewrite addMsg_NICK by reflexivity. rewrite pre_n2h_nick by reflexivity. reflexivity.
Qed.
Lemma feed_nick_self u new b :
  good_user u -> valid_nick (b_nick b) = true -> su_nick u = b_nick b -> new <> [] ->
  exists b', b_nick b' = new /\ b_chans b' = b_chans b /\ b_n2h b' = b_n2h b /\
    feed b (Msg (hostmask u) str_NICK [new]) = st_doNick (Msg (hostmask u) str_NICK [new]) b'.
Proof.
  intros Hu Hv He Hn. set (m := Msg (hostmask u) str_NICK [new]).
  destruct (pfx_upd_core m b) as [H1 [H2 H3]].
  destruct (hostmask_nuh u m Hu eq_refl) as [Hh _].
  pose proof (msg_user_user u str_NICK [new] Hu) as Huu. pose proof (msg_host_user u str_NICK [new] Hu) as Huh.
  fold m in Huu, Huh.
  assert (Hue : su_user u <> [] /\ su_host u <> []).
  { destruct Hu as [_ [A B]]. apply valid_uh_nice in A. apply valid_uh_nice in B. split; [apply A|apply B]. }
  destruct Hue as [Hue Hhe].
  assert (Hpre : irc_pre m b = (set_prefix (set_nick (pfx_upd m b) new) (joinHostmask new (su_user u) (su_host u)), Some m)).
  { rewrite irc_pre_NICK; [|apply hostmask_not_nick; exact Hv|reflexivity]. cbv zeta.
    rewrite H1. unfold m at 1. rewrite (msg_nick_user u _ _ Hu), He, seq_eqb_refl.
    cbn [m_args m]. fold m. rewrite Hh, Huu, Huh.
    destruct new as [|x new']; [contradiction|].
    destruct (su_user u) as [|y us]; [contradiction|]. destruct (su_host u) as [|z hs]; [contradiction|]. reflexivity. }
  eexists. split; [|split; [|split; [|rewrite (feed_of_pre _ _ _ Hpre); rewrite addMsg_NICK by reflexivity; rewrite pre_n2h_nick by reflexivity; reflexivity]]].
  - reflexivity. - exact H2. - exact H3.
Qed.
