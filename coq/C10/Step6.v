(* C10/Step6.v — multi-target JOIN lists of another user: channel by channel on both sides. *)
From Coq Require Import List NArith ZArith Bool Lia.
Import ListNotations.
Require Import Base.Wire Base.PyStr C10.Model C10.Lemmas C10.Handlers C10.SrvLemmas C10.Feed C10.Inv C10.Frame C10.Sim C10.Step C10.Step2 C10.Step3.
Open Scope N_scope.

(* IrcState.doJoin, one target *)
Definition join_step (nick : str) (b : bot) (ch : str) : bot :=
  if idict_has ch (b_chans b) then chan_upd ch (addUser nick) b
  else match nick with [] => b | _ => chan_set ch (addUser nick chan0) b end.
Lemma st_doJoin_fold m b a0 rest : m_args m = a0 :: rest ->
  st_doJoin m b = fold_left (join_step (msg_nick m)) (split_char COMMA a0) b.
Proof. intro H. unfold st_doJoin. rewrite H. reflexivity. Qed.
Lemma join_step_n2h nick b c : b_n2h (join_step nick b c) = b_n2h b.
Proof. unfold join_step. destruct (idict_has c (b_chans b)); [reflexivity|]. destruct nick; reflexivity. Qed.

Section Steps6.
Variables (nick0 prefix0 : str) (uh : bool).
Notation fa := (feed_all nick0 prefix0).

(* a target the bot gets to hear about *)
Lemma join_vis s b n u c s1 : Inv s b -> idict_get n (s_users s) = Some u -> feq n (s_me s) = false ->
  idict_get n (b_n2h b) = Some (hostmask u) ->
  join_chan n c s = (s1, true) -> mych s c = true ->
  Inv s1 (join_step (su_nick u) b c) /\ mem COMMA c = false.
Proof.
  intros I En Hnm Hent Hj Hmy. unfold join_chan in Hj.
  destruct (valid_chan c) eqn:Vc; cbn [negb] in Hj; [|discriminate].
  assert (Hcomma : mem COMMA c = false) by (apply andb_true_iff in Vc as [Vc _]; apply isChannel_nocomma; exact Vc).
  split; [|exact Hcomma].
  unfold mych in Hmy. destruct (idict_get c (s_chans s)) as [ch|] eqn:Ec; [|discriminate].
  destruct (sc_members ch) as [|m0 ms0] eqn:Em.
  { unfold is_member, idict_has in Hmy. rewrite Em in Hmy. discriminate. }
  destruct (is_member n ch) eqn:Emn; [discriminate|]. inversion Hj; subst s1.
  pose proof (inv_wf s b I) as W. destruct (wf_users s W n u En) as [Hk Hgu].
  assert (Hnn : nice_nick (su_nick u)) by (apply valid_nick_nice; apply Hgu).
  unfold join_step.
  assert (Hh : idict_has c (b_chans b) = true) by (rewrite (inv_chans s b I); unfold mych; rewrite Ec; exact Hmy).
  rewrite Hh.
  assert (Heq : chan_upd c (addUser (su_nick u)) b = chan_upd c (fun bc => set_users bc (iset_add (su_nick u) (c_users bc))) b).
  { unfold chan_upd. f_equal. apply chans_update_ext. intro bc. apply addUser_plain. exact Hnn. }
  rewrite Heq.
  apply (upd_visible s c ch (add_member n) Ec b _ n u I Hmy En Hent).
  - unfold is_member, add_member. cbn [sc_members set_members]. rewrite idict_has_set. unfold is_member in Hmy. rewrite Hmy. apply orb_true_r.
  - intros x Hx. unfold is_member, add_member in Hx. cbn [sc_members set_members] in Hx. rewrite idict_has_set in Hx.
    apply orb_true_iff in Hx as [Hx|Hx]; [right; exact Hx|left; exact Hx].
  - intros f v Hf. apply (wf_modes s W c ch f v Ec Hf).
  - intros bc Hr. apply rel_join; assumption.
Qed.

(* a target the bot does not hear about (refused, or a channel the bot is not on) *)
Lemma join_invis s b n u c s1 j : Inv s b -> idict_get n (s_users s) = Some u -> feq n (s_me s) = false ->
  join_chan n c s = (s1, j) -> j && mych s c = false -> Inv s1 b.
Proof.
  intros I En Hnm Hj Hvis. unfold join_chan in Hj.
  destruct (valid_chan c) eqn:Vc; cbn [negb] in Hj; [|inversion Hj; subst; exact I].
  assert (Hhasn : idict_has n (s_users s) = true) by (unfold idict_has; rewrite En; reflexivity).
  assert (Hmn : feq (s_me s) n = false) by (rewrite feq_sym; exact Hnm).
  pose proof (inv_wf s b I) as W.
  destruct (idict_get c (s_chans s)) as [ch|] eqn:Ec.
  - destruct (sc_members ch) as [|m0 ms0] eqn:Em.
    + inversion Hj; subst s1 j. apply set_invisible; try assumption;
        unfold mych; rewrite Ec; unfold is_member, idict_has; rewrite Em; reflexivity.
    + destruct (is_member n ch) eqn:Emn; [inversion Hj; subst; exact I|]. inversion Hj; subst s1 j.
      cbn [andb] in Hvis. unfold mych in Hvis. rewrite Ec in Hvis.
      apply (upd_invisible s c ch (add_member n) Ec b I Hvis).
      * unfold is_member, add_member. cbn [sc_members set_members]. rewrite idict_has_set, Hmn. unfold is_member in Hvis. exact Hvis.
      * intros x Hx. unfold is_member, add_member in Hx. cbn [sc_members set_members] in Hx. rewrite idict_has_set in Hx.
        apply orb_true_iff in Hx as [Hx|Hx]; [rewrite (idict_has_feq x n _ Hx); exact Hhasn|].
        apply (wf_members s W c ch x Ec Hx).
      * intros f v Hf. apply (wf_modes s W c ch f v Ec Hf).
  - inversion Hj; subst s1 j. apply set_invisible; try assumption; unfold mych; rewrite Ec; reflexivity.
Qed.
Lemma join_chan_users n c s : s_users (fst (join_chan n c s)) = s_users s /\ s_me (fst (join_chan n c s)) = s_me s.
Proof.
  unfold join_chan. destruct (valid_chan c); cbn [negb]; [|split; reflexivity].
  destruct (idict_get c (s_chans s)) as [ch|]; [|split; reflexivity].
  destruct (sc_members ch); [split; reflexivity|]. destruct (is_member n ch); split; reflexivity.
Qed.

Lemma join_loop n u : forall chans s vis0 b, idict_get n (s_users s) = Some u -> feq n (s_me s) = false ->
  let '(s', vis) := fold_left (join_other n) chans (s, vis0) in
  exists vn, vis = vis0 ++ vn /\ Forall (fun p => mem COMMA p = false) vn
             /\ (Inv s b -> (vn = [] \/ idict_get n (b_n2h b) = Some (hostmask u)) ->
                 Inv s' (fold_left (join_step (su_nick u)) vn b)).
Proof.
  induction chans as [|c chans IH]; intros s vis0 b En Hnm.
  - cbn [fold_left]. exists []. rewrite app_nil_r. split; [reflexivity|split; [apply Forall_nil|]]. intros I _. exact I.
  - cbn [fold_left]. unfold join_other at 2.
    destruct (join_chan_users n c s) as [Hus Hme].
    destruct (join_chan n c s) as [s1 j] eqn:Ej. cbn [fst] in Hus, Hme.
    assert (En1 : idict_get n (s_users s1) = Some u) by (rewrite Hus; exact En).
    assert (Hnm1 : feq n (s_me s1) = false) by (rewrite Hme; exact Hnm).
    destruct (j && mych s c) eqn:E.
    + apply andb_true_iff in E as [Ej1 Emy]. subst j.
      specialize (IH s1 (vis0 ++ [c]) (join_step (su_nick u) b c) En1 Hnm1).
      destruct (fold_left (join_other n) chans (s1, vis0 ++ [c])) as [s' vis].
      destruct IH as [vn [Hv [Hf Himp]]]. exists (c :: vn). split; [rewrite Hv, <- app_assoc; reflexivity|].
      assert (Hcm : mem COMMA c = false).
      { unfold join_chan in Ej. destruct (valid_chan c) eqn:Vc; cbn [negb] in Ej; [|discriminate].
        apply andb_true_iff in Vc as [Vc _]. apply isChannel_nocomma. exact Vc. }
      split; [constructor; assumption|].
      intros I [Hnil|Hent]; [discriminate|]. cbn [fold_left].
      destruct (join_vis s b n u c s1 I En Hnm Hent Ej Emy) as [I1 _].
      apply Himp; [exact I1|]. right. rewrite join_step_n2h. exact Hent.
    + specialize (IH s1 vis0 b En1 Hnm1).
      destruct (fold_left (join_other n) chans (s1, vis0)) as [s' vis].
      destruct IH as [vn [Hv [Hf Himp]]]. exists vn. split; [exact Hv|split; [exact Hf|]].
      intros I Hor. apply Himp; [|exact Hor]. apply (join_invis s b n u c s1 j I En Hnm Ej E).
Qed.

Lemma step_join_other_multi s b n chans : Inv s b -> feq n (s_me s) = false ->
  let '(s', ms) := step nick0 true uh s (AJoin n chans) in Inv s' (fa b ms).
Proof.
  intros I Hnm. cbn [step]. destruct (idict_get n (s_users s)) as [u|] eqn:En; [|exact I]. rewrite Hnm.
  pose proof (inv_wf s b I) as W. destruct (wf_users s W n u En) as [Hk Hgu].
  set (n' := su_nick u).
  assert (En' : idict_get n' (s_users s) = Some u) by (unfold n'; rewrite <- (idict_get_feq n (su_nick u) _ Hk); exact En).
  assert (Hnm' : feq n' (s_me s) = false) by (unfold n'; rewrite <- (feq_trans_l n (su_nick u) (s_me s) Hk); exact Hnm).
  destruct (fold_left (join_other n') chans (s, [])) as [s' vis] eqn:Ef.
  destruct vis as [|v0 vr].
  - rewrite (fa_nil nick0 prefix0). pose proof (join_loop n' u chans s [] b En' Hnm') as P. rewrite Ef in P.
    destruct P as [vn [Hv [_ Himp]]]. cbn [app] in Hv. subst vn. apply Himp; [exact I|left; reflexivity].
  - rewrite (fa_one nick0 prefix0) by reflexivity.
    destruct (feed_user u str_JOIN [join [COMMA] (v0 :: vr)] b st_doJoin Hgu (Inv_valid_nick s b I)) as [b' [Hcore Hfeed]];
      try reflexivity; try (intros; discriminate); try exact addMsg_JOIN.
    rewrite Hfeed. destruct (Inv_actor s b' n' u (Inv_core s b b' Hcore I) En') as [I1 Hent].
    set (b1 := n2h_set (su_nick u) (hostmask u) b') in *.
    pose proof (join_loop n' u chans s [] b1 En' Hnm') as P. rewrite Ef in P.
    destruct P as [vn [Hv [Hf Himp]]]. cbn [app] in Hv. subst vn.
    rewrite (st_doJoin_fold (Msg (hostmask u) str_JOIN [join [COMMA] (v0 :: vr)]) b1 (join [COMMA] (v0 :: vr)) [] eq_refl).
    rewrite (split_char_join COMMA (v0 :: vr)); [|discriminate|exact Hf].
    rewrite (msg_nick_user u _ _ Hgu). apply Himp; [exact I1|right; exact Hent].
Qed.
End Steps6.
