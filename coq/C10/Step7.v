(* C10/Step7.v — the bot's own multi-target JOIN into channels nobody is on. *)
From Coq Require Import List NArith ZArith Bool Lia.
Import ListNotations.
Require Import Base.Wire Base.PyStr C10.Model C10.Lemmas C10.Handlers C10.SrvLemmas C10.Feed C10.Inv C10.Frame C10.Sim C10.Step C10.Step2 C10.Step3 C10.Step6.
Open Scope N_scope.

Section Steps7.
Variables (nick0 prefix0 : str) (uh : bool).
Notation fa := (feed_all nick0 prefix0).

(* the burst of one fresh channel (everything after the JOIN), from any bot state that already lists the channel *)
Lemma rest_fresh sv b0 b1 c u me :
  s_me sv = me -> idict_get me (s_users sv) = Some u -> su_nick u = me -> good_user u -> valid_nick me = true ->
  b_nick b0 = me -> at_chan b0 b1 c (addUser me chan0) (hostmask u) me ->
  at_chan b0 (fa b1 (burst_rest sv u c (fresh_chan me) true uh)) c (bc_fresh me) (hostmask u) me.
Proof.
  intros Hsm Hu He Hgu Hvme Hnick A1.
  assert (Hnn : nice_nick me) by (apply valid_nick_nice; exact Hvme).
  set (hm := hostmask u) in *.
  unfold burst_rest. cbn [fresh_chan sc_topic sc_bans sc_created sc_members sc_modes map app].
  unfold msgs_who, msg_names, msg_endnames, modes_args, has_mode. cbn [fresh_chan sc_members sc_modes map fst flat_map assoc app].
  rewrite Hsm, Hu. cbn [app].
  unfold feed_all. cbn [fold_left]. rewrite !(for_cmd nick0 prefix0) by reflexivity.
  assert (Hn1 : valid_nick (b_nick b1) = true) by (destruct A1 as [E _]; rewrite E, Hnick; exact Hvme).
  assert (Hb1 : b_nick b1 = me) by (destruct A1 as [E _]; rewrite E; exact Hnick).
  (* 2. NAMES *)
  assert (Hni : join [32] [names_item sv (fresh_chan me) true uh me]
                = 64 :: (if uh then hostmask u else me)).
  { cbn [join]. unfold names_item, member_flags. cbn [fresh_chan sc_members idict_get set_chans_s s_users].
    rewrite feq_refl. rewrite Hu. destruct uh; reflexivity. }
  rewrite Hni.
  set (item := 64 :: (if uh then hostmask u else me)).
  assert (Hitem : item = 64 :: (if uh then hostmask u else me)) by reflexivity.
  set (m2 := Msg SERVER str_353 [me; EQS; c; item]).
  assert (A2 : at_chan b0 (feed b1 m2) c (addUser (64 :: me) (addUser me chan0)) hm me).
  { unfold m2. rewrite (feed_numeric str_353 _ b1 st_do353 Hn1); try reflexivity; try exact addMsg_353;
      [|intros _; exists [EQS; c; item]; rewrite Hb1; reflexivity].
    unfold st_do353. cbn [m_args]. rewrite (at_has _ _ _ _ _ _ A1).
    assert (Hws : existsb ws item = false).
    { rewrite Hitem. cbn [existsb]. change (ws 64) with false. cbn [orb]. destruct uh.
      - unfold hostmask, joinHostmask. rewrite !existsb_app. cbn [existsb].
        destruct Hgu as [G1 [G2 G3]]. apply valid_nick_nice in G1. apply valid_uh_nice in G2. apply valid_uh_nice in G3.
        rewrite (nn_ws _ G1), (nu_ws _ G2), (nu_ws _ G3). reflexivity.
      - apply (nn_ws _ Hnn). }
    rewrite split_ws_token; [|rewrite Hitem; discriminate|exact Hws]. cbn [names_loop].
    change (seq_eqb EQS [ATC]) with false. rewrite Hitem.
    destruct uh.
    - assert (Hj : 64 :: hostmask u = joinHostmask (64 :: me) (su_user u) (su_host u)).
      { unfold hostmask. rewrite He. reflexivity. }
      rewrite Hj.
      destruct Hgu as [G1 [G2 G3]]. apply valid_uh_nice in G2. apply valid_uh_nice in G3. destruct G2, G3.
      rewrite isUserHostmask_join; try assumption; try discriminate;
        [|cbn [existsb]; change (ws 64) with false; cbn [orb]; apply (nn_ws _ Hnn)].
      rewrite splitHostmask_join by assumption.
      assert (Hl : lstrip gen.T10.SIGILS_353 (64 :: me) = me).
      { change (lstrip gen.T10.SIGILS_353 (64 :: me)) with (lstrip gen.T10.SIGILS me).
        destruct me as [|x r] eqn:Eme; [reflexivity|]. cbn [lstrip].
        pose proof (nn_sig _ Hnn) as Hs. cbn [existsb] in Hs. apply orb_false_iff in Hs as [Hx _]. rewrite Hx. reflexivity. }
      assert (Hhm : joinHostmask me (su_user u) (su_host u) = hm) by (unfold hm, hostmask; rewrite He; reflexivity).
      rewrite Hl. destruct me as [|x r] eqn:Eme; [exfalso; apply (nn_ne _ Hnn); reflexivity|].
      cbn [andb]. rewrite Hhm. apply at_upd. apply at_n2h; [exact A1|apply feq_refl].
    - rewrite nobang_not_hostmask; [|cbn [mem existsb]; change (N.eqb BANG 64) with false; cbn [orb]; apply (nn_bang _ Hnn)].
      cbn [andb]. apply at_upd. exact A1. }
  set (b2 := feed b1 m2) in *.
  assert (Hb2 : b_nick b2 = me) by (destruct A2 as [E _]; rewrite E; exact Hnick).
  assert (Hn2 : valid_nick (b_nick b2) = true) by (rewrite Hb2; exact Hvme).
  (* 3. end of NAMES *)
  rewrite (feed_numeric str_366 _ b2 (fun m b => b) Hn2); try reflexivity; try exact addMsg_366;
    [|intros _; eexists; rewrite Hb2; reflexivity].
  (* 4. 324 *)
  rewrite (feed_numeric str_324 _ b2 st_do324 Hn2); try reflexivity; try exact addMsg_324; [|intros; discriminate].
  unfold st_do324 at 1. cbn [m_args]. rewrite chan_upd_known_has by (apply (at_has _ _ _ _ _ _ A2)).
  change (separateModes [[PLUS]]) with (@nil (N * N * mval)).
  pose proof (at_upd _ _ _ _ _ _ (fun c0 => chan_324 c0 []) A2) as A4.
  set (b4 := chan_upd c (fun c0 => chan_324 c0 []) b2) in *.
  assert (Hb4 : b_nick b4 = me) by (destruct A4 as [E _]; rewrite E; exact Hnick).
  assert (Hn4 : valid_nick (b_nick b4) = true) by (rewrite Hb4; exact Hvme).
  (* 5. 329 *)
  rewrite (feed_numeric str_329 _ b4 st_do329 Hn4); try reflexivity; try exact addMsg_329; [|intros; discriminate].
  unfold st_do329 at 1. cbn [m_args]. rewrite chan_upd_known_has by (apply (at_has _ _ _ _ _ _ A4)).
  rewrite created_rt.
  pose proof (at_upd _ _ _ _ _ _ (fun c0 => set_created c0 1000%Z) A4) as A5.
  set (b5 := chan_upd c (fun c0 => set_created c0 1000%Z) b4) in *.
  assert (Hb5 : b_nick b5 = me) by (destruct A5 as [E _]; rewrite E; exact Hnick).
  assert (Hn5 : valid_nick (b_nick b5) = true) by (rewrite Hb5; exact Hvme).
  (* 6. WHO reply *)
  rewrite (feed_numeric str_352 _ b5 st_do352 Hn5); try reflexivity; try exact addMsg_352; [|intros; discriminate].
  unfold st_do352. cbn [m_args nth_s nth_error].
  replace (joinHostmask (su_nick u) (su_user u) (su_host u)) with hm by reflexivity.
  rewrite He. apply at_n2h; [exact A5|apply feq_refl].
Qed.

(* ---- the chain of server states while the bot enters fresh channels one after the other ---- *)
Definition set_fresh (s : srv) (c : str) : srv := set_chans_s s (idict_set c (fresh_chan (s_me s)) (s_chans s)).
Fixpoint chain (s : srv) (jn : list str) (s' : srv) : Prop :=
  match jn with
  | [] => s' = s
  | c :: r => mych s c = false /\ valid_chan c = true /\ chain (set_fresh s c) r s'
  end.
Lemma mych_set_fresh s c c' : mych (set_fresh s c) c' = feq c' c || mych s c'.
Proof.
  unfold mych, set_fresh. cbn [set_chans_s s_chans s_me]. rewrite idict_get_set. destruct (feq c' c); [|reflexivity].
  unfold is_member, idict_has, fresh_chan. cbn. rewrite feq_refl. reflexivity.
Qed.
Lemma mych_feq s a b : feq a b = true -> mych s a = mych s b.
Proof. intro H. unfold mych. rewrite (idict_get_feq a b _ H). reflexivity. Qed.
Lemma chain_keeps s' : forall r s c, chain s r s' -> mych s c = true -> existsb (feq c) r = false /\ mych s' c = true.
Proof.
  induction r as [|c2 r IH]; intros s c Hc Hm.
  - cbn in Hc. subst s'. split; [reflexivity|exact Hm].
  - destruct Hc as [Hm2 [_ Hc]]. cbn [existsb].
    destruct (feq c c2) eqn:E; [rewrite (mych_feq s c c2 E), Hm2 in Hm; discriminate|]. cbn [orb].
    apply (IH (set_fresh s c2) c Hc). rewrite mych_set_fresh, E. exact Hm.
Qed.
Lemma chain_me s' : forall r s, chain s r s' -> s_me s' = s_me s /\ s_users s' = s_users s.
Proof.
  induction r as [|c r IH]; intros s Hc; [cbn in Hc; subst; auto|].
  destruct Hc as [_ [_ Hc]]. destruct (IH _ Hc) as [A B]. split; [rewrite A|rewrite B]; reflexivity.
Qed.
Lemma chain_get s' : forall r s c, chain s r s' -> In c r -> idict_get c (s_chans s') = Some (fresh_chan (s_me s)).
Proof.
  induction r as [|c2 r IH]; intros s c Hc Hin; [destruct Hin|].
  destruct Hc as [Hm2 [_ Hc]]. destruct Hin as [E|Hin].
  - subst c2. assert (Hm : mych (set_fresh s c) c = true) by (rewrite mych_set_fresh, feq_refl; reflexivity).
    destruct (chain_keeps s' r _ c Hc Hm) as [Hno _].
    clear IH Hm. revert Hc Hno. generalize (eq_refl : idict_get c (s_chans (set_fresh s c)) = idict_get c (s_chans (set_fresh s c))).
    assert (G : forall r0 s0, chain s0 r0 s' -> existsb (feq c) r0 = false -> idict_get c (s_chans s') = idict_get c (s_chans s0)).
    { induction r0 as [|c3 r0 IH0]; intros s0 Hc0 Hn0; [cbn in Hc0; subst; reflexivity|].
      destruct Hc0 as [_ [_ Hc0]]. cbn [existsb] in Hn0. apply orb_false_iff in Hn0 as [Hn1 Hn2].
      rewrite (IH0 _ Hc0 Hn2). unfold set_fresh. cbn [set_chans_s s_chans]. rewrite idict_get_set, Hn1. reflexivity. }
    intros _ Hc Hno. rewrite (G r _ Hc Hno). unfold set_fresh. cbn [set_chans_s s_chans s_me]. rewrite idict_get_set, feq_refl. reflexivity.
  - apply (IH (set_fresh s c2) c Hc Hin).
Qed.

(* the server's loop over the bot's own targets, all of them into channels nobody is on *)
Fixpoint fresh_targets (s : srv) (chans : list str) : bool :=
  match chans with
  | [] => true
  | c :: r => let '(s1, j) := join_chan (s_me s) c s in
              (if j then dead_or_absent s c else true) && fresh_targets s1 r
  end.
Lemma join_chan_fresh s c : dead_or_absent s c = true ->
  join_chan (s_me s) c s = (s, false) \/ (join_chan (s_me s) c s = (set_fresh s c, true) /\ mych s c = false /\ valid_chan c = true).
Proof.
  intro Hd. unfold join_chan. destruct (valid_chan c) eqn:Vc; cbn [negb]; [|left; reflexivity].
  right. unfold dead_or_absent in Hd. unfold mych. destruct (idict_get c (s_chans s)) as [ch|].
  - destruct (sc_members ch) eqn:Em; [|discriminate]. repeat split. unfold is_member, idict_has. rewrite Em. reflexivity.
  - repeat split.
Qed.
Lemma join_chan_false n c s s1 : join_chan n c s = (s1, false) -> s1 = s.
Proof.
  unfold join_chan. destruct (valid_chan c); cbn [negb]; [|intro H; inversion H; reflexivity].
  destruct (idict_get c (s_chans s)) as [ch|]; [|discriminate]. destruct (sc_members ch); [discriminate|].
  destruct (is_member n ch); [intro H; inversion H; reflexivity|discriminate].
Qed.
Lemma mine_loop : forall chans s joined0, fresh_targets s chans = true ->
  let '(s', joined) := fold_left join_mine chans (s, joined0) in
  exists jn, joined = joined0 ++ jn /\ chain s jn s'.
Proof.
  induction chans as [|c chans IH]; intros s joined0 Hf.
  - cbn [fold_left]. exists []. rewrite app_nil_r. split; reflexivity.
  - cbn [fold_left fresh_targets] in *. unfold join_mine at 2.
    destruct (join_chan (s_me s) c s) as [s1 j] eqn:Ej. apply andb_true_iff in Hf as [Hd Hf].
    destruct j.
    + destruct (join_chan_fresh s c Hd) as [E|[E [Hm Hv]]]; rewrite E in Ej; inversion Ej; subst s1.
      specialize (IH (set_fresh s c) (joined0 ++ [c]) Hf).
      destruct (fold_left join_mine chans (set_fresh s c, joined0 ++ [c])) as [s' joined].
      destruct IH as [jn [Hj Hc]]. exists (c :: jn). split; [rewrite Hj, <- app_assoc; reflexivity|].
      cbn [chain]. auto.
    + pose proof (join_chan_false _ _ _ _ Ej) as E. subst s1. specialize (IH s joined0 Hf).
      destruct (fold_left join_mine chans (s, joined0)) as [s' joined]. exact IH.
Qed.

(* Inv only looks at the bot through lookups *)
Lemma Inv_lookup s b b' : b_nick b' = b_nick b ->
  (forall c, idict_get c (b_chans b') = idict_get c (b_chans b)) ->
  (forall x, idict_get x (b_n2h b') = idict_get x (b_n2h b)) -> Inv s b -> Inv s b'.
Proof.
  intros H1 H2 H3 [W N C R H]. constructor; try assumption.
  - rewrite H1. exact N.
  - intro c. unfold idict_has. rewrite H2. apply C.
  - intros c ch bc Hg Hb. rewrite H2 in Hb. apply (R c ch bc Hg Hb).
  - intros n u c Hn Hv. rewrite H3. apply (H n u c Hn Hv).
Qed.

(* the synthetic bot: the fresh channels entered one by one *)
Definition set_all (bc : chan) (jn : list str) (b : bot) : bot := fold_left (fun b c => chan_set c bc b) jn b.
Lemma set_all_get bc : forall jn b c', idict_get c' (b_chans (set_all bc jn b)) = if existsb (feq c') jn then Some bc else idict_get c' (b_chans b).
Proof.
  induction jn as [|c r IH]; intros b c'; [reflexivity|]. cbn [set_all fold_left existsb].
  change (fold_left (fun b0 c0 => chan_set c0 bc b0) r (chan_set c bc b)) with (set_all bc r (chan_set c bc b)).
  rewrite IH. cbn [chan_set set_chans b_chans]. rewrite idict_get_set.
  destruct (existsb (feq c') r); [rewrite orb_true_r; reflexivity|]. rewrite orb_false_r. reflexivity.
Qed.
Lemma set_all_other bc : forall jn b, b_nick (set_all bc jn b) = b_nick b /\ b_n2h (set_all bc jn b) = b_n2h b.
Proof. induction jn as [|c r IH]; intro b; [auto|]. cbn [set_all fold_left]. apply (IH (chan_set c bc b)). Qed.

Lemma synth_inv u : forall jn s s' b, chain s jn s' -> Inv s b ->
  idict_get (s_me s) (s_users s) = Some u -> su_nick u = s_me s ->
  idict_get (s_me s) (b_n2h b) = Some (hostmask u) ->
  Inv s' (set_all (bc_fresh (s_me s)) jn b).
Proof.
  induction jn as [|c r IH]; intros s s' b Hc I Hu He Hent.
  - cbn in Hc. subst s'. exact I.
  - destruct Hc as [Hm [Hv Hc]]. cbn [set_all fold_left].
    change (fold_left (fun b0 c0 => chan_set c0 (bc_fresh (s_me s)) b0) r (chan_set c (bc_fresh (s_me s)) b))
      with (set_all (bc_fresh (s_me s)) r (chan_set c (bc_fresh (s_me s)) b)).
    apply (IH (set_fresh s c) s' _ Hc); try assumption.
    + apply (Inv_fresh s b _ c u I Hu He Hm). split; [reflexivity|split].
      * intro c'. cbn [chan_set set_chans b_chans]. apply idict_get_set.
      * intro x. cbn [chan_set set_chans b_n2h]. destruct (feq x (s_me s)) eqn:E; [|reflexivity].
        rewrite (idict_get_feq x (s_me s) _ E). exact Hent.
Qed.

(* the real bot: the JOIN message creates every target ... *)
Lemma join_fold_fresh me : me <> [] -> forall jn s s' b, chain s jn s' ->
  (forall c, idict_has c (b_chans b) = mych s c) ->
  fold_left (join_step me) jn b = set_all (addUser me chan0) jn b.
Proof.
  intros Hne. induction jn as [|c r IH]; intros s s' b Hc Hh; [reflexivity|].
  destruct Hc as [Hm [_ Hc]]. cbn [fold_left set_all].
  assert (E : join_step me b c = chan_set c (addUser me chan0) b).
  { unfold join_step. rewrite Hh, Hm. destruct me; [contradiction|reflexivity]. }
  rewrite E. apply (IH (set_fresh s c) s' _ Hc).
  intro c'. cbn [chan_set set_chans b_chans]. rewrite idict_has_set, mych_set_fresh, Hh. reflexivity.
Qed.

(* ... and the bursts complete them one after the other *)
Lemma at_self b c bc hm me : idict_get c (b_chans b) = Some bc -> idict_get me (b_n2h b) = Some hm -> at_chan b b c bc hm me.
Proof.
  intros Hc Hn. split; [reflexivity|split].
  - intro c'. destruct (feq c' c) eqn:E; [rewrite (idict_get_feq c' c _ E); exact Hc|reflexivity].
  - intro x. destruct (feq x me) eqn:E; [rewrite (idict_get_feq x me _ E); exact Hn|reflexivity].
Qed.
Fixpoint distinct (l : list str) : Prop :=
  match l with [] => True | c :: r => existsb (feq c) r = false /\ distinct r end.
Lemma chain_distinct s' : forall jn s, chain s jn s' -> distinct jn.
Proof.
  induction jn as [|c r IH]; intros s Hc; [exact Logic.I|]. destruct Hc as [_ [_ Hc]]. split; [|apply (IH _ Hc)].
  apply (chain_keeps s' r (set_fresh s c) c Hc). rewrite mych_set_fresh, feq_refl. reflexivity.
Qed.
Lemma bursts_loop sv u me : s_me sv = me -> idict_get me (s_users sv) = Some u -> su_nick u = me -> good_user u -> valid_nick me = true ->
  forall todo b, b_nick b = me -> idict_get me (b_n2h b) = Some (hostmask u) ->
  (forall c, In c todo -> idict_get c (b_chans b) = Some (addUser me chan0)) ->
  (forall c, In c todo -> idict_get c (s_chans sv) = Some (fresh_chan me)) ->
  distinct todo ->
  b_nick (fa b (bursts sv u true uh todo)) = me
  /\ (forall c', idict_get c' (b_chans (fa b (bursts sv u true uh todo))) = if existsb (feq c') todo then Some (bc_fresh me) else idict_get c' (b_chans b))
  /\ (forall x, idict_get x (b_n2h (fa b (bursts sv u true uh todo))) = idict_get x (b_n2h b)).
Proof.
  intros Hsm Hu He Hgu Hvme. induction todo as [|c r IH]; intros b Hn Hent Hb Hs Hd.
  - cbn. repeat split. exact Hn.
  - unfold bursts. cbn [flat_map]. rewrite (Hs c (or_introl eq_refl)). fold (bursts sv u true uh r).
    rewrite (fa_app nick0 prefix0).
    pose proof (rest_fresh sv b b c u me Hsm Hu He Hgu Hvme Hn (at_self b c _ _ me (Hb c (or_introl eq_refl)) Hent)) as A.
    set (b2 := fa b (burst_rest sv u c (fresh_chan me) true uh)) in *. destruct A as [A1 [A2 A3]].
    destruct Hd as [Hnot Hd].
    assert (Hnr : forall c2, In c2 r -> feq c2 c = false).
    { intros c2 Hin. destruct (feq c2 c) eqn:E; [|reflexivity].
      assert (existsb (feq c) r = true) by (apply existsb_exists; exists c2; split; [exact Hin|rewrite feq_sym; exact E]). congruence. }
    destruct (IH b2) as [B1 [B2 B3]].
    + rewrite A1. exact Hn.
    + rewrite A3, feq_refl. reflexivity.
    + intros c2 Hin. rewrite A2, (Hnr c2 Hin). apply Hb. right. exact Hin.
    + intros c2 Hin. apply Hs. right. exact Hin.
    + exact Hd.
    + split; [exact B1|split].
      * intro c'. rewrite B2, A2. cbn [existsb]. destruct (existsb (feq c') r); [rewrite orb_true_r; reflexivity|].
        rewrite orb_false_r. reflexivity.
      * intro x. rewrite B3, A3. destruct (feq x me) eqn:E; [|reflexivity]. rewrite (idict_get_feq x me _ E). symmetry. exact Hent.
Qed.

Lemma chain_nocomma s' : forall jn s, chain s jn s' -> Forall (fun p => mem COMMA p = false) jn.
Proof.
  induction jn as [|c r IH]; intros s Hc; [apply Forall_nil|]. destruct Hc as [_ [Hv Hc]].
  constructor; [|apply (IH _ Hc)]. apply andb_true_iff in Hv as [Hv _]. apply isChannel_nocomma. exact Hv.
Qed.
Lemma in_existsb c l : In c l -> existsb (feq c) l = true.
Proof. intro H. apply existsb_exists. exists c. split; [exact H|apply feq_refl]. Qed.

Lemma step_join_self_multi s b n chans : Inv s b -> feq n (s_me s) = true -> fresh_targets s chans = true ->
  let '(s', ms) := step nick0 true uh s (AJoin n chans) in Inv s' (fa b ms).
Proof.
  intros I Hf Hfr. cbn [step]. destruct (idict_get n (s_users s)) as [u|] eqn:En; [|exact I]. rewrite Hf.
  pose proof (inv_wf s b I) as W. destruct (wf_users s W n u En) as [Hk Hgu].
  assert (Hu : idict_get (s_me s) (s_users s) = Some u) by (rewrite <- (idict_get_feq n (s_me s) _ Hf); exact En).
  pose proof (wf_me_user s u n W En Hf) as He.
  pose proof (mine_loop chans s [] Hfr) as P.
  destruct (fold_left join_mine chans (s, [])) as [s' joined]. destruct P as [jn [Hj Hc]]. cbn [app] in Hj. subst joined.
  destruct jn as [|j0 jr].
  - cbn in Hc. subst s'. exact I.
  - set (jn := j0 :: jr) in *.
    destruct (chain_me s' jn s Hc) as [Hme' Hus'].
    unfold feed_all. cbn [fold_left]. rewrite (for_cmd nick0 prefix0) by reflexivity. fold (feed_all nick0 prefix0).
    destruct (feed_user u str_JOIN [join [COMMA] jn] b st_doJoin Hgu (Inv_valid_nick s b I)) as [b' [Hcore Hfeed]];
      try reflexivity; try (intros; discriminate); try exact addMsg_JOIN.
    rewrite Hfeed. destruct (Inv_actor s b' n u (Inv_core s b b' Hcore I) En) as [I1 Hent].
    set (b1 := n2h_set (su_nick u) (hostmask u) b') in *.
    assert (Hent' : idict_get (s_me s) (b_n2h b1) = Some (hostmask u)).
    { rewrite <- (idict_get_feq n (s_me s) _ Hf). exact Hent. }
    rewrite (st_doJoin_fold (Msg (hostmask u) str_JOIN [join [COMMA] jn]) b1 (join [COMMA] jn) [] eq_refl).
    rewrite (split_char_join COMMA jn); [|discriminate|apply (chain_nocomma s' jn s Hc)].
    rewrite (msg_nick_user u _ _ Hgu), He.
    assert (Hne : s_me s <> []) by (apply (nn_ne _ (valid_nick_nice _ (wf_me s W)))).
    rewrite (join_fold_fresh (s_me s) Hne jn s s' b1 Hc (inv_chans s b1 I1)).
    set (bJ := set_all (addUser (s_me s) chan0) jn b1).
    destruct (set_all_other (addUser (s_me s) chan0) jn b1) as [HJn HJh]. fold bJ in HJn, HJh.
    destruct (bursts_loop s' u (s_me s) Hme') with (todo := jn) (b := bJ) as [B1 [B2 B3]].
    + rewrite Hus'. exact Hu.
    + exact He.
    + exact Hgu.
    + apply (wf_me s W).
    + rewrite HJn. apply (inv_nick s b1 I1).
    + rewrite HJh. exact Hent'.
    + intros c Hin. unfold bJ. rewrite set_all_get, (in_existsb c jn Hin). reflexivity.
    + intros c Hin. apply (chain_get s' jn s c Hc Hin).
    + apply (chain_distinct s' jn s Hc).
    + change (fold_left (feed_or_reset nick0 prefix0) (bursts s' u true uh jn) bJ) with (fa bJ (bursts s' u true uh jn)).
      apply (Inv_lookup s' (set_all (bc_fresh (s_me s)) jn b1)).
      * rewrite B1. destruct (set_all_other (bc_fresh (s_me s)) jn b1) as [A _]. rewrite A. symmetry. apply (inv_nick s b1 I1).
      * intro c'. rewrite B2. unfold bJ. rewrite !set_all_get. destruct (existsb (feq c') jn); reflexivity.
      * intro x. rewrite B3, HJh. destruct (set_all_other (bc_fresh (s_me s)) jn b1) as [_ A]. rewrite A. reflexivity.
      * apply (synth_inv u jn s s' b1 Hc I1 Hu He Hent').
Qed.
End Steps7.
