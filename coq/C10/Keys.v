(* C10/Keys.v — a server-only invariant: the keys of every member table are valid (canonical) nick spellings and
   every channel reports the same creation time.  Preserved by every action of the reference server. *)
From Coq Require Import List NArith ZArith Bool Lia.
Import ListNotations.
Require Import Base.Wire Base.PyStr C10.Bot C10.Spec C10.Lemmas C10.Handlers C10.SrvLemmas C10.Feed C10.Inv.
Open Scope N_scope.

Definition chan_ok (ch : schan) : Prop :=
  (forall x, In x (map fst (sc_members ch)) -> valid_nick x = true) /\ sc_created ch = CREATED.
Definition skeys (s : srv) : Prop := forall c ch, idict_get c (s_chans s) = Some ch -> chan_ok ch.

Lemma keys_set {A} k (v : A) d x : In x (map fst (idict_set k v d)) -> x = k \/ In x (map fst d).
Proof.
  induction d as [|[k0 v0] d IH]; cbn [idict_set map fst In].
  - intros [E|[]]. left. auto.
  - destruct (feq k k0); cbn [map fst In].
    + intros [E|H]; [left; auto|right; right; exact H].
    + intros [E|H]; [right; left; exact E|]. destruct (IH H) as [E|H2]; [left; exact E|right; right; exact H2].
Qed.
Lemma keys_del {A} k (d : list (str * A)) x : In x (map fst (idict_del k d)) -> In x (map fst d).
Proof.
  unfold idict_del. induction d as [|[k0 v0] d IH]; cbn [filter map fst In]; [auto|].
  destruct (negb (feq k k0)); cbn [map fst In]; intuition.
Qed.
Lemma keys_upd {A} k (f : A -> A) d : map fst (idict_upd k f d) = map fst d.
Proof.
  induction d as [|[k0 v0] d IH]; [reflexivity|]. cbn [idict_upd]. destruct (feq k k0); cbn [map fst]; [reflexivity|].
  rewrite IH. reflexivity.
Qed.

Lemma ok_add n ch : valid_nick n = true -> chan_ok ch -> chan_ok (add_member n ch).
Proof.
  intros Hn [A B]. split; [|exact B]. intros x Hx. unfold add_member in Hx. cbn [sc_members set_members] in Hx.
  destruct (keys_set _ _ _ _ Hx) as [E|H]; [subst; exact Hn|apply A; exact H].
Qed.
Lemma ok_del n ch : chan_ok ch -> chan_ok (del_member n ch).
Proof.
  intros [A B]. split; [|exact B]. intros x Hx. unfold del_member in Hx. cbn [sc_members set_members] in Hx.
  apply A. apply (keys_del _ _ _ Hx).
Qed.
Lemma ok_ren o n ch : valid_nick n = true -> chan_ok ch -> chan_ok (ren_member o n ch).
Proof.
  intros Hn [A B]. unfold ren_member. destruct (idict_get o (sc_members ch)); [|split; assumption].
  split; [|exact B]. intros x Hx. cbn [sc_members set_members] in Hx.
  destruct (keys_set _ _ _ _ Hx) as [E|H]; [subst; exact Hn|apply A; apply (keys_del _ _ _ H)].
Qed.
Lemma ok_fresh n : valid_nick n = true -> chan_ok (fresh_chan n).
Proof. intro Hn. split; [|reflexivity]. intros x [E|[]]. cbn in E. subst. exact Hn. Qed.
Lemma ok_apply_mode ch g : chan_ok ch -> chan_ok (apply_mode ch g).
Proof.
  intros [A B]. destruct g as [[p f] [a|]]; cbn [apply_mode]; [|split; assumption].
  assert (U : forall st, chan_ok (upd_flags st a ch)).
  { intro st. split; [|exact B]. intros x Hx. unfold upd_flags in Hx. cbn [sc_members set_members] in Hx.
    rewrite keys_upd in Hx. apply A. exact Hx. }
  destruct (N.eqb f O_); [apply U|]. destruct (N.eqb f H_); [apply U|]. destruct (N.eqb f V_); [apply U|].
  destruct (N.eqb f B_); [split; assumption|]. destruct (mem f LIST_MODES); split; assumption.
Qed.
Lemma ok_fold {X} (F : schan -> X -> schan) : (forall ch x, chan_ok ch -> chan_ok (F ch x)) ->
  forall l ch, chan_ok ch -> chan_ok (fold_left F l ch).
Proof. intros H. induction l as [|x l IH]; intros ch Hc; [exact Hc|]. cbn [fold_left]. apply IH. apply H. exact Hc. Qed.

Lemma skeys_upd s c F : skeys s -> (forall ch, chan_ok ch -> chan_ok (F ch)) -> skeys (set_chans_s s (idict_upd c F (s_chans s))).
Proof.
  intros K HF c' ch' Hg. cbn [set_chans_s s_chans] in Hg. rewrite idict_upd_get in Hg.
  destruct (feq c' c); [|apply (K c' ch' Hg)].
  destruct (idict_get c' (s_chans s)) as [ch|] eqn:E; [|discriminate]. cbn in Hg. inversion Hg; subst. apply HF. apply (K c' ch E).
Qed.
Lemma skeys_set s c v : skeys s -> chan_ok v -> skeys (set_chans_s s (idict_set c v (s_chans s))).
Proof.
  intros K Hv c' ch' Hg. cbn [set_chans_s s_chans] in Hg. rewrite idict_get_set in Hg.
  destruct (feq c' c); [inversion Hg; subst; exact Hv|apply (K c' ch' Hg)].
Qed.
Lemma skeys_vmap me us s F : skeys s -> (forall ch, chan_ok ch -> chan_ok (F ch)) -> skeys (Srv me us (vmap F (s_chans s))).
Proof.
  intros K HF c' ch' Hg. cbn [s_chans] in Hg. rewrite vmap_get in Hg.
  destruct (idict_get c' (s_chans s)) as [ch|] eqn:E; [|discriminate]. cbn in Hg. inversion Hg; subst. apply HF. apply (K c' ch E).
Qed.
Lemma skeys_same me us s : skeys s -> skeys (Srv me us (s_chans s)).
Proof. intros K c ch Hg. apply (K c ch Hg). Qed.

Lemma join_chan_skeys n c s : valid_nick n = true -> skeys s -> skeys (fst (join_chan n c s)).
Proof.
  intros Hn K. unfold join_chan. destruct (valid_chan c); cbn [negb fst]; [|exact K].
  destruct (idict_get c (s_chans s)) as [ch|]; [|apply skeys_set; [exact K|apply ok_fresh; exact Hn]].
  destruct (sc_members ch); [apply skeys_set; [exact K|apply ok_fresh; exact Hn]|].
  destruct (is_member n ch); [exact K|]. apply skeys_upd; [exact K|]. intros ch0. apply ok_add. exact Hn.
Qed.
Lemma join_chan_me n c s : s_me (fst (join_chan n c s)) = s_me s.
Proof.
  unfold join_chan. destruct (valid_chan c); cbn [negb]; [|reflexivity].
  destruct (idict_get c (s_chans s)) as [ch|]; [|reflexivity]. destruct (sc_members ch); [reflexivity|]. destruct (is_member n ch); reflexivity.
Qed.
Lemma join_other_skeys n : valid_nick n = true -> forall chans s vis, skeys s -> skeys (fst (fold_left (join_other n) chans (s, vis))).
Proof.
  intro Hn. induction chans as [|c r IH]; intros s vis K; [exact K|]. cbn [fold_left]. unfold join_other at 2.
  pose proof (join_chan_skeys n c s Hn K) as K1. destruct (join_chan n c s) as [s1 j]. apply IH. exact K1.
Qed.
Lemma join_mine_skeys : forall chans s joined, valid_nick (s_me s) = true -> skeys s -> skeys (fst (fold_left join_mine chans (s, joined))).
Proof.
  induction chans as [|c r IH]; intros s joined Hn K; [exact K|]. cbn [fold_left]. unfold join_mine at 2.
  pose proof (join_chan_skeys (s_me s) c s Hn K) as K1. pose proof (join_chan_me (s_me s) c s) as Hm.
  destruct (join_chan (s_me s) c s) as [s1 j]. cbn [fst] in *. apply IH; [rewrite Hm; exact Hn|exact K1].
Qed.
Lemma part_any_skeys n : forall chans s vis, skeys s -> skeys (fst (fold_left (part_any n) chans (s, vis))).
Proof.
  induction chans as [|c r IH]; intros s vis K; [exact K|]. cbn [fold_left]. unfold part_any at 2.
  assert (K1 : skeys (fst (part_chan n c s))).
  { unfold part_chan. destruct (mem COMMA c); [exact K|]. destruct (idict_get c (s_chans s)) as [ch|]; [|exact K].
    destruct (is_member n ch); [|exact K]. cbn [fst]. apply skeys_upd; [exact K|]. intros ch0. apply ok_del. }
  destruct (part_chan n c s) as [s1 j]. apply IH. exact K1.
Qed.

Lemma step_skeys nick0 mp uh s a : wf s -> skeys s -> skeys (fst (step nick0 mp uh s a)).
Proof.
  intros W K. destruct a; cbn [step].
  - destruct (valid_nick n && valid_uh u && valid_uh h); [|exact K]. destruct (idict_get n (s_users s)); [exact K|]. apply skeys_same. exact K.
  - destruct (idict_get n (s_users s)) as [u|] eqn:En; [|exact K].
    destruct (feq n (s_me s)).
    + pose proof (join_mine_skeys chans s [] (wf_me s W) K) as K1.
      destruct (fold_left join_mine chans (s, [])) as [s' joined]. destruct joined; exact K1.
    + destruct (wf_users s W n u En) as [_ [Hv _]].
      pose proof (join_other_skeys (su_nick u) Hv chans s [] K) as K1.
      destruct (fold_left (join_other (su_nick u)) chans (s, [])) as [s' vis]. destruct vis; exact K1.
  - destruct (idict_get n (s_users s)); [|exact K]. pose proof (part_any_skeys n chans s [] K) as K1.
    destruct (fold_left (part_any n) chans (s, [])) as [s' vis]. destruct vis; exact K1.
  - destruct (idict_get k (s_users s)); [|exact K]. destruct (idict_get c (s_chans s)) as [ch|]; [|exact K].
    destruct (is_member k ch && nonempty _); [|exact K]. cbn [fst]. apply skeys_upd; [exact K|].
    intros ch0. apply ok_fold. intros ch1 x. apply ok_del.
  - destruct (idict_get n (s_users s)); [|exact K]. destruct (feq n (s_me s)); [exact K|]. cbn [fst].
    apply skeys_vmap; [exact K|]. intros ch0. apply ok_del.
  - destruct (idict_get n (s_users s)) as [u|]; [|exact K].
    destruct (valid_nick new && _ && negb (seq_eqb (su_nick u) new)) eqn:E; [|exact K].
    apply andb_true_iff in E as [E _]. apply andb_true_iff in E as [Vn _]. cbn [fst].
    apply skeys_vmap; [exact K|]. intros ch0. apply ok_ren. exact Vn.
  - destruct (idict_get k (s_users s)); [|exact K]. destruct (idict_get c (s_chans s)) as [ch|]; [|exact K].
    destruct (C03.Model.isChannel c && is_member k ch && nonempty (mode_string changes None) && forallb (mode_ok ch) changes); [|exact K].
    cbn [fst]. apply skeys_upd; [exact K|]. intros ch0. apply ok_fold. intros ch1 x. apply ok_apply_mode.
  - destruct (idict_get k (s_users s)); [|exact K]. destruct (idict_get c (s_chans s)) as [ch|]; [|exact K].
    destruct (is_member k ch); [|exact K]. cbn [fst]. apply skeys_upd; [exact K|]. intros ch0 [A B]. split; assumption.
  - destruct (idict_get n (s_users s)); [|exact K]. destruct (valid_uh u && valid_uh h); [|exact K]. apply skeys_same. exact K.
  - destruct (idict_get c (s_chans s)); exact K.
  - destruct (idict_get c (s_chans s)); exact K.
  - destruct (match idict_get nick0 (s_users s) with Some _ => feq nick0 (s_me s) | None => true end); [|exact K].
    cbn [fst]. apply skeys_vmap; [exact K|]. intros ch0. apply ok_del.
  - exact K.
  - destruct (idict_get c (s_chans s)); [destruct (idict_get (s_me s) (s_users s))|]; exact K.
Qed.
