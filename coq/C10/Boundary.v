(* C10/Boundary.v — IrcState.doMode applies a MODE exactly when ircutils.isChannel accepts the target; isChannel
   accepts names of up to CHANNELLEN characters, the bound included (table T03, regenerated from ircutils.isChannel). *)
From Coq Require Import List NArith ZArith Bool Lia Arith.
Import ListNotations.
Require Import Base.Wire Base.PyStr C10.Model C10.Lemmas C10.Handlers C10.SrvLemmas C10.Feed C10.Inv C10.Sim C10.Step.
Open Scope N_scope.

Lemma isChannel_len s : C03.Model.isChannel s = true -> (length s <= gen.T03.CHANNELLEN)%nat.
Proof.
  unfold C03.Model.isChannel. intro H. repeat (apply andb_true_iff in H as [H ?]).
  apply Nat.leb_le. assumption.
Qed.
(* the bound is inclusive: every well-shaped name of exactly CHANNELLEN characters is a channel *)
Lemma isChannel_at_max s :
  nonempty s = true -> mem C03.Model.COMMA s = false -> mem C03.Model.BEL s = false ->
  C03.Model.hd_in gen.T03.CHANTYPES s = true -> C03.Model.one_word s = true ->
  length s = gen.T03.CHANNELLEN -> C03.Model.isChannel s = true.
Proof.
  intros H1 H2 H3 H4 H5 H6. unfold C03.Model.isChannel. rewrite H1, H2, H3, H4, H5, H6, Nat.leb_refl. reflexivity.
Qed.
Lemma isChannel_too_long s : (gen.T03.CHANNELLEN < length s)%nat -> C03.Model.isChannel s = false.
Proof.
  intro H. unfold C03.Model.isChannel. apply Nat.leb_gt in H. rewrite H. rewrite !andb_false_r. reflexivity.
Qed.

(* IrcState.doMode: applied to the recorded channel iff the target is a channel name, dropped otherwise *)
Lemma doMode_applied p c rest b : C03.Model.isChannel c = true -> idict_has c (b_chans b) = true ->
  st_doMode (Msg p str_MODE (c :: rest)) b = chan_upd c (fun bc => chan_doMode bc rest) b.
Proof. intros H1 H2. unfold st_doMode. cbn [m_args]. rewrite H1. apply chan_upd_or_new_has. exact H2. Qed.
Lemma doMode_dropped p c rest b : C03.Model.isChannel c = false -> st_doMode (Msg p str_MODE (c :: rest)) b = b.
Proof. intro H. unfold st_doMode. cbn [m_args]. rewrite H. reflexivity. Qed.

(* concrete names at the boundary of the default CHANNELLEN *)
Definition c_max : str := 35 :: repeat 120 (gen.T03.CHANNELLEN - 1).      (* '#' + 'x' * (CHANNELLEN-1) *)
Definition c_max1 : str := 35 :: repeat 120 gen.T03.CHANNELLEN.
Definition c_maxm : str := 35 :: repeat 120 (gen.T03.CHANNELLEN - 2).
Lemma boundary_names :
  length c_max = gen.T03.CHANNELLEN /\ valid_chan c_maxm = true /\ valid_chan c_max = true /\ valid_chan c_max1 = false.
Proof. vm_compute. repeat split; reflexivity. Qed.

(* the bot on the longest possible channel: another user joins, gets +o, a ban and +m are set -- every MODE is applied *)
Definition boundary_history : list action :=
  [AConnect n_Foo u_ h_; AJoin n_test [c_maxm; c_max; c_max1]; AJoin n_Foo [c_max];
   AMode n_test c_max [(true, 111, Some n_foo); (true, 109, None); (true, 98, Some mask1)]; AMode n_test c_max [(false, 111, Some n_FOO)];
   AMode n_test c_max [(true, 118, Some n_Foo)]].
Example boundary_ok :
  dom boundary_history = true
  /\ all_agree n_test p_test true true start bot_start boundary_history = true
  /\ (let '(s, b) := final n_test p_test true true start bot_start boundary_history in
      length (view_chans s) = 2%nat
      /\ match idict_get c_max (b_chans b) with
         | Some bc => iset_mem n_foo (c_voices bc) && negb (iset_mem n_foo (c_ops bc)) && iset_mem mask2 (c_bans bc)
         | None => false end = true).
Proof. vm_compute. repeat split; reflexivity. Qed.
