(* C10/SrvLemmas.v — lookup laws of the reference server's tables and the string facts that tie the
   messages it emits to what the bot's parsers (isUserHostmask, splitHostmask, split, lstrip) make of them. *)
From Coq Require Import List NArith ZArith Bool Lia.
Import ListNotations.
Require Import Base.Wire Base.PyStr C10.Bot C10.Spec C10.Lemmas C10.Handlers.
Open Scope N_scope.

(* ---- tables ---- *)
Lemma idict_upd_get {A} k (f : A -> A) k' d :
  idict_get k' (idict_upd k f d) = if feq k' k then option_map f (idict_get k' d) else idict_get k' d.
Proof.
  induction d as [|[k0 c0] d IH]; cbn [idict_upd idict_get].
  - destruct (feq k' k); reflexivity.
  - destruct (feq k k0) eqn:E; cbn [idict_get].
    + destruct (feq k' k0) eqn:G.
      * rewrite (feq_trans_r k k0 k' E), G. reflexivity.
      * rewrite (feq_trans_r k k0 k' E), G. reflexivity.
    + rewrite IH. destruct (feq k' k0) eqn:G; [|reflexivity].
      destruct (feq k' k) eqn:F; [|reflexivity].
      rewrite (feq_sym k' k) in F. rewrite (feq_trans_l k k' k0 F), G in E. discriminate.
Qed.
Lemma vmap_get {A} (f : A -> A) k d : idict_get k (vmap f d) = option_map f (idict_get k d).
Proof. apply idict_get_map. Qed.
Lemma idict_has_get {A} k (d : list (str * A)) : idict_has k d = match idict_get k d with Some _ => true | None => false end.
Proof. reflexivity. Qed.
Lemma idict_has_set {A} k (v : A) k' d : idict_has k' (idict_set k v d) = feq k' k || idict_has k' d.
Proof. unfold idict_has. rewrite idict_get_set. destruct (feq k' k); reflexivity. Qed.
Lemma idict_has_upd {A} k (f : A -> A) k' d : idict_has k' (idict_upd k f d) = idict_has k' d.
Proof. unfold idict_has. rewrite idict_upd_get. destruct (feq k' k); [|reflexivity]. destruct (idict_get k' d); reflexivity. Qed.
Lemma idict_has_feq {A} a b (d : list (str * A)) : feq a b = true -> idict_has a d = idict_has b d.
Proof. intro H. unfold idict_has. rewrite (idict_get_feq a b d H). reflexivity. Qed.
Lemma key_has {A} (d : list (str * A)) x : In x (map fst d) -> idict_has x d = true.
Proof.
  induction d as [|[k v] d IH]; [intros []|]. cbn [map fst In]. unfold idict_has. cbn [idict_get].
  intros [E|H].
  - subst. rewrite feq_refl. reflexivity.
  - destruct (feq x k); [reflexivity|]. apply IH. exact H.
Qed.
Lemma has_key {A} (d : list (str * A)) x : idict_has x d = true -> exists k, In k (map fst d) /\ feq x k = true.
Proof.
  induction d as [|[k v] d IH]; unfold idict_has; cbn [idict_get map fst In]; [discriminate|].
  destruct (feq x k) eqn:E; intro H.
  - exists k. split; [left; reflexivity|exact E].
  - destruct (IH H) as [k' [Hin Hf]]. exists k'. split; [right; exact Hin|exact Hf].
Qed.

Lemma assoc_del_get f f' m : assoc f' (assoc_del f m) = if N.eqb f' f then None else assoc f' m.
Proof.
  unfold assoc_del. induction m as [|[k v] m IH]; cbn [filter assoc fst].
  - destruct (N.eqb f' f); reflexivity.
  - destruct (N.eqb f k) eqn:E; cbn [negb assoc].
    + rewrite IH. apply N.eqb_eq in E. subst k. destruct (N.eqb f' f); reflexivity.
    + rewrite IH. destruct (N.eqb f' k) eqn:G; [|reflexivity].
      apply N.eqb_eq in G. subst k. rewrite N.eqb_sym, E. reflexivity.
Qed.
Lemma assoc_app f a b : assoc f (a ++ b) = match assoc f a with Some v => Some v | None => assoc f b end.
Proof. induction a as [|[k v] a IH]; [reflexivity|]. cbn [app assoc]. destruct (N.eqb f k); [reflexivity|exact IH]. Qed.
Lemma assoc_set_get f v f' m : assoc f' (assoc_set f v m) = if N.eqb f' f then Some v else assoc f' m.
Proof.
  unfold assoc_set. rewrite assoc_app, assoc_del_get. cbn [assoc]. destruct (N.eqb f' f); [reflexivity|].
  destruct (assoc f' m); reflexivity.
Qed.

(* the bot's plain per-letter dict *)
Fixpoint cdict_get (k : N) (d : list (N * mval)) : option mval :=
  match d with [] => None | (k', v) :: d' => if N.eqb k k' then Some v else cdict_get k d' end.
Lemma cdict_get_set k v k' d : cdict_get k' (cdict_set k v d) = if N.eqb k' k then Some v else cdict_get k' d.
Proof.
  induction d as [|[k0 v0] d IH]; cbn [cdict_set cdict_get]; [reflexivity|].
  destruct (N.eqb k k0) eqn:E; cbn [cdict_get].
  - apply N.eqb_eq in E. subst k0. destruct (N.eqb k' k); reflexivity.
  - rewrite IH. destruct (N.eqb k' k0) eqn:G; [|reflexivity].
    apply N.eqb_eq in G. subst k0. rewrite N.eqb_sym, E. reflexivity.
Qed.
Lemma cdict_get_del k k' d : cdict_get k' (cdict_del k d) = if N.eqb k' k then None else cdict_get k' d.
Proof.
  unfold cdict_del. induction d as [|[k0 v0] d IH]; cbn [filter cdict_get fst].
  - destruct (N.eqb k' k); reflexivity.
  - destruct (N.eqb k k0) eqn:E; cbn [negb cdict_get].
    + rewrite IH. apply N.eqb_eq in E. subst k0. destruct (N.eqb k' k); reflexivity.
    + rewrite IH. destruct (N.eqb k' k0) eqn:G; [|reflexivity].
      apply N.eqb_eq in G. subst k0. rewrite N.eqb_sym, E. reflexivity.
Qed.

(* ---- strings ---- *)
Lemma mem_rev c s : mem c (rev s) = mem c s.
Proof.
  destruct (mem c s) eqn:E.
  - apply mem_In. apply -> in_rev. apply mem_In. exact E.
  - apply mem_false. intro H. apply in_rev in H. apply mem_In in H. congruence.
Qed.
Lemma rsplit1_last c a b : mem c b = false -> rsplit1 c (a ++ c :: b) = Some (a, b).
Proof.
  intro H. unfold rsplit1. rewrite rev_app_distr. cbn [rev]. rewrite <- app_assoc. cbn [app].
  rewrite split1_char by (rewrite mem_rev; exact H). rewrite !rev_involutive. reflexivity.
Qed.
Lemma splitHostmask_join n u h :
  mem BANG u = false -> mem BANG h = false -> mem ATC h = false ->
  splitHostmask (joinHostmask n u h) = Some (n, u, h).
Proof.
  intros H1 H2 H3. unfold splitHostmask, joinHostmask.
  replace (n ++ [BANG] ++ u ++ [ATC] ++ h) with ((n ++ BANG :: u) ++ ATC :: h)
    by (rewrite <- app_assoc; reflexivity).
  rewrite rsplit1_last by exact H3. rewrite rsplit1_last by exact H1. reflexivity.
Qed.
Lemma at_mid_app u h : u <> [] -> h <> [] -> at_mid (u ++ ATC :: h) = true.
Proof.
  intros Hu Hh. induction u as [|x u IH]; [contradiction|].
  destruct u as [|y u'].
  - cbn [app at_mid]. destruct h as [|z h']; [contradiction|]. rewrite N.eqb_refl. reflexivity.
  - change ((x :: y :: u') ++ ATC :: h) with (x :: (y :: u') ++ ATC :: h).
    cbn [at_mid]. change ((y :: u') ++ ATC :: h) with (y :: (u' ++ ATC :: h)).
    assert (Hne : u' ++ ATC :: h <> []) by (destruct u'; discriminate).
    destruct (u' ++ ATC :: h) as [|z r] eqn:E; [contradiction|].
    rewrite <- E. change (y :: u' ++ ATC :: h) with ((y :: u') ++ ATC :: h).
    rewrite IH by discriminate. apply orb_true_r.
Qed.
Lemma bang_then_app p rest : p <> [] -> at_mid rest = true -> bang_then (p ++ BANG :: rest) = true.
Proof.
  intros Hp Hr. induction p as [|x p IH]; [contradiction|].
  destruct p as [|y p'].
  - cbn [app bang_then]. rewrite N.eqb_refl, Hr. reflexivity.
  - change ((x :: y :: p') ++ BANG :: rest) with (x :: ((y :: p') ++ BANG :: rest)).
    cbn [bang_then]. change ((y :: p') ++ BANG :: rest) with (y :: (p' ++ BANG :: rest)).
    change (y :: p' ++ BANG :: rest) with ((y :: p') ++ BANG :: rest).
    rewrite IH by discriminate. apply orb_true_r.
Qed.
Lemma isUserHostmask_join n u h :
  n <> [] -> u <> [] -> h <> [] -> existsb ws n = false -> existsb ws u = false -> existsb ws h = false ->
  isUserHostmask (joinHostmask n u h) = true.
Proof.
  intros Hn Hu Hh Wn Wu Wh. unfold isUserHostmask, joinHostmask. cbn [app].
  rewrite bang_then_app by (auto using at_mid_app).
  rewrite existsb_app. cbn [existsb]. rewrite existsb_app. cbn [existsb]. rewrite Wn, Wu, Wh.
  reflexivity.
Qed.

(* what the validity predicates give *)
Lemma existsb_false_In {A} (p : A -> bool) l x : existsb p l = false -> In x l -> p x = false.
Proof.
  intros H Hin. destruct (p x) eqn:E; [|reflexivity].
  assert (existsb p l = true) by (apply existsb_exists; exists x; auto). congruence.
Qed.
Lemma existsb_false_weaken {A} (p q : A -> bool) l :
  (forall x, q x = true -> p x = true) -> existsb p l = false -> existsb q l = false.
Proof.
  intros Hpq H. destruct (existsb q l) eqn:E; [|reflexivity].
  apply existsb_exists in E as [x [Hin Hq]]. pose proof (existsb_false_In p l x H Hin) as Hp.
  specialize (Hpq x Hq). congruence.
Qed.
Lemma mem_existsb c s : mem c s = existsb (N.eqb c) s.
Proof. reflexivity. Qed.
Lemma mem_false_of_bad (bad : N -> bool) c s : bad c = true -> existsb bad s = false -> mem c s = false.
Proof.
  intros Hb H. apply mem_false. intro Hin. rewrite (existsb_false_In bad s c H Hin) in Hb. discriminate.
Qed.

Record nice_nick (n : str) : Prop := {
  nn_ne : n <> [];
  nn_ws : existsb ws n = false;
  nn_bang : mem BANG n = false;
  nn_at : mem ATC n = false;
  nn_comma : mem COMMA n = false;
  nn_dot : mem 46 n = false;
  nn_sig : existsb (fun c => mem c gen.T10.SIGILS) n = false }.
Lemma valid_nick_nice n : valid_nick n = true -> nice_nick n.
Proof.
  unfold valid_nick, valid_name. intro H.
  apply andb_true_iff in H as [H Hd]. apply andb_true_iff in H as [Hne H].
  apply negb_true_iff in H. apply negb_true_iff in Hd.
  constructor.
  - destruct n; [discriminate|discriminate].
  - revert H. apply existsb_false_weaken. intros x Hx. rewrite Hx. reflexivity.
  - apply (mem_false_of_bad _ BANG n) in H; [exact H|]. vm_compute. reflexivity.
  - apply (mem_false_of_bad _ ATC n) in H; [exact H|]. vm_compute. reflexivity.
  - apply (mem_false_of_bad _ COMMA n) in H; [exact H|]. vm_compute. reflexivity.
  - exact Hd.
  - revert H. apply existsb_false_weaken. intros x Hx. rewrite Hx. apply orb_true_r.
Qed.
Record nice_uh (n : str) : Prop := {
  nu_ne : n <> [];
  nu_ws : existsb ws n = false;
  nu_bang : mem BANG n = false;
  nu_at : mem ATC n = false }.
Lemma valid_uh_nice n : valid_uh n = true -> nice_uh n.
Proof.
  unfold valid_uh. intro H. apply andb_true_iff in H as [Hne H]. apply negb_true_iff in H.
  constructor.
  - destruct n; discriminate.
  - revert H. apply existsb_false_weaken. intros x Hx. rewrite Hx. reflexivity.
  - apply (mem_false_of_bad _ BANG n) in H; [exact H|]. vm_compute. reflexivity.
  - apply (mem_false_of_bad _ ATC n) in H; [exact H|]. vm_compute. reflexivity.
Qed.

(* a user record with valid fields *)
Definition good_user (u : suser) : Prop :=
  valid_nick (su_nick u) = true /\ valid_uh (su_user u) = true /\ valid_uh (su_host u) = true.
Lemma hostmask_nuh u m : good_user u -> m_prefix m = hostmask u ->
  isUserHostmask (m_prefix m) = true /\ msg_nuh m = (su_nick u, su_user u, su_host u).
Proof.
  intros [Hn [Hu Hh]] Hp. apply valid_nick_nice in Hn. apply valid_uh_nice in Hu. apply valid_uh_nice in Hh.
  destruct Hn, Hu, Hh.
  assert (H1 : isUserHostmask (hostmask u) = true) by (apply isUserHostmask_join; assumption).
  split; [rewrite Hp; exact H1|].
  unfold msg_nuh. rewrite Hp, H1. unfold hostmask. rewrite splitHostmask_join by assumption. reflexivity.
Qed.
Lemma hostmask_has_bang u : mem BANG (hostmask u) = true.
Proof. unfold hostmask, joinHostmask. rewrite mem_app. cbn. rewrite orb_true_r. reflexivity. Qed.
Lemma seq_eqb_mem_diff c a b : mem c a = true -> mem c b = false -> seq_eqb a b = false.
Proof. intros Ha Hb. apply seq_eqb_neq. intro E. subst. congruence. Qed.
Lemma server_not_nick n : valid_nick n = true -> seq_eqb SERVER n = false.
Proof. intro H. apply valid_nick_nice in H. apply (seq_eqb_mem_diff 46); [reflexivity|apply H]. Qed.
Lemma hostmask_not_nick u n : valid_nick n = true -> seq_eqb (hostmask u) n = false.
Proof. intro H. apply valid_nick_nice in H. apply (seq_eqb_mem_diff BANG); [apply hostmask_has_bang|apply H]. Qed.
Lemma feq_of_eq a b : a = b -> feq a b = true.
Proof. intro; subst; apply feq_refl. Qed.
Lemma seq_eqb_false_of_feq a b : feq a b = false -> seq_eqb a b = false.
Proof. intro H. apply seq_eqb_neq. intro E. subst. rewrite feq_refl in H. discriminate. Qed.
