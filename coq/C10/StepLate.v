(* C10/StepLate.v — replies about a channel the bot is not on (it parted / was kicked while its NAMES, MODE, MODE +b and
   WHO queries were in flight): none of them makes the bot start tracking the channel. *)
From Coq Require Import List NArith ZArith Bool Lia.
Import ListNotations.
Require Import Base.Wire Base.PyStr C10.Model C10.Lemmas C10.Handlers C10.SrvLemmas C10.Feed C10.Inv C10.Frame C10.Sim C10.Step C10.Step2 C10.Step3 C10.Step4.
Open Scope N_scope.

(* the handlers, for every state *)
Lemma late_353 p a ty ch items b : idict_has ch (b_chans b) = false -> st_do353 (Msg p str_353 [a; ty; ch; items]) b = b.
Proof. intro H. unfold st_do353. cbn [m_args]. rewrite H. reflexivity. Qed.
Lemma late_324 p a ch rest b : idict_has ch (b_chans b) = false -> st_do324 (Msg p str_324 (a :: ch :: rest)) b = b.
Proof. intro H. unfold st_do324, chan_upd_known. cbn [m_args]. rewrite H. reflexivity. Qed.
Lemma late_329 p a ch rest b : idict_has ch (b_chans b) = false -> st_do329 (Msg p str_329 (a :: ch :: rest)) b = b.
Proof. intro H. unfold st_do329, chan_upd_known. cbn [m_args]. rewrite H. reflexivity. Qed.
Lemma late_367 p a ch rest b : idict_has ch (b_chans b) = false -> st_do367 (Msg p str_367 (a :: ch :: rest)) b = b.
Proof. intro H. unfold st_do367. cbn [m_args nth_s nth_error]. rewrite H. reflexivity. Qed.
Lemma late_332_chans p a ch t b c' : idict_has ch (b_chans b) = false ->
  idict_get c' (b_chans (st_do332 (Msg p str_332 [a; ch; t]) b)) = idict_get c' (b_chans b).
Proof.
  intro H. unfold st_do332. cbn [m_args chan_upd set_chans b_chans]. rewrite chans_update_get.
  destruct (feq c' ch) eqn:E; [|reflexivity]. unfold idict_has in H. rewrite (idict_get_feq c' ch _ E).
  destruct (idict_get ch (b_chans b)); [discriminate|reflexivity].
Qed.

Section StepsLate.
Variables (nick0 prefix0 : str) (uh : bool).
Notation fa := (feed_all nick0 prefix0).

Lemma step_late s b c : Inv s b ->
  let '(s', ms) := step nick0 true uh s (ALate c) in Inv s' (fa b ms).
Proof.
  intro I. cbn [step]. destruct (idict_get c (s_chans s)) as [ch|] eqn:Ec; [|exact I].
  destruct (idict_get (s_me s) (s_users s)) as [u|] eqn:Eu; [|exact I].
  destruct (is_member (s_me s) ch) eqn:Eme; [exact I|].
  assert (Hh : forall b0, Inv s b0 -> idict_has c (b_chans b0) = false).
  { intros b0 I0. rewrite (inv_chans s b0 I0). unfold mych. rewrite Ec. exact Eme. }
  unfold burst_rest. rewrite !(fa_app nick0 prefix0).
  (* topic *)
  assert (I1 : Inv s (fa b (match sc_topic ch with [] => [] | t => [Msg SERVER str_332 [s_me s; c; t]] end))).
  { destruct (sc_topic ch) as [|t0 tr]; [exact I|]. rewrite (fa_one nick0 prefix0) by reflexivity.
    rewrite (feed_numeric str_332 _ b st_do332 (Inv_valid_nick s b I)); try reflexivity; try exact addMsg_332;
      [|intros _; eexists; rewrite (inv_nick s b I); reflexivity].
    destruct I as [W N C R H]. constructor; try assumption.
    - intro c'. unfold idict_has. rewrite late_332_chans by (rewrite C; unfold mych; rewrite Ec; exact Eme). apply C.
    - intros c' ch' bc' Hg Hb. rewrite late_332_chans in Hb by (rewrite C; unfold mych; rewrite Ec; exact Eme). apply (R c' ch' bc' Hg Hb). }
  set (b1 := fa b _) in *.
  (* NAMES, end of NAMES *)
  assert (I2 : Inv s (fa b1 [msg_names s c ch true uh; msg_endnames s c])).
  { unfold feed_all. cbn [fold_left]. rewrite !(for_cmd nick0 prefix0) by reflexivity. unfold msg_names, msg_endnames.
    rewrite (feed_numeric str_353 _ b1 st_do353 (Inv_valid_nick s b1 I1)); try reflexivity; try exact addMsg_353;
      [|intros _; eexists; rewrite (inv_nick s b1 I1); reflexivity].
    rewrite (late_353 _ _ _ _ _ b1 (Hh b1 I1)).
    rewrite (feed_numeric str_366 _ b1 (fun m b => b) (Inv_valid_nick s b1 I1)); try reflexivity; try exact addMsg_366;
      [exact I1|intros _; eexists; rewrite (inv_nick s b1 I1); reflexivity]. }
  set (b2 := fa b1 _) in *.
  (* 324, 329 *)
  assert (I3 : Inv s (fa b2 [Msg SERVER str_324 (s_me s :: c :: modes_args ch); Msg SERVER str_329 [s_me s; c; py_str_Z (Z.of_N (sc_created ch))]])).
  { unfold feed_all. cbn [fold_left]. rewrite !(for_cmd nick0 prefix0) by reflexivity.
    rewrite (feed_numeric str_324 _ b2 st_do324 (Inv_valid_nick s b2 I2)); try reflexivity; try exact addMsg_324; [|intros; discriminate].
    rewrite (late_324 _ _ _ _ b2 (Hh b2 I2)).
    rewrite (feed_numeric str_329 _ b2 st_do329 (Inv_valid_nick s b2 I2)); try reflexivity; try exact addMsg_329; [|intros; discriminate].
    rewrite (late_329 _ _ _ _ b2 (Hh b2 I2)). exact I2. }
  set (b3 := fa b2 _) in *.
  (* ban list *)
  assert (I4 : forall bans b0, Inv s b0 -> Inv s (fa b0 (map (fun x => Msg SERVER str_367 [s_me s; c; x; SERVER; [49]]) bans))).
  { induction bans as [|x r IH]; intros b0 I0; [exact I0|]. cbn [map]. unfold feed_all. cbn [fold_left].
    rewrite (for_cmd nick0 prefix0) by reflexivity. fold (feed_all nick0 prefix0).
    rewrite (feed_numeric str_367 _ b0 st_do367 (Inv_valid_nick s b0 I0)); try reflexivity; try exact addMsg_367; [|intros; discriminate].
    rewrite (late_367 _ _ _ _ b0 (Hh b0 I0)). apply IH. exact I0. }
  (* WHO *)
  unfold msgs_who. apply (who_loop nick0 prefix0 s c). apply I4. exact I3.
Qed.
End StepsLate.
