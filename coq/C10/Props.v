(* C10/Props.v — the property theorems, nothing else.
   Bot model: C10/Bot.v (mirrors src/irclib.py state tracking).  Reference server: C10/Spec.v.
   Proofs: Lemmas.v, Handlers.v, Sim.v.

   Full statement (DESIGN.md):
     C10_simulation : forall acts, agree (final acts) = true
   (the bot fed with what the reference server emits agrees with the server's view after every history).
   The code violated it in three ways (findings F10, F10b, F10c).  F10 (case-only NICK) and F10b (userhost-in-names
   NAMES) are repaired: their refutation theorems are gone, their witnesses are now inside [dom] and agree
   (Sim.fixed_casenick / fixed_uhnames), and the NICK/hostmask theorem is the full statement.  F10c (int() coercion,
   a documented API of separateModes) stays: proved below are its refutation with a witness outside [dom], and -- for ALL bot states, no size bound -- the effect of the
   handlers the property is about.  The trace-level theorem
     forall acts, dom acts = true -> agree after every action
   is proved at the END of this file for ALL of [dom] (C10_simulation_trace: induction over the history with the
   lookup-level relation Inv of Inv.v).  The theorems named
   ..._partial are full statements about the handlers (all states) whose step case is not yet part of the trace proof. *)
From Coq Require Import List NArith ZArith Bool.
Import ListNotations.
Require Import Base.Wire Base.PyStr C10.Model C10.Lemmas C10.Handlers C10.SrvLemmas C10.Feed C10.Inv C10.Sim C10.Agree C10.Step C10.Keys C10.Trace C10.Boundary C10.StepLate C10.StepMode.

(* ---- refutations of the simulation: concrete conformant histories outside [dom] after which the bot model
        disagrees with the server (replayed on the implementation: findings F10, F10b, F10c) ---- *)
Theorem C10_simulation_refuted_intarg :
  exists acts, dom acts = false /\ ends_agreeing acts = false.
Proof. exists witness_intarg. exact refuted_intarg. Qed.
Print Assumptions C10_simulation_refuted_intarg.

(* ---- NICK and hostmasks, every state, FULL statement (case-only changes included): after  :old!u@h NICK new
        the record of [new] is new!u@h, and [old] is forgotten unless it is the same nick under IRC case rules ---- *)
Theorem C10_nick_hostmask :
  forall m b new rest,
  m_args m = new :: rest -> nonempty (msg_user m) = true -> nonempty (msg_host m) = true -> new <> [] ->
  idict_get new (b_n2h (st_doNick m b)) = Some (joinHostmask new (msg_user m) (msg_host m))
  /\ (feq new (msg_nick m) = false -> idict_get (msg_nick m) (b_n2h (st_doNick m b)) = None).
Proof. exact doNick_hostmask. Qed.
Print Assumptions C10_nick_hostmask.

(* ---- NAMES with userhost-in-names, every state: an item [prefixes]nick!user@host records nick!user@host under the
        bare nick ---- *)
Theorem C10_names_uhnames_hostmask :
  forall ch item name user host nick b,
  isUserHostmask item = true -> splitHostmask item = Some (name, user, host) ->
  lstrip gen.T10.SIGILS_353 name = nick -> nick <> [] ->
  idict_get nick (b_n2h (fst (names_loop ch [item] b))) = Some (joinHostmask nick user host).
Proof. exact names_item_hostmask. Qed.
Print Assumptions C10_names_uhnames_hostmask.

(* every other nick keeps its hostmask across a NICK *)
Theorem C10_nick_others :
  forall m b new rest x,
  m_args m = new :: rest -> nonempty (msg_user m) = true -> nonempty (msg_host m) = true -> new <> [] ->
  feq x (msg_nick m) = false -> feq x new = false ->
  idict_get x (b_n2h (st_doNick m b)) = idict_get x (b_n2h b).
Proof. exact doNick_others. Qed.
Print Assumptions C10_nick_others.

(* membership / op / halfop / voice after NICK, in every channel of every state: [renamed] is the set-level
   meaning of a rename; a case-only rename changes no answer *)
Theorem C10_nick_membership :
  forall m b new rest ch,
  m_args m = new :: rest -> nonempty (msg_user m) = true -> nonempty (msg_host m) = true -> new <> [] ->
  idict_get ch (b_chans (st_doNick m b)) = option_map (replaceUser (msg_nick m) new) (idict_get ch (b_chans b))
  /\ forall c x,
     iset_mem x (c_users (replaceUser (msg_nick m) new c))
       = renamed (msg_nick m) new x (iset_mem (msg_nick m) (c_users c)) (iset_mem x (c_users c))
  /\ iset_mem x (c_ops (replaceUser (msg_nick m) new c))
       = renamed (msg_nick m) new x (iset_mem (msg_nick m) (c_ops c)) (iset_mem x (c_ops c))
  /\ iset_mem x (c_halfops (replaceUser (msg_nick m) new c))
       = renamed (msg_nick m) new x (iset_mem (msg_nick m) (c_halfops c)) (iset_mem x (c_halfops c))
  /\ iset_mem x (c_voices (replaceUser (msg_nick m) new c))
       = renamed (msg_nick m) new x (iset_mem (msg_nick m) (c_voices c)) (iset_mem x (c_voices c)).
Proof.
  intros m b new rest ch Ha Hu Hh Hn. split; [exact (doNick_channels m b new rest ch Ha Hu Hh Hn)|].
  intros c x. repeat split.
  - apply replaceUser_users. - apply replaceUser_ops. - apply replaceUser_halfops. - apply replaceUser_voices.
Qed.
Print Assumptions C10_nick_membership.

Theorem C10_nick_caseonly_membership :
  forall o n x s, feq o n = true -> renamed o n x (iset_mem o s) (iset_mem x s) = iset_mem x s.
Proof. exact renamed_caseonly. Qed.
Print Assumptions C10_nick_caseonly_membership.

(* ChannelState.replaceUser itself (the function IrcState.doNick applies to every channel): a rename that differs
   only in case leaves membership, op, halfop and voice of every nick unchanged, for every channel state.  (Swapping
   s.remove(oldNick)/s.add(newNick) in replaceUser falsifies this: Lemmas.swapped_order_loses.) *)
Theorem C10_nick_caseonly_keeps_membership :
  forall o n c x, feq o n = true ->
  iset_mem x (c_users (replaceUser o n c)) = iset_mem x (c_users c)
  /\ iset_mem x (c_ops (replaceUser o n c)) = iset_mem x (c_ops c)
  /\ iset_mem x (c_halfops (replaceUser o n c)) = iset_mem x (c_halfops c)
  /\ iset_mem x (c_voices (replaceUser o n c)) = iset_mem x (c_voices c).
Proof. exact replaceUser_caseonly. Qed.
Print Assumptions C10_nick_caseonly_keeps_membership.

(* PART/KICK/QUIT of a user: removeUser answers every membership question as "not u, and was there before" *)
Theorem C10_remove_user :
  forall u x c,
  iset_mem x (c_users (removeUser u c)) = negb (feq x u) && iset_mem x (c_users c)
  /\ iset_mem x (c_ops (removeUser u c)) = negb (feq x u) && iset_mem x (c_ops c)
  /\ iset_mem x (c_halfops (removeUser u c)) = negb (feq x u) && iset_mem x (c_halfops c)
  /\ iset_mem x (c_voices (removeUser u c)) = negb (feq x u) && iset_mem x (c_voices c).
Proof.
  intros u x c. repeat split.
  - apply removeUser_users. - apply removeUser_ops. - apply removeUser_halfops. - apply removeUser_voices.
Qed.
Print Assumptions C10_remove_user.

(* ---- self-leave, at the level of Irc.feedMsg, every state ---- *)
Theorem C10_self_leave_part :
  forall b p a0 rest c,
  seq_eqb p (b_nick b) = false ->
  feq (msg_nick (Msg p str_PART (a0 :: rest))) (b_nick b) = true ->
  In c (split_char COMMA a0) ->
  idict_has c (b_chans (feed b (Msg p str_PART (a0 :: rest)))) = false.
Proof. exact feed_self_part. Qed.
Print Assumptions C10_self_leave_part.

Theorem C10_self_leave_kick :
  forall b p ch users rest,
  seq_eqb p (b_nick b) = false ->
  existsb (fun u => feq u (b_nick b)) (split_char COMMA users) = true ->
  idict_has ch (b_chans (feed b (Msg p str_KICK (ch :: users :: rest)))) = false.
Proof. exact feed_self_kick. Qed.
Print Assumptions C10_self_leave_kick.

Theorem C10_self_leave_reset :
  forall n0 p0 b, b_chans (feed_or_reset n0 p0 b (Msg [] RESET [])) = []
                  /\ b_n2h (feed_or_reset n0 p0 b (Msg [] RESET [])) = [].
Proof. intros. rewrite feed_reset. split; reflexivity. Qed.
Print Assumptions C10_self_leave_reset.

(* ---- case folding: lookups respect IRC case rules; KICK with case-variant channel / victims is the very same
        state transformer; MODE +x/-x with a case-variant nick answers every question alike ---- *)
Theorem C10_fold_lookup :
  forall a b, feq a b = true ->
  (forall s, iset_mem a s = iset_mem b s)
  /\ (forall (d : list (str * chan)), idict_get a d = idict_get b d)
  /\ (forall (d : list (str * str)), idict_get a d = idict_get b d)
  /\ (forall c, removeUser a c = removeUser b c).
Proof.
  intros a b H. repeat split; intros.
  - apply iset_mem_feq; exact H. - apply idict_get_feq; exact H. - apply idict_get_feq; exact H.
  - apply removeUser_feq; exact H.
Qed.
Print Assumptions C10_fold_lookup.

Theorem C10_fold_kick :
  forall c c', feq c c' = true -> forall us us' b,
  Forall2 (fun a a' => feq a a' = true) us us' -> kick_loop c us b = kick_loop c' us' b.
Proof. exact kick_loop_feq. Qed.
Print Assumptions C10_fold_kick.

Theorem C10_fold_mode_arg :
  forall a a' s x, feq a a' = true ->
  iset_mem x (iset_add a s) = iset_mem x (iset_add a' s) /\ iset_discard a s = iset_discard a' s.
Proof. exact mode_arg_feq. Qed.
Print Assumptions C10_fold_mode_arg.

(* ---- separateModes = the declarative parse of a mode string (argument consumption per the two regenerated
        letter tables, sign tracking, missing parameter skipped, int() coercion of parameters) ---- *)
Theorem C10_separateModes_spec :
  forall modes args out, parse_modes modes PLUS args out <-> separateModes (modes :: args) = out.
Proof. exact separateModes_spec. Qed.
Print Assumptions C10_separateModes_spec.

(* ---- the simulation over traces (unbounded length), by induction with the lookup-level relation [Inv] ----
   [Inv s b]  (Inv.v): the bot's nick is the server's; the bot records exactly the channels the server says it is on;
   for each of them every membership / op / halfop / voice / ban question, the topic, every mode letter and the
   creation time get the server's answer; every user who shares a channel with the bot has the server's hostmask on
   record; plus well-formedness of the server tables.  [Inv] implies the executable [agree]. *)
Theorem C10_relation_implies_agree : forall s b, Inv s b -> agree s b = true.
Proof. exact Inv_agree. Qed.
Print Assumptions C10_relation_implies_agree.

(* THE TRACE THEOREM.  For every history [acts] of any length inside [dom] (the only restrictions: mode parameters are
   canonical under int(), finding F10c, and NAMES replies are multi-prefix), the reference server and the bot model, run in
   lock step from the connected start state with multi-prefix negotiated (and userhost-in-names on or off), agree after
   EVERY action.  Proof: induction over the history with the lookup-level relation [Inv] (Inv.v) and the server-only
   invariant [skeys] (Keys.v: member keys are canonical valid nicks, one creation time); one step lemma per action kind
   (Step*.v): CONNECT, JOIN of other users and of the bot itself with any target list (fresh or populated channels, the
   full burst: JOIN, 332, the 353 item loop with multi-prefix sigils and userhost-in-names, 366, the 324 letter loop, 329,
   the 367 loop, the 352 loop), PART lists, KICK with any victims, QUIT, NICK (incl. case-only and the bot's own), MODE (all
   accepted letters), TOPIC, CHGHOST, NAMES refresh, WHO refresh, reconnect.  Nothing of [dom] is left outside.
   Outside [dom] the statement is false: C10_simulation_refuted_intarg. *)
Theorem C10_simulation_trace :
  forall nick0 prefix0 u h uh acts,
  valid_nick nick0 = true -> valid_uh u = true -> valid_uh h = true ->
  dom acts = true ->
  all_agree nick0 prefix0 true uh (srv0 nick0 u h) (reset nick0 prefix0) acts = true.
Proof.
  intros nick0 prefix0 u h uh acts Hn Hu Hh Hr.
  apply (trace_inv nick0 prefix0 uh Hn acts _ _ (Inv_start nick0 prefix0 u h Hn Hu Hh) (skeys_start nick0 u h) Hr).
Qed.
Print Assumptions C10_simulation_trace.

(* the same from ANY related pair of states (the step case is not tied to the start state) *)
Theorem C10_simulation_from_related :
  forall nick0 prefix0 uh acts s b, valid_nick nick0 = true ->
  Inv s b -> Keys.skeys s -> dom acts = true -> all_agree nick0 prefix0 true uh s b acts = true.
Proof. intros. apply trace_inv; assumption. Qed.
Print Assumptions C10_simulation_from_related.

(* ---- channel names: what [dom]'s reference server accepts is ircutils.isChannel (regenerated table T03: CHANTYPES,
        CHANNELLEN, the whitespace set) plus "no ':'"; the length bound is INCLUSIVE; and IrcState.doMode applies a MODE
        exactly when the target is such a name (an off-by-one in the bound makes every MODE on a channel of exactly
        CHANNELLEN characters be dropped: the seeded change C10_6). ---- *)
Theorem C10_channel_name_bound :
  (forall s, C03.Model.isChannel s = true -> (length s <= gen.T03.CHANNELLEN)%nat)
  /\ (forall s, nonempty s = true -> mem C03.Model.COMMA s = false -> mem C03.Model.BEL s = false ->
       C03.Model.hd_in gen.T03.CHANTYPES s = true -> C03.Model.one_word s = true ->
       length s = gen.T03.CHANNELLEN -> C03.Model.isChannel s = true)
  /\ (forall s, (gen.T03.CHANNELLEN < length s)%nat -> C03.Model.isChannel s = false).
Proof. split; [exact isChannel_len|split; [exact isChannel_at_max|exact isChannel_too_long]]. Qed.
Print Assumptions C10_channel_name_bound.

Theorem C10_mode_applied_iff_channel :
  (forall p c rest b, C03.Model.isChannel c = true -> idict_has c (b_chans b) = true ->
     st_doMode (Msg p str_MODE (c :: rest)) b = chan_upd c (fun bc => chan_doMode bc rest) b)
  /\ (forall p c rest b, C03.Model.isChannel c = false -> st_doMode (Msg p str_MODE (c :: rest)) b = b).
Proof. split; [exact doMode_applied|exact doMode_dropped]. Qed.
Print Assumptions C10_mode_applied_iff_channel.

(* ---- two networks in one process.  The model gives every IrcState its own containers (two bot states are two values);
        that this is true of the code is checked by the table extractor (IrcState.__init__ has no mutable default argument,
        Irc.__init__ builds a fresh IrcState) and by the aliasing clause of the harness.  Under it, for any interleaving
        of two histories of [dom], each bot agrees with ITS server after every step of either network (a shared
        nicksToHostmasks dict -- seeded change C10_7 -- makes network A report network B's hostmasks). ---- *)
Theorem C10_two_networks :
  forall nick0 prefix0 uA hA uB hB uh steps,
  valid_nick nick0 = true -> valid_uh uA = true -> valid_uh hA = true -> valid_uh uB = true -> valid_uh hB = true ->
  forallb (fun wa => action_dom (snd wa)) steps = true ->
  all_agree2 nick0 prefix0 uh (srv0 nick0 uA hA) (reset nick0 prefix0) (srv0 nick0 uB hB) (reset nick0 prefix0) steps = true.
Proof.
  intros. apply two_networks; try assumption; try apply Inv_start; try apply skeys_start; assumption.
Qed.
Print Assumptions C10_two_networks.

(* ---- replies in flight.  The bot asks NAMES / MODE / MODE +b / WHO when it joins; if it parts or is kicked before the
        answers arrive (or the answers are about a channel it never was on) none of 353, 324, 329, 367 makes it track the
        channel: "when the bot itself leaves or is kicked the channel disappears from its view" -- and stays away.
        (Before the repair C10.F11, do353 / do324 / do329 re-created the channel record: a ghost channel.)  The action
        ALate of the reference server delivers such replies; it is inside [dom], so C10_simulation_trace covers it. ---- *)
Theorem C10_late_replies_ignored :
  forall p a ch b, idict_has ch (b_chans b) = false ->
  (forall ty items, st_do353 (Msg p str_353 [a; ty; ch; items]) b = b)
  /\ (forall rest, st_do324 (Msg p str_324 (a :: ch :: rest)) b = b)
  /\ (forall rest, st_do329 (Msg p str_329 (a :: ch :: rest)) b = b)
  /\ (forall rest, st_do367 (Msg p str_367 (a :: ch :: rest)) b = b).
Proof.
  intros p a ch b H. repeat split; intros.
  - apply late_353; exact H. - apply late_324; exact H. - apply late_329; exact H. - apply late_367; exact H.
Qed.
Print Assumptions C10_late_replies_ignored.

(* ---- list modes other than b.  ChannelState.modes holds "the modes set in the channel, with their value", excluding
        o v h b e q and -- since the repair C10.F14 -- I: the bot claims nothing about invite-exception, ban-exception
        and quiet LISTS, so a MODE +I/-I/+e/-e/+q/-q leaves its record of the channel untouched, for every state.
        (Before the repair +I mask was filed as the single value modes['I'] and -I of ANY mask removed it:
        +I m1, +I m2, -I m1 left no I although m2 is still set.) ---- *)
Theorem C10_list_modes_not_recorded :
  forall bc p f v, mem f LIST_MODES = true -> chan_mode1 bc (sign p, f, v) = bc.
Proof. exact cm1_list. Qed.
Print Assumptions C10_list_modes_not_recorded.
