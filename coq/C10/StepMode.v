(* C10/StepMode.v — step case MODE: the mode string the server emits is parsed back by separateModes into the
   changes the server applied; each change has the same effect on both sides. *)
From Coq Require Import List NArith ZArith Bool Lia.
Import ListNotations.
Require Import Base.Wire Base.PyStr C10.Model C10.Lemmas C10.Handlers C10.SrvLemmas C10.Feed C10.Inv C10.Frame C10.Sim C10.Step C10.Step2.
Open Scope N_scope.

Definition chg := (bool * N * option str)%type.
Definition sign (p : bool) : N := if p then PLUS else MINUS.
Definition conv_chg (g : chg) : N * N * mval := let '(p, f, a) := g in (sign p, f, conv a).
Definition chg_shape (g : chg) : bool :=
  let '(p, f, a) := g in negb (is_sign f) && Bool.eqb (takes_arg (sign p) f) (isSome a).

Lemma sign_is_sign p : N.eqb (sign p) PLUS || N.eqb (sign p) MINUS = true.
Proof. destruct p; reflexivity. Qed.
Lemma sepmodes_sign p m lastN args : sepmodes (sign p :: m) lastN args = sepmodes m (sign p) args.
Proof. cbn [sepmodes]. rewrite sign_is_sign. reflexivity. Qed.
Lemma sepmodes_mode_string : forall chgs lastb lastN,
  forallb chg_shape chgs = true ->
  match lastb with Some p => lastN = sign p | None => True end ->
  sepmodes (mode_string chgs lastb) lastN (mode_params chgs) = map conv_chg chgs.
Proof.
  induction chgs as [|[[p f] a] r IH]; intros lastb lastN Hs Hl; [reflexivity|].
  cbn [forallb] in Hs. apply andb_true_iff in Hs as [Hg Hs]. unfold chg_shape in Hg.
  apply andb_true_iff in Hg as [Hf Ht]. apply negb_true_iff in Hf. apply eqb_prop in Ht.
  assert (Hcore : sepmodes ([f] ++ mode_string r (Some p)) (sign p) (mode_params ((p, f, a) :: r)) = map conv_chg ((p, f, a) :: r)).
  { cbn [app sepmodes]. unfold is_sign in Hf. rewrite Hf. fold (takes_arg (sign p) f). rewrite Ht.
    unfold mode_params. cbn [flat_map snd map conv_chg]. destruct a as [x|]; cbn [isSome app conv].
    - f_equal. apply (IH (Some p) (sign p) Hs eq_refl).
    - f_equal. apply (IH (Some p) (sign p) Hs eq_refl). }
  cbn [mode_string].
  destruct (match lastb with Some p0 => Bool.eqb p0 p | None => false end) eqn:E.
  - destruct lastb as [p0|]; [|discriminate]. apply eqb_prop in E. subst p0. subst lastN. cbn [app]. exact Hcore.
  - change (if p then PLUS else MINUS) with (sign p). cbn [app]. rewrite sepmodes_sign. exact Hcore.
Qed.

(* ---- the letter tables, as far as the reference server's mode alphabet is concerned ---- *)
Definition K_ : N := 107.  Definition L_ : N := 108.
Definition table_facts : bool :=
  forallb (fun f => negb (is_sign f) && takes_arg PLUS f && takes_arg MINUS f) [O_; H_; V_; B_; K_]
  && negb (is_sign L_) && takes_arg PLUS L_ && negb (takes_arg MINUS L_)
  && forallb (fun f => negb (is_sign f) && negb (takes_arg PLUS f) && negb (takes_arg MINUS f) && negb (mem f gen.T10.SETMODES)) FLAGS
  && negb (mem K_ gen.T10.SETMODES) && negb (mem L_ gen.T10.SETMODES)
  && forallb (fun f => mem f gen.T10.SETMODES) [O_; H_; V_; B_]
  && forallb (fun f => negb (is_sign f) && takes_arg PLUS f && takes_arg MINUS f && mem f gen.T10.SETMODES) LIST_MODES.
Lemma table_facts_ok : table_facts = true.
Proof. vm_compute. reflexivity. Qed.

Lemma mem3 f a b c : mem f [a; b; c] = true -> f = a \/ f = b \/ f = c.
Proof.
  cbn [mem existsb]. intro H. repeat (apply orb_true_iff in H as [H|H]); try discriminate;
    apply N.eqb_eq in H; auto.
Qed.
Lemma flag_facts f : mem f FLAGS = true ->
  is_sign f = false /\ takes_arg PLUS f = false /\ takes_arg MINUS f = false /\ mem f gen.T10.SETMODES = false.
Proof.
  intro H. apply mem_In in H. pose proof table_facts_ok as T. unfold table_facts in T.
  repeat (apply andb_true_iff in T as [T ?]).
  match goal with Hf : forallb _ FLAGS = true |- _ => rewrite forallb_forall in Hf; specialize (Hf f H) end.
  repeat (match goal with Hf : _ && _ = true |- _ => apply andb_true_iff in Hf as [Hf ?] end).
  repeat (match goal with Hf : negb _ = true |- _ => apply negb_true_iff in Hf end). auto.
Qed.

(* what a change accepted by the server looks like *)
Inductive okchg (ch0 : schan) : chg -> Prop :=
| ok_o p a : is_member a ch0 = true -> okchg ch0 (p, O_, Some a)
| ok_h p a : is_member a ch0 = true -> okchg ch0 (p, H_, Some a)
| ok_v p a : is_member a ch0 = true -> okchg ch0 (p, V_, Some a)
| ok_b p a : okchg ch0 (p, B_, Some a)
| ok_list p f a : mem f LIST_MODES = true -> okchg ch0 (p, f, Some a)
| ok_k p a : okchg ch0 (p, K_, Some a)
| ok_l a : okchg ch0 (true, L_, Some a)
| ok_l0 : okchg ch0 (false, L_, None)
| ok_flag p f : mem f FLAGS = true -> okchg ch0 (p, f, None).
Lemma mode_ok_inv ch0 g : mode_ok ch0 g = true -> okchg ch0 g.
Proof.
  destruct g as [[p f] [a|]]; cbn [mode_ok]; intro H.
  - apply andb_true_iff in H as [_ H]. destruct (mem f [O_; H_; V_]) eqn:E.
    + destruct (mem3 _ _ _ _ E) as [E1|[E1|E1]]; subst f; constructor; exact H.
    + repeat (apply orb_true_iff in H as [H|H]);
        first [ discriminate
              | apply andb_true_iff in H as [H Hp]; apply N.eqb_eq in H; subst f p; apply ok_l
              | apply N.eqb_eq in H; subst f; first [apply ok_b | apply ok_k | apply ok_list; reflexivity] ].
  - apply orb_true_iff in H as [H|H].
    + apply ok_flag. exact H.
    + apply andb_true_iff in H as [H Hp]. apply N.eqb_eq in H. apply negb_true_iff in Hp. subst f p. apply ok_l0.
Qed.
Lemma okchg_shape ch0 g : okchg ch0 g -> chg_shape g = true.
Proof.
  intro H. destruct H; try (destruct p; reflexivity); try reflexivity;
    try (destruct (mem3 _ _ _ _ H) as [E|[E|E]]; subst f; destruct p; reflexivity).
  destruct (flag_facts f H) as [A [B [C _]]]. unfold chg_shape. rewrite A. destruct p; cbn [sign]; [rewrite B|rewrite C]; reflexivity.
Qed.

(* ---- one change, both sides ---- *)
Lemma member_upd_flags g a x ch : is_member x (upd_flags g a ch) = is_member x ch.
Proof. unfold is_member, upd_flags. cbn [sc_members set_members]. apply idict_has_upd. Qed.
Lemma mflag_upd_flags p g a x ch :
  mflag p x (upd_flags g a ch) = if feq x a then match idict_get x (sc_members ch) with Some fl => p (g fl) | None => false end
                                 else mflag p x ch.
Proof.
  unfold mflag, upd_flags. cbn [sc_members set_members]. rewrite idict_upd_get.
  destruct (feq x a); [|reflexivity]. destruct (idict_get x (sc_members ch)); reflexivity.
Qed.
Lemma member_apply_mode ch g x : is_member x (apply_mode ch g) = is_member x ch.
Proof.
  destruct g as [[p f] [a|]]; cbn [apply_mode]; [|reflexivity].
  destruct (N.eqb f O_); [apply member_upd_flags|]. destruct (N.eqb f H_); [apply member_upd_flags|].
  destruct (N.eqb f V_); [apply member_upd_flags|]. destruct (N.eqb f B_); [reflexivity|]. destruct (mem f LIST_MODES); reflexivity.
Qed.

Lemma cm1_other bc p f v : mem f gen.T10.SETMODES = false ->
  chan_mode1 bc (sign p, f, v) = set_modes bc (if p then cdict_set f v (c_modes bc) else cdict_del f (c_modes bc)).
Proof. intro H. unfold chan_mode1. rewrite H. destruct p; reflexivity. Qed.

Lemma cm1_o bc p v : chan_mode1 bc (sign p, O_, v)
  = set_ops bc (if p then iset_add (mval_str v) (c_ops bc) else iset_discard (mval_str v) (c_ops bc)).
Proof. destruct p; reflexivity. Qed.
Lemma cm1_h bc p v : chan_mode1 bc (sign p, H_, v)
  = set_halfops bc (if p then iset_add (mval_str v) (c_halfops bc) else iset_discard (mval_str v) (c_halfops bc)).
Proof. destruct p; reflexivity. Qed.
Lemma cm1_v bc p v : chan_mode1 bc (sign p, V_, v)
  = set_voices bc (if p then iset_add (mval_str v) (c_voices bc) else iset_discard (mval_str v) (c_voices bc)).
Proof. destruct p; reflexivity. Qed.
Lemma cm1_b bc p v : chan_mode1 bc (sign p, B_, v)
  = set_bans bc (if p then iset_add (mval_str v) (c_bans bc) else iset_discard (mval_str v) (c_bans bc)).
Proof. destruct p; reflexivity. Qed.
Lemma cm1_list bc p f v : mem f LIST_MODES = true -> chan_mode1 bc (sign p, f, v) = bc.
Proof. intro H. destruct (mem3 _ _ _ _ H) as [E|[E|E]]; subst f; destruct p; reflexivity. Qed.
Lemma rel_modes_letter ch bc (p : bool) f a :
  chan_rel ch bc ->
  chan_rel (set_modes_s ch (if p then assoc_set f a (sc_modes ch) else assoc_del f (sc_modes ch)))
           (set_modes bc (if p then cdict_set f (conv a) (c_modes bc) else cdict_del f (c_modes bc))).
Proof.
  intros [A B C D E F G H]. constructor; try assumption. intro f'. cbn [c_modes set_modes sc_modes set_modes_s].
  destruct p.
  - rewrite cdict_get_set, assoc_set_get, G. destruct (N.eqb f' f); reflexivity.
  - rewrite cdict_get_del, assoc_del_get, G. destruct (N.eqb f' f); reflexivity.
Qed.

Definition canon_chg (g : chg) : bool := match snd g with Some a => canonical_arg a | None => true end.

Lemma flagset_rel (pr : flags -> bool) (st : bool -> flags -> flags) ch S (p : bool) a :
  (forall b fl, pr (st b fl) = b) -> is_member a ch = true ->
  (forall x, iset_mem x S = mflag pr x ch) ->
  forall x, iset_mem x (if p then iset_add a S else iset_discard a S) = mflag pr x (upd_flags (st p) a ch).
Proof.
  intros Hst Hm HS x. rewrite mflag_upd_flags.
  assert (Hg : feq x a = true -> exists fl, idict_get x (sc_members ch) = Some fl).
  { intro E. unfold is_member, idict_has in Hm. rewrite (idict_get_feq x a _ E).
    destruct (idict_get a (sc_members ch)) as [fl|]; [eauto|discriminate]. }
  destruct p.
  - rewrite iset_mem_add, HS. destruct (feq x a) eqn:E; [|reflexivity].
    destruct (Hg eq_refl) as [fl Hfl]. rewrite Hfl, Hst. reflexivity.
  - rewrite iset_mem_discard, HS. destruct (feq x a) eqn:E; [|reflexivity].
    destruct (Hg eq_refl) as [fl Hfl]. rewrite Hfl, Hst. reflexivity.
Qed.
Lemma flagkeep_rel (pr : flags -> bool) (st : flags -> flags) ch S a :
  (forall fl, pr (st fl) = pr fl) -> (forall x, iset_mem x S = mflag pr x ch) ->
  forall x, iset_mem x S = mflag pr x (upd_flags st a ch).
Proof.
  intros Hst HS x. rewrite mflag_upd_flags, HS. destruct (feq x a); [|reflexivity].
  unfold mflag. destruct (idict_get x (sc_members ch)); [rewrite Hst|]; reflexivity.
Qed.

Lemma rel_mode1 ch0 ch bc g :
  chan_rel ch bc -> okchg ch0 g -> (forall x, is_member x ch = is_member x ch0) -> canon_chg g = true ->
  chan_rel (apply_mode ch g) (chan_mode1 bc (conv_chg g)).
Proof.
  intros R Hok Hmem Hcan. pose proof R as R0. destruct R as [A B C D E F G H].
  destruct Hok; cbn [conv_chg conv canon_chg snd] in *.
  - (* o *) rewrite <- Hmem in H0. change (apply_mode ch (p, O_, Some a)) with (upd_flags (set_o p) a ch).
    rewrite cm1_o, (canonical_coerce a Hcan).
    constructor; cbn [c_users c_ops c_halfops c_voices c_bans c_topic c_modes c_created set_ops]; try assumption.
    + intro x. rewrite member_upd_flags. apply A.
    + apply (flagset_rel f_o set_o); [reflexivity|exact H0|exact B].
    + apply (flagkeep_rel f_h); [reflexivity|exact C].
    + apply (flagkeep_rel f_v); [reflexivity|exact D].
  - (* h *) rewrite <- Hmem in H0. change (apply_mode ch (p, H_, Some a)) with (upd_flags (set_h p) a ch).
    rewrite cm1_h, (canonical_coerce a Hcan).
    constructor; cbn [c_users c_ops c_halfops c_voices c_bans c_topic c_modes c_created set_halfops]; try assumption.
    + intro x. rewrite member_upd_flags. apply A.
    + apply (flagkeep_rel f_o); [reflexivity|exact B].
    + apply (flagset_rel f_h set_h); [reflexivity|exact H0|exact C].
    + apply (flagkeep_rel f_v); [reflexivity|exact D].
  - (* v *) rewrite <- Hmem in H0. change (apply_mode ch (p, V_, Some a)) with (upd_flags (set_v p) a ch).
    rewrite cm1_v, (canonical_coerce a Hcan).
    constructor; cbn [c_users c_ops c_halfops c_voices c_bans c_topic c_modes c_created set_voices]; try assumption.
    + intro x. rewrite member_upd_flags. apply A.
    + apply (flagkeep_rel f_o); [reflexivity|exact B].
    + apply (flagkeep_rel f_h); [reflexivity|exact C].
    + apply (flagset_rel f_v set_v); [reflexivity|exact H0|exact D].
  - (* b *) change (apply_mode ch (p, B_, Some a)) with (set_bans_s ch (if p then iset_add a (sc_bans ch) else iset_discard a (sc_bans ch))).
    rewrite cm1_b, (canonical_coerce a Hcan).
    constructor; cbn [c_users c_ops c_halfops c_voices c_bans c_topic c_modes c_created set_bans sc_bans set_bans_s]; try assumption.
    intro x. destruct p; [rewrite !iset_mem_add, E|rewrite !iset_mem_discard, E]; reflexivity.
  - (* I / e / q: neither side records anything *)
    destruct (mem3 _ _ _ _ H0) as [E1|[E1|E1]]; subst f; destruct p; exact R0.
  - (* k *) change (apply_mode ch (p, K_, Some a)) with (set_modes_s ch (if p then assoc_set K_ (Some a) (sc_modes ch) else assoc_del K_ (sc_modes ch))).
    rewrite cm1_other by reflexivity. apply (rel_modes_letter ch bc p K_ (Some a) R0).
  - (* +l *) change (apply_mode ch (true, L_, Some a)) with (set_modes_s ch (assoc_set L_ (Some a) (sc_modes ch))).
    rewrite (cm1_other bc true) by reflexivity. apply (rel_modes_letter ch bc true L_ (Some a) R0).
  - (* -l *) change (apply_mode ch (false, L_, None)) with (set_modes_s ch (assoc_del L_ (sc_modes ch))).
    rewrite (cm1_other bc false) by reflexivity. apply (rel_modes_letter ch bc false L_ None R0).
  - (* flag *) destruct (flag_facts f H0) as [_ [_ [_ Hs]]].
    change (apply_mode ch (p, f, None)) with (set_modes_s ch (if p then assoc_set f None (sc_modes ch) else assoc_del f (sc_modes ch))).
    rewrite cm1_other by exact Hs. apply (rel_modes_letter ch bc p f None R0).
Qed.

Definition modes_wf (ch : schan) : Prop := forall f v, assoc f (sc_modes ch) = Some v -> letter_ok f v = true.
Lemma letter_ok_k a : canonical_arg a = true -> letter_ok K_ (Some a) = true.
Proof. intro H. unfold letter_ok. rewrite H. reflexivity. Qed.
Lemma letter_ok_l a : canonical_arg a = true -> letter_ok L_ (Some a) = true.
Proof. intro H. unfold letter_ok. rewrite H. reflexivity. Qed.
Lemma letter_ok_flag f : mem f FLAGS = true -> letter_ok f None = true.
Proof. intro H. destruct (flag_facts f H) as [A [B [_ D]]]. unfold letter_ok. rewrite A, B, D. reflexivity. Qed.
Lemma modes_wf_set ch f v : modes_wf ch -> letter_ok f v = true -> modes_wf (set_modes_s ch (assoc_set f v (sc_modes ch))).
Proof.
  intros W H f' v' Hf. cbn [sc_modes set_modes_s] in Hf. rewrite assoc_set_get in Hf.
  destruct (N.eqb f' f) eqn:E; [apply N.eqb_eq in E; inversion Hf; subst; exact H|apply (W f' v' Hf)].
Qed.
Lemma modes_wf_del ch f : modes_wf ch -> modes_wf (set_modes_s ch (assoc_del f (sc_modes ch))).
Proof.
  intros W f' v' Hf. cbn [sc_modes set_modes_s] in Hf. rewrite assoc_del_get in Hf.
  destruct (N.eqb f' f); [discriminate|apply (W f' v' Hf)].
Qed.
Lemma modes_wf_apply ch0 ch g : modes_wf ch -> okchg ch0 g -> canon_chg g = true -> modes_wf (apply_mode ch g).
Proof.
  intros W Hok Hcan. destruct Hok; cbn [canon_chg snd] in Hcan; try exact W;
    try (destruct (mem3 _ _ _ _ H) as [E|[E|E]]; subst f; exact W).
  - change (apply_mode ch (p, K_, Some a)) with (set_modes_s ch (if p then assoc_set K_ (Some a) (sc_modes ch) else assoc_del K_ (sc_modes ch))).
    destruct p; [apply modes_wf_set; [exact W|apply letter_ok_k; exact Hcan]|apply modes_wf_del; exact W].
  - change (apply_mode ch (true, L_, Some a)) with (set_modes_s ch (assoc_set L_ (Some a) (sc_modes ch))).
    apply modes_wf_set; [exact W|apply letter_ok_l; exact Hcan].
  - change (apply_mode ch (false, L_, None)) with (set_modes_s ch (assoc_del L_ (sc_modes ch))). apply modes_wf_del; exact W.
  - change (apply_mode ch (p, f, None)) with (set_modes_s ch (if p then assoc_set f None (sc_modes ch) else assoc_del f (sc_modes ch))).
    destruct p; [apply modes_wf_set; [exact W|apply letter_ok_flag; exact H]|apply modes_wf_del; exact W].
Qed.

Lemma rel_apply_modes ch0 : forall chgs ch bc,
  chan_rel ch bc -> Forall (okchg ch0) chgs -> forallb canon_chg chgs = true ->
  (forall x, is_member x ch = is_member x ch0) -> modes_wf ch ->
  chan_rel (fold_left apply_mode chgs ch) (fold_left chan_mode1 (map conv_chg chgs) bc)
  /\ (forall x, is_member x (fold_left apply_mode chgs ch) = is_member x ch0)
  /\ modes_wf (fold_left apply_mode chgs ch).
Proof.
  induction chgs as [|g r IH]; intros ch bc R Hok Hcan Hmem W; [auto|].
  inversion Hok as [|? ? Hg Hr]; subst. cbn [forallb] in Hcan. apply andb_true_iff in Hcan as [Hc Hcr].
  cbn [fold_left map]. apply IH; try assumption.
  - apply (rel_mode1 ch0); assumption.
  - intro x. rewrite member_apply_mode. apply Hmem.
  - apply (modes_wf_apply ch0); assumption.
Qed.

Lemma srv_apply_modes ch0 : forall chgs ch,
  Forall (okchg ch0) chgs -> forallb canon_chg chgs = true ->
  (forall x, is_member x ch = is_member x ch0) -> modes_wf ch ->
  (forall x, is_member x (fold_left apply_mode chgs ch) = is_member x ch0) /\ modes_wf (fold_left apply_mode chgs ch).
Proof.
  induction chgs as [|g r IH]; intros ch Hok Hcan Hmem W; [auto|].
  inversion Hok as [|? ? Hg Hr]; subst. cbn [forallb] in Hcan. apply andb_true_iff in Hcan as [Hc Hcr].
  cbn [fold_left]. apply IH; try assumption.
  - intro x. rewrite member_apply_mode. apply Hmem.
  - apply (modes_wf_apply ch0); assumption.
Qed.

Section StepsMode.
Variables (nick0 prefix0 : str) (uh : bool).
Notation fa := (feed_all nick0 prefix0).

Lemma step_mode s b k c chgs : Inv s b -> forallb canon_chg chgs = true ->
  let '(s', ms) := step nick0 true uh s (AMode k c chgs) in Inv s' (fa b ms).
Proof.
  intros I Hcan. cbn [step]. destruct (idict_get k (s_users s)) as [u|] eqn:Ek; [|exact I].
  destruct (idict_get c (s_chans s)) as [ch|] eqn:Ec; [|exact I].
  destruct (C03.Model.isChannel c && is_member k ch && nonempty (mode_string chgs None) && forallb (mode_ok ch) chgs) eqn:Eok; [|exact I].
  apply andb_true_iff in Eok as [Eok Hmo]. apply andb_true_iff in Eok as [Eok Hne]. apply andb_true_iff in Eok as [Hic Emk].
  pose proof (inv_wf s b I) as W. destruct (wf_users s W k u Ek) as [Hk Hgu].
  assert (Hoks : Forall (okchg ch) chgs).
  { apply Forall_forall. intros g Hg. apply mode_ok_inv. rewrite forallb_forall in Hmo. apply Hmo. exact Hg. }
  assert (Hshape : forallb chg_shape chgs = true).
  { apply forallb_forall. intros g Hg. apply (okchg_shape ch). rewrite Forall_forall in Hoks. apply Hoks. exact Hg. }
  assert (W0 : modes_wf ch) by (intros f v Hf; apply (wf_modes s W c ch f v Ec Hf)).
  destruct (srv_apply_modes ch chgs ch Hoks Hcan (fun x => eq_refl) W0) as [HmemF WF].
  destruct (is_member (s_me s) ch) eqn:Eme.
  - rewrite (fa_one nick0 prefix0) by reflexivity.
    apply (cmd_visible s b k u c ch (fun ch0 => fold_left apply_mode chgs ch0)
             (fun bc => fold_left chan_mode1 (map conv_chg chgs) bc) str_MODE
             (c :: mode_string chgs None :: mode_params chgs) st_doMode); try assumption; try reflexivity.
    + intros; discriminate.
    + exact addMsg_MODE.
    + intros b1 Hb1 Hn1. unfold st_doMode. cbn [m_args]. rewrite Hic.
      assert (Hh : idict_has c (b_chans b1) = true) by (rewrite Hb1, (inv_chans s b I); unfold mych; rewrite Ec; exact Eme).
      rewrite chan_upd_or_new_has by exact Hh. unfold chan_doMode, separateModes.
      rewrite (sepmodes_mode_string chgs None PLUS Hshape Logic.I). reflexivity.
    + rewrite HmemF. exact Eme.
    + intros x Hx. left. rewrite HmemF in Hx. exact Hx.
    + intros bc R. apply (rel_apply_modes ch chgs ch bc R Hoks Hcan (fun x => eq_refl) W0).
  - rewrite (fa_nil nick0 prefix0).
    apply (upd_invisible s c ch (fun ch0 => fold_left apply_mode chgs ch0) Ec b I Eme).
    + rewrite HmemF. exact Eme.
    + intros x Hx. rewrite HmemF in Hx. apply (wf_members s W c ch x Ec Hx).
    + exact WF.
Qed.
End StepsMode.
