(* C10/Step5.v — multi-target PART lists: channel by channel on both sides. *)
From Coq Require Import List NArith ZArith Bool Lia.
Import ListNotations.
Require Import Base.Wire Base.PyStr C10.Model C10.Lemmas C10.Handlers C10.SrvLemmas C10.Feed C10.Inv C10.Frame C10.Sim C10.Step C10.Step2 C10.Step3.
Open Scope N_scope.

Section Shrink.
Variables (s : srv) (c : str) (ch : schan) (F : schan -> schan).
Hypothesis Hc : idict_get c (s_chans s) = Some ch.
(* one channel updated on both sides, no new member: no hostmask needs to be learnt *)
Lemma upd_visible_shrink b G :
  Inv s b -> is_member (s_me s) ch = true -> is_member (s_me s) (F ch) = true ->
  (forall x, is_member x (F ch) = true -> is_member x ch = true) ->
  (forall f v, assoc f (sc_modes (F ch)) = Some v -> letter_ok f v = true) ->
  (forall bc, chan_rel ch bc -> chan_rel (F ch) (G bc)) ->
  Inv (set_chans_s s (idict_upd c F (s_chans s))) (chan_upd c G b).
Proof.
  intros I Hme HmeF Hsub Hmodes Hrel. destruct I as [W N C R H].
  constructor.
  - apply (wf_upd s c ch F Hc W); [|exact Hmodes]. intros x Hx. apply (wf_members s W c ch x Hc). apply Hsub. exact Hx.
  - exact N.
  - intro c'. cbn [chan_upd set_chans b_chans]. rewrite chans_update_has, C. symmetry. apply (mych_upd s c ch F Hc).
    rewrite HmeF, Hme. reflexivity.
  - intros c' ch' bc' Hg Hb. cbn [set_chans_s s_chans chan_upd set_chans b_chans] in *.
    rewrite idict_upd_get in Hg. rewrite chans_update_get in Hb.
    destruct (feq c' c) eqn:E.
    + rewrite (idict_get_feq c' c _ E), Hc in Hg. cbn in Hg. inversion Hg; subst ch'.
      destruct (idict_get c' (b_chans b)) as [bc|] eqn:Eb; [|discriminate]. cbn in Hb. inversion Hb; subst bc'.
      apply Hrel. apply (R c' ch bc); [rewrite (idict_get_feq c' c _ E); exact Hc|exact Eb].
    + apply (R c' ch' bc' Hg Hb).
  - intros n u c' Hn Hv. cbn [chan_upd set_chans b_n2h].
    unfold vis_in in Hv. cbn [set_chans_s s_chans s_me s_users] in *. rewrite idict_upd_get in Hv.
    destruct (feq c' c) eqn:E.
    + rewrite (idict_get_feq c' c _ E), Hc in Hv. cbn [option_map] in Hv.
      apply andb_true_iff in Hv as [_ Hx]. apply (H n u c Hn). unfold vis_in. rewrite Hc, Hme, (Hsub n Hx). reflexivity.
    + apply (H n u c' Hn). unfold vis_in. exact Hv.
Qed.
End Shrink.

Lemma removeUser_feq_fun a b' c (b : bot) : feq a b' = true -> chan_upd c (removeUser a) b = chan_upd c (removeUser b') b.
Proof. intro H. unfold chan_upd. f_equal. apply chans_update_ext. intro bc. apply removeUser_feq. exact H. Qed.

Section Steps5.
Variables (nick0 prefix0 : str) (uh : bool).
Notation fa := (feed_all nick0 prefix0).

Lemma part_step_n2h nick b c : b_n2h (part_step nick b c) = b_n2h b.
Proof. unfold part_step. destruct (idict_has c (b_chans b)); [|reflexivity]. destruct (feq nick (b_nick b)); reflexivity. Qed.

(* one channel of a PART list *)
Lemma part_one s b n u c : Inv s b -> idict_get n (s_users s) = Some u ->
  let '(s1, j) := part_chan n c s in
  Inv s1 (if j && mych s c then part_step (su_nick u) b c else b)
  /\ s_users s1 = s_users s /\ (j && mych s c = true -> mem COMMA c = false).
Proof.
  intros I En. unfold part_chan.
  destruct (mem COMMA c) eqn:Hcm; [split; [exact I|split; [reflexivity|intro Hx; discriminate Hx]]|].
  destruct (idict_get c (s_chans s)) as [ch|] eqn:Ec; [|split; [exact I|split; [reflexivity|intro Hx; discriminate Hx]]].
  destruct (is_member n ch) eqn:Emn; [|split; [exact I|split; [reflexivity|intro Hx; discriminate Hx]]]. cbn [andb].
  split; [|split; [reflexivity|intros _; reflexivity]].
  pose proof (inv_wf s b I) as W. destruct (wf_users s W n u En) as [Hk Hgu].
  assert (Hsub : forall x, is_member x (del_member n ch) = true -> is_member x ch = true).
  { intros x Hx. rewrite member_del in Hx. apply andb_true_iff in Hx. apply Hx. }
  assert (Hmodes : forall f v, assoc f (sc_modes (del_member n ch)) = Some v -> letter_ok f v = true).
  { intros f v Hf. apply (wf_modes s W c ch f v Ec Hf). }
  unfold mych. rewrite Ec. destruct (is_member (s_me s) ch) eqn:Eme.
  - unfold part_step.
    assert (Hh : idict_has c (b_chans b) = true) by (rewrite (inv_chans s b I); unfold mych; rewrite Ec; exact Eme).
    rewrite Hh, (inv_nick s b I), <- (feq_trans_l n (su_nick u) (s_me s) Hk).
    destruct (feq n (s_me s)) eqn:Enm.
    + apply (leave_self s c ch (del_member n) Ec b); try assumption; try reflexivity.
      * rewrite member_del, (feq_sym (s_me s) n), Enm. reflexivity.
      * intro c'. cbn [set_chans b_chans]. apply idict_get_del.
    + rewrite (removeUser_feq_fun (su_nick u) n c b) by (rewrite feq_sym; exact Hk).
      apply (upd_visible_shrink s c ch (del_member n) Ec b (removeUser n) I Eme); try assumption.
      * rewrite member_del, (feq_sym (s_me s) n), Enm. exact Eme.
      * intros bc. apply rel_del.
  - apply (upd_invisible s c ch (del_member n) Ec b I Eme).
    + rewrite member_del, Eme. apply andb_false_r.
    + intros x Hx. apply (wf_members s W c ch x Ec). apply Hsub. exact Hx.
    + exact Hmodes.
Qed.
Lemma part_loop n u : forall chans s b vis0, Inv s b -> idict_get n (s_users s) = Some u ->
  let '(s', vis) := fold_left (part_any n) chans (s, vis0) in
  exists vn, vis = vis0 ++ vn /\ Forall (fun p => mem COMMA p = false) vn
             /\ Inv s' (fold_left (part_step (su_nick u)) vn b).
Proof.
  induction chans as [|c chans IH]; intros s b vis0 I En.
  - cbn [fold_left]. exists []. rewrite app_nil_r. split; [reflexivity|split; [apply Forall_nil|exact I]].
  - cbn [fold_left]. unfold part_any at 2.
    pose proof (part_one s b n u c I En) as P. destruct (part_chan n c s) as [s1 j].
    destruct P as [I1 [Hus Hcm]].
    assert (En1 : idict_get n (s_users s1) = Some u) by (rewrite Hus; exact En).
    destruct (j && mych s c) eqn:E.
    + specialize (IH s1 (part_step (su_nick u) b c) (vis0 ++ [c]) I1 En1).
      destruct (fold_left (part_any n) chans (s1, vis0 ++ [c])) as [s' vis].
      destruct IH as [vn [Hv [Hf Hi]]]. exists (c :: vn). split; [|split].
      * rewrite Hv, <- app_assoc. reflexivity.
      * constructor; [apply Hcm; reflexivity|exact Hf].
      * exact Hi.
    + specialize (IH s1 b vis0 I1 En1).
      destruct (fold_left (part_any n) chans (s1, vis0)) as [s' vis]. exact IH.
Qed.

Lemma step_part_multi s b n chans : Inv s b ->
  let '(s', ms) := step nick0 true uh s (APart n chans) in Inv s' (fa b ms).
Proof.
  intro I. cbn [step]. destruct (idict_get n (s_users s)) as [u|] eqn:En; [|exact I].
  pose proof (inv_wf s b I) as W. destruct (wf_users s W n u En) as [Hk Hgu].
  destruct (fold_left (part_any n) chans (s, [])) as [s' vis] eqn:Ef.
  destruct vis as [|v0 vr].
  - rewrite (fa_nil nick0 prefix0). pose proof (part_loop n u chans s b [] I En) as P. rewrite Ef in P.
    destruct P as [vn [Hv [_ Hi]]]. cbn [app] in Hv. subst vn. exact Hi.
  - rewrite (fa_one nick0 prefix0) by reflexivity.
    destruct (feed_user u str_PART [join [COMMA] (v0 :: vr)] b st_doPart Hgu (Inv_valid_nick s b I)) as [b' [Hcore Hfeed]];
      try reflexivity; try (intros; discriminate); try exact addMsg_PART.
    rewrite Hfeed. destruct (Inv_actor s b' n u (Inv_core s b b' Hcore I) En) as [I1 _].
    set (b1 := n2h_set (su_nick u) (hostmask u) b') in *.
    pose proof (part_loop n u chans s b1 [] I1 En) as P. rewrite Ef in P.
    destruct P as [vn [Hv [Hf Hi]]]. cbn [app] in Hv. subst vn.
    unfold st_doPart. cbn [m_args]. rewrite (split_char_join COMMA (v0 :: vr)); [|discriminate|exact Hf].
    rewrite (msg_nick_user u _ _ Hgu). exact Hi.
Qed.
End Steps5.
