(* C10/Frame.v — general preservation lemmas of the simulation relation: one channel updated on both sides,
   a channel the bot is not on updated/created on the server, the actor's hostmask recorded. *)
From Coq Require Import List NArith ZArith Bool Lia.
Import ListNotations.
Require Import Base.Wire Base.PyStr C10.Bot C10.Spec C10.Lemmas C10.Handlers C10.SrvLemmas C10.Feed C10.Inv.
Open Scope N_scope.

Lemma get_upd_same {A} c c' (F : A -> A) d v : feq c' c = true -> idict_get c d = Some v ->
  idict_get c' (idict_upd c F d) = Some (F v).
Proof. intros Hf Hg. rewrite idict_upd_get, Hf, (idict_get_feq c' c d Hf), Hg. reflexivity. Qed.
Lemma get_upd_other {A} c c' (F : A -> A) d : feq c' c = false -> idict_get c' (idict_upd c F d) = idict_get c' d.
Proof. intro Hf. rewrite idict_upd_get, Hf. reflexivity. Qed.

(* the actor's prefix is recorded: always the truth *)
Lemma Inv_actor s b a ua : Inv s b -> idict_get a (s_users s) = Some ua ->
  Inv s (n2h_set (su_nick ua) (hostmask ua) b)
  /\ idict_get a (b_n2h (n2h_set (su_nick ua) (hostmask ua) b)) = Some (hostmask ua).
Proof.
  intros I Ha. destruct (wf_users s (inv_wf s b I) a ua Ha) as [Hk _].
  split.
  - destruct I as [W N C R H]. constructor; try assumption.
    intros n u c Hn Hv. cbn [n2h_set set_n2h b_n2h]. rewrite idict_get_set.
    destruct (feq n (su_nick ua)) eqn:E; [|apply (H n u c Hn Hv)].
    assert (Hna : feq n a = true) by (rewrite (feq_trans_r a (su_nick ua) n Hk); exact E).
    rewrite (idict_get_feq n a _ Hna) in Hn. congruence.
  - cbn [n2h_set set_n2h b_n2h]. rewrite idict_get_set, Hk. reflexivity.
Qed.

Section OneChannel.
Variables (s : srv) (c : str) (ch : schan) (F : schan -> schan).
Hypothesis Hc : idict_get c (s_chans s) = Some ch.
Let s' := set_chans_s s (idict_upd c F (s_chans s)).

Lemma wf_upd :
  wf s ->
  (forall x, is_member x (F ch) = true -> idict_has x (s_users s) = true) ->
  (forall f v, assoc f (sc_modes (F ch)) = Some v -> letter_ok f v = true) ->
  wf s'.
Proof.
  intros W Hm Ho. destruct W as [W1 W2 W3 W4 W5]. constructor; try assumption.
  - intros c' ch' x Hg Hx. cbn [s' set_chans_s s_chans s_users] in *. rewrite idict_upd_get in Hg.
    destruct (feq c' c) eqn:E.
    + rewrite (idict_get_feq c' c _ E), Hc in Hg. cbn in Hg. inversion Hg; subst. apply Hm. exact Hx.
    + apply (W4 c' ch' x Hg Hx).
  - intros c' ch' f v Hg Hf. cbn [s' set_chans_s s_chans] in *. rewrite idict_upd_get in Hg.
    destruct (feq c' c) eqn:E.
    + rewrite (idict_get_feq c' c _ E), Hc in Hg. cbn in Hg. inversion Hg; subst. apply Ho. exact Hf.
    + apply (W5 c' ch' f v Hg Hf).
Qed.

Lemma mych_upd c' : is_member (s_me s) (F ch) = is_member (s_me s) ch -> mych s' c' = mych s c'.
Proof.
  intro Hme. unfold mych. cbn [s' set_chans_s s_chans s_me]. rewrite idict_upd_get.
  destruct (feq c' c) eqn:E; [|reflexivity]. rewrite (idict_get_feq c' c _ E), Hc. cbn. exact Hme.
Qed.

(* the bot is on the channel and applies G to its record of it *)
Lemma upd_visible b G a ua :
  Inv s b -> is_member (s_me s) ch = true ->
  idict_get a (s_users s) = Some ua -> idict_get a (b_n2h b) = Some (hostmask ua) ->
  is_member (s_me s) (F ch) = true ->
  (forall x, is_member x (F ch) = true -> is_member x ch = true \/ feq x a = true) ->
  (forall f v, assoc f (sc_modes (F ch)) = Some v -> letter_ok f v = true) ->
  (forall bc, chan_rel ch bc -> chan_rel (F ch) (G bc)) ->
  Inv s' (chan_upd c G b).
Proof.
  intros I Hme Ha Hn2h HmeF Hnew Hmodes Hrel. destruct I as [W N C R H].
  assert (Hhas_a : idict_has a (s_users s) = true) by (unfold idict_has; rewrite Ha; reflexivity).
  constructor.
  - apply wf_upd; [exact W| |exact Hmodes].
    intros x Hx. destruct (Hnew x Hx) as [Hold|Hfa].
    + apply (wf_members s W c ch x Hc Hold).
    + rewrite (idict_has_feq x a _ Hfa). exact Hhas_a.
  - exact N.
  - intro c'. cbn [chan_upd set_chans b_chans]. rewrite chans_update_has, C. symmetry. apply mych_upd.
    rewrite HmeF, Hme. reflexivity.
  - intros c' ch' bc' Hg Hb. cbn [s' set_chans_s s_chans chan_upd set_chans b_chans] in *.
    rewrite idict_upd_get in Hg. rewrite chans_update_get in Hb.
    destruct (feq c' c) eqn:E.
    + rewrite (idict_get_feq c' c _ E), Hc in Hg. cbn in Hg. inversion Hg; subst ch'.
      destruct (idict_get c' (b_chans b)) as [bc|] eqn:Eb; [|discriminate]. cbn in Hb. inversion Hb; subst bc'.
      apply Hrel. apply (R c' ch bc); [rewrite (idict_get_feq c' c _ E); exact Hc|exact Eb].
    + apply (R c' ch' bc' Hg Hb).
  - intros n u c' Hn Hv. cbn [chan_upd set_chans b_n2h].
    unfold vis_in in Hv. cbn [s' set_chans_s s_chans s_me s_users] in *. rewrite idict_upd_get in Hv.
    destruct (feq c' c) eqn:E.
    + rewrite (idict_get_feq c' c _ E), Hc in Hv. cbn [option_map] in Hv.
      apply andb_true_iff in Hv as [_ Hx]. destruct (Hnew n Hx) as [Hold|Hfa].
      * apply (H n u c Hn). unfold vis_in. rewrite Hc, Hme, Hold. reflexivity.
      * rewrite (idict_get_feq n a _ Hfa) in Hn. rewrite (idict_get_feq n a _ Hfa). congruence.
    + apply (H n u c' Hn). unfold vis_in. exact Hv.
Qed.

(* the bot is not on the channel: nothing to do on its side *)
Lemma upd_invisible b :
  Inv s b -> is_member (s_me s) ch = false -> is_member (s_me s) (F ch) = false ->
  (forall x, is_member x (F ch) = true -> idict_has x (s_users s) = true) ->
  (forall f v, assoc f (sc_modes (F ch)) = Some v -> letter_ok f v = true) ->
  Inv s' b.
Proof.
  intros I Hme HmeF Hm Hmodes. destruct I as [W N C R H].
  constructor.
  - apply wf_upd; assumption.
  - exact N.
  - intro c'. rewrite C. symmetry. apply mych_upd. rewrite HmeF, Hme. reflexivity.
  - intros c' ch' bc' Hg Hb. cbn [s' set_chans_s s_chans] in Hg. rewrite idict_upd_get in Hg.
    destruct (feq c' c) eqn:E.
    + exfalso. pose proof (C c') as Hc'. unfold idict_has in Hc'. rewrite Hb in Hc'.
      unfold mych in Hc'. rewrite (idict_get_feq c' c _ E), Hc, Hme in Hc'. discriminate.
    + apply (R c' ch' bc' Hg Hb).
  - intros n u c' Hn Hv. unfold vis_in in Hv. cbn [s' set_chans_s s_chans s_me s_users] in *. rewrite idict_upd_get in Hv.
    destruct (feq c' c) eqn:E.
    + rewrite (idict_get_feq c' c _ E), Hc in Hv. cbn [option_map] in Hv. rewrite HmeF in Hv. discriminate.
    + apply (H n u c' Hn). unfold vis_in. exact Hv.
Qed.
End OneChannel.

(* a channel (re)created by somebody else *)
Lemma set_invisible s b c n :
  Inv s b -> mych s c = false -> feq (s_me s) n = false -> idict_has n (s_users s) = true ->
  Inv (set_chans_s s (idict_set c (fresh_chan n) (s_chans s))) b.
Proof.
  intros I Hmy Hne Hn. destruct I as [W N C R H].
  assert (Hmem : forall x, is_member x (fresh_chan n) = feq x n).
  { intro x. unfold is_member, idict_has, fresh_chan. cbn. destruct (feq x n); reflexivity. }
  constructor.
  - destruct W as [W1 W2 W3 W4 W5]. constructor; try assumption.
    + intros c' ch' x Hg Hx. cbn [set_chans_s s_chans s_users] in *. rewrite idict_get_set in Hg.
      destruct (feq c' c) eqn:E; [|apply (W4 c' ch' x Hg Hx)].
      inversion Hg; subst ch'. rewrite Hmem in Hx. rewrite (idict_has_feq x n _ Hx). exact Hn.
    + intros c' ch' f v Hg Hf. cbn [set_chans_s s_chans] in *. rewrite idict_get_set in Hg.
      destruct (feq c' c) eqn:E; [|apply (W5 c' ch' f v Hg Hf)].
      inversion Hg; subst ch'. discriminate.
  - exact N.
  - intro c'. rewrite C. unfold mych. cbn [set_chans_s s_chans s_me]. rewrite idict_get_set.
    destruct (feq c' c) eqn:E; [|reflexivity].
    rewrite Hmem, Hne. unfold mych in Hmy. rewrite (idict_get_feq c' c _ E). exact Hmy.
  - intros c' ch' bc' Hg Hb. cbn [set_chans_s s_chans] in Hg. rewrite idict_get_set in Hg.
    destruct (feq c' c) eqn:E; [|apply (R c' ch' bc' Hg Hb)].
    exfalso. pose proof (C c') as Hc'. unfold idict_has in Hc'. rewrite Hb in Hc'.
    unfold mych in Hc', Hmy. rewrite (idict_get_feq c' c _ E) in Hc'. congruence.
  - intros x u c' Hx Hv. unfold vis_in in Hv. cbn [set_chans_s s_chans s_me s_users] in *. rewrite idict_get_set in Hv.
    destruct (feq c' c) eqn:E; [|apply (H x u c' Hx); unfold vis_in; exact Hv].
    rewrite Hmem, Hne in Hv. discriminate.
Qed.
