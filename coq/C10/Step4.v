(* C10/Step4.v — step cases reconnect, NAMES refresh, WHO refresh. *)
From Coq Require Import List NArith ZArith Bool Lia.
Import ListNotations.
Require Import Base.Wire Base.PyStr C10.Model C10.Lemmas C10.Handlers C10.SrvLemmas C10.Feed C10.Inv C10.Frame C10.Sim C10.Step C10.Step2 C10.Step3.
Open Scope N_scope.

Section Steps4.
Variables (nick0 prefix0 : str) (uh : bool).
Hypothesis Hnick0 : valid_nick nick0 = true.
Notation fa := (feed_all nick0 prefix0).

(* ---- the bot's connection drops and it reconnects: every channel disappears from its view ---- *)
Lemma step_reset s b : Inv s b ->
  let '(s', ms) := step nick0 true uh s AReset in Inv s' (fa b ms).
Proof.
  intro I. cbn [step].
  destruct (match idict_get nick0 (s_users s) with Some _ => feq nick0 (s_me s) | None => true end) eqn:Efree; [|exact I].
  change (fa b [Msg [] RESET []]) with (reset nick0 prefix0).
  destruct I as [W N C R H]. destruct W as [W1 W2 W3 W4 W5]. destruct W2 as [u0 [H0 E0]].
  destruct (W3 _ u0 H0) as [_ [_ [Gu Gh]]].
  assert (Hus : forall x, idict_get x (rename_user (s_me s) nick0 (s_users s)) =
                 if feq x nick0 then Some (SUser nick0 (su_user u0) (su_host u0)) else if feq x (s_me s) then None else idict_get x (s_users s)).
  { intro x. unfold rename_user. rewrite H0, idict_get_set, idict_get_del. reflexivity. }
  assert (Hnot : forall c ch, idict_get c (s_chans s) = Some ch -> is_member nick0 (del_member (s_me s) ch) = false).
  { intros c ch Ec. rewrite member_del. destruct (feq nick0 (s_me s)) eqn:E; [reflexivity|]. cbn.
    destruct (is_member nick0 ch) eqn:Em; [|reflexivity]. pose proof (W4 c ch nick0 Ec Em) as Hh. unfold idict_has in Hh.
    destruct (idict_get nick0 (s_users s)); [congruence|discriminate]. }
  constructor.
  - constructor; cbn [s_me s_users s_chans].
    + exact Hnick0.
    + exists (SUser nick0 (su_user u0) (su_host u0)). rewrite Hus, feq_refl. split; reflexivity.
    + intros x ux Hx. rewrite Hus in Hx. destruct (feq x nick0) eqn:E.
      * inversion Hx; subst ux. cbn. split; [exact E|]. repeat split; assumption.
      * destruct (feq x (s_me s)); [discriminate|]. apply (W3 x ux Hx).
    + intros c ch' x Hg Hx. rewrite vmap_get in Hg. destruct (idict_get c (s_chans s)) as [ch|] eqn:Ec; [|discriminate].
      cbn in Hg. inversion Hg; subst ch'. rewrite member_del in Hx. apply andb_true_iff in Hx as [Hx1 Hx2].
      apply negb_true_iff in Hx1. unfold idict_has. rewrite Hus, Hx1. destruct (feq x nick0); [reflexivity|].
      pose proof (W4 c ch x Ec Hx2) as Hh. exact Hh.
    + intros c ch' f v Hg Hf. rewrite vmap_get in Hg. destruct (idict_get c (s_chans s)) as [ch|] eqn:Ec; [|discriminate].
      cbn in Hg. inversion Hg; subst ch'. apply (W5 c ch f v Ec Hf).
  - reflexivity.
  - intro c. unfold mych. cbn [s_chans s_me reset b_chans idict_has idict_get]. rewrite vmap_get.
    destruct (idict_get c (s_chans s)) as [ch|] eqn:Ec; [|reflexivity]. cbn. symmetry. apply (Hnot c ch Ec).
  - intros c ch bc Hg Hb. discriminate.
  - intros x ux c Hx Hv. exfalso. unfold vis_in in Hv. cbn [s_chans s_me] in Hv. rewrite vmap_get in Hv.
    destruct (idict_get c (s_chans s)) as [ch|] eqn:Ec; [|discriminate]. cbn in Hv. rewrite (Hnot c ch Ec) in Hv. discriminate.
Qed.
(* ---- WHO refresh: every reply records the truth ---- *)
Lemma fa_cons b m r : seq_eqb (m_command m) RESET = false -> fa b (m :: r) = fa (feed b m) r.
Proof. intro H. unfold feed_all. cbn [fold_left]. rewrite (for_cmd nick0 prefix0 b m H). reflexivity. Qed.

Lemma who_loop s c : forall keys b, Inv s b ->
  Inv s (fa b (flat_map (fun x => match idict_get x (s_users s) with
                                  | Some u => [Msg SERVER str_352 [s_me s; c; su_user u; su_host u; SERVER; su_nick u; [72]; [48; 32; 114]]]
                                  | None => [] end) keys)).
Proof.
  induction keys as [|x keys IH]; intros b I; [exact I|]. cbn [flat_map].
  destruct (idict_get x (s_users s)) as [u|] eqn:Ex; [|apply IH; exact I].
  cbn [app]. rewrite fa_cons by reflexivity. apply IH.
  rewrite (feed_numeric str_352 _ b st_do352 (Inv_valid_nick s b I)); try reflexivity; try exact addMsg_352; [|intros; discriminate].
  unfold st_do352. cbn [m_args nth_s nth_error].
  apply (Inv_actor s b x u I Ex).
Qed.
Lemma step_who s b c : Inv s b ->
  let '(s', ms) := step nick0 true uh s (AWho c) in Inv s' (fa b ms).
Proof.
  intro I. cbn [step]. destruct (idict_get c (s_chans s)) as [ch|]; [|exact I].
  destruct (is_member (s_me s) ch); [|exact I]. unfold msgs_who. apply who_loop. exact I.
Qed.
(* ---- ISUPPORT (005): nothing the relation sees changes ---- *)
Lemma step_isupport s b n : Inv s b ->
  let '(s', ms) := step nick0 true uh s (AIsupport n) in Inv s' (fa b ms).
Proof.
  intro I. cbn [step]. rewrite (fa_one nick0 prefix0) by reflexivity.
  rewrite (feed_numeric str_005 _ b (fun m b => b) (Inv_valid_nick s b I)); try reflexivity; try exact addMsg_005;
    [exact I|intros _; eexists; rewrite (inv_nick s b I); reflexivity].
Qed.
End Steps4.
