(* Generic driver: `modelrun Cnn` reads one s-expression per line on stdin,
   applies the extracted `run_Cnn : value -> value`, prints one s-expression per
   line.  Trusted glue: int <-> Z conversion and the s-expression codec. *)
open Modelrun_gen

let rec pos_of_int n =
  if n = 1 then XH
  else if n land 1 = 0 then XO (pos_of_int (n lsr 1))
  else XI (pos_of_int (n lsr 1))
let z_of_int n =
  if n = 0 then Z0 else if n > 0 then Zpos (pos_of_int n) else Zneg (pos_of_int (-n))
let rec int_of_pos = function
  | XH -> 1 | XO p -> 2 * int_of_pos p | XI p -> 2 * int_of_pos p + 1
let int_of_z = function Z0 -> 0 | Zpos p -> int_of_pos p | Zneg p -> - (int_of_pos p)

let parse (s : string) : value =
  let n = String.length s in
  let pos = ref 0 in
  let rec skip () = if !pos < n && (s.[!pos] = ' ' || s.[!pos] = '\r' || s.[!pos] = '\n') then (incr pos; skip ()) in
  let rec value () =
    skip ();
    if !pos >= n then failwith "eof"
    else if s.[!pos] = '(' then begin
      incr pos;
      let items = ref [] in
      let rec loop () =
        skip ();
        if !pos >= n then failwith "unclosed"
        else if s.[!pos] = ')' then incr pos
        else (items := value () :: !items; loop ()) in
      loop ();
      L (List.rev !items)
    end else begin
      let start = !pos in
      if s.[!pos] = '-' then incr pos;
      while !pos < n && s.[!pos] >= '0' && s.[!pos] <= '9' do incr pos done;
      if !pos = start then failwith ("bad char at " ^ string_of_int start);
      I (z_of_int (int_of_string (String.sub s start (!pos - start))))
    end in
  value ()

let rec print buf (v : value) =
  match v with
  | I z -> Buffer.add_string buf (string_of_int (int_of_z z))
  | L l ->
      Buffer.add_char buf '(';
      List.iteri (fun i x -> if i > 0 then Buffer.add_char buf ' '; print buf x) l;
      Buffer.add_char buf ')'

let () =
  let name = Sys.argv.(1) in
  let f = try List.assoc name Dispatch.table
    with Not_found -> (prerr_endline ("unknown model " ^ name); exit 2) in
  let buf = Buffer.create 65536 in
  (try
    while true do
      let line = input_line stdin in
      Buffer.clear buf;
      (try print buf (f (parse line))
       with Failure m -> (Buffer.clear buf; Buffer.add_string buf ("!error " ^ m))
          | Stack_overflow -> (Buffer.clear buf; Buffer.add_string buf "!error stack_overflow"));
      Buffer.add_char buf '\n';
      print_string (Buffer.contents buf)
    done
  with End_of_file -> ());
  flush stdout
