(* C05/Roundtrip.v — parse (serialize m) = Ok (norm m) for every well-formed m *)
From Coq Require Import List NArith ZArith Bool Lia.
Import ListNotations.
Require Import Base.Wire Base.PyStr C05.Model C05.Lemmas.
Require gen.T05.
Open Scope N_scope.

(* ---- well-formedness, as booleans ---- *)
Definition starts_with_c (c : N) (s : str) : bool :=
  match s with x :: _ => N.eqb x c | [] => false end.

(* a middle token: non-empty, no space, not starting with ':' *)
Definition tok_ok (t : str) : bool :=
  nonempty t && negb (mem SP t) && negb (starts_with_c COLON t).

(* does not end with CR or LF (rstrip('\r\n') leaves it alone) *)
Definition end_ok (s : str) : bool :=
  match last_char s with Some c => negb (mem c crlf) | None => true end.

Definition key_ok (k : str) : bool :=
  negb (mem SP k) && negb (mem SEMI k) && negb (mem EQ k).

Fixpoint keys_nodup (tg : tags) : bool :=
  match tg with
  | [] => true
  | (k, _) :: tg' => negb (dict_has k tg') && keys_nodup tg'
  end.

Definition norm_tag (kv : str * option str) : str * option str :=
  match kv with (k, Some []) => (k, None) | _ => kv end.
Definition norm_tags (tg : tags) : tags := map norm_tag tg.

Definition time_ok (vt : str -> bool) (tg : tags) : bool :=
  match dict_get time_key (norm_tags tg) with
  | None => true
  | Some None => false
  | Some (Some v) => vt v
  end.

Definition wf (vt : str -> bool) (m : msg) : bool :=
  tok_ok (m_command m) && end_ok (m_command m)
  && negb (mem SP (m_prefix m))
  && forallb tok_ok (removelast (m_args m))
  && end_ok (last (m_args m) [])
  && (match m_tags m, m_prefix m with
      | [], [] => negb (starts_with_c AT (m_command m))
      | _, _ => true
      end)
  && forallb (fun kv => key_ok (fst kv)) (m_tags m)
  && keys_nodup (m_tags m)
  && time_ok vt (m_tags m).

Definition norm (m : msg) : msg :=
  Msg (norm_tags (m_tags m)) (m_prefix m) (m_command m) (m_args m).

(* ---- no " :" inside joined tokens ---- *)
Lemma no_pair_cons c1 c2 x s :
  no_pair c1 c2 (x :: s) = negb (N.eqb x c1 && starts_with_c c2 s) && no_pair c1 c2 s.
Proof. destruct s as [|y s']; simpl; [rewrite andb_false_r; reflexivity|reflexivity]. Qed.

Lemma no_pair_app c1 c2 a b :
  no_pair c1 c2 a = true -> no_pair c1 c2 b = true ->
  starts_with_c c2 b = false ->
  no_pair c1 c2 (a ++ b) = true.
Proof.
  intros Ha Hb Hs. induction a as [|x a IH]; [exact Hb|].
  rewrite no_pair_cons in Ha. apply andb_true_iff in Ha as [Hx Ha].
  cbn [app]. rewrite no_pair_cons. rewrite (IH Ha). rewrite andb_true_r.
  destruct a as [|y a']; [cbn [app]; rewrite Hs, andb_false_r; reflexivity|exact Hx].
Qed.

Lemma tok_ok_parts t :
  tok_ok t = true -> t <> [] /\ mem SP t = false /\ starts_with_c COLON t = false.
Proof.
  unfold tok_ok. intro H. apply andb_true_iff in H as [H H3]. apply andb_true_iff in H as [H1 H2].
  apply negb_true_iff in H2, H3. repeat split; auto. destruct t; [discriminate|discriminate].
Qed.

Lemma no_pair_join_toks toks :
  forallb tok_ok toks = true -> no_pair SP COLON (join [SP] toks) = true.
Proof.
  induction toks as [|t toks IH]; intro H; [reflexivity|].
  cbn [forallb] in H. apply andb_true_iff in H as [Ht Hts].
  destruct (tok_ok_parts _ Ht) as [_ [Hsp _]].
  destruct toks as [|t2 toks'].
  - simpl. apply no_pair_nomem. exact Hsp.
  - change (join [SP] (t :: t2 :: toks')) with (t ++ SP :: join [SP] (t2 :: toks')).
    apply no_pair_app; [apply no_pair_nomem; exact Hsp| |reflexivity].
    rewrite no_pair_cons. rewrite (IH Hts). rewrite andb_true_r.
    cbn [forallb] in Hts. apply andb_true_iff in Hts as [Ht2 _].
    destruct (tok_ok_parts _ Ht2) as [Hne [_ Hc]].
    destruct t2 as [|y t2']; [congruence|].
    destruct toks'; cbn [join app starts_with_c] in *; rewrite Hc; rewrite andb_false_r; reflexivity.
Qed.

Lemma starts_join_toks c t toks :
  t <> [] -> starts_with_c c (join [SP] (t :: toks)) = starts_with_c c t.
Proof. intro H. destruct t; [congruence|]. destruct toks; reflexivity. Qed.

(* head tokens of a serialised line: [":prefix"] command middles *)
Definition head_toks (p c : str) (mids : list str) : list str :=
  match p with [] => c :: mids | _ => (COLON :: p) :: c :: mids end.

Lemma no_pair_head p c mids :
  mem SP p = false -> forallb tok_ok (c :: mids) = true ->
  no_pair SP COLON (join [SP] (head_toks p c mids)) = true.
Proof.
  intros Hp H. unfold head_toks. destruct p as [|x p']; [apply no_pair_join_toks; exact H|].
  change (join [SP] ((COLON :: x :: p') :: c :: mids))
    with ((COLON :: x :: p') ++ SP :: join [SP] (c :: mids)).
  apply no_pair_app; [apply no_pair_nomem; simpl; exact Hp| |reflexivity].
  rewrite no_pair_cons. rewrite (no_pair_join_toks _ H). rewrite andb_true_r.
  cbn [forallb] in H. apply andb_true_iff in H as [Hc _].
  destruct (tok_ok_parts _ Hc) as [Hne [_ Hcc]].
  rewrite starts_join_toks by exact Hne. rewrite Hcc. rewrite andb_false_r. reflexivity.
Qed.

Lemma head_toks_split p c mids :
  mem SP p = false -> forallb tok_ok (c :: mids) = true ->
  split_args (join [SP] (head_toks p c mids)) = head_toks p c mids.
Proof.
  intros Hp H. unfold split_args.
  assert (Hall : Forall (fun t => mem SP t = false /\ nonempty t = true) (head_toks p c mids)).
  { assert (Hcm : Forall (fun t => mem SP t = false /\ nonempty t = true) (c :: mids)).
    { rewrite forallb_forall in H. apply Forall_forall. intros t Hin.
      destruct (tok_ok_parts _ (H t Hin)) as [Hne [Hs _]]. split; [exact Hs|]. destruct t; [congruence|reflexivity]. }
    unfold head_toks. destruct p; [exact Hcm|]. constructor; [|exact Hcm]. split; [exact Hp|reflexivity]. }
  rewrite split_char_join.
  - induction Hall as [|t ts [_ Ht] _ IH]; [reflexivity|]. cbn [filter]. rewrite Ht. f_equal. exact IH.
  - unfold head_toks. destruct p; discriminate.
  - eapply Forall_impl; [|exact Hall]. intros t [Ht _]. exact Ht.
Qed.

Lemma last_char_join_last (toks : list str) t :
  t <> [] -> last_char (join [SP] (toks ++ [t])) = last_char t.
Proof.
  intro Hne. induction toks as [|u toks IH]; [reflexivity|].
  destruct (toks ++ [t]) as [|v r] eqn:E; [destruct toks; discriminate|].
  cbn [app]. rewrite E. change (join [SP] (u :: v :: r)) with (u ++ SP :: join [SP] (v :: r)).
  rewrite <- IH. unfold last_char. rewrite rev_app_distr. cbn [rev].
  destruct (rev (join [SP] (v :: r))) eqn:Er.
  - exfalso. apply (f_equal (@rev N)) in Er. rewrite rev_involutive in Er. cbn [rev] in Er.
    rewrite <- E in Er. clear - Er Hne. induction toks as [|w toks IH]; cbn [app join] in Er; [congruence|].
    destruct (toks ++ [t]) eqn:E2; [destruct toks; discriminate|]. destruct w; discriminate.
  - reflexivity.
Qed.

(* ---- shape of the serialised body ---- *)
Lemma join_head_toks p c mids :
  join [SP] (head_toks p c mids) =
  (match p with [] => c | _ => COLON :: p ++ [SP] ++ c end)
  ++ match mids with [] => [] | _ => SP :: join [SP] mids end.
Proof.
  unfold head_toks. destruct p as [|x p'].
  - destruct mids; [cbn [join]; rewrite app_nil_r; reflexivity|reflexivity].
  - destruct mids as [|m1 ms].
    + rewrite app_nil_r. reflexivity.
    + change (join [SP] ((COLON :: x :: p') :: c :: m1 :: ms))
        with ((COLON :: x :: p') ++ SP :: c ++ SP :: join [SP] (m1 :: ms)).
      cbn [app]. f_equal. f_equal. rewrite <- !app_assoc. reflexivity.
Qed.

Lemma body_noargs tg p c :
  serialize_body (Msg tg p c []) = join [SP] (head_toks p c []) ++ crlf.
Proof. rewrite join_head_toks. unfold serialize_body. cbn [m_prefix m_command m_args rev]. rewrite app_nil_r. reflexivity. Qed.

Lemma body_args tg p c mids a :
  serialize_body (Msg tg p c (mids ++ [a])) =
  join [SP] (head_toks p c mids) ++ [SP; COLON] ++ a ++ crlf.
Proof.
  rewrite join_head_toks. unfold serialize_body. cbn [m_prefix m_command m_args].
  rewrite rev_app_distr. cbn [rev app].
  destruct mids as [|m1 ms].
  - cbn [rev]. rewrite app_nil_r. reflexivity.
  - destruct (rev (m1 :: ms)) as [|r rs] eqn:E.
    + apply (f_equal (@rev str)) in E. rewrite rev_involutive in E. discriminate.
    + rewrite <- E. rewrite rev_involutive. rewrite <- !app_assoc. reflexivity.
Qed.

Lemma crlf_all : forallb (fun c => mem c crlf) crlf = true.
Proof. reflexivity. Qed.

Lemma rstrip_end_ok s : end_ok s = true -> rstrip crlf s = s.
Proof.
  unfold end_ok. intro H. apply rstrip_id. destruct (last_char s); [|trivial].
  apply negb_true_iff in H. exact H.
Qed.

Lemma parse_args_noargs tg p c :
  mem SP p = false -> tok_ok c = true -> end_ok c = true ->
  parse_args (serialize_body (Msg tg p c [])) = head_toks p c [].
Proof.
  intros Hp Hc He. rewrite body_noargs. unfold parse_args.
  assert (Hf : forallb tok_ok [c] = true) by (cbn [forallb]; rewrite Hc; reflexivity).
  rewrite split1_none_pair.
  - rewrite rstrip_app_strip by exact crlf_all.
    rewrite rstrip_end_ok; [apply head_toks_split; assumption|].
    unfold end_ok. unfold head_toks.
    destruct (tok_ok_parts _ Hc) as [Hne _].
    destruct p as [|x p'].
    + change [c] with ([] ++ [c]). rewrite last_char_join_last by exact Hne. exact He.
    + change [COLON :: x :: p'; c] with ([COLON :: x :: p'] ++ [c]).
      rewrite last_char_join_last by exact Hne. exact He.
  - apply no_pair_app; [apply no_pair_head; assumption|reflexivity|reflexivity].
Qed.

Lemma parse_args_args tg p c mids a :
  mem SP p = false -> forallb tok_ok (c :: mids) = true -> end_ok a = true ->
  parse_args (serialize_body (Msg tg p c (mids ++ [a]))) = head_toks p c mids ++ [a].
Proof.
  intros Hp Hc He. rewrite body_args. unfold parse_args.
  cbn [app]. rewrite split1_pair; [|discriminate|apply no_pair_head; assumption].
  rewrite head_toks_split by assumption. f_equal. f_equal.
  rewrite rstrip_app_strip by exact crlf_all. apply rstrip_end_ok. exact He.
Qed.


(* ---- tags ---- *)
Definition avoids (t : esc_table) (c : N) : bool :=
  match esc_lookup t c with Some _ => true | None => false end
  && forallb (fun kv => negb (mem c (snd kv))) t.

Lemma escape_avoids t c v : avoids t c = true -> mem c (escape_with t v) = false.
Proof.
  unfold avoids. intro H. apply andb_true_iff in H as [Hk Himg]. rewrite forallb_forall in Himg.
  induction v as [|x v IH]; [reflexivity|].
  unfold escape_with in *. cbn [flat_map]. rewrite mem_app, IH, orb_false_r.
  destruct (esc_lookup t x) as [img|] eqn:E.
  - apply esc_lookup_In in E. apply Himg in E. cbn [snd] in E. apply negb_true_iff in E. exact E.
  - simpl. rewrite orb_false_r. destruct (N.eqb c x) eqn:Ec; [|reflexivity].
    apply N.eqb_eq in Ec. subst x. rewrite E in Hk. discriminate.
Qed.

Lemma avoids_current :
  avoids gen.T05.SERVER_TAG_ESCAPE SP = true /\ avoids gen.T05.SERVER_TAG_ESCAPE SEMI = true.
Proof. split; vm_compute; reflexivity. Qed.

Lemma key_ok_parts k : key_ok k = true -> mem SP k = false /\ mem SEMI k = false /\ mem EQ k = false.
Proof.
  unfold key_ok. intro H. apply andb_true_iff in H as [H H3]. apply andb_true_iff in H as [H1 H2].
  apply negb_true_iff in H1, H2, H3. auto.
Qed.

Lemma format_tag_clean kv :
  key_ok (fst kv) = true -> mem SP (format_tag kv) = false /\ mem SEMI (format_tag kv) = false.
Proof.
  destruct kv as [k [v|]]; cbn [fst format_tag]; intro H; destruct (key_ok_parts _ H) as [H1 [H2 _]].
  - destruct avoids_current as [A1 A2]. unfold escape.
    rewrite !mem_app, H1, H2, (escape_avoids _ _ v A1), (escape_avoids _ _ v A2). split; reflexivity.
  - auto.
Qed.

Lemma parse_tag_format d kv :
  key_ok (fst kv) = true ->
  parse_tag d (format_tag kv) = dict_set (fst kv) (snd (norm_tag kv)) d.
Proof.
  destruct kv as [k [v|]]; cbn [fst format_tag]; intro H; destruct (key_ok_parts _ H) as [_ [_ H3]];
    unfold parse_tag.
  - cbn [app]. rewrite split1_char by exact H3. rewrite tag_value_roundtrip.
    destruct v; reflexivity.
  - rewrite split1_char_none by exact H3. reflexivity.
Qed.

Lemma fold_parse_tags tg acc :
  forallb (fun kv => key_ok (fst kv)) tg = true ->
  fold_left parse_tag (map format_tag tg) acc =
  fold_left (fun d kv => dict_set (fst kv) (snd (norm_tag kv)) d) tg acc.
Proof.
  revert acc. induction tg as [|kv tg IH]; intros acc H; [reflexivity|].
  cbn [forallb] in H. apply andb_true_iff in H as [Hk Hr].
  cbn [map fold_left]. rewrite parse_tag_format by exact Hk. apply IH. exact Hr.
Qed.

Lemma dict_has_snoc {A} k (d : list (str * A)) k' v :
  dict_has k (d ++ [(k', v)]) = dict_has k d || seq_eqb k k'.
Proof.
  unfold dict_has. induction d as [|[k2 v2] d IH]; cbn [app dict_get].
  - destruct (seq_eqb k k'); reflexivity.
  - destruct (seq_eqb k k2); [reflexivity|exact IH].
Qed.

Lemma dict_set_fresh {A} k (v : A) d : dict_has k d = false -> dict_set k v d = d ++ [(k, v)].
Proof.
  unfold dict_has. induction d as [|[k2 v2] d IH]; cbn [dict_get dict_set app]; [reflexivity|].
  destruct (seq_eqb k k2); [discriminate|]. intro H. rewrite IH by exact H. reflexivity.
Qed.

Lemma dict_has_false_in {A} k (d : list (str * A)) k' v :
  dict_has k d = false -> In (k', v) d -> seq_eqb k k' = false.
Proof.
  unfold dict_has. induction d as [|[k2 v2] d IH]; cbn [dict_get]; [intros _ []|].
  destruct (seq_eqb k k2) eqn:E; [discriminate|]. intros H [Hin|Hin].
  - inversion Hin; subst. exact E.
  - apply IH; assumption.
Qed.

Lemma seq_eqb_sym a b : seq_eqb a b = seq_eqb b a.
Proof.
  destruct (seq_eqb a b) eqn:E1, (seq_eqb b a) eqn:E2; try reflexivity.
  - apply seq_eqb_eq in E1. subst. rewrite seq_eqb_refl in E2. discriminate.
  - apply seq_eqb_eq in E2. subst. rewrite seq_eqb_refl in E1. discriminate.
Qed.

Lemma fold_dict_set_nodup tg acc :
  keys_nodup tg = true ->
  forallb (fun kv => negb (dict_has (fst kv) acc)) tg = true ->
  fold_left (fun d kv => dict_set (fst kv) (snd (norm_tag kv)) d) tg acc = acc ++ norm_tags tg.
Proof.
  revert acc. induction tg as [|[k v] tg IH]; intros acc Hnd Hfr.
  - cbn. rewrite app_nil_r. reflexivity.
  - cbn [keys_nodup] in Hnd. apply andb_true_iff in Hnd as [Hk Hnd]. apply negb_true_iff in Hk.
    cbn [forallb fst] in Hfr. apply andb_true_iff in Hfr as [Hka Hfr]. apply negb_true_iff in Hka.
    cbn [fold_left fst]. rewrite dict_set_fresh by exact Hka.
    rewrite IH; [| exact Hnd |].
    + rewrite <- app_assoc. cbn [app norm_tags map]. f_equal. f_equal.
      destruct v as [[|]|]; reflexivity.
    + rewrite forallb_forall in *. intros [k' v'] Hin. cbn [fst].
      rewrite dict_has_snoc. specialize (Hfr _ Hin). cbn [fst] in Hfr. apply negb_true_iff in Hfr.
      rewrite Hfr. cbn [orb]. rewrite seq_eqb_sym. rewrite (dict_has_false_in _ _ _ _ Hk Hin). reflexivity.
Qed.

Lemma parse_format_tags tg :
  tg <> [] -> forallb (fun kv => key_ok (fst kv)) tg = true -> keys_nodup tg = true ->
  parse_server_tags (join [SEMI] (map format_tag tg)) = norm_tags tg.
Proof.
  intros Hne Hk Hnd. unfold parse_server_tags.
  rewrite split_char_join.
  - rewrite fold_parse_tags by exact Hk. rewrite fold_dict_set_nodup; [reflexivity|exact Hnd|].
    apply forallb_forall. intros; reflexivity.
  - destruct tg; [congruence|discriminate].
  - apply Forall_forall. intros ft Hin. apply in_map_iff in Hin as [kv [Hft Hin]]. subst ft.
    rewrite forallb_forall in Hk. apply (format_tag_clean kv (Hk _ Hin)).
Qed.

(* ---- assembling ---- *)
Lemma parse_head_toks vt tg p c mids r :
  tok_ok c = true ->
  parse_head vt tg (head_toks p c mids ++ r) =
  match dict_get time_key tg with
  | None => Ok (Msg tg p c (mids ++ r))
  | Some None => Raise TypeError
  | Some (Some v) => if vt v then Ok (Msg tg p c (mids ++ r)) else Raise ValueError
  end.
Proof.
  intro Hc. destruct (tok_ok_parts _ Hc) as [Hne [_ Hcol]].
  unfold head_toks, parse_head. destruct p as [|x p'].
  - destruct c as [|ch c']; [congruence|]. cbn [app]. cbn [starts_with_c] in Hcol. rewrite Hcol.
    cbn [bind]. reflexivity.
  - cbn [app]. change (N.eqb COLON COLON) with true. cbn [bind]. reflexivity.
Qed.

Lemma body_first_char tg p c args :
  exists rest, serialize_body (Msg tg p c args) =
    (match p with [] => c | _ => COLON :: p ++ [SP] ++ c end) ++ rest.
Proof.
  unfold serialize_body. cbn [m_prefix m_command m_args].
  destruct (rev args) as [|a [|b r]]; eexists; reflexivity.
Qed.

Lemma body_ends_lf m : endswith1 LF (serialize_body m) = true.
Proof.
  unfold serialize_body.
  assert (H : forall x, endswith1 LF (x ++ crlf) = true).
  { intro x. unfold endswith1, crlf. change [CR; LF] with ([CR] ++ [LF]). rewrite app_assoc.
    rewrite last_char_app. reflexivity. }
  destruct (rev (m_args m)) as [|a [|b r]].
  - apply H.
  - rewrite !app_assoc. apply H.
  - rewrite !app_assoc. apply H.
Qed.

Lemma endswith1_app c a b : b <> [] -> endswith1 c (a ++ b) = endswith1 c b.
Proof.
  intro Hne. unfold endswith1, last_char. rewrite rev_app_distr.
  destruct (rev b) eqn:E; [|reflexivity].
  apply (f_equal (@rev N)) in E. rewrite rev_involutive in E. contradiction.
Qed.

Lemma list_snoc_case {A} (l : list A) : l = [] \/ exists l' a, l = l' ++ [a].
Proof. destruct l as [|x l] using rev_ind; [left; reflexivity|right; eauto]. Qed.

Theorem parse_serialize vt m : wf vt m = true -> parse vt (serialize m) = Ok (norm m).
Proof.
  destruct m as [tg p c args]. unfold wf, norm. cbn [m_tags m_prefix m_command m_args].
  intro H. repeat (apply andb_true_iff in H as [H ?]).
  assert (Hc : tok_ok c = true)
    by (unfold tok_ok; repeat (apply andb_true_iff; split); assumption).
  match goal with Hx : time_ok _ _ = true |- _ => rename Hx into Htime end.
  match goal with Hx : keys_nodup _ = true |- _ => rename Hx into Hnd end.
  match goal with Hx : forallb (fun kv => key_ok (fst kv)) _ = true |- _ => rename Hx into Hkeys end.
  match goal with Hx : negb (mem SP p) = true |- _ => apply negb_true_iff in Hx; rename Hx into Hp end.
  match goal with Hx : end_ok c = true |- _ => rename Hx into Hce end.
  match goal with Hx : forallb tok_ok _ = true |- _ => rename Hx into Hmids end.
  match goal with Hx : end_ok (last _ _) = true |- _ => rename Hx into Hlast end.
  match goal with Hx : match tg with _ => _ end = true |- _ => rename Hx into Hat end.
  destruct (tok_ok_parts _ Hc) as [Hcne [Hcsp Hccol]].
  (* what split_tags does *)
  assert (Hsplit : split_tags (serialize (Msg tg p c args))
                   = Ok (norm_tags tg, serialize_body (Msg tg p c args))).
  { unfold serialize. cbn [m_tags].
    destruct (body_first_char tg p c args) as [rest Hb].
    destruct tg as [|kv tg'].
    - rewrite Hb. unfold split_tags. destruct p as [|x p'].
      + destruct c as [|ch c']; [congruence|]. cbn [app]. cbn [starts_with_c] in Hat.
        apply negb_true_iff in Hat. rewrite Hat. reflexivity.
      + cbn [app]. change (N.eqb COLON AT) with false. reflexivity.
    - set (tgs := kv :: tg') in *. unfold format_server_tags, split_tags.
      cbn [app]. change (N.eqb AT AT) with true.
      change (AT :: join [SEMI] (map format_tag tgs) ++ SP :: serialize_body (Msg tgs p c args))
        with ((AT :: join [SEMI] (map format_tag tgs)) ++ SP :: serialize_body (Msg tgs p c args)).
      rewrite split1_char.
      + cbn [tl]. rewrite parse_format_tags; [reflexivity|discriminate|exact Hkeys|exact Hnd].
      + cbn [mem existsb]. change (N.eqb SP AT) with false. cbn [orb].
        fold (mem SP (join [SEMI] (map format_tag tgs))).
        assert (Hall : Forall (fun ft => mem SP ft = false) (map format_tag tgs)).
        { apply Forall_forall. intros ft Hin. apply in_map_iff in Hin as [kv' [Hft Hin]]. subst ft.
          rewrite forallb_forall in Hkeys. apply (format_tag_clean kv' (Hkeys _ Hin)). }
        clear - Hall. induction Hall as [|ft fts Hft _ IH]; [reflexivity|].
        destruct fts as [|ft2 fts']; [exact Hft|].
        change (join [SEMI] (ft :: ft2 :: fts')) with (ft ++ SEMI :: join [SEMI] (ft2 :: fts')).
        rewrite mem_app, Hft. cbn [orb]. cbn [mem existsb]. change (N.eqb SP SEMI) with false.
        cbn [orb]. exact IH. }
  (* the line is non-empty and ends with LF *)
  assert (Hlf : endswith1 LF (serialize (Msg tg p c args)) = true).
  { unfold serialize. cbn [m_tags]. destruct tg; [apply body_ends_lf|].
    rewrite app_assoc. rewrite endswith1_app; [apply body_ends_lf|].
    destruct (body_first_char (p0 :: tg) p c args) as [rest Hb]. rewrite Hb.
    destruct p; [destruct c; [congruence|discriminate]|discriminate]. }
  unfold parse.
  destruct (serialize (Msg tg p c args)) as [|l0 ls] eqn:Eser.
  { unfold endswith1, last_char in Hlf. discriminate. }
  rewrite <- Eser in *. clear Eser l0 ls.
  unfold parse_inner. rewrite Hlf, Hsplit. cbn [bind fst snd].
  unfold time_ok in Htime.
  destruct (list_snoc_case args) as [Ha|[mids [a Ha]]]; subst args.
  - rewrite parse_args_noargs by assumption.
    rewrite <- (app_nil_r (head_toks p c [])). rewrite parse_head_toks by exact Hc.
    destruct (dict_get time_key (norm_tags tg)) as [[v|]|]; [rewrite Htime| |]; try reflexivity. discriminate.
  - rewrite removelast_last in Hmids. rewrite last_last in Hlast.
    rewrite parse_args_args; [| exact Hp | cbn [forallb]; rewrite Hc, Hmids; reflexivity | exact Hlast].
    rewrite parse_head_toks by exact Hc.
    destruct (dict_get time_key (norm_tags tg)) as [[v|]|]; [rewrite Htime| |]; try reflexivity. discriminate.
Qed.

(* non-vacuity: a tagged message with prefix, middles, a trailing argument
   holding spaces and colons, and an escaped tag value meets wf *)
Example wf_example :
  wf (fun _ => true)
     (Msg [([97], Some [32; 59; 92]); ([98], None)] [110; 33; 117; 64; 104]
          [80; 82; 73; 86; 77; 83; 71] [[35; 99]; [58; 32; 104; 105; 32; 58; 32]]) = true.
Proof. vm_compute. reflexivity. Qed.
