(* C05/ParseMsg.v — drivers.parseMsg: s.strip(), then IrcMsg(s).
   Parsing is insensitive to the line terminator (none, LF, CR LF), so the round trip of Roundtrip.v carries
   over to the receive path for every message whose line loses nothing but its CR LF to strip(); for the
   others it does not (finding C05.F32: strip() also eats whitespace at the end of the last argument). *)
From Coq Require Import List NArith ZArith Bool Lia.
Import ListNotations.
Require Import Base.Wire Base.PyStr C05.Model C05.Lemmas C05.Roundtrip C05.Hostmask.
Require gen.T05.
Open Scope N_scope.

(* ---- split1 and a suffix that does not contain the separator ---- *)
Lemma split1c_app c x t :
  mem c t = false ->
  split1 [c] (x ++ t) = match split1 [c] x with Some (a, b) => Some (a, b ++ t) | None => None end.
Proof.
  intro Ht. induction x as [|y x IH].
  - cbn [app split1]. apply split1_char_none. exact Ht.
  - cbn [app split1]. simpl startswith. destruct (N.eqb c y); simpl.
    + reflexivity.
    + rewrite IH. destruct (split1 [c] x) as [[a b]|]; reflexivity.
Qed.

Lemma split1_pair_app c1 c2 x t :
  mem c1 t = false -> mem c2 t = false ->
  split1 [c1; c2] (x ++ t) =
  match split1 [c1; c2] x with Some (a, b) => Some (a, b ++ t) | None => None end.
Proof.
  intros H1 H2. induction x as [|y x IH].
  - cbn [app split1]. apply split1_none_pair. apply no_pair_nomem. exact H1.
  - cbn [app split1].
    assert (Hsw : startswith [c1; c2] (y :: x ++ t) = startswith [c1; c2] (y :: x)).
    { simpl. destruct (N.eqb c1 y); [|reflexivity]. simpl.
      destruct x as [|z x']; [|reflexivity].
      simpl. destruct t as [|z t']; [reflexivity|].
      simpl in H2. apply orb_false_iff in H2 as [H2 _]. rewrite H2. reflexivity. }
    rewrite Hsw. destruct (startswith [c1; c2] (y :: x)) eqn:Es.
    + f_equal. f_equal.
      simpl in Es. destruct (N.eqb c1 y); [|discriminate]. simpl in Es.
      destruct x as [|z x']; [discriminate|]. reflexivity.
    + rewrite IH. destruct (split1 [c1; c2] x) as [[a b]|]; reflexivity.
Qed.

(* ---- the parser does not look at the terminator ---- *)
Definition all_crlf (t : str) : bool := forallb (fun c => mem c crlf) t.

Lemma all_crlf_nomem t c : all_crlf t = true -> mem c crlf = false -> mem c t = false.
Proof.
  intros Ht Hc. apply mem_false. intro Hin. unfold all_crlf in Ht. rewrite forallb_forall in Ht.
  specialize (Ht _ Hin). congruence.
Qed.

Lemma parse_args_term r t : all_crlf t = true -> parse_args (r ++ t) = parse_args r.
Proof.
  intro Ht. unfold parse_args.
  rewrite split1_pair_app by (apply (all_crlf_nomem t); [exact Ht|reflexivity]).
  destruct (split1 [SP; COLON] r) as [[a l]|].
  - rewrite rstrip_app_strip by exact Ht. reflexivity.
  - rewrite rstrip_app_strip by exact Ht. reflexivity.
Qed.

Lemma split_tags_term b t :
  b <> [] -> all_crlf t = true ->
  split_tags (b ++ t) = match split_tags b with Ok (tg, r) => Ok (tg, r ++ t) | Raise e => Raise e end.
Proof.
  intros Hb Ht. destruct b as [|c b']; [contradiction|].
  unfold split_tags. cbn [app]. destruct (N.eqb c AT); [|reflexivity].
  change (c :: b' ++ t) with ((c :: b') ++ t).
  rewrite split1c_app by (apply (all_crlf_nomem t); [exact Ht|reflexivity]).
  destruct (split1 [SP] (c :: b')) as [[st rest]|]; reflexivity.
Qed.

Lemma parse_steps_term vt b t :
  b <> [] -> all_crlf t = true ->
  (do ts <- split_tags (b ++ t); parse_head vt (fst ts) (parse_args (snd ts))) =
  (do ts <- split_tags b; parse_head vt (fst ts) (parse_args (snd ts))).
Proof.
  intros Hb Ht. rewrite split_tags_term by assumption.
  destruct (split_tags b) as [[tg r]|e]; cbn [bind fst snd]; [|reflexivity].
  rewrite parse_args_term by exact Ht. reflexivity.
Qed.

Lemma endswith1_snoc c s d : endswith1 c (s ++ [d]) = N.eqb c d.
Proof. unfold endswith1. rewrite last_char_app. reflexivity. Qed.

(* a line without terminator parses as the same line followed by CR LF *)
Lemma parse_terminator vt b :
  b <> [] -> endswith1 LF b = false -> parse vt b = parse vt (b ++ crlf).
Proof.
  intros Hb Hlf. unfold parse.
  destruct b as [|c b'] eqn:Eb; [contradiction|]. rewrite <- Eb in *.
  destruct (b ++ crlf) as [|c2 b2] eqn:E2; [destruct b; discriminate|]. rewrite <- E2. clear E2 c2 b2.
  assert (Hin : parse_inner vt b = parse_inner vt (b ++ crlf)).
  { unfold parse_inner. rewrite Hlf.
    assert (H2 : endswith1 LF (b ++ crlf) = true).
    { unfold crlf. change [CR; LF] with ([CR] ++ [LF]). rewrite app_assoc. apply endswith1_snoc. }
    rewrite H2.
    assert (T1 : all_crlf [LF] = true) by reflexivity.
    assert (T2 : all_crlf crlf = true) by reflexivity.
    rewrite (parse_steps_term vt b [LF] Hb T1). rewrite (parse_steps_term vt b crlf Hb T2).
    reflexivity. }
  rewrite Hin. reflexivity.
Qed.

(* ---- strip() ---- *)
Lemma rstrip_last_not chars s c : last_char (rstrip chars s) = Some c -> mem c chars = false.
Proof.
  unfold rstrip, last_char. rewrite rev_involutive.
  induction (rev s) as [|x r IH]; [discriminate|].
  destruct (mem x chars) eqn:E.
  - exact IH.
  - intro H. inversion H; subst. exact E.
Qed.

Lemma ws_crlf : ws CR = true /\ ws LF = true.
Proof. split; vm_compute; reflexivity. Qed.

(* the line of m loses exactly its CR LF to strip() *)
Definition strips_only_crlf (m : msg) : bool :=
  seq_eqb (strip gen.T05.WHITESPACE (serialize m) ++ crlf) (serialize m).

Lemma parse_crlf_fails vt : parse vt crlf = Raise MalformedIrcMsg.
Proof. vm_compute. reflexivity. Qed.

Theorem parse_msg_serialize vt m :
  wf vt m = true -> strips_only_crlf m = true ->
  exists f, parse_msg vt (serialize m) = Ok (Some f) /\ f_msg f = norm m.
Proof.
  intros Hwf Hs. unfold strips_only_crlf in Hs. apply seq_eqb_eq in Hs.
  pose proof (parse_serialize vt m Hwf) as Hp.
  unfold parse_msg. set (b := strip gen.T05.WHITESPACE (serialize m)) in *.
  assert (Hb : b <> []).
  { intro E. rewrite E in Hs. cbn [app] in Hs. rewrite <- Hs in Hp. rewrite parse_crlf_fails in Hp. discriminate. }
  assert (Hlf : endswith1 LF b = false).
  { unfold endswith1. destruct (last_char b) as [c|] eqn:El; [|reflexivity].
    unfold b, strip in El. apply rstrip_last_not in El.
    destruct (N.eqb LF c) eqn:E; [|reflexivity]. apply N.eqb_eq in E. subst c.
    destruct ws_crlf as [_ H]. unfold ws in H. congruence. }
  pose proof (parse_terminator vt b Hb Hlf) as Ht. rewrite Hs, Hp in Ht.
  destruct b as [|c b'] eqn:Eb; [contradiction|].
  unfold parse_full. rewrite Ht. cbn [bind].
  destruct (finish_total (norm m)) as [f [Hf Hfm]]. rewrite Hf. cbn [bind]. eauto.
Qed.

(* totality carries over: None for a blank line, a message, or MalformedIrcMsg *)
Lemma parse_msg_total vt s :
  (exists o, parse_msg vt s = Ok o) \/ parse_msg vt s = Raise MalformedIrcMsg.
Proof.
  unfold parse_msg. destruct (strip gen.T05.WHITESPACE s) as [|c s']; [left; eauto|].
  destruct (parse_full_total vt (c :: s')) as [[f Hf]|Hf]; rewrite Hf; cbn [bind]; [left; eauto|right; reflexivity].
Qed.

(* ... and where strip() takes more than the CR LF the round trip fails on the receive path (finding C05.F32):
   PRIVMSG #c :"hi " is received as "hi" *)
Definition witness_trailing_space : msg :=
  Msg [] [] [80; 82; 73; 86; 77; 83; 71] [[35; 99]; [104; 105; 32]].
Lemma parse_msg_roundtrip_refuted vt :
  wf vt witness_trailing_space = true /\ strips_only_crlf witness_trailing_space = false /\
  parse vt (serialize witness_trailing_space) = Ok (norm witness_trailing_space) /\
  exists f, parse_msg vt (serialize witness_trailing_space) = Ok (Some f) /\
            m_args (f_msg f) = [[35; 99]; [104; 105]].
Proof.
  split; [vm_compute; reflexivity|]. split; [vm_compute; reflexivity|].
  split; [vm_compute; reflexivity|]. eexists. split; [vm_compute; reflexivity|reflexivity].
Qed.

(* non-vacuity of the domain: the example message of Roundtrip.v is in it *)
Example strips_only_crlf_example :
  strips_only_crlf (Msg [([97], Some [32; 59; 92]); ([98], None)] [110; 33; 117; 64; 104]
                        [80; 82; 73; 86; 77; 83; 71] [[35; 99]; [58; 32; 104; 105; 32; 58]]) = true.
Proof. vm_compute. reflexivity. Qed.
