(* C05/Lemmas.v — proofs about C05/Model.v *)
From Coq Require Import List NArith ZArith Bool Lia.
Import ListNotations.
Require Import Base.Wire Base.PyStr C05.Model.
Require gen.T05.
Open Scope N_scope.

(* ---------------------------------------------------------------- *)
(* Tag value escaping round-trips, for every table satisfying a decidable
   sanity condition that the regenerated table is checked against. *)

Definition img_ok (t : esc_table) (kv : N * str) : bool :=
  match snd kv with
  | [b; d] => N.eqb b BSL && negb (N.eqb d LF) &&
              match unesc_lookup t (snd kv) with Some k => N.eqb k (fst kv) | None => false end
  | _ => false
  end.

Definition table_ok (t : esc_table) : bool :=
  forallb (img_ok t) t &&
  match esc_lookup t BSL with Some _ => true | None => false end.

Lemma esc_lookup_In t c img : esc_lookup t c = Some img -> In (c, img) t.
Proof.
  induction t as [|[k i] t IH]; simpl; [discriminate|].
  destruct (N.eqb c k) eqn:E.
  - intro H. inversion H; subst. apply N.eqb_eq in E. subst. left. reflexivity.
  - intro H. right. apply IH. exact H.
Qed.

Lemma escape_unescape_table t :
  table_ok t = true -> forall v, unescape_with t (escape_with t v) = v.
Proof.
  intro Hok. unfold table_ok in Hok. apply andb_true_iff in Hok as [Hall Hbsl].
  rewrite forallb_forall in Hall.
  induction v as [|c v IH]; [reflexivity|].
  unfold escape_with in *. cbn [flat_map].
  destruct (esc_lookup t c) as [img|] eqn:El.
  - pose proof (Hall _ (esc_lookup_In _ _ _ El)) as Hi. unfold img_ok in Hi. cbn [fst snd] in Hi.
    destruct img as [|b [|d [|? ?]]]; try discriminate.
    apply andb_true_iff in Hi as [Hi Hu]. apply andb_true_iff in Hi as [Hb Hd].
    apply N.eqb_eq in Hb. subst b. apply negb_true_iff in Hd.
    destruct (unesc_lookup t [BSL; d]) as [k|] eqn:Eu; [|discriminate].
    apply N.eqb_eq in Hu. subst k.
    cbn [app unescape_with]. rewrite N.eqb_refl. rewrite Hd. rewrite Eu. f_equal. exact IH.
  - cbn [app unescape_with].
    assert (Hc : N.eqb c BSL = false).
    { destruct (N.eqb c BSL) eqn:E; [|reflexivity]. apply N.eqb_eq in E. subst c.
      rewrite El in Hbsl. discriminate. }
    rewrite Hc. f_equal. exact IH.
Qed.

Lemma table_ok_current : table_ok gen.T05.SERVER_TAG_ESCAPE = true.
Proof. vm_compute. reflexivity. Qed.

Lemma tag_value_roundtrip : forall v, unescape (escape v) = v.
Proof. apply escape_unescape_table. exact table_ok_current. Qed.
