(* C05/Lemmas.v — proofs about C05/Model.v *)
From Coq Require Import List NArith ZArith Bool Lia.
Import ListNotations.
Require Import Base.Wire Base.PyStr C05.Model.
Require gen.T05.
Open Scope N_scope.

(* ---------------------------------------------------------------- *)
(* Tag value escaping round-trips, for every table satisfying a decidable
   sanity condition that the regenerated table is checked against. *)

Definition img_ok (t : esc_table) (kv : N * str) : bool :=
  match snd kv with
  | [b; d] => N.eqb b BSL && negb (N.eqb d LF) &&
              match unesc_lookup t (snd kv) with Some k => N.eqb k (fst kv) | None => false end
  | _ => false
  end.

Definition table_ok (t : esc_table) : bool :=
  forallb (img_ok t) t &&
  match esc_lookup t BSL with Some _ => true | None => false end.

Lemma esc_lookup_In t c img : esc_lookup t c = Some img -> In (c, img) t.
Proof.
  induction t as [|[k i] t IH]; simpl; [discriminate|].
  destruct (N.eqb c k) eqn:E.
  - intro H. inversion H; subst. apply N.eqb_eq in E. subst. left. reflexivity.
  - intro H. right. apply IH. exact H.
Qed.

Lemma escape_unescape_table t :
  table_ok t = true -> forall v, unescape_with t (escape_with t v) = v.
Proof.
  intro Hok. unfold table_ok in Hok. apply andb_true_iff in Hok as [Hall Hbsl].
  rewrite forallb_forall in Hall.
  induction v as [|c v IH]; [reflexivity|].
  unfold escape_with in *. cbn [flat_map].
  destruct (esc_lookup t c) as [img|] eqn:El.
  - pose proof (Hall _ (esc_lookup_In _ _ _ El)) as Hi. unfold img_ok in Hi. cbn [fst snd] in Hi.
    destruct img as [|b [|d [|? ?]]]; try discriminate.
    apply andb_true_iff in Hi as [Hi Hu]. apply andb_true_iff in Hi as [Hb Hd].
    apply N.eqb_eq in Hb. subst b. apply negb_true_iff in Hd.
    destruct (unesc_lookup t [BSL; d]) as [k|] eqn:Eu; [|discriminate].
    apply N.eqb_eq in Hu. subst k.
    cbn [app unescape_with]. rewrite N.eqb_refl. rewrite Hd. rewrite Eu. f_equal. exact IH.
  - cbn [app unescape_with].
    assert (Hc : N.eqb c BSL = false).
    { destruct (N.eqb c BSL) eqn:E; [|reflexivity]. apply N.eqb_eq in E. subst c.
      rewrite El in Hbsl. discriminate. }
    rewrite Hc. f_equal. exact IH.
Qed.

Lemma table_ok_current : table_ok gen.T05.SERVER_TAG_ESCAPE = true.
Proof. vm_compute. reflexivity. Qed.

Lemma tag_value_roundtrip : forall v, unescape (escape v) = v.
Proof. apply escape_unescape_table. exact table_ok_current. Qed.

(* ---------------------------------------------------------------- *)
(* Totality of parsing *)

Definition time_valueless (tg : tags) : bool :=
  match dict_get time_key tg with Some None => true | _ => false end.

Definition norm_lf (s : str) : str := if endswith1 LF s then s else s ++ [LF].

(* the line carries a `time` tag without a value *)
Definition time_valueless_line (s : str) : bool :=
  match split_tags (norm_lf s) with
  | Ok (tg, _) => time_valueless tg
  | Raise _ => false
  end.

Lemma parse_head_exn vt tg args e :
  parse_head vt tg args = Raise e ->
  e = IndexError \/ e = ValueError \/ (e = TypeError /\ time_valueless tg = true).
Proof.
  unfold parse_head, time_valueless.
  destruct args as [|a0 rest]; [intro H; inversion H; auto|].
  destruct a0 as [|c a0']; [intro H; inversion H; auto|].
  destruct (N.eqb c COLON).
  - destruct rest as [|cmd rest']; cbn [bind]; [intro H; inversion H; auto|].
    destruct (dict_get time_key tg) as [[v|]|]; [destruct (vt v)| |]; intro H; inversion H; auto.
  - cbn [bind].
    destruct (dict_get time_key tg) as [[v|]|]; [destruct (vt v)| |]; intro H; inversion H; auto.
Qed.

Lemma split_tags_exn s e : split_tags s = Raise e -> e = IndexError \/ e = ValueError.
Proof.
  unfold split_tags. destruct s as [|c s']; [intro H; inversion H; auto|].
  destruct (N.eqb c AT); [|discriminate].
  destruct (split1 [SP] (c :: s')) as [[st rest]|]; [discriminate|]. intro H; inversion H; auto.
Qed.

Lemma catches_current :
  existsb (exn_eqb IndexError) gen.T05.PARSE_CATCHES = true /\
  existsb (exn_eqb ValueError) gen.T05.PARSE_CATCHES = true /\
  existsb (exn_eqb TypeError) gen.T05.PARSE_CATCHES = true.
Proof. repeat split; vm_compute; reflexivity. Qed.

Lemma parse_inner_exn vt s e :
  parse_inner vt s = Raise e -> e = IndexError \/ e = ValueError \/ e = TypeError.
Proof.
  unfold parse_inner. intro Ep.
  destruct (split_tags (if endswith1 LF s then s else s ++ [LF])) as [[tg rest]|e'] eqn:Es.
  - cbn [bind fst snd] in Ep. apply parse_head_exn in Ep as [H|[H|[H _]]]; auto.
  - cbn [bind] in Ep. inversion Ep; subst. apply split_tags_exn in Es as [H|H]; auto.
Qed.

(* Totality: every string either parses or is reported as MalformedIrcMsg *)
Lemma parse_total vt s :
  (exists m, parse vt s = Ok m) \/ parse vt s = Raise MalformedIrcMsg.
Proof.
  destruct catches_current as [Hi [Hv Ht]].
  unfold parse. destruct s as [|c0 s0]; [right; reflexivity|].
  destruct (parse_inner vt (c0 :: s0)) as [m|e] eqn:Ep; [left; eauto|right].
  apply parse_inner_exn in Ep as [He|[He|He]]; subst e; [rewrite Hi|rewrite Hv|rewrite Ht]; reflexivity.
Qed.

Lemma parse_exn_classes vt s e : parse vt s = Raise e -> e = MalformedIrcMsg.
Proof.
  intro H. destruct (parse_total vt s) as [[m Hm]|Hm]; rewrite Hm in H; inversion H; reflexivity.
Qed.

(* the line that used to escape as TypeError (finding C05.F3, repaired): "@time :x PING y" *)
Definition witness_typeerror : str :=
  [64; 116; 105; 109; 101; 32; 58; 120; 32; 80; 73; 78; 71; 32; 121].

Lemma valueless_time_rejected vt :
  time_valueless_line witness_typeerror = true /\ parse vt witness_typeerror = Raise MalformedIrcMsg.
Proof. split; vm_compute; reflexivity. Qed.
