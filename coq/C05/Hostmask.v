(* C05/Hostmask.v — the tail of IrcMsg.__init__: nick, user, host of the prefix.
   ircutils.splitHostmask is total on everything ircutils.isUserHostmask accepts (so IrcMsg(s) raises
   nothing but MalformedIrcMsg), its three pieces rejoin to the hostmask, and the split order of the
   repaired tree (finding C05.F30) extends the one of the pinned tree: same answer wherever that one had one. *)
From Coq Require Import List NArith ZArith Bool Lia.
Import ListNotations.
Require Import Base.Wire Base.PyStr C05.Model C05.Lemmas.
Require gen.T05.
Open Scope N_scope.

(* ---- split(c, 1) / rsplit(c, 1) on one character ---- *)
Lemma split1c_spec c s a b : split1 [c] s = Some (a, b) -> s = a ++ c :: b /\ mem c a = false.
Proof.
  revert a b. induction s as [|x s IH]; intros a b H; [discriminate|].
  cbn [split1] in H. simpl startswith in H.
  destruct (N.eqb c x) eqn:E; simpl in H.
  - apply N.eqb_eq in E. subst x. inversion H; subst. split; reflexivity.
  - destruct (split1 [c] s) as [[a' b']|] eqn:Es; [|discriminate].
    inversion H; subst. destruct (IH a' b eq_refl) as [Hs Hm]. subst s.
    split; [reflexivity|]. unfold mem in *. simpl. rewrite E. exact Hm.
Qed.

Lemma split1c_some c s : mem c s = true -> exists a b, split1 [c] s = Some (a, b).
Proof.
  induction s as [|x s IH]; intro H; [discriminate|].
  cbn [split1]. simpl startswith. simpl in H.
  destruct (N.eqb c x) eqn:E; simpl.
  - eauto.
  - simpl in H. destruct (IH H) as [a [b Hab]]. rewrite Hab. eauto.
Qed.

Lemma mem_rev c s : mem c (rev s) = mem c s.
Proof.
  destruct (mem c s) eqn:E.
  - apply mem_In. apply in_rev. rewrite rev_involutive. apply mem_In. exact E.
  - apply mem_false. intro H. apply in_rev in H. apply mem_false in E. contradiction.
Qed.

Lemma rsplit1c_spec c s a b : rsplit1c c s = Some (a, b) -> s = a ++ c :: b /\ mem c b = false.
Proof.
  unfold rsplit1c. destruct (split1 [c] (rev s)) as [[b' a']|] eqn:E; [|discriminate].
  intro H. inversion H; subst. apply split1c_spec in E as [Hs Hm].
  split.
  - rewrite <- (rev_involutive s), Hs, rev_app_distr. simpl. rewrite <- app_assoc. reflexivity.
  - rewrite mem_rev. exact Hm.
Qed.

Lemma rsplit1c_app c a b : mem c b = false -> rsplit1c c (a ++ c :: b) = Some (a, b).
Proof.
  intro H. unfold rsplit1c. rewrite rev_app_distr. simpl. rewrite <- app_assoc. simpl.
  rewrite split1_char by (rewrite mem_rev; exact H). rewrite !rev_involutive. reflexivity.
Qed.

Lemma rsplit1c_some c s : mem c s = true -> exists a b, rsplit1c c s = Some (a, b).
Proof.
  intro H. unfold rsplit1c. rewrite <- mem_rev in H.
  destruct (split1c_some _ _ H) as [a [b Hab]]. rewrite Hab. eauto.
Qed.

(* ---- what isUserHostmask accepts contains a '!' followed, later, by an '@' ---- *)
Lemma index_of_split c t k : index_of c t = Some k -> exists t1, t = t1 ++ c :: skipn (S k) t.
Proof.
  revert k. induction t as [|x t IH]; intros k H; [discriminate|].
  cbn [index_of] in H. destruct (N.eqb x c) eqn:E.
  - inversion H; subst. apply N.eqb_eq in E. subst x. exists []. reflexivity.
  - destruct (index_of c t) as [k'|] eqn:Ei; [|discriminate]. simpl in H. inversion H; subst.
    destruct (IH k' eq_refl) as [t1 Ht]. exists (x :: t1). cbn [skipn app]. f_equal. exact Ht.
Qed.

Lemma mem_split c s : mem c s = true -> exists a b, s = a ++ c :: b.
Proof. intro H. apply mem_In in H. apply in_split in H. exact H. Qed.

Lemma mem_removelast c s : mem c (removelast s) = true -> mem c s = true.
Proof.
  intro H. destruct s as [|x s] using rev_ind; [exact H|].
  rewrite removelast_last in H. rewrite mem_app, H. reflexivity.
Qed.

Lemma strip_final_lf_spec s : s = strip_final_lf s \/ s = strip_final_lf s ++ [LF].
Proof.
  unfold strip_final_lf. destruct (rev s) as [|c r] eqn:E; [left; reflexivity|].
  destruct (N.eqb c LF) eqn:Ec; [|left; reflexivity].
  right. apply N.eqb_eq in Ec. subst c.
  rewrite <- (rev_involutive s), E. reflexivity.
Qed.

Lemma iuh_shape s :
  is_user_hostmask s = true -> exists x y z, s = x ++ BANG :: y ++ AT :: z.
Proof.
  unfold is_user_hostmask. intro H. apply andb_true_iff in H as [_ H].
  assert (Hs : exists x y z, strip_final_lf s = x ++ BANG :: y ++ AT :: z).
  { destruct (strip_final_lf s) as [|c0 t]; [discriminate|].
    destruct (index_of BANG t) as [k|] eqn:Ei; [|discriminate].
    destruct (index_of_split _ _ _ Ei) as [t1 Ht].
    destruct (skipn (S k) t) as [|d r'] eqn:Esk; [discriminate|].
    apply mem_removelast in H. destruct (mem_split _ _ H) as [r1 [r2 Hr]].
    exists (c0 :: t1), (d :: r1), r2. rewrite Ht, Hr. reflexivity. }
  destruct Hs as [x [y [z Hs]]].
  destruct (strip_final_lf_spec s) as [E|E]; rewrite E, Hs.
  - eauto.
  - exists x, y, (z ++ [LF]). rewrite <- !app_assoc. simpl. rewrite <- app_assoc. reflexivity.
Qed.

(* ---- the regenerated description of splitHostmask is the one these proofs are about ---- *)
Lemma split_table_current : gen.T05.SPLIT1 = (true, AT) /\ gen.T05.SPLIT2 = (true, BANG, false).
Proof. split; reflexivity. Qed.

Lemma ws_table_sane :
  ws SP = true /\ ws LF = true /\ ws CR = true /\ ws 9 = true /\ ws 160 = true /\
  ws BANG = false /\ ws AT = false /\ ws 97 = false.
Proof. repeat split; vm_compute; reflexivity. Qed.

Definition split_at_first := split_with (true, AT) (true, BANG, false).

Lemma split_hostmask_is : split_hostmask = split_at_first.
Proof. unfold split_hostmask, split_at_first. destruct split_table_current as [-> ->]. reflexivity. Qed.

Lemma split_at_first_total s :
  is_user_hostmask s = true ->
  exists n u h, split_at_first s = Ok (n, u, h) /\ s = n ++ BANG :: u ++ AT :: h /\
                mem AT h = false /\ mem BANG u = false.
Proof.
  intro Hi. destruct (iuh_shape _ Hi) as [x [y [z Hs]]].
  unfold split_at_first, split_with. rewrite Hi. cbn [negb split_once].
  assert (Ha : exists w h, rsplit1c AT s = Some (x ++ BANG :: w, h) /\ mem AT h = false).
  { destruct (mem AT z) eqn:Ez.
    - destruct (rsplit1c_some _ _ Ez) as [z1 [z2 Hz]]. apply rsplit1c_spec in Hz as [Hz Hm].
      exists (y ++ AT :: z1), z2. split; [|exact Hm]. subst s z.
      replace (x ++ BANG :: y ++ AT :: z1 ++ AT :: z2) with ((x ++ BANG :: y ++ AT :: z1) ++ AT :: z2)
        by (rewrite <- !app_assoc; simpl; rewrite <- !app_assoc; reflexivity).
      apply rsplit1c_app. exact Hm.
    - exists y, z. split; [|exact Ez]. subst s.
      replace (x ++ BANG :: y ++ AT :: z) with ((x ++ BANG :: y) ++ AT :: z)
        by (rewrite <- !app_assoc; reflexivity).
      apply rsplit1c_app. exact Ez. }
  destruct Ha as [w [h [Ha Hh]]]. rewrite Ha.
  assert (Hb : mem BANG (x ++ BANG :: w) = true).
  { rewrite mem_app. simpl. rewrite orb_true_r. reflexivity. }
  destruct (rsplit1c_some _ _ Hb) as [n [u Hnu]]. rewrite Hnu.
  apply rsplit1c_spec in Ha as [Hs' _]. pose proof (rsplit1c_spec _ _ _ _ Hnu) as [Hp Hu].
  exists n, u, h. repeat split; try assumption.
  rewrite Hs', Hp. rewrite <- app_assoc. reflexivity.
Qed.

Lemma split_hostmask_total s :
  is_user_hostmask s = true ->
  exists n u h, split_hostmask s = Ok (n, u, h) /\ s = n ++ BANG :: u ++ AT :: h /\
                mem AT h = false /\ mem BANG u = false.
Proof. rewrite split_hostmask_is. apply split_at_first_total. Qed.

(* splitHostmask on something isUserHostmask rejects: the assert, nothing else *)
Lemma split_hostmask_rejects s : is_user_hostmask s = false -> split_hostmask s = Raise AssertionError.
Proof. intro H. unfold split_hostmask, split_with. rewrite H. reflexivity. Qed.

(* the repaired order agrees with the pinned one wherever the pinned one answered *)
Lemma split_extends_old s r : split_hostmask_old s = Ok r -> split_hostmask s = Ok r.
Proof.
  rewrite split_hostmask_is. unfold split_hostmask_old, split_at_first, split_with.
  destruct (negb (is_user_hostmask s)); [discriminate|]. cbn [split_once].
  destruct (rsplit1c BANG s) as [[n rest]|] eqn:E1; [|discriminate].
  destruct (rsplit1c AT rest) as [[u h]|] eqn:E2; [|discriminate].
  intro H. inversion H; subst r.
  apply rsplit1c_spec in E1 as [Hs Hrest]. apply rsplit1c_spec in E2 as [Hr Hh].
  subst rest. rewrite mem_app in Hrest. apply orb_false_iff in Hrest as [Hu _].
  subst s.
  replace (n ++ BANG :: u ++ AT :: h) with ((n ++ BANG :: u) ++ AT :: h)
    by (rewrite <- app_assoc; reflexivity).
  rewrite (rsplit1c_app AT _ _ Hh). rewrite (rsplit1c_app BANG _ _ Hu). reflexivity.
Qed.

(* ... and the pinned one did not always answer: "a!b@c!d" (finding C05.F30) *)
Definition witness_hostmask : str := [97; 33; 98; 64; 99; 33; 100].
Lemma old_split_partial :
  is_user_hostmask witness_hostmask = true /\ split_hostmask_old witness_hostmask = Raise ValueError /\
  split_hostmask witness_hostmask = Ok ([97], [98], [99; 33; 100]).
Proof. repeat split; vm_compute; reflexivity. Qed.

(* ---- IrcMsg(s) as a whole ---- *)
Lemma finish_total m : exists f, finish m = Ok f /\ f_msg f = m.
Proof.
  unfold finish. destruct (is_user_hostmask (m_prefix m)) eqn:E.
  - destruct (split_hostmask_total _ E) as [n [u [h [Hs _]]]]. rewrite Hs. cbn [bind]. eauto.
  - eauto.
Qed.

Lemma finish_rejoin m f :
  finish m = Ok f ->
  (is_user_hostmask (m_prefix m) = true /\ m_prefix m = f_nick f ++ BANG :: f_user f ++ AT :: f_host f) \/
  (is_user_hostmask (m_prefix m) = false /\ f_nick f = m_prefix m /\ f_user f = m_prefix m /\ f_host f = m_prefix m).
Proof.
  unfold finish. destruct (is_user_hostmask (m_prefix m)) eqn:E.
  - destruct (split_hostmask_total _ E) as [n [u [h [Hs [Hj _]]]]]. rewrite Hs. cbn [bind].
    intro H. inversion H; subst f. left. split; [reflexivity|exact Hj].
  - intro H. inversion H; subst f. right. auto.
Qed.

Lemma parse_full_total vt s :
  (exists f, parse_full vt s = Ok f) \/ parse_full vt s = Raise MalformedIrcMsg.
Proof.
  unfold parse_full. destruct (parse_total vt s) as [[m Hm]|Hm]; rewrite Hm; cbn [bind].
  - left. destruct (finish_total m) as [f [Hf _]]. eauto.
  - right. reflexivity.
Qed.

Lemma parse_full_exn_classes vt s e : parse_full vt s = Raise e -> e = MalformedIrcMsg.
Proof.
  intro H. destruct (parse_full_total vt s) as [[f Hf]|Hf]; rewrite Hf in H; inversion H; reflexivity.
Qed.

(* the line whose prefix used to raise ValueError out of IrcMsg.__init__: ":a!b@c!d PING" *)
Definition witness_hostmask_line : str := [58; 97; 33; 98; 64; 99; 33; 100; 32; 80; 73; 78; 71].
Lemma hostmask_line_parses vt :
  exists f, parse_full vt witness_hostmask_line = Ok f /\
            f_nick f = [97] /\ f_user f = [98] /\ f_host f = [99; 33; 100].
Proof. eexists. split; [vm_compute; reflexivity|]. repeat split. Qed.
