(* C05/Props.v — the property theorems, nothing else. *)
Require Import Base.Wire Base.PyStr C05.Model C05.Lemmas.

(* tag values survive escaping and unescaping unchanged, for every string *)
Theorem C05_tag_value_roundtrip : forall v, unescape (escape v) = v.
Proof. exact tag_value_roundtrip. Qed.
Print Assumptions C05_tag_value_roundtrip.
