(* C05/Props.v — the property theorems, nothing else.
   Model: C05/Model.v (mirrors src/ircmsgs.py).  Proofs: Lemmas.v, Roundtrip.v. *)
From Coq Require Import List NArith.
Import ListNotations.
Require Import Base.Wire Base.PyStr C05.Model C05.Lemmas C05.Roundtrip.

(* Tag values survive escaping and unescaping unchanged, for every string. *)
Theorem C05_tag_value_roundtrip : forall v, unescape (escape v) = v.
Proof. exact tag_value_roundtrip. Qed.
Print Assumptions C05_tag_value_roundtrip.

(* Serialising any well-formed message and parsing the line gives back the same
   tags (empty value = missing value, the IRCv3 rule), prefix, command and
   arguments.  [vt] is datetime.strptime succeeding: any function. *)
Theorem C05_parse_serialize :
  forall (vt : str -> bool) (m : msg), wf vt m = true -> parse vt (serialize m) = Ok (norm m).
Proof. exact parse_serialize. Qed.
Print Assumptions C05_parse_serialize.

(* Totality: whatever string the server sends, constructing the message either
   succeeds or raises MalformedIrcMsg; nothing else escapes.  (Until the repair
   of finding C05.F3 -- a `time` tag without value -- this held only on a domain;
   the except clause of IrcMsg.__init__ is regenerated into T05.PARSE_CATCHES.) *)
Theorem C05_parse_total :
  forall vt s, (exists m, parse vt s = Ok m) \/ parse vt s = Raise MalformedIrcMsg.
Proof. exact parse_total. Qed.
Print Assumptions C05_parse_total.

Theorem C05_parse_exn_classes : forall vt s e, parse vt s = Raise e -> e = MalformedIrcMsg.
Proof. exact parse_exn_classes. Qed.
Print Assumptions C05_parse_exn_classes.

(* non-vacuity / regression witness: the line of the repaired finding is rejected cleanly *)
Theorem C05_valueless_time_rejected :
  forall vt, time_valueless_line witness_typeerror = true /\ parse vt witness_typeerror = Raise MalformedIrcMsg.
Proof. exact valueless_time_rejected. Qed.
Print Assumptions C05_valueless_time_rejected.

(* Serialising is stable: whatever the cache state a message built from fields starts in (empty), every
   later str() returns the string the first one returned, which is serialize m -- tags included; so every
   serialisation of a well-formed message parses back to it, not only the first (the cache shape of
   IrcMsg.__str__ is pinned by the regenerated table T05). *)
Theorem C05_str_stable :
  forall m, let r1 := str_cached m None in let r2 := str_cached m (snd r1) in
  fst r1 = serialize m /\ fst r2 = serialize m /\ snd r2 = snd r1.
Proof. intro m. unfold str_cached. cbn. destruct gen.T05.STR_CACHES_RETURNED_STRING; cbn; auto. Qed.
Print Assumptions C05_str_stable.

Theorem C05_every_serialisation_parses_back :
  forall (vt : str -> bool) (m : msg) c, wf vt m = true ->
  (c = None \/ c = snd (str_cached m None)) -> parse vt (fst (str_cached m c)) = Ok (norm m).
Proof.
  intros vt m c Hwf [Hc|Hc]; subst c.
  - cbn. apply parse_serialize; exact Hwf.
  - unfold str_cached. destruct gen.T05.STR_CACHES_RETURNED_STRING; cbn; apply parse_serialize; exact Hwf.
Qed.
Print Assumptions C05_every_serialisation_parses_back.

(* Re-serialising a parsed line gives back that line (the parser only ever
   appends the missing final LF). *)
Theorem C05_reserialize :
  forall s, str_of_parsed s = s \/ (str_of_parsed s = s ++ [LF] /\ endswith1 LF s = false).
Proof. intro s. unfold str_of_parsed. destruct (endswith1 LF s); auto. Qed.
Print Assumptions C05_reserialize.
