(* C05/Props.v — the property theorems, nothing else.
   Model: C05/Model.v (mirrors src/ircmsgs.py).  Proofs: Lemmas.v, Roundtrip.v. *)
From Coq Require Import List NArith.
Import ListNotations.
Require Import Base.Wire Base.PyStr C05.Model C05.Lemmas C05.Roundtrip C05.Hostmask C05.ParseMsg.

(* Tag values survive escaping and unescaping unchanged, for every string. *)
Theorem C05_tag_value_roundtrip : forall v, unescape (escape v) = v.
Proof. exact tag_value_roundtrip. Qed.
Print Assumptions C05_tag_value_roundtrip.

(* Serialising any well-formed message and parsing the line gives back the same
   tags (empty value = missing value, the IRCv3 rule), prefix, command and
   arguments.  [vt] is datetime.strptime succeeding: any function. *)
Theorem C05_parse_serialize :
  forall (vt : str -> bool) (m : msg), wf vt m = true -> parse vt (serialize m) = Ok (norm m).
Proof. exact parse_serialize. Qed.
Print Assumptions C05_parse_serialize.

(* Totality: whatever string the server sends, constructing the message -- the parse inside the try AND the
   nick/user/host split of the prefix after it -- either succeeds or raises MalformedIrcMsg; nothing else
   escapes.  (Until the repair of finding C05.F3 -- a `time` tag without value -- and of C05.F30 -- a prefix
   such as a!b@c!d, which isUserHostmask accepts and the old splitHostmask could not split -- this held only
   on a domain; the except clause of IrcMsg.__init__ is regenerated into T05.PARSE_CATCHES, the split order of
   ircutils.splitHostmask into T05.SPLIT1/SPLIT2, re's \s into T05.WHITESPACE.) *)
Theorem C05_parse_total :
  forall vt s, (exists f, parse_full vt s = Ok f) \/ parse_full vt s = Raise MalformedIrcMsg.
Proof. exact parse_full_total. Qed.
Print Assumptions C05_parse_total.

Theorem C05_parse_exn_classes : forall vt s e, parse_full vt s = Raise e -> e = MalformedIrcMsg.
Proof. exact parse_full_exn_classes. Qed.
Print Assumptions C05_parse_exn_classes.

(* ircutils.splitHostmask answers on everything ircutils.isUserHostmask accepts, its pieces rejoin to the
   hostmask (joinHostmask is its inverse), the host holds no '@' and the user no '!'; on anything else it
   is the assert that fails. *)
Theorem C05_split_hostmask_total :
  forall s, is_user_hostmask s = true ->
  exists n u h, split_hostmask s = Ok (n, u, h) /\ s = n ++ BANG :: u ++ AT :: h /\
                mem AT h = false /\ mem BANG u = false.
Proof. exact split_hostmask_total. Qed.
Print Assumptions C05_split_hostmask_total.

Theorem C05_split_hostmask_rejects :
  forall s, is_user_hostmask s = false -> split_hostmask s = Raise AssertionError.
Proof. exact split_hostmask_rejects. Qed.
Print Assumptions C05_split_hostmask_rejects.

(* the fields of a parsed message: either the prefix is a user hostmask and nick!user@host is the prefix,
   or all three are the prefix *)
Theorem C05_nick_user_host :
  forall m f, finish m = Ok f ->
  (is_user_hostmask (m_prefix m) = true /\ m_prefix m = f_nick f ++ BANG :: f_user f ++ AT :: f_host f) \/
  (is_user_hostmask (m_prefix m) = false /\ f_nick f = m_prefix m /\ f_user f = m_prefix m /\ f_host f = m_prefix m).
Proof. exact finish_rejoin. Qed.
Print Assumptions C05_nick_user_host.

(* the repair changed no answer: wherever the split order of the pinned tree answered, the current one
   gives the same three pieces; and the pinned order did not always answer (witness a!b@c!d) *)
Theorem C05_split_extends_pinned : forall s r, split_hostmask_old s = Ok r -> split_hostmask s = Ok r.
Proof. exact split_extends_old. Qed.
Print Assumptions C05_split_extends_pinned.

Theorem C05_pinned_split_partial :
  is_user_hostmask witness_hostmask = true /\ split_hostmask_old witness_hostmask = Raise ValueError /\
  split_hostmask witness_hostmask = Ok ([97], [98], [99; 33; 100])%N.
Proof. exact old_split_partial. Qed.
Print Assumptions C05_pinned_split_partial.

Theorem C05_hostmask_line_parses :
  forall vt, exists f, parse_full vt witness_hostmask_line = Ok f /\
                       f_nick f = [97]%N /\ f_user f = [98]%N /\ f_host f = [99; 33; 100]%N.
Proof. exact hostmask_line_parses. Qed.
Print Assumptions C05_hostmask_line_parses.

(* non-vacuity / regression witness: the line of the repaired finding is rejected cleanly *)
Theorem C05_valueless_time_rejected :
  forall vt, time_valueless_line witness_typeerror = true /\ parse vt witness_typeerror = Raise MalformedIrcMsg.
Proof. exact valueless_time_rejected. Qed.
Print Assumptions C05_valueless_time_rejected.

(* Serialising is stable: whatever the cache state a message built from fields starts in (empty), every
   later str() returns the string the first one returned, which is serialize m -- tags included; so every
   serialisation of a well-formed message parses back to it, not only the first (the cache shape of
   IrcMsg.__str__ is pinned by the regenerated table T05). *)
Theorem C05_str_stable :
  forall m, let r1 := str_cached m None in let r2 := str_cached m (snd r1) in
  fst r1 = serialize m /\ fst r2 = serialize m /\ snd r2 = snd r1.
Proof. intro m. unfold str_cached. cbn. destruct gen.T05.STR_CACHES_RETURNED_STRING; cbn; auto. Qed.
Print Assumptions C05_str_stable.

Theorem C05_every_serialisation_parses_back :
  forall (vt : str -> bool) (m : msg) c, wf vt m = true ->
  (c = None \/ c = snd (str_cached m None)) -> parse vt (fst (str_cached m c)) = Ok (norm m).
Proof.
  intros vt m c Hwf [Hc|Hc]; subst c.
  - cbn. apply parse_serialize; exact Hwf.
  - unfold str_cached. destruct gen.T05.STR_CACHES_RETURNED_STRING; cbn; apply parse_serialize; exact Hwf.
Qed.
Print Assumptions C05_every_serialisation_parses_back.

(* Re-serialising a parsed line gives back that line (the parser only ever
   appends the missing final LF). *)
Theorem C05_reserialize :
  forall s, str_of_parsed s = s \/ (str_of_parsed s = s ++ [LF] /\ endswith1 LF s = false).
Proof. intro s. unfold str_of_parsed. destruct (endswith1 LF s); auto. Qed.
Print Assumptions C05_reserialize.

(* ---- the receive path: drivers.parseMsg = strip(), then IrcMsg ---- *)

(* the parser does not look at the terminator: a line without CR LF parses as the line with it *)
Theorem C05_parse_terminator :
  forall vt b, b <> [] -> endswith1 LF b = false -> parse vt b = parse vt (b ++ crlf).
Proof. exact parse_terminator. Qed.
Print Assumptions C05_parse_terminator.

(* totality on the receive path: None (blank line), a message, or MalformedIrcMsg *)
Theorem C05_parsemsg_total :
  forall vt s, (exists o, parse_msg vt s = Ok o) \/ parse_msg vt s = Raise MalformedIrcMsg.
Proof. exact parse_msg_total. Qed.
Print Assumptions C05_parsemsg_total.

(* the round trip on the receive path, for every well-formed message whose line loses nothing but its CR LF to
   strip() (no whitespace at the very end of the last argument -- or of the command when there is none -- and
   none at the very start) *)
Theorem C05_parsemsg_serialize_on_domain :
  forall vt m, wf vt m = true -> strips_only_crlf m = true ->
  exists f, parse_msg vt (serialize m) = Ok (Some f) /\ f_msg f = norm m.
Proof. exact parse_msg_serialize. Qed.
Print Assumptions C05_parsemsg_serialize_on_domain.

(* outside that domain it fails (finding C05.F32): PRIVMSG #c :"hi " round-trips through IrcMsg but is received
   by drivers.parseMsg as "hi" *)
Theorem C05_parsemsg_roundtrip_refuted :
  forall vt, wf vt witness_trailing_space = true /\ strips_only_crlf witness_trailing_space = false /\
  parse vt (serialize witness_trailing_space) = Ok (norm witness_trailing_space) /\
  exists f, parse_msg vt (serialize witness_trailing_space) = Ok (Some f) /\
            m_args (f_msg f) = [[35; 99]; [104; 105]]%N.
Proof. exact parse_msg_roundtrip_refuted. Qed.
Print Assumptions C05_parsemsg_roundtrip_refuted.
