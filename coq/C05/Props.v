(* C05/Props.v — the property theorems, nothing else.
   Model: C05/Model.v (mirrors src/ircmsgs.py).  Proofs: Lemmas.v, Roundtrip.v. *)
From Coq Require Import List NArith.
Import ListNotations.
Require Import Base.Wire Base.PyStr C05.Model C05.Lemmas C05.Roundtrip.

(* Tag values survive escaping and unescaping unchanged, for every string. *)
Theorem C05_tag_value_roundtrip : forall v, unescape (escape v) = v.
Proof. exact tag_value_roundtrip. Qed.
Print Assumptions C05_tag_value_roundtrip.

(* Serialising any well-formed message and parsing the line gives back the same
   tags (empty value = missing value, the IRCv3 rule), prefix, command and
   arguments.  [vt] is datetime.strptime succeeding: any function. *)
Theorem C05_parse_serialize :
  forall (vt : str -> bool) (m : msg), wf vt m = true -> parse vt (serialize m) = Ok (norm m).
Proof. exact parse_serialize. Qed.
Print Assumptions C05_parse_serialize.

(* Full statement of totality:  forall s, (exists m, parse vt s = Ok m) \/ parse vt s = Raise MalformedIrcMsg.
   The pinned code violates it (finding F3); proved: it holds on the decidable
   domain parse_dom, it fails on a witness outside, and nothing but that
   TypeError ever escapes. *)
Theorem C05_parse_total_on_domain :
  forall vt s, parse_dom s = true ->
  (exists m, parse vt s = Ok m) \/ parse vt s = Raise MalformedIrcMsg.
Proof. exact parse_total_on_domain. Qed.
Print Assumptions C05_parse_total_on_domain.

Theorem C05_parse_total_refuted :
  forall vt, exists s, parse_dom s = false /\ parse vt s = Raise TypeError.
Proof. intro vt. exists witness_typeerror. exact (parse_total_refuted vt). Qed.
Print Assumptions C05_parse_total_refuted.

Theorem C05_parse_exn_classes :
  forall vt s e, parse vt s = Raise e ->
  e = MalformedIrcMsg \/ (e = TypeError /\ parse_dom s = false).
Proof. exact parse_exn_classes. Qed.
Print Assumptions C05_parse_exn_classes.

(* Re-serialising a parsed line gives back that line (the parser only ever
   appends the missing final LF). *)
Theorem C05_reserialize :
  forall s, str_of_parsed s = s \/ (str_of_parsed s = s ++ [LF] /\ endswith1 LF s = false).
Proof. intro s. unfold str_of_parsed. destruct (endswith1 LF s); auto. Qed.
Print Assumptions C05_reserialize.
