(* C05/Model.v — executable model of src/ircmsgs.py: tag escaping, tag dict
   parsing/formatting, the string branch of IrcMsg.__init__ and __str__ of a
   keyword-built message.  Mirrors the Python statement by statement, with
   the exception each primitive can raise.  No proofs in this file. *)
From Coq Require Import List NArith ZArith Bool.
Import ListNotations.
Require Import Base.Wire Base.PyStr.
Require gen.T05.
Open Scope N_scope.

Definition SP : N := 32.   Definition COLON : N := 58.  Definition AT : N := 64.
Definition SEMI : N := 59. Definition EQ : N := 61.     Definition BSL : N := 92.
Definition CR : N := 13.   Definition LF : N := 10.

(* ---- escape_server_tag_value: MultipleReplacer over single-char keys ---- *)
Definition esc_table := list (N * str).

Fixpoint esc_lookup (t : esc_table) (c : N) : option str :=
  match t with
  | [] => None
  | (k, img) :: t' => if N.eqb c k then Some img else esc_lookup t' c
  end.

Definition escape_with (t : esc_table) (v : str) : str :=
  flat_map (fun c => match esc_lookup t c with Some img => img | None => [c] end) v.

(* _server_tag_unescape.get(seq): reverse lookup image -> key *)
Fixpoint unesc_lookup (t : esc_table) (seq : str) : option N :=
  match t with
  | [] => None
  | (k, img) :: t' =>
      (* dict built by comprehension: a later pair with the same image wins *)
      match unesc_lookup t' seq with
      | Some k' => Some k'
      | None => if seq_eqb seq img then Some k else None
      end
  end.

(* re.sub(r'\\.?', replacer): '.' does not match LF *)
Fixpoint unescape_with (t : esc_table) (s : str) : str :=
  match s with
  | [] => []
  | c :: s' =>
      if N.eqb c BSL then
        match s' with
        | d :: s'' =>
            if N.eqb d LF then
              (* lone backslash matched: looked up, else dropped *)
              match unesc_lookup t [BSL] with
              | Some k => k :: unescape_with t s'
              | None => unescape_with t s'
              end
            else
              match unesc_lookup t [BSL; d] with
              | Some k => k :: unescape_with t s''
              | None => d :: unescape_with t s''
              end
        | [] =>
            match unesc_lookup t [BSL] with Some k => [k] | None => [] end
        end
      else c :: unescape_with t s'
  end.

Definition escape := escape_with gen.T05.SERVER_TAG_ESCAPE.
Definition unescape := unescape_with gen.T05.SERVER_TAG_ESCAPE.

(* ---- _parse_server_tags / _format_server_tags ---- *)
Definition tags := list (str * option str).

Definition parse_tag (d : tags) (tag : str) : tags :=
  match split1 [EQ] tag with
  | None => dict_set tag None d
  | Some (key, value) =>
      let v := unescape value in
      dict_set key (match v with [] => None | _ => Some v end) d
  end.

Definition parse_server_tags (s : str) : tags :=
  fold_left parse_tag (split_char SEMI s) [].

Definition format_tag (kv : str * option str) : str :=
  match kv with
  | (k, None) => k
  | (k, Some v) => k ++ [EQ] ++ escape v
  end.

Definition format_server_tags (d : tags) : str :=
  AT :: join [SEMI] (map format_tag d).

(* ---- split_args ---- *)
Definition split_args (s : str) : list str := filter nonempty (split_char SP s).

(* ---- the message record ---- *)
Record msg := Msg { m_tags : tags; m_prefix : str; m_command : str; m_args : list str }.

Definition time_key : str := [116; 105; 109; 101].  (* "time" *)
Definition crlf : list N := [CR; LF].

(* IrcMsg.__init__(s) for a non-empty s.  [valid_time] stands for
   datetime.strptime(v, '%Y-%m-%dT%H:%M:%S.%fZ') succeeding. *)
Section Parse.
Variable valid_time : str -> bool.

Definition split_tags (s : str) : res (tags * str) :=
  match s with
  | c :: _ =>
      if N.eqb c AT then
        match split1 [SP] s with
        | Some (st, rest) => Ok (parse_server_tags (tl st), rest)
        | None => Raise ValueError        (* unpack of 1 value *)
        end
      else Ok ([], s)
  | [] => Raise IndexError
  end.

Definition parse_args (s : str) : list str :=
  match split1 [SP; COLON] s with
  | Some (a, last) => split_args a ++ [rstrip crlf last]
  | None => split_args (rstrip crlf s)
  end.

Definition parse_head (tg : tags) (args : list str) : res msg :=
  match args with
  | [] => Raise IndexError
  | a0 :: rest =>
      match a0 with
      | [] => Raise IndexError                     (* args[0][0] *)
      | c :: a0' =>
          do pa <- (if N.eqb c COLON then
                      match rest with
                      | [] => Raise IndexError     (* args.pop(0) on empty *)
                      | cmd :: rest' => Ok (a0', cmd, rest')
                      end
                    else Ok ([], a0, rest));
          let '(pfx, cmd, rest') := pa in
          match dict_get time_key tg with
          | None => Ok (Msg tg pfx cmd rest')
          | Some None => Raise TypeError           (* strptime(None, ...) *)
          | Some (Some v) =>
              if valid_time v then Ok (Msg tg pfx cmd rest') else Raise ValueError
          end
      end
  end.

Definition parse_inner (s0 : str) : res msg :=
  let s := if endswith1 LF s0 then s0 else s0 ++ [LF] in
  do ts <- split_tags s;
  parse_head (fst ts) (parse_args (snd ts)).

(* the except (IndexError, ValueError) wrapper; MalformedIrcMsg('') for s='' *)
Definition parse (s : str) : res msg :=
  match s with
  | [] => Raise MalformedIrcMsg
  | _ =>
      match parse_inner s with
      | Ok m => Ok m
      | Raise e =>
          if existsb (exn_eqb e) gen.T05.PARSE_CATCHES then Raise MalformedIrcMsg
          else Raise e
      end
  end.
End Parse.

(* ---- the tail of IrcMsg.__init__, outside the try: nick, user, host of the prefix ---- *)
Definition BANG : N := 33.
Definition ws (c : N) : bool := mem c gen.T05.WHITESPACE.            (* re \s on str *)

(* ircutils.isUserHostmask: userHostmaskRe.match(s), ^\S+!\S+@\S+$ ('$' also matches before a final LF) *)
Fixpoint index_of (c : N) (s : str) : option nat :=
  match s with
  | [] => None
  | x :: s' => if N.eqb x c then Some O else option_map S (index_of c s')
  end.
Definition strip_final_lf (s0 : str) : str :=
  match rev s0 with c :: r => if N.eqb c LF then rev r else s0 | [] => s0 end.
Definition is_user_hostmask (s0 : str) : bool :=
  let s := strip_final_lf s0 in
  forallb (fun c => negb (ws c)) s &&
  match s with
  | [] => false
  | _ :: t =>                                   (* \S+ : at least one character before the '!' *)
      match index_of BANG t with
      | None => false
      | Some k =>
          match skipn (S k) t with
          | [] => false
          | _ :: r' => mem AT (removelast r')    (* \S+ '@' \S+ *)
          end
      end
  end.

(* s.rsplit(c, 1) / s.split(c, 1) unpacked into two names: None = ValueError (one piece only) *)
Definition rsplit1c (c : N) (s : str) : option (str * str) :=
  match split1 [c] (rev s) with
  | Some (b, a) => Some (rev a, rev b)
  | None => None
  end.
Definition split_once (r : bool) (c : N) (s : str) : option (str * str) :=
  if r then rsplit1c c s else split1 [c] s.

(* ircutils.splitHostmask as the regenerated table describes it: the first (r)split cuts the hostmask in
   two, the second cuts the left or the right piece; the three pieces, left to right, are nick, user, host *)
Definition split_with (t1 : bool * N) (t2 : bool * N * bool) (s : str) : res (str * str * str) :=
  if negb (is_user_hostmask s) then Raise AssertionError else
  let '(r1, c1) := t1 in let '(r2, c2, onright) := t2 in
  match split_once r1 c1 s with
  | None => Raise ValueError
  | Some (a, b) =>
      if onright then match split_once r2 c2 b with
                    | None => Raise ValueError
                    | Some (u, h) => Ok (a, u, h)
                    end
      else match split_once r2 c2 a with
           | None => Raise ValueError
           | Some (n, u) => Ok (n, u, b)
           end
  end.
Definition split_hostmask := split_with gen.T05.SPLIT1 gen.T05.SPLIT2.
(* the order the pinned tree used: nick, rest = rsplit('!'); user, host = rest.rsplit('@') *)
Definition split_hostmask_old := split_with (true, BANG) (true, AT, true).

Record fmsg := FMsg { f_msg : msg; f_nick : str; f_user : str; f_host : str }.
Definition finish (m : msg) : res fmsg :=
  let p := m_prefix m in
  if is_user_hostmask p then
    do nuh <- split_hostmask p;
    let '(n, u, h) := nuh in Ok (FMsg m n u h)
  else Ok (FMsg m p p p).
(* IrcMsg(s) as a whole *)
Definition parse_full (valid_time : str -> bool) (s : str) : res fmsg :=
  do m <- parse valid_time s; finish m.

(* drivers.parseMsg(s): s = s.strip(); IrcMsg(s) if s else None -- the entry point of the receive path *)
Definition parse_msg (valid_time : str -> bool) (s : str) : res (option fmsg) :=
  match strip gen.T05.WHITESPACE s with
  | [] => Ok None
  | c :: s' => do f <- parse_full valid_time (c :: s'); Ok (Some f)
  end.

(* ---- __str__ of a message whose _str cache is empty ---- *)
Definition serialize_body (m : msg) : str :=
  let p := m_prefix m in let c := m_command m in
  let head := match p with [] => c | _ => COLON :: p ++ [SP] ++ c end in
  match rev (m_args m) with
  | [] => head ++ crlf
  | [a] => head ++ [SP; COLON] ++ a ++ crlf
  | lastarg :: revinit =>
      head ++ [SP] ++ join [SP] (rev revinit) ++ [SP; COLON] ++ lastarg ++ crlf
  end.

Definition serialize (m : msg) : str :=
  match m_tags m with
  | [] => serialize_body m
  | _ => format_server_tags (m_tags m) ++ [SP] ++ serialize_body m
  end.

(* ircutils.isValidArgument: non-empty... see ircutils.py:643 — kept in sync
   by the correspondence run: no CR, LF, NUL *)
Definition valid_arg (a : str) : bool :=
  negb (mem CR a) && negb (mem LF a) && negb (mem 0 a).

(* ---- wire ---- *)
Definition vTags (t : tags) : value :=
  L (map (fun kv => L [vS (fst kv); vO vS (snd kv)]) t).
Definition vMsg (m : msg) : value :=
  L [vTags (m_tags m); vS (m_prefix m); vS (m_command m); vLS (m_args m)].
Definition vFMsg (f : fmsg) : value :=
  let m := f_msg f in
  L [vTags (m_tags m); vS (m_prefix m); vS (m_command m); vLS (m_args m); vS (f_nick f); vS (f_user f); vS (f_host f)].
Definition vTriple (t : str * str * str) : value := let '(n, u, h) := t in L [vS n; vS u; vS h].
Definition gTags (v : value) : tags :=
  map (fun kv => (gS (nth_v 0 kv), gO gS (nth_v 1 kv))) (gL v).
Definition gMsg (v : value) : msg :=
  Msg (gTags (nth_v 0 v)) (gS (nth_v 1 v)) (gS (nth_v 2 v)) (gLS (nth_v 3 v)).

(* __str__ with its cache self._str (None = not computed yet): the cache is consulted first, and what is
   stored is the string that is returned (T05.STR_CACHES_RETURNED_STRING pins that shape of the source).
   op 4 of [run]: the strings returned by two successive str() calls on a keyword-built message *)
Definition str_cached (m : msg) (cache : option str) : str * option str :=
  match cache with
  | Some s => (s, cache)
  | None => let s := serialize m in
            (s, if gen.T05.STR_CACHES_RETURNED_STRING then Some s else None)
  end.

(* run: (op, payload).
   op 0: parse line -> (time tag lookup, result if time valid, result if not)
   op 1: serialize msg -> str
   op 2: escape str ; op 3: unescape str
   op 5: ircutils.isUserHostmask(s), ircutils.splitHostmask(s)
   op 6: drivers.parseMsg(line), as op 0 *)
Definition run (v : value) : value :=
  let payload := nth_v 1 v in
  match gN (nth_v 0 v) with
  | 0 =>
      let s := gS payload in
      L [vR vFMsg (parse_full (fun _ => true) s); vR vFMsg (parse_full (fun _ => false) s)]
  | 1 => vS (serialize (gMsg payload))
  | 2 => vS (escape (gS payload))
  | 3 => vS (unescape (gS payload))
  | 4 => let m := gMsg payload in
         let r1 := str_cached m None in
         let r2 := str_cached m (snd r1) in
         L [vS (fst r1); vS (fst r2)]
  | 5 => let s := gS payload in L [vB (is_user_hostmask s); vR vTriple (split_hostmask s)]
  | 6 => let s := gS payload in
         L [vR (vO vFMsg) (parse_msg (fun _ => true) s); vR (vO vFMsg) (parse_msg (fun _ => false) s)]
  | _ => L []
  end.

(* __str__ of a message built from a line: the cached self._str *)
Definition str_of_parsed (s0 : str) : str := if endswith1 LF s0 then s0 else s0 ++ [LF].
