(* C13/Lemmas.v — totality of the tokeniser model: the only exception that
   leaves callbacks.tokenize is SyntaxError. *)
From Coq Require Import List NArith ZArith Bool Lia ZifyBool Arith.
Import ListNotations.
Require Import Base.Wire Base.PyStr C13.Utf8 C13.Model.
Require gen.T13.
Open Scope N_scope.

(* ---- codecs raise only UnicodeError ---- *)
Lemma cons_res_raise {A} (x : A) r e : cons_res x r = Raise e -> r = Raise e.
Proof. destruct r; simpl; congruence. Qed.

Lemma enc1_raise c e : utf8_enc1 c = Raise e -> e = UnicodeError.
Proof.
  unfold utf8_enc1. repeat match goal with |- context [if ?b then _ else _] => destruct b end; congruence.
Qed.

Lemma utf8_encode_raise s e : utf8_encode s = Raise e -> e = UnicodeError.
Proof.
  induction s as [|c s IH]; cbn [utf8_encode]; [discriminate|].
  destruct (utf8_enc1 c) eqn:E; cbn [bind].
  - destruct (utf8_encode s) eqn:E2; cbn [bind]; [discriminate|]. intro H. apply IH. congruence.
  - intro H. apply (enc1_raise c). congruence.
Qed.

Ltac ued_tac IH :=
  repeat match goal with
  | H : cons_res _ _ = Raise _ |- _ => apply cons_res_raise in H
  | H : ued _ _ _ = Raise _ |- _ => apply IH in H; exact H
  | H : Raise _ = Raise _ |- _ => congruence
  | H : Ok _ = Raise _ |- _ => discriminate
  | H : context [match ?x with _ => _ end] |- _ => destruct x eqn:?
  end.

Lemma ued_raise named bs : forall st e, ued named st bs = Raise e -> e = UnicodeError.
Proof.
  induction bs as [|b r IH]; intros st e H.
  - destruct st; cbn [ued] in H; congruence.
  - destruct st; cbn [ued] in H; ued_tac IH.
Qed.

Lemma decode_quoted_raise named body e : decode_quoted named body = Raise e -> e = UnicodeError.
Proof.
  unfold decode_quoted, unicode_escape_decode. intro H.
  destruct (utf8_encode body) as [b|] eqn:E1; cbn [bind] in H.
  - destruct (ued named UN b) as [u|] eqn:E2; cbn [bind] in H.
    + destruct (negb (forallb is_ascii body)); [|discriminate].
      destruct (latin1_encode u) as [b'|]; [destruct (utf8_decode b')|]; discriminate.
    + apply (ued_raise named b UN). congruence.
  - apply (utf8_encode_raise body). congruence.
Qed.

Definition nonempty_tok (t : str) : Prop := t <> [].

Lemma handle_raise named t tok e :
  nonempty_tok tok -> handle_token named t tok = Raise e -> e = UnicodeError.
Proof.
  unfold handle_token. intros Hne H. destruct tok as [|c0 tl0]; [contradiction Hne; reflexivity|].
  destruct (_ && _); [|discriminate]. apply decode_quoted_raise in H. exact H.
Qed.

(* ---- the lexer: tokens are never empty, the stream ends with EOF or ValueError ---- *)
Lemma rev_nonnil {A} (l : list A) : l <> [] -> rev l <> [].
Proof. destruct l; [congruence|]. simpl. intros _ H. apply app_eq_nil in H as [_ H]. discriminate. Qed.

Lemma lex_err t s : forall st acc, snd (lex t st acc s) = None \/ snd (lex t st acc s) = Some ValueError.
Proof.
  induction s as [|c s IH]; intros st acc.
  - destruct st; cbn; auto.
  - destruct st; cbn [lex];
      repeat match goal with |- context [if ?b then _ else _] => destruct b end;
      unfold emit; cbn [snd]; apply IH.
Qed.

Lemma lex_nonempty t s : forall st acc, (st <> LSp -> acc <> []) ->
  Forall nonempty_tok (fst (lex t st acc s)).
Proof.
  induction s as [|c s IH]; intros st acc Hacc.
  - destruct st; cbn; constructor; [|constructor]. apply rev_nonnil. apply Hacc. discriminate.
  - assert (Hc : forall l, c :: l <> []) by (intros; discriminate).
    assert (Hsp : forall st', (st' <> LSp -> @nil N <> []) -> True) by trivial.
    destruct st; cbn [lex];
      repeat match goal with |- context [if ?b then _ else _] => destruct b end;
      unfold emit; cbn [fst];
      repeat (apply Forall_cons; [first [apply rev_nonnil; first [apply Hacc; discriminate | discriminate] | discriminate]|]);
      apply IH; intros; first [discriminate | contradiction | idtac];
      try (apply Hacc; discriminate).
    all: try (exfalso; auto; fail).
Qed.

(* ---- the parser ---- *)
Definition parse_exn (e : option exn) (x : exn) : Prop :=
  x = SyntaxError \/ x = UnicodeError \/ e = Some x.

Lemma inside_fuel named t e : forall f ts ret,
  (length ts < f)%nat -> Forall nonempty_tok ts ->
  match inside named t f ts e ret with
  | Ok (_, ts') => (length ts' < length ts)%nat /\ Forall nonempty_tok ts'
  | Raise x => parse_exn e x
  end.
Proof.
  induction f as [|f IH]; intros ts ret Hlen Hne; [inversion Hlen|].
  cbn [inside]. destruct ts as [|tok ts'].
  - destruct e; unfold parse_exn; auto.
  - inversion Hne as [|? ? Htok Hts']; subst. cbn [length] in *.
    destruct (is_right t tok). { split; [lia|exact Hts']. }
    destruct (is_left t tok).
    + pose proof (IH ts' [] ltac:(lia) Hts') as H1.
      destruct (inside named t f ts' e []) as [[sub ts'']|x]; [|exact H1].
      destruct H1 as [Hl Hn].
      pose proof (IH ts'' (Node sub :: ret) ltac:(lia) Hn) as H2.
      destruct (inside named t f ts'' e (Node sub :: ret)) as [[r2 ts3]|x]; [|exact H2].
      destruct H2 as [Hl2 Hn2]. split; [lia|exact Hn2].
    + destruct (handle_token named t tok) eqn:Eh.
      * pose proof (IH ts' (Leaf a :: ret) ltac:(lia) Hts') as H1.
        destruct (inside named t f ts' e (Leaf a :: ret)) as [[r2 ts3]|x]; [|exact H1].
        destruct H1 as [Hl Hn]. split; [lia|exact Hn].
      * apply handle_raise in Eh; [|exact Htok]. unfold parse_exn; auto.
Qed.

Lemma finish_exn args ends x : finish args ends = Raise x -> x = SyntaxError.
Proof. unfold finish. destruct ends; [discriminate|]. destruct args; congruence. Qed.

Lemma top_fuel named t e : forall f ts args ends,
  (length ts < f)%nat -> Forall nonempty_tok ts ->
  forall x, top named t f ts e args ends = Raise x -> parse_exn e x.
Proof.
  induction f as [|f IH]; intros ts args ends Hlen Hne x H; [inversion Hlen|].
  cbn [top] in H. destruct ts as [|tok ts'].
  - destruct e; [inversion H; subst; unfold parse_exn; auto|].
    apply finish_exn in H. unfold parse_exn; auto.
  - inversion Hne as [|? ? Htok Hts']; subst. cbn [length] in *.
    destruct (seq_eqb tok [T13.PIPE] && pipe t).
    { destruct args; [inversion H; unfold parse_exn; auto|]. eapply IH; [| |exact H]; [lia|exact Hts']. }
    destruct (is_left t tok).
    { pose proof (inside_fuel named t e f ts' [] ltac:(lia) Hts') as H1.
      destruct (inside named t f ts' e []) as [[sub ts'']|y].
      - destruct H1 as [Hl Hn]. eapply IH; [| |exact H]; [lia|exact Hn].
      - inversion H; subst. exact H1. }
    destruct (is_right t tok). { inversion H; unfold parse_exn; auto. }
    destruct (handle_token named t tok) eqn:Eh.
    + eapply IH; [| |exact H]; [lia|exact Hts'].
    + apply handle_raise in Eh; [|exact Htok]. inversion H; subst. unfold parse_exn; auto.
Qed.

(* the except clause of callbacks.tokenize (regenerated table) covers ValueError and its subclass *)
Lemma catches_ok : wrapper_catches ValueError = true /\ wrapper_catches UnicodeError = true.
Proof. split; vm_compute; reflexivity. Qed.

Theorem tokenizer_exn named t s x :
  tokenizer_tokenize named t s = Raise x -> x = SyntaxError \/ x = UnicodeError \/ x = ValueError.
Proof.
  unfold tokenizer_tokenize, lex_all. intro H.
  pose proof (lex_err t s LSp []) as He.
  pose proof (lex_nonempty t s LSp [] ltac:(congruence)) as Hn.
  destruct (lex t LSp [] s) as [ts e]. cbn [fst snd] in *.
  apply top_fuel in H; [|lia|exact Hn].
  destruct H as [H|[H|H]]; auto.
  destruct He as [He|He]; rewrite He in H; [discriminate|]. inversion H. auto.
Qed.

Theorem tokenize_total named c s :
  (exists tr, tokenize named c s = Ok tr) \/ tokenize named c s = Raise SyntaxError.
Proof.
  unfold tokenize. destruct (tokenizer_tokenize named (tk_of c) s) as [tr|x] eqn:E.
  - left. exists tr. reflexivity.
  - right. apply tokenizer_exn in E. destruct catches_ok as [Hv Hu].
    destruct E as [E|[E|E]]; subst x.
    + destruct (wrapper_catches SyntaxError); reflexivity.
    + rewrite Hu. reflexivity.
    + rewrite Hv. reflexivity.
Qed.

(* non-vacuity: all three outcomes occur (default configuration) *)
Definition cfg_default : cfg := Cfg true (Some (91, 93)) false [DQ].
Example total_examples named :
  tokenize named cfg_default [97; 32; 91; 98; 93] = Ok [Leaf [97]; Node [Leaf [98]]]
  /\ tokenize named cfg_default [DQ; 97] = Raise SyntaxError                 (* ValueError: No closing quotation *)
  /\ tokenize named cfg_default [DQ; 0xD800; DQ] = Raise SyntaxError         (* UnicodeEncodeError *)
  /\ tokenize named cfg_default [DQ; BSL; 120; 52; DQ] = Raise SyntaxError   (* UnicodeDecodeError: truncated \xXX *)
  /\ tokenize named cfg_default [93] = Raise SyntaxError.
Proof. repeat split; vm_compute; reflexivity. Qed.
