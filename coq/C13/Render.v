(* C13/Render.v — unquoted brackets produce exactly the corresponding nesting:
   the lexer half.  The text of any tree of bare words (words separated by one
   space, a node written  lb children rb) lexes to exactly the token stream
   toks of Brackets.v; together with brackets_tokens, tokenising the rendered
   text gives back the tree.  No depth bound. *)
From Coq Require Import List NArith ZArith Bool Lia ZifyBool Arith.
Import ListNotations.
Require Import Base.Wire Base.PyStr C13.Utf8 C13.Model C13.Lemmas C13.Roundtrip C13.Brackets C13.Nested.
Require gen.T13.
Open Scope N_scope.

Lemma emits_app a b r : emits (a ++ b) r = emits a (emits b r).
Proof. unfold emits. cbn [fst snd]. rewrite app_assoc. reflexivity. Qed.
Lemma emit_as_emits x r : emit x r = emits [x] r.
Proof. reflexivity. Qed.

Section Words.
Variable t : tk.

(* a character of a bare word: neither whitespace nor a separator of this configuration *)
Definition wordc (c : N) : bool := negb (is_ws c) && negb (mem c (seps t)).
Definition word (w : str) : bool := match w with [] => false | _ => forallb wordc w end.

Lemma lex_word_chars w : forall acc rest,
  forallb wordc w = true -> lex t LWord acc (w ++ rest) = lex t LWord (rev w ++ acc) rest.
Proof.
  induction w as [|c w IH]; intros acc rest H; [reflexivity|].
  cbn [forallb] in H. apply andb_true_iff in H as [Hc Hw]. unfold wordc in Hc.
  apply andb_true_iff in Hc as [H1 H2]. apply negb_true_iff in H1.
  cbn [app lex]. rewrite H1, H2. cbn [orb]. rewrite IH by exact Hw.
  cbn [rev]. rewrite <- app_assoc. reflexivity.
Qed.

(* what may follow a word *)
Definition tail_ok (rb : option N) (rest : str) : Prop :=
  rest = [] \/ (exists r, rest = SP :: r) \/ (exists c r, rb = Some c /\ rest = c :: r).

Lemma lex_word_start w rest :
  word w = true -> lex t LSp [] (w ++ rest) = lex t LWord (rev w) rest.
Proof.
  destruct w as [|c w]; [discriminate|]. cbn [word]. intro H.
  pose proof H as H'. cbn [forallb] in H'. apply andb_true_iff in H' as [Hc Hw]. unfold wordc in Hc.
  apply andb_true_iff in Hc as [H1 H2]. apply negb_true_iff in H1.
  cbn [app lex]. rewrite H1, H2. rewrite lex_word_chars by exact Hw.
  cbn [rev]. reflexivity.
Qed.

Lemma lex_word_eof w : word w = true -> lex t LSp [] w = ([w], None).
Proof.
  intro H. rewrite <- (app_nil_r w) at 1. rewrite lex_word_start by exact H.
  cbn [lex]. rewrite rev_involutive. reflexivity.
Qed.

Lemma lex_word_sp w r : word w = true -> lex t LSp [] (w ++ SP :: r) = emit w (lex t LSp [] r).
Proof.
  intro H. rewrite lex_word_start by exact H. destruct ws_facts as [_ Hs].
  cbn [lex]. rewrite Hs. rewrite rev_involutive. reflexivity.
Qed.

Lemma lex_sp r : lex t LSp [] (SP :: r) = lex t LSp [] r.
Proof. destruct ws_facts as [_ Hs]. cbn [lex]. rewrite Hs. reflexivity. Qed.

(* word tokens at the top level when there is nothing to nest: literal brackets *)
Lemma word_not_quote c w : word (c :: w) = true -> mem c (quotes t) = false.
Proof.
  cbn [word forallb]. intro H. apply andb_true_iff in H as [Hc _]. unfold wordc in Hc.
  apply andb_true_iff in Hc as [_ H2]. apply negb_true_iff in H2.
  unfold seps in H2. rewrite !mem_app in H2. apply orb_false_iff in H2 as [_ H2].
  apply orb_false_iff in H2 as [_ H2]. apply orb_false_iff in H2 as [_ H2]. exact H2.
Qed.

Lemma word_not_sep1 w c : word w = true -> mem c (seps t) = true -> seq_eqb w [c] = false.
Proof.
  intros H Hc. destruct (seq_eqb w [c]) eqn:E; [|reflexivity]. apply seq_eqb_eq in E. subst w.
  cbn [word forallb] in H. rewrite andb_true_r in H. unfold wordc in H.
  apply andb_true_iff in H as [_ H2]. rewrite Hc in H2. discriminate.
Qed.

Lemma word_handle named w : word w = true -> handle_token named t w = Ok w.
Proof.
  intro H. destruct w as [|c w]; [discriminate|]. unfold handle_token.
  rewrite (word_not_quote c w H). rewrite andb_false_r. reflexivity.
Qed.

Lemma word_not_pipe w : word w = true -> seq_eqb w [T13.PIPE] && pipe t = false.
Proof.
  intro H. destruct (pipe t) eqn:Ep; [|apply andb_false_r]. rewrite andb_true_r.
  apply word_not_sep1; [exact H|]. unfold seps. rewrite Ep.
  apply mem_In. apply in_or_app; right. apply in_or_app; right. apply in_or_app; left. simpl; auto.
Qed.

End Words.

(* ---- with nesting disabled (no brackets configured) brackets are literal ---- *)
Section Flat.
Variable named : bytes -> option N.
Variable t : tk.
Hypothesis Hnone : brk t = None.

Lemma lex_words ws :
  Forall (fun w => word t w = true) ws -> lex_all t (join [SP] ws) = (ws, None).
Proof.
  unfold lex_all. induction ws as [|w ws IH]; intro H; [reflexivity|].
  inversion H as [|? ? Hw Hr]; subst. specialize (IH Hr). destruct ws as [|v ws'].
  - cbn [join]. apply lex_word_eof. exact Hw.
  - change (join [SP] (w :: v :: ws')) with (w ++ SP :: join [SP] (v :: ws')).
    rewrite lex_word_sp by exact Hw. rewrite IH. reflexivity.
Qed.

Lemma top_words ws : forall f acc,
  Forall (fun w => word t w = true) ws -> (length ws < f)%nat ->
  top named t f ws None acc [] = Ok (rev acc ++ map Leaf ws).
Proof.
  induction ws as [|w ws IH]; intros f acc H Hf.
  - destruct f; [inversion Hf|]. cbn [map top finish]. rewrite app_nil_r. reflexivity.
  - destruct f; [inversion Hf|]. inversion H as [|? ? Hw Hr]; subst. cbn [top].
    rewrite (word_not_pipe t w Hw). unfold is_left, is_right. rewrite Hnone.
    rewrite (word_handle t named w Hw).
    rewrite IH; [|exact Hr|apply Nat.succ_lt_mono; exact Hf]. cbn [map rev]. rewrite <- app_assoc. reflexivity.
Qed.

Theorem flat_words ws :
  Forall (fun w => word t w = true) ws ->
  tokenizer_tokenize named t (join [SP] ws) = Ok (map Leaf ws).
Proof.
  intro H. unfold tokenizer_tokenize. rewrite (lex_words ws H).
  rewrite top_words; [reflexivity|exact H|apply Nat.lt_succ_diag_r].
Qed.
End Flat.

(* ---- rendering a tree with brackets ---- *)
Section Render.
Variable named : bytes -> option N.
Variable t : tk.
Variables lb rb : N.
Hypothesis Hbrk : brk t = Some (lb, rb).
Hypothesis Hwl : is_ws lb = false.
Hypothesis Hwr : is_ws rb = false.
Hypothesis Hql : mem lb (quotes t) = false.
Hypothesis Hqr : mem rb (quotes t) = false.
Hypothesis Hlr : lb =? rb = false.
Hypothesis Hlp : lb =? T13.PIPE = false.

Fixpoint render (x : tree) : str :=
  match x with
  | Leaf w => w
  | Node l => lb :: join [SP] (map render l) ++ [rb]
  end.
Definition render_top (l : list tree) : str := join [SP] (map render l).

(* every leaf is a bare word of this configuration *)
Fixpoint wfc (x : tree) : bool :=
  match x with Leaf w => word t w | Node l => forallb wfc l end.

Lemma seps_lr : mem lb (seps t) = true /\ mem rb (seps t) = true.
Proof.
  unfold seps, brk_chars. rewrite Hbrk.
  split; apply mem_In; apply in_or_app; right; apply in_or_app; left; simpl; auto.
Qed.

Lemma lexl rest : lex t LSp [] (lb :: rest) = emit [lb] (lex t LSp [] rest).
Proof. destruct seps_lr as [Hs _]. cbn [lex]. rewrite Hwl, Hs, Hql. reflexivity. Qed.
Lemma lexr rest : lex t LSp [] (rb :: rest) = emit [rb] (lex t LSp [] rest).
Proof. destruct seps_lr as [_ Hs]. cbn [lex]. rewrite Hwr, Hs, Hqr. reflexivity. Qed.

Lemma lex_word_rb w r : word t w = true -> lex t LSp [] (w ++ rb :: r) = emit w (lex t LSp [] (rb :: r)).
Proof.
  intro H. rewrite lex_word_start by exact H. destruct seps_lr as [_ Hs].
  cbn [lex]. rewrite Hwr, Hs, Hqr. cbn [negb orb]. rewrite rev_involutive.
  reflexivity.
Qed.

Lemma lex_word_tail w rest :
  word t w = true -> tail_ok (Some rb) rest -> lex t LSp [] (w ++ rest) = emit w (lex t LSp [] rest).
Proof.
  intros H [E|[[r E]|[c [r [Ec E]]]]]; subst rest.
  - rewrite app_nil_r. rewrite lex_word_eof by exact H. reflexivity.
  - rewrite lex_word_sp by exact H. rewrite lex_sp. reflexivity.
  - inversion Ec; subst c. apply lex_word_rb. exact H.
Qed.

Definition PL (x : tree) : Prop :=
  wfc x = true -> forall rest, tail_ok (Some rb) rest ->
  lex t LSp [] (render x ++ rest) = emits (toks lb rb x) (lex t LSp [] rest).

Lemma lex_children l : Forall PL l -> forallb wfc l = true ->
  forall rest, tail_ok (Some rb) rest ->
  lex t LSp [] (join [SP] (map render l) ++ rest) = emits (flat_map (toks lb rb) l) (lex t LSp [] rest).
Proof.
  induction l as [|x l IH]; intros HP Hwf rest Ht.
  - cbn [map join flat_map app]. rewrite emits_nil. reflexivity.
  - inversion HP as [|? ? Px Pl]; subst. cbn [forallb] in Hwf. apply andb_true_iff in Hwf as [Wx Wl].
    cbn [flat_map]. rewrite emits_app. destruct l as [|y l'].
    + cbn [map join flat_map]. rewrite emits_nil. apply Px; assumption.
    + change (join [SP] (map render (x :: y :: l'))) with (render x ++ [SP] ++ join [SP] (map render (y :: l'))).
      rewrite <- !app_assoc. cbn [app].
      rewrite (Px Wx) by (right; left; eexists; reflexivity).
      rewrite lex_sp. rewrite (IH Pl Wl rest Ht). reflexivity.
Qed.

Lemma PL_all x : PL x.
Proof.
  induction x as [w|l IH] using tree_ind'; intros Hwf rest Ht.
  - cbn [render toks]. cbn [wfc] in Hwf. rewrite lex_word_tail by assumption. reflexivity.
  - cbn [render toks wfc] in *. cbn [app]. rewrite <- app_assoc. cbn [app]. rewrite lexl.
    rewrite (lex_children l IH Hwf) by (right; right; exists rb; eexists; split; reflexivity).
    rewrite lexr. rewrite emit_as_emits. rewrite (emit_as_emits [rb]).
    rewrite <- !emits_app. reflexivity.
Qed.

Lemma lex_render l : forallb wfc l = true -> lex_all t (render_top l) = (flat_map (toks lb rb) l, None).
Proof.
  intro Hwf. unfold lex_all, render_top. rewrite <- (app_nil_r (join [SP] (map render l))).
  rewrite lex_children; [|apply Forall_forall; intros; apply PL_all|exact Hwf|left; reflexivity].
  cbn [lex]. unfold emits. cbn [fst snd]. rewrite app_nil_r. reflexivity.
Qed.

(* a bare word (characters) is a bare token (Brackets.v) *)
Lemma word_bare w : word t w = true -> bare_tok t lb rb w = true.
Proof.
  intro H. destruct seps_lr as [Sl Sr]. unfold bare_tok.
  rewrite (word_not_sep1 t w lb H Sl), (word_not_sep1 t w rb H Sr), (word_not_pipe t w H). cbn [negb andb].
  destruct w as [|c w']; [discriminate|]. rewrite (word_not_quote t c w' H). reflexivity.
Qed.

Lemma wfc_wf x : wfc x = true -> wf t lb rb x = true.
Proof.
  induction x as [w|l IH] using tree_ind'; cbn [wfc wf]; intro H; [apply word_bare; exact H|].
  induction l as [|y l IHl]; [reflexivity|]. cbn [forallb] in *.
  apply andb_true_iff in H as [Hy Hl]. inversion IH as [|? ? Py Pl]; subst.
  rewrite (Py Hy), (IHl Pl Hl). reflexivity.
Qed.

Theorem tokenizer_render l :
  forallb wfc l = true -> tokenizer_tokenize named t (render_top l) = Ok l.
Proof.
  intro Hwf. unfold tokenizer_tokenize. rewrite (lex_render l Hwf).
  apply (brackets_tokens named t lb rb l Hbrk Hlr Hlp).
  clear -Hwf Hbrk Hwl Hwr Hql Hqr. induction l as [|x l IH]; [reflexivity|]. cbn [forallb] in *.
  apply andb_true_iff in Hwf as [Hx Hl]. rewrite (wfc_wf x Hx), (IH Hl). reflexivity.
Qed.

(* ---- unbalanced brackets give SyntaxError, not a tree ---- *)
Lemma wfc_wf_list l : forallb wfc l = true -> forallb (wf t lb rb) l = true.
Proof.
  induction l as [|x l IH]; [reflexivity|]. cbn [forallb]. intro H.
  apply andb_true_iff in H as [Hx Hl]. rewrite (wfc_wf x Hx), (IH Hl). reflexivity.
Qed.

(* pre, then an opening bracket that is never closed *)
Definition text_unclosed (pre l : list tree) : str :=
  render_top pre ++ SP :: lb :: SP :: render_top l.
(* pre, then a closing bracket that closes nothing, then anything *)
Definition text_spurious (pre : list tree) (rest : str) : str :=
  render_top pre ++ SP :: rb :: rest.

Theorem tokenizer_unclosed pre l :
  forallb wfc pre = true -> forallb wfc l = true ->
  tokenizer_tokenize named t (text_unclosed pre l) = Raise SyntaxError.
Proof.
  intros Wp Wl. unfold tokenizer_tokenize, text_unclosed, lex_all.
  unfold render_top at 1.
  rewrite lex_children; [|apply Forall_forall; intros; apply PL_all|exact Wp|right; left; eexists; reflexivity].
  rewrite lex_sp, lexl, lex_sp. fold (lex_all t (render_top l)). rewrite (lex_render l Wl).
  unfold emits, emit. cbn [fst snd].
  apply (top_unclosed named t lb rb Hbrk Hlr Hlp); [apply wfc_wf_list; exact Wp|apply wfc_wf_list; exact Wl|].
  apply Nat.lt_succ_diag_r.
Qed.

Theorem tokenizer_spurious pre rest :
  rb =? T13.PIPE = false -> forallb wfc pre = true ->
  tokenizer_tokenize named t (text_spurious pre rest) = Raise SyntaxError.
Proof.
  intros Hrp Wp. unfold tokenizer_tokenize, text_spurious, lex_all.
  unfold render_top.
  rewrite lex_children; [|apply Forall_forall; intros; apply PL_all|exact Wp|right; left; eexists; reflexivity].
  rewrite lex_sp, lexr. destruct (lex t LSp [] rest) as [ts e]. unfold emits, emit. cbn [fst snd].
  apply (top_spurious named t lb rb Hbrk Hlr Hlp); [exact Hrp|apply wfc_wf_list; exact Wp|].
  apply Nat.lt_succ_diag_r.
Qed.

End Render.

Theorem brackets_render named (c : cfg) lb rb (l : list tree) :
  c_nested c = true -> c_brackets c = Some (lb, rb) ->
  is_ws lb = false -> is_ws rb = false ->
  mem lb (c_quotes c) = false -> mem rb (c_quotes c) = false ->
  lb =? rb = false -> lb =? T13.PIPE = false ->
  forallb (wfc (tk_of c) ) l = true ->
  tokenize named c (render_top lb rb l) = Ok l.
Proof.
  intros Hn Hb H1 H2 H3 H4 H5 H6 Hwf. unfold tokenize.
  assert (E : tk_of c = Tk (c_brackets c) (c_pipe c) (c_quotes c)) by (unfold tk_of; rewrite Hn; reflexivity).
  rewrite E in *.
  rewrite (tokenizer_render named (Tk (c_brackets c) (c_pipe c) (c_quotes c)) lb rb); try assumption; reflexivity.
Qed.

Theorem brackets_unbalanced named (c : cfg) lb rb (pre l : list tree) (rest : str) :
  c_nested c = true -> c_brackets c = Some (lb, rb) ->
  is_ws lb = false -> is_ws rb = false ->
  mem lb (c_quotes c) = false -> mem rb (c_quotes c) = false ->
  lb =? rb = false -> lb =? T13.PIPE = false -> rb =? T13.PIPE = false ->
  forallb (wfc (tk_of c)) pre = true -> forallb (wfc (tk_of c)) l = true ->
  tokenize named c (text_unclosed lb rb pre l) = Raise SyntaxError
  /\ tokenize named c (text_spurious lb rb pre rest) = Raise SyntaxError.
Proof.
  intros Hn Hb H1 H2 H3 H4 H5 H6 H7 Wp Wl. unfold tokenize.
  assert (E : tk_of c = Tk (c_brackets c) (c_pipe c) (c_quotes c)) by (unfold tk_of; rewrite Hn; reflexivity).
  rewrite E in *. split.
  - rewrite (tokenizer_unclosed named (Tk (c_brackets c) (c_pipe c) (c_quotes c)) lb rb); try assumption.
    destruct (wrapper_catches SyntaxError); reflexivity.
  - rewrite (tokenizer_spurious named (Tk (c_brackets c) (c_pipe c) (c_quotes c)) lb rb); try assumption.
    destruct (wrapper_catches SyntaxError); reflexivity.
Qed.

(* nesting switched off (supybot.commands.nested False, or brackets ''): brackets are ordinary word characters *)
Theorem brackets_literal named (c : cfg) (ws : list str) :
  c_nested c = false \/ c_brackets c = None ->
  Forall (fun w => word (tk_of c) w = true) ws ->
  tokenize named c (join [SP] ws) = Ok (map Leaf ws).
Proof.
  intros Hoff Hw. unfold tokenize. rewrite flat_words; [reflexivity| |exact Hw].
  unfold tk_of. destruct Hoff as [Hn|Hb]; [rewrite Hn; reflexivity|]. destruct (c_nested c); [exact Hb|reflexivity].
Qed.

Example render_example named :
  let c := Cfg true (Some (91, 93)) true [DQ] in
  let l := [Leaf [97]; Node [Node [Leaf [98; 0xE9]]; Leaf [99]; Node []]; Leaf [100]] in
  forallb (wfc (tk_of c)) l = true
  /\ render_top 91 93 l = [97; 32; 91; 91; 98; 0xE9; 93; 32; 99; 32; 91; 93; 93; 32; 100]
  /\ tokenize named c (render_top 91 93 l) = Ok l.
Proof. repeat split; vm_compute; reflexivity. Qed.

Example unbalanced_example named :
  let c := Cfg true (Some (91, 93)) false [DQ] in
  text_unclosed 91 93 [Leaf [97]] [Leaf [98]; Node [Leaf [99]]] = [97; 32; 91; 32; 98; 32; 91; 99; 93]
  /\ tokenize named c [97; 32; 91; 32; 98; 32; 91; 99; 93] = Raise SyntaxError
  /\ text_spurious 91 93 [Node [Leaf [97]]] [32; DQ] = [91; 97; 93; 32; 93; 32; DQ]
  /\ tokenize named c [91; 97; 93; 32; 93; 32; DQ] = Raise SyntaxError.
Proof. repeat split; vm_compute; reflexivity. Qed.

Example literal_example named :
  let c := Cfg false (Some (91, 93)) true [DQ] in
  Forall (fun w => word (tk_of c) w = true) [[91; 97; 93]; [124]; [91; 91]]
  /\ tokenize named c [91; 97; 93; 32; 124; 32; 91; 91] = Ok [Leaf [91; 97; 93]; Leaf [124]; Leaf [91; 91]].
Proof. split; [repeat constructor|vm_compute; reflexivity]. Qed.
