(* C13/Props.v — the property theorems, nothing else.
   Model: C13/Model.v (src/shlex.py, src/callbacks.py Tokenizer/tokenize, utils.str.dqrepr, CPython unicode_escape),
   C13/Utf8.v (strict UTF-8, Latin-1).  Proofs: Utf8.v, Lemmas.v, Roundtrip.v, Dqrepr.v, Brackets.v, Nested.v, Render.v, Lookup.v, Repeat.v, Domain.v.
   [named] is the unicodedata name table behind \N{...}: any function. *)
From Coq Require Import List NArith.
Import ListNotations.
Require Import Base.Wire Base.PyStr C13.Utf8 C13.Model C13.Lemmas C13.Roundtrip C13.Dqrepr C13.Brackets C13.Nested C13.Render C13.Lookup C13.Repeat C13.Domain.

(* Tokenising any text (any code points, lone surrogates included) under any
   configuration yields a tree of string tokens or SyntaxError, never another failure. *)
Theorem C13_total :
  forall named (c : cfg) (s : str),
  (exists tr, tokenize named c s = Ok tr) \/ tokenize named c s = Raise SyntaxError.
Proof. exact tokenize_total. Qed.
Print Assumptions C13_total.

(* Below the wrapper: Tokenizer.tokenize itself raises nothing but SyntaxError, ValueError
   ("No closing quotation") and UnicodeError (the codecs) — in particular never IndexError,
   and the fuel of the model's loops is never exhausted (OtherError). *)
Theorem C13_tokenizer_exceptions :
  forall named t s x, tokenizer_tokenize named t s = Raise x ->
  x = SyntaxError \/ x = UnicodeError \/ x = ValueError.
Proof. exact tokenizer_exn. Qed.
Print Assumptions C13_tokenizer_exceptions.

(* strict UTF-8: decoding what the encoder produced gives the string back *)
Theorem C13_utf8_roundtrip : forall s b, utf8_encode s = Ok b -> utf8_decode b = Ok s.
Proof. exact utf8_decode_encode. Qed.
Print Assumptions C13_utf8_roundtrip.

(* Any list of arguments (any Unicode scalar values: NUL, CR, LF, brackets, pipes,
   quotes, spaces, backslashes, non-ASCII), each written between double quotes with
   backslash and double quote escaped, tokenises back to exactly that list — for every
   bracket style, pipe setting and quote set containing the double quote. *)
Theorem C13_quote_roundtrip :
  forall named (c : cfg) (args : list str),
  mem DQ (c_quotes c) = true -> Forall (fun a => forallb scalar a = true) args ->
  tokenize named c (join [SP] (map minimal_quote args)) = Ok (map Leaf args).
Proof. exact quote_roundtrip. Qed.
Print Assumptions C13_quote_roundtrip.


(* utils.str.dqrepr is an exact inverse of the tokeniser (what Alias/Scheduler/Conditional-style
   re-serialisation needs): every list of argument strings over all code points a Python str can
   hold (<= U+10FFFF: NUL, CR, LF, controls, brackets, pipes, quotes, backslashes, Latin-1, lone
   surrogates, non-BMP), each written with dqrepr, tokenises back to exactly that list, one token
   per argument, under every configuration whose quote set contains the double quote.
   This is the full statement: finding C13.F15 (Latin-1 text that is valid UTF-8 was re-decoded)
   is repaired, so there is no domain restriction and no _refuted theorem any more. *)
Theorem C13_dqrepr_roundtrip :
  forall named (c : cfg) (args : list str),
  mem DQ (c_quotes c) = true -> Forall (fun a => forallb valid_cp a = true) args ->
  tokenize named c (join [SP] (map dqrepr args)) = Ok (map Leaf args).
Proof. exact dqrepr_roundtrip. Qed.
Print Assumptions C13_dqrepr_roundtrip.

(* Unquoted brackets produce exactly the corresponding nesting.  For every tree l of bare words,
   of any depth and width (wfc: every leaf is a non-empty word whose characters are neither whitespace
   nor separators of the configuration), the text render_top l (words and sub-commands separated by one
   space, a node written  lb children rb) tokenises to exactly l.  Holds for every configuration that can exist
   (cfg_valid: quote set over ValidQuotes' characters, bracket pair from ValidBrackets.validStrings -- regenerated
   tables; the lexical side conditions are derived from them in Domain.v), every pipe setting. *)
Theorem C13_brackets :
  forall named (c : cfg) lb rb,
  cfg_valid c = true -> c_nested c = true -> c_brackets c = Some (lb, rb) ->
  forall l : list tree, forallb (wfc (tk_of c)) l = true ->
  tokenize named c (render_top lb rb l) = Ok l.
Proof. exact brackets_valid_render. Qed.
Print Assumptions C13_brackets.

(* Unbalanced brackets give SyntaxError, not a tree: (1) text_unclosed = balanced trees pre, then an opening
   bracket followed by balanced trees l and the end of the text (Missing "]"); (2) text_spurious = balanced
   trees pre, then a closing bracket that closes nothing, followed by ANY text (Spurious "]"). *)
Theorem C13_brackets_unbalanced :
  forall named (c : cfg) lb rb,
  cfg_valid c = true -> c_nested c = true -> c_brackets c = Some (lb, rb) ->
  forall (pre l : list tree) (rest : str),
  forallb (wfc (tk_of c)) pre = true -> forallb (wfc (tk_of c)) l = true ->
  tokenize named c (text_unclosed lb rb pre l) = Raise SyntaxError
  /\ tokenize named c (text_spurious lb rb pre rest) = Raise SyntaxError.
Proof. exact brackets_valid_unbalanced. Qed.
Print Assumptions C13_brackets_unbalanced.

(* With nesting disabled (supybot.commands.nested off, or brackets set to the empty string) brackets are
   literal: any words -- which may now contain bracket characters -- come back as a flat list. *)
Theorem C13_brackets_literal :
  forall named (c : cfg) (ws : list str),
  c_nested c = false \/ c_brackets c = None ->
  Forall (fun w => word (tk_of c) w = true) ws ->
  tokenize named c (join [SP] ws) = Ok (map Leaf ws).
Proof. exact brackets_literal. Qed.
Print Assumptions C13_brackets_literal.

(* The quote round trip wherever the arguments are placed: n opening brackets, the
   minimally quoted arguments, n closing brackets (nested_mq) tokenise to the n-fold
   nesting of exactly those arguments — for every depth n, every bracket pair that is
   lexically a bracket (all of ValidBrackets.validStrings are: lemma valid_brackets_lex_ok),
   every pipe setting, every quote set containing the double quote and neither bracket,
   every list of scalar-value strings.  In particular a quoted argument that is exactly
   "]" or "[" (or "|", or a quote) inside a nested command stays a string. *)
Theorem C13_quote_roundtrip_nested :
  forall named (c : cfg) lb rb,
  cfg_valid c = true -> c_nested c = true -> c_brackets c = Some (lb, rb) ->
  forall (n : nat) (args : list str),
  mem DQ (c_quotes c) = true -> Forall (fun a => forallb scalar a = true) args ->
  tokenize named c (nested_mq lb rb n args) = Ok (nest n (map Leaf args)).
Proof. exact quote_valid_nested. Qed.
Print Assumptions C13_quote_roundtrip_nested.

(* The same with dqrepr (what a plugin re-serialising arguments into a nested command does): for all code points. *)
Theorem C13_dqrepr_roundtrip_nested :
  forall named (c : cfg) lb rb,
  cfg_valid c = true -> c_nested c = true -> c_brackets c = Some (lb, rb) ->
  forall (n : nat) (args : list str),
  mem DQ (c_quotes c) = true -> Forall (fun a => forallb valid_cp a = true) args ->
  tokenize named c (nested_dq lb rb n args) = Ok (nest n (map Leaf args)).
Proof. exact dqrepr_valid_nested. Qed.
Print Assumptions C13_dqrepr_roundtrip_nested.

(* Which configuration a message is tokenised with (callbacks.tokenize(s, channel, network) -> Value.getSpecific /
   conf.get, modelled by get_specific / conf_get / cfg_at): when the values set at the levels that apply to the
   message (its channel, its network, its channel on that network; a name that is not a channel name / not a
   connected network does not count) are all the same value v, that value is used; when none is set, the global one. *)
Theorem C13_lookup_unambiguous :
  forall (V : Type) (st : store V) (net chan : bool) (v : V),
  applicable st net chan <> [] -> (forall x, In x (applicable st net chan) -> x = v) ->
  get_specific st net chan = v /\ conf_get st chan net = v.
Proof. intros V st net chan v H1 H2. split; [apply lookup_unambiguous|apply conf_get_unambiguous]; assumption. Qed.
Print Assumptions C13_lookup_unambiguous.

Theorem C13_lookup_default :
  forall (V : Type) (st : store V) (net chan : bool),
  applicable st net chan = [] -> get_specific st net chan = s_base st /\ conf_get st chan net = s_base st.
Proof. intros V st net chan H. split; [apply lookup_default|apply conf_get_default]; exact H. Qed.
Print Assumptions C13_lookup_default.

(* "If this string is empty, nested commands will not be allowed in this channel": with brackets '' set for the
   channel (and no network-level value), any words -- brackets included -- sent in that channel stay a flat list. *)
Theorem C13_channel_without_nesting :
  forall named (k : conf) (l : loc) (ws : list str),
  loc_chan l = true -> s_chan (k_brackets k) = Some None ->
  s_net (k_brackets k) = None -> s_netchan (k_brackets k) = None ->
  Forall (fun w => word (tk_of (cfg_at k l)) w = true) ws ->
  tokenize_at named k l (join [SP] ws) = Ok (map Leaf ws).
Proof. exact channel_without_nesting. Qed.
Print Assumptions C13_channel_without_nesting.

(* Tokenising is a function of (configuration, text) only, also as objects go: in any session of tokenize calls
   interleaved with arbitrary in-place edits of the results handed out earlier (what Alias, Aka, Scheduler and
   Conditional do when they substitute $1/$* into the tree), every call observes exactly tokenize_at of its own
   configuration and text.  (session: every call allocates a fresh result object -- the shape pinned in t13 and
   exercised by the call-twice oracle; Example cached_is_not_pure: a variant that hands a remembered object out
   again does not satisfy this.) *)
Theorem C13_session_pure :
  forall named (h : list event) (st : objstore), session named st h = calls named h.
Proof. exact session_pure. Qed.
Print Assumptions C13_session_pure.

(* The domain on which the model is a faithful picture of shlex: in every configuration that can exist no quote
   character collides with shlex's state names 'a' and ' ' (shlex tests `self.state in self.quotes`) or is the
   backslash.  Outside cfg_valid the theorems above still hold of the MODEL but say nothing about the code
   (Tokenizer(quotes='a') behaves differently); conf rejects such values (checked live by the harness). *)
Theorem C13_model_domain :
  forall c : cfg, cfg_valid c = true ->
  mem 97 (c_quotes c) = false /\ mem 32 (c_quotes c) = false /\ mem BSL (c_quotes c) = false.
Proof. exact model_domain. Qed.
Print Assumptions C13_model_domain.
