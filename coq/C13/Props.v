(* C13/Props.v — the property theorems, nothing else.
   Model: C13/Model.v (src/shlex.py, src/callbacks.py Tokenizer/tokenize, utils.str.dqrepr, CPython unicode_escape),
   C13/Utf8.v (strict UTF-8, Latin-1).  Proofs: Utf8.v, Lemmas.v, Roundtrip.v, Dqrepr.v, Brackets.v, Nested.v.
   [named] is the unicodedata name table behind \N{...}: any function. *)
From Coq Require Import List NArith.
Import ListNotations.
Require Import Base.Wire Base.PyStr C13.Utf8 C13.Model C13.Lemmas C13.Roundtrip C13.Dqrepr C13.Brackets C13.Nested.

(* Tokenising any text (any code points, lone surrogates included) under any
   configuration yields a tree of string tokens or SyntaxError, never another failure. *)
Theorem C13_total :
  forall named (c : cfg) (s : str),
  (exists tr, tokenize named c s = Ok tr) \/ tokenize named c s = Raise SyntaxError.
Proof. exact tokenize_total. Qed.
Print Assumptions C13_total.

(* Below the wrapper: Tokenizer.tokenize itself raises nothing but SyntaxError, ValueError
   ("No closing quotation") and UnicodeError (the codecs) — in particular never IndexError,
   and the fuel of the model's loops is never exhausted (OtherError). *)
Theorem C13_tokenizer_exceptions :
  forall named t s x, tokenizer_tokenize named t s = Raise x ->
  x = SyntaxError \/ x = UnicodeError \/ x = ValueError.
Proof. exact tokenizer_exn. Qed.
Print Assumptions C13_tokenizer_exceptions.

(* strict UTF-8: decoding what the encoder produced gives the string back *)
Theorem C13_utf8_roundtrip : forall s b, utf8_encode s = Ok b -> utf8_decode b = Ok s.
Proof. exact utf8_decode_encode. Qed.
Print Assumptions C13_utf8_roundtrip.

(* Any list of arguments (any Unicode scalar values: NUL, CR, LF, brackets, pipes,
   quotes, spaces, backslashes, non-ASCII), each written between double quotes with
   backslash and double quote escaped, tokenises back to exactly that list — for every
   bracket style, pipe setting and quote set containing the double quote. *)
Theorem C13_quote_roundtrip :
  forall named (c : cfg) (args : list str),
  mem DQ (c_quotes c) = true -> Forall (fun a => forallb scalar a = true) args ->
  tokenize named c (join [SP] (map minimal_quote args)) = Ok (map Leaf args).
Proof. exact quote_roundtrip. Qed.
Print Assumptions C13_quote_roundtrip.

(* Full statement of the dqrepr law (what Alias/Scheduler/Conditional rely on):
     forall args, tokenize named c (join [SP] (map dqrepr args)) = Ok (map Leaf args).
   The pinned code violates it (finding F15): witness outside the domain dq_dom. *)
Theorem C13_dqrepr_roundtrip_refuted :
  forall named (c : cfg), mem DQ (c_quotes c) = true ->
  exists args, forallb dq_dom args = false /\
               tokenize named c (join [SP] (map dqrepr args)) <> Ok (map Leaf args).
Proof. exact dqrepr_roundtrip_refuted. Qed.
Print Assumptions C13_dqrepr_roundtrip_refuted.

(* PARTIAL.  The intended on-domain theorem is
     forall args, Forall (fun a => dq_dom a = true) args ->
       tokenize named c (join [SP] (map dqrepr args)) = Ok (map Leaf args)
   (dq_dom: the argument is ASCII, or has a code point >= 256, or is not valid UTF-8 when read as bytes).
   Proved here only on the sub-domain of printable-ASCII arguments (32..126), where
   dqrepr coincides with minimal quoting; the rest of dq_dom (control characters written
   \xHH, \t \n \r, and \uHHHH / \UHHHHHHHH escapes) is explored by the differential run only. *)
Theorem C13_dqrepr_roundtrip_on_domain_partial :
  forall named (c : cfg) (args : list str),
  mem DQ (c_quotes c) = true -> Forall (fun a => forallb printable a = true) args ->
  Forall (fun a => dq_dom a = true) args /\
  tokenize named c (join [SP] (map dqrepr args)) = Ok (map Leaf args).
Proof. exact dqrepr_roundtrip_printable. Qed.
Print Assumptions C13_dqrepr_roundtrip_on_domain_partial.

(* PARTIAL (token level).  Unquoted brackets produce exactly the corresponding nesting:
   for every tree l of bare words (no depth bound), the main loop of Tokenizer.tokenize run on
   the token stream  toks l  ('[' children ']' for a node, the word for a leaf) returns l.
   [wf] = every leaf is a bare token (not a bracket, not "|", not starting with a quote character).
   Not proved: that the lexer maps the rendered text to exactly  toks l  (Example brackets_example
   checks one instance; the harness checks it on generated trees against the implementation). *)
Theorem C13_brackets_tokens_partial :
  forall named t lb rb (l : list tree),
  brk t = Some (lb, rb) -> N.eqb lb rb = false -> N.eqb lb gen.T13.PIPE = false ->
  forallb (wf t lb rb) l = true ->
  top named t (S (length (flat_map (toks lb rb) l))) (flat_map (toks lb rb) l) None [] [] = Ok l.
Proof. exact brackets_tokens. Qed.
Print Assumptions C13_brackets_tokens_partial.

(* The quote round trip wherever the arguments are placed: n opening brackets, the
   minimally quoted arguments, n closing brackets (nested_text) tokenise to the n-fold
   nesting of exactly those arguments — for every depth n, every bracket pair that is
   lexically a bracket (all of ValidBrackets.validStrings are: lemma valid_brackets_lex_ok),
   every pipe setting, every quote set containing the double quote and neither bracket,
   every list of scalar-value strings.  In particular a quoted argument that is exactly
   "]" or "[" (or "|", or a quote) inside a nested command stays a string. *)
Theorem C13_quote_roundtrip_nested :
  forall named (c : cfg) lb rb (n : nat) (args : list str),
  c_nested c = true -> c_brackets c = Some (lb, rb) -> mem DQ (c_quotes c) = true ->
  is_ws lb = false -> is_ws rb = false ->
  mem lb (c_quotes c) = false -> mem rb (c_quotes c) = false ->
  N.eqb lb rb = false -> N.eqb lb gen.T13.PIPE = false ->
  Forall (fun a => forallb scalar a = true) args ->
  tokenize named c (nested_text lb rb n args) = Ok (nest n (map Leaf args)).
Proof. exact quote_roundtrip_nested. Qed.
Print Assumptions C13_quote_roundtrip_nested.
