(* C13/Dqrepr.v — the dqrepr round trip on a sub-domain: for printable-ASCII
   arguments utils.str.dqrepr coincides with minimal quoting, so the law follows
   from the minimal-quote theorem.  The full domain dq_dom (Model.v) is NOT
   proved here (it needs the \xHH/\uHHHH/\UHHHHHHHH decoder round trip); it is
   what the harness classifies failures with, and the differential run found no
   failing argument inside it. *)
From Coq Require Import List NArith ZArith Bool Lia ZifyBool.
Import ListNotations.
Require Import Base.Wire Base.PyStr C13.Utf8 C13.Model C13.Lemmas C13.Roundtrip.
Open Scope N_scope.

Definition printable (c : N) : bool := (32 <=? c) && (c <? 127).

Lemma esc_dq_app a b : esc_dq (a ++ b) = esc_dq a ++ esc_dq b.
Proof. unfold esc_dq. apply flat_map_app. Qed.

Lemma printable_enc c :
  printable c = true ->
  esc_dq (ue_enc1 c) = (if c =? BSL then [BSL; BSL] else if c =? DQ then [BSL; DQ] else [c]).
Proof.
  unfold printable, ue_enc1. intro H.
  replace (c <? 256) with true by lia. rewrite H.
  destruct (c =? BSL) eqn:Eb; [reflexivity|].
  unfold esc_dq. cbn [flat_map]. rewrite app_nil_r. reflexivity.
Qed.

Lemma dqrepr_printable a : forallb printable a = true -> dqrepr a = minimal_quote a.
Proof.
  intro H. unfold dqrepr, minimal_quote. f_equal. f_equal.
  induction a as [|c a IH]; [reflexivity|].
  cbn [forallb] in H. apply andb_true_iff in H as [Hc Ha].
  unfold unicode_escape_encode. cbn [flat_map]. rewrite esc_dq_app.
  fold (unicode_escape_encode a). rewrite (IH Ha). rewrite (printable_enc c Hc).
  rewrite mq_esc_cons. reflexivity.
Qed.

Lemma printable_scalar a : forallb printable a = true -> forallb scalar a = true.
Proof.
  induction a as [|c a IH]; [reflexivity|]. cbn [forallb]. intro H.
  apply andb_true_iff in H as [Hc Ha]. rewrite (IH Ha), andb_true_r.
  unfold printable in Hc. unfold scalar, is_surrogate. lia.
Qed.

Lemma printable_dom a : forallb printable a = true -> dq_dom a = true.
Proof.
  intro H. unfold dq_dom.
  assert (Ha : forallb is_ascii a = true).
  { induction a as [|c a IH]; [reflexivity|]. cbn [forallb] in *.
    apply andb_true_iff in H as [Hc Hr]. rewrite (IH Hr), andb_true_r.
    unfold printable in Hc. unfold is_ascii. lia. }
  rewrite Ha. reflexivity.
Qed.

Theorem dqrepr_roundtrip_printable named c args :
  mem DQ (c_quotes c) = true -> Forall (fun a => forallb printable a = true) args ->
  Forall (fun a => dq_dom a = true) args /\
  tokenize named c (join [SP] (map dqrepr args)) = Ok (map Leaf args).
Proof.
  intros Hq Hall. split.
  { eapply Forall_impl; [|exact Hall]. intros a Ha. apply printable_dom. exact Ha. }
  assert (E : map dqrepr args = map minimal_quote args).
  { apply map_ext_in. intros a Hin. rewrite Forall_forall in Hall. apply dqrepr_printable. apply Hall. exact Hin. }
  rewrite E. apply quote_roundtrip; [exact Hq|].
  eapply Forall_impl; [|exact Hall]. intros a Ha. apply printable_scalar. exact Ha.
Qed.

Example dqrepr_printable_example named :
  let args := [[91; 97; 93; 124]; [DQ; BSL; SP; 39]; []] in
  Forall (fun a => forallb printable a = true) args
  /\ tokenize named (Cfg true (Some (91, 93)) true [DQ; 39]) (join [SP] (map dqrepr args)) = Ok (map Leaf args).
Proof. split; [repeat constructor|vm_compute; reflexivity]. Qed.
