(* C13/Dqrepr.v — utils.str.dqrepr is an exact inverse of the tokeniser:
   every list of argument strings (any code points a Python str can hold: NUL,
   controls, brackets, pipes, quotes, backslashes, Latin-1, lone surrogates,
   non-BMP), each written with dqrepr, tokenises back to exactly that list.
   Holds for the code after the repair of finding C13.F15 (the model's
   decode_quoted only re-assembles UTF-8 when the token had non-ASCII text). *)
From Coq Require Import List NArith ZArith Bool Lia ZifyBool Arith.
Import ListNotations.
Require Import Base.Wire Base.PyStr C13.Utf8 C13.Model C13.Lemmas C13.Roundtrip.
Open Scope N_scope.

Definition valid_cp (c : N) : bool := c <=? MAX_UNICODE.

(* ---- hex digits ---- *)
Fixpoint pow16 (k : nat) : N := match k with O => 1 | S k' => 16 * pow16 k' end.

Lemma hexval_hexdig d : d < 16 -> hexval (hexdig d) = Some d.
Proof.
  intro H. unfold hexdig, hexval. destruct (d <? 10) eqn:E.
  - replace ((48 <=? 48 + d) && (48 + d <=? 57)) with true by lia. f_equal. lia.
  - replace ((48 <=? 87 + d) && (87 + d <=? 57)) with false by lia.
    replace ((97 <=? 87 + d) && (87 + d <=? 102)) with true by lia. f_equal. lia.
Qed.

Definition plain (x : N) : bool := negb (x =? BSL) && negb (x =? DQ) && (x <? 128).

Lemma hexdig_plain d : d < 16 -> plain (hexdig d) = true.
Proof. intro H. unfold plain, hexdig, BSL, DQ. destruct (d <? 10) eqn:E; lia. Qed.

Lemma hexn_plain k : forall n, forallb plain (hexn k n) = true.
Proof.
  induction k as [|k IH]; intro n; [reflexivity|]. cbn [hexn]. rewrite forallb_app, IH. cbn [forallb].
  rewrite hexdig_plain; [reflexivity|]. apply N.mod_lt. discriminate.
Qed.

Lemma div16_lt n p : n < 16 * p -> n / 16 < p.
Proof. intro H. apply N.div_lt_upper_bound; [discriminate|exact H]. Qed.

Lemma ued_hex_step named j v d rest :
  d < 16 ->
  ued named (UH (S (S j)) v) (hexdig d :: rest) = ued named (UH (S j) (v * 16 + d)) rest.
Proof. intro H. cbn [ued]. rewrite (hexval_hexdig d H). reflexivity. Qed.

Lemma ued_hex_last named v d rest :
  d < 16 ->
  ued named (UH 1 v) (hexdig d :: rest)
  = if MAX_UNICODE <? v * 16 + d then Raise UnicodeError else cons_res (v * 16 + d) (ued named UN rest).
Proof. intro H. cbn [ued]. rewrite (hexval_hexdig d H). reflexivity. Qed.

Lemma ued_hex named k : forall j v n rest,
  n < pow16 k ->
  ued named (UH (k + S j) v) (hexn k n ++ rest) = ued named (UH (S j) (v * pow16 k + n)) rest.
Proof.
  induction k as [|k IH]; intros j v n rest Hn.
  - cbn [pow16] in *. assert (n = 0) by lia. subst n. cbn [hexn app Nat.add].
    replace (v * 1 + 0) with v by lia. reflexivity.
  - cbn [pow16] in Hn. cbn [hexn]. rewrite <- app_assoc. cbn [app].
    replace (S k + S j)%nat with (k + S (S j))%nat by lia.
    rewrite IH by (apply div16_lt; exact Hn).
    rewrite ued_hex_step by (apply N.mod_lt; discriminate).
    f_equal. f_equal. cbn [pow16].
    pose proof (N.div_mod n 16 ltac:(discriminate)) as Hd.
    set (q := n / 16) in *. set (r := n mod 16) in *. clearbody q r. subst n.
    set (p := pow16 k). clearbody p. ring.
Qed.

(* k+1 hex digits of c decode to c *)
Lemma ued_hex_full named k c rest :
  c < pow16 (S k) -> valid_cp c = true ->
  ued named (UH (S k) 0) (hexn (S k) c ++ rest) = cons_res c (ued named UN rest).
Proof.
  intros Hc Hv. cbn [hexn]. rewrite <- app_assoc. cbn [app].
  replace (S k) with (k + 1)%nat at 1 by lia.
  rewrite ued_hex by (apply div16_lt; exact Hc).
  rewrite ued_hex_last by (apply N.mod_lt; discriminate).
  pose proof (N.div_mod c 16 ltac:(discriminate)) as Hd.
  replace ((0 * pow16 k + c / 16) * 16 + c mod 16) with c by lia.
  unfold valid_cp in Hv. replace (MAX_UNICODE <? c) with false by lia. reflexivity.
Qed.

(* ---- the shape of one escaped character ---- *)
Lemma esc_dq_app a b : esc_dq (a ++ b) = esc_dq a ++ esc_dq b.
Proof. unfold esc_dq. apply flat_map_app. Qed.

Lemma esc_dq_plain l : forallb plain l = true -> esc_dq l = l.
Proof.
  induction l as [|x l IH]; [reflexivity|]. cbn [forallb]. intro H.
  apply andb_true_iff in H as [Hx Hl]. unfold esc_dq. cbn [flat_map]. fold (esc_dq l). rewrite (IH Hl).
  unfold plain in Hx. replace (x =? DQ) with false by lia. reflexivity.
Qed.

Inductive shape (c : N) (ch : str) : Prop :=
| ShPlain : ch = [c] -> plain c = true -> shape c ch
| ShSimple x : ch = [BSL; x] -> bs_action x = ASimple c -> x <? 128 = true -> shape c ch
| ShHex x k : ch = BSL :: x :: hexn (S k) c -> bs_action x = AHex (S k) -> plain x = true ->
              c < pow16 (S k) -> shape c ch.

Lemma hex_chunk_esc x k c : plain x = true -> esc_dq (BSL :: x :: hexn (S k) c) = BSL :: x :: hexn (S k) c.
Proof.
  intro Hx. change (BSL :: x :: hexn (S k) c) with ([BSL] ++ (x :: hexn (S k) c)).
  rewrite esc_dq_app. rewrite (esc_dq_plain (x :: hexn (S k) c)); [reflexivity|].
  cbn [forallb]. rewrite Hx, hexn_plain. reflexivity.
Qed.

Lemma enc1_shape c : valid_cp c = true -> shape c (esc_dq (ue_enc1 c)).
Proof.
  intro Hv. unfold valid_cp, MAX_UNICODE in Hv. unfold ue_enc1.
  destruct (c <? 256) eqn:E256.
  - destruct ((32 <=? c) && (c <? 127)) eqn:Ep.
    + destruct (c =? BSL) eqn:Eb.
      * apply N.eqb_eq in Eb. subst c. apply (ShSimple _ _ BSL); reflexivity.
      * destruct (c =? DQ) eqn:Ed.
        -- apply N.eqb_eq in Ed. subst c. apply (ShSimple _ _ DQ); reflexivity.
        -- apply ShPlain.
           ++ unfold esc_dq. cbn [flat_map]. rewrite Ed. reflexivity.
           ++ unfold plain. rewrite Eb, Ed. cbn [negb andb]. lia.
    + destruct (c =? 9) eqn:E9; [apply N.eqb_eq in E9; subst c; apply (ShSimple _ _ 116); reflexivity|].
      destruct (c =? 10) eqn:E10; [apply N.eqb_eq in E10; subst c; apply (ShSimple _ _ 110); reflexivity|].
      destruct (c =? 13) eqn:E13; [apply N.eqb_eq in E13; subst c; apply (ShSimple _ _ 114); reflexivity|].
      apply (ShHex _ _ 120 1%nat); [apply hex_chunk_esc; reflexivity|reflexivity|reflexivity|].
      change (pow16 2) with 256. lia.
  - destruct (c <? 65536) eqn:E64.
    + apply (ShHex _ _ 117 3%nat); [apply hex_chunk_esc; reflexivity|reflexivity|reflexivity|].
      change (pow16 4) with 65536. lia.
    + apply (ShHex _ _ 85 7%nat); [apply hex_chunk_esc; reflexivity|reflexivity|reflexivity|].
      change (pow16 8) with 4294967296. lia.
Qed.

(* ---- consumers of the shape ---- *)
Lemma qb_plain l rest : forallb plain l = true -> qb_ok DQ false (l ++ rest) = qb_ok DQ false rest.
Proof.
  induction l as [|x l IH]; [reflexivity|]. cbn [forallb]. intro H.
  apply andb_true_iff in H as [Hx Hl]. cbn [app qb_ok]. unfold plain in Hx.
  replace (N.eqb x BSL) with false by lia. replace (N.eqb x DQ) with false by lia.
  cbn [negb andb]. apply IH. exact Hl.
Qed.

Lemma qb_escape x rest : qb_ok DQ false (BSL :: x :: rest) = qb_ok DQ false rest.
Proof.
  cbn [qb_ok]. change (N.eqb BSL BSL) with true. cbv iota. cbn [negb].
  destruct (N.eqb x BSL); [reflexivity|]. cbn [andb]. reflexivity.
Qed.

Lemma qb_shape c ch rest : shape c ch -> qb_ok DQ false (ch ++ rest) = qb_ok DQ false rest.
Proof.
  intros [E Hp | x E _ _ | x k E _ Hx _]; subst ch.
  - apply (qb_plain [c]). cbn [forallb]. rewrite Hp. reflexivity.
  - cbn [app]. apply qb_escape.
  - cbn [app]. rewrite qb_escape. apply qb_plain. apply hexn_plain.
Qed.

Lemma ued_shape named c ch rest :
  valid_cp c = true -> shape c ch -> ued named UN (ch ++ rest) = cons_res c (ued named UN rest).
Proof.
  intros Hv [E Hp | x E Ha _ | x k E Ha _ Hc]; subst ch.
  - cbn [app ued]. unfold plain in Hp. replace (c =? BSL) with false by lia. reflexivity.
  - cbn [app ued]. change (BSL =? BSL) with true. cbv iota. rewrite Ha. reflexivity.
  - cbn [app ued]. change (BSL =? BSL) with true. cbv iota. rewrite Ha.
    apply ued_hex_full; assumption.
Qed.

Lemma plain_ascii l : forallb plain l = true -> forallb is_ascii l = true.
Proof.
  induction l as [|x l IH]; [reflexivity|]. cbn [forallb]. intro H.
  apply andb_true_iff in H as [Hx Hl]. rewrite (IH Hl), andb_true_r. unfold plain in Hx. unfold is_ascii. lia.
Qed.

Lemma ascii_shape c ch : shape c ch -> forallb is_ascii ch = true.
Proof.
  intros [E Hp | x E _ Hx | x k E _ Hx _]; subst ch.
  - apply (plain_ascii [c]). cbn [forallb]. rewrite Hp. reflexivity.
  - cbn [forallb]. unfold is_ascii at 2. rewrite Hx. reflexivity.
  - cbn [forallb]. change (is_ascii BSL) with true. cbn [andb].
    apply (plain_ascii (x :: hexn (S k) c)). cbn [forallb]. rewrite Hx, hexn_plain. reflexivity.
Qed.

Definition dq_body (a : str) : str := esc_dq (unicode_escape_encode a).

Lemma dq_body_cons c a : dq_body (c :: a) = esc_dq (ue_enc1 c) ++ dq_body a.
Proof. unfold dq_body, unicode_escape_encode. cbn [flat_map]. apply esc_dq_app. Qed.

Lemma dq_body_facts (named : bytes -> option N) a :
  forallb valid_cp a = true ->
  qb_ok DQ false (dq_body a) = true /\ ued named UN (dq_body a) = Ok a /\ forallb is_ascii (dq_body a) = true.
Proof.
  induction a as [|c a IH]; intro H; [repeat split; reflexivity|].
  cbn [forallb] in H. apply andb_true_iff in H as [Hc Ha]. destruct (IH Ha) as [I1 [I2 I3]].
  pose proof (enc1_shape c Hc) as Sh. rewrite dq_body_cons. repeat split.
  - rewrite (qb_shape c _ _ Sh). exact I1.
  - rewrite (ued_shape named c _ _ Hc Sh). rewrite I2. reflexivity.
  - rewrite forallb_app, (ascii_shape c _ Sh), I3. reflexivity.
Qed.

(* ---- lexer, _handleToken and the main loop on dqrepr tokens ---- *)
Lemma dqrepr_eq a : dqrepr a = DQ :: dq_body a ++ [DQ].
Proof. reflexivity. Qed.

Lemma lex_dqrepr (named : bytes -> option N) t a rest :
  mem DQ (quotes t) = true -> forallb valid_cp a = true ->
  lex t LSp [] (dqrepr a ++ rest) = emit (dqrepr a) (lex t LSp [] rest).
Proof.
  intros Hq Ha. destruct (dq_body_facts named a Ha) as [Hqb _].
  rewrite dqrepr_eq. cbn [app]. rewrite lex_open_quote by exact Hq.
  rewrite <- app_assoc. cbn [app]. rewrite lex_quote_gen by (exact Hqb || reflexivity). reflexivity.
Qed.

Lemma handle_dqrepr named t a :
  mem DQ (quotes t) = true -> forallb valid_cp a = true ->
  handle_token named t (dqrepr a) = Ok a.
Proof.
  intros Hq Ha. destruct (dq_body_facts named a Ha) as [_ [Hu Hasc]].
  unfold handle_token. rewrite dqrepr_eq.
  change (DQ :: dq_body a ++ [DQ]) with ((DQ :: dq_body a) ++ [DQ]) at 1.
  rewrite last_snoc. rewrite N.eqb_refl, Hq. cbn [andb tl]. rewrite removelast_last.
  unfold decode_quoted, unicode_escape_decode. rewrite Hasc. cbn [negb].
  rewrite (ascii_encode _ Hasc). cbn [bind]. rewrite Hu. reflexivity.
Qed.

Lemma dqrepr_two a : exists y r, dqrepr a = DQ :: y :: r.
Proof.
  rewrite dqrepr_eq. destruct (dq_body a ++ [DQ]) as [|y r] eqn:E.
  - apply app_eq_nil in E as [_ E]. discriminate.
  - exists y, r. reflexivity.
Qed.

Lemma lex_join_dqrepr (named : bytes -> option N) t args :
  mem DQ (quotes t) = true -> Forall (fun a => forallb valid_cp a = true) args ->
  lex_all t (join [SP] (map dqrepr args)) = (map dqrepr args, None).
Proof.
  intros Hq Hall. unfold lex_all. induction args as [|a args IH]; [reflexivity|].
  inversion Hall as [|? ? Ha Hr]; subst. specialize (IH Hr).
  destruct args as [|b args'].
  - cbn [map join]. rewrite <- (app_nil_r (dqrepr a)) at 1.
    rewrite (lex_dqrepr named) by assumption. reflexivity.
  - change (join [SP] (map dqrepr (a :: b :: args')))
      with (dqrepr a ++ [SP] ++ join [SP] (map dqrepr (b :: args'))).
    rewrite (lex_dqrepr named) by assumption.
    cbn [app]. cbn [lex]. destruct ws_facts as [_ Hs]. rewrite Hs. rewrite IH. reflexivity.
Qed.

Lemma top_dqrepr named t args : forall f acc,
  mem DQ (quotes t) = true -> Forall (fun a => forallb valid_cp a = true) args ->
  (length args < f)%nat ->
  top named t f (map dqrepr args) None acc [] = Ok (rev acc ++ map Leaf args).
Proof.
  induction args as [|a args IH]; intros f acc Hq Hall Hf.
  - destruct f; [inversion Hf|]. cbn [map top finish]. rewrite app_nil_r. reflexivity.
  - destruct f; [inversion Hf|]. inversion Hall as [|? ? Ha Hr]; subst.
    cbn [map top]. destruct (dqrepr_two a) as [y [r E]].
    assert (Hp : seq_eqb (dqrepr a) [gen.T13.PIPE] = false) by (rewrite E; apply seq_eqb_two).
    assert (Hl : is_left t (dqrepr a) = false).
    { unfold is_left. destruct (brk t) as [[l r']|]; [|reflexivity]. rewrite E. apply seq_eqb_two. }
    assert (Hrt : is_right t (dqrepr a) = false).
    { unfold is_right. destruct (brk t) as [[l r']|]; [|reflexivity]. rewrite E. apply seq_eqb_two. }
    rewrite Hp, Hl, Hrt. cbn [andb].
    rewrite (handle_dqrepr named t a Hq Ha).
    rewrite IH; [|exact Hq|exact Hr|cbn [length] in Hf; apply Nat.succ_lt_mono; exact Hf].
    cbn [rev]. rewrite <- app_assoc. reflexivity.
Qed.

Theorem dqrepr_roundtrip named c args :
  mem DQ (c_quotes c) = true -> Forall (fun a => forallb valid_cp a = true) args ->
  tokenize named c (join [SP] (map dqrepr args)) = Ok (map Leaf args).
Proof.
  intros Hq Hall. unfold tokenize, tokenizer_tokenize.
  assert (Hq' : mem DQ (quotes (tk_of c)) = true) by (unfold tk_of; destruct (c_nested c); exact Hq).
  rewrite (lex_join_dqrepr named (tk_of c) args Hq' Hall).
  rewrite top_dqrepr; [reflexivity|exact Hq'|exact Hall|rewrite map_length; apply Nat.lt_succ_diag_r].
Qed.

(* non-vacuity: brackets, pipe, quotes, backslash, NUL/CR/LF/TAB, DEL, Latin-1 that is valid UTF-8 (the former
   C13.F15 witness), a lone surrogate, non-BMP, the empty string *)
Example dqrepr_roundtrip_example named :
  let args := [[91; 93; 124]; [DQ; BSL; SP; 39]; [0; 13; 10; 9; 127]; [0xC2; 0x80]; [0xC3; 0xA9]; [0xD800];
               [0x597D; 0x1F600; 0x10FFFF]; []] in
  Forall (fun a => forallb valid_cp a = true) args
  /\ tokenize named (Cfg true (Some (91, 93)) true [DQ; 39]) (join [SP] (map dqrepr args)) = Ok (map Leaf args).
Proof. split; [repeat constructor|vm_compute; reflexivity]. Qed.
