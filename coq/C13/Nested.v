(* C13/Nested.v — the minimal-quote round trip for argument lists placed inside
   a nested command: n opening brackets, the quoted arguments, n closing
   brackets tokenise to the n-fold nesting of exactly those arguments, for every
   n, every bracket pair and every list of scalar-value strings.  In particular
   a quoted argument that is exactly a bracket, pipe or quote character stays a
   string. *)
From Coq Require Import List NArith ZArith Bool Lia ZifyBool Arith.
Import ListNotations.
Require Import Base.Wire Base.PyStr C13.Utf8 C13.Model C13.Lemmas C13.Roundtrip C13.Dqrepr.
Require gen.T13.
Open Scope N_scope.

Definition emits (ts : list str) (r : list str * option exn) : list str * option exn :=
  (ts ++ fst r, snd r).

Lemma emits_nil r : emits [] r = r.
Proof. destruct r; reflexivity. Qed.
Lemma emit_emits x ts r : emit x (emits ts r) = emits (x :: ts) r.
Proof. reflexivity. Qed.

Fixpoint nest (n : nat) (l : list tree) : list tree :=
  match n with O => l | S m => [Node (nest m l)] end.

Lemma repeat_snoc {A} (x : A) n l : repeat x (S n) ++ l = repeat x n ++ x :: l.
Proof. induction n as [|n IH]; [reflexivity|]. cbn [repeat app] in *. f_equal. exact IH. Qed.

Lemma ltl_tail {A} (x : A) l f : (length (x :: l) < S f)%nat -> (length l < f)%nat.
Proof. cbn [length]. lia. Qed.
Lemma ltl_suffix {A} (a b : list A) f : (length (a ++ b) < f)%nat -> (length b < f)%nat.
Proof. rewrite app_length. lia. Qed.

Section Nested.
Variable named : bytes -> option N.
Variable t : tk.
Variables lb rb : N.
Hypothesis Hbrk : brk t = Some (lb, rb).
Hypothesis Hwl : is_ws lb = false.
Hypothesis Hwr : is_ws rb = false.
Hypothesis Hql : mem lb (quotes t) = false.
Hypothesis Hqr : mem rb (quotes t) = false.
Hypothesis Hlr : lb =? rb = false.
Hypothesis Hlp : lb =? T13.PIPE = false.
(* the quoting function (minimal_quote or dqrepr) and the arguments it is good for *)
Variable Qf : str -> str.
Variable good : str -> bool.
Hypothesis HlexQ : forall a rest, good a = true -> lex t LSp [] (Qf a ++ rest) = emit (Qf a) (lex t LSp [] rest).
Hypothesis HtwoQ : forall a, exists y r, Qf a = DQ :: y :: r.
Hypothesis HhandleQ : forall a, good a = true -> handle_token named t (Qf a) = Ok a.

(* ---- lexer ---- *)
Lemma seps_brackets : mem lb (seps t) = true /\ mem rb (seps t) = true.
Proof.
  unfold seps, brk_chars. rewrite Hbrk.
  split; apply mem_In; apply in_or_app; right; apply in_or_app; left; simpl; auto.
Qed.

Lemma lex_left rest : lex t LSp [] (lb :: rest) = emit [lb] (lex t LSp [] rest).
Proof. destruct seps_brackets as [Hs _]. cbn [lex]. rewrite Hwl, Hs, Hql. reflexivity. Qed.
Lemma lex_right rest : lex t LSp [] (rb :: rest) = emit [rb] (lex t LSp [] rest).
Proof. destruct seps_brackets as [_ Hs]. cbn [lex]. rewrite Hwr, Hs, Hqr. reflexivity. Qed.

Lemma lex_lefts n rest : lex t LSp [] (repeat lb n ++ rest) = emits (repeat [lb] n) (lex t LSp [] rest).
Proof.
  induction n as [|n IH]; [rewrite emits_nil; reflexivity|].
  cbn [repeat app]. rewrite lex_left, IH. reflexivity.
Qed.
Lemma lex_rights n : lex t LSp [] (repeat rb n) = (repeat [rb] n, None).
Proof.
  induction n as [|n IH]; [reflexivity|]. cbn [repeat]. rewrite lex_right, IH. reflexivity.
Qed.

Lemma lex_join_quoted_tail args tail :
  Forall (fun a => good a = true) args ->
  lex t LSp [] (join [SP] (map Qf args) ++ tail)
  = emits (map Qf args) (lex t LSp [] tail).
Proof.
  induction args as [|a args IH]; intro Hall; [rewrite emits_nil; reflexivity|].
  inversion Hall as [|? ? Ha Hr]; subst. specialize (IH Hr).
  destruct args as [|b args'].
  - cbn [map join]. rewrite HlexQ by exact Ha. reflexivity.
  - change (join [SP] (map Qf (a :: b :: args')))
      with (Qf a ++ [SP] ++ join [SP] (map Qf (b :: args'))).
    rewrite <- !app_assoc. rewrite HlexQ by exact Ha.
    cbn [app]. cbn [lex]. destruct ws_facts as [_ Hs]. rewrite Hs.
    rewrite IH. reflexivity.
Qed.

Definition nested_text (n : nat) (args : list str) : str :=
  repeat lb n ++ join [SP] (map Qf args) ++ repeat rb n.
Definition nested_toks (n : nat) (args : list str) : list str :=
  repeat [lb] n ++ map Qf args ++ repeat [rb] n.

Lemma lex_nested n args :
  Forall (fun a => good a = true) args -> lex_all t (nested_text n args) = (nested_toks n args, None).
Proof.
  intro Hall. unfold lex_all, nested_text, nested_toks. rewrite lex_lefts.
  rewrite lex_join_quoted_tail by exact Hall.
  rewrite lex_rights. unfold emits. cbn [fst snd]. reflexivity.
Qed.

(* ---- parser ---- *)
Lemma br_facts : is_left t [lb] = true /\ is_right t [lb] = false /\ is_right t [rb] = true.
Proof. unfold is_left, is_right. rewrite Hbrk. cbn [seq_eqb]. rewrite !N.eqb_refl, Hlr. auto. Qed.

Lemma quoted_not_bracket a :
  is_left t (Qf a) = false /\ is_right t (Qf a) = false
  /\ seq_eqb (Qf a) [T13.PIPE] = false.
Proof.
  destruct (HtwoQ a) as [y [r E]]. unfold is_left, is_right. rewrite Hbrk, E.
  rewrite !seq_eqb_two. auto.
Qed.

Lemma inside_quoted args : forall f rest e ret,
  Forall (fun a => good a = true) args ->
  (length (map Qf args ++ [rb] :: rest) < f)%nat ->
  inside named t f (map Qf args ++ [rb] :: rest) e ret = Ok (rev ret ++ map Leaf args, rest).
Proof.
  destruct br_facts as [_ [_ Hrr]].
  induction args as [|a args IH]; intros f rest e ret Hall Hf.
  - cbn [map app] in *. destruct f; [inversion Hf|]. cbn [inside]. rewrite Hrr, app_nil_r. reflexivity.
  - inversion Hall as [|? ? Ha Hr]; subst. cbn [map app] in *.
    destruct f; [inversion Hf|]. apply ltl_tail in Hf. cbn [inside].
    destruct (quoted_not_bracket a) as [Q1 [Q2 _]]. rewrite Q2, Q1.
    rewrite (HhandleQ a Ha).
    rewrite IH by assumption. cbn [rev]. rewrite <- app_assoc. reflexivity.
Qed.

Lemma inside_nested args n : forall f rest e,
  Forall (fun a => good a = true) args ->
  (length (repeat [lb] n ++ map Qf args ++ repeat [rb] n ++ [rb] :: rest) < f)%nat ->
  inside named t f (repeat [lb] n ++ map Qf args ++ repeat [rb] n ++ [rb] :: rest) e []
  = Ok (nest n (map Leaf args), rest).
Proof.
  destruct br_facts as [Hll [Hrl Hrr]].
  induction n as [|n IH]; intros f rest e Hall Hf.
  - cbn [repeat app nest] in *. rewrite inside_quoted by assumption. reflexivity.
  - rewrite (repeat_snoc [rb] n ([rb] :: rest)) in *. cbn [repeat app] in *.
    destruct f; [inversion Hf|]. apply ltl_tail in Hf. cbn [inside]. rewrite Hrl, Hll.
    rewrite IH by assumption.
    apply ltl_suffix in Hf. apply ltl_suffix in Hf. apply ltl_suffix in Hf.
    destruct f; [inversion Hf|]. cbn [inside]. rewrite Hrr. reflexivity.
Qed.

Lemma top_Q args : forall f acc,
  Forall (fun a => good a = true) args -> (length args < f)%nat ->
  top named t f (map Qf args) None acc [] = Ok (rev acc ++ map Leaf args).
Proof.
  induction args as [|a args IH]; intros f acc Hall Hf.
  - destruct f; [inversion Hf|]. cbn [map top finish]. rewrite app_nil_r. reflexivity.
  - destruct f; [inversion Hf|]. inversion Hall as [|? ? Ha Hr]; subst. cbn [map top].
    destruct (quoted_not_bracket a) as [Q1 [Q2 Q3]]. rewrite Q3, Q1, Q2. cbn [andb].
    rewrite (HhandleQ a Ha). rewrite IH; [|exact Hr|apply Nat.succ_lt_mono; exact Hf].
    cbn [rev]. rewrite <- app_assoc. reflexivity.
Qed.

Lemma top_nested args n :
  Forall (fun a => good a = true) args ->
  top named t (S (length (nested_toks n args))) (nested_toks n args) None [] []
  = Ok (nest n (map Leaf args)).
Proof.
  destruct br_facts as [Hll [Hrl Hrr]]. intro Hall. unfold nested_toks.
  destruct n as [|n].
  - cbn [repeat app nest]. rewrite app_nil_r.
    rewrite top_Q; [reflexivity|exact Hall|rewrite map_length; apply Nat.lt_succ_diag_r].
  - cbn [repeat app length]. cbn [top].
    assert (Hp : seq_eqb [lb] [T13.PIPE] = false) by (cbn [seq_eqb]; rewrite Hlp; reflexivity).
    rewrite Hp, Hll. cbn [andb].
    assert (E : repeat [lb] n ++ map Qf args ++ [rb] :: repeat [rb] n
                = repeat [lb] n ++ map Qf args ++ repeat [rb] n ++ [rb] :: []).
    { f_equal. f_equal. change ([rb] :: repeat [rb] n) with (repeat [rb] (S n)).
      rewrite <- (app_nil_r (repeat [rb] (S n))). rewrite repeat_snoc. reflexivity. }
    rewrite E. rewrite inside_nested; [|exact Hall|apply Nat.lt_succ_diag_r].
    cbn [finish rev app nest]. reflexivity.
Qed.

Theorem tokenizer_quote_roundtrip_nested n args :
  Forall (fun a => good a = true) args ->
  tokenizer_tokenize named t (nested_text n args) = Ok (nest n (map Leaf args)).
Proof.
  intro Hall. unfold tokenizer_tokenize. rewrite lex_nested by exact Hall. apply top_nested. exact Hall.
Qed.

End Nested.

(* every configurable bracket pair is lexically a bracket: not whitespace, not a
   possible quote character, two different characters, not the pipe *)
Lemma valid_brackets_lex_ok :
  forallb (fun b => match b with
                    | [l; r] => negb (is_ws l) && negb (is_ws r) && negb (mem l T13.VALID_QUOTE_CHARS)
                                && negb (mem r T13.VALID_QUOTE_CHARS) && negb (l =? r) && negb (l =? T13.PIPE)
                    | [] => true
                    | _ => false
                    end) T13.VALID_BRACKETS = true.
Proof. vm_compute. reflexivity. Qed.

Definition nested_mq lb rb := nested_text lb rb minimal_quote.
Definition nested_dq lb rb := nested_text lb rb dqrepr.

Theorem quote_roundtrip_nested named (c : cfg) lb rb n args :
  c_nested c = true -> c_brackets c = Some (lb, rb) -> mem DQ (c_quotes c) = true ->
  is_ws lb = false -> is_ws rb = false ->
  mem lb (c_quotes c) = false -> mem rb (c_quotes c) = false ->
  lb =? rb = false -> lb =? T13.PIPE = false ->
  Forall (fun a => forallb scalar a = true) args ->
  tokenize named c (nested_mq lb rb n args) = Ok (nest n (map Leaf args)).
Proof.
  intros Hn Hb Hq H1 H2 H3 H4 H5 H6 Hall. unfold tokenize, tk_of, nested_mq. rewrite Hn.
  rewrite (tokenizer_quote_roundtrip_nested named (Tk (c_brackets c) (c_pipe c) (c_quotes c)) lb rb Hb H1 H2 H3 H4 H5 H6
             minimal_quote (forallb scalar)); try assumption; try reflexivity.
  - intros a rest _. apply lex_minimal_quote. exact Hq.
  - apply minimal_quote_two.
  - intros a Ha. apply handle_minimal_quote; assumption.
Qed.

Theorem dqrepr_roundtrip_nested named (c : cfg) lb rb n args :
  c_nested c = true -> c_brackets c = Some (lb, rb) -> mem DQ (c_quotes c) = true ->
  is_ws lb = false -> is_ws rb = false ->
  mem lb (c_quotes c) = false -> mem rb (c_quotes c) = false ->
  lb =? rb = false -> lb =? T13.PIPE = false ->
  Forall (fun a => forallb valid_cp a = true) args ->
  tokenize named c (nested_dq lb rb n args) = Ok (nest n (map Leaf args)).
Proof.
  intros Hn Hb Hq H1 H2 H3 H4 H5 H6 Hall. unfold tokenize, tk_of, nested_dq. rewrite Hn.
  rewrite (tokenizer_quote_roundtrip_nested named (Tk (c_brackets c) (c_pipe c) (c_quotes c)) lb rb Hb H1 H2 H3 H4 H5 H6
             dqrepr (forallb valid_cp)); try assumption; try reflexivity.
  - intros a rest Ha. apply (lex_dqrepr named); assumption.
  - apply dqrepr_two.
  - intros a Ha. apply handle_dqrepr; assumption.
Qed.

(* non-vacuity: the arguments of the independent mutation's demo, two levels deep, pipe on *)
Example nested_example named :
  let c := Cfg true (Some (91, 93)) true [DQ; 39] in
  let args := [[97]; [93]; [91]; [124]; [DQ]; [BSL]; []; [0xE9; 0x597D]] in
  Forall (fun a => forallb scalar a = true) args
  /\ nested_mq 91 93 2 [[93]] = [91; 91; DQ; 93; DQ; 93; 93]
  /\ tokenize named c (nested_mq 91 93 2 args) = Ok [Node [Node (map Leaf args)]]
  /\ tokenize named c (nested_dq 91 93 2 ([0xC2; 0x80] :: [0xD800] :: args)) = Ok [Node [Node (map Leaf ([0xC2; 0x80] :: [0xD800] :: args))]].
Proof. split; [repeat constructor|repeat split; vm_compute; reflexivity]. Qed.
