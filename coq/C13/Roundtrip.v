(* C13/Roundtrip.v — arguments written between double quotes with only
   backslash and double quote escaped tokenise back to exactly themselves. *)
From Coq Require Import List NArith ZArith Bool Lia ZifyBool Arith.
Import ListNotations.
Require Import Base.Wire Base.PyStr C13.Utf8 C13.Model C13.Lemmas.
Require gen.T13.
Open Scope N_scope.

(* table facts *)
Lemma ws_facts : is_ws DQ = false /\ is_ws SP = true.
Proof. split; vm_compute; reflexivity. Qed.
Lemma bs_action_facts : bs_action BSL = ASimple BSL /\ bs_action DQ = ASimple DQ.
Proof. split; vm_compute; reflexivity. Qed.

Lemma mq_esc_app a b : mq_esc (a ++ b) = mq_esc a ++ mq_esc b.
Proof. unfold mq_esc. apply flat_map_app. Qed.

Lemma mq_esc_cons c a :
  mq_esc (c :: a) = (if c =? BSL then [BSL; BSL] else if c =? DQ then [BSL; DQ] else [c]) ++ mq_esc a.
Proof. reflexivity. Qed.

(* ---- lexer: the quoted body is swallowed whole ---- *)
Lemma lex_quote_body t a : forall acc rest,
  lex t (LQuote DQ false) acc (mq_esc a ++ DQ :: rest)
  = emit (rev acc ++ mq_esc a ++ [DQ]) (lex t LSp [] rest).
Proof.
  induction a as [|c a IH]; intros acc rest.
  - cbn [mq_esc flat_map app lex]. change (N.eqb DQ BSL) with false. cbn [negb andb].
    rewrite N.eqb_refl. cbn [rev]. reflexivity.
  - rewrite mq_esc_cons.
    destruct (c =? BSL) eqn:Eb.
    { cbn [app lex]. change (N.eqb BSL BSL) with true. cbn [negb]. change (N.eqb BSL BSL) with true.
      cbn [negb]. rewrite IH. cbn [rev]. rewrite <- !app_assoc. reflexivity. }
    destruct (c =? DQ) eqn:Ed.
    { cbn [app lex]. change (N.eqb BSL BSL) with true. cbn [negb]. change (N.eqb DQ BSL) with false.
      cbn [negb andb]. rewrite IH. cbn [rev]. rewrite <- !app_assoc. reflexivity. }
    cbn [app lex]. unfold N.eqb in Eb, Ed. fold (N.eqb c BSL) in Eb. fold (N.eqb c DQ) in Ed.
    rewrite Eb, Ed. cbn [negb andb]. rewrite IH. cbn [rev]. rewrite <- !app_assoc. reflexivity.
Qed.

Lemma lex_open_quote t rest :
  mem DQ (quotes t) = true ->
  lex t LSp [] (DQ :: rest) = lex t (LQuote DQ false) [DQ] rest.
Proof.
  intro Hq. cbn [lex]. destruct ws_facts as [Hw _]. rewrite Hw.
  assert (Hs : mem DQ (seps t) = true).
  { unfold seps. rewrite !mem_app. rewrite Hq. rewrite !orb_true_r. reflexivity. }
  rewrite Hs, Hq. reflexivity.
Qed.

Lemma lex_minimal_quote t a rest :
  mem DQ (quotes t) = true ->
  lex t LSp [] (minimal_quote a ++ rest) = emit (minimal_quote a) (lex t LSp [] rest).
Proof.
  intro Hq. unfold minimal_quote. cbn [app]. rewrite lex_open_quote by exact Hq.
  rewrite <- app_assoc. cbn [app]. rewrite lex_quote_body. reflexivity.
Qed.

Lemma lex_join_quoted t args :
  mem DQ (quotes t) = true ->
  lex_all t (join [SP] (map minimal_quote args)) = (map minimal_quote args, None).
Proof.
  intro Hq. unfold lex_all. induction args as [|a args IH]; [reflexivity|].
  destruct args as [|b args'].
  - cbn [map join]. rewrite <- (app_nil_r (minimal_quote a)) at 1.
    rewrite lex_minimal_quote by exact Hq. reflexivity.
  - change (join [SP] (map minimal_quote (a :: b :: args')))
      with (minimal_quote a ++ [SP] ++ join [SP] (map minimal_quote (b :: args'))).
    rewrite lex_minimal_quote by exact Hq.
    cbn [app]. cbn [lex]. destruct ws_facts as [_ Hs]. rewrite Hs.
    rewrite IH. reflexivity.
Qed.

(* ---- _handleToken on a minimally quoted token ---- *)
Lemma enc1_plain c bc :
  utf8_enc1 c = Ok bc -> c =? BSL = false -> c =? DQ = false -> mq_esc bc = bc.
Proof.
  intros H Hb Hd. destruct (c <? 0x80) eqn:E.
  - rewrite (enc1_ascii c bc H E). rewrite mq_esc_cons. rewrite Hb, Hd. reflexivity.
  - pose proof (enc1_nonascii c bc H E) as Hall. clear H.
    induction bc as [|x bc IH]; [reflexivity|].
    cbn [forallb] in Hall. apply andb_true_iff in Hall as [Hx Hr].
    rewrite mq_esc_cons. unfold BSL, DQ.
    replace (x =? 92) with false by lia. replace (x =? 34) with false by lia.
    cbn [app]. f_equal. apply IH. exact Hr.
Qed.

Lemma utf8_encode_mq a : forall b, utf8_encode a = Ok b -> utf8_encode (mq_esc a) = Ok (mq_esc b).
Proof.
  induction a as [|c a IH]; intros b H.
  - apply Ok_inj in H. subst b. reflexivity.
  - cbn [utf8_encode] in H.
    destruct (utf8_enc1 c) as [bc|] eqn:Ec; [|discriminate]. cbn [bind] in H.
    destruct (utf8_encode a) as [r|] eqn:Er; [|discriminate]. cbn [bind] in H.
    apply Ok_inj in H. subst b. rewrite mq_esc_cons, mq_esc_app.
    specialize (IH r eq_refl).
    destruct (c =? BSL) eqn:Eb.
    { apply N.eqb_eq in Eb. subst c. vm_compute in Ec. apply Ok_inj in Ec. subst bc.
      apply (utf8_encode_app [BSL; BSL] (mq_esc a) [BSL; BSL] (mq_esc r)); [reflexivity|exact IH]. }
    destruct (c =? DQ) eqn:Ed.
    { apply N.eqb_eq in Ed. subst c. vm_compute in Ec. apply Ok_inj in Ec. subst bc.
      apply (utf8_encode_app [BSL; DQ] (mq_esc a) [BSL; DQ] (mq_esc r)); [reflexivity|exact IH]. }
    rewrite (enc1_plain c bc Ec Eb Ed).
    apply (utf8_encode_app [c] (mq_esc a) bc (mq_esc r)); [|exact IH].
    cbn [utf8_encode]. rewrite Ec. cbn [bind]. rewrite app_nil_r. reflexivity.
Qed.

(* unicode_escape decoding of an escaped byte string: every byte comes back as
   the Latin-1 code point of the same value *)
Lemma ued_mq named b : ued named UN (mq_esc b) = Ok b.
Proof.
  destruct bs_action_facts as [Ab Ad].
  induction b as [|x b IH]; [reflexivity|].
  rewrite mq_esc_cons.
  destruct (x =? BSL) eqn:Eb.
  { apply N.eqb_eq in Eb. subst x. cbn [app ued]. change (BSL =? BSL) with true. cbv iota.
    rewrite Ab. rewrite IH. reflexivity. }
  destruct (x =? DQ) eqn:Ed.
  { apply N.eqb_eq in Ed. subst x. cbn [app ued]. change (BSL =? BSL) with true. cbv iota.
    rewrite Ad. rewrite IH. reflexivity. }
  cbn [app ued]. rewrite Eb. rewrite IH. reflexivity.
Qed.

Lemma ascii_encode a : forallb is_ascii a = true -> utf8_encode a = Ok a.
Proof.
  induction a as [|c a IH]; [reflexivity|]. cbn [forallb]. intro H.
  apply andb_true_iff in H as [Hc Ha]. cbn [utf8_encode]. rewrite (IH Ha).
  unfold utf8_enc1. unfold is_ascii in Hc. replace (c <? 0x80) with true by lia. reflexivity.
Qed.

Lemma mq_esc_ascii a : forallb is_ascii (mq_esc a) = forallb is_ascii a.
Proof.
  induction a as [|c a IH]; [reflexivity|]. rewrite mq_esc_cons, forallb_app, IH. cbn [forallb]. f_equal.
  destruct (c =? BSL) eqn:Eb; [apply N.eqb_eq in Eb; subst; reflexivity|].
  destruct (c =? DQ) eqn:Ed; [apply N.eqb_eq in Ed; subst; reflexivity|].
  cbn [forallb]. apply andb_true_r.
Qed.

Lemma decode_quoted_mq named a :
  forallb scalar a = true -> decode_quoted named (mq_esc a) = Ok a.
Proof.
  intro Hs. destruct (utf8_roundtrip_scalar a Hs) as [b [He Hd]].
  unfold decode_quoted, unicode_escape_decode.
  rewrite (utf8_encode_mq a b He). cbn [bind]. rewrite ued_mq. cbn [bind].
  rewrite mq_esc_ascii. destruct (forallb is_ascii a) eqn:Ea; cbn [negb].
  - rewrite (ascii_encode a Ea) in He. apply Ok_inj in He. subst b. reflexivity.
  - rewrite (latin1_encode_bytes b (utf8_encode_bytes a b He)). rewrite Hd. reflexivity.
Qed.

Lemma last_snoc (l : str) x d : last (l ++ [x]) d = x.
Proof. apply last_last. Qed.

Lemma handle_minimal_quote named t a :
  mem DQ (quotes t) = true -> forallb scalar a = true ->
  handle_token named t (minimal_quote a) = Ok a.
Proof.
  intros Hq Hs. unfold handle_token, minimal_quote.
  change (DQ :: mq_esc a ++ [DQ]) with ((DQ :: mq_esc a) ++ [DQ]) at 1.
  rewrite last_snoc. rewrite N.eqb_refl, Hq. cbn [andb tl].
  rewrite removelast_last. apply decode_quoted_mq. exact Hs.
Qed.

(* ---- the main loop over quoted tokens ---- *)
Lemma seq_eqb_two x y r l : seq_eqb (x :: y :: r) [l] = false.
Proof. simpl. destruct (x =? l); reflexivity. Qed.

Lemma minimal_quote_two a : exists y r, minimal_quote a = DQ :: y :: r.
Proof.
  unfold minimal_quote. destruct (mq_esc a ++ [DQ]) as [|y r] eqn:E.
  - apply app_eq_nil in E as [_ E]. discriminate.
  - exists y, r. reflexivity.
Qed.

Lemma top_quoted named t args : forall f acc,
  mem DQ (quotes t) = true -> Forall (fun a => forallb scalar a = true) args ->
  (length args < f)%nat ->
  top named t f (map minimal_quote args) None acc [] = Ok (rev acc ++ map Leaf args).
Proof.
  induction args as [|a args IH]; intros f acc Hq Hall Hf.
  - destruct f; [inversion Hf|]. cbn [map top finish]. rewrite app_nil_r. reflexivity.
  - destruct f; [inversion Hf|]. inversion Hall as [|? ? Ha Hr]; subst.
    cbn [map top]. destruct (minimal_quote_two a) as [y [r E]].
    assert (Hp : seq_eqb (minimal_quote a) [T13.PIPE] = false) by (rewrite E; apply seq_eqb_two).
    assert (Hl : is_left t (minimal_quote a) = false).
    { unfold is_left. destruct (brk t) as [[l r']|]; [|reflexivity]. rewrite E. apply seq_eqb_two. }
    assert (Hrt : is_right t (minimal_quote a) = false).
    { unfold is_right. destruct (brk t) as [[l r']|]; [|reflexivity]. rewrite E. apply seq_eqb_two. }
    rewrite Hp, Hl, Hrt. cbn [andb].
    rewrite (handle_minimal_quote named t a Hq Ha).
    rewrite IH; [|exact Hq|exact Hr|cbn [length] in Hf; lia].
    cbn [rev]. rewrite <- app_assoc. reflexivity.
Qed.

Theorem tokenizer_quote_roundtrip named t args :
  mem DQ (quotes t) = true -> Forall (fun a => forallb scalar a = true) args ->
  tokenizer_tokenize named t (join [SP] (map minimal_quote args)) = Ok (map Leaf args).
Proof.
  intros Hq Hall. unfold tokenizer_tokenize. rewrite (lex_join_quoted t args Hq).
  rewrite top_quoted; [reflexivity|exact Hq|exact Hall|rewrite map_length; apply Nat.lt_succ_diag_r].
Qed.

Theorem quote_roundtrip named c args :
  mem DQ (c_quotes c) = true -> Forall (fun a => forallb scalar a = true) args ->
  tokenize named c (join [SP] (map minimal_quote args)) = Ok (map Leaf args).
Proof.
  intros Hq Hall. unfold tokenize. rewrite tokenizer_quote_roundtrip; [reflexivity| |exact Hall].
  unfold tk_of. destruct (c_nested c); exact Hq.
Qed.

(* non-vacuity: brackets, pipe, quotes, backslash, space, NUL/CR/LF and non-ASCII all inert inside quotes *)
Example quote_roundtrip_example named :
  let args := [[91; 97; 93]; [124]; [DQ; BSL; SP]; [0xE9; 0x597D; 0x1F600]; [0xC2; 0x80]; [0; 13; 10]; []] in
  Forall (fun a => forallb scalar a = true) args
  /\ tokenize named (Cfg true (Some (91, 93)) true [DQ; 39]) (join [SP] (map minimal_quote args)) = Ok (map Leaf args).
Proof. split; [repeat constructor|vm_compute; reflexivity]. Qed.

(* ---- the former witness of finding C13.F15 ---- *)
Definition witness_dqrepr : str := [0xC2; 0x80].

(* a quote body that never closes the quote: generic lexer lemma *)
Fixpoint qb_ok (q : N) (bs : bool) (s : str) : bool :=
  match s with
  | [] => negb bs
  | c :: s' =>
      if N.eqb c BSL then qb_ok q (negb bs) s'
      else if negb bs && N.eqb c q then false
      else qb_ok q false s'
  end.

Lemma lex_quote_gen t q body : forall bs acc rest,
  qb_ok q bs body = true -> q =? BSL = false ->
  lex t (LQuote q bs) acc (body ++ q :: rest) = emit (rev acc ++ body ++ [q]) (lex t LSp [] rest).
Proof.
  induction body as [|c body IH]; intros bs acc rest H Hq.
  - cbn [qb_ok] in H. destruct bs; [discriminate|]. cbn [app lex]. rewrite Hq. cbn [negb andb].
    rewrite N.eqb_refl. cbn [rev]. reflexivity.
  - cbn [qb_ok] in H. cbn [app lex]. destruct (N.eqb c BSL).
    + rewrite IH by assumption. cbn [rev]. rewrite <- !app_assoc. reflexivity.
    + destruct (negb bs && N.eqb c q); [discriminate|].
      rewrite IH by assumption. cbn [rev]. rewrite <- !app_assoc. reflexivity.
Qed.

Lemma top_single_quoted named t tok y r x :
  tok = DQ :: y :: r -> handle_token named t tok = Ok x ->
  top named t 2 [tok] None [] [] = Ok [Leaf x].
Proof.
  intros E H. cbn [top].
  assert (Hl : forall l, seq_eqb tok [l] = false) by (intro; rewrite E; apply seq_eqb_two).
  rewrite Hl. unfold is_left, is_right. cbn [andb].
  destruct (brk t) as [[l r']|]; rewrite ?Hl, H; reflexivity.
Qed.

(* the witness of the repaired finding C13.F15 now round-trips (was: Ok [Leaf [0x80]]) *)
Example dqrepr_F15_witness named :
  tokenize named (Cfg true (Some (91, 93)) false [DQ]) (dqrepr witness_dqrepr) = Ok [Leaf witness_dqrepr].
Proof. vm_compute. reflexivity. Qed.
