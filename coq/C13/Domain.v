(* C13/Domain.v — the theorems restated on exactly the configurations that can exist (cfg_valid: what
   conf.ValidQuotes / conf.ValidBrackets accept, from the regenerated tables), with the lexical side conditions
   of the bracket theorems discharged from the tables instead of assumed. *)
From Coq Require Import List NArith ZArith Bool.
Import ListNotations.
Require Import Base.Wire Base.PyStr C13.Utf8 C13.Model C13.Lemmas C13.Roundtrip C13.Dqrepr C13.Brackets C13.Nested C13.Render.
Require gen.T13.
Open Scope N_scope.

(* no configurable quote character collides with shlex's state names ('a', ' '), is the backslash, is whitespace,
   is the pipe or a configurable bracket character *)
Lemma quote_chars_ok :
  forallb (fun q => negb (q =? 97) && negb (q =? 32) && negb (q =? BSL) && negb (is_ws q) && negb (q =? T13.PIPE)
                    && negb (existsb (fun b => mem q b) T13.VALID_BRACKETS)) T13.VALID_QUOTE_CHARS = true.
Proof. vm_compute. reflexivity. Qed.

Lemma brackets_table_ok :
  forallb (fun b => match b with
                    | [l; r] => negb (is_ws l) && negb (is_ws r) && negb (mem l T13.VALID_QUOTE_CHARS)
                                && negb (mem r T13.VALID_QUOTE_CHARS) && negb (l =? r) && negb (l =? T13.PIPE)
                                && negb (r =? T13.PIPE)
                    | [] => true
                    | _ => false
                    end) T13.VALID_BRACKETS = true.
Proof. vm_compute. reflexivity. Qed.

Lemma quotes_valid_not_mem q x : quotes_valid q = true -> mem x T13.VALID_QUOTE_CHARS = false -> mem x q = false.
Proof.
  unfold quotes_valid. intros H Hx. apply mem_false. intro Hin. rewrite forallb_forall in H.
  specialize (H x Hin). congruence.
Qed.

Theorem model_domain c :
  cfg_valid c = true -> mem 97 (c_quotes c) = false /\ mem 32 (c_quotes c) = false /\ mem BSL (c_quotes c) = false.
Proof.
  unfold cfg_valid. intro H. apply andb_true_iff in H as [Hq _].
  repeat split; apply (quotes_valid_not_mem _ _ Hq); vm_compute; reflexivity.
Qed.

Record lex_ok (c : cfg) (lb rb : N) : Prop := LexOk {
  lo_wl : is_ws lb = false; lo_wr : is_ws rb = false;
  lo_ql : mem lb (c_quotes c) = false; lo_qr : mem rb (c_quotes c) = false;
  lo_lr : lb =? rb = false; lo_lp : lb =? T13.PIPE = false; lo_rp : rb =? T13.PIPE = false }.

Lemma valid_lex_ok c lb rb : cfg_valid c = true -> c_brackets c = Some (lb, rb) -> lex_ok c lb rb.
Proof.
  unfold cfg_valid. intros H Hb. rewrite Hb in H. apply andb_true_iff in H as [Hq Hv].
  unfold brackets_valid in Hv. apply existsb_exists in Hv as [b [Hin Heq]]. apply seq_eqb_eq in Heq. subst b.
  pose proof brackets_table_ok as T. rewrite forallb_forall in T. specialize (T _ Hin). cbv beta iota in T.
  repeat (apply andb_true_iff in T as [T ?]).
  repeat match goal with H : negb _ = true |- _ => apply negb_true_iff in H end.
  constructor; try assumption; apply (quotes_valid_not_mem _ _ Hq); assumption.
Qed.

Section Valid.
Variable named : bytes -> option N.
Variable c : cfg.
Variables lb rb : N.
Hypothesis Hv : cfg_valid c = true.
Hypothesis Hn : c_nested c = true.
Hypothesis Hb : c_brackets c = Some (lb, rb).

Theorem brackets_valid_render l :
  forallb (wfc (tk_of c)) l = true -> tokenize named c (render_top lb rb l) = Ok l.
Proof. destruct (valid_lex_ok c lb rb Hv Hb). apply brackets_render; assumption. Qed.

Theorem brackets_valid_unbalanced pre l rest :
  forallb (wfc (tk_of c)) pre = true -> forallb (wfc (tk_of c)) l = true ->
  tokenize named c (text_unclosed lb rb pre l) = Raise SyntaxError
  /\ tokenize named c (text_spurious lb rb pre rest) = Raise SyntaxError.
Proof. destruct (valid_lex_ok c lb rb Hv Hb). apply brackets_unbalanced; assumption. Qed.

Theorem quote_valid_nested n args :
  mem DQ (c_quotes c) = true -> Forall (fun a => forallb scalar a = true) args ->
  tokenize named c (nested_mq lb rb n args) = Ok (nest n (map Leaf args)).
Proof. destruct (valid_lex_ok c lb rb Hv Hb). intros. apply quote_roundtrip_nested; assumption. Qed.

Theorem dqrepr_valid_nested n args :
  mem DQ (c_quotes c) = true -> Forall (fun a => forallb valid_cp a = true) args ->
  tokenize named c (nested_dq lb rb n args) = Ok (nest n (map Leaf args)).
Proof. destruct (valid_lex_ok c lb rb Hv Hb). intros. apply dqrepr_roundtrip_nested; assumption. Qed.
End Valid.

(* non-vacuity: every bracket style with the default quote set, and the full quote set, is a valid configuration *)
Example valid_examples :
  forallb (fun b => cfg_valid (Cfg true (match b with [l; r] => Some (l, r) | _ => None end) true [DQ])) T13.VALID_BRACKETS = true
  /\ cfg_valid (Cfg true (Some (60, 62)) false T13.VALID_QUOTE_CHARS) = true
  /\ cfg_valid (Cfg true (Some (91, 93)) false [DQ; 97]) = false
  /\ cfg_valid (Cfg true (Some (91, 41)) false [DQ]) = false.
Proof. repeat split; vm_compute; reflexivity. Qed.
