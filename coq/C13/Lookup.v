(* C13/Lookup.v — the configuration callbacks.tokenize uses for a message is the one set for its
   channel / network: the value set at the most specific applicable level, the global value when nothing
   applicable is set, and names that getSpecific drops (not a channel name, not a connected network) count
   as not given.  In particular brackets '' set for one channel make brackets literal there. *)
From Coq Require Import List NArith ZArith Bool.
Import ListNotations.
Require Import Base.Wire Base.PyStr C13.Utf8 C13.Model C13.Lemmas C13.Roundtrip C13.Brackets C13.Nested C13.Render.
Open Scope N_scope.

Definition opt_list {V} (o : option V) : list V := match o with Some v => [v] | None => [] end.

(* the values set at the levels that apply to a message from (net, chan) *)
Definition applicable {V} (st : store V) (net chan : bool) : list V :=
  (if chan then opt_list (s_chan st) else [])
  ++ (if net then opt_list (s_net st) else [])
  ++ (if net && chan then opt_list (s_netchan st) else []).

Theorem lookup_default {V} (st : store V) net chan :
  applicable st net chan = [] -> get_specific st net chan = s_base st.
Proof.
  unfold applicable, get_specific. destruct st as [b c n nc]. cbn [s_base s_chan s_net s_netchan].
  destruct net, chan, c, n, nc; cbn; intro H; try discriminate; reflexivity.
Qed.

Theorem lookup_unambiguous {V} (st : store V) net chan v :
  applicable st net chan <> [] -> (forall x, In x (applicable st net chan) -> x = v) ->
  get_specific st net chan = v.
Proof.
  unfold applicable, get_specific. destruct st as [b c n nc]. cbn [s_base s_chan s_net s_netchan].
  destruct net, chan, c, n, nc; cbn; intros Hne H; try (contradiction Hne; reflexivity);
    apply H; auto.
Qed.

(* conf.get takes (channel, network): same answers *)
Theorem conf_get_unambiguous {V} (st : store V) chan net v :
  applicable st net chan <> [] -> (forall x, In x (applicable st net chan) -> x = v) ->
  conf_get st chan net = v.
Proof. apply lookup_unambiguous. Qed.

Theorem conf_get_default {V} (st : store V) chan net :
  applicable st net chan = [] -> conf_get st chan net = s_base st.
Proof. apply lookup_default. Qed.

(* a name that getSpecific drops behaves as if it had not been given *)
Theorem dropped_names k nc cv :
  cfg_at k (Loc true false true false) = cfg_at k (Loc false nc false cv).
Proof. reflexivity. Qed.

(* the setting of one channel applies to the messages of that channel *)
Theorem channel_brackets k l v :
  loc_chan l = true -> s_chan (k_brackets k) = Some v ->
  s_net (k_brackets k) = None -> s_netchan (k_brackets k) = None ->
  c_brackets (cfg_at k l) = v.
Proof.
  intros Hc Hv Hn Hnc. unfold cfg_at. cbn [c_brackets]. apply lookup_unambiguous.
  - unfold applicable. rewrite Hc, Hv. discriminate.
  - unfold applicable. rewrite Hc, Hv, Hn, Hnc. destruct (loc_net l); cbn; intros x [E|[]]; congruence.
Qed.

(* "If this string is empty, nested commands will not be allowed in this channel": there, brackets are literal *)
Theorem channel_without_nesting named k l (ws : list str) :
  loc_chan l = true -> s_chan (k_brackets k) = Some None ->
  s_net (k_brackets k) = None -> s_netchan (k_brackets k) = None ->
  Forall (fun w => word (tk_of (cfg_at k l)) w = true) ws ->
  tokenize_at named k l (join [SP] ws) = Ok (map Leaf ws).
Proof.
  intros Hc Hv Hn Hnc Hw. unfold tokenize_at. apply brackets_literal; [|exact Hw].
  right. apply channel_brackets; assumption.
Qed.

(* non-vacuity: default [] globally, '' for the channel: `echo [echo hi]` stays three words there and nests elsewhere *)
Example channel_without_nesting_example named :
  let k := Conf true (Store (Some (91, 93)) (Some None) None None) (Store false None None None) (Store [DQ] None None None) in
  let s := [101; 32; 91; 101; 32; 104; 93] in
  tokenize_at named k (Loc true true true true) s = Ok [Leaf [101]; Leaf [91; 101]; Leaf [104; 93]]
  /\ tokenize_at named k (Loc true true false false) s = Ok [Leaf [101]; Node [Leaf [101]; Leaf [104]]]
  /\ tokenize_at named k (Loc true true true false) s = Ok [Leaf [101]; Node [Leaf [101]; Leaf [104]]].
Proof. repeat split; vm_compute; reflexivity. Qed.
