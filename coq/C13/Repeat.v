(* C13/Repeat.v — tokenising is a function of (configuration, text) only.
   In Gallina tokenize_at is a pure function, so that is the refinement target by construction.  What the Python
   adds is object identity: callers (Alias, Aka, Scheduler, Conditional) edit the returned lists in place.  This
   file models a session -- calls of callbacks.tokenize interleaved with arbitrary in-place edits of earlier
   results -- on a store of result objects.  The code under verification allocates a fresh object per call
   (pinned in harness/tables/t13.py, exercised by the call-twice oracle of harness/c13.py); then every call
   observes exactly tokenize_at of its own configuration and text, whatever happened before.  A variant that
   remembers results per text (the seeded cache) is shown NOT to have this property. *)
From Coq Require Import List NArith Bool Arith Lia.
Import ListNotations.
Require Import Base.Wire Base.PyStr C13.Utf8 C13.Model.
Open Scope nat_scope.

Section Session.
Variable named : bytes -> option N.

Definition result := res (list tree).
Inductive event :=
| Call (k : conf) (l : loc) (s : str)        (* callbacks.tokenize(s, channel, network) under configuration k *)
| Edit (obj : nat) (v : result).             (* a caller overwrites the contents of an object it was given *)

Definition objstore := list result.              (* object number i is the i-th entry *)

Fixpoint set_nth (i : nat) (v : result) (st : objstore) : objstore :=
  match st, i with
  | [], _ => []
  | _ :: r, O => v :: r
  | x :: r, S i' => x :: set_nth i' v r
  end.

(* the code: every call builds a new tree; what the caller sees is read through the object it is handed *)
Fixpoint session (st : objstore) (h : list event) : list result :=
  match h with
  | [] => []
  | Call k l s :: h' =>
      let st' := st ++ [tokenize_at named k l s] in
      let handle := length st in
      nth handle st' (Raise OtherError) :: session st' h'
  | Edit obj v :: h' => session (set_nth obj v st) h'
  end.

Fixpoint calls (h : list event) : list result :=
  match h with
  | [] => []
  | Call k l s :: h' => tokenize_at named k l s :: calls h'
  | Edit _ _ :: h' => calls h'
  end.

Theorem session_pure : forall h st, session st h = calls h.
Proof.
  induction h as [|e h IH]; intro st; [reflexivity|]. destruct e as [k l s|obj v]; cbn [session calls].
  - rewrite IH. f_equal. rewrite app_nth2 by lia. rewrite Nat.sub_diag. reflexivity.
  - apply IH.
Qed.

(* the seeded variant: results remembered per text (configuration fixed), the same object handed out again *)
Fixpoint cache_find (s : str) (c : list (str * nat)) : option nat :=
  match c with
  | [] => None
  | (s', h) :: c' => if seq_eqb s s' then Some h else cache_find s c'
  end.

Fixpoint session_cached (st : objstore) (c : list (str * nat)) (h : list event) : list result :=
  match h with
  | [] => []
  | Call k l s :: h' =>
      match cache_find s c with
      | Some handle => nth handle st (Raise OtherError) :: session_cached st c h'
      | None =>
          let st' := st ++ [tokenize_at named k l s] in
          nth (length st) st' (Raise OtherError) :: session_cached st' ((s, length st) :: c) h'
      end
  | Edit obj v :: h' => session_cached (set_nth obj v st) c h'
  end.

Definition k0 : conf := Conf true (Store (Some (91%N, 93%N)) None None None) (Store false None None None) (Store [DQ] None None None).
Definition l0 : loc := Loc false false false false.
(* echo $1 ; the alias substitutes bob for $1 in place ; the alias runs again *)
Definition alias_history : list event :=
  [Call k0 l0 [101; 32; 36; 49]%N; Edit 0 (Ok [Leaf [101%N]; Leaf [98; 111; 98]%N]); Call k0 l0 [101; 32; 36; 49]%N].

Example cached_is_not_pure :
  session [] alias_history = calls alias_history /\ session_cached [] [] alias_history <> calls alias_history.
Proof. split; [apply session_pure|]. vm_compute. intro H. discriminate H. Qed.

End Session.
