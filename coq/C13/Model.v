(* C13/Model.v — executable model of the command tokeniser:
     src/shlex.py  shlex.read_token/get_token   (as a character machine)
     src/callbacks.py:306-427  Tokenizer.__init__/_handleToken/_insideBrackets/tokenize and callbacks.tokenize
     src/utils/str.py:181-188  dqrepr
   plus CPython's unicode_escape codec (decoder and encoder) which _handleToken
   and dqrepr go through.  UTF-8 and Latin-1 are in C13/Utf8.v.
   Mirrors the Python including its defects.  No proofs in this file. *)
From Coq Require Import List NArith ZArith Bool.
Import ListNotations.
Require Import Base.Wire Base.PyStr.
Require Import C13.Utf8.
Require gen.T13.
Open Scope N_scope.

Definition BSL : N := 92.  Definition DQ : N := 34.  Definition SP : N := 32.
Definition LF : N := 10.   Definition LBRACE : N := 123.  Definition RBRACE : N := 125.
Definition MAX_UNICODE : N := 0x10FFFF.

(* ------------------------------------------------------------------ *)
(* Tokenizer.__init__ : the configuration of one tokeniser *)
Record tk := Tk { brk : option (N * N); pipe : bool; quotes : str }.

Definition brk_chars (t : tk) : str := match brk t with Some (l, r) => [l; r] | None => [] end.
(* self.separators: class default + brackets + '|' if pipe + quotes *)
Definition seps (t : tk) : str :=
  T13.SEPARATORS0 ++ brk_chars t ++ (if pipe t then [T13.PIPE] else []) ++ quotes t.
Definition is_ws (c : N) : bool := mem c T13.WHITESPACE.

(* ------------------------------------------------------------------ *)
(* shlex.read_token / get_token as a character machine.
   States: ' ' (LSp), 'a' (LWord, token so far reversed in acc), an open quote q
   with the backslash flag (LQuote).  State None (past EOF) is the end of the
   input list.  lexer.commenters = '' so the comment branches are dead.
   A separator met in word state is pushed back *as a token* and is what the
   next get_token returns: the machine emits it right after the word.
   Result: the tokens get_token would return in order, then how the stream
   ends: None = '' (EOF), Some e = get_token raises e. *)
Inductive lstate := LSp | LWord | LQuote (q : N) (bs : bool).

Definition emit (t : str) (r : list str * option exn) : list str * option exn :=
  (t :: fst r, snd r).

Fixpoint lex (t : tk) (st : lstate) (acc : str) (s : str) : list str * option exn :=
  match s with
  | [] =>
      match st with
      | LSp => ([], None)
      | LWord => ([rev acc], None)                    (* EOF in word state: emit, state None *)
      | LQuote _ _ => ([], Some ValueError)           (* "No closing quotation" *)
      end
  | c :: s' =>
      match st with
      | LSp =>
          if is_ws c then lex t LSp [] s'
          else if negb (mem c (seps t)) then lex t LWord [c] s'
          else if mem c (quotes t) then lex t (LQuote c false) [c] s'
          else emit [c] (lex t LSp [] s')
      | LQuote q bs =>
          if N.eqb c BSL then lex t (LQuote q (negb bs)) (c :: acc) s'
          else if negb bs && N.eqb c q then emit (rev (c :: acc)) (lex t LSp [] s')
          else lex t (LQuote q false) (c :: acc) s'
      | LWord =>
          if is_ws c then emit (rev acc) (lex t LSp [] s')
          else if negb (mem c (seps t)) || mem c (quotes t) then lex t LWord (c :: acc) s'
          else emit (rev acc) (emit [c] (lex t LSp [] s'))     (* pushback = [c] *)
      end
  end.

Definition lex_all (t : tk) (s : str) : list str * option exn := lex t LSp [] s.

(* ------------------------------------------------------------------ *)
(* codecs.getdecoder('unicode_escape') — CPython _PyUnicode_DecodeUnicodeEscapeInternal, errors='strict' *)
Definition hexval (b : N) : option N :=
  if (48 <=? b) && (b <=? 57) then Some (b - 48)
  else if (97 <=? b) && (b <=? 102) then Some (b - 87)
  else if (65 <=? b) && (b <=? 70) then Some (b - 55)
  else None.
Definition is_oct (b : N) : bool := (48 <=? b) && (b <=? 55).

(* what the byte after a backslash selects *)
Inductive bact := ASimple (c : N) | ASkip | AOct (v : N) | AHex (k : nat) | AName | AKeep.
Definition bs_action (b : N) : bact :=
  if b =? LF then ASkip
  else if b =? BSL then ASimple BSL
  else if b =? 39 then ASimple 39
  else if b =? DQ then ASimple DQ
  else if b =? 98 then ASimple 8          (* \b *)
  else if b =? 102 then ASimple 12        (* \f *)
  else if b =? 116 then ASimple 9         (* \t *)
  else if b =? 110 then ASimple 10        (* \n *)
  else if b =? 114 then ASimple 13        (* \r *)
  else if b =? 118 then ASimple 11        (* \v *)
  else if b =? 97 then ASimple 7          (* \a *)
  else if is_oct b then AOct (b - 48)
  else if b =? 120 then AHex 2            (* \xHH *)
  else if b =? 117 then AHex 4            (* \uHHHH *)
  else if b =? 85 then AHex 8             (* \UHHHHHHHH *)
  else if b =? 78 then AName              (* \N{name} *)
  else AKeep.                             (* unknown escape: backslash kept *)

Inductive ust :=
| UN                           (* plain *)
| UB                           (* after a backslash *)
| UH (k : nat) (v : N)         (* k hex digits still expected *)
| UO (k : nat) (v : N)         (* up to k more octal digits *)
| UNm0                         (* after \N, expecting { *)
| UNm (name : bytes).          (* inside \N{ , name reversed *)

Section Named.
(* unicodedata name table (ucnhash getcode): an oracle supplied by the caller *)
Variable named : bytes -> option N.

Fixpoint ued (st : ust) (bs : bytes) : res str :=
  match bs with
  | [] =>
      match st with
      | UN => Ok []
      | UO _ v => Ok [v]
      | _ => Raise UnicodeError       (* "\ at end of string", truncated \xXX, malformed \N *)
      end
  | b :: r =>
      match st with
      | UN => if b =? BSL then ued UB r else cons_res b (ued UN r)
      | UB =>
          match bs_action b with
          | ASimple c => cons_res c (ued UN r)
          | ASkip => ued UN r
          | AOct v => ued (UO 2 v) r
          | AHex k => ued (UH k 0) r
          | AName => ued UNm0 r
          | AKeep => cons_res BSL (cons_res b (ued UN r))
          end
      | UH k v =>
          match hexval b with
          | None => Raise UnicodeError
          | Some d =>
              let v' := v * 16 + d in
              match k with
              | S (S k') => ued (UH (S k') v') r
              | _ => if MAX_UNICODE <? v' then Raise UnicodeError     (* "illegal Unicode character" *)
                     else cons_res v' (ued UN r)
              end
          end
      | UO k v =>
          if is_oct b then
            let v' := v * 8 + (b - 48) in
            match k with
            | S (S k') => ued (UO (S k') v') r
            | _ => cons_res v' (ued UN r)
            end
          else
            (* not an octal digit: emit v, then b is processed in plain state *)
            cons_res v (if b =? BSL then ued UB r else cons_res b (ued UN r))
      | UNm0 => if b =? LBRACE then ued (UNm []) r else Raise UnicodeError
      | UNm name =>
          if b =? RBRACE then
            match name with
            | [] => Raise UnicodeError
            | _ => match named (rev name) with
                   | Some ch => cons_res ch (ued UN r)
                   | None => Raise UnicodeError        (* unknown Unicode character name *)
                   end
            end
          else ued (UNm (b :: name)) r
      end
  end.

Definition unicode_escape_decode (bs : bytes) : res str := ued UN bs.

(* ------------------------------------------------------------------ *)
(* Tokenizer._handleToken *)
Definition decode_quoted (body : str) : res str :=
  let non_ascii := negb (forallb is_ascii body) in   (* nonAscii = any(lambda c: ord(c) > 127, token) *)
  do b <- utf8_encode body;                 (* codecs.getencoder('utf8'): UnicodeEncodeError on surrogates *)
  do u <- unicode_escape_decode b;          (* UnicodeDecodeError *)
  if non_ascii then
    match latin1_encode u with              (* try: token.encode('iso-8859-1').decode()  except: pass *)
    | None => Ok u
    | Some b' => match utf8_decode b' with Ok s => Ok s | Raise _ => Ok u end
    end
  else Ok u.

Definition handle_token (t : tk) (tok : str) : res str :=
  match tok with
  | [] => Raise IndexError                  (* token[0]; get_token never returns '' here *)
  | c0 :: _ =>
      if N.eqb c0 (last tok c0) && mem c0 (quotes t) then decode_quoted (removelast (tl tok))
      else Ok tok
  end.

(* ------------------------------------------------------------------ *)
(* the nested-list result *)
Inductive tree := Leaf (s : str) | Node (l : list tree).

Definition is_left (t : tk) (tok : str) : bool :=
  match brk t with Some (l, _) => seq_eqb tok [l] | None => false end.
Definition is_right (t : tk) (tok : str) : bool :=
  match brk t with Some (_, r) => seq_eqb tok [r] | None => false end.

(* Tokenizer._insideBrackets.  ts/e: the tokens the lexer still has to give and
   how its stream ends.  ret is reversed.  Returns the list and the tokens left.
   fuel bounds the Python recursion+loop; OtherError = out of fuel (excluded by
   lemma inside_fuel in Lemmas.v) *)
Fixpoint inside (t : tk) (fuel : nat) (ts : list str) (e : option exn) (ret : list tree)
  : res (list tree * list str) :=
  match fuel with
  | O => Raise OtherError
  | S f =>
      match ts with
      | [] => match e with Some x => Raise x | None => Raise SyntaxError end   (* Missing "]" *)
      | tok :: ts' =>
          if is_right t tok then Ok (rev ret, ts')
          else if is_left t tok then
            match inside t f ts' e [] with
            | Ok (sub, ts'') => inside t f ts'' e (Node sub :: ret)
            | Raise x => Raise x
            end
          else
            match handle_token t tok with
            | Ok x => inside t f ts' e (Leaf x :: ret)
            | Raise x => Raise x
            end
      end
  end.

(* the tail of Tokenizer.tokenize: ends is a stack, head = last appended *)
Definition finish (args : list tree) (ends : list (list tree)) : res (list tree) :=
  match ends with
  | [] => Ok args
  | e1 :: rest =>
      match args with
      | [] => Raise SyntaxError                        (* "|" with nothing following *)
      | _ => Ok (args ++ [Node (e1 ++ map Node rest)])  (* args[-1].append(ends.pop()) appends to the same list *)
      end
  end.

(* the main loop of Tokenizer.tokenize; args reversed *)
Fixpoint top (t : tk) (fuel : nat) (ts : list str) (e : option exn)
         (args : list tree) (ends : list (list tree)) : res (list tree) :=
  match fuel with
  | O => Raise OtherError
  | S f =>
      match ts with
      | [] => match e with Some x => Raise x | None => finish (rev args) ends end
      | tok :: ts' =>
          if seq_eqb tok [T13.PIPE] && pipe t then
            match args with
            | [] => Raise SyntaxError                  (* "|" with nothing preceding *)
            | _ => top t f ts' e [] (rev args :: ends)
            end
          else if is_left t tok then
            match inside t f ts' e [] with
            | Ok (sub, ts'') => top t f ts'' e (Node sub :: args) ends
            | Raise x => Raise x
            end
          else if is_right t tok then Raise SyntaxError  (* Spurious "]" *)
          else
            match handle_token t tok with
            | Ok x => top t f ts' e (Leaf x :: args) ends
            | Raise x => Raise x
            end
      end
  end.

(* Tokenizer(...).tokenize(s) *)
Definition tokenizer_tokenize (t : tk) (s : str) : res (list tree) :=
  let '(ts, e) := lex_all t s in top t (S (length ts)) ts e [] [].

(* callbacks.tokenize: configuration -> Tokenizer; except ValueError -> SyntaxError.
   UnicodeError is a subclass of ValueError. *)
Record cfg := Cfg { c_nested : bool; c_brackets : option (N * N); c_pipe : bool; c_quotes : str }.

Definition tk_of (c : cfg) : tk :=
  if c_nested c then Tk (c_brackets c) (c_pipe c) (c_quotes c)   (* empty brackets: pipe still honoured *)
  else Tk None false (c_quotes c).

Definition is_valueerror (e : exn) : bool := exn_eqb e ValueError || exn_eqb e UnicodeError.
Definition wrapper_catches (e : exn) : bool :=
  existsb (fun c => exn_eqb c e || (exn_eqb c ValueError && is_valueerror e)) T13.TOKENIZE_CATCHES.

Definition tokenize (c : cfg) (s : str) : res (list tree) :=
  match tokenizer_tokenize (tk_of c) s with
  | Ok r => Ok r
  | Raise e => if wrapper_catches e then Raise SyntaxError else Raise e
  end.

End Named.

(* ------------------------------------------------------------------ *)
(* How callbacks.tokenize OBTAINS its configuration for a message: registry.Value.getSpecific
   (src/registry.py) and conf.get (src/conf.py).  A channel/network value has a base (global) value and
   optional values set for the channel, for the network, and for the channel on that network; a value
   that was not set follows its parent (base -> #chan ; base -> :net -> :net.#chan). *)
Record store (V : Type) := Store { s_base : V; s_chan : option V; s_net : option V; s_netchan : option V }.
Arguments Store {V}. Arguments s_base {V}. Arguments s_chan {V}. Arguments s_net {V}. Arguments s_netchan {V}.

Definition or_else {V} (o : option V) (d : V) : V := match o with Some v => v | None => d end.
Definition is_set {V} (o : option V) : bool := match o with Some _ => true | None => false end.

(* Value.getSpecific(network, channel) after its validity filter: net/chan say whether a
   connected network / a valid channel name was given *)
Definition get_specific {V} (st : store V) (net chan : bool) : V :=
  if net && chan then
    (* network_value._wasSet or network_channel_value._wasSet: cases 1 and 2, else case 3 *)
    if is_set (s_net st) || is_set (s_netchan st)
    then or_else (s_netchan st) (or_else (s_net st) (s_base st))
    else or_else (s_chan st) (s_base st)
  else if net then or_else (s_net st) (s_base st)
  else if chan then or_else (s_chan st) (s_base st)
  else s_base st.

(* conf.get(group, channel=None, network=None) = group.getSpecific(channel=channel, network=network)() *)
Definition conf_get {V} (st : store V) (chan net : bool) : V := get_specific st net chan.

(* where a message comes from: a name may be given and still be dropped by getSpecific
   (channel that is not a channel name, network that is not connected) *)
Record loc := Loc { net_given : bool; net_connected : bool; chan_given : bool; chan_valid : bool }.
Definition loc_net (l : loc) : bool := net_given l && net_connected l.
Definition loc_chan (l : loc) : bool := chan_given l && chan_valid l.

Record conf := Conf { k_nested : bool; k_brackets : store (option (N * N)); k_pipe : store bool; k_quotes : store str }.

(* the lookups of callbacks.tokenize(s, channel, network):
     nested.brackets.getSpecific(network, channel)()
     conf.get(nested.pipeSyntax, channel=channel, network=network)
     conf.supybot.commands.quotes.getSpecific(network, channel)()   *)
Definition cfg_at (k : conf) (l : loc) : cfg :=
  Cfg (k_nested k)
      (get_specific (k_brackets k) (loc_net l) (loc_chan l))
      (conf_get (k_pipe k) (loc_chan l) (loc_net l))
      (get_specific (k_quotes k) (loc_net l) (loc_chan l)).

Definition tokenize_at (named : bytes -> option N) (k : conf) (l : loc) (s : str) : res (list tree) :=
  tokenize named (cfg_at k l) s.

(* ------------------------------------------------------------------ *)
(* The configurations that can exist: conf.ValidQuotes.setValue accepts only strings over VALID_QUOTE_CHARS,
   conf.ValidBrackets (OnlySomeStrings) only the strings of VALID_BRACKETS (regenerated tables).  The character
   machine above is a faithful picture of shlex only there: shlex names its word state 'a' and tests
   `self.state in self.quotes`, so a quote set containing the letter a would send word state into the quote
   branch (the model does not mirror that collision; lemma quote_chars_ok shows it cannot be configured). *)
Definition quotes_valid (q : str) : bool := forallb (fun c => mem c T13.VALID_QUOTE_CHARS) q.
Definition brackets_valid (b : str) : bool := existsb (seq_eqb b) T13.VALID_BRACKETS.
Definition cfg_valid (c : cfg) : bool :=
  quotes_valid (c_quotes c)
  && match c_brackets c with None => true | Some (l, r) => brackets_valid [l; r] end.

(* ------------------------------------------------------------------ *)
(* str.encode('unicode_escape') and utils.str.dqrepr *)
Definition hexdig (v : N) : N := if v <? 10 then 48 + v else 87 + v.
Fixpoint hexn (k : nat) (n : N) : list N :=
  match k with O => [] | S k' => hexn k' (n / 16) ++ [hexdig (n mod 16)] end.

Definition ue_enc1 (c : N) : str :=
  if c <? 256 then
    if (32 <=? c) && (c <? 127) then (if c =? BSL then [BSL; BSL] else [c])
    else if c =? 9 then [BSL; 116]
    else if c =? 10 then [BSL; 110]
    else if c =? 13 then [BSL; 114]
    else BSL :: 120 :: hexn 2 c
  else if c <? 65536 then BSL :: 117 :: hexn 4 c
  else BSL :: 85 :: hexn 8 c.

Definition unicode_escape_encode (s : str) : str := flat_map ue_enc1 s.

(* .replace(dq, backslash dq) *)
Definition esc_dq (s : str) : str := flat_map (fun c => if c =? DQ then [BSL; DQ] else [c]) s.

Definition dqrepr (s : str) : str := DQ :: esc_dq (unicode_escape_encode s) ++ [DQ].

(* the argument typed raw between double quotes: only backslash and double quote escaped *)
Definition mq_esc (s : str) : str :=
  flat_map (fun c => if c =? BSL then [BSL; BSL] else if c =? DQ then [BSL; DQ] else [c]) s.
Definition minimal_quote (s : str) : str := DQ :: mq_esc s ++ [DQ].

(* the class of finding C13.F15 before its repair (complement): the argument is pure ASCII, or has a code
   point >= 256, or its code points read as bytes are not valid UTF-8.  Since the repair the dqrepr
   round trip needs no domain; kept for the harness corpus classification only *)
Definition dq_dom (a : str) : bool :=
  forallb is_ascii a || negb (forallb is_byte a)
  || match utf8_decode a with Ok _ => false | Raise _ => true end.

(* ------------------------------------------------------------------ *)
(* wire *)
Fixpoint vTree (x : tree) : value :=
  match x with
  | Leaf s => L [I 0%Z; vS s]
  | Node l => L [I 1%Z; L (map vTree l)]
  end.
Definition vTrees (l : list tree) : value := L (map vTree l).

Definition gBrk (v : value) : option (N * N) :=
  match gS v with l :: r :: _ => Some (l, r) | _ => None end.

(* name table sent by the harness: list of (name bytes, code point) *)
Definition named_of (v : value) (name : bytes) : option N :=
  (fix go (l : list value) : option N :=
     match l with
     | [] => None
     | p :: l' => if seq_eqb (gS (nth_v 0 p)) name then Some (gN (nth_v 1 p)) else go l'
     end) (gL v).

Definition vRexn {A} (f : A -> value) (r : res A) : value := vR f r.

(* run: (op payload)
   op 0: callbacks.tokenize   payload (nested brackets pipe quotes names s)
   op 1: Tokenizer(brackets,pipe,quotes).tokenize   payload (_ brackets pipe quotes names s)
   op 2: dqrepr s     op 3: unicode_escape_decode (names bytes)
   op 4: utf8_decode bytes    op 5: utf8_encode str
   op 6: dq_dom s     op 7: minimal_quote s     op 8: lexer only (brackets pipe quotes s)
   op 9: callbacks.tokenize(s, channel, network) with per-channel/network values:
         payload (nested brackets-store pipe-store quotes-store (net_given net_connected chan_given chan_valid) names s),
         a store is (base chan? net? netchan?) with x? = () | (x)
   op 10: (brackets-string quotes-string) -> (brackets_valid quotes_valid): what conf accepts *)
Definition gStore {V} (f : value -> V) (v : value) : store V :=
  Store (f (nth_v 0 v)) (gO f (nth_v 1 v)) (gO f (nth_v 2 v)) (gO f (nth_v 3 v)).

Definition run (v : value) : value :=
  let p := nth_v 1 v in
  match gN (nth_v 0 v) with
  | 0 =>
      let c := Cfg (gB (nth_v 0 p)) (gBrk (nth_v 1 p)) (gB (nth_v 2 p)) (gS (nth_v 3 p)) in
      vR vTrees (tokenize (named_of (nth_v 4 p)) c (gS (nth_v 5 p)))
  | 1 =>
      let t := Tk (gBrk (nth_v 1 p)) (gB (nth_v 2 p)) (gS (nth_v 3 p)) in
      vR vTrees (tokenizer_tokenize (named_of (nth_v 4 p)) t (gS (nth_v 5 p)))
  | 2 => vS (dqrepr (gS p))
  | 3 => vR vS (unicode_escape_decode (named_of (nth_v 0 p)) (gS (nth_v 1 p)))
  | 4 => vR vS (utf8_decode (gS p))
  | 5 => vR vS (utf8_encode (gS p))
  | 6 => vB (dq_dom (gS p))
  | 7 => vS (minimal_quote (gS p))
  | 8 =>
      let t := Tk (gBrk (nth_v 0 p)) (gB (nth_v 1 p)) (gS (nth_v 2 p)) in
      let '(ts, e) := lex_all t (gS (nth_v 3 p)) in
      L [vLS ts; match e with None => L [] | Some x => L [I (exn_code x)] end]
  | 9 =>
      let k := Conf (gB (nth_v 0 p)) (gStore gBrk (nth_v 1 p)) (gStore gB (nth_v 2 p)) (gStore gS (nth_v 3 p)) in
      let lv := nth_v 4 p in
      let l := Loc (gB (nth_v 0 lv)) (gB (nth_v 1 lv)) (gB (nth_v 2 lv)) (gB (nth_v 3 lv)) in
      vR vTrees (tokenize_at (named_of (nth_v 5 p)) k l (gS (nth_v 6 p)))
  | 10 => L [vB (brackets_valid (gS (nth_v 0 p))); vB (quotes_valid (gS (nth_v 1 p)))]
  | _ => L []
  end.
