(* C13/Brackets.v — unquoted brackets produce exactly the corresponding nesting,
   at the level of the token stream: parsing the tokens of any tree of bare
   words gives back that tree.  (That the lexer turns the rendered text into
   exactly these tokens is NOT proved here; it is covered by the differential
   run and the direct oracle on rendered trees.) *)
From Coq Require Import List NArith ZArith Bool Lia ZifyBool Arith.
Import ListNotations.
Require Import Base.Wire Base.PyStr C13.Utf8 C13.Model C13.Lemmas.
Require gen.T13.
Open Scope N_scope.

Lemma len_tail {A} (x : A) l f : (length (x :: l) < S f)%nat -> (length l < f)%nat.
Proof. cbn [length]. lia. Qed.
Lemma len_suffix {A} (a : list A) x b f : (length (a ++ x :: b) < f)%nat -> (length b < f)%nat.
Proof. rewrite app_length. cbn [length]. lia. Qed.

Section Brackets.
Variable named : bytes -> option N.
Variable t : tk.
Variables lb rb : N.
Hypothesis Hbrk : brk t = Some (lb, rb).
Hypothesis Hlr : lb =? rb = false.
Hypothesis Hlp : lb =? T13.PIPE = false.

(* a bare word token: not a bracket, not the pipe when the pipe syntax is on, does not start with a quote character *)
Definition bare_tok (w : str) : bool :=
  negb (seq_eqb w [lb]) && negb (seq_eqb w [rb]) && negb (seq_eqb w [T13.PIPE] && pipe t)
  && match w with [] => false | c :: _ => negb (mem c (quotes t)) end.

Fixpoint wf (x : tree) : bool :=
  match x with Leaf w => bare_tok w | Node l => forallb wf l end.

Fixpoint toks (x : tree) : list str :=
  match x with Leaf w => [w] | Node l => [lb] :: flat_map toks l ++ [[rb]] end.

Fixpoint tree_ind' (P : tree -> Prop) (HL : forall s, P (Leaf s))
         (HN : forall l, Forall P l -> P (Node l)) (x : tree) : P x :=
  match x with
  | Leaf s => HL s
  | Node l => HN l ((fix go (l : list tree) : Forall P l :=
                       match l with
                       | [] => Forall_nil P
                       | y :: l' => Forall_cons y (tree_ind' P HL HN y) (go l')
                       end) l)
  end.

Lemma left_facts : is_left t [lb] = true /\ is_right t [lb] = false /\ is_right t [rb] = true.
Proof.
  unfold is_left, is_right. rewrite Hbrk. cbn [seq_eqb]. rewrite !N.eqb_refl, Hlr. auto.
Qed.

Lemma bare_facts w : bare_tok w = true ->
  is_left t w = false /\ is_right t w = false /\ seq_eqb w [T13.PIPE] && pipe t = false /\ handle_token named t w = Ok w.
Proof.
  unfold bare_tok, is_left, is_right. rewrite Hbrk. intro H.
  apply andb_true_iff in H as [H H4]. apply andb_true_iff in H as [H H3]. apply andb_true_iff in H as [H1 H2].
  apply negb_true_iff in H1, H2, H3. repeat split; try assumption.
  unfold handle_token. destruct w as [|c w']; [discriminate|].
  apply negb_true_iff in H4. rewrite H4. rewrite andb_false_r. reflexivity.
Qed.

(* the statement for the children of a node *)
Definition Q (l : list tree) : Prop :=
  forall f rest e ret, (length (flat_map toks l ++ [rb] :: rest) < f)%nat ->
  inside named t f (flat_map toks l ++ [rb] :: rest) e ret = Ok (rev ret ++ l, rest).

Definition P (x : tree) : Prop := wf x = true -> match x with Leaf _ => True | Node l => Q l end.

Lemma Q_of_Forall l : Forall P l -> forallb wf l = true -> Q l.
Proof.
  destruct left_facts as [Hll [Hrl Hrr]].
  induction l as [|x l IH]; intros HP Hwf f rest e ret Hf.
  - cbn [flat_map app] in *. destruct f; [inversion Hf|]. cbn [inside]. rewrite Hrr. rewrite app_nil_r. reflexivity.
  - inversion HP as [|? ? Px Pl]; subst. cbn [forallb] in Hwf. apply andb_true_iff in Hwf as [Wx Wl].
    specialize (IH Pl Wl). cbn [flat_map] in *. rewrite <- app_assoc in *.
    destruct x as [w|l'].
    + cbn [toks app] in *. destruct f; [inversion Hf|]. cbn [inside]. apply len_tail in Hf.
      destruct (bare_facts w Wx) as [B1 [B2 [B3 B4]]]. rewrite B2, B1, B4.
      rewrite IH by exact Hf. cbn [rev]. rewrite <- app_assoc. reflexivity.
    + cbn [toks] in *. rewrite <- app_comm_cons in *. rewrite <- app_assoc in *.
      destruct f; [inversion Hf|]. cbn [inside]. rewrite Hrl, Hll.
      cbn [app] in *. apply len_tail in Hf.
      pose proof (Px Wx) as Ql'. unfold Q in Ql'.
      rewrite Ql' by exact Hf. cbn [rev app].
      rewrite IH by (apply len_suffix in Hf; exact Hf).
      cbn [rev]. rewrite <- app_assoc. reflexivity.
Qed.

Lemma P_all x : P x.
Proof.
  induction x as [s|l IH] using tree_ind'; intro Hwf; [exact Logic.I|].
  cbn [wf] in Hwf. apply Q_of_Forall; assumption.
Qed.

Lemma top_trees l : forall f args,
  forallb wf l = true -> (length (flat_map toks l) < f)%nat ->
  top named t f (flat_map toks l) None args [] = Ok (rev args ++ l).
Proof.
  destruct left_facts as [Hll [Hrl Hrr]].
  induction l as [|x l IH]; intros f args Hwf Hf.
  - destruct f; [inversion Hf|]. cbn [flat_map top finish]. rewrite app_nil_r. reflexivity.
  - cbn [forallb] in Hwf. apply andb_true_iff in Hwf as [Wx Wl]. cbn [flat_map] in *.
    destruct x as [w|l'].
    + cbn [toks app] in *. destruct f; [inversion Hf|]. cbn [top]. apply len_tail in Hf.
      destruct (bare_facts w Wx) as [B1 [B2 [B3 B4]]]. rewrite B3, B1, B2, B4.
      rewrite IH; [|exact Wl|exact Hf]. cbn [rev]. rewrite <- app_assoc. reflexivity.
    + cbn [toks] in *. rewrite <- app_comm_cons in *. rewrite <- app_assoc in *. cbn [app] in *.
      destruct f; [inversion Hf|]. cbn [top]. apply len_tail in Hf.
      assert (Hp : seq_eqb [lb] [T13.PIPE] = false) by (cbn [seq_eqb]; rewrite Hlp; reflexivity).
      rewrite Hp, Hll. cbn [andb].
      pose proof (P_all (Node l') Wx) as Ql'. cbn in Ql'. unfold Q in Ql'.
      rewrite Ql' by exact Hf.
      rewrite IH; [|exact Wl|apply len_suffix in Hf; exact Hf].
      cbn [rev]. rewrite <- app_assoc. reflexivity.
Qed.

(* ---- unbalanced brackets ---- *)
(* the stream ends inside an open bracket: Missing "]" *)
Lemma inside_unclosed l : forall f ret,
  forallb wf l = true -> (length (flat_map toks l) < f)%nat ->
  inside named t f (flat_map toks l) None ret = Raise SyntaxError.
Proof.
  destruct left_facts as [Hll [Hrl Hrr]].
  induction l as [|x l IH]; intros f ret Hwf Hf.
  - destruct f; [inversion Hf|]. reflexivity.
  - cbn [forallb] in Hwf. apply andb_true_iff in Hwf as [Wx Wl]. cbn [flat_map] in *.
    destruct x as [w|l'].
    + cbn [toks app] in *. destruct f; [inversion Hf|]. cbn [inside]. apply len_tail in Hf.
      destruct (bare_facts w Wx) as [B1 [B2 [B3 B4]]]. rewrite B2, B1, B4. apply IH; assumption.
    + cbn [toks] in *. rewrite <- app_comm_cons in *. rewrite <- app_assoc in *. cbn [app] in *.
      destruct f; [inversion Hf|]. cbn [inside]. apply len_tail in Hf. rewrite Hrl, Hll.
      pose proof (P_all (Node l') Wx) as Ql'. cbn in Ql'. unfold Q in Ql'.
      rewrite Ql' by exact Hf. apply IH; [exact Wl|apply len_suffix in Hf; exact Hf].
Qed.

Lemma top_unclosed l pre : forall f args,
  forallb wf pre = true -> forallb wf l = true ->
  (length (flat_map toks pre ++ [lb] :: flat_map toks l) < f)%nat ->
  top named t f (flat_map toks pre ++ [lb] :: flat_map toks l) None args [] = Raise SyntaxError.
Proof.
  destruct left_facts as [Hll [Hrl Hrr]].
  assert (Hp : seq_eqb [lb] [T13.PIPE] = false) by (cbn [seq_eqb]; rewrite Hlp; reflexivity).
  induction pre as [|x pre IH]; intros f args Wpre Wl Hf.
  - cbn [flat_map app] in *. destruct f; [inversion Hf|]. cbn [top]. apply len_tail in Hf.
    rewrite Hp, Hll. cbn [andb]. rewrite inside_unclosed by assumption. reflexivity.
  - cbn [forallb] in Wpre. apply andb_true_iff in Wpre as [Wx Wp]. cbn [flat_map] in *.
    rewrite <- app_assoc in *. destruct x as [w|l'].
    + cbn [toks app] in *. destruct f; [inversion Hf|]. cbn [top]. apply len_tail in Hf.
      destruct (bare_facts w Wx) as [B1 [B2 [B3 B4]]]. rewrite B3, B1, B2, B4. apply IH; assumption.
    + cbn [toks] in *. rewrite <- app_comm_cons in *. rewrite <- app_assoc in *. cbn [app] in *.
      destruct f; [inversion Hf|]. cbn [top]. apply len_tail in Hf. rewrite Hp, Hll. cbn [andb].
      pose proof (P_all (Node l') Wx) as Ql'. cbn in Ql'. unfold Q in Ql'.
      rewrite Ql' by exact Hf. apply IH; [exact Wp|exact Wl|apply len_suffix in Hf; exact Hf].
Qed.

(* a closing bracket with nothing open: Spurious "]" *)
Lemma top_spurious pre rest e : forall f args,
  rb =? T13.PIPE = false -> forallb wf pre = true ->
  (length (flat_map toks pre ++ [rb] :: rest) < f)%nat ->
  top named t f (flat_map toks pre ++ [rb] :: rest) e args [] = Raise SyntaxError.
Proof.
  destruct left_facts as [Hll [Hrl Hrr]]. intros f args Hrp.
  assert (Hp : seq_eqb [lb] [T13.PIPE] = false) by (cbn [seq_eqb]; rewrite Hlp; reflexivity).
  assert (Hpr : seq_eqb [rb] [T13.PIPE] = false) by (cbn [seq_eqb]; rewrite Hrp; reflexivity).
  assert (Hlrb : is_left t [rb] = false).
  { unfold is_left. rewrite Hbrk. cbn [seq_eqb]. rewrite N.eqb_sym, Hlr. reflexivity. }
  revert f args. induction pre as [|x pre IH]; intros f args Wpre Hf.
  - cbn [flat_map app] in *. destruct f; [inversion Hf|]. cbn [top].
    rewrite Hpr, Hlrb, Hrr. reflexivity.
  - cbn [forallb] in Wpre. apply andb_true_iff in Wpre as [Wx Wp]. cbn [flat_map] in *.
    rewrite <- app_assoc in *. destruct x as [w|l'].
    + cbn [toks app] in *. destruct f; [inversion Hf|]. cbn [top]. apply len_tail in Hf.
      destruct (bare_facts w Wx) as [B1 [B2 [B3 B4]]]. rewrite B3, B1, B2, B4. apply IH; assumption.
    + cbn [toks] in *. rewrite <- app_comm_cons in *. rewrite <- app_assoc in *. cbn [app] in *.
      destruct f; [inversion Hf|]. cbn [top]. apply len_tail in Hf. rewrite Hp, Hll. cbn [andb].
      pose proof (P_all (Node l') Wx) as Ql'. cbn in Ql'. unfold Q in Ql'.
      rewrite Ql' by exact Hf. apply IH; [exact Wp|apply len_suffix in Hf; exact Hf].
Qed.

End Brackets.

(* every configurable bracket pair meets the side conditions *)
Lemma valid_brackets_ok :
  forallb (fun b => match b with
                    | [l; r] => negb (l =? r) && negb (l =? T13.PIPE) && negb (r =? T13.PIPE)
                    | [] => true
                    | _ => false
                    end) T13.VALID_BRACKETS = true.
Proof. vm_compute. reflexivity. Qed.

Theorem brackets_tokens named t lb rb (l : list tree) :
  brk t = Some (lb, rb) -> lb =? rb = false -> lb =? T13.PIPE = false ->
  forallb (wf t lb rb) l = true ->
  top named t (S (length (flat_map (toks lb rb) l))) (flat_map (toks lb rb) l) None [] [] = Ok l.
Proof.
  intros Hb H1 H2 Hwf.
  change (Ok l) with (Ok (rev [] ++ l)).
  eapply top_trees; eauto using Nat.lt_succ_diag_r.
Qed.

Example brackets_example named :
  let t := Tk (Some (91, 93)) true [DQ] in
  let l := [Leaf [97]; Node [Node [Leaf [98]]; Leaf [99]; Node []]] in
  forallb (wf t 91 93) l = true /\
  flat_map (toks 91 93) l = fst (lex_all t [97; 32; 91; 91; 98; 93; 32; 99; 32; 91; 93; 93]) /\
  tokenizer_tokenize named t [97; 32; 91; 91; 98; 93; 32; 99; 32; 91; 93; 93] = Ok l.
Proof. repeat split; vm_compute; reflexivity. Qed.
