(* C13/Utf8.v — strict UTF-8 encoder/decoder over code-point lists (CPython's
   str.encode('utf8') / bytes.decode('utf8'), errors='strict') and the
   round-trip theorem  decode (encode s) = Ok s  for every scalar-value string.
   Reusable by other properties (Require Import C13.Utf8).
   The definitions are executable and total; the decoder accepts exactly the
   well-formed byte sequences of Unicode Table 3-7 (no overlongs, no
   surrogates, nothing above U+10FFFF). *)
From Coq Require Import List NArith ZArith Bool Lia ZifyBool.
Import ListNotations.
Require Import Base.Wire Base.PyStr.
Open Scope N_scope.

(* base-64 digits of c as facts for lia *)
Ltac dm c :=
  try replace (c / 262144) with (c / 64 / 64 / 64) in * by (rewrite !N.div_div by lia; reflexivity);
  try replace (c / 4096) with (c / 64 / 64) in * by (rewrite N.div_div by lia; reflexivity);
  pose proof (N.div_mod c 64 ltac:(lia)); pose proof (N.mod_lt c 64 ltac:(lia));
  pose proof (N.div_mod (c / 64) 64 ltac:(lia)); pose proof (N.mod_lt (c / 64) 64 ltac:(lia));
  pose proof (N.div_mod (c / 64 / 64) 64 ltac:(lia)); pose proof (N.mod_lt (c / 64 / 64) 64 ltac:(lia));
  let r3 := fresh "r3" in let q3 := fresh "q3" in let r2 := fresh "r2" in
  let q2 := fresh "q2" in let r1 := fresh "r1" in let q1 := fresh "q1" in
  set (r3 := (c / 64 / 64) mod 64) in *; set (q3 := c / 64 / 64 / 64) in *;
  set (r2 := (c / 64) mod 64) in *; set (q2 := c / 64 / 64) in *;
  set (r1 := c mod 64) in *; set (q1 := c / 64) in *;
  clearbody r3 q3 r2 q2 r1 q1.

Definition is_surrogate (c : N) : bool := (0xD800 <=? c) && (c <=? 0xDFFF).
(* a Unicode scalar value: what a Python str can hold minus lone surrogates *)
Definition scalar (c : N) : bool := (c <=? 0x10FFFF) && negb (is_surrogate c).

(* one code point -> its UTF-8 bytes; surrogates (and > U+10FFFF, which a Python
   str cannot hold) raise UnicodeEncodeError *)
Definition utf8_enc1 (c : N) : res bytes :=
  if c <? 0x80 then Ok [c]
  else if c <? 0x800 then Ok [0xC0 + c / 64; 0x80 + c mod 64]
  else if c <? 0x10000 then
    if is_surrogate c then Raise UnicodeError
    else Ok [0xE0 + c / 4096; 0x80 + (c / 64) mod 64; 0x80 + c mod 64]
  else if c <=? 0x10FFFF then
    Ok [0xF0 + c / 262144; 0x80 + (c / 4096) mod 64; 0x80 + (c / 64) mod 64; 0x80 + c mod 64]
  else Raise UnicodeError.

Fixpoint utf8_encode (s : str) : res bytes :=
  match s with
  | [] => Ok []
  | c :: s' =>
      do b <- utf8_enc1 c;
      do r <- utf8_encode s';
      Ok (b ++ r)
  end.

Definition cont (b : N) : bool := (0x80 <=? b) && (b <=? 0xBF).
(* allowed range of the second byte, by lead byte (Table 3-7) *)
Definition lo2 (b0 : N) : N := if b0 =? 0xE0 then 0xA0 else if b0 =? 0xF0 then 0x90 else 0x80.
Definition hi2 (b0 : N) : N := if b0 =? 0xED then 0x9F else if b0 =? 0xF4 then 0x8F else 0xBF.
Definition second_ok (b0 b1 : N) : bool := (lo2 b0 <=? b1) && (b1 <=? hi2 b0).

Definition cons_res {A} (x : A) (r : res (list A)) : res (list A) :=
  match r with Ok l => Ok (x :: l) | Raise e => Raise e end.

Fixpoint utf8_decode (bs : bytes) : res str :=
  match bs with
  | [] => Ok []
  | b0 :: r0 =>
      if b0 <? 0x80 then cons_res b0 (utf8_decode r0)
      else if b0 <? 0xC2 then Raise UnicodeError
      else if b0 <? 0xE0 then
        match r0 with
        | b1 :: r1 =>
            if cont b1 then cons_res ((b0 - 0xC0) * 64 + (b1 - 0x80)) (utf8_decode r1)
            else Raise UnicodeError
        | _ => Raise UnicodeError
        end
      else if b0 <? 0xF0 then
        match r0 with
        | b1 :: b2 :: r2 =>
            if second_ok b0 b1 && cont b2 then
              cons_res ((b0 - 0xE0) * 4096 + (b1 - 0x80) * 64 + (b2 - 0x80)) (utf8_decode r2)
            else Raise UnicodeError
        | _ => Raise UnicodeError
        end
      else if b0 <? 0xF5 then
        match r0 with
        | b1 :: b2 :: b3 :: r3 =>
            if second_ok b0 b1 && cont b2 && cont b3 then
              cons_res ((b0 - 0xF0) * 262144 + (b1 - 0x80) * 4096 + (b2 - 0x80) * 64 + (b3 - 0x80))
                       (utf8_decode r3)
            else Raise UnicodeError
        | _ => Raise UnicodeError
        end
      else Raise UnicodeError
  end.

(* s.encode('iso-8859-1'): None when some code point is >= 256 *)
Fixpoint latin1_encode (s : str) : option bytes :=
  match s with
  | [] => Some []
  | c :: s' =>
      if c <? 256 then match latin1_encode s' with Some r => Some (c :: r) | None => None end
      else None
  end.

Definition is_byte (b : N) : bool := b <? 256.
Definition is_ascii (c : N) : bool := c <? 128.

(* ------------------------------------------------------------------ *)
(* Lemmas *)

Lemma Ok_inj {A} (a b : A) : Ok a = Ok b -> a = b.
Proof. intro H. injection H. auto. Qed.

Lemma scalar_enc1_ok c : scalar c = true -> exists b, utf8_enc1 c = Ok b.
Proof.
  unfold scalar, utf8_enc1. intro H.
  destruct (c <? 0x80); [eauto|]. destruct (c <? 0x800); [eauto|].
  destruct (c <? 0x10000).
  - destruct (is_surrogate c); [simpl in H; rewrite andb_false_r in H; discriminate|eauto].
  - destruct (c <=? 0x10FFFF); [eauto|discriminate].
Qed.

(* one-step equations of the decoder, by lead-byte class *)
Lemma dec1 b0 rest : b0 <? 0x80 = true -> utf8_decode (b0 :: rest) = cons_res b0 (utf8_decode rest).
Proof. intro H. cbn [utf8_decode]. rewrite H. reflexivity. Qed.

Lemma dec2 b0 b1 rest :
  0xC2 <= b0 < 0xE0 -> cont b1 = true ->
  utf8_decode (b0 :: b1 :: rest) = cons_res ((b0 - 0xC0) * 64 + (b1 - 0x80)) (utf8_decode rest).
Proof.
  intros H C. cbn [utf8_decode].
  replace (b0 <? 0x80) with false by lia. replace (b0 <? 0xC2) with false by lia.
  replace (b0 <? 0xE0) with true by lia. rewrite C. reflexivity.
Qed.

Lemma dec3 b0 b1 b2 rest :
  0xE0 <= b0 < 0xF0 -> second_ok b0 b1 = true -> cont b2 = true ->
  utf8_decode (b0 :: b1 :: b2 :: rest)
  = cons_res ((b0 - 0xE0) * 4096 + (b1 - 0x80) * 64 + (b2 - 0x80)) (utf8_decode rest).
Proof.
  intros H S C. cbn [utf8_decode].
  replace (b0 <? 0x80) with false by lia. replace (b0 <? 0xC2) with false by lia.
  replace (b0 <? 0xE0) with false by lia. replace (b0 <? 0xF0) with true by lia.
  rewrite S, C. reflexivity.
Qed.

Lemma dec4 b0 b1 b2 b3 rest :
  0xF0 <= b0 < 0xF5 -> second_ok b0 b1 = true -> cont b2 = true -> cont b3 = true ->
  utf8_decode (b0 :: b1 :: b2 :: b3 :: rest)
  = cons_res ((b0 - 0xF0) * 262144 + (b1 - 0x80) * 4096 + (b2 - 0x80) * 64 + (b3 - 0x80)) (utf8_decode rest).
Proof.
  intros H S C C'. cbn [utf8_decode].
  replace (b0 <? 0x80) with false by lia. replace (b0 <? 0xC2) with false by lia.
  replace (b0 <? 0xE0) with false by lia. replace (b0 <? 0xF0) with false by lia.
  replace (b0 <? 0xF5) with true by lia.
  rewrite S, C, C'. reflexivity.
Qed.

Lemma second_ok_intro b0 b1 :
  (b0 = 0xE0 -> 0xA0 <= b1) -> (b0 = 0xF0 -> 0x90 <= b1) -> (b0 = 0xED -> b1 <= 0x9F) ->
  (b0 = 0xF4 -> b1 <= 0x8F) -> 0x80 <= b1 <= 0xBF -> second_ok b0 b1 = true.
Proof.
  intros A B C D E. unfold second_ok, lo2, hi2.
  destruct (b0 =? 0xE0) eqn:E1; destruct (b0 =? 0xF0) eqn:E2;
    destruct (b0 =? 0xED) eqn:E3; destruct (b0 =? 0xF4) eqn:E4; lia.
Qed.

(* decoding the encoding of one code point in front of any tail *)
Lemma decode_enc1 c b rest :
  utf8_enc1 c = Ok b -> utf8_decode (b ++ rest) = cons_res c (utf8_decode rest).
Proof.
  unfold utf8_enc1. intro H. dm c.
  destruct (c <? 0x80) eqn:E1.
  { apply Ok_inj in H; subst b. rewrite <- ?app_comm_cons, ?app_nil_l. apply dec1. exact E1. }
  destruct (c <? 0x800) eqn:E2.
  { apply Ok_inj in H; subst b. rewrite <- ?app_comm_cons, ?app_nil_l. rewrite dec2; [f_equal; lia|lia|unfold cont; lia]. }
  destruct (c <? 0x10000) eqn:E3.
  { destruct (is_surrogate c) eqn:Es; [discriminate|]. unfold is_surrogate in Es.
    apply Ok_inj in H; subst b. rewrite <- ?app_comm_cons, ?app_nil_l.
    rewrite dec3; [f_equal; lia|lia| |unfold cont; lia].
    apply second_ok_intro; lia. }
  destruct (c <=? 0x10FFFF) eqn:E4; [|discriminate].
  apply Ok_inj in H; subst b. rewrite <- ?app_comm_cons, ?app_nil_l.
  rewrite dec4; [f_equal; lia|lia| |unfold cont; lia|unfold cont; lia].
  apply second_ok_intro; lia.
Qed.

Lemma utf8_encode_ok s : forallb scalar s = true -> exists b, utf8_encode s = Ok b.
Proof.
  induction s as [|c s IH]; intro H; [exists []; reflexivity|].
  simpl in H. apply andb_true_iff in H as [Hc Hs].
  destruct (scalar_enc1_ok c Hc) as [b Hb]. destruct (IH Hs) as [r Hr].
  exists (b ++ r). cbn [utf8_encode]. rewrite Hb, Hr. reflexivity.
Qed.

(* The round trip: whatever str.encode('utf8') produces, bytes.decode('utf8') maps back. *)
Theorem utf8_decode_encode s b : utf8_encode s = Ok b -> utf8_decode b = Ok s.
Proof.
  revert b. induction s as [|c s IH]; intros b H.
  - inversion H. reflexivity.
  - cbn [utf8_encode] in H.
    destruct (utf8_enc1 c) as [bc|] eqn:Ec; [|discriminate]. cbn [bind] in H.
    destruct (utf8_encode s) as [r|] eqn:Er; [|discriminate]. cbn [bind] in H.
    inversion H; subst. rewrite (decode_enc1 c bc r Ec). rewrite (IH r eq_refl). reflexivity.
Qed.

Corollary utf8_roundtrip_scalar s :
  forallb scalar s = true -> exists b, utf8_encode s = Ok b /\ utf8_decode b = Ok s.
Proof.
  intro H. destruct (utf8_encode_ok s H) as [b Hb]. exists b. split; [exact Hb|].
  apply utf8_decode_encode. exact Hb.
Qed.

(* encoder output is bytes, and multi-byte sequences contain no ASCII byte *)
Lemma enc1_bytes c b : utf8_enc1 c = Ok b -> forallb is_byte b = true.
Proof.
  unfold utf8_enc1, is_byte. intro H. dm c.
  destruct (c <? 0x80) eqn:E1; [apply Ok_inj in H; subst b; unfold forallb; lia|].
  destruct (c <? 0x800) eqn:E2; [apply Ok_inj in H; subst b; unfold forallb; lia|].
  destruct (c <? 0x10000) eqn:E3.
  { destruct (is_surrogate c); [discriminate|]. apply Ok_inj in H; subst b. unfold forallb; lia. }
  destruct (c <=? 0x10FFFF) eqn:E4; [|discriminate]. apply Ok_inj in H; subst b. unfold forallb; lia.
Qed.

Lemma enc1_ascii c b : utf8_enc1 c = Ok b -> c <? 0x80 = true -> b = [c].
Proof. unfold utf8_enc1. intros H E. rewrite E in H. inversion H. reflexivity. Qed.

Lemma enc1_nonascii c b :
  utf8_enc1 c = Ok b -> c <? 0x80 = false -> forallb (fun x => 0x80 <=? x) b = true.
Proof.
  unfold utf8_enc1. intros H E1. rewrite E1 in H. dm c.
  destruct (c <? 0x800) eqn:E2; [apply Ok_inj in H; subst b; unfold forallb; lia|].
  destruct (c <? 0x10000) eqn:E3.
  { destruct (is_surrogate c); [discriminate|]. apply Ok_inj in H; subst b. unfold forallb; lia. }
  destruct (c <=? 0x10FFFF) eqn:E4; [|discriminate]. apply Ok_inj in H; subst b. unfold forallb; lia.
Qed.

Lemma utf8_encode_bytes s b : utf8_encode s = Ok b -> forallb is_byte b = true.
Proof.
  revert b. induction s as [|c s IH]; intros b H.
  - inversion H. reflexivity.
  - cbn [utf8_encode] in H.
    destruct (utf8_enc1 c) as [bc|] eqn:Ec; [|discriminate]. cbn [bind] in H.
    destruct (utf8_encode s) as [r|] eqn:Er; [|discriminate]. cbn [bind] in H.
    inversion H; subst. rewrite forallb_app. rewrite (enc1_bytes _ _ Ec), (IH r eq_refl). reflexivity.
Qed.

Lemma latin1_encode_bytes b : forallb is_byte b = true -> latin1_encode b = Some b.
Proof.
  induction b as [|x b IH]; intro H; [reflexivity|].
  simpl in H. apply andb_true_iff in H as [Hx Hb]. unfold is_byte in Hx.
  cbn [latin1_encode]. rewrite Hx, (IH Hb). reflexivity.
Qed.

Lemma utf8_encode_app a b ra rb :
  utf8_encode a = Ok ra -> utf8_encode b = Ok rb -> utf8_encode (a ++ b) = Ok (ra ++ rb).
Proof.
  revert ra. induction a as [|c a IH]; intros ra Ha Hb.
  - inversion Ha. exact Hb.
  - cbn [utf8_encode app] in *.
    destruct (utf8_enc1 c) as [bc|] eqn:Ec; [|discriminate]. cbn [bind] in *.
    destruct (utf8_encode a) as [r|] eqn:Er; [|discriminate]. cbn [bind] in *.
    inversion Ha; subst. rewrite (IH r eq_refl Hb). cbn [bind]. rewrite app_assoc. reflexivity.
Qed.

Example utf8_example :
  utf8_encode [0x41; 0xE9; 0x597D; 0x1F600] = Ok [0x41; 0xC3; 0xA9; 0xE5; 0xA5; 0xBD; 0xF0; 0x9F; 0x98; 0x80]
  /\ utf8_decode [0xC0; 0x80] = Raise UnicodeError
  /\ utf8_decode [0xED; 0xA0; 0x80] = Raise UnicodeError
  /\ utf8_decode [0xC2; 0x80] = Ok [0x80].
Proof. repeat split. Qed.
