(* C20/Sort.v — the layered extraction loop of Irc.addCallback, for every oracle *)
From Coq Require Import List NArith Bool Arith Lia Permutation.
Import ListNotations.
Require Import Base.Wire Base.PyStr C20.Model C20.AuxList.

Definition perm_oracle (o : list cb -> list cb) : Prop := forall l, Permutation (o l) l.

Section Loop.
Variable orc : list cb -> list cb.
Hypothesis Horc : perm_oracle orc.
Variable all : list cb.
Hypothesis Hnd : NoDup (ids all).
Variable E0 : list (N * N).

(* loop invariant *)
Record Inv (done : list cb) (edges : list (N * N)) : Prop := {
  inv_nd : NoDup (ids done);
  inv_incl : incl done all;
  inv_edges : forall e, In e edges -> In e E0 /\ ~ In (fst e) (ids done);
  inv_placed : forall a b, In (a, b) E0 ->
      (In (a, b) edges /\ ~ In b (ids done)) \/
      (exists l1 l2, done = l1 ++ l2 /\ In a (ids l1) /\ ~ In b (ids l1))
}.

Lemma Inv_init : Inv [] E0.
Proof.
  constructor; simpl; auto.
  - constructor.
  - intros x [].
Qed.

Lemma firsts_in v done edges :
  In v (get_firsts all done edges) ->
  In v all /\ ~ In (cid v) (ids done) /\ forall e, In e edges -> snd e <> cid v.
Proof.
  unfold get_firsts. intro H. apply filter_In in H as [Hin H].
  apply andb_true_iff in H as [H1 H2]. apply negb_true_iff in H1, H2.
  split; [exact Hin|]. split; [apply in_ids_false; exact H1|].
  intros e He Eq. assert (existsb (fun e => N.eqb (snd e) (cid v)) edges = true).
  { apply existsb_exists. exists e. split; [exact He|apply N.eqb_eq; exact Eq]. }
  congruence.
Qed.

Lemma Inv_step done edges :
  Inv done edges ->
  let ord := orc (get_firsts all done edges) in
  Inv (done ++ ord) (filter (fun e => negb (in_ids (fst e) ord)) edges).
Proof.
  intros [Hnd' Hincl Hed Hpl] ord.
  assert (Hperm : Permutation ord (get_firsts all done edges)) by apply Horc.
  assert (Hord : forall v, In v ord -> In v all /\ ~ In (cid v) (ids done) /\
                                        forall e, In e edges -> snd e <> cid v).
  { intros v Hv. apply firsts_in. eapply Permutation_in; eauto. }
  constructor.
  - rewrite ids_app. apply NoDup_app_intro; [exact Hnd'| |].
    + apply (Permutation_NoDup (l := ids (get_firsts all done edges))).
      * apply Permutation_map. apply Permutation_sym. exact Hperm.
      * unfold get_firsts, ids. apply NoDup_map_filter. exact Hnd.
    + intros x Hx Hx2. apply in_map_iff in Hx2 as [v [Ev Hv]]. subst x.
      destruct (Hord v Hv) as [_ [Hn _]]. contradiction.
  - intros v Hv. apply in_app_iff in Hv as [Hv|Hv]; [apply Hincl; exact Hv|].
    apply (Hord v Hv).
  - intros e He. apply filter_In in He as [He Hf]. apply negb_true_iff in Hf.
    apply in_ids_false in Hf. destruct (Hed e He) as [H0 Hsrc].
    split; [exact H0|]. rewrite ids_app, in_app_iff. tauto.
  - intros a b Hab. destruct (Hpl a b Hab) as [[Hin Hb]|[l1 [l2 [Ed [Ha Hb]]]]].
    + destruct (in_ids a ord) eqn:Ea.
      * right. exists (done ++ ord), []. rewrite app_nil_r. split; [reflexivity|].
        rewrite ids_app, !in_app_iff. split; [right; apply in_ids_In; exact Ea|].
        intros [Hb'|Hb']; [contradiction|].
        apply in_map_iff in Hb' as [v [Ev Hv]]. destruct (Hord v Hv) as [_ [_ Hno]].
        apply (Hno (a, b) Hin). simpl. congruence.
      * left. split.
        -- apply filter_In. split; [exact Hin|]. simpl. rewrite Ea. reflexivity.
        -- rewrite ids_app, in_app_iff. intros [Hb'|Hb']; [contradiction|].
           apply in_map_iff in Hb' as [v [Ev Hv]]. destruct (Hord v Hv) as [_ [_ Hno]].
           apply (Hno (a, b) Hin). simpl. congruence.
    + right. exists l1, (l2 ++ ord). rewrite Ed, app_assoc. auto.
Qed.

Lemma Inv_length done edges : Inv done edges -> (length done <= length all)%nat.
Proof.
  intros [Hnd' Hincl _ _]. apply NoDup_incl_length; [|exact Hincl].
  apply (NoDup_map_NoDup cid). exact Hnd'.
Qed.

(* the loop terminates within the fuel, in a state satisfying the invariant with no firsts left *)
Lemma sort_loop_spec fuel : forall done edges,
  Inv done edges -> (length all < fuel + length done)%nat ->
  exists done' edges', sort_loop orc fuel all done edges = Some done' /\
                       Inv done' edges' /\ get_firsts all done' edges' = [].
Proof.
  induction fuel as [|f IH]; intros done edges HI Hlen.
  - pose proof (Inv_length _ _ HI). lia.
  - simpl. destruct (get_firsts all done edges) as [|c0 F] eqn:EF.
    + exists done, edges. auto.
    + pose proof (Inv_step _ _ HI) as HS. simpl in HS. rewrite EF in HS.
      apply IH; [exact HS|].
      rewrite app_length. pose proof (Permutation_length (Horc (c0 :: F))) as HL.
      simpl in HL. lia.
Qed.

(* consequences of the invariant once every callback has been extracted *)
Lemma Inv_full_perm done edges :
  Inv done edges -> length done = length all -> Permutation done all.
Proof.
  intros [Hnd' Hincl _ _] HL. apply NoDup_Permutation_bis; [|lia|exact Hincl].
  apply (NoDup_map_NoDup cid). exact Hnd'.
Qed.

Lemma Inv_full_edges done edges :
  Inv done edges -> length done = length all ->
  forall a b, In (a, b) E0 -> In a (ids all) -> (idx a (ids done) < idx b (ids done))%nat.
Proof.
  intros HI HL a b Hab Ha.
  pose proof (Inv_full_perm _ _ HI HL) as HP.
  assert (Ha' : In a (ids done)).
  { apply (Permutation_in (l := ids all)); [|exact Ha]. apply Permutation_map, Permutation_sym, HP. }
  destruct HI as [_ _ Hed Hpl].
  destruct (Hpl a b Hab) as [[Hin _]|[l1 [l2 [Ed [Ha1 Hb1]]]]].
  - destruct (Hed _ Hin) as [_ Hsrc]. simpl in Hsrc. contradiction.
  - rewrite Ed, ids_app. apply idx_split_lt; assumption.
Qed.

(* completeness: a ranked edge set leaves nothing behind *)
Lemma Inv_ranked_full done edges (rank : N -> nat) :
  Inv done edges -> get_firsts all done edges = [] ->
  (forall a b, In (a, b) E0 -> In a (ids all) /\ (rank a < rank b)%nat) ->
  length done = length all.
Proof.
  intros HI HF HR.
  assert (Hall : forall v, In v all -> In (cid v) (ids done)).
  { intros v Hv. destruct (in_ids (cid v) done) eqn:Ev; [apply in_ids_In; exact Ev|]. exfalso.
    destruct (min_elt (fun c => rank (cid c)) (fun c => negb (in_ids (cid c) done)) all) as [m [Hm [Pm Hmin]]].
    { exists v. split; [exact Hv|]. rewrite Ev. reflexivity. }
    apply negb_true_iff in Pm.
    assert (Hnf : ~ In m (get_firsts all done edges)) by (rewrite HF; intros []).
    unfold get_firsts in Hnf. rewrite filter_In in Hnf.
    destruct (existsb (fun e => N.eqb (snd e) (cid m)) edges) eqn:Ex.
    - apply existsb_exists in Ex as [[a b] [He Eb]]. simpl in Eb. apply N.eqb_eq in Eb. subst b.
      destruct HI as [_ _ Hed _]. destruct (Hed _ He) as [H0 Hsrc]. simpl in Hsrc.
      destruct (HR _ _ H0) as [Ha Hlt].
      apply in_map_iff in Ha as [u [Eu Hu]]. subst a.
      assert (Pu : negb (in_ids (cid u) done) = true).
      { apply negb_true_iff. apply in_ids_false. exact Hsrc. }
      specialize (Hmin u Hu Pu). simpl in Hmin. lia.
    - apply Hnf. split; [exact Hm|]. rewrite Pm. reflexivity. }
  apply Nat.le_antisymm; [eapply Inv_length; eauto|].
  replace (length all) with (length (ids all)) by apply map_length.
  replace (length done) with (length (ids done)) by apply map_length.
  apply NoDup_incl_length; [exact Hnd|].
  intros x Hx. apply in_map_iff in Hx as [v [Ev Hv]]. subst x. apply Hall. exact Hv.
Qed.
End Loop.
