(* C20/Dispatch.v — command resolution over the registered callbacks *)
From Coq Require Import List NArith Bool Arith Lia Permutation.
Import ListNotations.
Require Import Base.Wire Base.PyStr C20.Model C20.AuxList.

Section Dispatch.
Variable lower canon : str -> str.
Variable g : cfg.

Section Args.
Variable args : list str.
Let gc (c : cb) : nat := get_command canon c args.

Fixpoint lmax (cbs : list cb) : nat :=
  match cbs with [] => O | c :: t => Nat.max (get_command canon c args) (lmax t) end.

(* the candidates: callbacks whose getCommand prefix is non-empty and of maximal length *)
Definition sel_spec (M : nat) (cbs : list cb) : list cb :=
  filter (fun c => Nat.ltb 0 (get_command canon c args) && Nat.eqb (get_command canon c args) M) cbs.

Lemma get_command_le2 c : (get_command canon c args <= 2)%nat.
Proof.
  unfold get_command. destruct args as [|a [|b r]]; [lia| |].
  - destruct (is_cmd c a); lia.
  - destruct (seq_eqb a (cb_canon canon c) && is_cmd c b); [lia|]. destruct (is_cmd c a); lia.
Qed.

Lemma fc_loop_spec cbs : forall m acc,
  let '(M, acc') := fc_loop canon cbs args m acc in
  M = Nat.max m (lmax cbs) /\
  map fst (filter (fun p => Nat.eqb (snd p) M) acc') =
  map fst (filter (fun p => Nat.eqb (snd p) M) acc) ++ sel_spec M cbs.
Proof.
  induction cbs as [|c t IH]; intros m acc; simpl.
  - split; [lia|]. rewrite app_nil_r. reflexivity.
  - set (l := get_command canon c args).
    destruct (Nat.ltb 0 l && Nat.leb m l) eqn:Ec.
    + apply andb_true_iff in Ec as [E1 E2]. apply Nat.ltb_lt in E1. apply Nat.leb_le in E2.
      specialize (IH l (acc ++ [(c, l)])). destruct (fc_loop canon t args l (acc ++ [(c, l)])) as [M acc'].
      destruct IH as [EM EF]. split; [lia|]. rewrite EF. rewrite filter_app, map_app. simpl.
      unfold sel_spec. simpl. fold l. assert (Nat.ltb 0 l = true) as -> by (apply Nat.ltb_lt; lia). simpl.
      destruct (Nat.eqb l M); simpl; rewrite <- app_assoc; reflexivity.
    + specialize (IH m acc). destruct (fc_loop canon t args m acc) as [M acc'].
      destruct IH as [EM EF]. apply andb_false_iff in Ec.
      assert (Hl : l = O \/ (l < m)%nat).
      { destruct Ec as [Ec|Ec]; [left; apply Nat.ltb_ge in Ec; lia|right; apply Nat.leb_gt in Ec; lia]. }
      split; [lia|]. rewrite EF. unfold sel_spec. simpl. fold l.
      destruct (Nat.ltb 0 l && Nat.eqb l M) eqn:E2; [|reflexivity]. exfalso.
      apply andb_true_iff in E2 as [E3 E4]. apply Nat.ltb_lt in E3. apply Nat.eqb_eq in E4. lia.
Qed.

Lemma lmax_ge cbs c : In c cbs -> (gc c <= lmax cbs)%nat.
Proof.
  induction cbs as [|d t IH]; simpl; intro H; [contradiction|].
  destruct H as [H|H]; [subst; unfold gc; lia|]. specialize (IH H). lia.
Qed.

Lemma lmax_le cbs n : (forall c, In c cbs -> (gc c <= n)%nat) -> (lmax cbs <= n)%nat.
Proof.
  induction cbs as [|d t IH]; cbn [lmax]; intro H; [lia|].
  pose proof (H d (or_introl eq_refl)). unfold gc in *.
  assert (lmax t <= n)%nat by (apply IH; intros c Hc; apply H; right; exact Hc). lia.
Qed.

Lemma lmax_attained cbs : (0 < lmax cbs)%nat -> exists c, In c cbs /\ gc c = lmax cbs.
Proof.
  induction cbs as [|d t IH]; simpl; intro H; [lia|].
  destruct (le_lt_dec (lmax t) (get_command canon d args)).
  - exists d. split; [left; reflexivity|unfold gc; lia].
  - destruct IH as [c [Hc Ec]]; [lia|]. exists c. split; [right; exact Hc|]. rewrite Ec. lia.
Qed.

Lemma sel_spec_in M cbs c : In c (sel_spec M cbs) <-> In c cbs /\ (0 < gc c)%nat /\ gc c = M.
Proof.
  unfold sel_spec. rewrite filter_In, andb_true_iff, Nat.ltb_lt, Nat.eqb_eq. reflexivity.
Qed.

(* the loop computes the maximal prefix length and exactly the callbacks attaining it *)
Lemma fc_loop_top cbs :
  fst (fc_loop canon cbs args 0 []) = lmax cbs /\
  map fst (filter (fun p => Nat.eqb (snd p) (lmax cbs)) (snd (fc_loop canon cbs args 0 []))) =
  sel_spec (lmax cbs) cbs.
Proof.
  pose proof (fc_loop_spec cbs 0 []) as H. destruct (fc_loop canon cbs args 0 []) as [M acc'].
  destruct H as [EM EF]. simpl in *. subst M. split; [reflexivity|exact EF].
Qed.

(* the three tie-breaking rules of findCallbacksForArgs, as a function of the candidates *)
Definition rules (cbs sel : list cb) : list cb := tie_rules lower canon g cbs sel (hd [] args).

Lemma find_callbacks_eq cbs :
  find_callbacks lower canon g cbs args =
  (lmax cbs, if Nat.eqb (lmax cbs) 1 then rules cbs (sel_spec (lmax cbs) cbs) else sel_spec (lmax cbs) cbs).
Proof.
  unfold find_callbacks. destruct (fc_loop_top cbs) as [E1 E2].
  destruct (fc_loop canon cbs args 0 []) as [M acc']. simpl in E1, E2. subst M. rewrite E2.
  unfold rules. destruct (Nat.eqb (lmax cbs) 1); reflexivity.
Qed.

Lemma imp_filter_in sel x l :
  filter (fun c => existsb (seq_eqb (cb_canon canon c)) (map canon (c_important g))) sel = x :: l -> In x sel.
Proof.
  intro E. assert (H : In x (x :: l)) by (left; reflexivity). rewrite <- E in H.
  apply filter_In in H. tauto.
Qed.

(* whatever the rules pick is among the candidates *)
Lemma rules_incl cbs sel : NoDup (ids cbs) -> incl sel cbs -> incl (rules cbs sel) sel.
Proof.
  intros Hnd Hs. unfold rules, tie_rules.
  destruct (find _ sel) as [c|] eqn:Ef.
  { apply find_some in Ef as [Hc _]. intros x [<-|[]]. exact Hc. }
  destruct (default_cb lower g cbs sel (hd [] args)) as [c|] eqn:Ed.
  { intros x [<-|[]]. unfold default_cb in Ed.
    destruct (dict_get (hd [] args) (c_defaults g)) as [[|d0 dp]|]; try discriminate.
    destruct (get_callback lower cbs (d0 :: dp)) as [c'|] eqn:Eg; [|discriminate].
    destruct (cb_in c' sel) eqn:Ei; [|discriminate]. inversion Ed; subst c'.
    unfold cb_in in Ei. apply in_ids_In in Ei. apply in_map_iff in Ei as [d [Ed' Hd]].
    unfold get_callback in Eg. apply find_some in Eg as [Hc _].
    assert (d = c) by (apply (NoDup_map_inj cid cbs); auto). subst. exact Hd. }
  destruct (filter _ sel) as [|x [|y r]] eqn:Efl; try apply incl_refl.
  intros z [<-|[]]. eapply imp_filter_in; eauto.
Qed.

(* the rules never turn a non-empty candidate list into an empty one, and return one callback or all *)
Lemma rules_shape cbs sel : (exists c, rules cbs sel = [c]) \/ rules cbs sel = sel.
Proof.
  unfold rules, tie_rules. destruct (find _ sel); [left; eauto|].
  destruct (default_cb lower g cbs sel (hd [] args)); [left; eauto|].
  destruct (filter _ sel) as [|x [|y r]]; [right; reflexivity|left; eauto|right; reflexivity].
Qed.

(* ---- soundness: only commands of registered callbacks resolve ---- *)
Lemma final_eval_call cbs c k :
  NoDup (ids cbs) -> final_eval lower canon g cbs args = Call c k ->
  In c cbs /\ (0 < k)%nat /\ get_command canon c args = k.
Proof.
  intros Hnd H. unfold final_eval in H. rewrite find_callbacks_eq in H.
  set (M := lmax cbs) in *. set (sel := sel_spec M cbs) in *.
  assert (Hin : forall l, (if Nat.eqb M 1 then rules cbs sel else sel) = l -> incl l sel).
  { intros l <-. destruct (Nat.eqb M 1); [apply rules_incl; auto|apply incl_refl].
    intros x Hx. apply sel_spec_in in Hx. tauto. }
  destruct (if Nat.eqb M 1 then rules cbs sel else sel) as [|x [|y r]] eqn:El; try discriminate.
  inversion H; subst. assert (In c sel) by (apply (Hin _ eq_refl); left; reflexivity).
  apply sel_spec_in in H0. unfold gc in H0. fold M in H0. intuition; lia.
Qed.

(* the ambiguity error lists ALL callbacks having the command, and there are at least two *)
Lemma final_eval_ambiguous cbs l :
  final_eval lower canon g cbs args = Ambiguous l ->
  l = sel_spec (lmax cbs) cbs /\ (2 <= length l)%nat.
Proof.
  intro H. unfold final_eval in H. rewrite find_callbacks_eq in H.
  destruct (Nat.eqb (lmax cbs) 1).
  - destruct (rules_shape cbs (sel_spec (lmax cbs) cbs)) as [[c Ec]|Er].
    + rewrite Ec in H. discriminate.
    + rewrite Er in H. destruct (sel_spec (lmax cbs) cbs) as [|x [|y r]]; try discriminate.
      inversion H; subst. split; [reflexivity|simpl; lia].
  - destruct (sel_spec (lmax cbs) cbs) as [|x [|y r]]; try discriminate.
    inversion H; subst. split; [reflexivity|simpl; lia].
Qed.

Lemma final_eval_ambiguous_iff cbs l :
  final_eval lower canon g cbs args = Ambiguous l ->
  (2 <= length l)%nat /\
  forall c, In c l <-> (In c cbs /\ (0 < get_command canon c args)%nat /\
                        forall d, In d cbs -> (get_command canon d args <= get_command canon c args)%nat).
Proof.
  intro H. destruct (final_eval_ambiguous cbs l H) as [-> Hlen]. split; [exact Hlen|].
  intro c. rewrite sel_spec_in. unfold gc. split.
  - intros [Hc [Hp Em]]. split; [exact Hc|]. split; [exact Hp|]. intros d Hd. rewrite Em. apply (lmax_ge cbs d Hd).
  - intros [Hc [Hp Hmax]]. split; [exact Hc|]. split; [exact Hp|].
    apply Nat.le_antisymm; [apply (lmax_ge cbs c Hc)|].
    destruct (lmax_attained cbs) as [d [Hd Ed]].
    + pose proof (lmax_ge cbs c Hc). unfold gc in *. lia.
    + unfold gc in Ed. rewrite <- Ed. apply Hmax. exact Hd.
Qed.

(* ---- nothing resolves iff no registered callback has the command ---- *)
Lemma final_eval_invalid cbs :
  final_eval lower canon g cbs args = Invalid <-> forall c, In c cbs -> get_command canon c args = O.
Proof.
  unfold final_eval. rewrite find_callbacks_eq. split.
  - intros H c Hc. destruct (Nat.eq_dec (lmax cbs) 0) as [E|NE].
    + pose proof (lmax_ge cbs c Hc). unfold gc in *. lia.
    + exfalso. destruct (lmax_attained cbs) as [d [Hd Ed]]; [lia|].
      assert (Hs : In d (sel_spec (lmax cbs) cbs)) by (apply sel_spec_in; unfold gc in *; repeat split; auto; lia).
      destruct (Nat.eqb (lmax cbs) 1).
      * destruct (rules_shape cbs (sel_spec (lmax cbs) cbs)) as [[x Ex]|Er].
        -- rewrite Ex in H. discriminate.
        -- rewrite Er in H. destruct (sel_spec (lmax cbs) cbs) as [|x [|y r]]; [contradiction|discriminate|discriminate].
      * destruct (sel_spec (lmax cbs) cbs) as [|x [|y r]]; [contradiction|discriminate|discriminate].
  - intro H. assert (E : lmax cbs = O).
    { clear - H. induction cbs as [|d t IH]; simpl; [reflexivity|].
      rewrite (H d (or_introl eq_refl)). simpl. apply IH. intros c Hc. apply H. right; exact Hc. }
    rewrite E. simpl. unfold sel_spec.
    rewrite (filter_all_false_d _ cbs); [reflexivity|].
    intros x Hx. rewrite (H x Hx). reflexivity.
Qed.
End Args.

(* ---- the qualified form `plugin command` is never shadowed ---- *)
Lemma filter_unique {A} (p : A -> bool) l c :
  NoDup l -> In c l -> (forall d, In d l -> p d = true -> d = c) -> p c = true -> filter p l = [c].
Proof.
  induction l as [|a l IH]; simpl; intros Hnd Hin Hu Hp; [contradiction|].
  inversion Hnd; subst. destruct Hin as [->|Hin].
  - rewrite Hp. f_equal. apply filter_all_false_d. intros x Hx.
    destruct (p x) eqn:E; [|reflexivity]. exfalso. apply H1. rewrite <- (Hu x (or_intror Hx) E). exact Hx.
  - destruct (p a) eqn:Ea.
    + exfalso. apply H1. rewrite (Hu a (or_introl eq_refl) Ea). exact Hin.
    + apply IH; auto.
Qed.

Lemma qualified_resolves cbs c cmd rest :
  NoDup cbs -> In c cbs -> is_cmd c cmd = true ->
  (forall d, In d cbs -> cb_canon canon d = cb_canon canon c -> d = c) ->
  final_eval lower canon g cbs (cb_canon canon c :: cmd :: rest) = Call c 2.
Proof.
  intros Hnd Hc Hcmd Hu. unfold final_eval. rewrite find_callbacks_eq.
  set (args := cb_canon canon c :: cmd :: rest).
  assert (Ec : get_command canon c args = 2%nat).
  { unfold get_command, args. rewrite seq_eqb_refl, Hcmd. reflexivity. }
  assert (EM : lmax args cbs = 2%nat).
  { apply Nat.le_antisymm.
    - apply lmax_le. intros d _. apply get_command_le2.
    - rewrite <- Ec. apply lmax_ge. exact Hc. }
  rewrite EM. simpl. unfold sel_spec.
  rewrite (filter_unique _ cbs c Hnd Hc); [reflexivity| |rewrite Ec; reflexivity].
  intros d Hd Hp. apply Hu; [exact Hd|]. apply andb_true_iff in Hp as [_ Hp]. apply Nat.eqb_eq in Hp.
  unfold get_command, args in Hp.
  destruct (seq_eqb (cb_canon canon c) (cb_canon canon d)) eqn:E.
  - apply seq_eqb_eq in E. congruence.
  - simpl in Hp. destruct (is_cmd d (cb_canon canon c)); discriminate.
Qed.

(* ---- the bare form: holders of the command, then the documented rules ---- *)
Definition holders (cbs : list cb) (cmd : str) : list cb := filter (fun c => is_cmd c cmd) cbs.

Lemma bare_resolves cbs cmd :
  holders cbs cmd <> [] ->
  find_callbacks lower canon g cbs [cmd] = (1%nat, rules [cmd] cbs (holders cbs cmd)).
Proof.
  intro Hne. rewrite find_callbacks_eq.
  assert (Hgc : forall c, get_command canon c [cmd] = if is_cmd c cmd then 1%nat else O).
  { intro c. reflexivity. }
  assert (EM : lmax [cmd] cbs = 1%nat).
  { apply Nat.le_antisymm.
    - apply lmax_le. intros e _. rewrite Hgc. destruct (is_cmd e cmd); lia.
    - destruct (holders cbs cmd) as [|c r] eqn:Eh; [congruence|].
      assert (Hc : In c (holders cbs cmd)) by (rewrite Eh; left; reflexivity).
      apply filter_In in Hc as [Hc Hcmd]. pose proof (lmax_ge [cmd] cbs c Hc) as Hle.
      cbv beta zeta in Hle. rewrite Hgc, Hcmd in Hle. exact Hle. }
  rewrite EM. simpl. f_equal. f_equal. unfold sel_spec, holders. apply filter_ext. intro c.
  rewrite Hgc. destruct (is_cmd c cmd); reflexivity.
Qed.

(* a command that exactly one registered callback has always reaches that callback *)
Lemma bare_unique_holder cbs cmd c :
  NoDup (ids cbs) -> holders cbs cmd = [c] ->
  final_eval lower canon g cbs [cmd] = Call c 1.
Proof.
  intros Hnd Hh. unfold final_eval. rewrite bare_resolves by (rewrite Hh; discriminate). rewrite Hh.
  assert (Hc : In c cbs).
  { assert (In c (holders cbs cmd)) by (rewrite Hh; left; reflexivity). apply filter_In in H. tauto. }
  pose proof (rules_incl [cmd] cbs [c] Hnd) as Hi.
  assert (incl [c] cbs) by (intros x [<-|[]]; exact Hc). specialize (Hi H).
  destruct (rules_shape [cmd] cbs [c]) as [[x Ex]|Er].
  - rewrite Ex in *. assert (In x [c]) by (apply Hi; left; reflexivity). destruct H0 as [<-|[]]. reflexivity.
  - rewrite Er. reflexivity.
Qed.
End Dispatch.
