(* C20/Alive.v — what stays registered is alive: die() is only ever called on instances that have
   left the dispatcher list for good, and at most once per instance *)
From Coq Require Import List NArith Bool Arith Lia Permutation.
Import ListNotations.
Require Import Base.Wire Base.PyStr C20.Model C20.AuxList C20.Sort C20.Lemmas C20.History C20.Failure.
Open Scope N_scope.

Section Alive.
Variable lower : str -> str.
Variable world : list pspec.

Definition alive (next : N) (l : list cb) (dead : list N) : Prop :=
  wf lower next l /\
  (forall c, In c l -> ~ In (cid c) dead) /\      (* no registered instance has been torn down *)
  NoDup dead /\                                  (* no instance is torn down twice *)
  Forall (fun i => i < next) dead.

Definition alive_st (s : st) : Prop := alive (s_next s) (s_cbs s) (s_dead s).

Lemma add_in o l c x :
  perm_oracle o -> NoDup (ids (l ++ [c])) -> In x (fst (add_callback lower o l c)) -> In x (l ++ [c]).
Proof.
  intros Ho Hnd Hx. destruct (add_callback_cases lower o l c Ho Hnd) as [E|[_ HP]].
  - simpl in E. rewrite E in Hx. apply in_or_app. left; exact Hx.
  - eapply Permutation_in; eauto.
Qed.

Lemma readd_in o : forall bad cur x,
  perm_oracle o -> NoDup (ids (cur ++ bad)) ->
  In x (fst (readd lower o cur bad)) -> In x (cur ++ bad).
Proof.
  induction bad as [|c t IH]; intros cur x Ho Hnd Hx; simpl in *; [rewrite app_nil_r; exact Hx|].
  assert (Hnd1 : NoDup (ids (cur ++ [c]))).
  { rewrite ids_app in *. simpl in *. apply NoDup_remove_1 in Hnd as H1. apply NoDup_remove_2 in Hnd as H2.
    apply NoDup_app_intro.
    - clear - H1. induction (ids cur) as [|a l IH]; simpl in *; [constructor|]. inversion H1; subst.
      constructor; [intro Hi; apply H2; apply in_or_app; left; exact Hi|apply IH; exact H3].
    - repeat constructor. intros [].
    - intros y Hy [<-|[]]. apply H2. apply in_or_app. left; exact Hy. }
  pose proof (add_callback_spec lower o Ho cur c Hnd1) as S. cbv zeta in S.
  pose proof (add_in o cur c x Ho Hnd1) as Hin.
  destruct (add_callback lower o cur c) as [r [u|e]]; simpl in *.
  - destruct S as [_ [HP _]].
    assert (Hnd2 : NoDup (ids (r ++ t))).
    { eapply Permutation_NoDup; [|exact Hnd]. apply Permutation_map.
      replace (cur ++ c :: t) with ((cur ++ [c]) ++ t) by (rewrite <- app_assoc; reflexivity).
      apply Permutation_app_tail. apply Permutation_sym. exact HP. }
    specialize (IH r x Ho Hnd2 Hx). apply in_app_iff in IH as [Hr|Ht].
    + assert (In x (cur ++ [c])) by (eapply Permutation_in; eauto).
      apply in_app_iff in H as [H|[<-|[]]]; apply in_or_app; [left; exact H|right; left; reflexivity].
    + apply in_or_app. right. right. exact Ht.
  - specialize (Hin Hx). apply in_app_iff in Hin as [H|[<-|[]]]; apply in_or_app; [left; exact H|right; left; reflexivity].
Qed.

Lemma alive_mono next next' l d : next <= next' -> alive next l d -> alive next' l d.
Proof.
  intros Hle [Hw [Ha [Hn Hf]]]. split; [eapply wf_mono; eauto|]. split; [exact Ha|]. split; [exact Hn|].
  eapply Forall_impl; [|exact Hf]. simpl. intros. lia.
Qed.

Lemma alive_filter next p l d : alive next l d -> alive next (filter p l) d.
Proof.
  intros [Hw [Ha [Hn Hf]]]. split; [apply wf_filter; exact Hw|]. split; [|auto].
  intros c Hc. apply filter_In in Hc as [Hc _]. auto.
Qed.

(* a freshly built instance (id = the counter) joins: it is not dead *)
Lemma alive_add o next l d c :
  perm_oracle o -> alive next l d -> cid c = next ->
  alive (N.succ next) (fst (add_callback lower o l c)) d.
Proof.
  intros Ho [Hw [Ha [Hn Hf]]] Ec.
  assert (Hfr : ~ In (cid c) (ids l)) by (rewrite Ec; eapply fresh_not_in; eauto).
  assert (Hnd : NoDup (ids (l ++ [c]))) by (eapply wf_nd_snoc; eauto).
  split; [apply add_callback_wf; auto; [eapply wf_mono; [|exact Hw]; lia|lia]|].
  split; [|split; [exact Hn|eapply Forall_impl; [|exact Hf]; simpl; intros; lia]].
  intros x Hx. apply (add_in o l c x Ho Hnd) in Hx. apply in_app_iff in Hx as [Hx|[<-|[]]]; [auto|].
  intro Hd. rewrite Forall_forall in Hf. specialize (Hf _ Hd). lia.
Qed.

(* the callbacks matching a name leave the list and are torn down *)
Lemma alive_kill next p l d :
  alive next l d -> alive next (filter (fun x => negb (p x)) l) (d ++ ids (filter p l)).
Proof.
  intros [Hw [Ha [Hn Hf]]]. split; [apply wf_filter; exact Hw|]. split; [|split].
  - intros c Hc Hd. apply filter_In in Hc as [Hc Hp]. apply in_app_iff in Hd as [Hd|Hd]; [apply (Ha c Hc Hd)|].
    apply in_map_iff in Hd as [y [Ey Hy]]. apply filter_In in Hy as [Hy Hpy].
    assert (y = c) by (apply (NoDup_map_inj cid l); [apply Hw|exact Hy|exact Hc|exact Ey]). subst.
    rewrite Hpy in Hp. discriminate.
  - apply NoDup_app_intro; [exact Hn|apply NoDup_map_filter; apply Hw|].
    intros x Hx Hx2. apply in_map_iff in Hx2 as [y [Ey Hy]]. apply filter_In in Hy as [Hy _].
    subst x. apply (Ha y Hy Hx).
  - apply Forall_app. split; [exact Hf|]. apply Forall_forall. intros x Hx.
    apply in_map_iff in Hx as [y [Ey Hy]]. apply filter_In in Hy as [Hy _]. subst x.
    destruct Hw as [_ [_ H3]]. rewrite Forall_forall in H3. auto.
Qed.

(* the removed callbacks are put back untouched *)
Lemma alive_readd o next n l d :
  perm_oracle o -> alive next l d ->
  alive next (fst (readd lower o (filter (fun x => negb (name_is lower n x)) l) (filter (name_is lower n) l))) d.
Proof.
  intros Ho [Hw [Ha [Hn Hf]]].
  assert (Hnd : NoDup (ids (filter (fun x => negb (name_is lower n x)) l ++ filter (name_is lower n) l))).
  { eapply Permutation_NoDup; [|apply Hw]. apply Permutation_map, Permutation_sym, filter_split_perm. }
  split.
  - apply readd_wf; auto; [apply wf_filter; exact Hw|].
    apply Forall_forall. intros c Hc. apply filter_In in Hc as [Hc _].
    destruct Hw as [_ [_ H3]]. rewrite Forall_forall in H3. auto.
  - split; [|auto]. intros c Hc. apply (readd_in o _ _ c Ho Hnd) in Hc.
    apply Ha. apply in_app_iff in Hc as [Hc|Hc]; apply filter_In in Hc; tauto.
Qed.

Lemma load_plugin_class_alive s p initf o :
  perm_oracle o -> alive_st s -> alive_st (fst (load_plugin_class lower s p initf o)).
Proof.
  intros Ho Ha. unfold load_plugin_class. destruct initf; [exact Ha|].
  pose proof (alive_add o (s_next s) (s_cbs s) (s_dead s) (mk_cb (s_next s) p) Ho Ha eq_refl) as H.
  destruct (add_callback lower o (s_cbs s) (mk_cb (s_next s) p)) as [r res]. exact H.
Qed.

Lemma step_alive s x : op_ok x -> alive_st s -> alive_st (fst (step lower world s x)).
Proof.
  intros Hx Ha. destruct x as [p o|n|n o|n imp initf o|n dief|n imp initf dief o]; cbn [step op_ok] in *.
  - pose proof (alive_add o (s_next s) (s_cbs s) (s_dead s) (mk_cb (s_next s) p) Hx Ha eq_refl) as H.
    destruct (add_callback lower o (s_cbs s) (mk_cb (s_next s) p)) as [r res]. exact H.
  - unfold remove_callback. rewrite partition_filter. simpl. apply alive_filter. exact Ha.
  - destruct (load_plugin_module lower world n 0); try exact Ha.
    pose proof (load_plugin_class_alive s p false o Hx Ha) as H.
    destruct (load_plugin_class lower s p false o). exact H.
  - unfold owner_load. cbv zeta. destruct (get_callback lower (s_cbs s) (strip_py n)); [exact Ha|].
    destruct (load_plugin_module lower world (strip_py n) imp); try exact Ha.
    pose proof (load_plugin_class_alive s p initf o Hx Ha) as H.
    destruct (load_plugin_class lower s p initf o). exact H.
  - unfold owner_unload. destruct (is_owner lower n); [exact Ha|].
    destruct (get_callback lower (s_cbs s) n) as [old|]; [|exact Ha].
    unfold remove_callback. rewrite partition_filter.
    pose proof (alive_kill (s_next s) (name_is lower (cname old)) (s_cbs s) (s_dead s) Ha) as Hk.
    destruct (filter (name_is lower (cname old)) (s_cbs s)); [|exact Hk].
    simpl in Hk. rewrite app_nil_r in Hk. exact Hk.
  - unfold owner_reload. destruct (is_owner lower n); [exact Ha|].
    unfold remove_callback. rewrite partition_filter.
    pose proof (alive_kill (s_next s) (name_is lower n) (s_cbs s) (s_dead s) Ha) as Hk.
    pose proof (alive_readd o (s_next s) n (s_cbs s) (s_dead s) Hx Ha) as Hr.
    destruct (filter (name_is lower n) (s_cbs s)) as [|b0 bt] eqn:Eb.
    { simpl in Hk. rewrite app_nil_r in Hk. exact Hk. }
    destruct (reload_module lower world n imp).
    + pose proof (load_plugin_class_alive
                    (St (filter (fun x => negb (name_is lower n x)) (s_cbs s)) (s_next s) (s_dead s ++ ids (b0 :: bt)))
                    p initf o Hx Hk) as H.
      destruct (load_plugin_class lower _ p initf o). exact H.
    + destruct (readd lower o _ (b0 :: bt)) as [r res]. exact Hr.
    + destruct (readd lower o _ (b0 :: bt)) as [r res]. exact Hr.
Qed.

Theorem steps_alive : forall ops s, Forall op_ok ops -> alive_st s -> alive_st (steps lower world s ops).
Proof.
  induction ops as [|x t IH]; intros s Hops Ha; simpl; [exact Ha|].
  inversion Hops; subst. apply IH; [assumption|]. apply step_alive; assumption.
Qed.

Lemma alive_st0 : alive_st st0.
Proof. split; [repeat split; constructor|]. split; [intros c []|]. split; constructor. Qed.

(* a reload whose import fails tears nothing down: the die() log is exactly what it was *)
Lemma failed_import_reload_no_die s n imp initf dief o s' r :
  imp <> 0 -> owner_reload lower world s n imp initf dief o = (s', r) -> s_dead s' = s_dead s.
Proof.
  intros Himp E. unfold owner_reload in E. destruct (is_owner lower n); [inversion E; reflexivity|].
  destruct (remove_callback lower (s_cbs s) n) as [bad gd].
  destruct bad as [|b0 bt]; [inversion E; reflexivity|].
  destruct (reload_module_fails lower world n imp Himp) as [Em|Em]; rewrite Em in E;
    destruct (readd lower o gd (b0 :: bt)) as [l' res]; inversion E; reflexivity.
Qed.
End Alive.
