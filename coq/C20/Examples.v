(* C20/Examples.v — non-vacuity: a concrete 6-operation history with a failing reload and a refused
   cyclic load, on which every hypothesis of the history theorems holds (ASCII fold, identity oracle) *)
From Coq Require Import List NArith Bool Arith Lia Permutation.
Import ListNotations.
Require Import Base.Wire Base.PyStr C20.Model C20.AuxList C20.Sort C20.Lemmas C20.History C20.Failure
               C20.Invariant C20.Dispatch C20.Sharing C20.Alive.
Open Scope N_scope.

Definition nBeta : str := [66; 101; 116; 97].
Definition nCyc : str := [67; 121; 99].
Definition k_c1 : str := [99; 49].          (* "c1" *)
Definition k_c2 : str := [99; 50].
Definition k_c3 : str := [99; 51].
Definition k_shared : str := [115; 104; 97; 114; 101; 100].
Definition k_alpha : str := [97; 108; 112; 104; 97].
Definition k_cyc : str := [99; 121; 99].

Definition w6 : list pspec :=
  [P nOwner 1 [] [] []; P nMisc 2 [] [] [];
   P nAlpha 0 [] [] [k_c1; k_shared]; P nBeta 0 [nAlpha] [] [k_c2; k_shared];
   P nCyc 0 [nOwner] [] [k_c3]].

(* boot the core, load two plugins, a reload whose import raises, a load with a cyclic constraint *)
Definition ops6 : list op :=
  [Boot nOwner id_oracle; Boot nMisc id_oracle; Load nAlpha 0 false id_oracle; Load nBeta 0 false id_oracle;
   Reload nAlpha 2 false false id_oracle; Load nCyc 0 false id_oracle].

Definition g6 : cfg := Cfg [] [nOwner; nMisc].

Lemma history6_trace :
  map (fun rn => (fst rn, snd rn)) (trace lower_ascii w6 st0 ops6) =
  [(Ok 0, [nOwner]); (Ok 0, [nOwner; nMisc]); (Ok 0, [nOwner; nAlpha; nMisc]);
   (Ok 0, [nOwner; nBeta; nAlpha; nMisc]);
   (Raise OtherError, [nOwner; nBeta; nAlpha; nMisc]);       (* failing reload: Alpha kept *)
   (Raise AssertionError, [nOwner; nBeta; nAlpha; nMisc])].  (* cyclic load: refused, nothing registered *)
Proof. vm_compute. reflexivity. Qed.

Lemma history6_hyps :
  Forall op_ok ops6 /\ Forall (op_guarded lower_ascii) ops6 /\ Forall op_dom ops6 /\
  good_st lower_ascii st0 /\
  owner_head lower_ascii (s_cbs (steps lower_ascii w6 st0 [Boot nOwner id_oracle])).
Proof.
  split; [repeat constructor; apply id_oracle_perm|].
  split; [repeat constructor|].
  split; [repeat constructor; discriminate|].
  split; [apply good_st0|].
  vm_compute. eexists; eexists. split; [reflexivity|]. split; reflexivity.
Qed.

(* the conclusions, computed: list order, and what the dispatcher resolves in the final state *)
Lemma history6_resolution :
  let l := s_cbs (steps lower_ascii w6 st0 ops6) in
  map cname l = [nOwner; nBeta; nAlpha; nMisc] /\
  (exists a b, final_eval lower_ascii canon_ascii g6 l [k_shared] = Ambiguous [b; a] /\ cname a = nAlpha /\ cname b = nBeta) /\
  (exists a, final_eval lower_ascii canon_ascii g6 l [k_alpha; k_shared] = Call a 2 /\ cname a = nAlpha) /\
  (exists a, final_eval lower_ascii canon_ascii g6 l [k_c1] = Call a 1 /\ cname a = nAlpha) /\
  final_eval lower_ascii canon_ascii g6 l [k_c3] = Invalid /\
  final_eval lower_ascii canon_ascii g6 l [k_cyc; k_c3] = Invalid.
Proof.
  vm_compute. split; [reflexivity|]. split; [eexists; eexists; repeat split|].
  split; [eexists; split; reflexivity|]. split; [eexists; split; reflexivity|]. split; reflexivity.
Qed.

(* two networks and one created afterwards *)
Definition bops6 : list bop :=
  [NewIrc; NewIrc; Via 0 (Boot nOwner id_oracle); Via 1 (Load nAlpha 0 false id_oracle);
   Via 0 (Unload nAlpha false); Via 1 (Load nBeta 0 false id_oracle); NewIrc].
Lemma networks_example :
  let b := bsteps lower_ascii w6 bot0 bops6 in
  map fst (b_refs b) = [0; 1; 2] /\
  map (fun h => map cname (view b h)) [0; 1; 2] = [[nOwner; nBeta]; [nOwner; nBeta]; [nOwner; nBeta]].
Proof. vm_compute. split; reflexivity. Qed.

(* die() log: the failing reload of the 6-operation history tears nothing down; a following good
   reload tears down exactly the old Alpha instance (object 2), once; an unload then Beta (object 3) *)
Lemma history6_die_log :
  s_dead (steps lower_ascii w6 st0 ops6) = [] /\
  s_dead (steps lower_ascii w6 st0 (ops6 ++ [Reload nAlpha 0 false false id_oracle])) = [2] /\
  s_dead (steps lower_ascii w6 st0 (ops6 ++ [Reload nAlpha 0 false false id_oracle; Reload nAlpha 1 false false id_oracle;
                                             Unload nBeta true])) = [2; 3] /\
  ids (s_cbs (steps lower_ascii w6 st0 (ops6 ++ [Reload nAlpha 0 false false id_oracle; Reload nAlpha 1 false false id_oracle;
                                                  Unload nBeta true]))) = [0; 5; 1].
Proof. vm_compute. repeat split. Qed.
