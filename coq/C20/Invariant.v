(* C20/Invariant.v — the history-level invariant: registered once, topologically ordered *)
From Coq Require Import List NArith Bool Arith Lia Permutation.
Import ListNotations.
Require Import Base.Wire Base.PyStr C20.Model C20.AuxList C20.Sort C20.Lemmas C20.History C20.Failure.
Open Scope N_scope.

Section Invariant.
Variable lower : str -> str.
Variable world : list pspec.

(* a occurs in a prefix of l that does not contain b *)
Definition ordered (l : list cb) (a b : N) : Prop :=
  exists l1 l2, l = l1 ++ l2 /\ In a (ids l1) /\ ~ In b (ids l1).

(* the list is a topological order of the constraints declared among its own members *)
Definition topo (l : list cb) : Prop :=
  forall a b, In (a, b) (declared_edges lower l) -> ordered l a b.

Lemma ordered_idx l a b : ordered l a b -> (idx a (ids l) < idx b (ids l))%nat.
Proof. intros [l1 [l2 [-> [Ha Hb]]]]. rewrite ids_app. apply idx_split_lt; assumption. Qed.

Lemma idx_ordered l a b : (idx a (ids l) < idx b (ids l))%nat -> ordered l a b.
Proof.
  induction l as [|x t IH]; simpl; intro H; [lia|].
  destruct (N.eqb (cid x) a) eqn:Ea.
  - apply N.eqb_eq in Ea. exists [x], t. split; [reflexivity|]. simpl. split; [left; exact Ea|].
    intros [Hb|[]]. rewrite Hb, N.eqb_refl in H. lia.
  - destruct (N.eqb (cid x) b) eqn:Eb; [lia|].
    destruct IH as [l1 [l2 [-> [Ha Hb]]]]; [lia|].
    exists (x :: l1), l2. split; [reflexivity|]. simpl. split; [right; exact Ha|].
    intros [Hx|Hx]; [apply N.eqb_neq in Eb; contradiction|contradiction].
Qed.

Lemma get_callback_unique l n d :
  NoDup (names lower l) -> In d l -> name_is lower n d = true -> get_callback lower l n = Some d.
Proof.
  unfold get_callback. induction l as [|a t IH]; simpl; intros Hnd Hin Hn; [contradiction|].
  inversion Hnd as [|? ? Hna Hnd']; subst.
  destruct (name_is lower n a) eqn:Ea.
  - destruct Hin as [->|Hin]; [reflexivity|]. exfalso. apply Hna.
    unfold name_is in *. apply seq_eqb_eq in Ea, Hn. rewrite Ea, <- Hn.
    apply (in_map (fun c => lower (cname c))). exact Hin.
  - destruct Hin as [->|Hin]; [congruence|]. apply IH; assumption.
Qed.

(* the constraints declared inside a sub-collection are constraints of the whole collection *)
Lemma edges_incl l' l :
  NoDup (names lower l) -> (forall x, In x l' -> In x l) ->
  forall e, In e (declared_edges lower l') -> In e (declared_edges lower l).
Proof.
  intros Hnd Hsub e He. unfold declared_edges in *. apply in_flat_map in He as [c [Hc He]].
  apply in_flat_map. exists c. split; [apply Hsub; exact Hc|].
  assert (Hres : forall ns x, In x (resolve lower l' ns) -> In x (resolve lower l ns)).
  { intros ns x Hx. unfold resolve in *. apply in_flat_map in Hx as [n [Hn Hx]].
    apply in_flat_map. exists n. split; [exact Hn|].
    destruct (get_callback lower l' n) as [d|] eqn:Eg; [|contradiction].
    unfold get_callback in Eg. apply find_some in Eg as [Hd Hnm].
    rewrite (get_callback_unique l n d Hnd (Hsub d Hd) Hnm). exact Hx. }
  assert (Hoth : forall x, In x (others l' c) -> In x (others l c)).
  { intros x Hx. unfold others, ids in *. apply in_map_iff in Hx as [d [Ed Hd]]. apply filter_In in Hd as [Hd Hp].
    apply in_map_iff. exists d. split; [exact Ed|]. apply filter_In. split; [apply Hsub; exact Hd|exact Hp]. }
  unfold edges_pure, call_precedence in *.
  destruct (N.eqb (ckind c) 1); [|destruct (N.eqb (ckind c) 2)]; simpl in *.
  - apply in_map_iff in He as [o [Eo Ho]]. apply in_map_iff. exists o. split; [exact Eo|apply Hoth; exact Ho].
  - rewrite app_nil_r in *. apply in_map_iff in He as [o [Eo Ho]]. apply in_map_iff. exists o. split; [exact Eo|apply Hoth; exact Ho].
  - apply in_app_iff in He. apply in_app_iff.
    destruct He as [He|He]; [left|right]; apply in_map_iff in He as [o [Eo Ho]]; apply in_map_iff; exists o;
      (split; [exact Eo|apply Hres; exact Ho]).
Qed.

Definition good (next : N) (l : list cb) : Prop := wf lower next l /\ topo l.

Lemma topo_filter next p l : good next l -> topo (filter p l).
Proof.
  intros [Hw Ht] a b He.
  assert (He' : In (a, b) (declared_edges lower l)).
  { apply (edges_incl (filter p l) l); [apply Hw| |exact He]. intros x Hx. apply filter_In in Hx. tauto. }
  destruct (Ht a b He') as [l1 [l2 [El [Ha Hb]]]].
  exists (filter p l1), (filter p l2). split; [rewrite El; apply filter_app|]. split.
  - destruct (declared_edges_src lower _ _ _ He) as [Hin _].
    apply in_map_iff in Hin as [y [Ey Hy]]. apply filter_In in Hy as [Hy Hp].
    apply in_map_iff in Ha as [x [Ex Hx]].
    assert (x = y).
    { apply (NoDup_map_inj cid l); [apply Hw|rewrite El; apply in_or_app; left; exact Hx|exact Hy|congruence]. }
    subst y. apply in_map_iff. exists x. split; [exact Ex|]. apply filter_In. split; assumption.
  - intro Hb'. apply Hb. apply in_map_iff in Hb' as [x [Ex Hx]]. apply filter_In in Hx as [Hx _].
    apply in_map_iff. exists x. auto.
Qed.

Lemma good_filter next p l : good next l -> good next (filter p l).
Proof. intro H. split; [apply wf_filter; apply H|eapply topo_filter; eauto]. Qed.

Lemma good_mono next next' l : next <= next' -> good next l -> good next' l.
Proof. intros Hle [Hw Ht]. split; [eapply wf_mono; eauto|exact Ht]. Qed.

Lemma good_add o next l c :
  perm_oracle o -> good next l -> ~ In (cid c) (ids l) -> cid c < next ->
  good next (fst (add_callback lower o l c)).
Proof.
  intros Ho [Hw Ht] Hi Hlt. split; [apply add_callback_wf; assumption|].
  assert (Hnd : NoDup (ids (l ++ [c]))).
  { rewrite ids_app. apply NoDup_app_intro; [apply Hw|repeat constructor; intros []|].
    intros x Hx [<-|[]]. contradiction. }
  pose proof (add_callback_spec lower o Ho l c Hnd) as S. cbv zeta in S.
  destruct (add_callback lower o l c) as [r [u|e]]; simpl.
  - destruct S as [Hg [HP Hed]]. intros a b He. apply idx_ordered. apply Hed.
    apply (edges_incl r (l ++ [c])); [|intros x Hx; eapply Permutation_in; eauto|exact He].
    apply (wf_snoc lower next l c Hw Hg Hi Hlt).
  - destruct S as [_ ->]. exact Ht.
Qed.

Lemma good_readd o next : forall bad cur,
  perm_oracle o -> good next cur -> NoDup (ids (cur ++ bad)) -> Forall (fun c => cid c < next) bad ->
  good next (fst (readd lower o cur bad)).
Proof.
  induction bad as [|c t IH]; intros cur Ho Hg Hnd Hb; simpl; [exact Hg|].
  inversion Hb as [|? ? Hc Ht]; subst.
  assert (Hci : ~ In (cid c) (ids cur)).
  { rewrite ids_app in Hnd. intro Hi. simpl in Hnd. apply NoDup_remove_2 in Hnd.
    apply Hnd. apply in_app_iff. left; exact Hi. }
  assert (Hnd1 : NoDup (ids (cur ++ [c]))).
  { rewrite ids_app. apply NoDup_app_intro; [apply Hg|repeat constructor; intros []|].
    intros x Hx [<-|[]]. contradiction. }
  pose proof (good_add o next cur c Ho Hg Hci Hc) as Hg1.
  pose proof (add_callback_spec lower o Ho cur c Hnd1) as S. cbv zeta in S.
  destruct (add_callback lower o cur c) as [r [u|e]]; simpl in *; [|exact Hg1].
  destruct S as [_ [HP _]]. apply IH; auto.
  eapply Permutation_NoDup; [|exact Hnd].
  apply Permutation_map. replace (cur ++ c :: t) with ((cur ++ [c]) ++ t) by (rewrite <- app_assoc; reflexivity).
  apply Permutation_app_tail. apply Permutation_sym. exact HP.
Qed.

Definition good_st (s : st) : Prop := good (s_next s) (s_cbs s).

Lemma good_fresh next l : good next l -> ~ In next (ids l).
Proof. intros [Hw _]. eapply fresh_not_in; eauto. Qed.

Lemma load_plugin_class_good s p initf o :
  perm_oracle o -> good_st s -> good_st (fst (load_plugin_class lower s p initf o)).
Proof.
  intros Ho Hg. unfold load_plugin_class. destruct initf; [exact Hg|].
  pose proof (good_add o (N.succ (s_next s)) (s_cbs s) (mk_cb (s_next s) p) Ho) as H.
  destruct (add_callback lower o (s_cbs s) (mk_cb (s_next s) p)) as [r res]. simpl in *.
  apply H; [eapply good_mono; [|exact Hg]; lia|apply (good_fresh _ _ Hg)|lia].
Qed.

Lemma filter_split_ids n (l : list cb) :
  NoDup (ids l) ->
  NoDup (ids (filter (fun x => negb (name_is lower n x)) l ++ filter (name_is lower n) l)).
Proof.
  intro H. eapply Permutation_NoDup; [|exact H].
  apply Permutation_map, Permutation_sym, filter_split_perm.
Qed.

Lemma step_good s x : op_ok x -> good_st s -> good_st (fst (step lower world s x)).
Proof.
  intros Hx Hg. destruct x as [p o|n|n o|n imp initf o|n dief|n imp initf dief o]; cbn [step op_ok] in *.
  - pose proof (good_add o (N.succ (s_next s)) (s_cbs s) (mk_cb (s_next s) p) Hx) as H.
    destruct (add_callback lower o (s_cbs s) (mk_cb (s_next s) p)) as [r res]. simpl in *.
    apply H; [eapply good_mono; [|exact Hg]; lia|apply (good_fresh _ _ Hg)|lia].
  - unfold remove_callback. rewrite partition_filter. simpl. apply good_filter. exact Hg.
  - destruct (load_plugin_module lower world n 0); try exact Hg.
    pose proof (load_plugin_class_good s p false o Hx Hg) as H.
    destruct (load_plugin_class lower s p false o). exact H.
  - unfold owner_load. cbv zeta. destruct (get_callback lower (s_cbs s) (strip_py n)); [exact Hg|].
    destruct (load_plugin_module lower world (strip_py n) imp); try exact Hg.
    pose proof (load_plugin_class_good s p initf o Hx Hg) as H.
    destruct (load_plugin_class lower s p initf o). exact H.
  - unfold owner_unload. destruct (is_owner lower n); [exact Hg|].
    destruct (get_callback lower (s_cbs s) n) as [old|]; [|exact Hg].
    unfold remove_callback. rewrite partition_filter.
    assert (H : good (s_next s) (filter (fun x => negb (name_is lower (cname old) x)) (s_cbs s))).
    { apply good_filter. exact Hg. }
    destruct (filter (name_is lower (cname old)) (s_cbs s)); exact H.
  - unfold owner_reload. destruct (is_owner lower n); [exact Hg|].
    unfold remove_callback. rewrite partition_filter.
    set (bad := filter (name_is lower n) (s_cbs s)).
    set (gd := filter (fun x => negb (name_is lower n x)) (s_cbs s)).
    assert (Hgg : good (s_next s) gd) by (apply good_filter; exact Hg).
    destruct bad as [|b0 bt] eqn:Eb; [exact Hgg|].
    assert (Hre : good (s_next s) (fst (readd lower o gd (b0 :: bt)))).
    { apply (good_readd o (s_next s) (b0 :: bt) gd Hx Hgg).
      * rewrite <- Eb. apply filter_split_ids. apply Hg.
      * rewrite <- Eb. apply Forall_forall. intros c Hc. apply filter_In in Hc as [Hc _].
        destruct Hg as [[_ [_ H3]] _]. rewrite Forall_forall in H3. auto. }
    destruct (reload_module lower world n imp).
    + pose proof (load_plugin_class_good (St gd (s_next s) (s_dead s ++ ids (b0 :: bt))) p initf o Hx Hgg) as H.
      destruct (load_plugin_class lower (St gd (s_next s) (s_dead s ++ ids (b0 :: bt))) p initf o). exact H.
    + destruct (readd lower o gd (b0 :: bt)) as [r res]. exact Hre.
    + destruct (readd lower o gd (b0 :: bt)) as [r res]. exact Hre.
Qed.

Theorem steps_good : forall ops s, Forall op_ok ops -> good_st s -> good_st (steps lower world s ops).
Proof.
  induction ops as [|x t IH]; intros s Hops Hg; simpl; [exact Hg|].
  inversion Hops; subst. apply IH; [assumption|]. apply step_good; assumption.
Qed.

Lemma good_st0 : good_st st0.
Proof.
  split; [repeat split; constructor|]. intros a b [].
Qed.

(* ---- in a good state, putting a removed callback back is always accepted ---- *)
Lemma find_all_false {A} (p : A -> bool) l : (forall x, In x l -> p x = false) -> find p l = None.
Proof.
  induction l as [|a l IH]; simpl; intro H; [reflexivity|].
  rewrite (H a (or_introl eq_refl)). apply IH. intros x Hx. apply H. right; exact Hx.
Qed.

Lemma readd_dom_good s n : good_st s -> readd_dom lower s n = true.
Proof.
  intros [Hw Ht]. unfold readd_dom.
  set (gd := filter (fun x => negb (name_is lower n x)) (s_cbs s)).
  destruct (filter (name_is lower n) (s_cbs s)) as [|b bt] eqn:Eb; [reflexivity|].
  assert (bt = []) by (eapply unique_name_filter; [apply Hw|exact Eb]). subst bt.
  assert (Hb : In b (s_cbs s) /\ name_is lower n b = true).
  { assert (In b (filter (name_is lower n) (s_cbs s))) by (rewrite Eb; left; reflexivity).
    apply filter_In in H. exact H. }
  destruct Hb as [Hb Hnb].
  assert (HP : Permutation (gd ++ [b]) (s_cbs s)) by (rewrite <- Eb; apply filter_split_perm).
  assert (Hnd : NoDup (ids (gd ++ [b]))).
  { eapply Permutation_NoDup; [apply Permutation_map, Permutation_sym, HP|apply Hw]. }
  assert (Hgn : get_callback lower gd (cname b) = None).
  { unfold get_callback. apply find_all_false. intros x Hx. apply filter_In in Hx as [_ Hx].
    apply negb_true_iff in Hx. unfold name_is in *. apply seq_eqb_eq in Hnb. rewrite Hnb. exact Hx. }
  rewrite (add_callback_complete lower id_oracle id_oracle_perm gd b (fun a => idx a (ids (s_cbs s))) Hnd Hgn);
    [reflexivity|].
  intros a c He. apply ordered_idx. apply Ht.
  apply (edges_incl (gd ++ [b]) (s_cbs s)); [apply Hw| |exact He].
  intros x Hx. eapply Permutation_in; eauto.
Qed.

(* ---- a failed operation leaves the registered set as it was ---- *)
(* the stated domain: everything except a reload whose import SUCCEEDS and which then fails in the
   replace phase (new constructor / new constraints: known finding C20.F21).  A raising die() is
   swallowed by the firewall and is no failure of the command. *)
Definition op_dom (x : op) : Prop :=
  match x with
  | Reload _ imp _ _ _ => imp <> 0
  | _ => True
  end.

Lemma step_failed_perm s x s' r :
  op_ok x -> op_dom x -> good_st s -> step lower world s x = (s', r) -> r <> Ok 0 ->
  Permutation (s_cbs s') (s_cbs s).
Proof.
  intros Hx Hd Hg E Hr.
  assert (Hadd : forall o p l' r0, perm_oracle o ->
            add_callback lower o (s_cbs s) (mk_cb (s_next s) p) = (l', r0) -> r0 = Ok tt \/ l' = s_cbs s).
  { intros o p l' r0 Ho E1.
    pose proof (add_callback_spec lower o Ho (s_cbs s) (mk_cb (s_next s) p)
                  (wf_nd_snoc lower (s_next s) (s_cbs s) (mk_cb (s_next s) p) (proj1 Hg) eq_refl)) as S.
    cbv zeta in S. rewrite E1 in S. destruct r0 as [[]|e]; [left; reflexivity|right; apply S]. }
  destruct x as [p o|n|n o|n imp initf o|n dief|n imp initf dief o]; cbn [step op_ok op_dom] in *.
  - destruct (add_callback lower o (s_cbs s) (mk_cb (s_next s) p)) as [l' r0] eqn:Ea.
    inversion E; subst. destruct (Hadd o p l' r0 Hx Ea) as [->| ->]; [exfalso; apply Hr; reflexivity|apply Permutation_refl].
  - inversion E; subst. exfalso. apply Hr. reflexivity.
  - destruct (load_plugin_module lower world n 0) as [p| |]; try (inversion E; subst; apply Permutation_refl).
    unfold load_plugin_class in E.
    destruct (add_callback lower o (s_cbs s) (mk_cb (s_next s) p)) as [l' r0] eqn:Ea.
    inversion E; subst. destruct (Hadd o p l' r0 Hx Ea) as [->| ->]; [exfalso; apply Hr; reflexivity|apply Permutation_refl].
  - rewrite (failed_load_keeps lower world s n imp initf o Hx (proj1 Hg) s' r E Hr). apply Permutation_refl.
  - unfold owner_unload in E. destruct (is_owner lower n); [inversion E; subst; apply Permutation_refl|].
    destruct (get_callback lower (s_cbs s) n) as [old|]; [|inversion E; subst; apply Permutation_refl].
    unfold remove_callback in E. rewrite partition_filter in E.
    destruct (filter (name_is lower (cname old)) (s_cbs s)) eqn:Eb; inversion E; subst.
    + simpl. rewrite (filter_none_all _ _ Eb). apply Permutation_refl.
    + exfalso. apply Hr. reflexivity.
  - destruct (failed_import_reload_keeps lower world s n imp initf dief o Hx (proj1 Hg) Hd
                (readd_dom_good s n Hg) s' r E) as [_ HP]. exact HP.
Qed.
End Invariant.
