(* C20/Lemmas.v — Irc.addCallback: specification of the result for every oracle *)
From Coq Require Import List NArith Bool Arith Lia Permutation.
Import ListNotations.
Require Import Base.Wire Base.PyStr C20.Model C20.AuxList C20.Sort.

Section AddCallback.
Variable lower : str -> str.

(* ---------- the declared precedence edges ---------- *)
Definition edges_pure (cbs : list cb) (c : cb) : list (N * N) :=
  map (fun o => (o, cid c)) (fst (call_precedence lower cbs c)) ++
  map (fun o => (cid c, o)) (snd (call_precedence lower cbs c)).

(* every edge (a, b) means: a must be called before b *)
Definition declared_edges (all : list cb) : list (N * N) := flat_map (edges_pure all) all.

Lemma resolve_in cbs names x : In x (resolve lower cbs names) -> In x (ids cbs).
Proof.
  unfold resolve. intro H. apply in_flat_map in H as [n [_ H]].
  destruct (get_callback lower cbs n) as [d|] eqn:E; [|contradiction].
  destruct H as [H|[]]. subst. unfold get_callback in E. apply find_some in E as [E _].
  apply in_map. exact E.
Qed.

Lemma others_in cbs c x : In x (others cbs c) -> In x (ids cbs) /\ x <> cid c.
Proof.
  unfold others, ids. intro H. apply in_map_iff in H as [d [Ed H]]. subst.
  apply filter_In in H as [H1 H2]. apply negb_true_iff, N.eqb_neq in H2.
  split; [apply in_map; exact H1|exact H2].
Qed.

Lemma call_precedence_spec cbs c :
  let p := call_precedence lower cbs c in
  (forall x, In x (fst p) -> In x (ids cbs) /\ x <> cid c) /\
  (forall x, In x (snd p) -> In x (ids cbs) /\ x <> cid c).
Proof.
  unfold call_precedence.
  destruct (N.eqb (ckind c) 1); [|destruct (N.eqb (ckind c) 2)]; simpl.
  - split; [intros x []|apply others_in].
  - split; [apply others_in|intros x []].
  - destruct (mem (cid c) (resolve lower cbs (cbefore c)) || mem (cid c) (resolve lower cbs (cafter c))) eqn:E; simpl.
    + split; intros x [].
    + apply orb_false_iff in E as [E1 E2]. apply mem_false in E1, E2.
      split; intros x Hx; (split; [eapply resolve_in; eauto|intro; subst; contradiction]).
Qed.

Lemma edges_of_cb_ok cbs c : edges_of_cb lower cbs c = Ok (edges_pure cbs c).
Proof.
  unfold edges_of_cb, edges_pure. destruct (call_precedence_spec cbs c) as [Hb Ha].
  destruct (call_precedence lower cbs c) as [b a]. simpl in *.
  destruct (mem (cid c) a) eqn:E1.
  { apply mem_In in E1. destruct (Ha _ E1). congruence. }
  destruct (mem (cid c) b) eqn:E2.
  { apply mem_In in E2. destruct (Hb _ E2). congruence. }
  reflexivity.
Qed.

Lemma all_edges_ok cbs l : all_edges lower cbs l = Ok (flat_map (edges_pure cbs) l).
Proof.
  induction l as [|c l IH]; simpl; [reflexivity|].
  rewrite edges_of_cb_ok, IH. reflexivity.
Qed.

Lemma declared_edges_src all a b : In (a, b) (declared_edges all) -> In a (ids all) /\ In b (ids all) /\ a <> b.
Proof.
  unfold declared_edges. intro H. apply in_flat_map in H as [c [Hc H]].
  unfold edges_pure in H. destruct (call_precedence_spec all c) as [Hb Ha].
  apply in_app_iff in H as [H|H]; apply in_map_iff in H as [o [Eo Ho]]; inversion Eo; subst.
  - destruct (Hb _ Ho). split; [assumption|]. split; [apply in_map; exact Hc|assumption].
  - destruct (Ha _ Ho). split; [apply in_map; exact Hc|]. split; [assumption|congruence].
Qed.

(* ---------- the result of addCallback, for every oracle ---------- *)
Section Oracle.
Variable orc : list cb -> list cb.
Hypothesis Horc : perm_oracle orc.

Definition sorted_ok (all r : list cb) : Prop :=
  Permutation r all /\
  forall a b, In (a, b) (declared_edges all) -> (idx a (ids r) < idx b (ids r))%nat.

Lemma add_callback_spec cbs c :
  NoDup (ids (cbs ++ [c])) ->
  let all := cbs ++ [c] in
  match add_callback lower orc cbs c with
  | (r, Ok _) => get_callback lower cbs (cname c) = None /\ sorted_ok all r
  | (r, Raise e) =>
      e = AssertionError /\
      ((get_callback lower cbs (cname c) <> None /\ r = cbs) \/
       (get_callback lower cbs (cname c) = None /\ r = all))
  end.
Proof.
  intros Hnd all. unfold add_callback.
  destruct (get_callback lower cbs (cname c)) as [d|] eqn:Eg.
  { split; [reflexivity|]. left. split; [discriminate|reflexivity]. }
  fold all. rewrite all_edges_ok. fold (declared_edges all).
  destruct (sort_loop_spec orc Horc all Hnd (declared_edges all) (S (length all)) [] (declared_edges all))
    as [done [edges [Es [HI HF]]]].
  { apply Inv_init. } { simpl. lia. }
  rewrite Es. destruct (Nat.eqb (length done) (length all)) eqn:El.
  - apply Nat.eqb_eq in El. split; [reflexivity|]. split.
    + eapply Inv_full_perm; eauto.
    + intros a b Hab. eapply Inv_full_edges; eauto. apply (declared_edges_src all a b Hab).
  - split; [reflexivity|]. right. auto.
Qed.

(* an edge set with a ranking (= acyclic) is never rejected *)
Lemma add_callback_complete cbs c (rank : N -> nat) :
  NoDup (ids (cbs ++ [c])) ->
  get_callback lower cbs (cname c) = None ->
  (forall a b, In (a, b) (declared_edges (cbs ++ [c])) -> (rank a < rank b)%nat) ->
  snd (add_callback lower orc cbs c) = Ok tt.
Proof.
  intros Hnd Eg HR. unfold add_callback. rewrite Eg.
  set (all := cbs ++ [c]) in *. rewrite all_edges_ok. fold (declared_edges all).
  destruct (sort_loop_spec orc Horc all Hnd (declared_edges all) (S (length all)) [] (declared_edges all))
    as [done [edges [Es [HI HF]]]].
  { apply Inv_init. } { simpl. lia. }
  rewrite Es.
  assert (El : length done = length all).
  { eapply (Inv_ranked_full all Hnd (declared_edges all) done edges rank); eauto.
    intros a b Hab. split; [apply (declared_edges_src all a b Hab)|apply HR; exact Hab]. }
  rewrite El, Nat.eqb_refl. reflexivity.
Qed.
End Oracle.

(* closed walks in the edge relation *)
Inductive walk (E : list (N * N)) : N -> N -> Prop :=
| walk_one a b : In (a, b) E -> walk E a b
| walk_cons a b c : In (a, b) E -> walk E b c -> walk E a c.

Lemma walk_increasing E (pos : N -> nat) :
  (forall a b, In (a, b) E -> (pos a < pos b)%nat) ->
  forall a b, walk E a b -> (pos a < pos b)%nat.
Proof.
  intros H a b W. induction W as [a b Hab|a b c Hab _ IH]; [auto|].
  specialize (H _ _ Hab). lia.
Qed.

(* cyclic constraints: AssertionError, and the new callback stays appended, nothing sorted *)
Lemma add_callback_cycle orc cbs c x :
  perm_oracle orc -> NoDup (ids (cbs ++ [c])) ->
  get_callback lower cbs (cname c) = None ->
  walk (declared_edges (cbs ++ [c])) x x ->
  add_callback lower orc cbs c = (cbs ++ [c], Raise AssertionError).
Proof.
  intros Horc Hnd Eg W. pose proof (add_callback_spec orc Horc cbs c Hnd) as S. simpl in S.
  destruct (add_callback lower orc cbs c) as [r [u|e]].
  - exfalso. destruct S as [_ [_ Hed]].
    pose proof (walk_increasing _ (fun a => idx a (ids r)) Hed x x W). lia.
  - destruct S as [-> [[Hne _]|[_ ->]]]; [congruence|reflexivity].
Qed.

(* acceptance does not depend on the oracle *)
Lemma add_callback_accept_indep o1 o2 cbs c :
  perm_oracle o1 -> perm_oracle o2 -> NoDup (ids (cbs ++ [c])) ->
  snd (add_callback lower o1 cbs c) = Ok tt -> snd (add_callback lower o2 cbs c) = Ok tt.
Proof.
  intros H1 H2 Hnd Ok1. pose proof (add_callback_spec o1 H1 cbs c Hnd) as S. simpl in S.
  destruct (add_callback lower o1 cbs c) as [r [u|e]]; simpl in Ok1; [|discriminate].
  destruct S as [Eg [_ Hed]].
  apply (add_callback_complete o2 H2 cbs c (fun a => idx a (ids r))); auto.
Qed.

(* Owner-shaped callback: first in every accepted result *)
Lemma owner_first orc cbs c o r :
  perm_oracle orc -> NoDup (ids (cbs ++ [c])) ->
  add_callback lower orc cbs c = (r, Ok tt) ->
  In o (cbs ++ [c]) -> ckind o = 1%N ->
  exists t, r = o :: t.
Proof.
  intros Horc Hnd Ea Ho Hk. pose proof (add_callback_spec orc Horc cbs c Hnd) as S. simpl in S.
  rewrite Ea in S. destruct S as [_ [HP Hed]]. set (all := cbs ++ [c]) in *.
  assert (Hor : In o r) by (eapply Permutation_in; [apply Permutation_sym; exact HP|exact Ho]).
  destruct r as [|h t]; [contradiction|]. exists t. f_equal.
  assert (Hh : In h all) by (eapply Permutation_in; [exact HP|left; reflexivity]).
  destruct (N.eq_dec (cid h) (cid o)) as [E|NE].
  - apply (NoDup_map_inj cid all); auto.
  - exfalso.
    assert (Hedge : In (cid o, cid h) (declared_edges all)).
    { unfold declared_edges. apply in_flat_map. exists o. split; [exact Ho|].
      unfold edges_pure, call_precedence. rewrite Hk. simpl. apply in_map.
      unfold others, ids. apply in_map. apply filter_In. split; [exact Hh|].
      apply negb_true_iff, N.eqb_neq. exact NE. }
    specialize (Hed _ _ Hedge). simpl in Hed. rewrite N.eqb_refl in Hed. lia.
Qed.

(* a declared callBefore of a callback without self-reference *)
Definition no_selfref (all : list cb) (c : cb) : bool :=
  negb (mem (cid c) (resolve lower all (cbefore c)) || mem (cid c) (resolve lower all (cafter c))).

Lemma declared_before_edge all c n d :
  In c all -> ckind c = 0%N -> no_selfref all c = true ->
  In n (cbefore c) -> get_callback lower all n = Some d ->
  In (cid c, cid d) (declared_edges all).
Proof.
  intros Hc Hk Hs Hn Hg. unfold declared_edges. apply in_flat_map. exists c. split; [exact Hc|].
  unfold edges_pure, call_precedence. rewrite Hk. simpl.
  unfold no_selfref in Hs. apply negb_true_iff in Hs. rewrite Hs. simpl.
  apply in_app_iff. right. apply in_map. unfold resolve. apply in_flat_map. exists n.
  split; [exact Hn|]. rewrite Hg. left; reflexivity.
Qed.

Lemma declared_after_edge all c n d :
  In c all -> ckind c = 0%N -> no_selfref all c = true ->
  In n (cafter c) -> get_callback lower all n = Some d ->
  In (cid d, cid c) (declared_edges all).
Proof.
  intros Hc Hk Hs Hn Hg. unfold declared_edges. apply in_flat_map. exists c. split; [exact Hc|].
  unfold edges_pure, call_precedence. rewrite Hk. simpl.
  unfold no_selfref in Hs. apply negb_true_iff in Hs. rewrite Hs. simpl.
  apply in_app_iff. left. apply in_map_iff. exists (cid d). split; [reflexivity|].
  unfold resolve. apply in_flat_map. exists n.
  split; [exact Hn|]. rewrite Hg. left; reflexivity.
Qed.
End AddCallback.
