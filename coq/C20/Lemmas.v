(* C20/Lemmas.v — Irc.addCallback: specification of the result for every oracle *)
From Coq Require Import List NArith Bool Arith Lia Permutation.
Import ListNotations.
Require Import Base.Wire Base.PyStr C20.Model C20.AuxList C20.Sort.

Section AddCallback.
Variable lower : str -> str.

(* ---------- the declared precedence edges ---------- *)
Definition edges_pure (cbs : list cb) (c : cb) : list (N * N) :=
  map (fun o => (o, cid c)) (fst (call_precedence lower cbs c)) ++
  map (fun o => (cid c, o)) (snd (call_precedence lower cbs c)).

(* every edge (a, b) means: a must be called before b *)
Definition declared_edges (all : list cb) : list (N * N) := flat_map (edges_pure all) all.

Lemma resolve_in cbs names x : In x (resolve lower cbs names) -> In x (ids cbs).
Proof.
  unfold resolve. intro H. apply in_flat_map in H as [n [_ H]].
  destruct (get_callback lower cbs n) as [d|] eqn:E; [|contradiction].
  destruct H as [H|[]]. subst. unfold get_callback in E. apply find_some in E as [E _].
  apply in_map. exact E.
Qed.

Lemma others_in cbs c x : In x (others cbs c) -> In x (ids cbs) /\ x <> cid c.
Proof.
  unfold others, ids. intro H. apply in_map_iff in H as [d [Ed H]]. subst.
  apply filter_In in H as [H1 H2]. apply negb_true_iff, N.eqb_neq in H2.
  split; [apply in_map; exact H1|exact H2].
Qed.

Lemma call_precedence_spec cbs c :
  let p := call_precedence lower cbs c in
  (forall x, In x (fst p) -> In x (ids cbs)) /\
  (forall x, In x (snd p) -> In x (ids cbs)).
Proof.
  unfold call_precedence.
  destruct (N.eqb (ckind c) 1); [|destruct (N.eqb (ckind c) 2)]; simpl.
  - split; [intros x []|intros x Hx; apply (others_in cbs c x Hx)].
  - split; [intros x Hx; apply (others_in cbs c x Hx)|intros x []].
  - split; intros x Hx; eapply resolve_in; eauto.
Qed.

(* a callback that resolves one of its own callBefore/callAfter names to itself *)
Definition selfref_b (cbs : list cb) (c : cb) : bool :=
  mem (cid c) (snd (call_precedence lower cbs c)) || mem (cid c) (fst (call_precedence lower cbs c)).

Lemma edges_of_cb_cases cbs c :
  edges_of_cb lower cbs c = if selfref_b cbs c then Raise AssertionError else Ok (edges_pure cbs c).
Proof.
  unfold edges_of_cb, edges_pure, selfref_b.
  destruct (call_precedence lower cbs c) as [b a]. simpl.
  destruct (mem (cid c) a); [reflexivity|]. destruct (mem (cid c) b); reflexivity.
Qed.

Lemma all_edges_cases cbs l :
  all_edges lower cbs l =
  if existsb (selfref_b cbs) l then Raise AssertionError else Ok (flat_map (edges_pure cbs) l).
Proof.
  induction l as [|c l IH]; simpl; [reflexivity|].
  rewrite edges_of_cb_cases, IH. destruct (selfref_b cbs c); simpl; [reflexivity|].
  destruct (existsb (selfref_b cbs) l); reflexivity.
Qed.

Lemma declared_edges_src all a b : In (a, b) (declared_edges all) -> In a (ids all) /\ In b (ids all).
Proof.
  unfold declared_edges. intro H. apply in_flat_map in H as [c [Hc H]].
  unfold edges_pure in H. destruct (call_precedence_spec all c) as [Hb Ha].
  apply in_app_iff in H as [H|H]; apply in_map_iff in H as [o [Eo Ho]]; inversion Eo; subst.
  - split; [apply Hb; exact Ho|apply in_map; exact Hc].
  - split; [apply in_map; exact Hc|apply Ha; exact Ho].
Qed.

(* a self-reference is an edge from the callback to itself *)
Lemma selfref_edge all c : In c all -> selfref_b all c = true -> In (cid c, cid c) (declared_edges all).
Proof.
  intros Hc Hs. unfold declared_edges. apply in_flat_map. exists c. split; [exact Hc|].
  unfold edges_pure, selfref_b in *. apply orb_true_iff in Hs as [Hs|Hs]; apply mem_In in Hs; apply in_app_iff.
  - right. apply in_map_iff. exists (cid c). auto.
  - left. apply in_map_iff. exists (cid c). auto.
Qed.

(* ---------- the result of addCallback, for every oracle ---------- *)
Section Oracle.
Variable orc : list cb -> list cb.
Hypothesis Horc : perm_oracle orc.

Definition sorted_ok (all r : list cb) : Prop :=
  Permutation r all /\
  forall a b, In (a, b) (declared_edges all) -> (idx a (ids r) < idx b (ids r))%nat.

Lemma sort_callbacks_spec all :
  NoDup (ids all) ->
  match sort_callbacks lower orc all with
  | Ok r => existsb (selfref_b all) all = false /\ sorted_ok all r
  | Raise e => e = AssertionError
  end.
Proof.
  intros Hnd. unfold sort_callbacks. rewrite all_edges_cases.
  destruct (existsb (selfref_b all) all) eqn:Es; [reflexivity|]. fold (declared_edges all).
  destruct (sort_loop_spec orc Horc all Hnd (declared_edges all) (S (length all)) [] (declared_edges all))
    as [done [edges [Es' [HI HF]]]].
  { apply Inv_init. } { simpl. lia. }
  rewrite Es'. destruct (Nat.eqb (length done) (length all)) eqn:El; [|reflexivity].
  apply Nat.eqb_eq in El. split; [reflexivity|]. split.
  - eapply Inv_full_perm; eauto.
  - intros a b Hab. eapply Inv_full_edges; eauto. apply (declared_edges_src all a b Hab).
Qed.

Lemma add_callback_spec cbs c :
  NoDup (ids (cbs ++ [c])) ->
  let all := cbs ++ [c] in
  match add_callback lower orc cbs c with
  | (r, Ok _) => get_callback lower cbs (cname c) = None /\ sorted_ok all r
  | (r, Raise e) => e = AssertionError /\ r = cbs
  end.
Proof.
  intros Hnd all. unfold add_callback.
  destruct (get_callback lower cbs (cname c)) as [d|] eqn:Eg; [split; reflexivity|].
  fold all. pose proof (sort_callbacks_spec all Hnd) as S.
  destruct (sort_callbacks lower orc all) as [r|e].
  - split; [reflexivity|apply S].
  - split; [exact S|reflexivity].
Qed.

(* an edge set with a ranking (= acyclic, in particular no self-reference) is never rejected *)
Lemma add_callback_complete cbs c (rank : N -> nat) :
  NoDup (ids (cbs ++ [c])) ->
  get_callback lower cbs (cname c) = None ->
  (forall a b, In (a, b) (declared_edges (cbs ++ [c])) -> (rank a < rank b)%nat) ->
  snd (add_callback lower orc cbs c) = Ok tt.
Proof.
  intros Hnd Eg HR. unfold add_callback, sort_callbacks. rewrite Eg.
  set (all := cbs ++ [c]) in *. rewrite all_edges_cases.
  destruct (existsb (selfref_b all) all) eqn:Es.
  { exfalso. apply existsb_exists in Es as [x [Hx Hs]].
    pose proof (HR _ _ (selfref_edge all x Hx Hs)). lia. }
  fold (declared_edges all).
  destruct (sort_loop_spec orc Horc all Hnd (declared_edges all) (S (length all)) [] (declared_edges all))
    as [done [edges [Es' [HI HF]]]].
  { apply Inv_init. } { simpl. lia. }
  rewrite Es'.
  assert (El : length done = length all).
  { eapply (Inv_ranked_full all Hnd (declared_edges all) done edges rank); eauto.
    intros a b Hab. split; [apply (declared_edges_src all a b Hab)|apply HR; exact Hab]. }
  rewrite El, Nat.eqb_refl. reflexivity.
Qed.
End Oracle.

(* closed walks in the edge relation *)
Inductive walk (E : list (N * N)) : N -> N -> Prop :=
| walk_one a b : In (a, b) E -> walk E a b
| walk_cons a b c : In (a, b) E -> walk E b c -> walk E a c.

Lemma walk_increasing E (pos : N -> nat) :
  (forall a b, In (a, b) E -> (pos a < pos b)%nat) ->
  forall a b, walk E a b -> (pos a < pos b)%nat.
Proof.
  intros H a b W. induction W as [a b Hab|a b c Hab _ IH]; [auto|].
  specialize (H _ _ Hab). lia.
Qed.

(* cyclic constraints (a self-reference is the closed walk of length 1): AssertionError, and the
   callbacks list is left exactly as it was *)
Lemma add_callback_cycle orc cbs c x :
  perm_oracle orc -> NoDup (ids (cbs ++ [c])) ->
  walk (declared_edges (cbs ++ [c])) x x ->
  add_callback lower orc cbs c = (cbs, Raise AssertionError).
Proof.
  intros Horc Hnd W. pose proof (add_callback_spec orc Horc cbs c Hnd) as S. simpl in S.
  destruct (add_callback lower orc cbs c) as [r [u|e]].
  - exfalso. destruct S as [_ [_ Hed]].
    pose proof (walk_increasing _ (fun a => idx a (ids r)) Hed x x W). lia.
  - destruct S as [-> ->]. reflexivity.
Qed.

Lemma add_callback_selfref orc cbs c :
  perm_oracle orc -> NoDup (ids (cbs ++ [c])) ->
  selfref_b (cbs ++ [c]) c = true ->
  add_callback lower orc cbs c = (cbs, Raise AssertionError).
Proof.
  intros Horc Hnd Hs. apply (add_callback_cycle orc cbs c (cid c) Horc Hnd).
  apply walk_one. apply selfref_edge; [apply in_or_app; right; left; reflexivity|exact Hs].
Qed.

(* acceptance does not depend on the oracle *)
Lemma add_callback_accept_indep o1 o2 cbs c :
  perm_oracle o1 -> perm_oracle o2 -> NoDup (ids (cbs ++ [c])) ->
  snd (add_callback lower o1 cbs c) = Ok tt -> snd (add_callback lower o2 cbs c) = Ok tt.
Proof.
  intros H1 H2 Hnd Ok1. pose proof (add_callback_spec o1 H1 cbs c Hnd) as S. simpl in S.
  destruct (add_callback lower o1 cbs c) as [r [u|e]]; simpl in Ok1; [|discriminate].
  destruct S as [Eg [_ Hed]].
  apply (add_callback_complete o2 H2 cbs c (fun a => idx a (ids r))); auto.
Qed.

(* Owner-shaped callback: first in every accepted result *)
Lemma owner_first orc cbs c o r :
  perm_oracle orc -> NoDup (ids (cbs ++ [c])) ->
  add_callback lower orc cbs c = (r, Ok tt) ->
  In o (cbs ++ [c]) -> ckind o = 1%N ->
  exists t, r = o :: t.
Proof.
  intros Horc Hnd Ea Ho Hk. pose proof (add_callback_spec orc Horc cbs c Hnd) as S. simpl in S.
  rewrite Ea in S. destruct S as [_ [HP Hed]]. set (all := cbs ++ [c]) in *.
  assert (Hor : In o r) by (eapply Permutation_in; [apply Permutation_sym; exact HP|exact Ho]).
  destruct r as [|h t]; [contradiction|]. exists t. f_equal.
  assert (Hh : In h all) by (eapply Permutation_in; [exact HP|left; reflexivity]).
  destruct (N.eq_dec (cid h) (cid o)) as [E|NE].
  - apply (NoDup_map_inj cid all); auto.
  - exfalso.
    assert (Hedge : In (cid o, cid h) (declared_edges all)).
    { unfold declared_edges. apply in_flat_map. exists o. split; [exact Ho|].
      unfold edges_pure, call_precedence. rewrite Hk. simpl. apply in_map.
      unfold others, ids. apply in_map. apply filter_In. split; [exact Hh|].
      apply negb_true_iff, N.eqb_neq. exact NE. }
    specialize (Hed _ _ Hedge). simpl in Hed. rewrite N.eqb_refl in Hed. lia.
Qed.

(* declared callBefore / callAfter names that resolve to a registered callback are edges *)
Lemma declared_before_edge all c n d :
  In c all -> ckind c = 0%N ->
  In n (cbefore c) -> get_callback lower all n = Some d ->
  In (cid c, cid d) (declared_edges all).
Proof.
  intros Hc Hk Hn Hg. unfold declared_edges. apply in_flat_map. exists c. split; [exact Hc|].
  unfold edges_pure, call_precedence. rewrite Hk. simpl.
  apply in_app_iff. right. apply in_map. unfold resolve. apply in_flat_map. exists n.
  split; [exact Hn|]. rewrite Hg. left; reflexivity.
Qed.

Lemma declared_after_edge all c n d :
  In c all -> ckind c = 0%N ->
  In n (cafter c) -> get_callback lower all n = Some d ->
  In (cid d, cid c) (declared_edges all).
Proof.
  intros Hc Hk Hn Hg. unfold declared_edges. apply in_flat_map. exists c. split; [exact Hc|].
  unfold edges_pure, call_precedence. rewrite Hk. simpl.
  apply in_app_iff. left. apply in_map_iff. exists (cid d). split; [reflexivity|].
  unfold resolve. apply in_flat_map. exists n.
  split; [exact Hn|]. rewrite Hg. left; reflexivity.
Qed.
End AddCallback.
