(* C20/Props.v — the property theorems, nothing else.
   Model: C20/Model.v (src/irclib.py Irc.addCallback/_sortCallbacks/getCallback/removeCallback, the
   callPrecedence shapes, Owner.load/unload/reload) as of the fixes C20.F21 (import part), C20.F22,
   C20.F23, C20.F24.  Proofs: AuxList.v, Sort.v, Lemmas.v, History.v, Failure.v.
   [lower] is str.lower(): any function.  [orc]/[o] is the iteration order of the Python set
   `firsts`: any function returning a permutation of its argument. *)
From Coq Require Import List NArith Permutation.
Import ListNotations.
Require Import Base.Wire Base.PyStr C20.Model C20.Sort C20.Lemmas C20.History C20.Failure.

(* addCallback, for EVERY set-iteration oracle: either the new list is a permutation of
   old ++ [new] in which every declared edge (a before b) holds, or AssertionError is raised and
   the callbacks list is exactly the old one. *)
Theorem C20_toposort :
  forall lower orc cbs c, perm_oracle orc -> NoDup (ids (cbs ++ [c])) ->
  match add_callback lower orc cbs c with
  | (r, Ok _) =>
      get_callback lower cbs (cname c) = None /\
      Permutation r (cbs ++ [c]) /\
      forall a b, In (a, b) (declared_edges lower (cbs ++ [c])) -> (idx a (ids r) < idx b (ids r))%nat
  | (r, Raise e) => e = AssertionError /\ r = cbs
  end.
Proof. intros lower orc cbs c H. exact (add_callback_spec lower orc H cbs c). Qed.
Print Assumptions C20_toposort.

(* acyclic (= rankable) constraints are never rejected *)
Theorem C20_toposort_complete :
  forall lower orc cbs c (rank : N -> nat), perm_oracle orc -> NoDup (ids (cbs ++ [c])) ->
  get_callback lower cbs (cname c) = None ->
  (forall a b, In (a, b) (declared_edges lower (cbs ++ [c])) -> (rank a < rank b)%nat) ->
  snd (add_callback lower orc cbs c) = Ok tt.
Proof. intros lower orc cbs c rank H. exact (add_callback_complete lower orc H cbs c rank). Qed.
Print Assumptions C20_toposort_complete.

(* cyclic constraints (any closed walk, a self-reference being the walk of length 1) are rejected
   with AssertionError whatever the oracle, and nothing stays registered *)
Theorem C20_cycle_rejected :
  forall lower orc cbs c x, perm_oracle orc -> NoDup (ids (cbs ++ [c])) ->
  walk (declared_edges lower (cbs ++ [c])) x x ->
  add_callback lower orc cbs c = (cbs, Raise AssertionError).
Proof. exact add_callback_cycle. Qed.
Print Assumptions C20_cycle_rejected.

(* a callback one of whose callBefore/callAfter names resolves to itself is rejected *)
Theorem C20_selfref_rejected :
  forall lower orc cbs c, perm_oracle orc -> NoDup (ids (cbs ++ [c])) ->
  selfref_b lower (cbs ++ [c]) c = true ->
  add_callback lower orc cbs c = (cbs, Raise AssertionError).
Proof. exact add_callback_selfref. Qed.
Print Assumptions C20_selfref_rejected.

(* whether a callback is accepted does not depend on the set iteration order *)
Theorem C20_accept_oracle_independent :
  forall lower o1 o2 cbs c, perm_oracle o1 -> perm_oracle o2 -> NoDup (ids (cbs ++ [c])) ->
  snd (add_callback lower o1 cbs c) = Ok tt -> snd (add_callback lower o2 cbs c) = Ok tt.
Proof. exact add_callback_accept_indep. Qed.
Print Assumptions C20_accept_oracle_independent.

(* an Owner-shaped callback is first in every accepted result *)
Theorem C20_owner_first :
  forall lower orc cbs c o r, perm_oracle orc -> NoDup (ids (cbs ++ [c])) ->
  add_callback lower orc cbs c = (r, Ok tt) -> In o (cbs ++ [c]) -> ckind o = 1%N ->
  exists t, r = o :: t.
Proof. exact owner_first. Qed.
Print Assumptions C20_owner_first.

(* every name n in c.callBefore that resolves to a registered d puts c before d -- full statement
   (the domain restriction no_selfref and the refuting witness went with fix C20.F23) *)
Theorem C20_declared_before :
  forall lower orc cbs c0 r c n d, perm_oracle orc -> NoDup (ids (cbs ++ [c0])) ->
  add_callback lower orc cbs c0 = (r, Ok tt) ->
  In c (cbs ++ [c0]) -> ckind c = 0%N ->
  In n (cbefore c) -> get_callback lower (cbs ++ [c0]) n = Some d ->
  (idx (cid c) (ids r) < idx (cid d) (ids r))%nat.
Proof.
  intros lower orc cbs c0 r c n d Ho Hnd Ea Hc Hk Hn Hg.
  pose proof (add_callback_spec lower orc Ho cbs c0 Hnd) as S. simpl in S. rewrite Ea in S.
  destruct S as [_ [_ Hed]]. apply Hed. eapply declared_before_edge; eauto.
Qed.
Print Assumptions C20_declared_before.

Theorem C20_declared_after :
  forall lower orc cbs c0 r c n d, perm_oracle orc -> NoDup (ids (cbs ++ [c0])) ->
  add_callback lower orc cbs c0 = (r, Ok tt) ->
  In c (cbs ++ [c0]) -> ckind c = 0%N ->
  In n (cafter c) -> get_callback lower (cbs ++ [c0]) n = Some d ->
  (idx (cid d) (ids r) < idx (cid c) (ids r))%nat.
Proof.
  intros lower orc cbs c0 r c n d Ho Hnd Ea Hc Hk Hn Hg.
  pose proof (add_callback_spec lower orc Ho cbs c0 Hnd) as S. simpl in S. rewrite Ea in S.
  destruct S as [_ [_ Hed]]. apply Hed. eapply declared_after_edge; eauto.
Qed.
Print Assumptions C20_declared_after.

(* over every history: each plugin registered once (names distinct after folding), objects distinct *)
Theorem C20_once :
  forall lower world ops s, Forall (op_ok) ops -> wf_st lower s ->
  wf_st lower (steps lower world s ops).
Proof. exact steps_wf. Qed.
Print Assumptions C20_once.

(* over every history through the bot's commands (anything but a direct removeCallback("Owner")):
   the core dispatcher stays registered and is callbacks[0] *)
Theorem C20_owner_stays :
  forall lower world ops s, Forall op_ok ops -> Forall (op_guarded lower) ops ->
  wf_st lower s -> owner_head lower (s_cbs s) ->
  owner_head lower (s_cbs (steps lower world s ops)).
Proof. exact steps_owner. Qed.
Print Assumptions C20_owner_stays.

(* a `load` that does not answer success leaves the registered list as it was -- full statement
   (the domain load_dom and the cyclic witness went with fix C20.F22) *)
Theorem C20_failed_load_keeps_set :
  forall lower world s n imp initf o, perm_oracle o -> wf_st lower s ->
  forall s' r, owner_load lower world s n imp initf o = (s', r) -> r <> Ok 0%N ->
  s_cbs s' = s_cbs s.
Proof. exact failed_load_keeps. Qed.
Print Assumptions C20_failed_load_keeps_set.

(* Full statement for reload:  a reload that does not answer success leaves the same plugins
   registered.  Since fixes C20.F21 (import part) and C20.F24 it holds whenever the IMPORT of the
   new code fails (ImportError or any other exception, also after an earlier failed reload), on
   the decidable domain readd_dom (putting the old callback back is accepted: its constraints are
   acyclic in the current list).  It is still violated when the import succeeds and the old
   instance's die() or the new constructor raises (known finding C20.F21, witness below). *)
Theorem C20_failed_reload_keeps_set_on_domain :
  forall lower world s n imp initf dief o, perm_oracle o -> wf_st lower s ->
  imp <> 0%N -> readd_dom lower s n = true ->
  forall s' r, owner_reload lower world s n imp initf dief o = (s', r) ->
  r <> Ok 0%N /\ Permutation (s_cbs s') (s_cbs s).
Proof. exact failed_import_reload_keeps. Qed.
Print Assumptions C20_failed_reload_keeps_set_on_domain.

Theorem C20_failed_reload_keeps_set_refuted :
  exists world s n s', get_callback lower_ascii (s_cbs s) n <> None /\
  owner_reload lower_ascii world s n 0 true false id_oracle = (s', Raise OtherError) /\
  get_callback lower_ascii (s_cbs s') n = None.
Proof.
  exists w_reload, (steps lower_ascii w_reload st0 ops_reload), nAlpha. eexists.
  split; [vm_compute; discriminate|]. split; vm_compute; reflexivity.
Qed.
Print Assumptions C20_failed_reload_keeps_set_refuted.

(* the commands answered are those of the registered callbacks (dispatch itself: C14) *)
Theorem C20_commands_union_partial :
  forall cbs cmd, answers cbs cmd = true <->
  exists c, In c cbs /\ existsb (seq_eqb cmd) (ccmds c) = true.
Proof. intros cbs cmd. unfold answers. apply existsb_exists. Qed.
Print Assumptions C20_commands_union_partial.
