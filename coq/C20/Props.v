(* C20/Props.v — the property theorems, nothing else.
   Model: C20/Model.v (src/irclib.py Irc.addCallback/_sortCallbacks/getCallback/removeCallback, the
   callPrecedence shapes, Owner.load/unload/reload) as of the fixes C20.F21 (import part), C20.F22,
   C20.F23, C20.F24.  Proofs: AuxList.v, Sort.v, Lemmas.v, History.v, Failure.v.
   [lower] is str.lower(): any function.  [orc]/[o] is the iteration order of the Python set
   `firsts`: any function returning a permutation of its argument. *)
From Coq Require Import List NArith Permutation.
Import ListNotations.
Require Import Base.Wire Base.PyStr C20.Model C20.AuxList C20.Sort C20.Lemmas C20.History C20.Failure
               C20.Invariant C20.Dispatch C20.Sharing C20.Examples C20.Lookup C20.Alive.

(* addCallback, for EVERY set-iteration oracle: either the new list is a permutation of
   old ++ [new] in which every declared edge (a before b) holds, or AssertionError is raised and
   the callbacks list is exactly the old one. *)
Theorem C20_toposort :
  forall lower orc cbs c, perm_oracle orc -> NoDup (ids (cbs ++ [c])) ->
  match add_callback lower orc cbs c with
  | (r, Ok _) =>
      get_callback lower cbs (cname c) = None /\
      Permutation r (cbs ++ [c]) /\
      forall a b, In (a, b) (declared_edges lower (cbs ++ [c])) -> (idx a (ids r) < idx b (ids r))%nat
  | (r, Raise e) => e = AssertionError /\ r = cbs
  end.
Proof. intros lower orc cbs c H. exact (add_callback_spec lower orc H cbs c). Qed.
Print Assumptions C20_toposort.

(* acyclic (= rankable) constraints are never rejected *)
Theorem C20_toposort_complete :
  forall lower orc cbs c (rank : N -> nat), perm_oracle orc -> NoDup (ids (cbs ++ [c])) ->
  get_callback lower cbs (cname c) = None ->
  (forall a b, In (a, b) (declared_edges lower (cbs ++ [c])) -> (rank a < rank b)%nat) ->
  snd (add_callback lower orc cbs c) = Ok tt.
Proof. intros lower orc cbs c rank H. exact (add_callback_complete lower orc H cbs c rank). Qed.
Print Assumptions C20_toposort_complete.

(* cyclic constraints (any closed walk, a self-reference being the walk of length 1) are rejected
   with AssertionError whatever the oracle, and nothing stays registered *)
Theorem C20_cycle_rejected :
  forall lower orc cbs c x, perm_oracle orc -> NoDup (ids (cbs ++ [c])) ->
  walk (declared_edges lower (cbs ++ [c])) x x ->
  add_callback lower orc cbs c = (cbs, Raise AssertionError).
Proof. exact add_callback_cycle. Qed.
Print Assumptions C20_cycle_rejected.

(* a callback one of whose callBefore/callAfter names resolves to itself is rejected *)
Theorem C20_selfref_rejected :
  forall lower orc cbs c, perm_oracle orc -> NoDup (ids (cbs ++ [c])) ->
  selfref_b lower (cbs ++ [c]) c = true ->
  add_callback lower orc cbs c = (cbs, Raise AssertionError).
Proof. exact add_callback_selfref. Qed.
Print Assumptions C20_selfref_rejected.

(* whether a callback is accepted does not depend on the set iteration order *)
Theorem C20_accept_oracle_independent :
  forall lower o1 o2 cbs c, perm_oracle o1 -> perm_oracle o2 -> NoDup (ids (cbs ++ [c])) ->
  snd (add_callback lower o1 cbs c) = Ok tt -> snd (add_callback lower o2 cbs c) = Ok tt.
Proof. exact add_callback_accept_indep. Qed.
Print Assumptions C20_accept_oracle_independent.

(* an Owner-shaped callback is first in every accepted result *)
Theorem C20_owner_first :
  forall lower orc cbs c o r, perm_oracle orc -> NoDup (ids (cbs ++ [c])) ->
  add_callback lower orc cbs c = (r, Ok tt) -> In o (cbs ++ [c]) -> ckind o = 1%N ->
  exists t, r = o :: t.
Proof. exact owner_first. Qed.
Print Assumptions C20_owner_first.

(* every name n in c.callBefore that resolves to a registered d puts c before d -- full statement
   (the domain restriction no_selfref and the refuting witness went with fix C20.F23) *)
Theorem C20_declared_before :
  forall lower orc cbs c0 r c n d, perm_oracle orc -> NoDup (ids (cbs ++ [c0])) ->
  add_callback lower orc cbs c0 = (r, Ok tt) ->
  In c (cbs ++ [c0]) -> ckind c = 0%N ->
  In n (cbefore c) -> get_callback lower (cbs ++ [c0]) n = Some d ->
  (idx (cid c) (ids r) < idx (cid d) (ids r))%nat.
Proof.
  intros lower orc cbs c0 r c n d Ho Hnd Ea Hc Hk Hn Hg.
  pose proof (add_callback_spec lower orc Ho cbs c0 Hnd) as S. simpl in S. rewrite Ea in S.
  destruct S as [_ [_ Hed]]. apply Hed. eapply declared_before_edge; eauto.
Qed.
Print Assumptions C20_declared_before.

Theorem C20_declared_after :
  forall lower orc cbs c0 r c n d, perm_oracle orc -> NoDup (ids (cbs ++ [c0])) ->
  add_callback lower orc cbs c0 = (r, Ok tt) ->
  In c (cbs ++ [c0]) -> ckind c = 0%N ->
  In n (cafter c) -> get_callback lower (cbs ++ [c0]) n = Some d ->
  (idx (cid d) (ids r) < idx (cid c) (ids r))%nat.
Proof.
  intros lower orc cbs c0 r c n d Ho Hnd Ea Hc Hk Hn Hg.
  pose proof (add_callback_spec lower orc Ho cbs c0 Hnd) as S. simpl in S. rewrite Ea in S.
  destruct S as [_ [_ Hed]]. apply Hed. eapply declared_after_edge; eauto.
Qed.
Print Assumptions C20_declared_after.

(* over every history: each plugin registered once (names distinct after folding), objects distinct *)
Theorem C20_once :
  forall lower world ops s, Forall (op_ok) ops -> wf_st lower s ->
  wf_st lower (steps lower world s ops).
Proof. exact steps_wf. Qed.
Print Assumptions C20_once.

(* over every history through the bot's commands (anything but a direct removeCallback("Owner")):
   the core dispatcher stays registered and is callbacks[0] *)
Theorem C20_owner_stays :
  forall lower world ops s, Forall op_ok ops -> Forall (op_guarded lower) ops ->
  wf_st lower s -> owner_head lower (s_cbs s) ->
  owner_head lower (s_cbs (steps lower world s ops)).
Proof. exact steps_owner. Qed.
Print Assumptions C20_owner_stays.

(* a `load` that does not answer success leaves the registered list as it was -- full statement
   (the domain load_dom and the cyclic witness went with fix C20.F22) *)
Theorem C20_failed_load_keeps_set :
  forall lower world s n imp initf o, perm_oracle o -> wf_st lower s ->
  forall s' r, owner_load lower world s n imp initf o = (s', r) -> r <> Ok 0%N ->
  s_cbs s' = s_cbs s.
Proof. exact failed_load_keeps. Qed.
Print Assumptions C20_failed_load_keeps_set.

(* Full statement for reload:  a reload that does not answer success leaves the same plugins
   registered.  Since fixes C20.F21 (import part) and C20.F24 it holds whenever the IMPORT of the
   new code fails (ImportError or any other exception, also after an earlier failed reload), on
   the decidable domain readd_dom (putting the old callback back is accepted: its constraints are
   acyclic in the current list).  It is still violated when the import succeeds and the old
   instance's die() or the new constructor raises (known finding C20.F21, witness below). *)
Theorem C20_failed_reload_keeps_set_on_domain :
  forall lower world s n imp initf dief o, perm_oracle o -> wf_st lower s ->
  imp <> 0%N -> readd_dom lower s n = true ->
  forall s' r, owner_reload lower world s n imp initf dief o = (s', r) ->
  r <> Ok 0%N /\ Permutation (s_cbs s') (s_cbs s).
Proof. exact failed_import_reload_keeps. Qed.
Print Assumptions C20_failed_reload_keeps_set_on_domain.

Theorem C20_failed_reload_keeps_set_refuted :
  exists world s n s', get_callback lower_ascii (s_cbs s) n <> None /\
  owner_reload lower_ascii world s n 0 true false id_oracle = (s', Raise OtherError) /\
  get_callback lower_ascii (s_cbs s') n = None.
Proof.
  exists w_reload, (steps lower_ascii w_reload st0 ops_reload), nAlpha. eexists.
  split; [vm_compute; discriminate|]. split; vm_compute; reflexivity.
Qed.
Print Assumptions C20_failed_reload_keeps_set_refuted.


(* ================= command resolution (findCallbacksForArgs / finalEval) ================= *)
(* [canon] is callbacks.canonicalName (any function); [g] the defaultPlugins configuration (any);
   [args] the canonicalised tokens.  Flat plugins: no sub-command groups, no disabled commands. *)

(* only a command of a registered callback resolves; an ambiguity error names ALL callbacks having
   the command with the longest match, at least two; nothing resolves iff nobody has the command *)
Theorem C20_resolution_sound :
  forall lower canon g args cbs, NoDup (ids cbs) ->
  (forall c k, final_eval lower canon g cbs args = Call c k ->
     In c cbs /\ (0 < k)%nat /\ get_command canon c args = k) /\
  (forall l, final_eval lower canon g cbs args = Ambiguous l ->
     (2 <= length l)%nat /\
     forall c, In c l <-> (In c cbs /\ (0 < get_command canon c args)%nat /\
                           forall d, In d cbs -> (get_command canon d args <= get_command canon c args)%nat)) /\
  (final_eval lower canon g cbs args = Invalid <-> forall c, In c cbs -> get_command canon c args = O).
Proof.
  intros lower canon g args cbs Hnd. split; [|split].
  - intros c k. apply final_eval_call. exact Hnd.
  - intros l. apply final_eval_ambiguous_iff.
  - apply final_eval_invalid.
Qed.
Print Assumptions C20_resolution_sound.

(* `plugin command ...` always reaches that plugin's command: never shadowed, whatever else is
   registered and whatever the configuration (canonical plugin names pairwise distinct) *)
Theorem C20_qualified_never_shadowed :
  forall lower canon g cbs c cmd rest, NoDup cbs -> In c cbs -> is_cmd c cmd = true ->
  (forall d, In d cbs -> cb_canon canon d = cb_canon canon c -> d = c) ->
  final_eval lower canon g cbs (cb_canon canon c :: cmd :: rest) = Call c 2.
Proof. exact qualified_resolves. Qed.
Print Assumptions C20_qualified_never_shadowed.

(* the bare form: the callbacks having the command, narrowed by the three documented rules (own
   name, configured default plugin, single important plugin), else all of them (ambiguity error) *)
Theorem C20_bare_rules :
  forall lower canon g cbs cmd, holders cbs cmd <> [] ->
  find_callbacks lower canon g cbs [cmd] = (1%nat, tie_rules lower canon g cbs (holders cbs cmd) cmd).
Proof. exact bare_resolves. Qed.
Print Assumptions C20_bare_rules.

Theorem C20_bare_unique_holder :
  forall lower canon g cbs cmd c, NoDup (ids cbs) -> holders cbs cmd = [c] ->
  final_eval lower canon g cbs [cmd] = Call c 1.
Proof. exact bare_unique_holder. Qed.
Print Assumptions C20_bare_unique_holder.

(* after EVERY history (successful or failing operations, any import/constructor/die outcome):
   what resolves is exactly what the registered callbacks have -- replaces C20_commands_union_partial *)
Theorem C20_commands_after_history :
  forall lower canon world g ops s, Forall op_ok ops -> wf_st lower s ->
  let l := s_cbs (steps lower world s ops) in
  (forall args c k, final_eval lower canon g l args = Call c k ->
     In c l /\ (0 < k)%nat /\ get_command canon c args = k) /\
  (forall args c k p, final_eval lower canon g l args = Call c k ->
     get_callback lower l p = None -> lower (cname c) <> lower p) /\
  (forall args, final_eval lower canon g l args = Invalid <->
     forall c, In c l -> get_command canon c args = O) /\
  (forall c cmd rest, In c l -> is_cmd c cmd = true ->
     (forall d, In d l -> cb_canon canon d = cb_canon canon c -> d = c) ->
     final_eval lower canon g l (cb_canon canon c :: cmd :: rest) = Call c 2) /\
  (forall c cmd, holders l cmd = [c] -> final_eval lower canon g l [cmd] = Call c 1).
Proof.
  intros lower canon world g ops s Hops Hw l.
  pose proof (steps_wf lower world ops s Hops Hw) as [Hn [Hi _]]. fold l in Hn, Hi.
  split; [|split; [|split; [|split]]].
  - intros args c k. apply final_eval_call. exact Hi.
  - intros args c k p Hc Hg E. destruct (final_eval_call lower canon g args l c k Hi Hc) as [Hin _].
    unfold get_callback in Hg. pose proof (find_none _ _ Hg c Hin) as Hf. unfold name_is in Hf.
    rewrite E, seq_eqb_refl in Hf. discriminate.
  - intro args. apply final_eval_invalid.
  - intros c cmd rest. apply qualified_resolves. apply (NoDup_map_NoDup cid). exact Hi.
  - intros c cmd. apply bare_unique_holder. exact Hi.
Qed.
Print Assumptions C20_commands_after_history.

(* ================= the history-level invariant ================= *)
(* after every history: registered once (by folded name), distinct objects, the list is a
   topological order of every callBefore/callAfter/Owner/Misc constraint declared among the
   registered callbacks, and (started with the core dispatcher at the head, no direct
   removeCallback("Owner")) Owner is callbacks[0] *)
Theorem C20_history_invariant :
  forall lower world ops s, Forall op_ok ops -> Forall (op_guarded lower) ops ->
  good_st lower s -> owner_head lower (s_cbs s) ->
  let l := s_cbs (steps lower world s ops) in
  NoDup (names lower l) /\ NoDup (ids l) /\
  (forall a b, In (a, b) (declared_edges lower l) -> (idx a (ids l) < idx b (ids l))%nat) /\
  owner_head lower l.
Proof.
  intros lower world ops s Hops Hg Hs Ho l.
  pose proof (steps_good lower world ops s Hops Hs) as [[Hn [Hi _]] Ht].
  split; [exact Hn|]. split; [exact Hi|]. split.
  - intros a b He. apply ordered_idx. apply Ht. exact He.
  - apply steps_owner; auto. apply Hs.
Qed.
Print Assumptions C20_history_invariant.

(* from the empty dispatcher, for every history at all *)
Theorem C20_history_invariant_from_empty :
  forall lower world ops, Forall op_ok ops ->
  let l := s_cbs (steps lower world st0 ops) in
  NoDup (names lower l) /\ NoDup (ids l) /\
  (forall a b, In (a, b) (declared_edges lower l) -> (idx a (ids l) < idx b (ids l))%nat).
Proof.
  intros lower world ops Hops l.
  pose proof (steps_good lower world ops st0 Hops (good_st0 lower)) as [[Hn [Hi _]] Ht].
  split; [exact Hn|]. split; [exact Hi|]. intros a b He. apply ordered_idx. apply Ht. exact He.
Qed.
Print Assumptions C20_history_invariant_from_empty.

(* a failed operation, at any point of any history, leaves the list a permutation of what it was.
   Domain op_dom: not a reload whose import succeeds (replace-phase failures: known finding
   C20.F21), not an unload whose die() raises (the plugin is removed as asked) *)
Theorem C20_failed_op_keeps_set :
  forall lower world ops s x s' r, Forall op_ok ops -> good_st lower s -> op_ok x -> op_dom x ->
  step lower world (steps lower world s ops) x = (s', r) -> r <> Ok 0%N ->
  Permutation (s_cbs s') (s_cbs (steps lower world s ops)).
Proof.
  intros lower world ops s x s' r Hops Hs Hx Hd E Hr.
  apply (step_failed_perm lower world (steps lower world s ops) x s' r Hx Hd); auto.
  apply steps_good; assumption.
Qed.
Print Assumptions C20_failed_op_keeps_set.

(* ================= several networks ================= *)
(* the regenerated inventory of writes to self.callbacks in class Irc contains no rebinding *)
Theorem C20_callbacks_never_rebound : never_rebound = true.
Proof. exact callbacks_never_rebound. Qed.
Print Assumptions C20_callbacks_never_rebound.

(* after every history of operations issued through any Irc objects, all Irc objects -- those
   created afterwards included -- see the same dispatcher list and resolve the same commands *)
Theorem C20_all_networks_agree :
  forall lower canon world g l h1 h2,
  let b := bsteps lower world bot0 l in
  In h1 (map fst (b_refs b)) -> In h2 (map fst (b_refs b)) ->
  view b h1 = view b h2 /\
  forall args, final_eval lower canon g (view b h1) args = final_eval lower canon g (view b h2) args.
Proof.
  intros lower canon world g l h1 h2 b H1 H2.
  pose proof (all_networks_agree lower world l h1 h2 H1 H2) as E. fold b in E.
  split; [exact E|]. intro args. rewrite E. reflexivity.
Qed.
Print Assumptions C20_all_networks_agree.

(* and what every network sees satisfies the history invariant *)
Theorem C20_networks_invariant :
  forall lower world l h, Forall bop_ok l -> Forall (bop_guarded lower) l ->
  let b := bsteps lower world bot0 l in
  In h (map fst (b_refs b)) ->
  let v := view b h in
  NoDup (names lower v) /\ NoDup (ids v) /\
  (forall a c, In (a, c) (declared_edges lower v) -> (idx a (ids v) < idx c (ids v))%nat).
Proof.
  intros lower world l h Hok Hg b Hh v.
  assert (Hs0 : refs_shared bot0) by constructor.
  destruct (bsteps_as_steps lower world l bot0 Hs0 Hok Hg) as [ops [Ho [_ [Ed _]]]].
  assert (Hv : v = s_cbs (steps lower world st0 ops)).
  { unfold v. rewrite (view_shared b h); [exact Ed|apply bsteps_shared; exact Hs0|exact Hh]. }
  rewrite Hv. apply C20_history_invariant_from_empty. exact Ho.
Qed.
Print Assumptions C20_networks_invariant.

(* ================= non-vacuity ================= *)
(* a 6-operation history (boot Owner, boot Misc, load Alpha, load Beta, a reload of Alpha whose
   import raises, a load of Cyc whose callBefore=Owner is cyclic): every hypothesis of the history
   theorems holds on it, the failing reload keeps Alpha, the cyclic load is refused and registers
   nothing; in the final state `shared` is ambiguous between Beta and Alpha, `alpha shared` and `c1`
   reach Alpha, nothing of the refused Cyc resolves *)
Theorem C20_history_example :
  (Forall op_ok ops6 /\ Forall (op_guarded lower_ascii) ops6 /\ Forall op_dom ops6 /\
   good_st lower_ascii st0 /\
   owner_head lower_ascii (s_cbs (steps lower_ascii w6 st0 [Boot nOwner id_oracle]))) /\
  map (fun rn => (fst rn, snd rn)) (trace lower_ascii w6 st0 ops6) =
  [(Ok 0%N, [nOwner]); (Ok 0%N, [nOwner; nMisc]); (Ok 0%N, [nOwner; nAlpha; nMisc]);
   (Ok 0%N, [nOwner; nBeta; nAlpha; nMisc]);
   (Raise OtherError, [nOwner; nBeta; nAlpha; nMisc]);
   (Raise AssertionError, [nOwner; nBeta; nAlpha; nMisc])] /\
  (let l := s_cbs (steps lower_ascii w6 st0 ops6) in
   (exists a b, final_eval lower_ascii canon_ascii g6 l [k_shared] = Ambiguous [b; a] /\ cname a = nAlpha /\ cname b = nBeta) /\
   (exists a, final_eval lower_ascii canon_ascii g6 l [k_alpha; k_shared] = Call a 2 /\ cname a = nAlpha) /\
   (exists a, final_eval lower_ascii canon_ascii g6 l [k_c1] = Call a 1 /\ cname a = nAlpha) /\
   final_eval lower_ascii canon_ascii g6 l [k_c3] = Invalid /\
   final_eval lower_ascii canon_ascii g6 l [k_cyc; k_c3] = Invalid).
Proof.
  split; [exact history6_hyps|]. split; [exact history6_trace|].
  destruct history6_resolution as [_ H]. exact H.
Qed.
Print Assumptions C20_history_example.

(* ================= which plugin a name resolves to (plugin.loadPluginModule) ================= *)
(* the directory entry resolved for a requested name is the plugin of that name up to case -- never
   another one (not one whose name merely starts with it, not one a regular expression would match).
   Full statement: the domain plain_name and the refuting witness went with fix C20.F25. *)
Theorem C20_module_resolved_is_named :
  forall lower world n p, find_spec lower world n = Some p ->
  In p world /\ lower (p_name p) = lower n.
Proof. exact find_spec_named. Qed.
Print Assumptions C20_module_resolved_is_named.

(* a plugin of that name (any case) on disk is always found *)
Theorem C20_module_resolved_complete :
  forall lower world n p, In p world -> lower (p_name p) = lower n ->
  exists q, find_spec lower world n = Some q.
Proof. exact find_spec_complete. Qed.
Print Assumptions C20_module_resolved_complete.

(* a `load n` answering success registers exactly one more callback, named n up to case *)
Theorem C20_load_registers_named :
  forall lower world s n imp initf o s', perm_oracle o -> wf_st lower s ->
  owner_load lower world s n imp initf o = (s', Ok 0%N) ->
  exists c, lower (cname c) = lower (strip_py n) /\ Permutation (s_cbs s') (s_cbs s ++ [c]).
Proof. exact load_registers_named. Qed.
Print Assumptions C20_load_registers_named.

(* non-vacuity: `al` -> Al and `ALPHA`/`Alpha` -> Alpha with both on disk; `Alph.` and `.*` -> nothing *)
Theorem C20_lookup_example :
  (option_map p_name (find_spec lower_ascii w_fam n_al) = Some nAl /\
   option_map p_name (find_spec lower_ascii w_fam n_ALPHA) = Some nAlpha /\
   option_map p_name (find_spec lower_ascii w_fam nAlpha) = Some nAlpha) /\
  (find_spec lower_ascii w_dot nAlphDot = None /\ find_spec lower_ascii w_dot nDotStar = None).
Proof. split; [exact lookup_example|exact lookup_metachar_example]. Qed.
Print Assumptions C20_lookup_example.

(* ================= what stays registered is alive ================= *)
(* [s_dead] is the log of die() calls.  After every history no registered callback has been torn
   down, and no instance is torn down twice: die() reaches only instances that have left the list
   for good (unload, or the success branch of reload).  In particular the old instance put back
   by a reload whose import failed has not been touched. *)
Theorem C20_registered_alive :
  forall lower world ops s, Forall op_ok ops -> alive_st lower s ->
  let s' := steps lower world s ops in
  (forall c, In c (s_cbs s') -> ~ In (cid c) (s_dead s')) /\ NoDup (s_dead s').
Proof.
  intros lower world ops s Hops Ha s'.
  destruct (steps_alive lower world ops s Hops Ha) as [_ [H1 [H2 _]]]. split; assumption.
Qed.
Print Assumptions C20_registered_alive.

Theorem C20_registered_alive_from_empty :
  forall lower world ops, Forall op_ok ops ->
  let s' := steps lower world st0 ops in
  (forall c, In c (s_cbs s') -> ~ In (cid c) (s_dead s')) /\ NoDup (s_dead s').
Proof. intros lower world ops Hops. apply C20_registered_alive; [exact Hops|apply alive_st0]. Qed.
Print Assumptions C20_registered_alive_from_empty.

(* a reload whose import fails calls no die() at all *)
Theorem C20_failed_import_reload_no_die :
  forall lower world s n imp initf dief o s' r, imp <> 0%N ->
  owner_reload lower world s n imp initf dief o = (s', r) -> s_dead s' = s_dead s.
Proof. exact failed_import_reload_no_die. Qed.
Print Assumptions C20_failed_import_reload_no_die.

Theorem C20_alive_example :
  s_dead (steps lower_ascii w6 st0 ops6) = [] /\
  s_dead (steps lower_ascii w6 st0 (ops6 ++ [Reload nAlpha 0 false false id_oracle])) = [2%N] /\
  s_dead (steps lower_ascii w6 st0 (ops6 ++ [Reload nAlpha 0 false false id_oracle; Reload nAlpha 1 false false id_oracle;
                                             Unload nBeta true])) = [2%N; 3%N] /\
  ids (s_cbs (steps lower_ascii w6 st0 (ops6 ++ [Reload nAlpha 0 false false id_oracle; Reload nAlpha 1 false false id_oracle;
                                                  Unload nBeta true]))) = [0%N; 5%N; 1%N].
Proof. exact history6_die_log. Qed.
Print Assumptions C20_alive_example.

(* non-vacuity for imp = 3 (the old module's reload() hook raises; was finding C20.F26) and for the
   `.py` suffix of Owner.load: `load Alpha.py` registers Alpha; the failing hook keeps it, untouched *)
Theorem C20_reload_hook_example :
  let s := steps lower_ascii w_dot st0 [Boot nOwner id_oracle; Load nAlphaPy 0 false id_oracle] in
  map cname (s_cbs s) = [nOwner; nAlpha] /\
  let '(s', r) := owner_reload lower_ascii w_dot s nAlpha 3 false false id_oracle in
  r = Raise OtherError /\ map cname (s_cbs s') = [nOwner; nAlpha] /\ s_dead s' = [].
Proof. exact reload_hook_example. Qed.
Print Assumptions C20_reload_hook_example.
