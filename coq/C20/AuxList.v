(* C20/AuxList.v — general list lemmas used by the C20 proofs *)
From Coq Require Import List NArith Bool Arith Lia Permutation.
Import ListNotations.
Require Import Base.Wire Base.PyStr C20.Model.

Lemma NoDup_app_intro {A} (l1 l2 : list A) :
  NoDup l1 -> NoDup l2 -> (forall x, In x l1 -> ~ In x l2) -> NoDup (l1 ++ l2).
Proof.
  induction l1 as [|a l1 IH]; simpl; intros H1 H2 H; [exact H2|].
  inversion H1; subst. constructor.
  - rewrite in_app_iff. intros [Hi|Hi]; [contradiction|]. apply (H a); auto.
  - apply IH; auto.
Qed.

Lemma NoDup_map_filter {A B} (f : A -> B) (p : A -> bool) l :
  NoDup (map f l) -> NoDup (map f (filter p l)).
Proof.
  induction l as [|a l IH]; simpl; intro H; [constructor|].
  inversion H; subst. destruct (p a); simpl; [constructor|]; auto.
  intro Hi. apply H2. apply in_map_iff in Hi as [x [Hx Hin]].
  apply filter_In in Hin as [Hin _]. apply in_map_iff. exists x; auto.
Qed.

Lemma NoDup_map_inj {A B} (f : A -> B) l x y :
  NoDup (map f l) -> In x l -> In y l -> f x = f y -> x = y.
Proof.
  induction l as [|a l IH]; simpl; intros H Hx Hy E; [contradiction|].
  inversion H; subst.
  destruct Hx as [Hx|Hx], Hy as [Hy|Hy]; subst; auto.
  - exfalso. apply H2. rewrite E. apply in_map. exact Hy.
  - exfalso. apply H2. rewrite <- E. apply in_map. exact Hx.
Qed.

Lemma NoDup_map_NoDup {A B} (f : A -> B) l : NoDup (map f l) -> NoDup l.
Proof.
  induction l as [|a l IH]; simpl; intro H; [constructor|].
  inversion H; subst. constructor; auto. intro Hi. apply H2. apply in_map. exact Hi.
Qed.

Lemma partition_filter {A} (f : A -> bool) l :
  partition f l = (filter f l, filter (fun x => negb (f x)) l).
Proof.
  induction l as [|a l IH]; simpl; [reflexivity|].
  rewrite IH. destruct (f a); reflexivity.
Qed.

Lemma idx_app_in a l1 l2 : In a l1 -> idx a (l1 ++ l2) = idx a l1 /\ (idx a l1 < length l1)%nat.
Proof.
  induction l1 as [|x l1 IH]; simpl; intro H; [contradiction|].
  destruct (N.eqb x a) eqn:E; [split; [reflexivity|lia]|].
  destruct H as [H|H]; [subst; rewrite N.eqb_refl in E; discriminate|].
  destruct (IH H) as [H1 H2]. split; [congruence|lia].
Qed.

Lemma idx_app_notin b l1 l2 : ~ In b l1 -> idx b (l1 ++ l2) = (length l1 + idx b l2)%nat.
Proof.
  induction l1 as [|x l1 IH]; simpl; intro H; [reflexivity|].
  destruct (N.eqb x b) eqn:E.
  - apply N.eqb_eq in E. subst. exfalso. apply H. left; reflexivity.
  - rewrite IH; [reflexivity|]. intro Hi. apply H. right; exact Hi.
Qed.

Lemma idx_split_lt a b l1 l2 : In a l1 -> ~ In b l1 -> (idx a (l1 ++ l2) < idx b (l1 ++ l2))%nat.
Proof.
  intros Ha Hb. destruct (idx_app_in a l1 l2 Ha) as [E L].
  rewrite E, (idx_app_notin b l1 l2 Hb). lia.
Qed.

Lemma idx_head a l : l <> [] -> idx a l = O -> hd_error l = Some a.
Proof.
  destruct l as [|x l]; [congruence|]. simpl. intros _.
  destruct (N.eqb x a) eqn:E; [|discriminate]. apply N.eqb_eq in E. subst. reflexivity.
Qed.

(* a minimal element of a non-empty decidable subset *)
Lemma min_elt {A} (rank : A -> nat) (p : A -> bool) l :
  (exists v, In v l /\ p v = true) ->
  exists v, In v l /\ p v = true /\ forall u, In u l -> p u = true -> (rank v <= rank u)%nat.
Proof.
  induction l as [|a l IH]; intros [v [Hin Hp]]; [contradiction|].
  destruct (existsb p l) eqn:Ex.
  - apply existsb_exists in Ex. destruct (IH Ex) as [m [Hm [Hpm Hmin]]].
    destruct (p a) eqn:Pa.
    + destruct (le_lt_dec (rank a) (rank m)).
      * exists a. split; [left; reflexivity|]. split; [exact Pa|].
        intros u [Hu|Hu] Hpu; [subst; lia|]. specialize (Hmin u Hu Hpu). lia.
      * exists m. split; [right; exact Hm|]. split; [exact Hpm|].
        intros u [Hu|Hu] Hpu; [subst; lia|]. apply Hmin; auto.
    + exists m. split; [right; exact Hm|]. split; [exact Hpm|].
      intros u [Hu|Hu] Hpu; [subst; congruence|]. apply Hmin; auto.
  - destruct Hin as [Hin|Hin].
    + subst. exists v. split; [left; reflexivity|]. split; [exact Hp|].
      intros u [Hu|Hu] Hpu; [subst; lia|].
      exfalso. assert (existsb p l = true) by (apply existsb_exists; exists u; auto). congruence.
    + exfalso. assert (existsb p l = true) by (apply existsb_exists; exists v; auto). congruence.
Qed.

Lemma in_ids_In x l : in_ids x l = true <-> In x (ids l).
Proof. unfold in_ids. apply mem_In. Qed.

Lemma in_ids_false x l : in_ids x l = false <-> ~ In x (ids l).
Proof. unfold in_ids. apply mem_false. Qed.

Lemma ids_app l1 l2 : ids (l1 ++ l2) = ids l1 ++ ids l2.
Proof. unfold ids. apply map_app. Qed.

Lemma filter_all_false_d {A} (p : A -> bool) l : (forall x, In x l -> p x = false) -> filter p l = [].
Proof.
  induction l as [|a l IH]; simpl; intro H; [reflexivity|].
  rewrite (H a (or_introl eq_refl)). apply IH. intros x Hx. apply H. right; exact Hx.
Qed.
