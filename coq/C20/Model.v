(* C20/Model.v — executable model of the plugin dispatcher list:
     src/irclib.py   Irc.addCallback / getCallback / removeCallback, IrcCallback.callPrecedence
     plugins/Owner/plugin.py  Owner.callPrecedence, Owner.load / unload / reload
     plugins/Misc/plugin.py   Misc.callPrecedence
     src/plugin.py   loadPluginModule / loadPluginClass (their failure points)
   Mirrors the Python statement by statement, defects included.  The iteration
   order of the Python set `firsts` is an explicit oracle [orc]; module import /
   constructor / die() failures are explicit inputs of each operation.
   No proofs in this file. *)
From Coq Require Import List NArith ZArith Bool Arith.
Import ListNotations.
Require Import Base.Wire Base.PyStr.
Require gen.T20.
Open Scope N_scope.

(* a callback object: [cid] is the object identity (Python `is` / default __eq__/__hash__) *)
Record cb := Cb { cid : N; cname : str; ckind : N; cbefore : list str; cafter : list str;
                  ccmds : list str }.
(* ckind 0: IrcCallback.callPrecedence (callBefore/callAfter names)
         1: Owner.callPrecedence  ([], every other callback)
         2: Misc.callPrecedence   (every other callback, []) *)

Definition ids (l : list cb) : list N := map cid l.
Definition in_ids (x : N) (l : list cb) : bool := mem x (ids l).

(* position of the first occurrence (length of the list when absent) *)
Fixpoint idx (a : N) (l : list N) : nat :=
  match l with [] => O | x :: t => if N.eqb x a then O else S (idx a t) end.

Section Model.
(* str.lower() — any function; instantiated with the ASCII fold for extraction *)
Variable lower : str -> str.

Definition name_is (n : str) (c : cb) : bool := seq_eqb (lower (cname c)) (lower n).

(* Irc.getCallback: first callback whose lowered name matches *)
Definition get_callback (cbs : list cb) (n : str) : option cb := find (name_is n) cbs.

(* Irc.removeCallback: utils.iter.partition -> (bad, good); callbacks[:] = good *)
Definition remove_callback (cbs : list cb) (n : str) : list cb * list cb := partition (name_is n) cbs.

Definition resolve (cbs : list cb) (names : list str) : list N :=
  flat_map (fun n => match get_callback cbs n with Some x => [cid x] | None => [] end) names.

Definition others (cbs : list cb) (c : cb) : list N :=
  ids (filter (fun x => negb (N.eqb (cid x) (cid c))) cbs).

(* cb.callPrecedence(irc) -> (before, after) as object identities *)
Definition call_precedence (cbs : list cb) (c : cb) : list N * list N :=
  if N.eqb (ckind c) 1 then ([], others cbs c)
  else if N.eqb (ckind c) 2 then (others cbs c, [])
  else
    (* IrcCallback.callPrecedence (since fix C20.F23 without its own asserts: a callback naming
       itself reaches the asserts of Irc.addCallback below instead of being swallowed by the firewall) *)
    let after := resolve cbs (cbefore c) in
    let before := resolve cbs (cafter c) in
    (before, after).

Definition edges_of_cb (cbs : list cb) (c : cb) : res (list (N * N)) :=
  let '(before, after) := call_precedence cbs c in
  if mem (cid c) after then Raise AssertionError
  else if mem (cid c) before then Raise AssertionError
  else Ok (map (fun o => (o, cid c)) before ++ map (fun o => (cid c, o)) after).

Fixpoint all_edges (cbs l : list cb) : res (list (N * N)) :=
  match l with
  | [] => Ok []
  | c :: t => do e <- edges_of_cb cbs c; do r <- all_edges cbs t; Ok (e ++ r)
  end.

(* getFirsts(): set(self.callbacks) - set(cbs), minus every edge target.  Listed in
   callbacks order; the order in which Python iterates the set is [orc]. *)
Definition get_firsts (all done : list cb) (edges : list (N * N)) : list cb :=
  filter (fun v => negb (in_ids (cid v) done)
                   && negb (existsb (fun e => N.eqb (snd e) (cid v)) edges)) all.

Section Sort.
Variable orc : list cb -> list cb.       (* iteration order of the set `firsts` *)

Fixpoint sort_loop (fuel : nat) (all done : list cb) (edges : list (N * N)) : option (list cb) :=
  match fuel with
  | O => None
  | S f =>
      match get_firsts all done edges with
      | [] => Some done
      | firsts =>
          let ord := orc firsts in
          sort_loop f all (done ++ ord) (filter (fun e => negb (in_ids (fst e) ord)) edges)
      end
  end.

(* Irc.addCallback: new callbacks list * outcome.  Since fix C20.F22 the sort runs in
   _sortCallbacks() under try/except: on any exception the appended callback is removed again
   and the exception re-raised, so a failure leaves the list as it was. *)
Definition sort_callbacks (all : list cb) : res (list cb) :=
  match all_edges all all with
  | Raise e => Raise e                                (* 'cb was in its own after/before.' *)
  | Ok edges =>
      match sort_loop (S (length all)) all [] edges with
      | None => Raise OtherError                      (* out of fuel: proved unreachable *)
      | Some done =>
          if Nat.eqb (length done) (length all) then Ok done
          else Raise AssertionError                   (* cyclic constraints *)
      end
  end.

Definition add_callback (cbs : list cb) (c : cb) : list cb * res unit :=
  match get_callback cbs (cname c) with
  | Some _ => (cbs, Raise AssertionError)
  | None =>
      match sort_callbacks (cbs ++ [c]) with
      | Ok done => (done, Ok tt)
      | Raise e => (cbs, Raise e)                     (* self.callbacks.remove(callback); raise *)
      end
  end.
End Sort.

(* ------------------------------------------------------------------ *)
(* plugins on disk and the Owner commands *)
Record pspec := P { p_name : str; p_kind : N; p_before : list str; p_after : list str;
                    p_cmds : list str }.
Definition mk_cb (i : N) (p : pspec) : cb :=
  Cb i (p_name p) (p_kind p) (p_before p) (p_after p) (p_cmds p).

(* s_dead: the instances whose die() has been called, in call order (an instance that is torn
   down -- db handles closed, scheduled events removed -- does not work any more) *)
Record st := St { s_cbs : list cb; s_next : N; s_dead : list N }.

Definition oracle := list cb -> list cb.
Inductive op :=
| Add (p : pspec) (o : oracle)                 (* irc.addCallback(fresh object) *)
| Remove (n : str)                             (* irc.removeCallback(n) *)
| Boot (n : str) (o : oracle)                  (* plugin.loadPluginClass(irc, plugin.loadPluginModule(n)) *)
| Load (n : str) (imp : N) (initf : bool) (o : oracle)
| Unload (n : str) (dief : bool)
| Reload (n : str) (imp : N) (initf dief : bool) (o : oracle).
(* imp: 0 module imports; 1 ImportError while importing; 2 any other exception while importing;
   3 (reload only) the module-level reload() hook of the old module raises.
   initf: Class(irc) raises.  dief: the registered instance's die() raises. *)

Section World.
Variable world : list pspec.

(* plugin.loadPluginModule, the name lookup.  [world] in os.listdir order is `files`.
     if name not in files:
         search = lambda x: re.search(r'(?i)^%s$' % (re.escape(name),), x)
         matched_names = list(filter(search, files)); name = matched_names[0]   (else ImportError)
   Since fix C20.F25 the requested name is escaped: the match is the literal name, full length,
   up to case. *)
Definition name_matches (n x : str) : bool := seq_eqb (lower n) (lower x).

Definition find_spec (n : str) : option pspec :=
  match find (fun p => seq_eqb (p_name p) n) world with
  | Some p => Some p                                        (* name in files *)
  | None => find (fun p => name_matches n (p_name p)) world (* matched_names[0] *)
  end.

Inductive imp_res := Mod (p : pspec) | ImpErr | OtherExc.

Definition load_plugin_module (n : str) (imp : N) : imp_res :=
  match find_spec n with
  | None => ImpErr                              (* raise ImportError(name) *)
  | Some p => match imp with 0 => Mod p | 1 => ImpErr | 2 => OtherExc | _ => Mod p end
  end.

(* Owner.reload, the try block (since fix C20.F26 it starts with the optional module-level hook):
     if hasattr(module, 'reload'): x = module.reload()      -- of the OLD module; imp >= 3: it raises
     module = plugin.loadPluginModule(name) ... *)
Definition reload_module (n : str) (imp : N) : imp_res :=
  if N.leb 3 imp then OtherExc else load_plugin_module n imp.

(* Owner.load:  if name.endswith('.py'): name = name[:-3] *)
Definition strip_py (n : str) : str :=
  match rev n with
  | 121 :: 112 :: 46 :: r => rev r
  | _ => n
  end.

(* plugin.loadPluginClass: Class(irc); assert not irc.getCallback(name); irc.addCallback(cb) *)
Definition load_plugin_class (s : st) (p : pspec) (initf : bool) (o : oracle) : st * res unit :=
  if initf then (s, Raise OtherError)
  else
    let c := mk_cb (s_next s) p in
    let '(cbs', r) := add_callback o (s_cbs s) c in
    (St cbs' (N.succ (s_next s)) (s_dead s), r).

Definition is_owner (n : str) : bool := seq_eqb (lower n) (lower gen.T20.OWNER_NAME).

(* replies: Ok 0 = replySuccess, Ok 1 = irc.error(...), Raise = exception out of the command *)
Definition owner_load (s : st) (n0 : str) (imp : N) (initf : bool) (o : oracle) : st * res N :=
  let n := strip_py n0 in
  match get_callback (s_cbs s) n with
  | Some _ => (s, Ok 1)
  | None =>
      match load_plugin_module n imp with
      | ImpErr => (s, Ok 1)
      | OtherExc => (s, Raise OtherError)
      | Mod p => let '(s', r) := load_plugin_class s p initf o in (s', do _ <- r; Ok 0)
      end
  end.

(* `die` is in IrcCallback.__firewalled__ and (since the MetaFirewall fix) wrapped for every plugin
   class: an exception raised by die() is logged and swallowed; [dief] has no effect on the flow *)
Definition owner_unload (s : st) (n : str) (dief : bool) : st * res N :=
  if is_owner n then (s, Ok 1)
  else
    match get_callback (s_cbs s) n with
    | None => (s, Ok 1)
    | Some old =>
        let '(bad, good) := remove_callback (s_cbs s) (cname old) in
        match bad with
        | [] => (St good (s_next s) (s_dead s), Ok 1)
        | _ => (St good (s_next s) (s_dead s ++ ids bad), Ok 0)      (* for callback in callbacks: callback.die() *)
        end
    end.

Fixpoint readd (o : oracle) (cbs : list cb) (bad : list cb) : list cb * res unit :=
  match bad with
  | [] => (cbs, Ok tt)
  | c :: t =>
      match add_callback o cbs c with
      | (cbs', Ok _) => readd o cbs' t
      | (cbs', Raise e) => (cbs', Raise e)
      end
  end.

Definition owner_reload (s : st) (n : str) (imp : N) (initf dief : bool) (o : oracle) : st * res N :=
  if is_owner n then (s, Ok 1)
  else
    let '(bad, good) := remove_callback (s_cbs s) n in
    match bad with
    | [] => (St good (s_next s) (s_dead s), Ok 1)
    | _ =>
        (* module = sys.modules.get(callbacks[0].__module__): no KeyError (fix C20.F24) *)
        match reload_module n imp with
        | OtherExc =>                                  (* except Exception: put `bad` back, re-raise (fix C20.F21) *)
            let '(cbs', r) := readd o good bad in (St cbs' (s_next s) (s_dead s), do _ <- r; Raise OtherError)
        | ImpErr =>
            let '(cbs', r) := readd o good bad in (St cbs' (s_next s) (s_dead s), do _ <- r; Ok 1)
        | Mod p =>
            (* else: clause -- ONLY now die() of the old instances (they were not touched while the
               import could still fail), then the new Class(irc): a failure of the constructor
               still loses the plugin (left as known finding C20.F21) *)
            let '(s'', r) := load_plugin_class (St good (s_next s) (s_dead s ++ ids bad)) p initf o in
            (s'', do _ <- r; Ok 0)
        end
    end.

Definition step (s : st) (x : op) : st * res N :=
  match x with
  | Add p o =>
      let '(cbs', r) := add_callback o (s_cbs s) (mk_cb (s_next s) p) in
      (St cbs' (N.succ (s_next s)) (s_dead s), do _ <- r; Ok 0)
  | Remove n => (St (snd (remove_callback (s_cbs s) n)) (s_next s) (s_dead s), Ok 0)
  | Boot n o =>
      match load_plugin_module n 0 with
      | Mod p => let '(s', r) := load_plugin_class s p false o in (s', do _ <- r; Ok 0)
      | _ => (s, Raise OtherError)
      end
  | Load n imp initf o => owner_load s n imp initf o
  | Unload n dief => owner_unload s n dief
  | Reload n imp initf dief o => owner_reload s n imp initf dief o
  end.

Fixpoint steps (s : st) (l : list op) : st :=
  match l with [] => s | x :: t => steps (fst (step s x)) t end.

Fixpoint trace_states (s : st) (l : list op) : list st :=
  match l with [] => [s] | x :: t => s :: trace_states (fst (step s x)) t end.

(* the trace the harness compares: reply and callback names after every operation *)
Fixpoint trace (s : st) (l : list op) : list (res N * list str) :=
  match l with
  | [] => []
  | x :: t => let '(s', r) := step s x in (r, map cname (s_cbs s')) :: trace s' t
  end.
End World.

(* ------------------------------------------------------------------ *)
(* several Irc objects (networks).  Irc.__init__(network, callbacks=_callbacks) stores a reference
   to a list object; by default every Irc gets the SAME module-level list irclib._callbacks
   (reference 0 below).  An operation issued through one Irc reads and writes the list object its
   `self.callbacks` refers to.  gen.T20.CALLBACKS_WRITES is the regenerated inventory of every
   write to self.callbacks in class Irc: if none of them rebinds the attribute, the write goes to
   the shared object and every handle sees it; a rebinding write would leave the issuing handle
   with a private new list object. *)
Definition never_rebound : bool :=
  forallb (fun w => negb (N.eqb (snd w) 3)) gen.T20.CALLBACKS_WRITES.

Record bot := Bot { b_heap : list (N * list cb);      (* list objects: reference -> contents *)
                    b_refs : list (N * N);            (* Irc handle -> reference held in self.callbacks *)
                    b_next : N;                       (* callback object counter *)
                    b_dead : list N;                  (* instances whose die() has run *)
                    b_nref : N;                       (* next fresh reference *)
                    b_nirc : N }.                     (* next Irc handle *)

Fixpoint alookup {A} (k : N) (l : list (N * A)) : option A :=
  match l with [] => None | (k', v) :: t => if N.eqb k k' then Some v else alookup k t end.
Fixpoint aset {A} (k : N) (v : A) (l : list (N * A)) : list (N * A) :=
  match l with
  | [] => [(k, v)]
  | (k', v') :: t => if N.eqb k k' then (k', v) :: t else (k', v') :: aset k v t
  end.

Definition deref (b : bot) (r : N) : list cb := match alookup r (b_heap b) with Some l => l | None => [] end.
(* irc.callbacks as seen through handle h *)
Definition view (b : bot) (h : N) : list cb :=
  match alookup h (b_refs b) with Some r => deref b r | None => [] end.

Inductive bop :=
| NewIrc                         (* irclib.Irc(network): default callbacks=_callbacks *)
| Via (h : N) (x : op).          (* operation x issued through Irc handle h *)

Section BotWorld.
Variable world : list pspec.
Definition bstep (b : bot) (y : bop) : bot * res N :=
  match y with
  | NewIrc => (Bot (b_heap b) (b_refs b ++ [(b_nirc b, 0)]) (b_next b) (b_dead b) (b_nref b) (N.succ (b_nirc b)), Ok 0)
  | Via h x =>
      match alookup h (b_refs b) with
      | None => (b, Raise OtherError)
      | Some r =>
          let '(s', res) := step world (St (deref b r) (b_next b) (b_dead b)) x in
          if never_rebound then
            (Bot (aset r (s_cbs s') (b_heap b)) (b_refs b) (s_next s') (s_dead s') (b_nref b) (b_nirc b), res)
          else
            (Bot (aset (b_nref b) (s_cbs s') (b_heap b)) (aset h (b_nref b) (b_refs b)) (s_next s') (s_dead s')
                 (N.succ (b_nref b)) (b_nirc b), res)
      end
  end.
Fixpoint bsteps (b : bot) (l : list bop) : bot :=
  match l with [] => b | y :: t => bsteps (fst (bstep b y)) t end.
End BotWorld.
Definition bot0 : bot := Bot [(0, [])] [] 0 [] 1 0.

(* ------------------------------------------------------------------ *)
(* command resolution: src/callbacks.py  NestedCommandsIrcProxy.findCallbacksForArgs / finalEval,
   Commands.getCommand / isCommandMethod for plugins without sub-command groups (self.cbs = []) and
   without disabled commands.  [args] is the token list after map(canonicalName, args). *)
Section Dispatch.
Variable canon : str -> str.                 (* callbacks.canonicalName *)

(* supybot.commands.defaultPlugins: registered command -> plugin name, and importantPlugins *)
Record cfg := Cfg { c_defaults : list (str * str); c_important : list str }.

(* isCommandMethod(name): a command method of that name exists ([ccmds] lists them, canonical) *)
Definition is_cmd (c : cb) (n : str) : bool := existsb (seq_eqb n) (ccmds c).
Definition cb_canon (c : cb) : str := canon (cname c).     (* cb.canonicalName() *)

(* cb.getCommand(args): the returned list is a prefix of args; this is its length *)
Definition get_command (c : cb) (args : list str) : nat :=
  match args with
  | [] => O
  | first :: rest =>
      match rest with
      | second :: _ =>
          (* first == self.canonicalName() and len(args) > 1: getCommand(args[1:], stripOwnName=False) *)
          if seq_eqb first (cb_canon c) && is_cmd c second then 2%nat
          else if is_cmd c first then 1%nat else O
      | [] => if is_cmd c first then 1%nat else O
      end
  end.

(* the loop `for cb in self.irc.callbacks: L = cb.getCommand(args); if L and L >= maxL: ...`
   (L >= maxL on two prefixes of args is the comparison of their lengths) *)
Fixpoint fc_loop (cbs : list cb) (args : list str) (maxl : nat) (acc : list (cb * nat))
  : nat * list (cb * nat) :=
  match cbs with
  | [] => (maxl, acc)
  | c :: t =>
      let l := get_command c args in
      if Nat.ltb 0 l && Nat.leb maxl l then fc_loop t args l (acc ++ [(c, l)])
      else fc_loop t args maxl acc
  end.

Definition cb_in (c : cb) (l : list cb) : bool := in_ids (cid c) l.

(* 2. `defaultPlugins.get(cmd)()` -> irc.getCallback(name) -> `if cb in cbs` *)
Definition default_cb (g : cfg) (cbs sel : list cb) (cmd : str) : option cb :=
  match dict_get cmd (c_defaults g) with
  | None => None                                  (* NonExistentRegistryEntry *)
  | Some [] => None
  | Some dp => match get_callback cbs dp with
               | Some c => if cb_in c sel then Some c else None
               | None => None
               end
  end.

(* the special case len(maxL) == 1 *)
Definition tie_rules (g : cfg) (cbs sel : list cb) (cmd : str) : list cb :=
  (* 1. a callback named like the command wins *)
  match find (fun c => seq_eqb (cb_canon c) cmd) sel with
  | Some c => [c]
  | None =>
      (* 2. a configured default plugin, if it is one of the candidates *)
      match default_cb g cbs sel cmd with
      | Some c => [c]
      | None =>
          (* 3. exactly one important plugin among the candidates *)
          match filter (fun c => existsb (seq_eqb (cb_canon c)) (map canon (c_important g))) sel with
          | [c] => [c]
          | _ => sel
          end
      end
  end.

Definition find_callbacks (g : cfg) (cbs : list cb) (args : list str) : nat * list cb :=
  let '(maxl, acc) := fc_loop cbs args 0 [] in
  let sel := map fst (filter (fun p => Nat.eqb (snd p) maxl) acc) in
  if Nat.eqb maxl 1 then (maxl, tie_rules g cbs sel (hd [] args)) else (maxl, sel).

(* finalEval: no candidate -> invalid command; several -> the ambiguity error; one -> called *)
Inductive outcome := Invalid | Ambiguous (l : list cb) | Call (c : cb) (n : nat).
Definition final_eval (g : cfg) (cbs : list cb) (args : list str) : outcome :=
  match find_callbacks g cbs args with
  | (_, []) => Invalid
  | (n, [c]) => Call c n
  | (_, l) => Ambiguous l
  end.
End Dispatch.
End Model.

(* ------------------------------------------------------------------ *)
(* instances for the extracted binary *)
Definition lower_ascii (s : str) : str :=
  map (fun c => if (N.leb 65 c && N.leb c 90)%bool then c + 32 else c) s.

(* the oracle read off an observed result: order by position of the name in [r] *)
Fixpoint sidx (a : str) (l : list str) : nat :=
  match l with [] => O | x :: t => if seq_eqb x a then O else S (sidx a t) end.
Fixpoint insert_by (key : cb -> nat) (x : cb) (l : list cb) : list cb :=
  match l with
  | [] => [x]
  | y :: t => if Nat.leb (key x) (key y) then x :: l else y :: insert_by key x t
  end.
Definition sort_by (key : cb -> nat) (l : list cb) : list cb := fold_right (insert_by key) [] l.
Definition orc_of (r : list str) : oracle := sort_by (fun c => sidx (cname c) r).

(* wire *)
Definition gSpec (v : value) : pspec :=
  P (gS (nth_v 0 v)) (gN (nth_v 1 v)) (gLS (nth_v 2 v)) (gLS (nth_v 3 v)) (gLS (nth_v 4 v)).
Definition gOp (v : value) : op :=
  let a := nth_v 1 v in
  match gN (nth_v 0 v) with
  | 0 => Add (gSpec (nth_v 0 a)) (orc_of (gLS (nth_v 1 a)))
  | 1 => Remove (gS (nth_v 0 a))
  | 2 => Boot (gS (nth_v 0 a)) (orc_of (gLS (nth_v 1 a)))
  | 3 => Load (gS (nth_v 0 a)) (gN (nth_v 1 a)) (gB (nth_v 2 a)) (orc_of (gLS (nth_v 3 a)))
  | 4 => Unload (gS (nth_v 0 a)) (gB (nth_v 1 a))
  | _ => Reload (gS (nth_v 0 a)) (gN (nth_v 1 a)) (gB (nth_v 2 a)) (gB (nth_v 3 a))
                (orc_of (gLS (nth_v 4 a)))
  end.

Definition st0 : st := St [] 0 [].

(* canonicalName on names without trailing specials: drop TAB - _ SPACE, lower-case *)
Definition canon_ascii (s : str) : str :=
  lower_ascii (filter (fun c => negb (N.eqb c 9 || N.eqb c 45 || N.eqb c 95 || N.eqb c 32)) s).
Definition gCfg (v : value) : cfg :=
  Cfg (map (fun kv => (gS (nth_v 0 kv), gS (nth_v 1 kv))) (gL (nth_v 0 v))) (gLS (nth_v 1 v)).
Definition vOutcome (o : outcome) : value :=
  match o with
  | Invalid => L [I 0%Z]
  | Ambiguous l => L [I 1%Z; vLS (map cname l)]
  | Call c n => L [I 2%Z; vS (cname c); vN (N.of_nat n)]
  end.

(* run: (op payload)
   op 0: (world ops) -> per operation ((0 reply)|(1 exn), names after it)
   op 1: (world ops cfg argss) -> for each canonical token list, what the dispatcher resolves it to
         in the final callbacks list: (0) invalid | (1 names) ambiguous | (2 name prefix-length) *)
Definition run (v : value) : value :=
  let payload := nth_v 1 v in
  let w := map gSpec (gL (nth_v 0 payload)) in
  let ops := map gOp (gL (nth_v 1 payload)) in
  match gN (nth_v 0 v) with
  | 0 => L (map (fun rn => L [vR vN (fst rn); vLS (snd rn)]) (trace lower_ascii w st0 ops))
  | 1 => let s := steps lower_ascii w st0 ops in
         let g := gCfg (nth_v 2 payload) in
         L (map (fun a => vOutcome (final_eval lower_ascii canon_ascii g (s_cbs s) (gLS a)))
                (gL (nth_v 3 payload)))
  | 2 =>
      (* (world ops via nlate): two Irc objects first, operation i issued through handle via[i], then
         nlate more Irc objects -> the callback names every handle sees at the end *)
      let via := map gN (gL (nth_v 2 payload)) in
      let nlate := N.to_nat (gN (nth_v 3 payload)) in
      let bops := [NewIrc; NewIrc] ++ map (fun hx => Via (fst hx) (snd hx)) (combine via ops)
                  ++ repeat NewIrc nlate in
      let b := bsteps lower_ascii w bot0 bops in
      L (map (fun hr => vLS (map cname (view b (fst hr)))) (b_refs b))
  | 3 =>
      (* (world ops): the names of the instances whose die() was called, in call order; every
         instance ever built is looked up among the callbacks the history registered at some point *)
      let tr := trace_states lower_ascii w st0 ops in
      let all := flat_map s_cbs tr in
      let s := steps lower_ascii w st0 ops in
      L (map (fun i => match find (fun c => N.eqb (cid c) i) all with Some c => vS (cname c) | None => L [] end)
             (s_dead s))
  | _ => L []
  end.
