(* C20/Sharing.v — several Irc objects share ONE dispatcher list *)
From Coq Require Import List NArith Bool Arith Lia Permutation.
Import ListNotations.
Require Import Base.Wire Base.PyStr C20.Model C20.AuxList C20.Sort C20.Lemmas C20.History.
Require gen.T20.
Open Scope N_scope.

(* sanity of the regenerated inventory of writes to self.callbacks in class Irc: none rebinds *)
Lemma callbacks_never_rebound : never_rebound = true.
Proof. vm_compute. reflexivity. Qed.

Section Sharing.
Variable lower : str -> str.
Variable world : list pspec.

(* every Irc handle holds reference 0, the module-level _callbacks list *)
Definition refs_shared (b : bot) : Prop := Forall (fun hr => snd hr = 0) (b_refs b).

Lemma bstep_shared b y : refs_shared b -> refs_shared (fst (bstep lower world b y)).
Proof.
  intro H. destruct y as [|h x]; unfold bstep.
  - unfold refs_shared. simpl. apply Forall_app. split; [exact H|repeat constructor].
  - destruct (alookup h (b_refs b)) as [r|]; [|exact H].
    destruct (step lower world (St (deref b r) (b_next b) (b_dead b)) x) as [s' res].
    rewrite callbacks_never_rebound. simpl. exact H.
Qed.

Lemma bsteps_shared : forall l b, refs_shared b -> refs_shared (bsteps lower world b l).
Proof.
  induction l as [|y t IH]; intros b H; simpl; [exact H|]. apply IH. apply bstep_shared. exact H.
Qed.

Lemma alookup_shared (refs : list (N * N)) h :
  Forall (fun hr => snd hr = 0) refs -> In h (map fst refs) -> alookup h refs = Some 0.
Proof.
  induction refs as [|[k v] t IH]; simpl; intros HF Hi; [contradiction|].
  inversion HF; subst. simpl in *. destruct (N.eqb h k) eqn:E; [congruence|].
  destruct Hi as [Hi|Hi]; [subst; rewrite N.eqb_refl in E; discriminate|]. apply IH; assumption.
Qed.

Lemma view_shared b h : refs_shared b -> In h (map fst (b_refs b)) -> view b h = deref b 0.
Proof. intros H Hi. unfold view. rewrite (alookup_shared _ _ H Hi). reflexivity. Qed.

Lemma alookup_aset {A} k (v : A) l : alookup k (aset k v l) = Some v.
Proof.
  induction l as [|[k' v'] t IH]; simpl; [rewrite N.eqb_refl; reflexivity|].
  destruct (N.eqb k k') eqn:E; simpl; rewrite E; [reflexivity|exact IH].
Qed.

(* the shared list evolves exactly as the one-list model of the operations that went through *)
Definition bop_ok (y : bop) : Prop := match y with NewIrc => True | Via _ x => op_ok x end.
Definition bop_guarded (y : bop) : Prop := match y with NewIrc => True | Via _ x => op_guarded lower x end.

Lemma bsteps_as_steps : forall l b,
  refs_shared b -> Forall bop_ok l -> Forall bop_guarded l ->
  exists ops, Forall op_ok ops /\ Forall (op_guarded lower) ops /\
    let s := steps lower world (St (deref b 0) (b_next b) (b_dead b)) ops in
    deref (bsteps lower world b l) 0 = s_cbs s /\ b_next (bsteps lower world b l) = s_next s /\
    b_dead (bsteps lower world b l) = s_dead s.
Proof.
  induction l as [|y t IH]; intros b Hs Hok Hg.
  - exists []. simpl. auto.
  - inversion Hok; subst. inversion Hg; subst.
    pose proof (bstep_shared b y Hs) as Hs'.
    destruct (IH _ Hs' H2 H4) as [ops [Ho [Hgo E]]]. simpl bsteps.
    destruct y as [|h x].
    + exists ops. split; [exact Ho|]. split; [exact Hgo|]. exact E.
    + unfold bstep in E, Hs' |- *. destruct (alookup h (b_refs b)) as [r|] eqn:Er.
      * assert (r = 0).
        { clear - Hs Er. unfold refs_shared in Hs. induction (b_refs b) as [|[k v] t' IH']; simpl in *; [discriminate|].
          inversion Hs; subst. destruct (N.eqb h k); [simpl in *; congruence|auto]. }
        subst r. exists (x :: ops). split; [constructor; assumption|]. split; [constructor; assumption|].
        simpl steps. destruct (step lower world (St (deref b 0) (b_next b) (b_dead b)) x) as [s' res] eqn:Es.
        rewrite callbacks_never_rebound in E |- *. destruct s' as [l' n' d']. cbn [s_cbs s_next s_dead fst] in E |- *.
        set (B := {| b_heap := aset 0 l' (b_heap b); b_refs := b_refs b; b_next := n'; b_dead := d';
                     b_nref := b_nref b; b_nirc := b_nirc b |}) in *.
        assert (Hd : deref B 0 = l') by (unfold deref, B; simpl; rewrite alookup_aset; reflexivity).
        assert (Hn : b_next B = n') by reflexivity.
        assert (Hdd : b_dead B = d') by reflexivity.
        rewrite Hd, Hn, Hdd in E. exact E.
      * exists ops. split; [exact Ho|]. split; [exact Hgo|]. exact E.
Qed.

(* all Irc objects -- also those created after the history -- see the same dispatcher list *)
Theorem all_networks_agree l h1 h2 :
  let b := bsteps lower world bot0 l in
  In h1 (map fst (b_refs b)) -> In h2 (map fst (b_refs b)) -> view b h1 = view b h2.
Proof.
  intros b H1 H2.
  assert (Hs : refs_shared b) by (apply bsteps_shared; constructor).
  rewrite (view_shared b h1 Hs H1), (view_shared b h2 Hs H2). reflexivity.
Qed.
End Sharing.
