(* C20/Lookup.v — plugin.loadPluginModule: which directory entry a requested name resolves to *)
From Coq Require Import List NArith Bool Arith Lia Permutation.
Import ListNotations.
Require Import Base.Wire Base.PyStr C20.Model C20.AuxList C20.Sort C20.Lemmas C20.History C20.Failure.
Open Scope N_scope.

Section Lookup.
Variable lower : str -> str.
Variable world : list pspec.

(* the module resolved for a name is the plugin of that name up to case -- never another one *)
Lemma find_spec_named n p :
  find_spec lower world n = Some p ->
  In p world /\ lower (p_name p) = lower n.
Proof.
  unfold find_spec, name_matches. intros H.
  destruct (find (fun q => seq_eqb (p_name q) n) world) as [q|] eqn:E1.
  - inversion H; subst q. apply find_some in E1 as [Hin E]. apply seq_eqb_eq in E. split; [exact Hin|congruence].
  - apply find_some in H as [Hin E]. apply seq_eqb_eq in E. split; [exact Hin|congruence].
Qed.

(* and a plugin of that name (up to case) on disk is always found *)
Lemma find_spec_complete n p :
  In p world -> lower (p_name p) = lower n ->
  exists q, find_spec lower world n = Some q.
Proof.
  unfold find_spec, name_matches. intros Hin E.
  destruct (find (fun q => seq_eqb (p_name q) n) world) as [q|]; [eauto|].
  destruct (find (fun q => seq_eqb (lower n) (lower (p_name q))) world) as [q|] eqn:E2; [eauto|].
  exfalso. pose proof (find_none _ _ E2 p Hin) as Hf. simpl in Hf. rewrite E, seq_eqb_refl in Hf. discriminate.
Qed.

(* a `load n` that answers success has registered exactly one more callback, and it is named n up to case *)
Lemma load_registers_named s n imp initf o s' :
  perm_oracle o -> wf_st lower s ->
  owner_load lower world s n imp initf o = (s', Ok 0) ->
  exists c, lower (cname c) = lower (strip_py n) /\ Permutation (s_cbs s') (s_cbs s ++ [c]).
Proof.
  intros Ho Hw E. unfold owner_load in E. cbv zeta in E.
  destruct (get_callback lower (s_cbs s) (strip_py n)); [inversion E|].
  destruct (load_plugin_module lower world (strip_py n) imp) as [p| |] eqn:El; try (inversion E; fail).
  apply load_plugin_module_mod in El. destruct (find_spec_named (strip_py n) p El) as [_ En].
  unfold load_plugin_class in E. destruct initf; [inversion E|].
  set (c := mk_cb (s_next s) p) in *.
  assert (Hnd : NoDup (ids (s_cbs s ++ [c]))) by (apply (wf_nd_snoc lower (s_next s)); [exact Hw|reflexivity]).
  pose proof (add_callback_spec lower o Ho (s_cbs s) c Hnd) as S. cbv zeta in S.
  destruct (add_callback lower o (s_cbs s) c) as [l' [u|e]]; inversion E; subst; cbn [s_cbs] in *.
  exists c. split; [exact En|]. apply S.
Qed.
End Lookup.

(* was finding C20.F25: a name with regular-expression metacharacters resolves to nothing *)
Definition nAlphDot : str := [65; 108; 112; 104; 46].
Definition nDotStar : str := [46; 42].
Definition w_dot : list pspec := [P nOwner 1 [] [] []; P nAlpha 0 [] [] []].
Lemma lookup_metachar_example :
  find_spec lower_ascii w_dot nAlphDot = None /\ find_spec lower_ascii w_dot nDotStar = None.
Proof. vm_compute. split; reflexivity. Qed.

(* non-vacuity of the lookup theorems: prefix families and case variants *)
Definition nAl : str := [65; 108].
Definition n_al : str := [97; 108].
Definition n_ALPHA : str := [65; 76; 80; 72; 65].
Definition w_fam : list pspec := [P nAlpha 0 [] [] []; P nAl 0 [] [] []].
Lemma lookup_example :
  option_map p_name (find_spec lower_ascii w_fam n_al) = Some nAl /\
  option_map p_name (find_spec lower_ascii w_fam n_ALPHA) = Some nAlpha /\
  option_map p_name (find_spec lower_ascii w_fam nAlpha) = Some nAlpha.
Proof. vm_compute. repeat split. Qed.

(* was finding C20.F26: the old module's reload() hook raises (imp = 3): handled like a failed import,
   Alpha is kept; and Owner.load strips a `.py` suffix *)
Definition nAlphaPy : str := nAlpha ++ [46; 112; 121].
Lemma reload_hook_example :
  let s := steps lower_ascii w_dot st0 [Boot nOwner id_oracle; Load nAlphaPy 0 false id_oracle] in
  map cname (s_cbs s) = [nOwner; nAlpha] /\
  let '(s', r) := owner_reload lower_ascii w_dot s nAlpha 3 false false id_oracle in
  r = Raise OtherError /\ map cname (s_cbs s') = [nOwner; nAlpha] /\ s_dead s' = [].
Proof. vm_compute. repeat split. Qed.
