(* C20/History.v — invariants over arbitrary load/unload/reload histories *)
From Coq Require Import List NArith Bool Arith Lia Permutation.
Import ListNotations.
Require Import Base.Wire Base.PyStr C20.Model C20.AuxList C20.Sort C20.Lemmas.
Open Scope N_scope.

Section History.
Variable lower : str -> str.
Variable world : list pspec.

Definition names (l : list cb) : list str := map (fun c => lower (cname c)) l.

(* registered once (names pairwise distinct after folding), distinct objects, ids below the counter *)
Definition wf (next : N) (l : list cb) : Prop :=
  NoDup (names l) /\ NoDup (ids l) /\ Forall (fun c => cid c < next) l.

Definition wf_st (s : st) : Prop := wf (s_next s) (s_cbs s).

Lemma wf_perm next l l' : Permutation l l' -> wf next l -> wf next l'.
Proof.
  intros HP [H1 [H2 H3]]. split; [|split].
  - eapply Permutation_NoDup; [apply Permutation_map; exact HP|exact H1].
  - eapply Permutation_NoDup; [apply Permutation_map; exact HP|exact H2].
  - eapply Permutation_Forall; eauto.
Qed.

Lemma wf_filter next p l : wf next l -> wf next (filter p l).
Proof.
  intros [H1 [H2 H3]]. split; [|split].
  - apply NoDup_map_filter. exact H1.
  - apply NoDup_map_filter. exact H2.
  - apply Forall_forall. intros x Hx. apply filter_In in Hx as [Hx _].
    rewrite Forall_forall in H3. auto.
Qed.

Lemma wf_mono next next' l : next <= next' -> wf next l -> wf next' l.
Proof.
  intros Hle [H1 [H2 H3]]. split; [exact H1|split; [exact H2|]].
  eapply Forall_impl; [|exact H3]. simpl. intros. lia.
Qed.

Lemma get_none_fresh l n : get_callback lower l n = None -> ~ In (lower n) (names l).
Proof.
  unfold get_callback, names. intros H Hi. apply in_map_iff in Hi as [c [Ec Hc]].
  pose proof (find_none _ _ H c Hc) as Hf. unfold name_is in Hf.
  rewrite Ec, seq_eqb_refl in Hf. discriminate.
Qed.

Lemma wf_snoc next l c :
  wf next l -> get_callback lower l (cname c) = None -> ~ In (cid c) (ids l) -> cid c < next ->
  wf next (l ++ [c]).
Proof.
  intros [H1 [H2 H3]] Hg Hi Hlt. split; [|split].
  - unfold names. rewrite map_app. apply NoDup_app_intro; [exact H1|repeat constructor; intros []|].
    intros x Hx [Hx'|[]]. subst x. apply (get_none_fresh _ _ Hg). exact Hx.
  - rewrite ids_app. apply NoDup_app_intro; [exact H2|repeat constructor; intros []|].
    intros x Hx [Hx'|[]]. subst x. contradiction.
  - apply Forall_app. split; [exact H3|repeat constructor; exact Hlt].
Qed.

(* the list after addCallback: unchanged, or a permutation of old ++ [new] *)
Lemma add_callback_cases o l c :
  perm_oracle o -> NoDup (ids (l ++ [c])) ->
  let r := fst (add_callback lower o l c) in
  r = l \/ (get_callback lower l (cname c) = None /\ Permutation r (l ++ [c])).
Proof.
  intros Ho Hnd. pose proof (add_callback_spec lower o Ho l c Hnd) as S. simpl in S. simpl.
  destruct (add_callback lower o l c) as [r [u|e]]; simpl.
  - destruct S as [Hg [HP _]]. right. auto.
  - destruct S as [_ ->]. left; reflexivity.
Qed.

Lemma add_callback_wf o next l c :
  perm_oracle o -> wf next l -> ~ In (cid c) (ids l) -> cid c < next ->
  wf next (fst (add_callback lower o l c)).
Proof.
  intros Ho Hw Hi Hlt.
  assert (Hnd : NoDup (ids (l ++ [c]))).
  { rewrite ids_app. apply NoDup_app_intro; [apply Hw|repeat constructor; intros []|].
    intros x Hx [<-|[]]. contradiction. }
  destruct (add_callback_cases o l c Ho Hnd) as [->|[Hg HP]]; [exact Hw|].
  eapply wf_perm; [apply Permutation_sym; exact HP|]. apply wf_snoc; auto.
Qed.

Lemma readd_wf o next : forall bad cur,
  perm_oracle o -> wf next cur -> NoDup (ids (cur ++ bad)) -> Forall (fun c => cid c < next) bad ->
  wf next (fst (readd lower o cur bad)).
Proof.
  induction bad as [|c t IH]; intros cur Ho Hw Hnd Hb; simpl; [exact Hw|].
  inversion Hb as [|? ? Hc Ht]; subst.
  assert (Hci : ~ In (cid c) (ids cur)).
  { rewrite ids_app in Hnd. intro Hi. simpl in Hnd. apply NoDup_remove_2 in Hnd.
    apply Hnd. apply in_app_iff. left; exact Hi. }
  assert (Hnd1 : NoDup (ids (cur ++ [c]))).
  { rewrite ids_app. apply NoDup_app_intro; [apply Hw|repeat constructor; intros []|].
    intros x Hx [<-|[]]. contradiction. }
  pose proof (add_callback_wf o next cur c Ho Hw Hci Hc) as Hw1.
  pose proof (add_callback_spec lower o Ho cur c Hnd1) as S. simpl in S.
  destruct (add_callback lower o cur c) as [r [u|e]]; simpl in *; [|exact Hw1].
  destruct S as [_ [HP _]]. apply IH; auto.
  eapply Permutation_NoDup; [|exact Hnd].
  apply Permutation_map. replace (cur ++ c :: t) with ((cur ++ [c]) ++ t) by (rewrite <- app_assoc; reflexivity).
  apply Permutation_app_tail. apply Permutation_sym. exact HP.
Qed.

Definition op_ok (x : op) : Prop :=
  match x with
  | Add _ o | Boot _ o | Load _ _ _ o | Reload _ _ _ _ o => perm_oracle o
  | _ => True
  end.

Lemma fresh_not_in next l : wf next l -> ~ In next (ids l).
Proof.
  intros [_ [_ H]] Hi. apply in_map_iff in Hi as [c [Ec Hc]]. rewrite Forall_forall in H.
  specialize (H c Hc). lia.
Qed.

Lemma load_plugin_class_wf s p initf o :
  perm_oracle o -> wf_st s -> wf_st (fst (load_plugin_class lower s p initf o)).
Proof.
  intros Ho Hw. unfold load_plugin_class. destruct initf; [exact Hw|].
  pose proof (add_callback_wf o (N.succ (s_next s)) (s_cbs s) (mk_cb (s_next s) p) Ho) as H.
  destruct (add_callback lower o (s_cbs s) (mk_cb (s_next s) p)) as [r res]. simpl in *.
  apply H; [eapply wf_mono; [|exact Hw]; lia|apply fresh_not_in; exact Hw|lia].
Qed.

Lemma step_wf s x : op_ok x -> wf_st s -> wf_st (fst (step lower world s x)).
Proof.
  intros Hx Hw. destruct x as [p o|n|n o|n imp initf o|n dief|n imp initf dief o]; cbn [step op_ok] in *.
  - pose proof (add_callback_wf o (N.succ (s_next s)) (s_cbs s) (mk_cb (s_next s) p) Hx) as H.
    destruct (add_callback lower o (s_cbs s) (mk_cb (s_next s) p)) as [r res]. simpl in *.
    apply H; [eapply wf_mono; [|exact Hw]; lia|apply fresh_not_in; exact Hw|lia].
  - unfold remove_callback. rewrite partition_filter. simpl. apply wf_filter. exact Hw.
  - destruct (load_plugin_module lower world n 0); try exact Hw.
    pose proof (load_plugin_class_wf s p false o Hx Hw) as H.
    destruct (load_plugin_class lower s p false o). exact H.
  - unfold owner_load. cbv zeta. destruct (get_callback lower (s_cbs s) (strip_py n)); [exact Hw|].
    destruct (load_plugin_module lower world (strip_py n) imp); try exact Hw.
    pose proof (load_plugin_class_wf s p initf o Hx Hw) as H.
    destruct (load_plugin_class lower s p initf o). exact H.
  - unfold owner_unload. destruct (is_owner lower n); [exact Hw|].
    destruct (get_callback lower (s_cbs s) n) as [old|]; [|exact Hw].
    unfold remove_callback. rewrite partition_filter.
    assert (H : wf (s_next s) (filter (fun x => negb (name_is lower (cname old) x)) (s_cbs s))).
    { apply wf_filter. exact Hw. }
    destruct (filter (name_is lower (cname old)) (s_cbs s)); exact H.
  - unfold owner_reload. destruct (is_owner lower n); [exact Hw|].
    unfold remove_callback. rewrite partition_filter.
    set (bad := filter (name_is lower n) (s_cbs s)).
    set (good := filter (fun x => negb (name_is lower n x)) (s_cbs s)).
    assert (Hg : wf (s_next s) good) by (apply wf_filter; exact Hw).
    destruct bad as [|b0 bt] eqn:Eb; [exact Hg|].
    assert (Hre : wf (s_next s) (fst (readd lower o good (b0 :: bt)))).
    { apply (readd_wf o (s_next s) (b0 :: bt) good Hx Hg).
      * rewrite <- Eb. unfold good, bad.
        eapply Permutation_NoDup; [|apply Hw].
        apply Permutation_map. clear. induction (s_cbs s) as [|a l IH]; simpl; [constructor|].
        destruct (name_is lower n a); simpl.
        -- apply Permutation_cons_app. exact IH.
        -- constructor. exact IH.
      * rewrite <- Eb. apply Forall_forall. intros c Hc. apply filter_In in Hc as [Hc _].
        destruct Hw as [_ [_ H3]]. rewrite Forall_forall in H3. auto. }
    destruct (reload_module lower world n imp).
    + pose proof (load_plugin_class_wf (St good (s_next s) (s_dead s ++ ids (b0 :: bt))) p initf o Hx Hg) as H.
      destruct (load_plugin_class lower (St good (s_next s) (s_dead s ++ ids (b0 :: bt))) p initf o). exact H.
    + destruct (readd lower o good (b0 :: bt)) as [r res]. exact Hre.
    + destruct (readd lower o good (b0 :: bt)) as [r res]. exact Hre.
Qed.


Theorem steps_wf : forall ops s, Forall op_ok ops -> wf_st s -> wf_st (steps lower world s ops).
Proof.
  induction ops as [|x t IH]; intros s Hops Hw; simpl; [exact Hw|].
  inversion Hops; subst. apply IH; [assumption|]. apply step_wf; assumption.
Qed.

(* ---------- the core dispatcher stays registered, at index 0 ---------- *)
Definition owner_head (l : list cb) : Prop :=
  exists o t, l = o :: t /\ ckind o = 1 /\ is_owner lower (cname o) = true.

Lemma add_callback_owner o l c :
  perm_oracle o -> NoDup (ids (l ++ [c])) -> owner_head l ->
  owner_head (fst (add_callback lower o l c)).
Proof.
  intros Ho Hnd [ow [t [El [Hk Hn]]]].
  pose proof (add_callback_spec lower o Ho l c Hnd) as S. simpl in S.
  destruct (add_callback lower o l c) as [r [u|e]] eqn:Ea; simpl.
  - destruct u. destruct (owner_first lower o l c ow r Ho Hnd Ea) as [t' ->]; auto.
    + subst l. left; reflexivity.
    + exists ow, t'. auto.
  - destruct S as [_ ->]. exists ow, t. auto.
Qed.

Lemma filter_owner n l :
  owner_head l -> is_owner lower n = false ->
  owner_head (filter (fun x => negb (name_is lower n x)) l).
Proof.
  intros [ow [t [-> [Hk Hn]]]] Hno. simpl.
  assert (name_is lower n ow = false).
  { unfold name_is, is_owner in *. apply seq_eqb_eq in Hn. rewrite Hn.
    apply seq_eqb_neq. apply seq_eqb_neq in Hno. congruence. }
  rewrite H. simpl. exists ow, (filter (fun x => negb (name_is lower n x)) t). auto.
Qed.

Lemma wf_nd_snoc next l c : wf next l -> cid c = next -> NoDup (ids (l ++ [c])).
Proof.
  intros Hw Ec. rewrite ids_app. apply NoDup_app_intro; [apply Hw|repeat constructor; intros []|].
  intros x Hx [<-|[]]. rewrite Ec in Hx. apply (fresh_not_in _ _ Hw Hx).
Qed.

Lemma load_plugin_class_owner s p initf o :
  perm_oracle o -> wf_st s -> owner_head (s_cbs s) ->
  owner_head (s_cbs (fst (load_plugin_class lower s p initf o))).
Proof.
  intros Ho Hw Hh. unfold load_plugin_class. destruct initf; [exact Hh|].
  pose proof (add_callback_owner o (s_cbs s) (mk_cb (s_next s) p) Ho
                (wf_nd_snoc (s_next s) (s_cbs s) (mk_cb (s_next s) p) Hw eq_refl) Hh) as H.
  destruct (add_callback lower o (s_cbs s) (mk_cb (s_next s) p)). exact H.
Qed.

Lemma readd_owner o next : forall bad cur,
  perm_oracle o -> wf next cur -> NoDup (ids (cur ++ bad)) -> Forall (fun c => cid c < next) bad ->
  owner_head cur -> owner_head (fst (readd lower o cur bad)).
Proof.
  induction bad as [|c t IH]; intros cur Ho Hw Hnd Hb Hh; simpl; [exact Hh|].
  inversion Hb as [|? ? Hc Ht]; subst.
  assert (Hci : ~ In (cid c) (ids cur)).
  { rewrite ids_app in Hnd. intro Hi. simpl in Hnd. apply NoDup_remove_2 in Hnd.
    apply Hnd. apply in_app_iff. left; exact Hi. }
  assert (Hnd1 : NoDup (ids (cur ++ [c]))).
  { rewrite ids_app. apply NoDup_app_intro; [apply Hw|repeat constructor; intros []|].
    intros x Hx [<-|[]]. contradiction. }
  pose proof (add_callback_wf o next cur c Ho Hw Hci Hc) as Hw1.
  pose proof (add_callback_owner o cur c Ho Hnd1 Hh) as Hh1.
  pose proof (add_callback_spec lower o Ho cur c Hnd1) as S. simpl in S.
  destruct (add_callback lower o cur c) as [r [u|e]]; simpl in *; [|exact Hh1].
  destruct S as [_ [HP _]]. apply IH; auto.
  eapply Permutation_NoDup; [|exact Hnd].
  apply Permutation_map. replace (cur ++ c :: t) with ((cur ++ [c]) ++ t) by (rewrite <- app_assoc; reflexivity).
  apply Permutation_app_tail. apply Permutation_sym. exact HP.
Qed.

(* operations reachable through the bot: everything but a direct removeCallback("Owner") *)
Definition op_guarded (x : op) : Prop :=
  match x with Remove n => is_owner lower n = false | _ => True end.

Lemma step_owner s x :
  op_ok x -> op_guarded x -> wf_st s -> owner_head (s_cbs s) ->
  owner_head (s_cbs (fst (step lower world s x))).
Proof.
  intros Hx Hgd Hw Hh. destruct x as [p o|n|n o|n imp initf o|n dief|n imp initf dief o]; cbn [step op_ok op_guarded] in *.
  - pose proof (add_callback_owner o (s_cbs s) (mk_cb (s_next s) p) Hx (wf_nd_snoc (s_next s) (s_cbs s) (mk_cb (s_next s) p) Hw eq_refl) Hh) as H.
    destruct (add_callback lower o (s_cbs s) (mk_cb (s_next s) p)). exact H.
  - unfold remove_callback. rewrite partition_filter. simpl. apply filter_owner; assumption.
  - destruct (load_plugin_module lower world n 0); try exact Hh.
    pose proof (load_plugin_class_owner s p false o Hx Hw Hh) as H.
    destruct (load_plugin_class lower s p false o). exact H.
  - unfold owner_load. cbv zeta. destruct (get_callback lower (s_cbs s) (strip_py n)); [exact Hh|].
    destruct (load_plugin_module lower world (strip_py n) imp); try exact Hh.
    pose proof (load_plugin_class_owner s p initf o Hx Hw Hh) as H.
    destruct (load_plugin_class lower s p initf o). exact H.
  - unfold owner_unload. destruct (is_owner lower n) eqn:Eo; [exact Hh|].
    destruct (get_callback lower (s_cbs s) n) as [old|] eqn:Eg; [|exact Hh].
    unfold remove_callback. rewrite partition_filter.
    assert (Hold : is_owner lower (cname old) = false).
    { unfold get_callback in Eg. apply find_some in Eg as [_ Eg]. unfold name_is in Eg.
      apply seq_eqb_eq in Eg. unfold is_owner in *. rewrite Eg. exact Eo. }
    pose proof (filter_owner (cname old) (s_cbs s) Hh Hold) as H.
    destruct (filter (name_is lower (cname old)) (s_cbs s)); exact H.
  - unfold owner_reload. destruct (is_owner lower n) eqn:Eo; [exact Hh|].
    unfold remove_callback. rewrite partition_filter.
    set (bad := filter (name_is lower n) (s_cbs s)).
    set (good := filter (fun x => negb (name_is lower n x)) (s_cbs s)).
    assert (Hg : wf (s_next s) good) by (apply wf_filter; exact Hw).
    assert (Hhg : owner_head good) by (apply filter_owner; assumption).
    destruct bad as [|b0 bt] eqn:Eb; [exact Hhg|].
    assert (Hre : owner_head (fst (readd lower o good (b0 :: bt)))).
    { apply (readd_owner o (s_next s) (b0 :: bt) good Hx Hg); [| |exact Hhg].
      * rewrite <- Eb. unfold good, bad.
        eapply Permutation_NoDup; [|apply Hw].
        apply Permutation_map. clear. induction (s_cbs s) as [|a l IH]; simpl; [constructor|].
        destruct (name_is lower n a); simpl.
        -- apply Permutation_cons_app. exact IH.
        -- constructor. exact IH.
      * rewrite <- Eb. apply Forall_forall. intros c Hc. apply filter_In in Hc as [Hc _].
        destruct Hw as [_ [_ H3]]. rewrite Forall_forall in H3. auto. }
    destruct (reload_module lower world n imp).
    + pose proof (load_plugin_class_owner (St good (s_next s) (s_dead s ++ ids (b0 :: bt))) p initf o Hx Hg Hhg) as H.
      destruct (load_plugin_class lower (St good (s_next s) (s_dead s ++ ids (b0 :: bt))) p initf o). exact H.
    + destruct (readd lower o good (b0 :: bt)) as [r res]. exact Hre.
    + destruct (readd lower o good (b0 :: bt)) as [r res]. exact Hre.
Qed.


Theorem steps_owner : forall ops s,
  Forall op_ok ops -> Forall op_guarded ops -> wf_st s -> owner_head (s_cbs s) ->
  owner_head (s_cbs (steps lower world s ops)).
Proof.
  induction ops as [|x t IH]; intros s Hops Hg Hw Hh; simpl; [exact Hh|].
  inversion Hops; subst. inversion Hg; subst.
  apply IH; auto; [apply step_wf|apply step_owner]; assumption.
Qed.
End History.
