(* C20/Failure.v — failed operations: what is kept, and the witnesses where it is not *)
From Coq Require Import List NArith Bool Arith Lia Permutation.
Import ListNotations.
Require Import Base.Wire Base.PyStr C20.Model C20.AuxList C20.Sort C20.Lemmas C20.History.
Open Scope N_scope.

Definition id_oracle : oracle := fun l => l.
Lemma id_oracle_perm : perm_oracle id_oracle.
Proof. intro l. apply Permutation_refl. Qed.

Section Failure.
Variable lower : str -> str.
Variable world : list pspec.

(* decidable: the constraints of l ++ [c] are acyclic (the fixed-oracle run accepts), or the name is taken *)
Definition accepts (l : list cb) (c : cb) : bool :=
  match get_callback lower l (cname c) with
  | Some _ => true
  | None => match snd (add_callback lower id_oracle l c) with Ok _ => true | Raise _ => false end
  end.

Definition load_dom (s : st) (n : str) : bool :=
  match find_spec lower world n with
  | None => true
  | Some p => accepts (s_cbs s) (mk_cb (s_next s) p)
  end.

Lemma failed_load_keeps s n imp initf o :
  perm_oracle o -> wf_st lower s -> load_dom s n = true ->
  forall s' r, owner_load lower world s n imp initf o = (s', r) -> r <> Ok 0 ->
  s_cbs s' = s_cbs s.
Proof.
  intros Ho Hw Hd s' r E Hr. unfold owner_load in E.
  destruct (get_callback lower (s_cbs s) n); [inversion E; reflexivity|].
  unfold load_dom, load_plugin_module in *.
  destruct (find_spec lower world n) as [p|]; [|inversion E; reflexivity].
  destruct imp as [|[q|q|]]; try (inversion E; reflexivity).
  unfold load_plugin_class in E. destruct initf; [inversion E; reflexivity|].
  cbn [s_cbs s_next s_unimp] in E.
  set (c := mk_cb (s_next s) p) in *.
  assert (Hnd : NoDup (ids (s_cbs s ++ [c]))) by (apply (wf_nd_snoc lower (s_next s)); [exact Hw|reflexivity]).
  pose proof (add_callback_spec lower o Ho (s_cbs s) c Hnd) as S. cbv zeta in S.
  pose proof (add_callback_accept_indep lower id_oracle o (s_cbs s) c id_oracle_perm Ho Hnd) as Hind.
  destruct (add_callback lower o (s_cbs s) c) as [l' [u|e]]; inversion E; subst; cbn [bind s_cbs] in *.
  - exfalso. apply Hr. reflexivity.
  - destruct S as [_ [[_ ->]|[Hg ->]]]; [reflexivity|]. exfalso.
    unfold accepts in Hd. rewrite Hg in Hd.
    destruct (snd (add_callback lower id_oracle (s_cbs s) c)) as [[]|e'] eqn:Ei; [|discriminate].
    specialize (Hind eq_refl). discriminate.
Qed.
End Failure.

(* ---------- witnesses on the pinned code (ASCII fold, identity oracle) ---------- *)
Definition s_ (x : list N) : str := x.
Definition nOwner : str := [79; 119; 110; 101; 114].
Definition nMisc : str := [77; 105; 115; 99].
Definition nAlpha : str := [65; 108; 112; 104; 97].
Definition nA0 : str := [65; 48].
Definition nS : str := [83].

Definition w_reload : list pspec := [P nOwner 1 [] [] []; P nAlpha 0 [] [] [[99]]].
Definition ops_reload : list op := [Boot nOwner id_oracle; Load nAlpha 0 false id_oracle].

(* reload with a raising constructor: Alpha was registered, the command fails, Alpha is gone *)
Lemma reload_refuted :
  let s := steps lower_ascii w_reload st0 ops_reload in
  let '(s', r) := owner_reload lower_ascii w_reload s nAlpha 0 true false id_oracle in
  map cname (s_cbs s) = [nOwner; nAlpha] /\ r = Raise OtherError /\ map cname (s_cbs s') = [nOwner].
Proof. vm_compute. repeat split. Qed.

(* non-ImportError at import, and die() raising: same loss *)
Lemma reload_refuted_import :
  let s := steps lower_ascii w_reload st0 ops_reload in
  let '(s', r) := owner_reload lower_ascii w_reload s nAlpha 2 false false id_oracle in
  r = Raise OtherError /\ map cname (s_cbs s') = [nOwner].
Proof. vm_compute. repeat split. Qed.

Definition w_cyc : list pspec := [P nOwner 1 [] [] []; P nMisc 2 [] [] []; P nAlpha 0 [nOwner] [] []].
Definition ops_cyc : list op := [Boot nOwner id_oracle; Boot nMisc id_oracle].

(* cyclic load: outside load_dom, the command fails, and Alpha is registered behind Misc *)
Lemma cyclic_load_refuted :
  let s := steps lower_ascii w_cyc st0 ops_cyc in
  let '(s', r) := owner_load lower_ascii w_cyc s nAlpha 0 false id_oracle in
  load_dom lower_ascii w_cyc s nAlpha = false /\ r = Raise AssertionError /\
  map cname (s_cbs s') = [nOwner; nMisc; nAlpha].
Proof. vm_compute. repeat split. Qed.

(* reload after a reload that failed with ImportError (and restored the plugin): the module was
   popped from sys.modules, so even a now-correct plugin is lost with KeyError (finding F24) *)
Definition ops_reload2 : list op :=
  [Boot nOwner id_oracle; Load nAlpha 0 false id_oracle; Reload nAlpha 1 false false id_oracle].
Lemma reload_after_importerror_refuted :
  let s := steps lower_ascii w_reload st0 ops_reload2 in
  let '(s', r) := owner_reload lower_ascii w_reload s nAlpha 0 false false id_oracle in
  map cname (s_cbs s) = [nOwner; nAlpha] /\ r = Raise KeyError /\ map cname (s_cbs s') = [nOwner].
Proof. vm_compute. repeat split. Qed.

(* non-vacuity of load_dom / accepted loads *)
Lemma load_dom_example :
  let s := steps lower_ascii w_reload st0 [Boot nOwner id_oracle] in
  load_dom lower_ascii w_reload s nAlpha = true /\
  map cname (s_cbs (fst (owner_load lower_ascii w_reload s nAlpha 0 false id_oracle))) = [nOwner; nAlpha].
Proof. vm_compute. split; reflexivity. Qed.

(* self-reference: S declares itself before A0 (and S), the add succeeds, S is behind A0 *)
Definition cA0 : cb := Cb 0 nA0 0 [] [] [].
Definition cS : cb := Cb 1 nS 0 [nS; nA0] [] [].
Lemma selfref_refuted :
  no_selfref lower_ascii [cA0; cS] cS = false /\
  add_callback lower_ascii id_oracle [cA0] cS = ([cA0; cS], Ok tt) /\
  In nA0 (cbefore cS) /\ get_callback lower_ascii [cA0; cS] nA0 = Some cA0.
Proof. vm_compute. repeat split. right; left; reflexivity. Qed.

(* non-vacuity of the history theorems: a reachable state is wf_st and has Owner at the head,
   and the identity oracle is a permutation oracle (id_oracle_perm above) *)
Lemma history_hyps_example :
  let s := steps lower_ascii w_reload st0 ops_reload in
  wf_st lower_ascii s /\ owner_head lower_ascii (s_cbs s) /\
  Forall op_ok ops_reload /\ Forall (op_guarded lower_ascii) ops_reload.
Proof.
  split; [|split; [|split]].
  - apply (steps_wf lower_ascii w_reload ops_reload st0).
    + repeat constructor; apply id_oracle_perm.
    + repeat constructor.
  - vm_compute. eexists; eexists. split; [reflexivity|]. split; reflexivity.
  - repeat constructor; apply id_oracle_perm.
  - repeat constructor.
Qed.
