(* C20/Failure.v — failed operations: what is kept, and the witnesses where it is not *)
From Coq Require Import List NArith Bool Arith Lia Permutation.
Import ListNotations.
Require Import Base.Wire Base.PyStr C20.Model C20.AuxList C20.Sort C20.Lemmas C20.History.
Open Scope N_scope.

Definition id_oracle : oracle := fun l => l.
Lemma id_oracle_perm : perm_oracle id_oracle.
Proof. intro l. apply Permutation_refl. Qed.

Section Failure.
Variable lower : str -> str.
Variable world : list pspec.

(* a `load` that does not answer success leaves the callbacks list exactly as it was *)
Lemma failed_load_keeps s n imp initf o :
  perm_oracle o -> wf_st lower s ->
  forall s' r, owner_load lower world s n imp initf o = (s', r) -> r <> Ok 0 ->
  s_cbs s' = s_cbs s.
Proof.
  intros Ho Hw s' r E Hr. unfold owner_load in E. cbv zeta in E.
  destruct (get_callback lower (s_cbs s) (strip_py n)); [inversion E; reflexivity|].
  destruct (load_plugin_module lower world (strip_py n) imp) as [p| |]; try (inversion E; reflexivity).
  unfold load_plugin_class in E. destruct initf; [inversion E; reflexivity|].
  set (c := mk_cb (s_next s) p) in *.
  assert (Hnd : NoDup (ids (s_cbs s ++ [c]))) by (apply (wf_nd_snoc lower (s_next s)); [exact Hw|reflexivity]).
  pose proof (add_callback_spec lower o Ho (s_cbs s) c Hnd) as S. cbv zeta in S.
  destruct (add_callback lower o (s_cbs s) c) as [l' [u|e]]; inversion E; subst; cbn [bind s_cbs] in *.
  - exfalso. apply Hr. reflexivity.
  - destruct S as [_ ->]. reflexivity.
Qed.

(* ---- reload whose import fails (ImportError or anything else): the plugin is put back ---- *)
Lemma reload_module_fails n imp :
  imp <> 0 -> reload_module lower world n imp = ImpErr \/ reload_module lower world n imp = OtherExc.
Proof.
  intro H. unfold reload_module, load_plugin_module. destruct (N.leb 3 imp) eqn:E; [right; reflexivity|].
  apply N.leb_gt in E. destruct (find_spec lower world n); [|left; reflexivity].
  assert (imp = 1 \/ imp = 2) as [-> | ->] by lia; [left|right]; reflexivity.
Qed.

Lemma load_plugin_module_mod n imp p :
  load_plugin_module lower world n imp = Mod p -> find_spec lower world n = Some p.
Proof.
  unfold load_plugin_module. destruct (find_spec lower world n) as [q|]; [|discriminate].
  destruct imp as [|[[r|r|]|[r|r|]|]]; intro H; inversion H; reflexivity.
Qed.

Lemma filter_all_false {A} (p : A -> bool) l : (forall x, In x l -> p x = false) -> filter p l = [].
Proof.
  induction l as [|a l IH]; simpl; intro H; [reflexivity|].
  rewrite (H a (or_introl eq_refl)). apply IH. intros x Hx. apply H. right; exact Hx.
Qed.

Lemma filter_none_all {A} (p : A -> bool) l : filter p l = [] -> filter (fun x => negb (p x)) l = l.
Proof.
  induction l as [|a l IH]; simpl; intro H; [reflexivity|].
  destruct (p a); [discriminate|]. simpl. f_equal. apply IH. exact H.
Qed.

Lemma filter_split_perm {A} (p : A -> bool) l :
  Permutation (filter (fun x => negb (p x)) l ++ filter p l) l.
Proof.
  induction l as [|a l IH]; simpl; [constructor|].
  destruct (p a); simpl.
  - apply Permutation_sym, Permutation_cons_app, Permutation_sym. exact IH.
  - constructor. exact IH.
Qed.

(* names are unique, so removeCallback removes at most one callback *)
Lemma unique_name_filter n l b0 bt :
  NoDup (names lower l) -> filter (name_is lower n) l = b0 :: bt -> bt = [].
Proof.
  induction l as [|a l IH]; simpl; intros Hnd E; [discriminate|].
  inversion Hnd as [|? ? Hna Hnd']; subst.
  destruct (name_is lower n a) eqn:Ea.
  - inversion E; subst. apply filter_all_false. intros x Hx.
    destruct (name_is lower n x) eqn:Ex; [|reflexivity]. exfalso. apply Hna.
    unfold name_is in *. apply seq_eqb_eq in Ea, Ex. rewrite Ea, <- Ex.
    unfold names. apply (in_map (fun c => lower (cname c))). exact Hx.
  - apply IH; assumption.
Qed.

(* decidable: putting the removed callback back is accepted (its constraints are acyclic) *)
Definition readd_dom (s : st) (n : str) : bool :=
  match filter (name_is lower n) (s_cbs s) with
  | [] => true
  | b :: _ =>
      match snd (add_callback lower id_oracle (filter (fun x => negb (name_is lower n x)) (s_cbs s)) b) with
      | Ok _ => true
      | Raise _ => false
      end
  end.

Lemma failed_import_reload_keeps s n imp initf dief o :
  perm_oracle o -> wf_st lower s -> imp <> 0 -> readd_dom s n = true ->
  forall s' r, owner_reload lower world s n imp initf dief o = (s', r) ->
  r <> Ok 0 /\ Permutation (s_cbs s') (s_cbs s).
Proof.
  intros Ho Hw Himp Hd s' r E. unfold owner_reload in E.
  destruct (is_owner lower n).
  { inversion E; subst. split; [discriminate|apply Permutation_refl]. }
  unfold remove_callback in E. rewrite partition_filter in E. unfold readd_dom in Hd.
  set (good := filter (fun x => negb (name_is lower n x)) (s_cbs s)) in *.
  destruct (filter (name_is lower n) (s_cbs s)) as [|b0 bt] eqn:Eb.
  { inversion E; subst. split; [discriminate|]. simpl. unfold good.
    rewrite (filter_none_all _ _ Eb). apply Permutation_refl. }
  assert (bt = []) by (eapply unique_name_filter; [apply Hw|exact Eb]). subst bt.
  assert (HP : Permutation (good ++ [b0]) (s_cbs s)).
  { rewrite <- Eb. apply filter_split_perm. }
  assert (Hnd : NoDup (ids (good ++ [b0]))).
  { eapply Permutation_NoDup; [apply Permutation_map, Permutation_sym, HP|apply Hw]. }
  assert (Hacc : snd (add_callback lower o good b0) = Ok tt).
  { apply (add_callback_accept_indep lower id_oracle o good b0 id_oracle_perm Ho Hnd).
    destruct (snd (add_callback lower id_oracle good b0)) as [[]|]; [reflexivity|discriminate]. }
  pose proof (add_callback_spec lower o Ho good b0 Hnd) as S. cbv zeta in S.
  assert (Hre : exists l', readd lower o good [b0] = (l', Ok tt) /\ Permutation l' (s_cbs s)).
  { simpl. destruct (add_callback lower o good b0) as [l' [[]|e]]; simpl in Hacc; [|discriminate].
    exists l'. split; [reflexivity|]. destruct S as [_ [HP' _]].
    eapply Permutation_trans; eauto. }
  destruct Hre as [l' [Er HPl]].
  destruct (reload_module_fails n imp Himp) as [Em|Em]; rewrite Em, Er in E; inversion E; subst;
    (split; [discriminate|exact HPl]).
Qed.
End Failure.

(* ---------- concrete runs (ASCII fold, identity oracle) ---------- *)
Definition nOwner : str := [79; 119; 110; 101; 114].
Definition nMisc : str := [77; 105; 115; 99].
Definition nAlpha : str := [65; 108; 112; 104; 97].
Definition nA0 : str := [65; 48].
Definition nS : str := [83].

Definition w_reload : list pspec := [P nOwner 1 [] [] []; P nAlpha 0 [] [] [[99]]].
Definition ops_reload : list op := [Boot nOwner id_oracle; Load nAlpha 0 false id_oracle].

(* still violated (known finding C20.F21, the part left unrepaired): reload with a raising
   constructor -- Alpha was registered, the command fails, Alpha is gone *)
Lemma reload_refuted :
  let s := steps lower_ascii w_reload st0 ops_reload in
  let '(s', r) := owner_reload lower_ascii w_reload s nAlpha 0 true false id_oracle in
  map cname (s_cbs s) = [nOwner; nAlpha] /\ r = Raise OtherError /\ map cname (s_cbs s') = [nOwner].
Proof. vm_compute. repeat split. Qed.

(* non-vacuity of failed_import_reload_keeps: a non-ImportError at import now keeps Alpha *)
Lemma reload_import_example :
  let s := steps lower_ascii w_reload st0 ops_reload in
  readd_dom lower_ascii s nAlpha = true /\
  let '(s', r) := owner_reload lower_ascii w_reload s nAlpha 2 false false id_oracle in
  r = Raise OtherError /\ map cname (s_cbs s') = [nOwner; nAlpha].
Proof. vm_compute. repeat split. Qed.

(* reload after a reload that failed with ImportError: works again (was finding C20.F24) *)
Definition ops_reload2 : list op :=
  [Boot nOwner id_oracle; Load nAlpha 0 false id_oracle; Reload nAlpha 1 false false id_oracle].
Lemma reload_after_importerror_example :
  let s := steps lower_ascii w_reload st0 ops_reload2 in
  let '(s', r) := owner_reload lower_ascii w_reload s nAlpha 0 false false id_oracle in
  map cname (s_cbs s) = [nOwner; nAlpha] /\ r = Ok 0 /\ map cname (s_cbs s') = [nOwner; nAlpha].
Proof. vm_compute. repeat split. Qed.

Definition w_cyc : list pspec := [P nOwner 1 [] [] []; P nMisc 2 [] [] []; P nAlpha 0 [nOwner] [] []].
Definition ops_cyc : list op := [Boot nOwner id_oracle; Boot nMisc id_oracle].

(* non-vacuity of failed_load_keeps: a cyclic load fails and leaves the list as it was (was C20.F22) *)
Lemma cyclic_load_example :
  let s := steps lower_ascii w_cyc st0 ops_cyc in
  let '(s', r) := owner_load lower_ascii w_cyc s nAlpha 0 false id_oracle in
  r = Raise AssertionError /\ map cname (s_cbs s') = [nOwner; nMisc].
Proof. vm_compute. repeat split. Qed.

Lemma load_example :
  let s := steps lower_ascii w_reload st0 [Boot nOwner id_oracle] in
  map cname (s_cbs (fst (owner_load lower_ascii w_reload s nAlpha 0 false id_oracle))) = [nOwner; nAlpha].
Proof. vm_compute. reflexivity. Qed.

(* self-reference: S names itself (and A0) in callBefore: rejected, list unchanged (was C20.F23) *)
Definition cA0 : cb := Cb 0 nA0 0 [] [] [].
Definition cS : cb := Cb 1 nS 0 [nS; nA0] [] [].
Lemma selfref_example :
  selfref_b lower_ascii [cA0; cS] cS = true /\
  add_callback lower_ascii id_oracle [cA0] cS = ([cA0], Raise AssertionError).
Proof. vm_compute. split; reflexivity. Qed.

(* non-vacuity of the declared-order theorems: B declares callBefore A0 and is put first *)
Definition cB : cb := Cb 1 nS 0 [nA0] [] [].
Lemma declared_before_example :
  add_callback lower_ascii id_oracle [cA0] cB = ([cB; cA0], Ok tt) /\
  get_callback lower_ascii ([cA0] ++ [cB]) nA0 = Some cA0.
Proof. vm_compute. split; reflexivity. Qed.

(* non-vacuity of the history theorems: a reachable state is wf_st and has Owner at the head,
   and the identity oracle is a permutation oracle (id_oracle_perm above) *)
Lemma history_hyps_example :
  let s := steps lower_ascii w_reload st0 ops_reload in
  wf_st lower_ascii s /\ owner_head lower_ascii (s_cbs s) /\
  Forall op_ok ops_reload /\ Forall (op_guarded lower_ascii) ops_reload.
Proof.
  split; [|split; [|split]].
  - apply (steps_wf lower_ascii w_reload ops_reload st0).
    + repeat constructor; apply id_oracle_perm.
    + repeat constructor.
  - vm_compute. eexists; eexists. split; [reflexivity|]. split; reflexivity.
  - repeat constructor; apply id_oracle_perm.
  - repeat constructor.
Qed.
