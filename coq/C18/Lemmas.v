(* C18/Lemmas.v — the state invariant of the scheduler model and its preservation by every primitive,
   by the action interpreter, by the run loop and by whole histories. *)
From Coq Require Import List NArith ZArith Bool Lia ZifyBool Permutation.
Import ListNotations.
Require Import Base.Wire Base.PyStr C18.Model C18.Aux.
Require gen.T18.

(* ---- the table facts the proofs rest on ---- *)
Lemma table_log_safe : gen.T18.RUN_LOG_INTERPOLATES_NAME = false.
Proof. reflexivity. Qed.

(* run()'s except handler cannot raise, whatever the name of the event (str, tuple of any length, with % directives) *)
Lemma handler_never_gen : gen.T18.RUN_LOG_INTERPOLATES_NAME = false -> forall n, handler_raises n = false.
Proof. intros H n. unfold handler_raises. rewrite H. reflexivity. Qed.
Lemma handler_never n : handler_raises n = false.
Proof. apply handler_never_gen. exact table_log_safe. Qed.
Lemma after_call_never n r : after_call n r = false.
Proof. destruct r; [reflexivity|apply handler_never]. Qed.
Arguments after_call : simpl never.

Definition names (s : state) := map e_name (heap s).
Definition keys (s : state) := map fst (events s).
Definition hsids (s : state) := map e_sid (heap s).
Definition psids (s : state) := map (fun p => e_sid (p_e p)) (pops s).
Definition all_sids (s : state) := hsids s ++ psids s ++ removed s.

(* what every recorded heappop of run() satisfied when it happened *)
Definition pop_ok (p : poprec) : Prop :=
  (e_t (p_e p) < p_clock p)%Z /\ In (p_e p) (p_before p) /\
  forall e', In e' (p_before p) -> (e_t (p_e p) <= e_t e')%Z.
Definition args_ok (e : entry) : Prop := e_args e = e_gargs e.

Record INV (s : state) : Prop := mkINV {
  i_keys : NoDup (keys s);
  i_names : Permutation (names s) (keys s);
  i_auto : forall c, In (Auto c) (keys s) -> (c < counter s)%N;
  i_sids : NoDup (all_sids s);
  i_lt : forall i, In i (all_sids s) <-> (i < nsched s)%N;
  i_pops : Forall pop_ok (pops s);
  i_args : Forall args_ok (heap s) /\ Forall (fun p => args_ok (p_e p)) (pops s)
}.

Lemma init_inv o : INV (init o).
Proof.
  constructor; simpl; try constructor; auto; try (intros; contradiction); try (intros; lia).
Qed.

(* ---- frame: updates that touch neither heap, events, ghost partitions nor lower the counter ---- *)
Definition same_core (s s' : state) : Prop :=
  heap s' = heap s /\ events s' = events s /\ nsched s' = nsched s /\ pops s' = pops s /\
  removed s' = removed s /\ (counter s <= counter s')%N.

Lemma frame_inv s s' : same_core s s' -> INV s -> INV s'.
Proof.
  intros (A & B & C & D & E & G) [K1 K2 K3 K4 K5 K6 K7].
  unfold all_sids, hsids, psids, names, keys in *.
  constructor; unfold all_sids, hsids, psids, names, keys; rewrite ?A, ?B, ?C, ?D, ?E; auto.
  intros c H. specialize (K3 c H). lia.
Qed.

Lemma bump_counter_inv s : INV s -> INV (bump_counter s).
Proof. apply frame_inv. unfold same_core; simpl. repeat split; auto. lia. Qed.
Lemma tick_inv d s : INV s -> INV (tick d s).
Proof. apply frame_inv. unfold same_core; simpl. repeat split; auto. lia. Qed.
Lemma bump_reg_inv s : INV s -> INV (bump_reg s).
Proof. apply frame_inv. unfold same_core; simpl. repeat split; auto. lia. Qed.
Lemma log_call_inv c s : INV s -> INV (log_call c s).
Proof. apply frame_inv. unfold same_core; simpl. repeat split; auto. lia. Qed.
Lemma set_fuelout_inv s : INV s -> INV (set_fuelout s).
Proof. apply frame_inv. unfold same_core; simpl. repeat split; auto. lia. Qed.

(* ---- addEvent ---- *)
Lemma push_inv f t n av g s :
  INV s -> ~ In n (keys s) -> (forall c, n = Auto c -> (c < counter s)%N) ->
  av = g -> INV (push f t n av g s).
Proof.
  intros [K1 K2 K3 K4 K5 K6 K7] Hn Ha Hd.
  constructor; unfold all_sids, hsids, psids, names, keys in *; simpl.
  - constructor; auto.
  - constructor. exact K2.
  - intros c [H|H]; auto.
  - constructor; auto. intro H. apply K5 in H. lia.
  - intros i. rewrite K5. lia.
  - exact K6.
  - subst av. destruct K7 as [X Y]. split; auto.
    constructor; auto. reflexivity.
Qed.

Definition name_bounded (nm : option name) (s : state) : Prop :=
  forall c, nm = Some (Auto c) -> (c < counter s)%N.

Lemma addEvent_inv f t nm av g s :
  INV s -> name_bounded nm s -> av = g -> INV (fst (addEvent f t nm av g s)).
Proof.
  intros I Hb Hd. unfold addEvent. destruct nm as [n|].
  - destruct (has_key n (events s)) eqn:E; simpl; auto.
    apply push_inv; auto.
    + apply has_key_false; exact E.
    + intros c ->. apply Hb. reflexivity.
  - assert (F : has_key (Auto (counter s)) (events (bump_counter s)) = false).
    { apply has_key_false. simpl. intro H. apply (i_auto _ I) in H. lia. }
    rewrite F. simpl. apply push_inv; auto.
    + apply bump_counter_inv; auto.
    + apply has_key_false in F. exact F.
    + intros c E. inversion E; subst. simpl. lia.
Qed.

Lemma named_bounded k s : name_bounded (option_map Named k) s.
Proof. intros c H. destruct k; discriminate. Qed.

(* addEvent with name=None never fails; with a free name it succeeds *)
Lemma addEvent_auto_ok f t av g s : INV s -> snd (addEvent f t None av g s) = Ok (Auto (counter s)).
Proof.
  intros I. unfold addEvent.
  assert (F : has_key (Auto (counter s)) (events (bump_counter s)) = false).
  { apply has_key_false. simpl. intro H. apply (i_auto _ I) in H. lia. }
  rewrite F. reflexivity.
Qed.

(* ---- removeEvent ---- *)
Lemma filter_named_one n h :
  NoDup (map e_name h) -> In n (map e_name h) -> map e_name (filter (named n) h) = [n].
Proof.
  induction h as [|x h IH]; simpl; intros ND Hin; [contradiction|].
  inversion ND; subst. unfold named at 1. destruct (name_eqb (e_name x) n) eqn:E.
  - apply name_eqb_eq in E. simpl. f_equal; auto.
    assert (Z : forall l, ~ In n (map e_name l) -> filter (named n) l = []).
    { induction l as [|y l IHl]; simpl; auto. intros H. unfold named at 1.
      destruct (name_eqb (e_name y) n) eqn:E2; [apply name_eqb_eq in E2; exfalso; auto|]. apply IHl. tauto. }
    rewrite Z; auto. congruence.
  - apply name_eqb_neq in E. destruct Hin as [H|H]; [contradiction|]. auto.
Qed.

Lemma drop_inv n f ev' s :
  INV s -> take_key n (events s) = Some (f, ev') -> INV (drop n ev' s).
Proof.
  intros [K1 K2 K3 K4 K5 K6 K7] T.
  destruct (take_key_some _ _ _ _ T) as [Hin Hperm].
  unfold all_sids, hsids, psids, names, keys in *.
  assert (ND : NoDup (n :: map fst ev')) by (eapply Permutation_NoDup; eauto).
  assert (NDn : NoDup (map e_name (heap s))) by (eapply Permutation_NoDup; [apply Permutation_sym; eauto|auto]).
  assert (Inn : In n (map e_name (heap s))).
  { eapply Permutation_in; [apply Permutation_sym; exact K2|]. eapply Permutation_in; [apply Permutation_sym; exact Hperm|]. left; auto. }
  pose proof (filter_split (named n) (heap s)) as FS.
  assert (PS : Permutation (map e_sid (heap s) ++ map (fun p => e_sid (p_e p)) (pops s) ++ removed s)
     (map e_sid (filter (fun e => negb (named n e)) (heap s)) ++ map (fun p => e_sid (p_e p)) (pops s) ++
      map e_sid (filter (named n) (heap s)) ++ removed s)).
  { eapply Permutation_trans.
    - apply Permutation_app_tail. apply Permutation_map. exact FS.
    - rewrite map_app, <- app_assoc.
      eapply Permutation_trans; [apply Permutation_app_swap_app|].
      apply Permutation_app_head. apply Permutation_app_swap_app. }
  constructor; unfold all_sids, hsids, psids, names, keys; simpl.
  - inversion ND; auto.
  - apply (Permutation_cons_inv (a := n)).
    rewrite <- Hperm, <- K2.
    eapply Permutation_trans; [|apply Permutation_sym; apply (Permutation_map e_name FS)].
    rewrite map_app, filter_named_one; auto.
  - intros c H. apply K3. eapply Permutation_in; [apply Permutation_sym; exact Hperm|]. right; auto.
  - eapply Permutation_NoDup; [exact PS|exact K4].
  - intros i. rewrite <- K5. split; intro H.
    + eapply Permutation_in; [apply Permutation_sym; exact PS|exact H].
    + eapply Permutation_in; [exact PS|exact H].
  - exact K6.
  - destruct K7 as [X Y]. split; auto.
    rewrite Forall_forall in *. intros e He. apply filter_In in He. apply X. tauto.
Qed.

Lemma removeEvent_inv n s : INV s -> INV (fst (removeEvent n s)).
Proof.
  intros I. unfold removeEvent. destruct (take_key n (events s)) as [[f ev']|] eqn:T; simpl; auto.
  eapply drop_inv; eauto.
Qed.

Lemma drop_counter n ev' s : counter (drop n ev' s) = counter s.
Proof. reflexivity. Qed.

(* the entry found by rescheduleEvent carries the arguments it was registered with *)
Lemma lookup_args_ok n s : INV s -> fst (lookup_args n (heap s)) = snd (lookup_args n (heap s)).
Proof.
  intros I. unfold lookup_args. destruct (filter (named n) (heap s)) as [|e l] eqn:F; simpl; auto.
  assert (H : In e (filter (named n) (heap s))) by (rewrite F; left; auto).
  apply filter_In in H. destruct (i_args _ I) as [X _]. rewrite Forall_forall in X. apply X. tauto.
Qed.

Lemma reschedule_inv n t s : INV s -> INV (fst (reschedule n t s)).
Proof.
  intros I. unfold reschedule.
  pose proof (lookup_args_ok n s I) as LA. destruct (lookup_args n (heap s)) as [av g]. simpl in LA.
  destruct (removeEvent n s) as [s1 [f|e]] eqn:R.
  2:{ simpl. change s1 with (fst (s1, @Raise fn e)). rewrite <- R. apply removeEvent_inv; auto. }
  assert (I1 : INV s1) by (change s1 with (fst (s1, Ok f)); rewrite <- R; apply removeEvent_inv; auto).
  assert (B : name_bounded (Some n) s1).
  { intros c E. inversion E; subst. unfold removeEvent in R.
    destruct (take_key (Auto c) (events s)) as [[f' ev']|] eqn:T; [|discriminate]. inversion R; subst.
    simpl. apply (i_auto _ I). destruct (take_key_some _ _ _ _ T) as [H _].
    apply in_map_iff. eexists. split; [|exact H]. reflexivity. }
  pose proof (addEvent_inv f t (Some n) av g s1 I1 B LA) as I3.
  destruct (addEvent f t (Some n) av g s1) as [s3 [x|e]]; exact I3.
Qed.

(* ---- calling functions ---- *)
Definition preserves (rb : state -> state * res unit) : Prop := forall s, INV s -> INV (fst (rb s)).

Lemma call_user_inv rb u av s : preserves rb -> INV s -> INV (fst (call_user rb u av s)).
Proof.
  intros P I. unfold call_user. destruct (arity_ok (u_ar u) av); simpl.
  - apply P. apply log_call_inv; auto.
  - apply log_call_inv; auto.
Qed.

Lemma wrapper_call_inv rb u p nm av cnt s :
  preserves rb -> INV s -> INV (fst (wrapper_call rb u p nm av cnt s)).
Proof.
  intros P I. unfold wrapper_call.
  pose proof (call_user_inv rb u av s P I) as I1.
  destruct (call_user rb u av s) as [s1 r]. simpl in I1.
  destruct (recurs (recur cnt)); simpl; auto.
  pose proof (addEvent_inv (Wrap u p nm av (recur cnt)) (now s1 + p) (option_map Named nm) noargs noargs s1 I1
                (named_bounded nm s1) eq_refl) as I2.
  destruct (addEvent _ _ _ _ _ s1) as [s2 [x|e]]; exact I2.
Qed.

Lemma exec_inv a : preserves (exec a).
Proof.
  induction a; intros s I; simpl; auto.
  - apply tick_inv; auto.
  - pose proof (addEvent_inv (Plain (UF (nreg s) tag ar a)) (now s + dt) (option_map Named nm) av av (bump_reg s)
                  (bump_reg_inv s I) (named_bounded nm _) eq_refl) as I2.
    destruct (addEvent _ _ _ _ _ (bump_reg s)) as [s2 r]. exact I2.
  - destruct nowf.
    + apply wrapper_call_inv; auto. apply bump_reg_inv; auto.
    + pose proof (addEvent_inv (Wrap (UF (nreg s) tag ar a) period nm av count) (now s + period) (option_map Named nm)
                    noargs noargs (bump_reg s) (bump_reg_inv s I) (named_bounded nm _) eq_refl) as I2.
      destruct (addEvent _ _ _ _ _ (bump_reg s)) as [s2 r]. exact I2.
  - pose proof (removeEvent_inv n s I) as I2. destruct (removeEvent n s) as [s1 r]. exact I2.
  - apply reschedule_inv; auto.
  - specialize (IHa1 s I). destruct (exec a1 s) as [s1 [x|e]]; simpl in *; auto.
Qed.

Lemma call_fn_inv f av s : INV s -> INV (fst (call_fn f av s)).
Proof.
  intros I. destruct f as [u|u p nm uav cnt]; simpl.
  - apply call_user_inv; auto. apply exec_inv.
  - destruct (argv_empty av); simpl; auto. apply wrapper_call_inv; auto. apply exec_inv.
Qed.

(* ---- run() ---- *)
Lemma due_lt t c : gen.T18.RUN_CMP_STRICT = true -> due t c = true -> (t < c)%Z.
Proof. unfold due. intros ->. lia. Qed.
Lemma due_false t c : gen.T18.RUN_CMP_STRICT = true -> due t c = false -> (c <= t)%Z.
Proof. unfold due. intros ->. lia. Qed.
Lemma table_strict : gen.T18.RUN_CMP_STRICT = true.
Proof. reflexivity. Qed.

Lemma popped_inv e r o bad f ev' s :
  INV s -> pop_min (oracle s) (heap s) = Some (e, r, o, bad) -> due (e_t e) (now s) = true ->
  take_key (e_name e) (events s) = Some (f, ev') -> INV (popped e r o bad ev' s).
Proof.
  intros [K1 K2 K3 K4 K5 K6 K7] PM D T.
  destruct (pop_min_some _ _ _ _ _ _ PM) as [Hmin Hperm].
  destruct (take_key_some _ _ _ _ T) as [Hin Hk].
  unfold all_sids, hsids, psids, names, keys in *.
  assert (ND : NoDup (e_name e :: map fst ev')) by (eapply Permutation_NoDup; eauto).
  assert (PS : Permutation (map e_sid (heap s) ++ map (fun p => e_sid (p_e p)) (pops s) ++ removed s)
                 (map e_sid r ++ (e_sid e :: map (fun p => e_sid (p_e p)) (pops s)) ++ removed s)).
  { rewrite (Permutation_map e_sid Hperm). simpl. apply Permutation_middle. }
  constructor; unfold all_sids, hsids, psids, names, keys; simpl.
  - inversion ND; auto.
  - apply (Permutation_cons_inv (a := e_name e)). rewrite <- Hk, <- K2.
    apply Permutation_sym. apply (Permutation_map e_name Hperm).
  - intros c H. apply K3. eapply Permutation_in; [apply Permutation_sym; exact Hk|]. right; auto.
  - eapply Permutation_NoDup; [exact PS|exact K4].
  - intros i. rewrite <- K5. split; intro H.
    + eapply Permutation_in; [apply Permutation_sym; exact PS|exact H].
    + eapply Permutation_in; [exact PS|exact H].
  - constructor; auto. unfold pop_ok; simpl. split; [apply due_lt; auto using table_strict|]. split.
    + eapply Permutation_in; [apply Permutation_sym; exact Hperm|left; auto].
    + apply is_min_spec. exact Hmin.
  - destruct K7 as [X Y].
    assert (Xe : Forall args_ok (e :: r)) by (eapply Permutation_Forall; eauto).
    inversion Xe; subst. split; auto.
Qed.

Lemma run_loop_inv fuel : forall s, INV s -> INV (fst (run_loop fuel s)) /\ snd (run_loop fuel s) = Ok tt.
Proof.
  induction fuel as [|k IH]; intros s I; simpl.
  - split; auto. apply set_fuelout_inv; auto.
  - destruct (pop_min (oracle s) (heap s)) as [[[[e r] o] bad]|] eqn:PM; [|auto].
    destruct (due (e_t e) (now s)) eqn:D; [|auto].
    destruct (pop_min_some _ _ _ _ _ _ PM) as [Hmin Hperm].
    destruct (take_key (e_name e) (events s)) as [[f ev']|] eqn:T.
    + pose proof (popped_inv _ _ _ _ _ _ _ I PM D T) as I1.
      pose proof (call_fn_inv f (e_args e) _ I1) as I2.
      destruct (call_fn f (e_args e) (popped e r o bad ev' s)) as [s1 x]. rewrite ?after_call_never. apply IH. exact I2.
    + exfalso. apply take_key_none in T. apply T.
      eapply Permutation_in; [exact (i_names _ I)|]. apply in_map.
      eapply Permutation_in; [apply Permutation_sym; exact Hperm|left; auto].
Qed.

(* a run() whose loop ended by itself leaves nothing due, whatever the events did *)
Lemma run_loop_drains fuel : forall s, INV s ->
  fuelout (fst (run_loop fuel s)) = false ->
  forall e, In e (heap (fst (run_loop fuel s))) -> (now (fst (run_loop fuel s)) <= e_t e)%Z.
Proof.
  induction fuel as [|k IH]; intros s I; simpl.
  - discriminate.
  - destruct (pop_min (oracle s) (heap s)) as [[[[e r] o] bad]|] eqn:PM.
    2:{ simpl. intros _ e He. apply pop_min_none in PM. rewrite PM in He. contradiction. }
    destruct (pop_min_some _ _ _ _ _ _ PM) as [Hmin Hperm].
    destruct (due (e_t e) (now s)) eqn:D.
    2:{ simpl. intros _ e' He'. apply due_false in D; auto using table_strict.
        rewrite is_min_spec in Hmin. specialize (Hmin _ He'). lia. }
    destruct (take_key (e_name e) (events s)) as [[f ev']|] eqn:T.
    + pose proof (popped_inv _ _ _ _ _ _ _ I PM D T) as I1.
      pose proof (call_fn_inv f (e_args e) _ I1) as I2.
      destruct (call_fn f (e_args e) (popped e r o bad ev' s)) as [s1 x]. rewrite ?after_call_never. apply IH. exact I2.
    + exfalso. apply take_key_none in T. apply T.
      eapply Permutation_in; [exact (i_names _ I)|]. apply in_map.
      eapply Permutation_in; [apply Permutation_sym; exact Hperm|left; auto].
Qed.

(* ---- histories ---- *)
Lemma step_inv fuel o s : INV s -> INV (fst (step fuel o s)).
Proof.
  intros I. destruct o; simpl.
  - apply exec_inv; auto.
  - apply run_loop_inv; auto.
  - apply tick_inv; auto.
Qed.

Lemma run_ops_inv fuel ops : forall s, INV s -> INV (run_ops fuel ops s).
Proof.
  induction ops as [|o ops IH]; intros s I; simpl; auto. apply IH. apply step_inv; auto.
Qed.

Definition reach (fuel : nat) (o : list name) (ops : list op) : state := run_ops fuel ops (init o).

Lemma reach_inv fuel o ops : INV (reach fuel o ops).
Proof. apply run_ops_inv. apply init_inv. Qed.
