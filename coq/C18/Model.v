(* C18/Model.v — executable model of src/schedule.py (class Schedule):
   addEvent / removeEvent / rescheduleEvent / makePeriodicWrapper /
   addPeriodicEvent / run, mirrored statement by statement, with the exception
   each primitive raises and the quirks of the code (`return` inside `finally`
   swallows the exception of a periodic function).  rescheduleEvent is the
   repaired one (fix of C18.F17: it passes the entry's args/kwargs on).

   Event functions are terms of a small action language [act] so that events
   which add / remove / reschedule other events, raise, or take time are
   expressible.  The clock (time.time) is a field of the state advanced only by
   explicit inputs (OAdvance, ATick).

   heapq is external.  The heap is a plain bag (list) of entries; heappop takes
   an *oracle* (the stream [oracle] of names the real heappop returned): the
   model follows it whenever it names an entry of minimal time (the contract of
   heapq) and flags [obad] otherwise; with an empty oracle it takes the first
   minimal entry.  Theorems hold for every oracle stream, i.e. for every
   tie-breaking among equal times.

   Fields nsched / e_sid / e_gargs / removed / pops / calls are ghost:
   they record history, never influence control flow (except as outputs).
   No proofs in this file. *)
From Coq Require Import List NArith ZArith Bool.
Import ListNotations.
Require Import Base.Wire Base.PyStr.
Require Export C18.Names.
Require C18.PModel.
Require gen.T18.
Open Scope Z_scope.

(* ---- names, arguments, actions ---- *)
(* name := Auto c | Named k  and name_eqb: C18/Names.v *)

Definition argv : Type := (list N * list (N * N))%type.     (* args, kwargs *)
Definition noargs : argv := ([], []).
Definition argv_empty (a : argv) : bool :=
  match a with ([], []) => true | _ => false end.

Inductive act :=
| ANop
| ARaise                                   (* raise Exception *)
| ATick (d : N)                            (* the function takes d seconds *)
| AAdd (tag : N) (ar : option N) (body : act) (dt : Z) (nm : option N) (av : argv)
                                           (* addEvent(f, now+dt, name, args, kwargs) *)
| APer (tag : N) (ar : option N) (body : act) (period : Z) (nm : option N) (nowf : bool)
       (av : argv) (count : option Z)      (* addPeriodicEvent(f, period, name, now, args, kwargs, count) *)
| ARemove (n : name)
| AResched (n : name) (dt : Z)             (* rescheduleEvent(name, now+dt) *)
| ASeq (a b : act)
| ATry (a : act).                          (* try: a  except Exception: pass *)

(* a user function: registration number (ghost id), tag, arity (None = variadic), body *)
Record ufn := UF { u_reg : N; u_tag : N; u_ar : option N; u_body : act }.
(* what self.events holds: the function itself or the closure `wrapper` *)
Inductive fn :=
| Plain (u : ufn)
| Wrap (u : ufn) (period : Z) (nm : option N) (av : argv) (count : option Z).   (* nm: the user's name, a string *)

Record entry := Ent { e_t : Z; e_name : name; e_args : argv;
                    e_sid : N;          (* ghost: number of this scheduling *)
                    e_gargs : argv }.   (* ghost: arguments the event was registered with *)
Record callrec := CallRec { c_clock : Z; c_reg : N; c_args : argv }.
Record poprec := PopRec { p_clock : Z; p_e : entry; p_before : list entry }.

Record state := St {
  heap : list entry;               (* self.schedule, as a bag *)
  events : list (name * fn);       (* self.events *)
  counter : N;                     (* self.counter *)
  now : Z;                         (* time.time() *)
  nreg : N;                        (* ghost: user functions registered so far *)
  nsched : N;                      (* ghost: successful addEvent calls so far *)
  calls : list callrec;            (* ghost: calls of user functions, newest first *)
  pops : list poprec;              (* ghost: heappops of run(), newest first *)
  removed : list N;                (* ghost: sids dropped by removeEvent *)
  oracle : list name;              (* input: names returned by the real heappop *)
  obad : bool;                     (* the oracle named a non-minimal / absent entry *)
  fuelout : bool                   (* run() loop cut by the fuel bound *)
}.

Definition init (o : list name) : state := St [] [] 0%N 0 0%N 0%N [] [] [] o false false.

Definition set_heap h s := St h (events s) (counter s) (now s) (nreg s) (nsched s) (calls s) (pops s) (removed s) (oracle s) (obad s) (fuelout s).
Definition set_events ev s := St (heap s) ev (counter s) (now s) (nreg s) (nsched s) (calls s) (pops s) (removed s) (oracle s) (obad s) (fuelout s).
Definition bump_counter s := St (heap s) (events s) (counter s + 1)%N (now s) (nreg s) (nsched s) (calls s) (pops s) (removed s) (oracle s) (obad s) (fuelout s).
Definition tick d s := St (heap s) (events s) (counter s) (now s + Z.of_N d) (nreg s) (nsched s) (calls s) (pops s) (removed s) (oracle s) (obad s) (fuelout s).
Definition bump_reg s := St (heap s) (events s) (counter s) (now s) (nreg s + 1)%N (nsched s) (calls s) (pops s) (removed s) (oracle s) (obad s) (fuelout s).
Definition log_call c s := St (heap s) (events s) (counter s) (now s) (nreg s) (nsched s) (c :: calls s) (pops s) (removed s) (oracle s) (obad s) (fuelout s).
Definition set_fuelout s := St (heap s) (events s) (counter s) (now s) (nreg s) (nsched s) (calls s) (pops s) (removed s) (oracle s) (obad s) true.

(* ---- dict primitives on self.events ---- *)
Fixpoint has_key (n : name) (ev : list (name * fn)) : bool :=
  match ev with [] => false | (k, _) :: ev' => name_eqb k n || has_key n ev' end.
(* dict.pop(name) *)
Fixpoint take_key (n : name) (ev : list (name * fn)) : option (fn * list (name * fn)) :=
  match ev with
  | [] => None
  | (k, f) :: ev' =>
      if name_eqb k n then Some (f, ev')
      else match take_key n ev' with Some (g, r) => Some (g, (k, f) :: r) | None => None end
  end.

(* ---- addEvent(f, t, name, args, kwargs) ; [g] is the ghost registered-args ---- *)
Definition push (f : fn) (t : Z) (n : name) (av g : argv) (s : state) : state :=
  St (Ent t n av (nsched s) g :: heap s) ((n, f) :: events s) (counter s) (now s) (nreg s)
    (nsched s + 1)%N (calls s) (pops s) (removed s) (oracle s) (obad s) (fuelout s).

Definition addEvent (f : fn) (t : Z) (nm : option name) (av g : argv) (s : state) : state * res name :=
  let '(n, s1) := match nm with
                  | None => (Auto (counter s), bump_counter s)     (* name = self.counter; self.counter += 1 *)
                  | Some n => (n, s)
                  end in
  if has_key n (events s1) then (s1, Raise AssertionError)        (* assert name not in self.events *)
  else (push f t n av g s1, Ok n).

(* ---- removeEvent(name): returns f ---- *)
Definition named (n : name) (e : entry) : bool := name_eqb (e_name e) n.
Definition drop (n : name) (ev' : list (name * fn)) (s : state) : state :=
  St (filter (fun e => negb (named n e)) (heap s)) ev' (counter s) (now s) (nreg s) (nsched s)
    (calls s) (pops s) (map e_sid (filter (named n) (heap s)) ++ removed s)
    (oracle s) (obad s) (fuelout s).

Definition removeEvent (n : name) (s : state) : state * res fn :=
  match take_key n (events s) with
  | None => (s, Raise KeyError)                                   (* self.events.pop(name) *)
  | Some (f, ev') => (drop n ev' s, Ok f)                         (* listcomp + heapify *)
  end.

(* ---- rescheduleEvent(name, t):
        args = []; kwargs = {}
        for x in self.schedule: if x[1] == name: (args, kwargs) = (x[2], x[3]); break
        f = self.removeEvent(name)
        self.addEvent(f, t, name=name, args=args, kwargs=kwargs)
   (the heap is a bag here: "first entry of that name" is the only one in every reachable state, Lemmas.INV;
    the second component is the ghost registered-args of that entry) ---- *)
Definition lookup_args (n : name) (h : list entry) : argv * argv :=
  match filter (named n) h with
  | e :: _ => (e_args e, e_gargs e)
  | [] => (noargs, noargs)
  end.

Definition reschedule (n : name) (t : Z) (s : state) : state * res unit :=
  let '(av, g) := lookup_args n (heap s) in
  match removeEvent n s with
  | (s1, Raise e) => (s1, Raise e)
  | (s1, Ok f) =>
      match addEvent f t (Some n) av g s1 with
      | (s3, Ok _) => (s3, Ok tt)
      | (s3, Raise e) => (s3, Raise e)
      end
  end.

(* ---- calling a user function: f(..args, ..kwargs) ---- *)
Definition arity_ok (ar : option N) (av : argv) : bool :=
  match ar with
  | None => true
  | Some n => N.eqb (N.of_nat (length (fst av))) n && match snd av with [] => true | _ => false end
  end.

Definition call_user (run_body : state -> state * res unit) (u : ufn) (av : argv) (s : state)
  : state * res unit :=
  let s1 := log_call (CallRec (now s) (u_reg u) av) s in
  if arity_ok (u_ar u) av then run_body s1 else (s1, Raise TypeError).

(* wrapper() of makePeriodicWrapper: try: f(..args, ..kwargs) finally: count -= 1; maybe `return addEvent(...)` *)
Definition recur (count : option Z) : option Z := option_map (fun c => c - 1) count.
Definition recurs (count' : option Z) : bool :=
  match count' with None => true | Some c => 0 <? c end.

Definition wrapper_call (run_body : state -> state * res unit) (u : ufn) (period : Z)
           (nm : option N) (av : argv) (count : option Z) (s : state) : state * res unit :=
  let '(s1, r) := call_user run_body u av s in
  let c' := recur count in
  if recurs c' then
    match addEvent (Wrap u period nm av c') (now s1 + period) (option_map Named nm) noargs noargs s1 with
    | (s2, Ok _) => (s2, if gen.T18.WRAPPER_RETURNS_IN_FINALLY then Ok tt else r)
                                              (* return in finally: the exception of f is swallowed *)
    | (s2, Raise e) => (s2, Raise e)
    end
  else (s1, r).

Definition discard {A} (r : res A) : res unit :=
  match r with Ok _ => Ok tt | Raise e => Raise e end.

(* ---- the action interpreter ---- *)
Fixpoint exec (a : act) (s : state) : state * res unit :=
  match a with
  | ANop => (s, Ok tt)
  | ARaise => (s, Raise OtherError)
  | ATick d => (tick d s, Ok tt)
  | AAdd tag ar body dt nm av =>
      let u := UF (nreg s) tag ar body in
      let '(s2, r) := addEvent (Plain u) (now s + dt) (option_map Named nm) av av (bump_reg s) in
      (s2, discard r)
  | APer tag ar body period nm nowf av count =>
      let u := UF (nreg s) tag ar body in
      if nowf then wrapper_call (exec body) u period nm av count (bump_reg s)
      else let '(s2, r) := addEvent (Wrap u period nm av count) (now s + period) (option_map Named nm) noargs noargs (bump_reg s) in
           (s2, discard r)
  | ARemove n => let '(s1, r) := removeEvent n s in (s1, discard r)
  | AResched n dt => reschedule n (now s + dt) s
  | ASeq a b =>
      match exec a s with
      | (s1, Ok _) => exec b s1
      | (s1, Raise e) => (s1, Raise e)
      end
  | ATry a => (fst (exec a s), Ok tt)
  end.

Definition call_fn (f : fn) (av : argv) (s : state) : state * res unit :=
  match f with
  | Plain u => call_user (exec (u_body u)) u av s
  | Wrap u period nm uav count =>
      (* wrapper takes no parameters: wrapper(..args) with anything is a TypeError *)
      if argv_empty av then wrapper_call (exec (u_body u)) u period nm uav count s
      else (s, Raise TypeError)
  end.

(* ---- heappop with oracle ---- *)
Definition is_min (h : list entry) (e : entry) : bool := forallb (fun e' => e_t e <=? e_t e') h.

Fixpoint take_first (p : entry -> bool) (h : list entry) : option (entry * list entry) :=
  match h with
  | [] => None
  | e :: h' =>
      if p e then Some (e, h')
      else match take_first p h' with Some (x, r) => Some (x, e :: r) | None => None end
  end.

Definition pop_min (o : list name) (h : list entry) : option (entry * list entry * list name * bool) :=
  match o with
  | n :: o' =>
      match take_first (fun e => named n e && is_min h e) h with
      | Some (e, r) => Some (e, r, o', false)
      | None => match take_first (is_min h) h with
                | Some (e, r) => Some (e, r, o', true)
                | None => None
                end
      end
  | [] => match take_first (is_min h) h with
          | Some (e, r) => Some (e, r, [], false)
          | None => None
          end
  end.

(* the loop test self.schedule[0][0] < time.time() *)
Definition due (t clock : Z) : bool := if gen.T18.RUN_CMP_STRICT then t <? clock else t <=? clock.

(* ---- the except handler of run(): log.exception(<template>)  ----
   What the handler evaluates before logging can itself raise: `template % name` (eager interpolation of the event
   name) raises TypeError unless the name supplies exactly as many values as the template has directives -- a name
   that is a tuple supplies len(name) values, any other name one.  (A constant template, or the name passed as a
   logging argument, cannot raise: logging formats lazily and swallows formatting errors.)  The shape of the call is
   regenerated from the source (gen.T18).
   Names: Named k stands for a str for k < 8 (some contain % directives) and for a tuple of k - 8 strs for k >= 8
   (harness/c18.py NAMES); only the number of values matters here. *)
Definition fmt_args (n : name) : N :=
  match n with
  | Auto _ => 1%N
  | Named k => if (k <? 8)%N then 1%N else (k - 8)%N
  end.
Definition handler_raises (n : name) : bool :=
  if gen.T18.RUN_LOG_INTERPOLATES_NAME then negb (N.eqb gen.T18.RUN_LOG_DIRECTIVES (fmt_args n)) else false.
(* after f(..args, ..kwargs) returned r: does run() abort because its own handler raised? *)
Definition after_call (n : name) (r : res unit) : bool :=
  match r with Ok _ => false | Raise _ => handler_raises n end.

Definition popped (e : entry) (r : list entry) (o : list name) (bad : bool) (ev' : list (name * fn)) (s : state) : state :=
  St r ev' (counter s) (now s) (nreg s) (nsched s) (calls s) (PopRec (now s) e (heap s) :: pops s) (removed s)
    o (obad s || bad) (fuelout s).

(* ---- run(): while self.schedule and self.schedule[0][0] < time.time(): pop; call under try/except ---- *)
Fixpoint run_loop (fuel : nat) (s : state) : state * res unit :=
  match fuel with
  | O => (set_fuelout s, Ok tt)
  | S k =>
      match pop_min (oracle s) (heap s) with
      | None => (s, Ok tt)                                  (* schedule empty *)
      | Some (e, r, o, bad) =>
          if due (e_t e) (now s) then
            match take_key (e_name e) (events s) with
            | None => (popped e r o bad (events s) s, Raise KeyError)   (* f = self.events.pop(name), outside the try *)
            | Some (f, ev') =>
                let '(s1, x) := call_fn f (e_args e) (popped e r o bad ev' s) in   (* except Exception: log *)
                if after_call (e_name e) x then (s1, Raise TypeError)               (* the handler itself raised *)
                else run_loop k s1
            end
          else (s, Ok tt)
      end
  end.

(* ---- histories ---- *)
Inductive op := OAct (a : act) | ORun | OAdvance (d : N).

Definition step (fuel : nat) (o : op) (s : state) : state * res unit :=
  match o with
  | OAct a => exec a s
  | ORun => run_loop fuel s
  | OAdvance d => (tick d s, Ok tt)
  end.

Fixpoint run_ops (fuel : nat) (ops : list op) (s : state) : state :=
  match ops with
  | [] => s
  | o :: ops' => run_ops fuel ops' (fst (step fuel o s))
  end.

(* ---- wire ---- *)
Definition vZ (z : Z) : value := I z.
Definition vArgv (a : argv) : value :=
  L [L (map vN (fst a)); L (map (fun kv => L [vN (fst kv); vN (snd kv)]) (snd a))].
Definition vEntry (e : entry) : value := L [vZ (e_t e); vName (e_name e); vArgv (e_args e)].
Definition vCall (c : callrec) : value := L [vZ (c_clock c); vN (c_reg c); vArgv (c_args c)].
Definition vPop (p : poprec) : value := L [vZ (p_clock p); vEntry (p_e p)].
Definition vUnit (_ : unit) : value := L [].
Definition vSnap (r : res unit) (s : state) : value :=
  L [vR vUnit r; L (map vEntry (heap s)); L (map (fun kf => vName (fst kf)) (events s)); vN (counter s); vZ (now s)].

Definition gArgv (a k : value) : argv :=
  (map gN (gL a), map (fun kv => (gN (nth_v 0 kv), gN (nth_v 1 kv))) (gL k)).
Definition gON (v : value) : option N := gO gN v.
Definition gOZ (v : value) : option Z := gO gZ v.

Fixpoint gAct (v : value) : act :=
  match v with
  | L [I 1] => ARaise
  | L [I 2; d] => ATick (gN d)
  | L [I 3; tag; ar; body; dt; nm; a; k] =>
      AAdd (gN tag) (gON ar) (gAct body) (gZ dt) (gON nm) (gArgv a k)
  | L [I 4; tag; ar; body; p; nm; nowf; a; k; cnt] =>
      APer (gN tag) (gON ar) (gAct body) (gZ p) (gON nm) (gB nowf) (gArgv a k) (gOZ cnt)
  | L [I 5; n] => ARemove (gName n)
  | L [I 6; n; dt] => AResched (gName n) (gZ dt)
  | L [I 7; a; b] => ASeq (gAct a) (gAct b)
  | L [I 8; a] => ATry (gAct a)
  | _ => ANop
  end.

Definition gOp (v : value) : op :=
  match gN (nth_v 0 v) with
  | 0%N => OAct (gAct (nth_v 1 v))
  | 1%N => ORun
  | _ => OAdvance (gN (nth_v 1 v))
  end.

Fixpoint run_snaps (fuel : nat) (ops : list op) (s : state) : state * list value :=
  match ops with
  | [] => (s, [])
  | o :: ops' =>
      let '(s1, r) := step fuel o s in
      let '(s2, l) := run_snaps fuel ops' s1 in
      (s2, vSnap r s1 :: l)
  end.

(* run: (fuel oracle ops) -> (snapshots calls pops (obad fuelout)) *)
Definition run_sched (v : value) : value :=
  let fuel := N.to_nat (gN (nth_v 0 v)) in
  let o := map gName (gL (nth_v 1 v)) in
  let ops := map gOp (gL (nth_v 2 v)) in
  let '(s, snaps) := run_snaps fuel ops (init o) in
  L [L snaps; L (map vCall (rev (calls s))); L (map vPop (rev (pops s)));
     L [vB (obad s); vB (fuelout s)]; vN (N.of_nat (length (oracle s)))].

(* dispatcher: ((p) plugin-history) goes to the Scheduler-plugin model (PModel.v), (fuel oracle ops) to the scheduler model *)
Definition run (v : value) : value :=
  match nth_v 0 v with
  | L _ => C18.PModel.prun (nth_v 1 v)
  | I _ => run_sched v
  end.
