(* C18/Names.v — event names shared by the scheduler model (Model.v) and the Scheduler-plugin model (PModel.v) *)
From Coq Require Import List NArith ZArith Bool.
Import ListNotations.
Require Import Base.Wire.

Inductive name := Auto (c : N) | Named (k : N).   (* int from self.counter | user string (or tuple) *)
Definition name_eqb (a b : name) : bool :=
  match a, b with
  | Auto x, Auto y => N.eqb x y
  | Named x, Named y => N.eqb x y
  | _, _ => false
  end.

Definition vName (n : name) : value :=
  match n with Auto c => L [I 0%Z; vN c] | Named k => L [I 1%Z; vN k] end.
Definition gName (v : value) : name :=
  match gN (nth_v 0 v) with 0%N => Auto (gN (nth_v 1 v)) | _ => Named (gN (nth_v 1 v)) end.
