(* C18/PModel.v — executable model of plugins/Scheduler/plugin.py on top of an abstract scheduler: the event-id
   handling of _add / _repeat / remove / die (pickle) / _restoreEvents across an in-process reload of the plugin and
   across a restart of the bot.  The scheduler is abstracted to what Props.C18_reentrant guarantees of it: a bag of
   entries with unique names, addEvent refusing a name that is scheduled (AssertionError), a counter for automatic
   ids; run() fires the due entries by due time.  Names: Auto n is the int id n (dict key str(n)), Named k a repeat name.
   Every scheduled function is a closure of ONE plugin instance (generation s_gen): a one-shot closure deletes its key
   from the dict of ITS instance.  No proofs in this file. *)
From Coq Require Import List NArith ZArith Bool.
Import ListNotations.
Require Import Base.Wire Base.PyStr C18.Names.
Require gen.T18.
Open Scope Z_scope.

Inductive pev :=
| PSingle (t : Z) (cmd : N) (rem : bool)             (* {'type': 'single', 'time': t, 'command': .., 'is_reminder': ..} *)
| PRepeat (period : Z) (cmd : N) (first : Z).        (* {'type': 'repeat', 'time': period, 'command': .., 'first_run': ..} *)
Definition pcmd (e : pev) : N := match e with PSingle _ c _ => c | PRepeat _ c _ => c end.

Record sent := SE { s_t : Z; s_name : name; s_gen : N; s_cmd : N; s_rem : bool; s_period : option Z }.  (* None: one-shot *)

Record pst := PS {
  p_sched : list sent;              (* supybot.schedule: entries of this plugin's closures *)
  p_counter : N;                    (* schedule.schedule.counter *)
  p_now : Z;
  p_gen : N;                        (* which instance of the plugin is loaded *)
  p_dict : list (name * pev);       (* self.events of the loaded instance, in insertion order *)
  p_pickle : list (name * pev);     (* Scheduler.pickle *)
  p_ncmd : N;                       (* ghost: user requests so far (each gets a fresh command text) *)
  p_log : list (Z * N);             (* ghost: (clock, command) executed, newest first *)
  p_loaded : bool;                  (* an instance of the plugin is loaded *)
  p_done : list N;                  (* ghost: one-shot requests whose function fired (entry consumed, dict entry deleted), newest first *)
  p_ign : bool;
  p_bad : list N }.                 (* input: requests whose command text does not tokenize (SyntaxError in f) *)                   (* input: the user who scheduled the events is ignored now (ircdb.checkIgnored) *)

Definition pinit : pst := PS [] 0%N 0 0%N [] [] 0%N [] true [] false [].

Definition set_sched x s := PS x (p_counter s) (p_now s) (p_gen s) (p_dict s) (p_pickle s) (p_ncmd s) (p_log s) (p_loaded s) (p_done s) (p_ign s) (p_bad s).
Definition set_dict x s := PS (p_sched s) (p_counter s) (p_now s) (p_gen s) x (p_pickle s) (p_ncmd s) (p_log s) (p_loaded s) (p_done s) (p_ign s) (p_bad s).

Fixpoint dhas (k : name) (d : list (name * pev)) : bool :=
  match d with [] => false | (k', _) :: d' => name_eqb k' k || dhas k d' end.
Fixpoint dset (k : name) (v : pev) (d : list (name * pev)) : list (name * pev) :=
  match d with
  | [] => [(k, v)]
  | (k', v') :: d' => if name_eqb k' k then (k, v) :: d' else (k', v') :: dset k v d'
  end.
Definition ddel (k : name) (d : list (name * pev)) : list (name * pev) :=
  filter (fun kv => negb (name_eqb (fst kv) k)) d.

Definition shas (n : name) (l : list sent) : bool := existsb (fun e => name_eqb (s_name e) n) l.

(* schedule.addEvent(f, t, name) *)
Definition s_add (t : Z) (nm : option name) (cmd : N) (rem : bool) (period : option Z) (s : pst) : pst * res name :=
  let '(n, s1) := match nm with
                  | None => (Auto (p_counter s), PS (p_sched s) (p_counter s + 1)%N (p_now s) (p_gen s) (p_dict s) (p_pickle s) (p_ncmd s) (p_log s) (p_loaded s) (p_done s) (p_ign s) (p_bad s))
                  | Some n => (n, s)
                  end in
  if shas n (p_sched s1) then (s1, Raise AssertionError)
  else (set_sched (SE t n (p_gen s1) cmd rem period :: p_sched s1) s1, Ok n).

(* _add(network, msg, t, command, is_reminder, name): id = schedule.addEvent(f, t, name); self.events[str(id)] = {...} *)
Definition p_add (t : Z) (cmd : N) (rem : bool) (nm : option name) (s : pst) : pst * res name :=
  match s_add t nm cmd rem None s with
  | (s1, Ok id) => (set_dict (dset id (PSingle t cmd rem) (p_dict s1)) s1, Ok id)
  | (s1, Raise e) => (s1, Raise e)
  end.

(* _repeat(network, msg, name, seconds, command, first_run, next_run_in) *)
Definition p_repeat (n : name) (period : Z) (cmd : N) (first nri : Z) (s : pst) : pst * res unit :=
  match s_add (p_now s + nri) (Some n) cmd false (Some period) s with
  | (s1, Ok _) => (set_dict (dset n (PRepeat period cmd first) (p_dict s1)) s1, Ok tt)
  | (s1, Raise e) => (s1, Raise e)
  end.

Definition fresh_cmd (s : pst) : N * pst :=
  (p_ncmd s, PS (p_sched s) (p_counter s) (p_now s) (p_gen s) (p_dict s) (p_pickle s) (p_ncmd s + 1)%N (p_log s) (p_loaded s) (p_done s) (p_ign s) (p_bad s)).

(* die(): _flush() pickles self.events; then (repaired plugin, C18.F24) every event of self.events is removed from the
   schedule:  for (name, event) in self.events.items(): schedule.removeEvent(int(name) | name), KeyError ignored.
   [unsched] says whether die() does that: the regenerated table for the code, false for the plugin before the repair. *)
Definition p_die_with (unsched : bool) (s : pst) : pst :=
  PS (if unsched then filter (fun e => negb (dhas (s_name e) (p_dict s))) (p_sched s) else p_sched s)
     (p_counter s) (p_now s) (p_gen s) (p_dict s) (p_dict s) (p_ncmd s) (p_log s) false (p_done s) (p_ign s) (p_bad s).

Definition key_int (k : name) : option N := match k with Auto n => Some n | Named _ => None end.

(* _getNextRunIn(first_run, now, period, not_right_now=True) *)
Definition next_run_in (first now period : Z) : Z :=
  let r := period - ((now - first) mod period) in if r <? 5 then r + period else r.

(* one iteration of the loop of _restoreEvents, with its `except AssertionError` *)
Definition restore_one (s : pst) (kv : name * pev) : pst :=
  let '(k, ev) := kv in
  match ev with
  | PSingle t cmd rem =>
      let n := match key_int k with
               | Some i => if (i <? p_counter s)%N                                  (* schedule.counter > int(name) *)
                              && (negb gen.T18.RESTORE_CHECKS_FREE || negb (shas (Auto i) (p_sched s)))   (* and int(name) not in schedule.events *)
                           then Some (Auto i) else None
               | None => None
               end in
      let passed := if gen.T18.RESTORE_PASSES_ID then n else None in
      match p_add t cmd rem passed s with
      | (s1, Ok _) => s1
      | (s1, Raise _) => set_dict (dset k ev (p_dict s1)) s1            (* still scheduled: self.events[name] = event *)
      end
  | PRepeat period cmd first =>
      match p_repeat k period cmd first (next_run_in first (p_now s) period) s with
      | (s1, Ok _) => s1
      | (s1, Raise _) => set_dict (dset k ev (p_dict s1)) s1
      end
  end.

(* a new instance: __init__: self.events = {}; _restoreEvents *)
Definition p_load (s : pst) : pst :=
  fold_left restore_one (p_pickle s)
            (PS (p_sched s) (p_counter s) (p_now s) (p_gen s + 1)%N [] (p_pickle s) (p_ncmd s) (p_log s) true (p_done s) (p_ign s) (p_bad s)).

(* a scheduled function fires *)
Definition p_fire (e : sent) (s : pst) : pst :=
  (* the function fires; when the code checks `self._isIgnored(msg)` and the user is ignored now, its effect (running the
     command, sending the reminder) is suppressed -- the one-shot still leaves self.events, the repeat still recurs *)
  let bad := existsb (N.eqb (s_cmd e)) (p_bad s) && negb (s_rem e) in       (* callbacks.tokenize(command) raises SyntaxError *)
  let suppressed := (gen.T18.FIRE_CHECKS_IGNORED && p_ign s) || bad in
  let logged := PS (p_sched s) (p_counter s) (p_now s) (p_gen s) (p_dict s) (p_pickle s) (p_ncmd s)
                   (if suppressed then p_log s else (p_now s, s_cmd e) :: p_log s) (p_loaded s)
                   (match s_period e with None => s_cmd e :: p_done s | Some _ => p_done s end) (p_ign s) (p_bad s) in
  match s_period e with
  | Some period =>                                        (* wrapper: f(); addEvent(wrapper, time.time() + t, name) *)
      set_sched (SE (p_now s + period) (s_name e) (s_gen e) (s_cmd e) false (Some period) :: p_sched logged) logged
  | None =>
      if bad && negb gen.T18.DELETE_BEFORE_TOKENIZE then s       (* the SyntaxError comes before `del self.events[...]`: the entry stays listed *)
      else
      if N.eqb (s_gen e) (p_gen s) then
        (* del self.events[str(f.eventId)] -- before running the command, after sending the reminder *)
        if dhas (s_name e) (p_dict s) then set_dict (ddel (s_name e) (p_dict s)) logged
        else if s_rem e then logged else s                (* KeyError: a command is not run, a reminder was already sent *)
      else logged                                          (* the closure of a dead instance deletes from the dead dict *)
  end.

Definition is_smin (l : list sent) (e : sent) : bool := forallb (fun e' => s_t e <=? s_t e') l.
Fixpoint stake (p : sent -> bool) (l : list sent) : option (sent * list sent) :=
  match l with
  | [] => None
  | e :: l' => if p e then Some (e, l')
               else match stake p l' with Some (x, r) => Some (x, e :: r) | None => None end
  end.

Fixpoint p_loop (fuel : nat) (s : pst) : pst :=
  match fuel with
  | O => s
  | S k =>
      match stake (is_smin (p_sched s)) (p_sched s) with
      | None => s
      | Some (e, rest) => if s_t e <? p_now s then p_loop k (p_fire e (set_sched rest s)) else s
      end
  end.

Inductive pop :=
| QAdd (secs : Z) | QRemind (secs : Z) | QRepeat (k : N) (period delay : Z) | QRemove (key : name)
| QReload | QRestart | QAdvance (d : N) | QRun | QUnload | QLoad | QIgnore (b : bool) | QAddBad (secs : Z).

(* commands exist only while the plugin is loaded; unload = die(); load = a new instance reading the pickle;
   reload = unload + load; restart = die(), a new process (empty schedule, counter 0), load *)
Definition pstep_with (unsched : bool) (o : pop) (s : pst) : pst :=
  match o with
  | QAdd secs => if p_loaded s then let '(c, s1) := fresh_cmd s in fst (p_add (p_now s + secs) c false None s1) else snd (fresh_cmd s)
  | QRemind secs => if p_loaded s then let '(c, s1) := fresh_cmd s in fst (p_add (p_now s + secs) c true None s1) else snd (fresh_cmd s)
  | QRepeat k period delay =>
      let '(c, s1) := fresh_cmd s in
      if negb (p_loaded s) || dhas (Named k) (p_dict s1) then s1      (* 'There is already an event with that name' *)
      else fst (p_repeat (Named k) period c (p_now s + delay) delay s1)
  | QRemove key =>
      if p_loaded s && dhas key (p_dict s) then
        let s1 := set_dict (ddel key (p_dict s)) s in
        set_sched (filter (fun e => negb (name_eqb (s_name e) key)) (p_sched s1)) s1
      else s
  | QUnload => if p_loaded s then p_die_with unsched s else s
  | QLoad => if p_loaded s then s else p_load s
  | QReload => if p_loaded s then p_load (p_die_with unsched s) else s
  | QRestart =>
      let s1 := if p_loaded s then p_die_with unsched s else s in
      p_load (PS [] 0%N (p_now s1) (p_gen s1) (p_dict s1) (p_pickle s1) (p_ncmd s1) (p_log s1) false (p_done s1) (p_ign s1) (p_bad s1))
  | QAdvance d => PS (p_sched s) (p_counter s) (p_now s + Z.of_N d) (p_gen s) (p_dict s) (p_pickle s) (p_ncmd s) (p_log s) (p_loaded s) (p_done s) (p_ign s) (p_bad s)
  | QRun => p_loop (Datatypes.S (length (p_sched s))) s
  | QIgnore b => PS (p_sched s) (p_counter s) (p_now s) (p_gen s) (p_dict s) (p_pickle s) (p_ncmd s) (p_log s) (p_loaded s) (p_done s) b (p_bad s)
  | QAddBad secs =>
      let s0 := PS (p_sched s) (p_counter s) (p_now s) (p_gen s) (p_dict s) (p_pickle s) (p_ncmd s) (p_log s) (p_loaded s) (p_done s) (p_ign s) (p_ncmd s :: p_bad s) in
      if p_loaded s0 then let '(c, s1) := fresh_cmd s0 in fst (p_add (p_now s0 + secs) c false None s1) else snd (fresh_cmd s0)
  end.

Definition pstep := pstep_with gen.T18.DIE_UNSCHEDULES.

Fixpoint prun_ops_with (u : bool) (ops : list pop) (s : pst) : pst :=
  match ops with [] => s | o :: ops' => prun_ops_with u ops' (pstep_with u o s) end.
Definition prun_ops := prun_ops_with gen.T18.DIE_UNSCHEDULES.

(* ---- wire ---- *)
Definition vPev (kv : name * pev) : value :=
  match snd kv with
  | PSingle t c rem => L [vName (fst kv); I 0; I t; vN c; vB rem]
  | PRepeat p c f => L [vName (fst kv); I 1; I p; vN c; I f]
  end.
Definition vSent (e : sent) : value := L [I (s_t e); vName (s_name e)].
Definition vPSnap (s : pst) : value :=
  L [L (map vPev (if p_loaded s then p_dict s else [])); L (map vSent (p_sched s)); vN (p_counter s); I (p_now s);
     L (map (fun x => L [I (fst x); vN (snd x)]) (p_log s))].

Definition gPop (v : value) : pop :=
  match gN (nth_v 0 v) with
  | 0%N => QAdd (gZ (nth_v 1 v))
  | 1%N => QRemind (gZ (nth_v 1 v))
  | 2%N => QRepeat (gN (nth_v 1 v)) (gZ (nth_v 2 v)) (gZ (nth_v 3 v))
  | 3%N => QRemove (gName (nth_v 1 v))
  | 4%N => QReload
  | 5%N => QRestart
  | 6%N => QAdvance (gN (nth_v 1 v))
  | 8%N => QUnload
  | 9%N => QLoad
  | 10%N => QIgnore (gB (nth_v 1 v))
  | 11%N => QAddBad (gZ (nth_v 1 v))
  | _ => QRun
  end.

Fixpoint prun_snaps (ops : list pop) (s : pst) : list value :=
  match ops with [] => [] | o :: ops' => let s1 := pstep o s in vPSnap s1 :: prun_snaps ops' s1 end.

Definition prun (v : value) : value := L (prun_snaps (map gPop (gL v)) pinit).
