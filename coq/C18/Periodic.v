(* C18/Periodic.v — counting the firings of periodic events over whole histories.
   A user function is identified by its registration number (u_reg, assigned by nreg when addEvent /
   addPeriodicEvent is called).  [nc r s] = number of invocations of registration r logged in s.
   - still:  a registration that is in nobody's hands (not in self.events) is never invoked again;
   - PB:     for a periodic registration r with count n, invocations + remaining count = max n 1 while it is
             pending, and invocations <= max n 1 always. *)
From Coq Require Import List NArith ZArith Bool Lia ZifyBool Permutation.
Import ListNotations.
Require Import Base.Wire Base.PyStr C18.Model C18.Aux C18.Lemmas.

Definition reg_of (f : fn) : N := match f with Plain u => u_reg u | Wrap u _ _ _ _ => u_reg u end.
Definition eregs (s : state) : list N := map (fun kf => reg_of (snd kf)) (events s).
Definition nc (r : N) (s : state) : Z := Z.of_nat (count_occ N.eq_dec (map c_reg (calls s)) r).
Definition cap (n : Z) : Z := Z.max n 1.

(* ---- shape lemmas of the primitives: what they do to events / calls / nreg ---- *)
Lemma take_key_perm n ev f ev' : take_key n ev = Some (f, ev') -> Permutation ev ((n, f) :: ev').
Proof.
  revert f ev'. induction ev as [|[k g] ev IH]; simpl; intros f ev' H; [discriminate|].
  destruct (name_eqb k n) eqn:E.
  - apply name_eqb_eq in E. inversion H; subst. reflexivity.
  - destruct (take_key n ev) as [[g' r]|]; [|discriminate]. inversion H; subst.
    rewrite (IH _ _ eq_refl). apply perm_swap.
Qed.

Lemma addEvent_shape f t nm av g s :
  let s' := fst (addEvent f t nm av g s) in
  calls s' = calls s /\ nreg s' = nreg s /\ (events s' = events s \/ exists n, events s' = (n, f) :: events s).
Proof.
  unfold addEvent. destruct nm as [n|].
  - destruct (has_key n (events s)); simpl; auto. repeat split; auto. right. eexists; reflexivity.
  - destruct (has_key (Auto (counter s)) (events (bump_counter s))); simpl; auto.
    repeat split; auto. right. eexists; reflexivity.
Qed.

Lemma removeEvent_shape n s :
  let s' := fst (removeEvent n s) in
  calls s' = calls s /\ nreg s' = nreg s /\
  match snd (removeEvent n s) with
  | Ok f => Permutation (events s) ((n, f) :: events s')
  | Raise _ => s' = s
  end.
Proof.
  unfold removeEvent. destruct (take_key n (events s)) as [[f ev']|] eqn:T; simpl; auto.
  repeat split; auto. apply take_key_perm; auto.
Qed.

Lemma nc_ext r s s' : calls s' = calls s -> nc r s' = nc r s.
Proof. unfold nc. intros ->. reflexivity. Qed.

Lemma nc_log r c s : nc r (log_call c s) = (if N.eqb (c_reg c) r then nc r s + 1 else nc r s)%Z.
Proof.
  unfold nc. simpl. destruct (N.eq_dec (c_reg c) r) as [E|E].
  - rewrite (proj2 (N.eqb_eq _ _) E). lia.
  - rewrite (proj2 (N.eqb_neq _ _) E). reflexivity.
Qed.

Lemma nc_fresh r s : (forall c, In c (calls s) -> (c_reg c < nreg s)%N) -> (nreg s <= r)%N -> nc r s = 0%Z.
Proof.
  intros H L. unfold nc. rewrite (proj1 (count_occ_not_In N.eq_dec _ _)); auto.
  intro X. apply in_map_iff in X. destruct X as [c [E Hc]]. specialize (H c Hc). lia.
Qed.

Lemma eregs_perm s kf ev' : Permutation (events s) (kf :: ev') ->
  Permutation (eregs s) (reg_of (snd kf) :: map (fun kf => reg_of (snd kf)) ev').
Proof. intros P. unfold eregs. rewrite P. reflexivity. Qed.

(* =====================  still: an absent registration stays absent and silent  ===================== *)
Definition absent (r : N) (s : state) : Prop := (r < nreg s)%N /\ ~ In r (eregs s).
Definition still (r : N) (s s' : state) : Prop := absent r s -> absent r s' /\ nc r s' = nc r s.
Definition stills (r : N) (rb : state -> state * res unit) : Prop := forall s, still r s (fst (rb s)).

Lemma still_refl r s : still r s s.
Proof. intros A. auto. Qed.
Lemma still_trans r a b c : still r a b -> still r b c -> still r a c.
Proof. intros H1 H2 A. destruct (H1 A) as [B E]. destruct (H2 B) as [C E2]. split; auto. congruence. Qed.

Lemma still_ext r s s' :
  events s' = events s -> calls s' = calls s -> (nreg s <= nreg s')%N -> still r s s'.
Proof.
  intros E C L [A1 A2]. unfold absent, eregs. rewrite E. split; [split; [lia|exact A2]|apply nc_ext; auto].
Qed.

Lemma still_addEvent r f t nm av g s : reg_of f <> r -> still r s (fst (addEvent f t nm av g s)).
Proof.
  intros Hr [A1 A2]. destruct (addEvent_shape f t nm av g s) as (C & N & E).
  split; [split|]; [lia| |apply nc_ext; auto].
  unfold eregs in *. destruct E as [E|[n E]]; rewrite E; simpl; auto. intros [X|X]; auto.
Qed.

Lemma still_removeEvent r n s : still r s (fst (removeEvent n s)).
Proof.
  intros [A1 A2]. destruct (removeEvent_shape n s) as (C & N & E).
  split; [split|]; [lia| |apply nc_ext; auto].
  destruct (snd (removeEvent n s)) as [f|e]; [|rewrite E; auto].
  intro X. apply A2. eapply Permutation_in; [apply Permutation_sym; apply (eregs_perm _ _ _ E)|]. right. exact X.
Qed.

(* the function handed back by removeEvent was in self.events *)
Lemma removeEvent_in n s f : snd (removeEvent n s) = Ok f -> In (n, f) (events s).
Proof.
  unfold removeEvent. destruct (take_key n (events s)) as [[g ev']|] eqn:T; simpl; [|discriminate].
  intros E. inversion E; subst. apply (take_key_some _ _ _ _ T).
Qed.

Lemma in_eregs k f s : In (k, f) (events s) -> In (reg_of f) (eregs s).
Proof. intros H. unfold eregs. apply in_map_iff. exists (k, f). auto. Qed.

Lemma still_reschedule r n t s : still r s (fst (reschedule n t s)).
Proof.
  unfold reschedule. destruct (lookup_args n (heap s)) as [av g].
  pose proof (still_removeEvent r n s) as S1. pose proof (removeEvent_in n s) as Hin.
  destruct (removeEvent n s) as [s1 [f|e]]; simpl in *; auto.
  intros A. destruct (S1 A) as [A1 E1].
  assert (Hr : reg_of f <> r).
  { intro X. destruct A as [_ A]. apply A. rewrite <- X. eapply in_eregs. apply Hin. reflexivity. }
  pose proof (still_addEvent r f t (Some n) av g s1 Hr A1) as [A2 E2].
  destruct (addEvent f t (Some n) av g s1) as [s3 [x|e]]; simpl in *; split; auto; congruence.
Qed.

Lemma still_log r c s : c_reg c <> r -> still r s (log_call c s).
Proof.
  intros Hr [A1 A2]. split; [split; auto|]. rewrite nc_log. rewrite (proj2 (N.eqb_neq _ _) Hr). reflexivity.
Qed.

Lemma still_call_user r rb u av s : u_reg u <> r -> stills r rb -> still r s (fst (call_user rb u av s)).
Proof.
  intros Hr Hb. unfold call_user. destruct (arity_ok (u_ar u) av); simpl.
  - eapply still_trans; [exact (still_log r (CallRec (now s) (u_reg u) av) s Hr)|apply Hb].
  - exact (still_log r (CallRec (now s) (u_reg u) av) s Hr).
Qed.

Lemma still_wrapper r rb u p nm av cnt s :
  u_reg u <> r -> stills r rb -> still r s (fst (wrapper_call rb u p nm av cnt s)).
Proof.
  intros Hr Hb. unfold wrapper_call.
  pose proof (still_call_user r rb u av s Hr Hb) as S1.
  destruct (call_user rb u av s) as [s1 x]. simpl in S1.
  destruct (recurs (recur cnt)); simpl; auto.
  pose proof (still_addEvent r (Wrap u p nm av (recur cnt)) (now s1 + p) (option_map Named nm) noargs noargs s1 Hr) as S2.
  destruct (addEvent _ _ _ _ _ s1) as [s2 [y|e]]; simpl in *; eapply still_trans; eauto.
Qed.

Lemma still_exec r a : stills r (exec a).
Proof.
  induction a; intros s; simpl; try apply still_refl.
  - apply still_ext; simpl; auto; lia.
  - intros A. assert (Hr : nreg s <> r) by (destruct A; lia).
    pose proof (still_addEvent r (Plain (UF (nreg s) tag ar a)) (now s + dt) (option_map Named nm) av av (bump_reg s) Hr) as S2.
    destruct (addEvent _ _ _ _ _ (bump_reg s)) as [s2 x]. simpl in *.
    eapply still_trans; [|exact S2| exact A]. apply still_ext; simpl; auto; lia.
  - intros A. assert (Hr : nreg s <> r) by (destruct A; lia).
    assert (S0 : still r s (bump_reg s)) by (apply still_ext; simpl; auto; lia).
    destruct nowf.
    + eapply still_trans; [exact S0| |exact A]. apply still_wrapper; auto.
    + pose proof (still_addEvent r (Wrap (UF (nreg s) tag ar a) period nm av count) (now s + period) (option_map Named nm)
                    noargs noargs (bump_reg s) Hr) as S2.
      destruct (addEvent _ _ _ _ _ (bump_reg s)) as [s2 x]. simpl in *. eapply still_trans; [exact S0|exact S2|exact A].
  - pose proof (still_removeEvent r n s) as S1. destruct (removeEvent n s) as [s1 x]. exact S1.
  - apply still_reschedule.
  - specialize (IHa1 s). destruct (exec a1 s) as [s1 [x|e]]; simpl in *; auto.
    eapply still_trans; [exact IHa1|apply IHa2].
  - apply IHa.
Qed.

Lemma still_call_fn r f av s : reg_of f <> r -> still r s (fst (call_fn f av s)).
Proof.
  intros Hr. destruct f as [u|u p nm uav cnt]; simpl in *.
  - apply still_call_user; auto. apply still_exec.
  - destruct (argv_empty av); simpl; [|apply still_refl]. apply still_wrapper; auto. apply still_exec.
Qed.

Lemma still_run_loop r fuel : forall s, still r s (fst (run_loop fuel s)).
Proof.
  induction fuel as [|k IH]; intros s; simpl.
  - apply still_ext; simpl; auto; lia.
  - destruct (pop_min (oracle s) (heap s)) as [[[[e rr] o] bad]|]; [|apply still_refl].
    destruct (due (e_t e) (now s)); [|apply still_refl].
    destruct (take_key (e_name e) (events s)) as [[f ev']|] eqn:T.
    + intros A.
      assert (Hr : reg_of f <> r).
      { intro X. destruct A as [_ A]. apply A. rewrite <- X. eapply in_eregs. apply (take_key_some _ _ _ _ T). }
      assert (S1 : still r s (popped e rr o bad ev' s)).
      { intros [A1 A2]. split; [split; auto|apply nc_ext; auto].
        intro X. apply A2. eapply Permutation_in; [apply Permutation_sym; apply (eregs_perm _ _ _ (take_key_perm _ _ _ _ T))|].
        right. exact X. }
      pose proof (still_call_fn r f (e_args e) (popped e rr o bad ev' s) Hr) as S2.
      destruct (call_fn f (e_args e) (popped e rr o bad ev' s)) as [s1 x]. rewrite ?after_call_never. simpl in *.
      eapply still_trans; [exact S1| |exact A]. eapply still_trans; [exact S2|apply IH].
    + simpl. apply still_ext; simpl; auto; lia.
Qed.

Lemma still_run_ops r fuel ops : forall s, still r s (run_ops fuel ops s).
Proof.
  induction ops as [|o ops IH]; intros s; simpl; [apply still_refl|].
  eapply still_trans; [|apply IH]. destruct o; simpl.
  - apply still_exec. - apply still_run_loop. - apply still_ext; simpl; auto; lia.
Qed.

(* =====================  PB: registrations are unique; the count of a periodic registration  ===================== *)
Definition holder_ok (r : N) (M : Z) (s : state) (f : fn) : Prop :=
  reg_of f = r -> exists u p nm av c, f = Wrap u p nm av (Some c) /\ (nc r s + cap c = M)%Z.

Definition Rinv (s : state) : Prop :=
  (forall x, In x (eregs s) -> (x < nreg s)%N) /\ NoDup (eregs s) /\ (forall c, In c (calls s) -> (c_reg c < nreg s)%N).

(* o = None: only the registration discipline; o = Some (r, M): also the count of registration r *)
Definition PB (o : option (N * Z)) (s : state) : Prop :=
  Rinv s /\
  match o with
  | None => True
  | Some (r, M) => (r < nreg s)%N /\ (nc r s <= M)%Z /\ forall k f, In (k, f) (events s) -> holder_ok r M s f
  end.

Definition pres (o : option (N * Z)) (rb : state -> state * res unit) : Prop := forall s, PB o s -> PB o (fst (rb s)).

Lemma PB_ext o s s' :
  events s' = events s -> calls s' = calls s -> nreg s' = nreg s -> PB o s -> PB o s'.
Proof.
  intros E C N [(R1 & R2 & R3) H]. unfold PB, Rinv, eregs, holder_ok, nc in *. rewrite E, C, N. split; auto.
Qed.

Lemma PB_bump_reg o s : PB o s -> PB o (bump_reg s).
Proof.
  intros [(R1 & R2 & R3) H]. split.
  - repeat split; simpl; auto; intros x Hx; [specialize (R1 x Hx)|specialize (R3 x Hx)]; unfold eregs in *; simpl in *; lia.
  - destruct o as [[r M]|]; auto. destruct H as (A & B & C). repeat split; auto. simpl; lia.
Qed.

(* events shrink by one binding *)
Lemma PB_shrink o s s' kf :
  Permutation (events s) (kf :: events s') -> calls s' = calls s -> nreg s' = nreg s -> PB o s -> PB o s'.
Proof.
  intros P C N [(R1 & R2 & R3) H].
  assert (P2 := eregs_perm _ _ _ P). fold (eregs s') in P2.
  split.
  - repeat split.
    + intros x Hx. rewrite N. apply R1. eapply Permutation_in; [apply Permutation_sym; exact P2|right; auto].
    + pose proof (Permutation_NoDup P2 R2) as ND. inversion ND; auto.
    + rewrite C, N. exact R3.
  - destruct o as [[r M]|]; auto. destruct H as (A & B & D). rewrite N. unfold nc in *. rewrite C. repeat split; auto.
    intros k f Hin. specialize (D k f). unfold holder_ok, nc in *. rewrite C. apply D.
    eapply Permutation_in; [apply Permutation_sym; exact P|right; auto].
Qed.

(* a binding is added to self.events *)
Lemma PB_grow o s s' n f :
  events s' = (n, f) :: events s -> calls s' = calls s -> nreg s' = nreg s ->
  absent (reg_of f) s -> (forall r M, o = Some (r, M) -> holder_ok r M s f) -> PB o s -> PB o s'.
Proof.
  intros E C N [A1 A2] Hf [(R1 & R2 & R3) H]. split.
  - unfold Rinv, eregs in *. rewrite E, C, N. simpl. repeat split; auto.
    + intros x [<-|Hx]; auto.
    + constructor; auto.
  - destruct o as [[r M]|]; auto. destruct H as (A & B & D). rewrite N. unfold nc in *. rewrite C. repeat split; auto.
    intros k g Hin. rewrite E in Hin. unfold holder_ok, nc in *. rewrite C. destruct Hin as [X|X].
    + inversion X; subst. apply (Hf r M eq_refl).
    + apply (D k g X).
Qed.

Lemma PB_addEvent o f t nm av g s :
  absent (reg_of f) s -> (forall r M, o = Some (r, M) -> holder_ok r M s f) -> PB o s ->
  PB o (fst (addEvent f t nm av g s)).
Proof.
  intros A Hf H. destruct (addEvent_shape f t nm av g s) as (C & N & [E|[n E]]).
  - eapply PB_ext; eauto.
  - eapply PB_grow; eauto.
Qed.

Lemma PB_removeEvent o n s : PB o s -> PB o (fst (removeEvent n s)).
Proof.
  intros H. destruct (removeEvent_shape n s) as (C & N & E).
  destruct (snd (removeEvent n s)) as [f|e]; [|rewrite E; auto].
  eapply PB_shrink; eauto.
Qed.

(* after a binding (n, f) left self.events, f's registration is absent *)
Lemma absent_after_shrink s s' n f :
  Rinv s -> Permutation (events s) ((n, f) :: events s') -> nreg s' = nreg s -> absent (reg_of f) s'.
Proof.
  intros (R1 & R2 & R3) P N. assert (P2 := eregs_perm _ _ _ P). fold (eregs s') in P2. simpl in P2.
  pose proof (Permutation_NoDup P2 R2) as ND. inversion ND; subst. split; auto.
  rewrite N. apply R1. eapply Permutation_in; [apply Permutation_sym; exact P2|left; auto].
Qed.

Lemma PB_reschedule o n t s : PB o s -> PB o (fst (reschedule n t s)).
Proof.
  intros H. unfold reschedule. destruct (lookup_args n (heap s)) as [av g].
  pose proof (PB_removeEvent o n s H) as H1. pose proof (removeEvent_in n s) as Hin.
  destruct (removeEvent_shape n s) as (C & N & E).
  destruct (removeEvent n s) as [s1 [f|e]]; simpl in *; auto.
  specialize (Hin f eq_refl).
  assert (A : absent (reg_of f) s1) by (eapply absent_after_shrink; eauto; apply H).
  assert (Hf : forall r M, o = Some (r, M) -> holder_ok r M s1 f).
  { intros r M ->. destruct H as [_ (_ & _ & D)]. specialize (D n f Hin). unfold holder_ok, nc in *. rewrite C. exact D. }
  pose proof (PB_addEvent o f t (Some n) av g s1 A Hf H1) as H2.
  destruct (addEvent f t (Some n) av g s1) as [s3 [x|e]]; exact H2.
Qed.

Lemma PB_log o c s :
  absent (c_reg c) s -> (forall r M, o = Some (r, M) -> c_reg c = r -> (nc r s + 1 <= M)%Z) -> PB o s -> PB o (log_call c s).
Proof.
  intros [A1 A2] Hc [(R1 & R2 & R3) H]. split.
  - repeat split; auto. intros x [<-|Hx]; auto.
  - destruct o as [[r M]|]; auto. destruct H as (A & B & D). rewrite nc_log.
    destruct (N.eqb (c_reg c) r) eqn:E.
    + apply N.eqb_eq in E. repeat split; auto. intros k f Hin Hr. exfalso. apply A2. rewrite E, <- Hr. eapply in_eregs; eauto.
    + repeat split; auto. intros k f Hin. specialize (D k f Hin). unfold holder_ok in *. rewrite nc_log, E. exact D.
Qed.

Lemma PB_call_user o rb u av s :
  absent (u_reg u) s -> (forall r M, o = Some (r, M) -> u_reg u = r -> (nc r s + 1 <= M)%Z) ->
  pres o rb -> PB o s -> PB o (fst (call_user rb u av s)).
Proof.
  intros A Hc Hb H. unfold call_user.
  pose proof (PB_log o (CallRec (now s) (u_reg u) av) s A Hc H) as H1.
  destruct (arity_ok (u_ar u) av); simpl; auto.
Qed.

Lemma cap_ge1 c : (1 <= cap c)%Z.
Proof. unfold cap. lia. Qed.

(* what call_user does to an absent registration's own count: exactly one more invocation *)
Lemma call_user_own rb u av s :
  absent (u_reg u) s -> stills (u_reg u) rb ->
  let s1 := fst (call_user rb u av s) in absent (u_reg u) s1 /\ (nc (u_reg u) s1 = nc (u_reg u) s + 1)%Z.
Proof.
  intros A Hb. unfold call_user.
  assert (A1 : absent (u_reg u) (log_call (CallRec (now s) (u_reg u) av) s)) by (destruct A; split; auto).
  assert (E1 : (nc (u_reg u) (log_call (CallRec (now s) (u_reg u) av) s) = nc (u_reg u) s + 1)%Z).
  { rewrite nc_log. simpl. rewrite N.eqb_refl. reflexivity. }
  destruct (arity_ok (u_ar u) av); simpl; auto.
  destruct (Hb _ A1) as [A2 E2]. split; auto. congruence.
Qed.

Lemma PB_wrapper o rb u p nm av cnt s :
  absent (u_reg u) s ->
  (forall r M, o = Some (r, M) -> u_reg u = r -> exists c, cnt = Some c /\ (nc r s + cap c = M)%Z) ->
  pres o rb -> stills (u_reg u) rb -> PB o s -> PB o (fst (wrapper_call rb u p nm av cnt s)).
Proof.
  intros A Hc Hb Hs H. unfold wrapper_call.
  assert (Hc1 : forall r M, o = Some (r, M) -> u_reg u = r -> (nc r s + 1 <= M)%Z).
  { intros r M Ho Hr. destruct (Hc r M Ho Hr) as [c [_ E]]. pose proof (cap_ge1 c). lia. }
  pose proof (PB_call_user o rb u av s A Hc1 Hb H) as H1.
  destruct (call_user_own rb u av s A Hs) as [A1 E1].
  destruct (call_user rb u av s) as [s1 x]. simpl in *.
  destruct (recurs (recur cnt)) eqn:R; simpl; auto.
  assert (Hf : forall r M, o = Some (r, M) -> holder_ok r M s1 (Wrap u p nm av (recur cnt))).
  { intros r M Ho Hr. simpl in Hr. destruct (Hc r M Ho Hr) as [c [-> E]].
    exists u, p, nm, av, (c - 1)%Z. split; auto. subst r. rewrite E1.
    unfold recurs, recur in R. simpl in R. unfold cap in *. lia. }
  pose proof (PB_addEvent o (Wrap u p nm av (recur cnt)) (now s1 + p) (option_map Named nm) noargs noargs s1 A1 Hf H1) as H2.
  destruct (addEvent _ _ _ _ _ s1) as [s2 [y|e]]; exact H2.
Qed.

Lemma absent_fresh s : Rinv s -> absent (nreg s) (bump_reg s).
Proof.
  intros (R1 & R2 & R3). split; simpl; [lia|]. intro X. specialize (R1 _ X). lia.
Qed.

Lemma fresh_not o s r M : PB o s -> o = Some (r, M) -> nreg s <> r.
Proof. intros [_ H] ->. destruct H as (A & _). lia. Qed.

Lemma PB_exec o a : pres o (exec a).
Proof.
  induction a; intros s H; simpl; auto.
  - pose proof (PB_bump_reg o s H) as H0.
    assert (A : absent (reg_of (Plain (UF (nreg s) tag ar a))) (bump_reg s)) by (apply absent_fresh; apply H).
    assert (Hf : forall r M, o = Some (r, M) -> holder_ok r M (bump_reg s) (Plain (UF (nreg s) tag ar a))).
    { intros r M Ho Hr. simpl in Hr. exfalso. exact (fresh_not o s r M H Ho Hr). }
    pose proof (PB_addEvent o (Plain (UF (nreg s) tag ar a)) (now s + dt) (option_map Named nm) av av (bump_reg s) A Hf H0) as H2.
    destruct (addEvent _ _ _ _ _ (bump_reg s)) as [s2 x]. exact H2.
  - pose proof (PB_bump_reg o s H) as H0.
    assert (A : absent (nreg s) (bump_reg s)) by (apply absent_fresh; apply H).
    destruct nowf.
    + apply PB_wrapper; auto.
      * intros r M Ho Hr. simpl in Hr. exfalso. exact (fresh_not o s r M H Ho Hr).
      * apply still_exec.
    + assert (Hf : forall r M, o = Some (r, M) -> holder_ok r M (bump_reg s) (Wrap (UF (nreg s) tag ar a) period nm av count)).
      { intros r M Ho Hr. simpl in Hr. exfalso. exact (fresh_not o s r M H Ho Hr). }
      pose proof (PB_addEvent o (Wrap (UF (nreg s) tag ar a) period nm av count) (now s + period) (option_map Named nm) noargs noargs (bump_reg s) A Hf H0) as H2.
      destruct (addEvent _ _ _ _ _ (bump_reg s)) as [s2 x]. exact H2.
  - pose proof (PB_removeEvent o n s H) as H1. destruct (removeEvent n s) as [s1 x]. exact H1.
  - apply PB_reschedule; auto.
  - specialize (IHa1 s H). destruct (exec a1 s) as [s1 [x|e]]; simpl in *; auto.
Qed.

Lemma PB_call_fn o f av s :
  absent (reg_of f) s -> (forall r M, o = Some (r, M) -> holder_ok r M s f) -> PB o s -> PB o (fst (call_fn f av s)).
Proof.
  intros A Hf H. destruct f as [u|u p nm uav cnt]; simpl in *.
  - apply PB_call_user; auto; [|apply PB_exec].
    intros r M Ho Hr. destruct (Hf r M Ho Hr) as (u' & p' & nm' & av' & c & E & _). discriminate.
  - destruct (argv_empty av); simpl; auto. apply PB_wrapper; auto; [|apply PB_exec|apply still_exec].
    intros r M Ho Hr. destruct (Hf r M Ho Hr) as (u' & p' & nm' & av' & c & E & Q). inversion E; subst. eauto.
Qed.

Lemma PB_run_loop o fuel : forall s, PB o s -> PB o (fst (run_loop fuel s)).
Proof.
  induction fuel as [|k IH]; intros s H; simpl.
  - eapply PB_ext; [| | |exact H]; reflexivity.
  - destruct (pop_min (oracle s) (heap s)) as [[[[e rr] oo] bad]|]; auto.
    destruct (due (e_t e) (now s)); auto.
    destruct (take_key (e_name e) (events s)) as [[f ev']|] eqn:T.
    + pose proof (take_key_perm _ _ _ _ T) as P.
      assert (H1 : PB o (popped e rr oo bad ev' s)) by (eapply PB_shrink; [exact P| | |exact H]; reflexivity).
      assert (A : absent (reg_of f) (popped e rr oo bad ev' s)) by (eapply absent_after_shrink; [apply H|exact P|reflexivity]).
      assert (Hf : forall r M, o = Some (r, M) -> holder_ok r M (popped e rr oo bad ev' s) f).
      { intros r M ->. destruct H as [_ (_ & _ & D)]. apply (D (e_name e) f). apply (take_key_some _ _ _ _ T). }
      pose proof (PB_call_fn o f (e_args e) _ A Hf H1) as H2.
      destruct (call_fn f (e_args e) (popped e rr oo bad ev' s)) as [s1 x]. rewrite ?after_call_never. apply IH. exact H2.
    + simpl. eapply PB_ext; [| | |exact H]; reflexivity.
Qed.

Lemma PB_run_ops o fuel ops : forall s, PB o s -> PB o (run_ops fuel ops s).
Proof.
  induction ops as [|op ops IH]; intros s H; simpl; auto. apply IH. destruct op; simpl.
  - apply PB_exec; auto. - apply PB_run_loop; auto. - eapply PB_ext; [| | |exact H]; reflexivity.
Qed.

Lemma Rinv_reach fuel o ops : Rinv (reach fuel o ops).
Proof.
  apply (PB_run_ops None fuel ops (init o)). split; auto. repeat split; simpl; try constructor; intros ? [].
Qed.

(* ---- registering a periodic event with count n establishes PB for it ---- *)
Lemma PB_register tag ar body p nm nowf av n s :
  Rinv s -> PB (Some (nreg s, cap n)) (fst (exec (APer tag ar body p nm nowf av (Some n)) s)).
Proof.
  intros R. simpl.
  assert (Z0 : nc (nreg s) (bump_reg s) = 0%Z).
  { destruct R as (_ & _ & R3). unfold nc. simpl.
    rewrite (proj1 (count_occ_not_In N.eq_dec _ _)); auto.
    intro X. apply in_map_iff in X. destruct X as [c [E Hc]]. specialize (R3 c Hc). lia. }
  assert (A : absent (nreg s) (bump_reg s)) by (apply absent_fresh; auto).
  assert (H0 : PB (Some (nreg s, cap n)) (bump_reg s)).
  { split; [apply (PB_bump_reg None s); split; auto|]. split; [simpl; lia|]. split; [rewrite Z0; pose proof (cap_ge1 n); lia|].
    intros k f Hin Hr. exfalso. destruct A as [_ A]. apply A. rewrite <- Hr. eapply in_eregs. exact Hin. }
  destruct nowf.
  - apply PB_wrapper; auto; [|apply PB_exec|apply still_exec].
    intros r M Ho _. inversion Ho; subst. exists n. split; auto. rewrite Z0. lia.
  - assert (Hf : forall r M, Some (nreg s, cap n) = Some (r, M) ->
                 holder_ok r M (bump_reg s) (Wrap (UF (nreg s) tag ar body) p nm av (Some n))).
    { intros r M Ho _. inversion Ho; subst. exists (UF (nreg s) tag ar body), p, nm, av, n. split; auto. rewrite Z0. lia. }
    pose proof (PB_addEvent _ (Wrap (UF (nreg s) tag ar body) p nm av (Some n)) (now s + p) (option_map Named nm) noargs noargs (bump_reg s) A Hf H0) as H2.
    destruct (addEvent _ _ _ _ _ (bump_reg s)) as [s2 x]. exact H2.
Qed.

(* =====================  history-level statements  ===================== *)
(* a periodic event registered with count n at any reachable state (top level), then any continuation:
   fired at most max n 1 times; while a holder of it is pending it is the wrapper with some remaining count c and
   fired + max c 1 = max n 1 *)
Lemma periodic_count fuel o ops tag ar body p nm nowf av n fuel2 ops2 :
  let s := reach fuel o ops in
  let r := nreg s in
  let s2 := run_ops fuel2 ops2 (fst (exec (APer tag ar body p nm nowf av (Some n)) s)) in
  (nc r s2 <= cap n)%Z /\
  forall k f, In (k, f) (events s2) -> reg_of f = r ->
    exists u p' nm' av' c, f = Wrap u p' nm' av' (Some c) /\ (nc r s2 + cap c = cap n)%Z.
Proof.
  intros s r s2.
  pose proof (PB_register tag ar body p nm nowf av n s (Rinv_reach fuel o ops)) as H1.
  pose proof (PB_run_ops _ fuel2 ops2 _ H1) as [_ (A & B & D)]. fold r s2 in A, B, D. split; auto.
Qed.

(* a registration nobody holds (finished, or removed) is never invoked again, whatever happens next *)
Lemma absent_forever r s fuel ops :
  absent r s -> absent r (run_ops fuel ops s) /\ nc r (run_ops fuel ops s) = nc r s.
Proof. apply still_run_ops. Qed.

(* removal by name stops the event for good (periodic or not) *)
Lemma remove_stops n s f fuel ops :
  Rinv s -> snd (removeEvent n s) = Ok f ->
  let s' := fst (removeEvent n s) in
  nc (reg_of f) (run_ops fuel ops s') = nc (reg_of f) s' /\ ~ In (reg_of f) (eregs (run_ops fuel ops s')).
Proof.
  intros R E s'. destruct (removeEvent_shape n s) as (C & N & P). rewrite E in P. fold s' in C, N, P.
  assert (A : absent (reg_of f) s') by (eapply absent_after_shrink; eauto).
  destruct (absent_forever _ _ fuel ops A) as [[_ A2] E2]. auto.
Qed.

(* ---- non-vacuity ---- *)
Definition per3 := APer 1 (Some 1%N) ARaise 2 (Some 0%N) false ([5%N], []) (Some 3).
Definition runs (k : nat) : list op := flat_map (fun _ => [OAdvance 3; ORun]) (repeat tt k).

(* count 3, f raises every time: fires exactly 3 times although we run 6 times; successors at clock+2 *)
Example per3_fires_three :
  let s := run_ops 9 (runs 6) (fst (exec per3 (init []))) in
  nc 0 s = 3%Z /\ map c_clock (calls s) = [9; 6; 3]%Z /\ map (fun p => e_t (p_e p)) (pops s) = [8; 5; 2]%Z /\ events s = [].
Proof. vm_compute. repeat split. Qed.

(* while pending: fired + remaining = 3 *)
Example per3_midway :
  let s := run_ops 9 (runs 1) (fst (exec per3 (init []))) in
  nc 0 s = 1%Z /\ exists u p nm av, events s = [(Named 0, Wrap u p nm av (Some 2))].
Proof. vm_compute. split; auto. repeat eexists. Qed.

(* removed after the first firing: one invocation, for ever *)
Example per3_removed :
  let s := run_ops 9 (runs 1 ++ [OAct (ARemove (Named 0))] ++ runs 4) (fst (exec per3 (init []))) in
  nc 0 s = 1%Z /\ events s = [] /\ heap s = [].
Proof. vm_compute. repeat split. Qed.

(* count = 0 behaves like count = 1 (cap): the code decrements first and tests count > 0 afterwards *)
Example per_count0_fires_once :
  let s := run_ops 9 (runs 3) (fst (exec (APer 1 None ANop 2 (Some 0%N) false noargs (Some 0)) (init []))) in
  nc 0 s = 1%Z /\ events s = [].
Proof. vm_compute. repeat split. Qed.
