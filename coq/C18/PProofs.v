(* C18/PProofs.v — the Scheduler plugin never has one user request scheduled twice, across reload and restart
   (the model of plugin.py is PModel.v).  Proof: an invariant of (schedule, counter, dict) that every command, the
   firing of events and -- item by item -- the loop of _restoreEvents preserve. *)
From Coq Require Import List NArith ZArith Bool Lia ZifyBool Permutation.
Import ListNotations.
Require Import Base.Wire Base.PyStr C18.Names C18.PModel C18.Aux.
Require gen.T18.

Definition snames (l : list sent) := map s_name l.
Definition scmds (l : list sent) := map s_cmd l.
Definition keys (d : list (name * pev)) := map fst d.
Definition kcmd (kv : name * pev) : N := pcmd (snd kv).
Definition uniq (d : list (name * pev)) := forall a b, In a d -> In b d -> kcmd a = kcmd b -> fst a = fst b.
Definition typed (d : list (name * pev)) := forall k t c r, In (k, PSingle t c r) d -> exists i, k = Auto i.
Definition typedr (d : list (name * pev)) := forall k p c f, In (k, PRepeat p c f) d -> exists j, k = Named j.
Definition link (S : list sent) (d : list (name * pev)) := forall e kv, In e S -> In kv d -> kcmd kv = s_cmd e -> fst kv = s_name e.

(* S, c: schedule and counter; D: the dict of the loaded instance; R: the pickled items _restoreEvents still has to
   process ([] outside of it); nc: number of requests so far *)
Record LINV (S : list sent) (c : N) (D R : list (name * pev)) (nc : N) : Prop := {
  q_names : NoDup (snames S);
  q_cmds : NoDup (scmds S);                  (* <- the claim: no request has two schedule entries *)
  q_kD : NoDup (keys D);  q_uD : uniq D;  q_tD : typed D;
  q_kR : NoDup (keys R);  q_uR : uniq R;  q_tR : typed R;
  q_x : forall a b, In a D -> In b R -> kcmd a <> kcmd b;
  q_lD : link S D;  q_lR : link S R;
  q_auto : forall e i, In e S -> s_name e = Auto i -> (i < c)%N;
  q_fs : forall e, In e S -> (s_cmd e < nc)%N;
  q_fD : forall kv, In kv D -> (kcmd kv < nc)%N;
  q_fR : forall kv, In kv R -> (kcmd kv < nc)%N;
  q_rD : typedr D;  q_rR : typedr R }.

Definition linv (s : pst) (R : list (name * pev)) : Prop := LINV (p_sched s) (p_counter s) (p_dict s) R (p_ncmd s).
Definition pinv (s : pst) : Prop := linv s [].

Lemma table_passes_id : gen.T18.RESTORE_PASSES_ID = true.
Proof. reflexivity. Qed.

Lemma shas_In n l : shas n l = true <-> In n (snames l).
Proof.
  unfold shas, snames. rewrite existsb_exists. split.
  - intros [e [He E]]. apply name_eqb_eq in E. subst. apply in_map. auto.
  - intros H. apply in_map_iff in H. destruct H as [e [E He]]. exists e. split; auto. apply name_eqb_eq. auto.
Qed.

Lemma dset_in k v d kv : In kv (dset k v d) -> kv = (k, v) \/ In kv d.
Proof.
  induction d as [|[k' v'] d IH]; simpl.
  - intros [H|[]]; auto.
  - destruct (name_eqb k' k); simpl; intros [H|H]; auto; try (destruct (IH H); auto).
Qed.

Lemma dset_keys_in k v d x : In x (keys (dset k v d)) -> x = k \/ In x (keys d).
Proof.
  intros H. apply in_map_iff in H. destruct H as [kv [E Hk]]. destruct (dset_in _ _ _ _ Hk) as [->|Hd]; auto.
  right. rewrite <- E. apply in_map. auto.
Qed.

Lemma dset_keys k v d : NoDup (keys d) -> NoDup (keys (dset k v d)).
Proof.
  induction d as [|[k' v'] d IH]; simpl; intros ND.
  - constructor; [intros []|constructor].
  - inversion ND; subst. destruct (name_eqb k' k) eqn:E; simpl.
    + apply name_eqb_eq in E. subst. constructor; auto.
    + constructor; auto. intro X. destruct (dset_keys_in _ _ _ _ X) as [->|X2]; auto.
      apply name_eqb_neq in E. congruence.
Qed.

(* ---- one scheduling attempt: refused (name taken), or a new entry under a name that was free ---- *)
Lemma s_add_cases t nm cmd rem per s :
  let r := s_add t nm cmd rem per s in
  p_dict (fst r) = p_dict s /\ p_ncmd (fst r) = p_ncmd s /\ (p_counter s <= p_counter (fst r))%N /\
  ((p_sched (fst r) = p_sched s /\ (exists e, snd r = Raise e) /\ (forall n, nm = Some n -> In n (snames (p_sched s))))
   \/ exists n, snd r = Ok n /\ p_sched (fst r) = SE t n (p_gen s) cmd rem per :: p_sched s /\ ~ In n (snames (p_sched s)) /\
        (nm = Some n \/ (nm = None /\ n = Auto (p_counter s) /\ p_counter (fst r) = (p_counter s + 1)%N))).
Proof.
  unfold s_add. destruct nm as [n|]; simpl.
  - destruct (shas n (p_sched s)) eqn:E; simpl; repeat split; auto; try lia.
    + left. repeat split; eauto. intros n0 H. inversion H; subst. apply shas_In; auto.
    + right. exists n. repeat split; auto. intro X. apply shas_In in X. congruence.
  - destruct (shas (Auto (p_counter s)) (p_sched s)) eqn:E; simpl; repeat split; auto; try lia.
    + left. repeat split; eauto. intros n0 H. discriminate.
    + right. exists (Auto (p_counter s)). repeat split; auto. intro X. apply shas_In in X. congruence.
Qed.

(* the common core of _add / _repeat on an item (K, ev) that is the head of the to-do list R, or a brand-new request
   (R untouched, K irrelevant): after the attempt the dict gets ev under the id on success, under K when refused *)
Definition attempt (t : Z) (nm : option name) (K : name) (ev : pev) (rem : bool) (per : option Z) (s : pst) : pst :=
  match s_add t nm (pcmd ev) rem per s with
  | (s1, Ok id) => set_dict (dset id ev (p_dict s1)) s1
  | (s1, Raise _) => set_dict (dset K ev (p_dict s1)) s1
  end.

Lemma linv_attempt t nm K ev rem per s R :
  linv s ((K, ev) :: R) ->
  (nm = Some K \/ (nm = None /\ ~ In (pcmd ev) (scmds (p_sched s)))) ->
  (forall tt c r, ev = PSingle tt c r -> nm = None \/ exists i, K = Auto i) ->
  (forall i, K = Auto i -> nm = Some K -> (i < p_counter s)%N) ->
  (forall p c f, ev = PRepeat p c f -> nm = Some K) ->
  linv (attempt t nm K ev rem per s) R.
Proof.
  intros [Q1 Q2 Q3 Q4 Q5 Q6 Q7 Q8 Q9 Q10 Q11 Q12 Q13 Q14 Q15 Q16 Q17] Hnm Hty Hty_auto0 Hrep. unfold attempt.
  destruct (s_add_cases t nm (pcmd ev) rem per s) as (Ed & En & Ec & Hc).
  assert (HinR : In (K, ev) ((K, ev) :: R)) by (left; auto).
  assert (NotR : forall b, In b R -> kcmd b <> pcmd ev).
  { intros b Hb E. inversion Q6; subst. apply H1. change K with (fst (K, ev)).
    rewrite <- (Q7 b (K, ev) (or_intror Hb) HinR E). apply in_map. exact Hb. }
  assert (NotD : forall a, In a (p_dict s) -> kcmd a <> pcmd ev) by (intros a Ha; apply (Q9 a (K, ev) Ha HinR)).
  destruct (s_add t nm (pcmd ev) rem per s) as [s1 [id|ex]]; simpl in *.
  - (* scheduled under id *)
    destruct Hc as [(_ & [e X] & _)|(n & Eok & ES & Hfree & Hn)]; [discriminate|]. inversion Eok; subst n. clear Eok.
    assert (Cfree : ~ In (pcmd ev) (scmds (p_sched s))).
    { destruct Hnm as [->|[_ H]]; auto. intro X. apply in_map_iff in X. destruct X as [e [Ee He]].
      pose proof (Q11 e (K, ev) He HinR (eq_sym Ee)) as Hk. simpl in Hk.
      destruct Hn as [Hs|[Hs _]]; [|discriminate]. inversion Hs; subst id. apply Hfree. rewrite Hk. apply in_map. exact He. }
    unfold linv. simpl. rewrite ES, Ed, En. constructor; simpl.
    + constructor; auto.
    + constructor; auto.
    + apply dset_keys; auto.
    + intros a b Ha Hb E. destruct (dset_in _ _ _ _ Ha) as [->|Ha']; destruct (dset_in _ _ _ _ Hb) as [->|Hb']; auto.
      * exfalso. apply (NotD b Hb'). symmetry. exact E.
      * exfalso. apply (NotD a Ha'). exact E.
    + intros k tt c r Hin. destruct (dset_in _ _ _ _ Hin) as [X|X]; [|eapply Q5; eauto].
      inversion X; subst. destruct Hn as [Hs|[Hs [-> _]]]; [|eauto].
      destruct (Hty tt c r eq_refl) as [Y|[i Y]]; [congruence|]. destruct Hnm as [Hk|[Hk _]]; [|congruence].
      rewrite Hk in Hs. inversion Hs; subst. eauto.
    + inversion Q6; auto.
    + intros a b Ha Hb. apply Q7; right; auto.
    + intros k tt c r Hin. eapply Q8. right. exact Hin.
    + intros a b Ha Hb. destruct (dset_in _ _ _ _ Ha) as [->|Ha']; [|apply Q9; auto; right; auto].
      intro E. apply (NotR b Hb). symmetry. exact E.
    + intros e kv [<-|He] Hk E; simpl in *.
      * destruct (dset_in _ _ _ _ Hk) as [->|Hk']; auto. exfalso. apply (NotD kv Hk'). exact E.
      * destruct (dset_in _ _ _ _ Hk) as [->|Hk']; [|apply Q10; auto].
        exfalso. apply Cfree. unfold kcmd in E. simpl in E. rewrite E. apply in_map. exact He.
    + intros e kv [<-|He] Hk E; simpl in *.
      * exfalso. apply (NotR kv Hk). exact E.
      * apply Q11; auto. right. exact Hk.
    + intros e i [<-|He] Hi; simpl in *.
      * destruct Hn as [Hs|[_ [-> Hcc]]].
        -- destruct Hnm as [Hk|[Hk _]]; [|congruence]. rewrite Hk in Hs. inversion Hs; subst.
           (* re-scheduling under the old id K = Auto i: only attempted when the counter is past it -- supplied by the caller *)
           specialize (Hty_auto0 i eq_refl eq_refl). lia.
        -- inversion Hi; subst. lia.
      * specialize (Q12 e i He Hi). lia.
    + intros e [<-|He]; simpl; auto. apply (Q15 (K, ev) HinR).
    + intros kv Hk. destruct (dset_in _ _ _ _ Hk) as [->|Hk']; auto. apply (Q15 (K, ev) HinR).
    + intros kv Hk. apply Q15. right. exact Hk.
    + intros k p c f Hin. destruct (dset_in _ _ _ _ Hin) as [X|X]; [|eapply Q16; eauto].
      inversion X; subst. destruct Hn as [Hs|[Hs _]]; [|rewrite (Hrep p c f eq_refl) in Hs; discriminate].
      rewrite (Hrep p c f eq_refl) in Hs. inversion Hs; subst. eapply Q17. left. reflexivity.
    + intros k p c f Hin. eapply Q17. right. exact Hin.
  - (* refused: the name is scheduled; the item goes to the dict under its old key *)
    destruct Hc as [(ES & _ & Hin)|(n & Eok & _)]; [|discriminate].
    unfold linv. simpl. rewrite ES, Ed, En. constructor; simpl.
    + exact Q1.
    + exact Q2.
    + apply dset_keys; auto.
    + intros a b Ha Hb E. destruct (dset_in _ _ _ _ Ha) as [->|Ha']; destruct (dset_in _ _ _ _ Hb) as [->|Hb']; auto.
      * exfalso. apply (NotD b Hb'). symmetry. exact E.
      * exfalso. apply (NotD a Ha'). exact E.
    + intros k tt c r Hin2. destruct (dset_in _ _ _ _ Hin2) as [X|X]; [|eapply Q5; eauto].
      inversion X; subst. eapply Q8. left. reflexivity.
    + inversion Q6; auto.
    + intros a b Ha Hb. apply Q7; right; auto.
    + intros k tt c r Hin2. eapply Q8. right. exact Hin2.
    + intros a b Ha Hb. destruct (dset_in _ _ _ _ Ha) as [->|Ha']; [|apply Q9; auto; right; auto].
      intro E. apply (NotR b Hb). symmetry. exact E.
    + intros e kv He Hk E. destruct (dset_in _ _ _ _ Hk) as [->|Hk']; [|apply Q10; auto].
      apply (Q11 e (K, ev) He HinR E).
    + intros e kv He Hk E. apply Q11; auto. right. exact Hk.
    + intros e i He Hi. specialize (Q12 e i He Hi). lia.
    + exact Q13.
    + intros kv Hk. destruct (dset_in _ _ _ _ Hk) as [->|Hk']; [apply (Q15 (K, ev) HinR)|auto].
    + intros kv Hk. apply Q15. right. exact Hk.
    + intros k p c f Hin2. destruct (dset_in _ _ _ _ Hin2) as [X|X]; [|eapply Q16; eauto].
      inversion X; subst. eapply Q17. left. reflexivity.
    + intros k p c f Hin2. eapply Q17. right. exact Hin2.
Qed.

(* ---- one iteration of the loop of _restoreEvents ---- *)
Lemma restore_one_inv s K ev R : linv s ((K, ev) :: R) -> linv (restore_one s (K, ev)) R.
Proof.
  intros H. pose proof H as [Q1 Q2 Q3 Q4 Q5 Q6 Q7 Q8 Q9 Q10 Q11 Q12 Q13 Q14 Q15 Q16 Q17].
  assert (HinR : In (K, ev) ((K, ev) :: R)) by (left; auto).
  destruct ev as [t cmd rem|period cmd first]; unfold restore_one; rewrite ?table_passes_id.
  - set (n := match key_int K with Some i => if (i <? p_counter s)%N then Some (Auto i) else None | None => None end).
    assert (E : (match p_add t cmd rem n s with (s1, Ok _) => s1 | (s1, Raise _) => set_dict (dset K (PSingle t cmd rem) (p_dict s1)) s1 end)
                = attempt t n K (PSingle t cmd rem) rem None s).
    { unfold p_add, attempt. simpl pcmd. destruct (s_add t n cmd rem None s) as [s1 [id|e]]; reflexivity. }
    rewrite E. destruct (Q8 K t cmd rem HinR) as [i Ki]. subst K. simpl in n.
    apply linv_attempt; auto.
    + unfold n. destruct (i <? p_counter s)%N eqn:L; [left; reflexivity|right]. split; auto.
      intro X. apply in_map_iff in X. destruct X as [e [Ee He]].
      pose proof (Q11 e (Auto i, PSingle t cmd rem) He HinR (eq_sym Ee)) as Hk. simpl in Hk.
      specialize (Q12 e i He (eq_sym Hk)). lia.
    + intros tt c r _. right. eauto.
    + intros j Ej Hn. inversion Ej; subst j. unfold n in Hn. destruct (i <? p_counter s)%N eqn:L; [lia|discriminate].
    + intros p c f X. discriminate.
  - assert (E : (match p_repeat K period cmd first (next_run_in first (p_now s) period) s with
                 | (s1, Ok _) => s1 | (s1, Raise _) => set_dict (dset K (PRepeat period cmd first) (p_dict s1)) s1 end)
                = attempt (p_now s + next_run_in first (p_now s) period) (Some K) K (PRepeat period cmd first) false (Some period) s).
    { unfold p_repeat, attempt, s_add. simpl pcmd. destruct (shas K (p_sched s)); reflexivity. }
    rewrite E. destruct (Q17 K period cmd first HinR) as [j Kj]. subst K.
    apply linv_attempt; auto.
    + intros tt c r X. discriminate.
    + intros i X. discriminate.
Qed.

Lemma restore_all R : forall s, linv s R -> pinv (fold_left restore_one R s).
Proof.
  induction R as [|[K ev] R IH]; intros s H; simpl; auto. apply IH. apply restore_one_inv. exact H.
Qed.

(* a new instance: empty dict, the old dict's content to process -- on the same schedule (reload) or an empty one (restart) *)
Lemma load_inv s : pinv s -> pinv (p_load (p_die s)).
Proof.
  intros [Q1 Q2 Q3 Q4 Q5 _ _ _ _ Q10 _ Q12 Q13 Q14 _ Q16 _]. unfold p_load, p_die. simpl. apply restore_all.
  unfold linv. simpl. constructor; auto; try constructor;
    unfold uniq, typed, typedr, link; intros;
    repeat match goal with H : In _ [] |- _ => destruct H end.
Qed.

Lemma restart_inv s : pinv s ->
  pinv (p_load (PS [] 0%N (p_now (p_die s)) (p_gen (p_die s)) (p_dict (p_die s)) (p_pickle (p_die s)) (p_ncmd (p_die s)) (p_log (p_die s)))).
Proof.
  intros [Q1 Q2 Q3 Q4 Q5 _ _ _ _ Q10 _ Q12 Q13 Q14 _ Q16 _]. unfold p_load, p_die. simpl. apply restore_all.
  unfold linv. simpl. constructor; auto; try constructor;
    unfold uniq, typed, typedr, link; intros;
    repeat match goal with H : In _ [] |- _ => destruct H end.
Qed.

(* ---- a brand-new request: a fresh command, to be scheduled under name nm ---- *)
Lemma fresh_item s K ev :
  pinv s -> pcmd ev = p_ncmd s ->
  (forall t c r, ev = PSingle t c r -> exists i, K = Auto i) -> (forall p c f, ev = PRepeat p c f -> exists j, K = Named j) ->
  linv (snd (fresh_cmd s)) [(K, ev)].
Proof.
  intros [Q1 Q2 Q3 Q4 Q5 _ _ _ _ Q10 _ Q12 Q13 Q14 _ Q16 _] Hc T1 T2. unfold linv, fresh_cmd. simpl.
  constructor; auto.
  - constructor; [intros []|constructor].
  - intros a b [<-|[]] [<-|[]] _. reflexivity.
  - intros k t c r [X|[]]. inversion X; subst. eauto.
  - intros a b Ha [<-|[]]. unfold kcmd at 2. simpl. rewrite Hc. specialize (Q14 a Ha). lia.
  - intros e kv He [<-|[]] E. unfold kcmd in E. simpl in E. rewrite Hc in E. specialize (Q13 e He). lia.
  - intros e He. specialize (Q13 e He). lia.
  - intros kv Hk. specialize (Q14 kv Hk). lia.
  - intros kv [<-|[]]. unfold kcmd. simpl. rewrite Hc. lia.
  - intros k p c f [X|[]]. inversion X; subst. eauto.
Qed.

(* with name=None addEvent never refuses *)
Lemma s_add_auto_ok t cmd rem per s : (forall e i, In e (p_sched s) -> s_name e = Auto i -> (i < p_counter s)%N) ->
  exists s1 id, s_add t None cmd rem per s = (s1, Ok id).
Proof.
  intros H. unfold s_add. simpl. destruct (shas (Auto (p_counter s)) (p_sched s)) eqn:E; eauto.
  apply shas_In in E. apply in_map_iff in E. destruct E as [e [En He]]. specialize (H e _ He En). lia.
Qed.

Lemma add_inv secs rem s : pinv s ->
  pinv (let '(c, s1) := fresh_cmd s in fst (p_add (p_now s + secs) c rem None s1)).
Proof.
  intros H. simpl.
  set (s1 := snd (fresh_cmd s)). set (ev := PSingle (p_now s + secs) (p_ncmd s) rem).
  assert (L : linv s1 [(Auto 0, ev)]) by (apply fresh_item; auto; [intros; eauto|intros; discriminate]).
  assert (E : fst (p_add (p_now s + secs) (p_ncmd s) rem None s1) = attempt (p_now s + secs) None (Auto 0) ev rem None s1).
  { unfold p_add, attempt. simpl pcmd.
    destruct (s_add_auto_ok (p_now s + secs) (p_ncmd s) rem None s1 (q_auto _ _ _ _ _ L)) as (s2 & id & X). rewrite X. reflexivity. }
  change (fst (p_add (p_now s + secs) (p_ncmd s) rem None (PS (p_sched s) (p_counter s) (p_now s) (p_gen s) (p_dict s) (p_pickle s) (p_ncmd s + 1)%N (p_log s))))
    with (fst (p_add (p_now s + secs) (p_ncmd s) rem None s1)).
  rewrite E. apply linv_attempt; auto.
  - right. split; auto. intro X. apply in_map_iff in X. destruct X as [e [Ee He]].
    pose proof (q_fs _ _ _ _ _ H e He). simpl in Ee. lia.
  - intros i _ X. discriminate.
  - intros p c f X. discriminate.
Qed.

Lemma weaken_nc S c D nc : LINV S c D [] nc -> LINV S c D [] (nc + 1)%N.
Proof.
  intros [Q1 Q2 Q3 Q4 Q5 Q6 Q7 Q8 Q9 Q10 Q11 Q12 Q13 Q14 Q15 Q16 Q17]. constructor; auto.
  - intros e He. specialize (Q13 e He). lia.
  - intros kv Hk. specialize (Q14 kv Hk). lia.
  - intros kv [].
Qed.

Lemma ddel_in k d kv : In kv (ddel k d) -> In kv d.
Proof. unfold ddel. intros H. apply filter_In in H. tauto. Qed.

Lemma repeat_inv k period delay s : pinv s -> pinv (pstep (QRepeat k period delay) s).
Proof.
  intros H. unfold pstep, fresh_cmd. cbv beta iota zeta.
  set (s1 := PS (p_sched s) (p_counter s) (p_now s) (p_gen s) (p_dict s) (p_pickle s) (p_ncmd s + 1)%N (p_log s)).
  assert (W : pinv s1) by (apply weaken_nc; exact H).
  destruct (dhas (Named k) (p_dict s1)); [exact W|].
  set (ev := PRepeat period (p_ncmd s) (p_now s + delay)).
  assert (L : linv s1 [(Named k, ev)]) by (apply (fresh_item s (Named k) ev); auto; [intros; discriminate|intros; eauto]).
  assert (A : fst (p_repeat (Named k) period (p_ncmd s) (p_now s + delay) delay s1) = s1 \/
              fst (p_repeat (Named k) period (p_ncmd s) (p_now s + delay) delay s1) =
              attempt (p_now s + delay) (Some (Named k)) (Named k) ev false (Some period) s1).
  { unfold p_repeat, attempt, s_add. simpl. destruct (shas (Named k) (p_sched s)); simpl; auto. }
  destruct A as [A|A]; rewrite A; [exact W|].
  apply linv_attempt; auto.
  - intros t c r X. discriminate.
  - intros i X. discriminate.
Qed.

(* sub-schedules and sub-dicts *)
Lemma sub_inv S c D nc (p : sent -> bool) (q : name * pev -> bool) :
  LINV S c D [] nc -> LINV (filter p S) c (filter q D) [] nc.
Proof.
  intros [Q1 Q2 Q3 Q4 Q5 Q6 Q7 Q8 Q9 Q10 Q11 Q12 Q13 Q14 Q15 Q16 Q17]. constructor.
  - apply NoDup_map_filter; auto.
  - apply NoDup_map_filter; auto.
  - apply NoDup_map_filter; auto.
  - intros a b Ha Hb. apply filter_In in Ha, Hb. apply Q4; tauto.
  - intros k t c0 r Hin. apply filter_In in Hin. eapply Q5; apply Hin.
  - exact Q6.
  - exact Q7.
  - exact Q8.
  - intros a b Ha [].
  - intros e kv He Hk. apply filter_In in He, Hk. apply Q10; tauto.
  - intros e kv He [].
  - intros e i He. apply filter_In in He. apply Q12; tauto.
  - intros e He. apply filter_In in He. apply Q13; tauto.
  - intros kv Hk. apply filter_In in Hk. apply Q14; tauto.
  - exact Q15.
  - intros k p0 c0 f Hin. apply filter_In in Hin. eapply Q16; apply Hin.
  - exact Q17.
Qed.

Lemma filter_true {A} (l : list A) : filter (fun _ => true) l = l.
Proof. induction l; simpl; congruence. Qed.

Lemma remove_inv key s : pinv s -> pinv (pstep (QRemove key) s).
Proof.
  intros H. unfold pstep. destruct (dhas key (p_dict s)); auto. unfold pinv, linv. simpl. apply sub_inv. exact H.
Qed.

(* ---- events fire ---- *)
Lemma stake_some p l e r : stake p l = Some (e, r) -> Permutation l (e :: r).
Proof.
  revert e r. induction l as [|x l IH]; simpl; intros e r H; [discriminate|].
  destruct (p x).
  - inversion H; subst. reflexivity.
  - destruct (stake p l) as [[y r']|]; [|discriminate]. inversion H; subst. rewrite (IH _ _ eq_refl). apply perm_swap.
Qed.

Lemma fire_inv e rest s : pinv s -> Permutation (p_sched s) (e :: rest) -> pinv (p_fire e (set_sched rest s)).
Proof.
  intros H P. pose proof H as [Q1 Q2 Q3 Q4 Q5 Q6 Q7 Q8 Q9 Q10 Q11 Q12 Q13 Q14 Q15 Q16 Q17].
  assert (Hrest : forall x, In x rest -> In x (p_sched s)) by (intros x Hx; eapply Permutation_in; [apply Permutation_sym; exact P|right; auto]).
  assert (He : In e (p_sched s)) by (eapply Permutation_in; [apply Permutation_sym; exact P|left; auto]).
  assert (N1 : NoDup (snames (e :: rest))) by (unfold snames; rewrite <- P; exact Q1).
  assert (N2 : NoDup (scmds (e :: rest))) by (unfold scmds; rewrite <- P; exact Q2).
  assert (R0 : forall D', (forall kv, In kv D' -> In kv (p_dict s)) -> NoDup (keys D') -> LINV rest (p_counter s) D' [] (p_ncmd s)).
  { intros D' Hsub ND. constructor.
    - inversion N1; auto.
    - inversion N2; auto.
    - exact ND.
    - intros a b Ha Hb. apply Q4; auto.
    - intros k t c r Hin. eapply Q5; eauto.
    - exact Q6.
    - exact Q7.
    - exact Q8.
    - intros a b _ [].
    - intros x kv Hx Hk. apply Q10; auto.
    - intros x kv _ [].
    - intros x i Hx. apply Q12; auto.
    - intros x Hx. apply Q13; auto.
    - intros kv Hk. apply Q14; auto.
    - exact Q15.
    - intros k p c f Hin. eapply Q16; eauto.
    - exact Q17. }
  unfold p_fire. simpl. destruct (s_period e) as [period|].
  - (* a repeat re-adds itself under its name *)
    unfold pinv, linv. simpl. constructor.
    + exact N1.
    + exact N2.
    + exact Q3.
    + exact Q4.
    + exact Q5.
    + exact Q6.
    + exact Q7.
    + exact Q8.
    + exact Q9.
    + intros x kv [<-|Hx] Hk E; simpl in *; [apply (Q10 e kv He Hk E)|apply Q10; auto].
    + intros x kv _ [].
    + intros x i [<-|Hx]; simpl; [apply Q12; auto|apply Q12; auto].
    + intros x [<-|Hx]; simpl; [apply Q13; auto|apply Q13; auto].
    + exact Q14.
    + exact Q15.
    + exact Q16.
    + exact Q17.
  - destruct (N.eqb (s_gen e) (p_gen s)).
    + destruct (dhas (s_name e) (p_dict s)).
      * unfold pinv, linv. simpl. apply R0; [intros kv Hk; eapply ddel_in; eauto|apply NoDup_map_filter; auto].
      * destruct (s_rem e); unfold pinv, linv; simpl; apply R0; auto.
    + unfold pinv, linv. simpl. apply R0; auto.
Qed.

Lemma loop_inv fuel : forall s, pinv s -> pinv (p_loop fuel s).
Proof.
  induction fuel as [|k IH]; intros s H; simpl; auto.
  destruct (stake (is_smin (p_sched s)) (p_sched s)) as [[e rest]|] eqn:T; auto.
  destruct (s_t e <? p_now s)%Z; auto. apply IH. apply fire_inv; auto. apply (stake_some _ _ _ _ T).
Qed.

Lemma pstep_inv o s : pinv s -> pinv (pstep o s).
Proof.
  intros H. destruct o.
  - apply (add_inv secs false s H).
  - apply (add_inv secs true s H).
  - apply repeat_inv; auto.
  - apply remove_inv; auto.
  - apply load_inv; auto.
  - apply restart_inv; auto.
  - exact H.
  - apply loop_inv; auto.
Qed.

Lemma pinit_inv : pinv pinit.
Proof.
  unfold pinv, linv. simpl. constructor; try constructor;
    unfold uniq, typed, typedr, link; intros; repeat match goal with H : In _ [] |- _ => destruct H end.
Qed.

Lemma prun_ops_inv ops : forall s, pinv s -> pinv (prun_ops ops s).
Proof. induction ops as [|o ops IH]; intros s H; simpl; auto. apply IH. apply pstep_inv; auto. Qed.

(* no user request ever has two schedule entries: across add / remind / repeat / remove, events firing, reload, restart *)
Lemma plugin_scheduled_once ops :
  let s := prun_ops ops pinit in NoDup (map s_cmd (p_sched s)) /\ NoDup (map s_name (p_sched s)).
Proof.
  intros s. pose proof (prun_ops_inv ops pinit pinit_inv) as H. split; [apply (q_cmds _ _ _ _ _ H)|apply (q_names _ _ _ _ _ H)].
Qed.

(* a schedule entry and the dict entry of the same request agree on the id: `scheduler remove <id>` hits it *)
Lemma plugin_listed_id ops e kv :
  let s := prun_ops ops pinit in
  In e (p_sched s) -> In kv (p_dict s) -> pcmd (snd kv) = s_cmd e -> fst kv = s_name e.
Proof. intros s. apply (q_lD _ _ _ _ _ (prun_ops_inv ops pinit pinit_inv)). Qed.

(* ---- non-vacuity / the two behaviours at stake ---- *)
(* two one-shots pending, reload, remove #1, time passes: request 0 runs once, request 1 never *)
Example reload_keeps_ids :
  let s := prun_ops [QAdd 5; QAdd 5; QReload; QRemove (Auto 1); QAdvance 6; QRun; QAdvance 6; QRun] pinit in
  map snd (p_log s) = [0%N] /\ p_sched s = [] /\ p_counter s = 2%N.
Proof. vm_compute. repeat split. Qed.

(* finding C18.F24, in the model: add, reload, the event fires, reload again: it is scheduled and run a second time,
   because the closure of the dead instance did not delete it from the new instance's dict *)
Example stale_after_reload :
  let s1 := prun_ops [QAdd 2; QReload; QAdvance 3; QRun] pinit in
  let s2 := prun_ops [QReload; QAdvance 1; QRun] s1 in
  map snd (p_log s1) = [0%N] /\ map fst (p_dict s1) = [Auto 0] /\ map snd (p_log s2) = [0%N; 0%N].
Proof. vm_compute. repeat split. Qed.
